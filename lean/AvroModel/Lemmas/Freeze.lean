import AvroModel.Impl.Freeze
/-
Structural lemmas about the freeze event trace (`Impl/Freeze.lean`), used by `Theorems/C10.lean`.
-/
namespace Avro.Lemmas.Freeze
open Avro Avro.Impl Avro.Impl.Freeze

/-- index of a phase-1 write (the function `initialisedBefore` filters with). -/
def w1idx (e : Ev) : Option Nat := match e with | .write 1 i => some i | _ => none

theorem initialisedBefore_eq (evs : List Ev) (p : Nat) :
    initialisedBefore evs p = (evs.take p).filterMap w1idx := rfl

@[simp] theorem w1idx_write1 (i : Nat) : w1idx (.write 1 i) = some i := rfl
@[simp] theorem w1idx_write2 (i : Nat) : w1idx (.write 2 i) = none := rfl
@[simp] theorem w1idx_mkRef (k : Nat) : w1idx (.mkRef k) = none := rfl
@[simp] theorem w1idx_readKind (k : Nat) : w1idx (.readKind k) = none := rfl
@[simp] theorem w1idx_alloc (k : Nat) : w1idx (.alloc k) = none := rfl
@[simp] theorem w1idx_ret (b : Bool) : w1idx (.ret b) = none := rfl

/-- child keys of cell `i` as phase 1 sees them -/
def kids (S : SchemaMut) (i : Nat) : List Nat :=
  (S[i]?.map fun n => (freezeNode n).children).getD []

/-! ### phase 1, one node -/

theorem phase1Node_go_eq (len i : Nat) (cs : List Nat) (acc : List Ev) :
    phase1Node.go len i cs acc =
      (acc ++ (cs.takeWhile (· < len)).map Ev.mkRef ++
        (if cs.all (· < len) then [Ev.write 1 i] else []), cs.all (· < len)) := by
  induction cs generalizing acc with
  | nil => simp [phase1Node.go]
  | cons c rest ih =>
    by_cases hc : c < len
    · simp [phase1Node.go, hc, ih]
    · simp [phase1Node.go, hc]

theorem phase1Node_eq (len i : Nat) (cs : List Nat) :
    phase1Node len i cs =
      ((cs.takeWhile (· < len)).map Ev.mkRef ++
        (if cs.all (· < len) then [Ev.write 1 i] else []), cs.all (· < len)) := by
  unfold phase1Node
  rw [phase1Node_go_eq]
  simp

theorem phase1Node_snd (len i : Nat) (cs : List Nat) :
    (phase1Node len i cs).2 = cs.all (· < len) := by
  rw [phase1Node_eq]

theorem mem_takeWhile_imp {α} {p : α → Bool} {l : List α} {a : α} (h : a ∈ l.takeWhile p) :
    p a = true := by
  induction l with
  | nil => simp at h
  | cons x xs ih =>
    rw [List.takeWhile_cons] at h
    split at h
    · rcases List.mem_cons.1 h with rfl | h
      · assumption
      · exact ih h
    · simp at h

theorem phase1Node_mem {len i : Nat} {cs : List Nat} {e : Ev}
    (h : e ∈ (phase1Node len i cs).1) :
    (∃ k, e = .mkRef k ∧ k < len ∧ k ∈ cs) ∨ (e = .write 1 i ∧ cs.all (· < len) = true) := by
  rw [phase1Node_eq] at h
  simp only [List.mem_append, List.mem_map] at h
  rcases h with ⟨k, hk, rfl⟩ | h
  · left
    refine ⟨k, rfl, ?_, (List.takeWhile_sublist _).subset hk⟩
    have := mem_takeWhile_imp hk
    simpa using this
  · right
    split at h
    · rename_i hall
      simp at h
      exact ⟨h, hall⟩
    · simp at h

theorem phase1Node_filterMap (len i : Nat) (cs : List Nat) :
    (phase1Node len i cs).1.filterMap w1idx = if (phase1Node len i cs).2 then [i] else [] := by
  rw [phase1Node_eq]
  simp only [List.filterMap_append]
  have : ((cs.takeWhile (· < len)).map Ev.mkRef).filterMap w1idx = [] := by
    simp [List.filterMap_eq_nil_iff]
  rw [this]
  split <;> simp

/-! ### phase 1, all nodes -/

theorem phase1_nil (S : SchemaMut) (len : Nat) : phase1 S len [] = ([], true) := by
  simp [phase1]

theorem phase1_cons (S : SchemaMut) (len i : Nat) (rest : List Nat) :
    phase1 S len (i :: rest) =
      if (phase1Node len i (kids S i)).2 = true then
        ((phase1Node len i (kids S i)).1 ++ (phase1 S len rest).1, (phase1 S len rest).2)
      else ((phase1Node len i (kids S i)).1, false) := by
  rw [phase1]
  unfold kids
  split
  · rename_i evs h; simp [h]
  · rename_i evs h; simp [h]

/-- everything phase 1 emits is an in-bounds `mkRef` or a phase-1 write of a listed cell. -/
theorem phase1_mem {S : SchemaMut} {len : Nat} {idxs : List Nat} {e : Ev}
    (h : e ∈ (phase1 S len idxs).1) :
    (∃ k, e = .mkRef k ∧ k < len) ∨ (∃ i, e = .write 1 i ∧ i ∈ idxs) := by
  induction idxs with
  | nil => simp [phase1_nil] at h
  | cons i rest ih =>
    rw [phase1_cons] at h
    split at h
    · simp only [List.mem_append] at h
      rcases h with h | h
      · rcases phase1Node_mem h with ⟨k, rfl, hk, _⟩ | ⟨rfl, _⟩
        · exact .inl ⟨k, rfl, hk⟩
        · exact .inr ⟨i, rfl, by simp⟩
      · rcases ih h with h | ⟨j, rfl, hj⟩
        · exact .inl h
        · exact .inr ⟨j, rfl, by simp [hj]⟩
    · rcases phase1Node_mem h with ⟨k, rfl, hk, _⟩ | ⟨rfl, _⟩
      · exact .inl ⟨k, rfl, hk⟩
      · exact .inr ⟨i, rfl, by simp⟩

/-- phase 1 succeeded ⇒ every child key of every listed cell was bounds-checked. -/
theorem phase1_ok_kids {S : SchemaMut} {len : Nat} {idxs : List Nat}
    (h : (phase1 S len idxs).2 = true) :
    ∀ i ∈ idxs, ∀ k ∈ kids S i, k < len := by
  induction idxs with
  | nil => simp
  | cons i rest ih =>
    rw [phase1_cons] at h
    split at h
    · rename_i hnode
      intro j hj k hk
      rcases List.mem_cons.1 hj with rfl | hj
      · rw [phase1Node_snd] at hnode
        simpa using List.all_eq_true.1 hnode k hk
      · exact ih h j hj k hk
    · cases h

/-- the phase-1 writes are a prefix of the index list, the whole list on success, a proper prefix
    on failure. -/
theorem phase1_filterMap (S : SchemaMut) (len : Nat) (idxs : List Nat) :
    ∃ j, j ≤ idxs.length ∧ (phase1 S len idxs).1.filterMap w1idx = idxs.take j ∧
      ((phase1 S len idxs).2 = true → j = idxs.length) ∧
      ((phase1 S len idxs).2 = false → j < idxs.length) := by
  induction idxs with
  | nil => exact ⟨0, by simp [phase1_nil]⟩
  | cons i rest ih =>
    rcases ih with ⟨j, hj, heq, hok, hfail⟩
    rw [phase1_cons]
    split
    · rename_i hnode
      refine ⟨j + 1, by simp [hj], ?_, ?_, ?_⟩
      · simp [List.filterMap_append, phase1Node_filterMap, hnode, heq]
      · intro h; simp [hok h]
      · intro h; simpa using hfail h
    · rename_i hnode
      refine ⟨0, by simp, ?_, by simp, by simp⟩
      simp [phase1Node_filterMap, hnode]

/-! ### phase 2 -/

/-- the events phase 2 emits for cell `i` -/
def blk (S : SchemaMut) (i : Nat) : List Ev :=
  match S[i]?.map freezeNode with
  | some (.union vs) => vs.map Ev.readKind ++ [.write 2 i]
  | _ => []

theorem phase2_nil (S : SchemaMut) : phase2 S [] = [] := rfl

theorem phase2_cons (S : SchemaMut) (i : Nat) (rest : List Nat) :
    phase2 S (i :: rest) = blk S i ++ phase2 S rest := rfl

theorem blk_cases (S : SchemaMut) (i : Nat) :
    (∃ vs, S[i]?.map freezeNode = some (.union vs) ∧
      blk S i = vs.map Ev.readKind ++ [.write 2 i]) ∨ blk S i = [] := by
  unfold blk
  split
  · rename_i vs h; exact .inl ⟨vs, h, rfl⟩
  · exact .inr rfl

/-- a union cell's branch keys are its phase-1 child keys. -/
theorem kids_of_union {S : SchemaMut} {i : Nat} {vs : List Nat}
    (h : S[i]?.map freezeNode = some (.union vs)) : kids S i = vs := by
  unfold kids
  cases hS : S[i]? with
  | none => simp [hS] at h
  | some n =>
    simp only [hS, Option.map_some, Option.some.injEq] at h
    simp [h, Node.children]

theorem phase2_mem {S : SchemaMut} {idxs : List Nat} {e : Ev} (h : e ∈ phase2 S idxs) :
    ∃ i vs, i ∈ idxs ∧ S[i]?.map freezeNode = some (.union vs) ∧
      (e = .write 2 i ∨ ∃ j ∈ vs, e = .readKind j) := by
  induction idxs with
  | nil => simp [phase2_nil] at h
  | cons i rest ih =>
    rw [phase2_cons, List.mem_append] at h
    rcases h with h | h
    · rcases blk_cases S i with ⟨vs, hvs, hb⟩ | hb
      · rw [hb] at h
        simp only [List.mem_append, List.mem_map, List.mem_singleton] at h
        refine ⟨i, vs, by simp, hvs, ?_⟩
        rcases h with ⟨j, hj, rfl⟩ | rfl
        · exact .inr ⟨j, hj, rfl⟩
        · exact .inl rfl
      · simp [hb] at h
    · rcases ih h with ⟨j, vs, hj, hvs, he⟩
      exact ⟨j, vs, by simp [hj], hvs, he⟩

theorem phase2_filterMap (S : SchemaMut) (idxs : List Nat) :
    (phase2 S idxs).filterMap w1idx = [] := by
  rw [List.filterMap_eq_nil_iff]
  intro e he
  rcases phase2_mem he with ⟨i, vs, _, _, rfl | ⟨j, _, rfl⟩⟩ <;> rfl

/-- a list that does not end with a `readKind` -/
def NoReadEnd (l : List Ev) : Prop := ∀ e, l.getLast? = some e → ∀ j, e ≠ .readKind j

theorem NoReadEnd_nil : NoReadEnd [] := by intro e h; simp at h

theorem NoReadEnd_append_write (l : List Ev) (p i : Nat) : NoReadEnd (l ++ [.write p i]) := by
  intro e h j
  simp at h
  subst h
  simp

theorem NoReadEnd_append {a b : List Ev} (ha : NoReadEnd a) (hb : NoReadEnd b) :
    NoReadEnd (a ++ b) := by
  intro e h j
  rw [List.getLast?_append] at h
  cases hb' : b.getLast? with
  | none => rw [hb'] at h; exact ha e (by simpa using h) j
  | some x => rw [hb'] at h; simp at h; subst h; exact hb _ hb' j

theorem NoReadEnd_of_not_mem {l : List Ev} (h : ∀ j, Ev.readKind j ∉ l) : NoReadEnd l := by
  intro e he j hj
  subst hj
  exact h j (List.mem_of_getLast? he)

theorem blk_noReadEnd (S : SchemaMut) (i : Nat) : NoReadEnd (blk S i) := by
  rcases blk_cases S i with ⟨vs, _, hb⟩ | hb
  · rw [hb]; exact NoReadEnd_append_write _ _ _
  · rw [hb]; exact NoReadEnd_nil

/-- positional description of phase 2: a `write 2 i` at position `p` is for a union cell and is
    immediately preceded by exactly the `readKind`s of its branch keys. -/
theorem phase2_write_pos {S : SchemaMut} {idxs : List Nat} {p i : Nat}
    (h : (phase2 S idxs)[p]? = some (.write 2 i)) :
    ∃ vs pre, i ∈ idxs ∧ S[i]?.map freezeNode = some (.union vs) ∧
      (phase2 S idxs).take p = pre ++ vs.map Ev.readKind ∧ NoReadEnd pre := by
  induction idxs generalizing p with
  | nil => simp [phase2_nil] at h
  | cons a rest ih =>
    rw [phase2_cons] at h ⊢
    by_cases hp : p < (blk S a).length
    · rw [List.getElem?_append_left hp] at h
      rcases blk_cases S a with ⟨vs, hvs, hb⟩ | hb
      · rw [hb] at h
        by_cases hp' : p < (vs.map Ev.readKind).length
        · rw [List.getElem?_append_left hp'] at h
          simp only [List.getElem?_map] at h
          cases hv : vs[p]? <;> simp [hv] at h
        · have hlen : p = vs.length := by
            rw [hb] at hp; simp at hp hp'; omega
          subst hlen
          simp at h
          subst h
          refine ⟨vs, [], by simp, hvs, ?_, NoReadEnd_nil⟩
          rw [hb]
          simp
      · rw [hb] at hp; simp at hp
    · have hp : (blk S a).length ≤ p := Nat.le_of_not_lt hp
      rw [List.getElem?_append_right hp] at h
      rcases ih h with ⟨vs, pre, hi, hvs, htake, hpre⟩
      refine ⟨vs, blk S a ++ pre, by simp [hi], hvs, ?_, NoReadEnd_append (blk_noReadEnd S a) hpre⟩
      rw [List.take_append, List.take_of_length_le hp, htake, List.append_assoc]

/-! ### the whole trace -/

theorem trace_empty {S : SchemaMut} (h : S.size = 0) : trace S = [.ret false] := by
  simp [trace, h]

theorem trace_fail {S : SchemaMut} (h0 : S.size ≠ 0)
    (h : (phase1 S S.size (List.range S.size)).2 = false) :
    trace S = .alloc S.size :: (phase1 S S.size (List.range S.size)).1 ++ [.ret false] := by
  unfold trace
  simp only [h0, if_false]
  rcases hp : phase1 S S.size (List.range S.size) with ⟨evs, ok⟩
  rw [hp] at h
  simp only at h
  subst h
  simp

theorem trace_ok {S : SchemaMut} (h0 : S.size ≠ 0)
    (h : (phase1 S S.size (List.range S.size)).2 = true) :
    trace S = (.alloc S.size :: (phase1 S S.size (List.range S.size)).1) ++
      phase2 S (List.range S.size) ++ [.ret true] := by
  unfold trace
  simp only [h0, if_false]
  rcases hp : phase1 S S.size (List.range S.size) with ⟨evs, ok⟩
  rw [hp] at h
  simp only at h
  subst h
  simp

/-- the three shapes a trace can have -/
theorem trace_cases (S : SchemaMut) :
    (S.size = 0 ∧ trace S = [.ret false]) ∨
    (S.size ≠ 0 ∧ (phase1 S S.size (List.range S.size)).2 = false ∧
      trace S = .alloc S.size :: (phase1 S S.size (List.range S.size)).1 ++ [.ret false]) ∨
    (S.size ≠ 0 ∧ (phase1 S S.size (List.range S.size)).2 = true ∧
      trace S = (.alloc S.size :: (phase1 S S.size (List.range S.size)).1) ++
        phase2 S (List.range S.size) ++ [.ret true]) := by
  by_cases h0 : S.size = 0
  · exact .inl ⟨h0, trace_empty h0⟩
  · cases h : (phase1 S S.size (List.range S.size)).2
    · exact .inr (.inl ⟨h0, rfl, trace_fail h0 h⟩)
    · exact .inr (.inr ⟨h0, rfl, trace_ok h0 h⟩)

/-- every event of a trace, classified. -/
theorem trace_mem {S : SchemaMut} {e : Ev} (h : e ∈ trace S) :
    e = .alloc S.size ∨ (∃ b, e = .ret b) ∨ (∃ k, e = .mkRef k ∧ k < S.size) ∨
    (∃ i, e = .write 1 i ∧ i < S.size) ∨
    ((phase1 S S.size (List.range S.size)).2 = true ∧
      ∃ i vs, i < S.size ∧ S[i]?.map freezeNode = some (.union vs) ∧
        (e = .write 2 i ∨ ∃ j ∈ vs, e = .readKind j)) := by
  have hp1 : e ∈ (phase1 S S.size (List.range S.size)).1 →
      (∃ k, e = .mkRef k ∧ k < S.size) ∨ (∃ i, e = .write 1 i ∧ i < S.size) := by
    intro h
    rcases phase1_mem h with h | ⟨i, rfl, hi⟩
    · exact .inl h
    · exact .inr ⟨i, rfl, List.mem_range.1 hi⟩
  rcases trace_cases S with ⟨_, ht⟩ | ⟨_, _, ht⟩ | ⟨_, hok, ht⟩
  · rw [ht] at h; simp at h; exact .inr (.inl ⟨false, h⟩)
  · rw [ht] at h
    simp only [List.cons_append, List.mem_cons, List.mem_append, List.not_mem_nil, or_false] at h
    rcases h with rfl | h | rfl
    · exact .inl rfl
    · rcases hp1 h with h | h
      · exact .inr (.inr (.inl h))
      · exact .inr (.inr (.inr (.inl h)))
    · exact .inr (.inl ⟨false, rfl⟩)
  · rw [ht] at h
    simp only [List.cons_append, List.mem_cons, List.mem_append, List.not_mem_nil, or_false] at h
    rcases h with rfl | (h | h) | rfl
    · exact .inl rfl
    · rcases hp1 h with h | h
      · exact .inr (.inr (.inl h))
      · exact .inr (.inr (.inr (.inl h)))
    · rcases phase2_mem h with ⟨i, vs, hi, hvs, he⟩
      exact .inr (.inr (.inr (.inr ⟨hok, i, vs, List.mem_range.1 hi, hvs, he⟩)))
    · exact .inr (.inl ⟨true, rfl⟩)

end Avro.Lemmas.Freeze
