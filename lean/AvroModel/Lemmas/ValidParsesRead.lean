import AvroModel.Lemmas.ValidParsesRaw
/-
C07 (valid documents parse), second part: what is true of the raw tree read from a document
(`read_defs`, `read_size`, `read_regOk`, `read_ranked`), and `rawOfJson_succeeds`: a well-typed
document of bounded depth is read.
-/
namespace Avro.ValidParses
open Avro Avro.Impl Avro.Spec Avro.Spec.Pcf Avro.PcfSpec

/-! ### defined names -/

def DefsJ (j : Json) (raw : RawSchema) : Prop := ∀ enc, definedNamesIn enc j = defsRaw enc raw

theorem defs_opt {key ms r} (h : OptRead DefsJ key ms r) (enc : Option String) :
    defsAttr enc key ms = defsRawO enc r := by
  rw [defsAttr_eq]
  rcases h with ⟨rfl, ha | ha⟩ | ⟨j, x, ha, -, hP, rfl⟩
  · simp [ha, defsRawO]
  · simp [ha, defsRawO, definedNamesIn]
  · simp [ha, defsRawO, hP enc]

theorem defs_fields {ms r}
    (h : FieldsRead (fun js fs => ∀ enc, defsFields enc js = defsRawFields enc fs) ms r)
    (enc : Option String) :
    defsFieldsAttr enc ms = defsRawOF enc r := by
  rw [defsFieldsAttr_eq]
  rcases h with ⟨rfl, ha | ha⟩ | ⟨its, fs, ha, hP, rfl⟩
  · simp [ha, defsRawOF]
  · simp [ha, defsRawOF]
  · simp [ha, defsRawOF, hP enc]

theorem read_defs_all (fuel : Nat) :
    (∀ j raw, rawOfJson fuel j = .ok raw → DefsJ j raw) ∧
    (∀ js rs, rawListOfJson fuel js = .ok rs → ∀ enc, defsList enc js = defsRawList enc rs) ∧
    (∀ ms raw, rawObjectOfJson fuel ms = .ok raw → DefsJ (.obj ms) raw) ∧
    (∀ js fs, rawFieldsOfJson fuel js = .ok fs →
      ∀ enc, defsFields enc js = defsRawFields enc fs) := by
  apply raw_read_ind DefsJ (fun js rs => ∀ enc, defsList enc js = defsRawList enc rs)
    (fun js fs => ∀ enc, defsFields enc js = defsRawFields enc fs)
  · intro s t _ enc; simp [definedNamesIn, defsRaw]
  · intro s _ enc; simp [definedNamesIn, defsRaw]
  · intro js rs h enc; simp only [definedNamesIn, defsRaw, h enc]
  · intro ms a fields items values hA hF hI hV enc
    simp only [definedNamesIn, defsRaw, hA.type, hA.name, hA.nsAttr, defs_opt hI, defs_opt hV,
      defs_fields hF]
    cases a.type <;> cases a.name <;> simp [typeText, defsParts]
  · intro enc; simp [defsList, defsRawList]
  · intro j js r rs h1 h2 enc; simp only [defsList, defsRawList, h1 enc, h2 enc]
  · intro enc; simp [defsFields, defsRawFields]
  · intro fm js name t r fs _ ht h1 h2 enc
    simp only [defsFields, defsRawFields, defsAttr_eq, ht, h1 enc, h2 enc]

theorem read_defs {fuel j raw} (h : rawOfJson fuel j = .ok raw) (enc : Option String) :
    definedNamesIn enc j = defsRaw enc raw :=
  (read_defs_all fuel).1 j raw h enc

/-! ### size -/

theorem size_opt {key ms r} (h : OptRead (fun j raw => sizeRaw raw ≤ schemaSize j) key ms r) :
    sizeRawO r ≤ sizeAttr key ms := by
  rw [sizeAttr_eq]
  rcases h with ⟨rfl, _⟩ | ⟨j, x, ha, -, hP, rfl⟩
  · simp [sizeRawO]
  · simpa [ha, sizeRawO] using hP

theorem size_fields {ms r}
    (h : FieldsRead (fun js fs => sizeRawFields fs ≤ sizeFields js) ms r) :
    sizeRawOF r ≤ sizeFieldsAttr ms := by
  rw [sizeFieldsAttr_eq]
  rcases h with ⟨rfl, _⟩ | ⟨its, fs, ha, hP, rfl⟩
  · simp [sizeRawOF]
  · simpa [ha, sizeRawOF] using hP

theorem read_size_all (fuel : Nat) :
    (∀ j raw, rawOfJson fuel j = .ok raw → sizeRaw raw ≤ schemaSize j) ∧
    (∀ js rs, rawListOfJson fuel js = .ok rs → sizeRawList rs ≤ sizeList js) ∧
    (∀ ms raw, rawObjectOfJson fuel ms = .ok raw → sizeRaw raw ≤ schemaSize (.obj ms)) ∧
    (∀ js fs, rawFieldsOfJson fuel js = .ok fs → sizeRawFields fs ≤ sizeFields js) := by
  apply raw_read_ind (fun j raw => sizeRaw raw ≤ schemaSize j)
    (fun js rs => sizeRawList rs ≤ sizeList js) (fun js fs => sizeRawFields fs ≤ sizeFields js)
  · intro s t _; simp [sizeRaw, schemaSize]
  · intro s _; simp [sizeRaw, schemaSize]
  · intro js rs h; simp only [sizeRaw, schemaSize]; omega
  · intro ms a fields items values _ hF hI hV
    have := size_opt hI
    have := size_opt hV
    have := size_fields hF
    simp only [sizeRaw, schemaSize]; omega
  · simp [sizeRawList, sizeList]
  · intro j js r rs h1 h2; simp only [sizeRawList, sizeList]; omega
  · simp [sizeRawFields, sizeFields]
  · intro fm js name t r fs _ ht h1 h2
    simp only [sizeRawFields, sizeFields, sizeAttr_eq, ht]; omega

theorem read_size {fuel j raw} (h : rawOfJson fuel j = .ok raw) : sizeRaw raw ≤ schemaSize j :=
  (read_size_all fuel).1 j raw h

/-! ### local demands of the registration -/

theorem isTypeName_ofString {s : String} (h : isTypeName s = true) :
    ∃ t, RawType.ofString s = some t := by
  simp only [isTypeName, isPrimitive, primitiveNames, complexNames, List.contains_cons,
    List.contains_nil, Bool.or_false, Bool.or_eq_true, beq_iff_eq] at h
  rcases h with (h | h | h | h | h | h | h | h) | (h | h | h | h | h) <;> subst h <;>
    exact ⟨_, rfl⟩

theorem complex_isPrimType {s : String} {t : RawType} (h : RawType.ofString s = some t)
    (hc : complexNames.contains s = false) : isPrimType t = true := by
  have := ofString_some h
  subst this
  cases t <;> first | rfl | (simp [complexNames, typeText] at hc)

def RegJ (j : Json) (raw : RawSchema) : Prop := wellTyped j = true → regOk raw = true

theorem reg_opt {key ms r} (h : OptRead RegJ key ms r) (hw : wtOpt key ms = true) :
    regOkO r = true := by
  rw [wtOpt_eq] at hw
  rcases h with ⟨rfl, _⟩ | ⟨j, x, ha, hnn, hP, rfl⟩
  · rfl
  · simp only [ha, hnn, Bool.false_or] at hw
    exact hP hw

theorem reg_fields {ms r}
    (h : FieldsRead (fun js fs => wtFields js = true → regOkFields fs = true) ms r)
    (hw : wtFieldsAttr ms = true) : regOkOF r = true := by
  rw [wtFieldsAttr_eq] at hw
  rcases h with ⟨rfl, _⟩ | ⟨its, fs, ha, hP, rfl⟩
  · rfl
  · simp only [ha] at hw
    exact hP hw

theorem scalarsOk_decimal {ms : List (String × Json)} (h : scalarsOk ms = true) :
    (!(strAttr "logicalType" ms == some "decimal") || (natAttr "precision" ms).isSome) = true := by
  unfold scalarsOk at h
  simp only [Bool.and_eq_true] at h
  exact h.2

theorem read_regOk_all (fuel : Nat) :
    (∀ j raw, rawOfJson fuel j = .ok raw → RegJ j raw) ∧
    (∀ js rs, rawListOfJson fuel js = .ok rs → wtList js = true → regOkList rs = true) ∧
    (∀ ms raw, rawObjectOfJson fuel ms = .ok raw → RegJ (.obj ms) raw) ∧
    (∀ js fs, rawFieldsOfJson fuel js = .ok fs → wtFields js = true → regOkFields fs = true) := by
  apply raw_read_ind RegJ (fun js rs => wtList js = true → regOkList rs = true)
    (fun js fs => wtFields js = true → regOkFields fs = true)
  · intro s t ho hw
    simp only [wellTyped, Bool.not_eq_true'] at hw
    simpa [regOk] using complex_isPrimType ho hw
  · intro s _ _; rfl
  · intro js rs h hw
    simp only [wellTyped] at hw
    simpa [regOk] using h hw
  · intro ms a fields items values hA hF hI hV hw
    simp only [wellTyped, Bool.and_eq_true] at hw
    obtain ⟨⟨⟨hs, hi⟩, hv⟩, hf⟩ := hw
    have hd := scalarsOk_decimal hs
    rw [hA.logicalType, hA.precision] at hd
    simp only [regOk, attrsRegOk, hd, reg_opt hI hi, reg_opt hV hv, reg_fields hF hf,
      Bool.and_self]
  · intro _; rfl
  · intro j js r rs h1 h2 hw
    simp only [wtList, Bool.and_eq_true] at hw
    simp only [regOkList, h1 hw.1, h2 hw.2, Bool.and_self]
  · intro _; rfl
  · intro fm js name t r fs _ ht h1 h2 hw
    simp only [wtFields, Bool.and_eq_true, wtReq_eq, ht] at hw
    simp only [regOkFields, h1 hw.1.2, h2 hw.2, Bool.and_self]

theorem read_regOk {fuel j raw} (h : rawOfJson fuel j = .ok raw) (hw : wellTyped j = true) :
    regOk raw = true :=
  (read_regOk_all fuel).1 j raw h hw

/-! ### ranking -/

def RankJ (rank : Fullname → Nat) (j : Json) (raw : RawSchema) : Prop :=
  (∀ enc, ranked rank enc j = true → rankedRaw rank enc raw = true) ∧
  (∀ owner ns, directBelow rank owner ns j = true → directBelowRaw rank owner ns raw = true)

theorem rank_opt {rank key ms r} (h : OptRead (RankJ rank) key ms r) (enc : Option String)
    (hr : rankedAttr rank enc key ms = true) : rankedRawO rank enc r = true := by
  rw [rankedAttr_eq] at hr
  rcases h with ⟨rfl, _⟩ | ⟨j, x, ha, -, hP, rfl⟩
  · rfl
  · simp only [ha] at hr
    exact hP.1 enc hr

theorem rank_fields {rank ms r}
    (h : FieldsRead (fun js fs => ∀ owner, rankedFields rank owner js = true →
      rankedRawFields rank owner fs = true) ms r) (owner : Fullname)
    (hr : rankedFieldsAttr rank owner ms = true) : rankedRawOF rank owner r = true := by
  rw [rankedFieldsAttr_eq] at hr
  rcases h with ⟨rfl, _⟩ | ⟨its, fs, ha, hP, rfl⟩
  · rfl
  · simp only [ha] at hr
    exact hP owner hr

theorem read_ranked_all (rank : Fullname → Nat) (fuel : Nat) :
    (∀ j raw, rawOfJson fuel j = .ok raw → RankJ rank j raw) ∧
    (∀ js rs, rawListOfJson fuel js = .ok rs →
      ∀ enc, rankedList rank enc js = true → rankedRawList rank enc rs = true) ∧
    (∀ ms raw, rawObjectOfJson fuel ms = .ok raw → RankJ rank (.obj ms) raw) ∧
    (∀ js fs, rawFieldsOfJson fuel js = .ok fs →
      ∀ owner, rankedFields rank owner js = true → rankedRawFields rank owner fs = true) := by
  apply raw_read_ind (RankJ rank)
    (fun js rs => ∀ enc, rankedList rank enc js = true → rankedRawList rank enc rs = true)
    (fun js fs => ∀ owner, rankedFields rank owner js = true →
      rankedRawFields rank owner fs = true)
  · intro s t _
    exact ⟨fun _ _ => rfl, fun _ _ _ => rfl⟩
  · intro s ho
    refine ⟨fun _ _ => rfl, fun owner ns h => ?_⟩
    simpa [directBelow, directBelowRaw, ofString_none ho] using h
  · intro js rs h
    refine ⟨fun enc hr => ?_, fun _ _ _ => rfl⟩
    simp only [ranked] at hr
    simpa [rankedRaw] using h enc hr
  · intro ms a fields items values hA hF hI hV
    refine ⟨fun enc hr => ?_, fun owner ns hd => ?_⟩
    · simp only [ranked, hA.type, hA.name, hA.nsAttr] at hr
      simp only [rankedRaw]
      cases hty : a.type <;> rw [hty] at hr <;> simp [typeText] at hr <;>
        simp only [rankedParts]
      · exact rank_opt hI enc hr
      · exact rank_opt hV enc hr
      · cases hn : a.name with
        | none => rfl
        | some nm =>
          rw [hn] at hr
          exact rank_fields hF _ hr
    · simp only [directBelow, hA.type, hA.name, hA.nsAttr] at hd
      simp only [directBelowRaw]
      cases hty : a.type <;> cases hn : a.name <;> try rfl
      rw [hty, hn] at hd
      simpa [typeText] using hd
  · intro _ _; rfl
  · intro j js r rs h1 h2 enc hr
    simp only [rankedList, Bool.and_eq_true] at hr
    simp only [rankedRawList, h1.1 enc hr.1, h2 enc hr.2, Bool.and_self]
  · intro _ _; rfl
  · intro fm js name t r fs _ ht h1 h2 owner hr
    simp only [rankedFields, rankedFieldType_eq, ht, Bool.and_eq_true] at hr
    simp only [rankedRawFields, h1.2 _ _ hr.1.1, h1.1 _ hr.1.2, h2 owner hr.2, Bool.and_self]

theorem read_ranked {rank fuel j raw} (h : rawOfJson fuel j = .ok raw) (enc : Option String)
    (hr : ranked rank enc j = true) : rankedRaw rank enc raw = true :=
  ((read_ranked_all rank fuel).1 j raw h).1 enc hr

end Avro.ValidParses

namespace Avro.ValidParses
open Avro Avro.Impl Avro.Spec Avro.Spec.Pcf Avro.PcfSpec

/-! ### `rawOfJson` succeeds on well-typed documents of bounded depth -/

theorem attr_eq_filter (key : String) (ms : List (String × Json)) :
    attr key ms = ((ms.filter fun p => p.1 = key).head?).map (·.2) := by
  induction ms with
  | nil => rfl
  | cons p rest ih =>
    obtain ⟨k, v⟩ := p
    by_cases hk : k = key <;> simp [attr, hk, ih]

theorem member_of_keyOnce {key : String} {ms : List (String × Json)}
    (h : keyOnce key ms = true) : member ms key = .ok (attr key ms) := by
  rw [attr_eq_filter]
  unfold keyOnce at h
  unfold member
  generalize (ms.filter fun p => p.1 = key) = l at h ⊢
  match l, h with
  | [], _ => rfl
  | [(k, v)], _ => rfl
  | _ :: _ :: _, h => simp at h

theorem stType_of {ms : List (String × Json)} {s : String} {t : RawType}
    (hk : keyOnce "type" ms = true) (hs : strAttr "type" ms = some s)
    (ht : RawType.ofString s = some t) : stType ms = .ok t := by
  unfold stType
  rw [member_of_keyOnce hk]
  unfold strAttr at hs
  split at hs
  · rename_i s' ha
    cases hs
    simp only [ha, ht]
  · cases hs

theorem stStr_of {ms : List (String × Json)} {key : String}
    (hk : keyOnce key ms = true) (ho : optStrAttr key ms = true) :
    stStr ms key = .ok (strAttr key ms) := by
  unfold stStr
  rw [member_of_keyOnce hk]
  unfold optStrAttr at ho
  unfold strAttr
  split at ho
  · rename_i ha; rw [ha]; rfl
  · rename_i ha; rw [ha]; rfl
  · rename_i s ha; rw [ha]; rfl
  · cases ho

theorem stNat_of {ms : List (String × Json)} {key : String} {max : Nat}
    (hk : keyOnce key ms = true) (ho : optNatAttr key max ms = true) :
    stNat ms key max = .ok (natAttr key ms) := by
  unfold stNat
  rw [member_of_keyOnce hk]
  unfold optNatAttr at ho
  unfold natAttr
  split at ho
  · rename_i ha; rw [ha]; rfl
  · rename_i ha; rw [ha]; rfl
  · rename_i n ha
    rw [ha]
    have : n ≤ max := by simpa using ho
    exact if_pos this
  · cases ho

theorem stSymbols_of {ms : List (String × Json)}
    (hk : keyOnce "symbols" ms = true) (ho : optSymbolsAttr ms = true) :
    stSymbols ms = .ok (symbolsAttr ms) := by
  unfold stSymbols
  rw [member_of_keyOnce hk]
  unfold optSymbolsAttr at ho
  unfold symbolsAttr
  split at ho
  · rename_i ha; rw [ha]
  · rename_i ha; rw [ha]
  · rename_i items ha
    rw [ha]
    simp only [mapM_strings]
    obtain ⟨l, hl⟩ := Option.isSome_iff_exists.mp ho
    rw [hl]
  · cases ho

theorem stSchema_of {fuel : Nat} {ms : List (String × Json)} {key : String}
    (ihJ : ∀ j, wellTyped j = true → parseDepth j ≤ fuel → ∃ raw, rawOfJson fuel j = .ok raw)
    (hk : keyOnce key ms = true) (hw : wtOpt key ms = true) (hd : depthAttr key ms ≤ fuel) :
    ∃ r, stSchema fuel ms key = .ok r := by
  unfold stSchema
  rw [member_of_keyOnce hk]
  rw [wtOpt_eq] at hw
  rw [depthAttr_eq] at hd
  cases ha : attr key ms with
  | none => exact ⟨none, rfl⟩
  | some v =>
    rw [ha] at hw hd
    simp only at hw hd
    cases v with
    | null => exact ⟨none, rfl⟩
    | str s =>
      obtain ⟨raw, hr⟩ := ihJ (.str s) (by simpa [isNull] using hw) hd
      exact ⟨some raw, by simp only [hr]⟩
    | arr l =>
      obtain ⟨raw, hr⟩ := ihJ (.arr l) (by simpa [isNull] using hw) hd
      exact ⟨some raw, by simp only [hr]⟩
    | obj m =>
      obtain ⟨raw, hr⟩ := ihJ (.obj m) (by simpa [isNull] using hw) hd
      exact ⟨some raw, by simp only [hr]⟩
    | bool b => simp [isNull, wellTyped] at hw
    | nat n => simp [isNull, wellTyped] at hw
    | numOther => simp [isNull, wellTyped] at hw

theorem stFields_of {fuel : Nat} {ms : List (String × Json)}
    (ihF : ∀ js, wtFields js = true → depthFields js ≤ fuel →
      ∃ fs, rawFieldsOfJson fuel js = .ok fs)
    (hk : keyOnce "fields" ms = true) (hw : wtFieldsAttr ms = true)
    (hd : depthFieldsAttr ms ≤ fuel) :
    ∃ r, stFields fuel ms = .ok r := by
  unfold stFields
  rw [member_of_keyOnce hk]
  rw [wtFieldsAttr_eq] at hw
  rw [depthFieldsAttr_eq] at hd
  cases ha : attr "fields" ms with
  | none => exact ⟨none, rfl⟩
  | some v =>
    rw [ha] at hw hd
    cases v with
    | null => exact ⟨none, rfl⟩
    | arr l =>
      obtain ⟨fs, hf⟩ := ihF l hw hd
      exact ⟨some fs, by simp only [hf]⟩
    | str s => cases hw
    | obj m => cases hw
    | bool b => cases hw
    | nat n => cases hw
    | numOther => cases hw

theorem scalarsOk_parts {ms : List (String × Json)} (h : scalarsOk ms = true) :
    (∀ k ∈ knownKeys, keyOnce k ms = true) ∧
    (∃ s t, strAttr "type" ms = some s ∧ RawType.ofString s = some t) ∧
    optStrAttr "logicalType" ms = true ∧ optStrAttr "name" ms = true ∧
    optStrAttr "namespace" ms = true ∧ optSymbolsAttr ms = true ∧
    optNatAttr "size" (2 ^ 64 - 1) ms = true ∧ optNatAttr "precision" (2 ^ 64 - 1) ms = true ∧
    optNatAttr "scale" (2 ^ 32 - 1) ms = true := by
  unfold scalarsOk at h
  simp only [Bool.and_eq_true, List.all_eq_true] at h
  obtain ⟨⟨⟨⟨⟨⟨⟨⟨⟨h1, h2⟩, h3⟩, h4⟩, h5⟩, h6⟩, h7⟩, h8⟩, h9⟩, -⟩ := h
  refine ⟨h1, ?_, h3, h4, h5, h6, h7, h8, h9⟩
  split at h2
  · rename_i t ht
    obtain ⟨t', ht'⟩ := isTypeName_ofString h2
    exact ⟨t, t', ht, ht'⟩
  · cases h2

theorem rawObject_succeeds {fuel : Nat} {ms : List (String × Json)}
    (ihJ : ∀ j, wellTyped j = true → parseDepth j ≤ fuel → ∃ raw, rawOfJson fuel j = .ok raw)
    (ihF : ∀ js, wtFields js = true → depthFields js ≤ fuel →
      ∃ fs, rawFieldsOfJson fuel js = .ok fs)
    (hw : wellTyped (.obj ms) = true) (hd : parseDepth (.obj ms) ≤ fuel + 2) :
    ∃ raw, rawObjectOfJson (fuel + 1) ms = .ok raw := by
  simp only [wellTyped, Bool.and_eq_true] at hw
  obtain ⟨⟨⟨hs, hi⟩, hv⟩, hf⟩ := hw
  simp only [parseDepth] at hd
  obtain ⟨hk, ⟨s, t, hs1, hs2⟩, h3, h4, h5, h6, h7, h8, h9⟩ := scalarsOk_parts hs
  obtain ⟨fields, hfields⟩ := stFields_of ihF (hk "fields" (by simp [knownKeys])) hf (by omega)
  obtain ⟨items, hitems⟩ := stSchema_of ihJ (hk "items" (by simp [knownKeys])) hi (by omega)
  obtain ⟨values, hvalues⟩ := stSchema_of ihJ (hk "values" (by simp [knownKeys])) hv (by omega)
  rw [rawObjectOfJson_eq, stType_of (hk "type" (by simp [knownKeys])) hs1 hs2,
    stStr_of (hk "logicalType" (by simp [knownKeys])) h3,
    stStr_of (hk "name" (by simp [knownKeys])) h4,
    stStr_of (hk "namespace" (by simp [knownKeys])) h5, hfields,
    stSymbols_of (hk "symbols" (by simp [knownKeys])) h6, hitems, hvalues,
    stNat_of (hk "size" (by simp [knownKeys])) h7,
    stNat_of (hk "precision" (by simp [knownKeys])) h8,
    stNat_of (hk "scale" (by simp [knownKeys])) h9]
  exact ⟨_, rfl⟩

theorem raw_succeeds_all (fuel : Nat) :
    (∀ j, wellTyped j = true → parseDepth j ≤ fuel → ∃ raw, rawOfJson fuel j = .ok raw) ∧
    (∀ js, wtList js = true → depthList js ≤ fuel → ∃ rs, rawListOfJson fuel js = .ok rs) ∧
    (∀ ms, wellTyped (.obj ms) = true → parseDepth (.obj ms) ≤ fuel + 1 →
      ∃ raw, rawObjectOfJson fuel ms = .ok raw) ∧
    (∀ js, wtFields js = true → depthFields js ≤ fuel →
      ∃ fs, rawFieldsOfJson fuel js = .ok fs) := by
  induction fuel with
  | zero =>
    refine ⟨?_, ?_, ?_, ?_⟩
    · intro j _ hd
      cases j <;> simp [parseDepth] at hd
    · intro js _ hd
      cases js with
      | nil => exact ⟨[], rfl⟩
      | cons j js => simp [depthList] at hd
    · intro ms _ hd
      simp only [parseDepth] at hd
      omega
    · intro js hw hd
      cases js with
      | nil => exact ⟨[], rfl⟩
      | cons j js =>
        cases j <;> first | (simp [depthFields] at hd; done) | simp [wtFields] at hw
  | succ fuel ih =>
    obtain ⟨ihJ, ihL, ihO, ihF⟩ := ih
    refine ⟨?_, ?_, ?_, ?_⟩
    · intro j hw hd
      cases j with
      | str s =>
        simp only [rawOfJson]
        cases RawType.ofString s <;> exact ⟨_, rfl⟩
      | arr items =>
        simp only [wellTyped] at hw
        simp only [parseDepth] at hd
        obtain ⟨rs, hrs⟩ := ihL items hw (by omega)
        exact ⟨.union rs, by simp only [rawOfJson, hrs]⟩
      | obj ms =>
        simp only [rawOfJson]
        exact ihO ms hw hd
      | null => simp [wellTyped] at hw
      | bool b => simp [wellTyped] at hw
      | nat n => simp [wellTyped] at hw
      | numOther => simp [wellTyped] at hw
    · intro js hw hd
      cases js with
      | nil => exact ⟨[], rfl⟩
      | cons j js =>
        simp only [wtList, Bool.and_eq_true] at hw
        simp only [depthList] at hd
        obtain ⟨r, hr⟩ := ihJ j hw.1 (by omega)
        obtain ⟨rs, hrs⟩ := ihL js hw.2 (by omega)
        exact ⟨r :: rs, by simp only [rawListOfJson, hr, hrs]⟩
    · intro ms hw hd
      exact rawObject_succeeds ihJ ihF hw hd
    · intro js hw hd
      cases js with
      | nil => exact ⟨[], rfl⟩
      | cons j js =>
        cases j with
        | obj fm =>
          simp only [wtFields, Bool.and_eq_true, wtReq_eq] at hw
          obtain ⟨⟨⟨⟨hk1, hk2⟩, hn⟩, ht⟩, hrest⟩ := hw
          simp only [depthFields, depthAttr_eq] at hd
          obtain ⟨name, hname⟩ := Option.isSome_iff_exists.mp hn
          have hna : attr "name" fm = some (.str name) := by
            unfold strAttr at hname
            split at hname
            · rename_i s ha; cases hname; exact ha
            · cases hname
          cases hta : attr "type" fm with
          | none => rw [hta] at ht; cases ht
          | some t =>
            rw [hta] at ht hd
            simp only at ht hd
            obtain ⟨r, hr⟩ := ihJ t ht (by omega)
            obtain ⟨fs, hfs⟩ := ihF js hrest (by omega)
            exact ⟨(name, r) :: fs, by
              simp only [rawFieldsOfJson, member_of_keyOnce hk1, member_of_keyOnce hk2, hna, hta,
                hr, hfs]⟩
        | null => simp [wtFields] at hw
        | bool b => simp [wtFields] at hw
        | nat n => simp [wtFields] at hw
        | numOther => simp [wtFields] at hw
        | str s => simp [wtFields] at hw
        | arr l => simp [wtFields] at hw

/-- A well-typed document is read into a raw schema tree, given enough gas. -/
theorem rawOfJson_succeeds {fuel : Nat} {j : Json} (hw : wellTyped j = true)
    (hd : parseDepth j ≤ fuel) : ∃ raw, rawOfJson fuel j = .ok raw :=
  (raw_succeeds_all fuel).1 j hw hd

end Avro.ValidParses
