import AvroModel.Lemmas.ValidParsesReg
import AvroModel.Lemmas.ValidParsesCycle
/-
C07 (valid documents parse), a converse: whenever the registration succeeds, the name table
received exactly the defined names of the raw tree, and they are pairwise distinct.
-/
namespace Avro.ValidParses
open Avro Avro.Impl Avro.Spec Avro.Spec.Pcf Avro.PcfSpec

/-- the table received `defs`, and stays without repetition -/
structure Got (st st' : PState) (defs : List Fullname) : Prop where
  keys : tkeys st' = (defs.map keyOf).reverse ++ tkeys st
  nodup : (tkeys st).Nodup → (tkeys st').Nodup

theorem Got.refl (st : PState) : Got st st [] := ⟨by simp, fun h => h⟩

theorem Got.trans {st st1 st2 : PState} {d1 d2 : List Fullname} (h1 : Got st st1 d1)
    (h2 : Got st1 st2 d2) : Got st st2 (d1 ++ d2) :=
  ⟨by rw [h2.keys, h1.keys]; simp, fun h => h2.nodup (h1.nodup h)⟩

theorem Got.of_names {st st1 st2 st3 : PState} {d : List Fullname} (h : Got st1 st2 d)
    (e1 : st1.names = st.names) (e2 : st3.names = st2.names) : Got st st3 d := by
  have k1 : tkeys st1 = tkeys st := by simp [tkeys, e1]
  have k3 : tkeys st3 = tkeys st2 := by simp [tkeys, e2]
  exact ⟨by rw [k3, h.keys, k1], fun hn => by rw [k3]; exact h.nodup (by rw [k1]; exact hn)⟩

theorem bodyStep_record' {f : Nat} {o : Option RawAttrs}
    {of : Option (List (String × RawSchema))} {oi ov : Option RawSchema} {enc : Option String}
    {nk : Option NameKey} {st1 st2 : PState} {ty : PType}
    (hb : bodyStep f .record o of oi ov enc nk st1 = .ok (ty, st2)) :
    ∃ key fields fs, nk = some key ∧ of = some fields ∧
      registerFields f fields key.ns st1 = .ok (fs, st2) := by
  simp only [bodyStep] at hb
  (repeat' split at hb) <;>
    simp only [Except.ok.injEq, Prod.mk.injEq, reduceCtorEq] at hb
  rename_i key _ fields _ fs' st2' hr
  obtain ⟨-, rfl⟩ := hb
  exact ⟨key, fields, fs', rfl, rfl, hr⟩

def GotN (f : Nat) : Prop :=
  ∀ raw enc st k st', registerNode f raw enc st = .ok (k, st') → Got st st' (defsRaw enc raw)

def GotO (f : Nat) : Prop :=
  ∀ t o of oi ov enc st k st', registerObject f t o of oi ov enc st = .ok (k, st') →
    Got st st' (defsParts enc t (o.bind (·.name)) (o.bind (·.nsAttr))
      (fun ns => defsRawOF ns of) (defsRawO enc oi) (defsRawO enc ov))

def GotL (f : Nat) : Prop :=
  ∀ l enc st ks st', registerList f l enc st = .ok (ks, st') → Got st st' (defsRawList enc l)

def GotF (f : Nat) : Prop :=
  ∀ l ns st fs st', registerFields f l ns st = .ok (fs, st') → Got st st' (defsRawFields ns l)

theorem gotO_succ {f : Nat} (ihN : GotN f) (ihF : GotF f) : GotO (f + 1) := by
  intro t o of oi ov enc st k st' h
  obtain ⟨nk, st1, ty, st2, lt, hn, hb, -, -, hst', -⟩ := registerObject_ok h
  obtain ⟨-, -, hnames⟩ := nameStep_ok hn
  have hnames' : st'.names = st2.names := by rw [hst']
  rw [defsParts_eq]
  -- the name step
  have hown : Got st st1 (ownDefs enc (o.bind (·.name)) (o.bind (·.nsAttr))) ∧
      nk = (o.bind (·.name)).map (fun nm => defKey nm (o.bind (·.nsAttr)) enc) := by
    rcases hnames with ⟨rfl, e, ho | ⟨a, rfl, hnone⟩⟩ | ⟨a, name, rfl, hname, rfl, hfresh, e⟩
    · subst ho
      exact ⟨(Got.refl st).of_names rfl e, rfl⟩
    · simp only [Option.bind_some, hnone, ownDefs, Option.map_none, and_true]
      exact (Got.refl st).of_names rfl e
    · simp only [Option.bind_some, hname, ownDefs, Option.map_some, and_true]
      have hk : tkeys st1 = defKey name a.nsAttr enc :: tkeys st := by simp [tkeys, e]
      refine ⟨by simp [hk, keyOf_def], fun hnd => ?_⟩
      rw [hk]
      refine List.nodup_cons.mpr ⟨?_, hnd⟩
      intro hm
      obtain ⟨i, hi⟩ := lookup_some_of_mem hm
      rw [hfresh] at hi; cases hi
  obtain ⟨hown, hnk⟩ := hown
  -- the body
  have hbody : Got st1 st2 (bodyDefs enc t (o.bind (·.name)) (o.bind (·.nsAttr))
      (fun ns => defsRawOF ns of) (defsRawO enc oi) (defsRawO enc ov)) := by
    by_cases ht : t = .array
    · subst ht
      obtain ⟨items, k', rfl, hr, -⟩ := bodyStep_array hb
      simpa [bodyDefs, defsRawO] using ihN items enc st1 k' st2 hr
    by_cases ht2 : t = .map
    · subst ht2
      obtain ⟨values, k', rfl, hr, -⟩ := bodyStep_map hb
      simpa [bodyDefs, defsRawO] using ihN values enc st1 k' st2 hr
    by_cases ht3 : t = .record
    · subst ht3
      obtain ⟨key, fields, fs, hkey, rfl, hr⟩ := bodyStep_record' hb
      rw [hnk] at hkey
      cases hname : o.bind (·.name) with
      | none => rw [hname] at hkey; cases hkey
      | some nm =>
        rw [hname] at hkey
        simp only [Option.map_some, Option.some.injEq] at hkey
        subst hkey
        have hns : (defKey nm (o.bind (·.nsAttr)) enc).ns =
            (fullnameOfDef nm (o.bind (·.nsAttr)) enc).1 := by rw [defKey_eq_spec]
        rw [hns] at hr
        simpa [bodyDefs, defsRawOF] using ihF fields _ st1 fs st2 hr
    · have : st2 = st1 := bodyStep_leaf ⟨ht, ht2, ht3⟩ hb
      subst this
      have : bodyDefs enc t (o.bind (·.name)) (o.bind (·.nsAttr))
          (fun ns => defsRawOF ns of) (defsRawO enc oi) (defsRawO enc ov) = [] := by
        cases t <;> first | rfl | exact absurd rfl ht | exact absurd rfl ht2 | exact absurd rfl ht3
      rw [this]
      exact Got.refl _
  exact (hown.trans hbody).of_names rfl hnames'

theorem gotL_succ {f : Nat} (ihN : GotN f) (ihL : GotL f) : GotL (f + 1) := by
  intro l enc st ks st' h
  cases l with
  | nil =>
    simp only [registerList, Except.ok.injEq, Prod.mk.injEq] at h
    obtain ⟨-, rfl⟩ := h
    exact Got.refl _
  | cons r rest =>
    simp only [registerList] at h
    split at h
    · cases h
    · rename_i k1 sa h1
      split at h
      · cases h
      · rename_i ks2 sb h2
        simp only [Except.ok.injEq, Prod.mk.injEq] at h
        obtain ⟨-, rfl⟩ := h
        exact (ihN _ _ _ _ _ h1).trans (ihL _ _ _ _ _ h2)

theorem gotF_succ {f : Nat} (ihN : GotN f) (ihF : GotF f) : GotF (f + 1) := by
  intro l ns st fs st' h
  cases l with
  | nil =>
    simp only [registerFields, Except.ok.injEq, Prod.mk.injEq] at h
    obtain ⟨-, rfl⟩ := h
    exact Got.refl _
  | cons x rest =>
    obtain ⟨name, r⟩ := x
    simp only [registerFields] at h
    split at h
    · cases h
    · rename_i k1 sa h1
      split at h
      · cases h
      · rename_i fs2 sb h2
        simp only [Except.ok.injEq, Prod.mk.injEq] at h
        obtain ⟨-, rfl⟩ := h
        exact (ihN _ _ _ _ _ h1).trans (ihF _ _ _ _ _ h2)

theorem gotN_succ {f : Nat} (ihO : GotO f) (ihL : GotL f) : GotN (f + 1) := by
  intro raw enc st k st' h
  cases raw with
  | ref r =>
    simp only [registerNode] at h
    split at h
    · simp only [Except.ok.injEq, Prod.mk.injEq] at h
      obtain ⟨-, rfl⟩ := h
      exact Got.refl _
    · simp only [Except.ok.injEq, Prod.mk.injEq] at h
      obtain ⟨-, rfl⟩ := h
      exact (Got.refl st).of_names rfl rfl
  | type t =>
    simp only [registerNode] at h
    have := ihO t none none none none enc st k st' h
    have e : defsParts enc t ((none : Option RawAttrs).bind (·.name))
        ((none : Option RawAttrs).bind (·.nsAttr)) (fun ns => defsRawOF ns none)
        (defsRawO enc none) (defsRawO enc none) = [] := by
      cases t <;> rfl
    rw [e] at this
    simpa [defsRaw] using this
  | object a fields items values =>
    simp only [registerNode] at h
    exact ihO a.type (some a) fields items values enc st k st' h
  | union bs =>
    simp only [registerNode] at h
    split at h
    · cases h
    · rename_i keys st2 hl
      simp only [Except.ok.injEq, Prod.mk.injEq] at h
      obtain ⟨-, rfl⟩ := h
      exact (ihL _ _ _ _ _ hl).of_names rfl rfl

/-- Whenever the registration succeeds, the name table received exactly the names the raw tree
    defines, and no name twice. -/
theorem register_got : ∀ f, GotN f ∧ GotO f ∧ GotL f ∧ GotF f := by
  intro f
  induction f with
  | zero =>
    refine ⟨?_, ?_, ?_, ?_⟩
    · intro raw enc st k st' h; simp [registerNode] at h
    · intro t o of oi ov enc st k st' h; simp [registerObject] at h
    · intro l enc st ks st' h
      cases l with
      | nil =>
        simp only [registerList, Except.ok.injEq, Prod.mk.injEq] at h
        obtain ⟨-, rfl⟩ := h
        exact Got.refl _
      | cons r rest => simp [registerList] at h
    · intro l ns st fs st' h
      cases l with
      | nil =>
        simp only [registerFields, Except.ok.injEq, Prod.mk.injEq] at h
        obtain ⟨-, rfl⟩ := h
        exact Got.refl _
      | cons r rest => simp [registerFields] at h
  | succ f ih =>
    obtain ⟨ihN, ihO, ihL, ihF⟩ := ih
    exact ⟨gotN_succ ihO ihL, gotO_succ ihN ihF, gotL_succ ihN ihL, gotF_succ ihN ihF⟩

theorem registered_defs_nodup {f : Nat} {raw : RawSchema} {k : PKey} {st : PState}
    (h : registerNode f raw none {} = .ok (k, st)) :
    (defsRaw none raw).Nodup ∧ tkeys st = ((defsRaw none raw).map keyOf).reverse := by
  have hg := (register_got f).1 raw none {} k st h
  have hk : tkeys st = ((defsRaw none raw).map keyOf).reverse := by
    simpa [tkeys] using hg.keys
  refine ⟨?_, hk⟩
  have hn := hg.nodup (by simp [tkeys])
  rw [hk] at hn
  unfold List.Nodup at hn ⊢
  rw [List.pairwise_reverse, List.pairwise_map] at hn
  exact hn.imp fun h e => h (by rw [e])

end Avro.ValidParses
