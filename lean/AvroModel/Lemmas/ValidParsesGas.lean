import AvroModel.Lemmas.ValidParsesRaw
/-
The fuel of `rawOfJson` is pure gas.

* `json_ind`: structural induction on JSON values (through the size).
* `parseDepth_le_rawGas`: what `rawOfJson` consumes on `j` (`Spec.parseDepth`) is at most
  `rawGas j`, the gas `parseJson` hands it.
* `rawOfJson_gas_irrelevant`: with at least `parseDepth j` gas the result — value or error —
  does not depend on the gas; `rawOfJson_mono`: a success stays one with more gas.
Hence the only `json` errors of `parseJson` are the explicit nesting check and genuine type /
shape errors of the document.
-/
namespace Avro.ValidParses
open Avro Avro.Impl Avro.Spec Avro.Spec.Pcf Avro.PcfSpec

/-! ### induction on JSON values -/

theorem json_ind (P : Json → Prop) (PL : List Json → Prop) (PM : List (String × Json) → Prop)
    (hnull : P .null) (hbool : ∀ b, P (.bool b)) (hnat : ∀ n, P (.nat n)) (hnum : P .numOther)
    (hstr : ∀ s, P (.str s))
    (harr : ∀ l, PL l → P (.arr l)) (hobj : ∀ m, PM m → P (.obj m))
    (hnilL : PL []) (hconsL : ∀ j l, P j → PL l → PL (j :: l))
    (hnilM : PM []) (hconsM : ∀ k v m, P v → PM m → PM ((k, v) :: m)) :
    (∀ j, P j) ∧ (∀ l, PL l) ∧ (∀ m, PM m) := by
  have key : ∀ n, (∀ j, jsonWeight j ≤ n → P j) ∧ (∀ l, jsonWeightList l ≤ n → PL l) ∧
      (∀ m, jsonWeightMembers m ≤ n → PM m) := by
    intro n
    induction n with
    | zero =>
      refine ⟨?_, ?_, ?_⟩
      · intro j h; cases j <;> simp [jsonWeight] at h
      · intro l h
        cases l with
        | nil => exact hnilL
        | cons j l => simp [jsonWeightList] at h
      · intro m h
        cases m with
        | nil => exact hnilM
        | cons p m => obtain ⟨k, v⟩ := p; simp [jsonWeightMembers] at h
    | succ n ih =>
      obtain ⟨ihJ, ihL, ihM⟩ := ih
      refine ⟨?_, ?_, ?_⟩
      · intro j h
        cases j with
        | null => exact hnull
        | bool b => exact hbool b
        | nat k => exact hnat k
        | numOther => exact hnum
        | str s => exact hstr s
        | arr l => simp only [jsonWeight] at h; exact harr l (ihL l (by omega))
        | obj m => simp only [jsonWeight] at h; exact hobj m (ihM m (by omega))
      · intro l h
        cases l with
        | nil => exact hnilL
        | cons j l =>
          simp only [jsonWeightList] at h
          exact hconsL j l (ihJ j (by omega)) (ihL l (by omega))
      · intro m h
        cases m with
        | nil => exact hnilM
        | cons p m =>
          obtain ⟨k, v⟩ := p
          simp only [jsonWeightMembers] at h
          exact hconsM k v m (ihJ v (by omega)) (ihM m (by omega))
  exact ⟨fun j => (key _).1 j (Nat.le_refl _), fun l => (key _).2.1 l (Nat.le_refl _),
    fun m => (key _).2.2 m (Nat.le_refl _)⟩

/-! ### `rawGas` is enough -/

theorem parseDepth_le_size :
    (∀ j, parseDepth j ≤ 2 * jsonWeight j ∧
      (∀ l, j = .arr l → depthFields l ≤ 2 * jsonWeightList l) ∧
      (∀ m, j = .obj m → ∀ key, depthAttr key m ≤ 2 * jsonWeightMembers m)) ∧
    (∀ l, depthList l ≤ 2 * jsonWeightList l ∧ depthFields l ≤ 2 * jsonWeightList l) ∧
    (∀ m, (∀ key, depthAttr key m ≤ 2 * jsonWeightMembers m) ∧
      depthFieldsAttr m ≤ 2 * jsonWeightMembers m) := by
  apply json_ind
    (fun j => parseDepth j ≤ 2 * jsonWeight j ∧
      (∀ l, j = .arr l → depthFields l ≤ 2 * jsonWeightList l) ∧
      (∀ m, j = .obj m → ∀ key, depthAttr key m ≤ 2 * jsonWeightMembers m))
    (fun l => depthList l ≤ 2 * jsonWeightList l ∧ depthFields l ≤ 2 * jsonWeightList l)
    (fun m => (∀ key, depthAttr key m ≤ 2 * jsonWeightMembers m) ∧
      depthFieldsAttr m ≤ 2 * jsonWeightMembers m)
  · exact ⟨by simp [parseDepth, jsonWeight], (by intro l h; cases h), (by intro m h; cases h)⟩
  · intro b; exact ⟨by simp [parseDepth, jsonWeight], (by intro l h; cases h), (by intro m h; cases h)⟩
  · intro n; exact ⟨by simp [parseDepth, jsonWeight], (by intro l h; cases h), (by intro m h; cases h)⟩
  · exact ⟨by simp [parseDepth, jsonWeight], (by intro l h; cases h), (by intro m h; cases h)⟩
  · intro s; exact ⟨by simp [parseDepth, jsonWeight], (by intro l h; cases h), (by intro m h; cases h)⟩
  · intro l ⟨h1, h2⟩
    refine ⟨by simp only [parseDepth, jsonWeight]; omega, ?_, (by intro m h; cases h)⟩
    intro l' h; cases h; exact h2
  · intro m ⟨h1, h2⟩
    refine ⟨?_, (by intro l h; cases h), ?_⟩
    · have a := h1 "items"
      have b := h1 "values"
      simp only [parseDepth, jsonWeight]; omega
    · intro m' h; cases h; exact h1
  · exact ⟨by simp [depthList], by simp [depthFields]⟩
  · intro j l ⟨hj, hjl, hjm⟩ ⟨h1, h2⟩
    refine ⟨by simp only [depthList, jsonWeightList]; omega, ?_⟩
    cases j with
    | obj fm =>
      have := hjm fm rfl "type"
      simp only [depthFields, jsonWeightList, jsonWeight]; omega
    | null => simp only [depthFields, jsonWeightList]; omega
    | bool b => simp only [depthFields, jsonWeightList]; omega
    | nat n => simp only [depthFields, jsonWeightList]; omega
    | numOther => simp only [depthFields, jsonWeightList]; omega
    | str s => simp only [depthFields, jsonWeightList]; omega
    | arr a => simp only [depthFields, jsonWeightList]; omega
  · exact ⟨by intro key; simp [depthAttr], by simp [depthFieldsAttr]⟩
  · intro k v m ⟨hv, hvl, hvm⟩ ⟨h1, h2⟩
    refine ⟨?_, ?_⟩
    · intro key
      have := h1 key
      simp only [depthAttr, jsonWeightMembers]
      split <;> omega
    · by_cases hk : k = "fields"
      · cases v with
        | arr fields =>
          have := hvl fields rfl
          simp only [depthFieldsAttr, hk, if_true, jsonWeightMembers, jsonWeight]; omega
        | null => simp only [depthFieldsAttr, hk, if_true, jsonWeightMembers]; omega
        | bool b => simp only [depthFieldsAttr, hk, if_true, jsonWeightMembers]; omega
        | nat n => simp only [depthFieldsAttr, hk, if_true, jsonWeightMembers]; omega
        | numOther => simp only [depthFieldsAttr, hk, if_true, jsonWeightMembers]; omega
        | str s => simp only [depthFieldsAttr, hk, if_true, jsonWeightMembers]; omega
        | obj o => simp only [depthFieldsAttr, hk, if_true, jsonWeightMembers]; omega
      · cases v <;> simp only [depthFieldsAttr, hk, if_false, jsonWeightMembers] <;> omega

/-- The gas `parseJson` gives `rawOfJson` covers what it consumes. -/
theorem parseDepth_le_rawGas (j : Json) : parseDepth j ≤ rawGas j := by
  have := (parseDepth_le_size.1 j).1
  unfold rawGas; omega

/-! ### the result does not depend on the gas -/

theorem stSchema_step {f : Nat} {ms : List (String × Json)} {key : String}
    (ihJ : ∀ j, parseDepth j ≤ f → rawOfJson f j = rawOfJson (f + 1) j)
    (hd : depthAttr key ms ≤ f) : stSchema f ms key = stSchema (f + 1) ms key := by
  unfold stSchema
  cases hm : member ms key with
  | error e => rfl
  | ok r =>
    cases r with
    | none => rfl
    | some v =>
      rw [depthAttr_eq, member_attr hm] at hd
      cases v <;> first | rfl | simp only [ihJ _ hd]

theorem stFields_step {f : Nat} {ms : List (String × Json)}
    (ihF : ∀ js, depthFields js ≤ f → rawFieldsOfJson f js = rawFieldsOfJson (f + 1) js)
    (hd : depthFieldsAttr ms ≤ f) : stFields f ms = stFields (f + 1) ms := by
  unfold stFields
  cases hm : member ms "fields" with
  | error e => rfl
  | ok r =>
    cases r with
    | none => rfl
    | some v =>
      rw [depthFieldsAttr_eq, member_attr hm] at hd
      cases v <;> first | rfl | simp only [ihF _ hd]

theorem raw_gas_step (f : Nat) :
    (∀ j, parseDepth j ≤ f → rawOfJson f j = rawOfJson (f + 1) j) ∧
    (∀ js, depthList js ≤ f → rawListOfJson f js = rawListOfJson (f + 1) js) ∧
    (∀ ms, parseDepth (.obj ms) ≤ f + 1 →
      rawObjectOfJson f ms = rawObjectOfJson (f + 1) ms) ∧
    (∀ js, depthFields js ≤ f → rawFieldsOfJson f js = rawFieldsOfJson (f + 1) js) := by
  induction f with
  | zero =>
    refine ⟨?_, ?_, ?_, ?_⟩
    · intro j hd; cases j <;> simp [parseDepth] at hd
    · intro js hd
      cases js with
      | nil => rfl
      | cons j js => simp [depthList] at hd
    · intro ms hd; simp only [parseDepth] at hd; omega
    · intro js hd
      cases js with
      | nil => rfl
      | cons j js => cases j <;> simp [depthFields] at hd
  | succ f ih =>
    obtain ⟨ihJ, ihL, ihO, ihF⟩ := ih
    refine ⟨?_, ?_, ?_, ?_⟩
    · intro j hd
      cases j with
      | str s => simp only [rawOfJson]
      | arr items =>
        simp only [parseDepth] at hd
        simp only [rawOfJson, ihL items (by omega)]
      | obj ms => simp only [rawOfJson, ihO ms hd]
      | null => rfl
      | bool b => rfl
      | nat n => rfl
      | numOther => rfl
    · intro js hd
      cases js with
      | nil => rfl
      | cons j js =>
        simp only [depthList] at hd
        simp only [rawListOfJson, ihJ j (by omega), ihL js (by omega)]
    · intro ms hd
      simp only [parseDepth] at hd
      rw [rawObjectOfJson_eq, rawObjectOfJson_eq, stFields_step ihF (by omega),
        stSchema_step (key := "items") ihJ (by omega),
        stSchema_step (key := "values") ihJ (by omega)]
    · intro js hd
      cases js with
      | nil => rfl
      | cons j js =>
        cases j with
        | obj fm =>
          simp only [depthFields] at hd
          simp only [rawFieldsOfJson]
          cases hn : member fm "name" with
          | error e => rfl
          | ok rn =>
            cases ht : member fm "type" with
            | error e =>
              cases rn with
              | none => rfl
              | some v => cases v <;> rfl
            | ok rt =>
              cases rt with
              | none =>
                cases rn with
                | none => rfl
                | some v => cases v <;> rfl
              | some t =>
                have hdt : parseDepth t ≤ f := by
                  have := member_attr ht
                  rw [depthAttr_eq, this] at hd
                  simp only at hd
                  omega
                cases rn with
                | none => rfl
                | some v =>
                  cases v <;> first | rfl | simp only [ihJ t hdt, ihF js (by omega)]
        | null => rfl
        | bool b => rfl
        | nat n => rfl
        | numOther => rfl
        | str s => rfl
        | arr l => rfl

theorem rawOfJson_gas_le {j : Json} {f f' : Nat} (hd : parseDepth j ≤ f) (hle : f ≤ f') :
    rawOfJson f j = rawOfJson f' j := by
  induction hle with
  | refl => rfl
  | step h ih => rw [ih]; exact (raw_gas_step _).1 j (Nat.le_trans hd h)

/-- **The fuel of `rawOfJson` is pure gas**: with at least `parseDepth j` of it (in particular
    with `rawGas j`), the result — the raw tree or the error — is the same whatever the amount. -/
theorem rawOfJson_gas_irrelevant {j : Json} {f f' : Nat} (hd : parseDepth j ≤ f)
    (hd' : parseDepth j ≤ f') : rawOfJson f j = rawOfJson f' j := by
  rw [rawOfJson_gas_le hd (Nat.le_max_left f f'), rawOfJson_gas_le hd' (Nat.le_max_right f f')]

theorem rawOfJson_rawGas {j : Json} {f : Nat} (hd : parseDepth j ≤ f) :
    rawOfJson f j = rawOfJson (rawGas j) j :=
  rawOfJson_gas_irrelevant hd (parseDepth_le_rawGas j)

/-! ### a success stays one with more gas -/

theorem stSchema_mono {f : Nat} {ms : List (String × Json)} {key : String}
    {r : Option RawSchema}
    (ihJ : ∀ j raw, rawOfJson f j = .ok raw → rawOfJson (f + 1) j = .ok raw)
    (h : stSchema f ms key = .ok r) : stSchema (f + 1) ms key = .ok r := by
  unfold stSchema at h ⊢
  cases hm : member ms key with
  | error e => rw [hm] at h; exact h
  | ok o =>
    rw [hm] at h
    cases o with
    | none => exact h
    | some v =>
      cases v with
      | null => exact h
      | str s =>
        simp only at h ⊢
        cases hr : rawOfJson f (.str s) with
        | error e => rw [hr] at h; cases h
        | ok x => rw [hr] at h; rw [ihJ _ _ hr]; exact h
      | arr l =>
        simp only at h ⊢
        cases hr : rawOfJson f (.arr l) with
        | error e => rw [hr] at h; cases h
        | ok x => rw [hr] at h; rw [ihJ _ _ hr]; exact h
      | obj o =>
        simp only at h ⊢
        cases hr : rawOfJson f (.obj o) with
        | error e => rw [hr] at h; cases h
        | ok x => rw [hr] at h; rw [ihJ _ _ hr]; exact h
      | bool b =>
        simp only at h ⊢
        cases hr : rawOfJson f (.bool b) with
        | error e => rw [hr] at h; cases h
        | ok x => rw [hr] at h; rw [ihJ _ _ hr]; exact h
      | nat n =>
        simp only at h ⊢
        cases hr : rawOfJson f (.nat n) with
        | error e => rw [hr] at h; cases h
        | ok x => rw [hr] at h; rw [ihJ _ _ hr]; exact h
      | numOther =>
        simp only at h ⊢
        cases hr : rawOfJson f .numOther with
        | error e => rw [hr] at h; cases h
        | ok x => rw [hr] at h; rw [ihJ _ _ hr]; exact h

theorem stFields_mono {f : Nat} {ms : List (String × Json)}
    {r : Option (List (String × RawSchema))}
    (ihF : ∀ js fs, rawFieldsOfJson f js = .ok fs → rawFieldsOfJson (f + 1) js = .ok fs)
    (h : stFields f ms = .ok r) : stFields (f + 1) ms = .ok r := by
  rcases stFields_ok h with ⟨rfl, _⟩ | ⟨its, fs, ha, hx, rfl⟩
  · unfold stFields at h ⊢
    cases hm : member ms "fields" with
    | error e => rw [hm] at h; cases h
    | ok o =>
      rw [hm] at h
      cases o with
      | none => rfl
      | some v =>
        cases v with
        | arr l =>
          simp only at h
          cases hr : rawFieldsOfJson f l with
          | error e => rw [hr] at h; cases h
          | ok x => rw [hr] at h; cases h
        | null => rfl
        | str s => cases h
        | obj o => cases h
        | bool b => cases h
        | nat n => cases h
        | numOther => cases h
  · unfold stFields at h ⊢
    cases hm : member ms "fields" with
    | error e => rw [hm] at h; cases h
    | ok o =>
      have := member_attr hm
      rw [ha] at this
      subst this
      simp only [ihF _ _ hx]

theorem raw_mono_step (f : Nat) :
    (∀ j raw, rawOfJson f j = .ok raw → rawOfJson (f + 1) j = .ok raw) ∧
    (∀ js rs, rawListOfJson f js = .ok rs → rawListOfJson (f + 1) js = .ok rs) ∧
    (∀ ms raw, rawObjectOfJson f ms = .ok raw → rawObjectOfJson (f + 1) ms = .ok raw) ∧
    (∀ js fs, rawFieldsOfJson f js = .ok fs → rawFieldsOfJson (f + 1) js = .ok fs) := by
  induction f with
  | zero =>
    refine ⟨?_, ?_, ?_, ?_⟩
    · intro j raw h; simp [rawOfJson] at h
    · intro js rs h
      cases js with
      | nil => simp [rawListOfJson] at h; subst h; rfl
      | cons j js => simp [rawListOfJson] at h
    · intro ms raw h; simp [rawObjectOfJson] at h
    · intro js fs h
      cases js with
      | nil => simp [rawFieldsOfJson] at h; subst h; rfl
      | cons j js => simp [rawFieldsOfJson] at h
  | succ f ih =>
    obtain ⟨ihJ, ihL, ihO, ihF⟩ := ih
    refine ⟨?_, ?_, ?_, ?_⟩
    · intro j raw h
      cases j with
      | str s => simpa only [rawOfJson] using h
      | arr items =>
        simp only [rawOfJson] at h ⊢
        cases hl : rawListOfJson f items with
        | error e => rw [hl] at h; cases h
        | ok l => rw [hl] at h; rw [ihL _ _ hl]; exact h
      | obj ms =>
        simp only [rawOfJson] at h ⊢
        exact ihO _ _ h
      | null => simp [rawOfJson] at h
      | bool b => simp [rawOfJson] at h
      | nat n => simp [rawOfJson] at h
      | numOther => simp [rawOfJson] at h
    · intro js rs h
      cases js with
      | nil => simp [rawListOfJson] at h; subst h; rfl
      | cons j js =>
        simp only [rawListOfJson] at h ⊢
        cases h1 : rawOfJson f j with
        | error e => rw [h1] at h; cases h
        | ok r =>
          rw [h1] at h
          cases h2 : rawListOfJson f js with
          | error e => rw [h2] at h; cases h
          | ok rs' => rw [h2] at h; rw [ihJ _ _ h1, ihL _ _ h2]; exact h
    · intro ms raw h
      rw [rawObjectOfJson_eq] at h ⊢
      obtain ⟨ty, hty, h⟩ := bind_ok h
      obtain ⟨lt, hlt, h⟩ := bind_ok h
      obtain ⟨name, hname, h⟩ := bind_ok h
      obtain ⟨ns, hns, h⟩ := bind_ok h
      obtain ⟨fields, hfields, h⟩ := bind_ok h
      obtain ⟨symbols, hsymbols, h⟩ := bind_ok h
      obtain ⟨items, hitems, h⟩ := bind_ok h
      obtain ⟨values, hvalues, h⟩ := bind_ok h
      rw [hty, hlt, hname, hns, stFields_mono ihF hfields, hsymbols, stSchema_mono ihJ hitems,
        stSchema_mono ihJ hvalues]
      exact h
    · intro js fs h
      cases js with
      | nil => simp [rawFieldsOfJson] at h; subst h; rfl
      | cons j js =>
        cases j with
        | obj fm =>
          simp only [rawFieldsOfJson] at h ⊢
          split at h
          · rename_i name t hn ht
            cases h1 : rawOfJson f t with
            | error e => rw [h1] at h; cases h
            | ok r =>
              rw [h1] at h
              cases h2 : rawFieldsOfJson f js with
              | error e => rw [h2] at h; cases h
              | ok fs' => rw [h2] at h; rw [ihJ _ _ h1, ihF _ _ h2]; exact h
          · cases h
        | null => simp [rawFieldsOfJson] at h
        | bool b => simp [rawFieldsOfJson] at h
        | nat n => simp [rawFieldsOfJson] at h
        | numOther => simp [rawFieldsOfJson] at h
        | str s => simp [rawFieldsOfJson] at h
        | arr l => simp [rawFieldsOfJson] at h

/-- A success of `rawOfJson` stays the same success with more gas. -/
theorem rawOfJson_mono {j : Json} {raw : RawSchema} {f f' : Nat}
    (h : rawOfJson f j = .ok raw) (hle : f ≤ f') : rawOfJson f' j = .ok raw := by
  induction hle with
  | refl => exact h
  | step _ ih => exact (raw_mono_step _).1 j raw ih

end Avro.ValidParses
