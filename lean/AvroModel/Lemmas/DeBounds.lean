import AvroModel.Impl.De
/-
Helper lemmas for C04 (robustness of the datum deserializer model):
 * `Mono m`: the computation `m` only ever drops a prefix of the unread input;
 * block reader facts (`hasMore`) for the sequence limit;
 * hint sizes and the fuel bound.
-/
namespace Avro.Impl
open Avro

/-! ### 1. Input monotonicity -/

/-- `m` only drops a prefix of the unread input (whatever the back-end and the outcome). -/
def Mono {α : Type} (m : DeM α) : Prop := ∀ s, (m s).2.rest <:+ s.rest

theorem Mono.pure {α : Type} (a : α) : Mono (pure a : DeM α) := fun _ => List.suffix_refl _

theorem Mono.fail {α : Type} (e : DeErr) : Mono (DeM.fail e : DeM α) := fun _ => List.suffix_refl _

theorem Mono.bind {α β : Type} {m : DeM α} {f : α → DeM β} (hm : Mono m) (hf : ∀ a, Mono (f a)) :
    Mono (m >>= f) := by
  intro s
  show ((match m s with
    | (.ok a, s') => f a s'
    | (.error e, s') => (.error e, s')) : Except DeErr β × RState).2.rest <:+ s.rest
  have := hm s
  split
  · next a s' h => rw [h] at this; exact (hf a s').trans this
  · next e s' h => rw [h] at this; exact this

theorem Mono.fillBuf : Mono fillBuf := by
  intro s
  unfold Impl.fillBuf
  split
  · exact List.suffix_refl _
  · split
    · exact List.suffix_refl _
    · exact List.suffix_refl _

theorem fillBuf_rest (s : RState) : (fillBuf s).2.rest = s.rest := by
  unfold fillBuf
  split
  · rfl
  · split <;> rfl

theorem Mono.consume (n : Nat) : Mono (consume n) := by
  intro s
  exact List.drop_suffix n s.rest

theorem Mono.readSome (k : Nat) : Mono (readSome k) := by
  intro s
  have hf := fillBuf_rest s
  unfold Impl.readSome
  simp only
  split <;>
  · split
    · exact List.suffix_refl _
    · split
      · next e s' h =>
        rw [h] at hf
        simp only at hf
        rw [← hf]; exact List.suffix_refl _
      · next buf s' h =>
        rw [h] at hf
        simp only [Impl.consume] at hf ⊢
        rw [← hf]
        exact List.drop_suffix _ _

theorem Mono.readExactR : ∀ (fuel k : Nat) (acc : Bytes), Mono (readExactR fuel k acc)
  | _, 0, acc => by unfold Impl.readExactR; exact Mono.pure _
  | 0, _ + 1, _ => by unfold Impl.readExactR; exact Mono.fail _
  | fuel + 1, k + 1, acc => by
    unfold Impl.readExactR
    refine Mono.bind (Mono.readSome _) fun got => ?_
    split
    · exact Mono.fail _
    · exact Mono.readExactR fuel _ _

theorem Mono.readExact (k : Nat) : Mono (readExact k) := Mono.readExactR k k []

theorem Mono.varintBytewise (t : VarTy) : ∀ (fuel : Nat) (buf : Bytes), Mono (varintBytewise t fuel buf)
  | 0, buf => by
    unfold Impl.varintBytewise
    split
    · exact Mono.pure _
    · exact Mono.fail _
  | fuel + 1, buf => by
    unfold Impl.varintBytewise
    refine Mono.bind (Mono.readSome _) fun got => ?_
    split
    · exact Mono.fail _
    · simp only
      split
      · split
        · exact Mono.pure _
        · exact Mono.fail _
      · exact Mono.varintBytewise t fuel _

theorem Mono.varintProcessor (t : VarTy) : ∀ (fuel : Nat) (buf : Bytes), Mono (varintProcessor t fuel buf)
  | 0, buf => by
    unfold Impl.varintProcessor
    split
    · exact Mono.pure _
    · exact Mono.fail _
  | fuel + 1, buf => by
    unfold Impl.varintProcessor
    split
    · split
      · exact Mono.pure _
      · exact Mono.fail _
    · refine Mono.bind (Mono.readSome _) fun got => ?_
      split
      · split
        · exact Mono.fail _
        · split
          · exact Mono.pure _
          · exact Mono.fail _
      · split
        · exact Mono.fail _
        · exact Mono.varintProcessor t fuel _

theorem Mono.readVarint (t : VarTy) : Mono (readVarint t) := by
  intro s
  unfold Impl.readVarint
  split
  · split
    · exact List.suffix_refl _
    · exact List.drop_suffix _ _
  · have hf := fillBuf_rest s
    split
    · next e s' h => rw [h] at hf; simp only at hf; rw [← hf]; exact List.suffix_refl _
    · next buf s' h =>
      rw [h] at hf
      simp only at hf
      split
      · simp only [Impl.consume, Prod.map, id]
        rw [← hf]; exact List.drop_suffix _ _
      · rw [← hf]; exact Mono.varintBytewise t 10 [] s'

theorem Mono.readSlice (n : Nat) : Mono (readSlice n) := by
  intro s
  unfold Impl.readSlice
  split
  · split
    · exact List.suffix_refl _
    · exact List.drop_suffix _ _
  · have hf := fillBuf_rest s
    split
    · next e s' h => rw [h] at hf; simp only at hf; rw [← hf]; exact List.suffix_refl _
    · next buf s' h =>
      rw [h] at hf
      simp only at hf
      split
      · simp only [Impl.consume]
        rw [← hf]; exact List.drop_suffix _ _
      · split
        · rw [← hf]; exact List.suffix_refl _
        · have := Mono.readExactR n n [] { s' with scratch := max s'.scratch n }
          simp only at this
          rw [← hf]
          simp only
          split
          · next b s'' h2 => rw [h2] at this; exact this
          · next e s'' h2 => rw [h2] at this; exact this

theorem skipBytes_go_suffix : ∀ (fuel left : Nat) (st : RState),
    (skipBytes.go fuel left st).rest <:+ st.rest
  | 0, _, st => by unfold skipBytes.go; exact List.suffix_refl _
  | _ + 1, 0, st => by unfold skipBytes.go; exact List.suffix_refl _
  | fuel + 1, left + 1, st => by
    unfold skipBytes.go
    have := Mono.readSome (left + 1) st
    split
    · next got st' h =>
      rw [h] at this
      split
      · exact this
      · exact (skipBytes_go_suffix fuel _ st').trans this
    · next r _ h =>
      rw [h] at this; exact this

theorem Mono.skipBytes (n : Nat) : Mono (skipBytes n) := by
  intro s
  unfold Impl.skipBytes
  split
  · split
    · exact List.drop_suffix _ _
    · exact List.suffix_refl _
  · simp only
    split <;> exact skipBytes_go_suffix _ _ _

theorem Mono.decDepth (d : Nat) : Mono (decDepth d) := by
  unfold Impl.decDepth
  split
  · exact Mono.fail _
  · exact Mono.pure _

theorem Mono.readLen : Mono readLen := by
  unfold Impl.readLen
  refine Mono.bind (Mono.readVarint _) fun l => ?_
  split
  · exact Mono.fail _
  · exact Mono.pure _

theorem Mono.readDiscriminant : Mono readDiscriminant := Mono.readLen

theorem Mono.readString : Mono readString := by
  unfold Impl.readString
  refine Mono.bind Mono.readLen fun n => ?_
  refine Mono.bind (Mono.readSlice _) fun p => ?_
  split
  split
  · exact Mono.pure _
  · exact Mono.fail _

theorem Mono.readBytes : Mono readBytes := by
  unfold Impl.readBytes
  refine Mono.bind Mono.readLen fun n => ?_
  refine Mono.bind (Mono.readSlice _) fun p => ?_
  split
  exact Mono.pure _

theorem Mono.readBool : Mono readBool := by
  unfold Impl.readBool
  refine Mono.bind (Mono.readSlice _) fun p => ?_
  split
  split
  · exact Mono.pure _
  · exact Mono.pure _
  · exact Mono.fail _

theorem Mono.readBlockLen (ignored : Bool) : ∀ fuel, Mono (readBlockLen ignored fuel)
  | 0 => by unfold Impl.readBlockLen; exact Mono.fail _
  | fuel + 1 => by
    unfold Impl.readBlockLen
    refine Mono.bind (Mono.readVarint _) fun len => ?_
    split
    · split
      · refine Mono.bind (Mono.readVarint _) fun sz => ?_
        split
        · exact Mono.fail _
        · refine Mono.bind (Mono.skipBytes _) fun _ => ?_
          exact Mono.readBlockLen ignored fuel
      · refine Mono.bind (Mono.readVarint _) fun sz => ?_
        split
        · exact Mono.fail _
        · exact Mono.pure _
    · exact Mono.pure _

theorem Mono.hasMore (cfg : DeConfig) (ignored : Bool) (bs : BlockState) :
    Mono (hasMore cfg ignored bs) := by
  intro s
  unfold Impl.hasMore
  split
  · exact List.suffix_refl _
  · have := Mono.readBlockLen ignored (s.rest.length + 2) s
    split
    · next e s' h => rw [h] at this; exact this
    · next s' h => rw [h] at this; exact this
    · next l s' h =>
      rw [h] at this
      simp only
      split <;> exact this

theorem Mono.setLimit (l : Option Nat) : Mono (setLimit l) := fun _ => List.suffix_refl _
theorem Mono.getLimit : Mono getLimit := fun _ => List.suffix_refl _
theorem Mono.withLimitCleared {α : Type} {m : DeM α} (hm : Mono m) : Mono (withLimitCleared m) := by
  intro s
  unfold Impl.withLimitCleared
  exact hm s


/-- one step of the syntax-directed proof of `Mono`: closes leaves with the primitive lemmas (or a
    hypothesis), otherwise peels a `bind` or splits a `match`/`if`. -/
macro "mono_step" : tactic => `(tactic| first
  | with_reducible exact Mono.pure _ | with_reducible exact Mono.fail _
  | with_reducible exact Mono.readVarint _ | with_reducible exact Mono.readSlice _
  | with_reducible exact Mono.readExact _ | with_reducible exact Mono.readLen
  | with_reducible exact Mono.readDiscriminant
  | with_reducible exact Mono.readString | with_reducible exact Mono.readBytes
  | with_reducible exact Mono.readBool | with_reducible exact Mono.decDepth _
  | with_reducible exact Mono.hasMore _ _ _ | with_reducible exact Mono.setLimit _
  | with_reducible exact Mono.getLimit
  | with_reducible exact Mono.varintProcessor _ _ _ | with_reducible exact Mono.skipBytes _
  | with_reducible assumption
  | with_reducible apply Mono.withLimitCleared
  | with_reducible (refine Mono.bind ?_ (fun _ => ?_))
  | split
  | simp only [])

theorem Mono.readDecimal (ext : DeExt) (mode : DecMode) (hint : DecHint) :
    Mono (readDecimal ext mode hint) := by
  unfold Impl.readDecimal
  repeat mono_step


/-- The seven functions of the mutual block, at a given model fuel, only drop a prefix of the
    unread input. -/
theorem Mono.deAll (ext : DeExt) (cfg : DeConfig) (S : Schema) : ∀ fuel : Nat,
    (∀ node depth favor h, Mono (de ext cfg S fuel node depth favor h)) ∧
    (∀ node depth vs, Mono (deTypeNameEnum ext cfg S fuel node depth vs)) ∧
    (∀ node depth h, Mono (deAny ext cfg S fuel node depth h)) ∧
    (∀ node depth, Mono (deIgnored ext cfg S fuel node depth)) ∧
    (∀ item depth ign eh mi bs acc, Mono (deSeqLoop ext cfg S fuel item depth ign eh mi bs acc)) ∧
    (∀ item depth ign h bs acc, Mono (deMapLoop ext cfg S fuel item depth ign h bs acc)) ∧
    (∀ fields depth h acc, Mono (deRecordFields ext cfg S fuel fields depth h acc)) := by
  intro fuel
  induction fuel with
  | zero =>
    refine ⟨?_, ?_, ?_, ?_, ?_, ?_, ?_⟩
    · intros; unfold de; exact Mono.fail _
    · intros; unfold deTypeNameEnum; exact Mono.fail _
    · intros; unfold deAny; exact Mono.fail _
    · intros; unfold deIgnored; exact Mono.fail _
    · intros; unfold deSeqLoop; exact Mono.fail _
    · intros; unfold deMapLoop; exact Mono.fail _
    · intro fields depth h acc
      cases fields with
      | nil => unfold deRecordFields; exact Mono.pure _
      | cons f r => unfold deRecordFields; exact Mono.fail _
  | succ fuel ih =>
    obtain ⟨ih1, ih2, ih3, ih4, ih5, ih6, ih7⟩ := ih
    refine ⟨?_, ?_, ?_, ?_, ?_, ?_, ?_⟩
    · intro node depth favor h
      unfold de
      repeat (first | with_reducible exact ih1 _ _ _ _ | with_reducible exact ih2 _ _ _ | with_reducible exact ih3 _ _ _ | with_reducible exact ih4 _ _ | with_reducible exact Mono.readDecimal _ _ _ | mono_step)
    · intro node depth vs
      unfold deTypeNameEnum
      repeat (first | with_reducible exact ih1 _ _ _ _ | with_reducible exact ih2 _ _ _ | with_reducible exact ih3 _ _ _ | with_reducible exact ih4 _ _ | with_reducible exact Mono.readDecimal _ _ _ | mono_step)
    · intro node depth h
      unfold deAny
      repeat (first | with_reducible exact ih3 _ _ _ | with_reducible exact ih5 _ _ _ _ _ _ _ | with_reducible exact ih6 _ _ _ _ _ _ | with_reducible exact ih7 _ _ _ _ | with_reducible exact Mono.readDecimal _ _ _ | mono_step)
    · intro node depth
      unfold deIgnored
      repeat (first | with_reducible exact ih3 _ _ _ | with_reducible exact ih5 _ _ _ _ _ _ _ | with_reducible exact ih6 _ _ _ _ _ _ | with_reducible exact ih7 _ _ _ _ | with_reducible exact Mono.readDecimal _ _ _ | mono_step)
    · intro item depth ign eh mi bs acc
      unfold deSeqLoop
      repeat (first | with_reducible exact ih1 _ _ _ _ | with_reducible exact ih5 _ _ _ _ _ _ _ | with_reducible exact Mono.readDecimal _ _ _ | mono_step)
    · intro item depth ign h bs acc
      unfold deMapLoop
      repeat (first | with_reducible exact ih1 _ _ _ _ | with_reducible exact ih6 _ _ _ _ _ _ | with_reducible exact Mono.readDecimal _ _ _ | mono_step)
    · intro fields depth h acc
      cases fields with
      | nil => unfold deRecordFields; exact Mono.pure _
      | cons f r =>
        obtain ⟨name, k⟩ := f
        unfold deRecordFields
        repeat (first | with_reducible exact ih1 _ _ _ _ | with_reducible exact ih7 _ _ _ _ | with_reducible exact Mono.readDecimal _ _ _ | mono_step)


/-! ### 2. The block reader and the sequence limit -/

theorem DeM.bind_apply {α β : Type} (m : DeM α) (f : α → DeM β) (s : RState) :
    (m >>= f) s = match m s with
      | (.ok a, s') => f a s'
      | (.error e, s') => (.error e, s') := rfl

theorem DeM.pure_apply {α : Type} (a : α) (s : RState) : (pure a : DeM α) s = (.ok a, s) := rfl
theorem DeM.fail_apply {α : Type} (e : DeErr) (s : RState) : (DeM.fail e : DeM α) s = (.error e, s) := rfl

theorem readBlockLen_pos (ignored : Bool) : ∀ (fuel : Nat) (s s' : RState) (l : Nat),
    readBlockLen ignored fuel s = (.ok (some l), s') → 1 ≤ l
  | 0, s, s', l => by
    unfold readBlockLen; simp [DeM.fail_apply]
  | fuel + 1, s, s', l => by
    unfold readBlockLen
    simp only [DeM.bind_apply]
    split
    · next len s1 h1 =>
      split
      · split
        · simp only [DeM.bind_apply]
          split
          · next sz s2 h2 =>
            split
            · simp [DeM.fail_apply]
            · simp only [DeM.bind_apply]
              split
              · next u s3 h3 => exact readBlockLen_pos ignored fuel s3 s' l
              · simp
          · simp
        · simp only [DeM.bind_apply]
          split
          · split
            · simp [DeM.fail_apply]
            · simp only [DeM.pure_apply]
              split
              · simp
              · intro h; simp only [Prod.mk.injEq, Except.ok.injEq, Option.some.injEq] at h; omega
          · simp
      · simp only [DeM.pure_apply]
        split
        · simp
        · intro h; simp only [Prod.mk.injEq, Except.ok.injEq, Option.some.injEq] at h; omega
    · simp

theorem hasMore_true (cfg : DeConfig) (ign : Bool) (bs bs' : BlockState) (s s' : RState)
    (h : hasMore cfg ign bs s = (.ok (true, bs'), s')) :
    (bs.nRead ≤ cfg.maxSeqSize → bs'.nRead ≤ cfg.maxSeqSize) ∧
    bs'.nRead + bs.current = bs.nRead + bs'.current + 1 ∧
    cfg.maxSeqSize - bs'.nRead + bs'.current + 1 = cfg.maxSeqSize - bs.nRead + bs.current := by
  unfold hasMore at h
  split at h
  · next c hc =>
    simp only [Prod.mk.injEq, Except.ok.injEq, true_and] at h
    obtain ⟨rfl, -⟩ := h
    simp only [hc]
    omega
  · next hc =>
    split at h
    · simp at h
    · simp at h
    · next l s1 h1 =>
      have hl := readBlockLen_pos _ _ _ _ _ h1
      simp only at h
      split at h
      · simp at h
      · simp only [Prod.mk.injEq, Except.ok.injEq, true_and] at h
        obtain ⟨rfl, -⟩ := h
        simp only [hc]
        omega

theorem deSeqLoop_length (ext : DeExt) (cfg : DeConfig) (S : Schema) :
    ∀ (fuel : Nat) (item : Node) (depth : Nat) (ign : Bool) (eh : Hint) (mi : Option Nat)
      (bs : BlockState) (acc : List Out) (s s' : RState) (items : List Out),
      bs.nRead ≤ cfg.maxSeqSize → acc.length + bs.current = bs.nRead →
      deSeqLoop ext cfg S fuel item depth ign eh mi bs acc s = (.ok items, s') →
      items.length ≤ cfg.maxSeqSize
  | 0, item, depth, ign, eh, mi, bs, acc, s, s', items => by
    unfold deSeqLoop; simp [DeM.fail_apply]
  | fuel + 1, item, depth, ign, eh, mi, bs, acc, s, s', items => by
    intro hn hinv
    unfold deSeqLoop
    split
    · simp only [DeM.bind_apply]
      split
      · next p s1 h1 =>
        obtain ⟨more, bs'⟩ := p
        simp only
        split
        · simp [DeM.fail_apply]
        · simp only [DeM.pure_apply, Prod.mk.injEq, Except.ok.injEq]
          rintro ⟨rfl, -⟩
          simp only [List.length_reverse]; omega
      · simp
    · simp only [DeM.bind_apply]
      split
      · next p s1 h1 =>
        obtain ⟨more, bs'⟩ := p
        simp only
        split
        · simp only [DeM.pure_apply, Prod.mk.injEq, Except.ok.injEq]
          rintro ⟨rfl, -⟩
          simp only [List.length_reverse]; omega
        · next hm =>
          have : more = true := by simpa using hm
          subst this
          obtain ⟨hA, hB, -⟩ := hasMore_true _ _ _ _ _ _ h1
          simp only [DeM.bind_apply]
          split
          · next o s2 h2 =>
            apply deSeqLoop_length ext cfg S fuel
            · exact hA hn
            · simp only [List.length_cons]; omega
          · simp
      · simp

theorem deMapLoop_length (ext : DeExt) (cfg : DeConfig) (S : Schema) :
    ∀ (fuel : Nat) (item : Node) (depth : Nat) (ign : Bool) (h : Hint)
      (bs : BlockState) (acc : List (Out × Out)) (s s' : RState) (entries : List (Out × Out)),
      bs.nRead ≤ cfg.maxSeqSize → acc.length + bs.current = bs.nRead →
      deMapLoop ext cfg S fuel item depth ign h bs acc s = (.ok entries, s') →
      entries.length ≤ cfg.maxSeqSize
  | 0, item, depth, ign, h, bs, acc, s, s', entries => by
    unfold deMapLoop; simp [DeM.fail_apply]
  | fuel + 1, item, depth, ign, h, bs, acc, s, s', entries => by
    intro hn hinv
    unfold deMapLoop
    simp only [DeM.bind_apply]
    split
    · next p s1 h1 =>
      obtain ⟨more, bs'⟩ := p
      simp only
      split
      · simp only [DeM.pure_apply, Prod.mk.injEq, Except.ok.injEq]
        rintro ⟨rfl, -⟩
        simp only [List.length_reverse]; omega
      · next hm =>
        have : more = true := by simpa using hm
        subst this
        obtain ⟨hA, hB, -⟩ := hasMore_true _ _ _ _ _ _ h1
        simp only [DeM.bind_apply]
        split
        · next n s2 h2 =>
          split
          · next p2 s3 h3 =>
            obtain ⟨kb, borrowed⟩ := p2
            simp only
            split
            · next p3 s4 h4 =>
              obtain ⟨kOut, kName⟩ := p3
              simp only
              split
              · next v s5 h5 =>
                apply deMapLoop_length ext cfg S fuel
                · exact hA hn
                · simp only [List.length_cons]; omega
              · simp
            · simp
          · simp
        · simp
    · simp


/-! ### 3. Hint sizes and schema width (ingredients of the fuel bound) -/

mutual
def Hint.size : Hint → Nat
  | .option h => h.size + 1
  | .seq e => e.size + 1
  | .tuple _ e => e.size + 1
  | .map k v => k.size + v.size + 1
  | .struct fs => fieldsSize fs + 1
  | .enum vs => variantsSize vs + 2
  | _ => 1
def VariantHint.size : VariantHint → Nat
  | .unit => 1
  | .newtype h => h.size + 1
  | .tuple _ e => e.size + 2
  | .struct fs => fieldsSize fs + 2
def fieldsSize : List (String × Hint) → Nat
  | [] => 0
  | (_, h) :: r => h.size + fieldsSize r
def variantsSize : List (String × VariantHint) → Nat
  | [] => 0
  | (_, v) :: r => v.size + variantsSize r
end

theorem Hint.size_pos (h : Hint) : 1 ≤ h.size := by
  cases h <;> simp only [Hint.size] <;> omega

theorem lookupHint_size (n : String) : ∀ (fs : List (String × Hint)) (h : Hint),
    lookupHint n fs = some h → h.size ≤ fieldsSize fs
  | [], h => by simp [lookupHint]
  | (k, h') :: r, h => by
    simp only [lookupHint, fieldsSize]
    split
    · intro e; cases e; omega
    · intro e; have := lookupHint_size n r h e; omega


theorem lookupVariant_size (n : String) : ∀ (vs : List (String × VariantHint)) (v : VariantHint),
    lookupVariant n vs = some v → v.size ≤ variantsSize vs
  | [], v => by simp [lookupVariant]
  | (k, v') :: r, v => by
    simp only [lookupVariant, variantsSize]
    split
    · intro e; cases e; omega
    · intro e; have := lookupVariant_size n r v e; omega

theorem Hint.elem_size (h : Hint) : h.elem.size ≤ h.size := by
  cases h <;> simp only [Hint.elem, Hint.size] <;> omega

theorem Hint.inner_size (h : Hint) : h.inner.size ≤ h.size := by
  cases h <;> simp only [Hint.inner, Hint.size] <;> omega

theorem Hint.valFor_size (h : Hint) (n : Option String) : (h.valFor n).size ≤ h.size := by
  cases h <;> simp only [Hint.valFor, Hint.size] <;> try omega
  next fs =>
    cases n with
    | none => simp only [Hint.size]; omega
    | some n =>
      simp only
      cases hl : lookupHint n fs with
      | none => simp only [Option.getD, Hint.size]; omega
      | some h' => have := lookupHint_size n fs h' hl; simp only [Option.getD]; omega

/-- number of fields of a record node (0 for the other kinds) -/
def nodeFields : Node → Nat
  | .record _ fs => fs.length
  | _ => 0

/-- the widest record of the schema -/
def maxFields (S : Schema) : Nat := (S.toList.map nodeFields).foldr max 0

theorem le_foldr_max : ∀ (l : List Nat) (x : Nat), x ∈ l → x ≤ l.foldr max 0
  | [], x, h => by cases h
  | a :: l, x, h => by
    simp only [List.foldr]
    cases h with
    | head => exact Nat.le_max_left _ _
    | tail _ h => exact Nat.le_trans (le_foldr_max l x h) (Nat.le_max_right _ _)

theorem nodeFields_le {S : Schema} {k : Nat} {n : Node} (h : S[k]? = some n) :
    nodeFields n ≤ maxFields S := by
  apply le_foldr_max
  rw [List.mem_map]
  refine ⟨n, ?_, rfl⟩
  rw [Array.mem_toList_iff]
  exact Array.mem_of_getElem? h


/-! ### 4. One more unit of fuel changes nothing above the bound -/

theorem DeM.bind_congr {α β : Type} {m m' : DeM α} {f g : α → DeM β} (hm : m = m')
    (h : ∀ a s s', m s = (.ok a, s') → f a = g a) : m >>= f = m' >>= g := by
  subst hm
  funext s
  simp only [DeM.bind_apply]
  split
  · next a s' heq => exact congrFun (h a s s' heq) s'
  · rfl

theorem decDepth_ok {d d' : Nat} {s s' : RState} (h : decDepth d s = (.ok d', s')) : d = d' + 1 := by
  unfold decDepth at h
  split at h
  · simp [DeM.fail_apply] at h
  · simp only [DeM.pure_apply, Prod.mk.injEq, Except.ok.injEq] at h; omega

section
variable (ext : DeExt) (cfg : DeConfig) (S : Schema)

theorem fuel_step (W : Nat) (D : Nat → Nat)
    (hW : cfg.maxSeqSize + maxFields S + 4 ≤ W) (hD : ∀ d, D d + W ≤ D (d + 1)) : ∀ fuel : Nat,
    (∀ node depth favor h, nodeFields node ≤ maxFields S → D depth + 2 * h.size + 2 ≤ fuel →
      de ext cfg S fuel node depth favor h = de ext cfg S (fuel + 1) node depth favor h) ∧
    (∀ node depth vs, nodeFields node ≤ maxFields S → D depth + 2 * variantsSize vs + 4 ≤ fuel →
      deTypeNameEnum ext cfg S fuel node depth vs = deTypeNameEnum ext cfg S (fuel + 1) node depth vs) ∧
    (∀ node depth h, nodeFields node ≤ maxFields S → D depth + 2 * h.size ≤ fuel →
      deAny ext cfg S fuel node depth h = deAny ext cfg S (fuel + 1) node depth h) ∧
    (∀ node depth, nodeFields node ≤ maxFields S → D depth + 3 ≤ fuel →
      deIgnored ext cfg S fuel node depth = deIgnored ext cfg S (fuel + 1) node depth) ∧
    (∀ item depth ign eh mi bs acc, nodeFields item ≤ maxFields S →
      D depth + 2 * eh.size + 3 + (cfg.maxSeqSize - bs.nRead + bs.current) ≤ fuel →
      deSeqLoop ext cfg S fuel item depth ign eh mi bs acc
        = deSeqLoop ext cfg S (fuel + 1) item depth ign eh mi bs acc) ∧
    (∀ item depth ign h bs acc, nodeFields item ≤ maxFields S →
      D depth + 2 * h.size + 3 + (cfg.maxSeqSize - bs.nRead + bs.current) ≤ fuel →
      deMapLoop ext cfg S fuel item depth ign h bs acc
        = deMapLoop ext cfg S (fuel + 1) item depth ign h bs acc) ∧
    (∀ fields depth h acc, D depth + 2 * h.size + 2 + fields.length ≤ fuel →
      deRecordFields ext cfg S fuel fields depth h acc
        = deRecordFields ext cfg S (fuel + 1) fields depth h acc) := by
  intro fuel
  induction fuel with
  | zero =>
    refine ⟨?_, ?_, ?_, ?_, ?_, ?_, ?_⟩
    · intros; omega
    · intros; omega
    · intro _ _ h _ _; have := h.size_pos; omega
    · intros; omega
    · intros; omega
    · intros; omega
    · intros; omega
  | succ fuel ih =>
    obtain ⟨ih1, ih2, ih3, ih4, ih5, ih6, ih7⟩ := ih
    refine ⟨?_, ?_, ?_, ?_, ?_, ?_, ?_⟩
    · intro node depth favor h hnode hb
      cases h with
      | ignored => simp only [Hint.size] at hb; simp only [de]; exact ih4 _ _ hnode (by omega)
      | option inner =>
        simp only [Hint.size] at hb
        cases node <;> simp only [de]
        case union vs =>
          refine DeM.bind_congr rfl ?_
          intro d s1 s1' h1
          split
          · rfl
          · next k hk =>
            split
            · rfl
            · rfl
            · next variant hne hv =>
              refine DeM.bind_congr rfl ?_
              intro depth' s2 s2' h2
              have := decDepth_ok h2; subst this
              have := hD depth'
              rw [ih1 _ depth' _ inner (nodeFields_le hv) (by omega)]
        all_goals rw [ih1 _ depth _ inner hnode (by omega)]
      | enum vs =>
        generalize hR : de ext cfg S (fuel + 1 + 1) node depth favor (.enum vs) = R
        cases node <;> simp only [de] <;> subst hR <;>
          (generalize hf : fuel + 1 = f1; simp only [de]; subst hf) <;> split
        all_goals first
          | exact ih2 _ _ _ hnode (by simp only [Hint.size] at hb; omega)
          | (refine DeM.bind_congr rfl ?_
             intro depth' s2 s2' h2
             have := decDepth_ok h2; subst this
             have := hD depth'
             simp only [Hint.size] at hb
             first
               | exact ih2 _ _ _ hnode (by omega)
               | rw [ih1 _ depth' _ .identifier hnode (by simp only [Hint.size]; omega)])
          | (refine DeM.bind_congr rfl ?_
             intro d s1 s1' h1
             split
             · rfl
             · split
               · rfl
               · next variant hv =>
                 refine DeM.bind_congr rfl ?_
                 intro depth' s2 s2' h2
                 have := decDepth_ok h2; subst this
                 have := hD depth'
                 simp only [Hint.size] at hb
                 exact ih2 _ _ _ (nodeFields_le hv) (by omega))
      | _ =>
        cases node <;> simp only [de] <;> (try split) <;>
          first | rfl | (refine ih3 _ _ _ hnode ?_; simp only [Hint.size] at hb ⊢; omega)
    · intro node depth vs hnode hb
      rw [deTypeNameEnum, deTypeNameEnum]
      split
      · rfl
      · rw [ih4 node depth hnode (by omega)]
      · next h' hsel =>
        have := lookupVariant_size _ _ _ hsel
        simp only [VariantHint.size] at this
        rw [ih1 node depth false h' hnode (by omega)]
      · next n e hsel =>
        have := lookupVariant_size _ _ _ hsel
        simp only [VariantHint.size] at this
        rw [ih1 node depth false (.tuple n e) hnode (by simp only [Hint.size]; omega)]
      · next fs hsel =>
        have := lookupVariant_size _ _ _ hsel
        simp only [VariantHint.size] at this
        rw [ih1 node depth false (.struct fs) hnode (by simp only [Hint.size]; omega)]
    · intro node depth h hnode hb
      have hsz := h.size_pos
      cases node <;> simp only [deAny]
      case array k =>
        split
        · rfl
        · next item hk =>
          refine DeM.bind_congr rfl ?_
          intro depth' s2 s2' h2
          have := decDepth_ok h2; subst this
          have := hD depth'
          have := h.elem_size
          rw [ih5 item depth' false h.elem h.maxItems {} [] (nodeFields_le hk)
            (by simp only [Nat.sub_zero, Nat.add_zero]; omega)]
      case map k =>
        split
        · rfl
        · next item hk =>
          refine DeM.bind_congr rfl ?_
          intro depth' s2 s2' h2
          have := decDepth_ok h2; subst this
          have := hD depth'
          rw [ih6 item depth' false h {} [] (nodeFields_le hk)
            (by simp only [Nat.sub_zero, Nat.add_zero]; omega)]
      case union vs =>
        refine DeM.bind_congr rfl ?_
        intro d s1 s1' h1
        split
        · rfl
        · split
          · rfl
          · next variant hv =>
            refine DeM.bind_congr rfl ?_
            intro depth' s2 s2' h2
            have := decDepth_ok h2; subst this
            have := hD depth'
            exact ih3 _ _ _ (nodeFields_le hv) (by omega)
      case record nm fields =>
        simp only [nodeFields] at hnode
        refine DeM.bind_congr rfl ?_
        intro depth' s2 s2' h2
        have := decDepth_ok h2; subst this
        have := hD depth'
        rw [ih7 fields depth' h [] (by omega)]
    · intro node depth hnode hb
      cases node <;> simp only [deIgnored]
      case array k =>
        split
        · rfl
        · next item hk =>
          refine DeM.bind_congr rfl ?_
          intro depth' s2 s2' h2
          have := decDepth_ok h2; subst this
          have := hD depth'
          rw [ih5 item depth' true .ignored none {} [] (nodeFields_le hk)
            (by simp only [Nat.sub_zero, Nat.add_zero, Hint.size]; omega)]
      case map k =>
        split
        · rfl
        · next item hk =>
          refine DeM.bind_congr rfl ?_
          intro depth' s2 s2' h2
          have := decDepth_ok h2; subst this
          have := hD depth'
          rw [ih6 item depth' true .ignored {} [] (nodeFields_le hk)
            (by simp only [Nat.sub_zero, Nat.add_zero, Hint.size]; omega)]
      all_goals rw [ih3 _ depth .ignored hnode (by simp only [Hint.size]; omega)]
    · intro item depth ign eh mi bs acc hnode hb
      rw [deSeqLoop, deSeqLoop]
      split
      · rfl
      · refine DeM.bind_congr rfl ?_
        rintro ⟨more, bs'⟩ s s1 h1
        simp only
        split
        · rfl
        · next hm =>
          have : more = true := by simpa using hm
          subst this
          obtain ⟨-, -, hr⟩ := hasMore_true _ _ _ _ _ _ h1
          refine DeM.bind_congr (ih1 _ _ _ _ hnode (by omega)) ?_
          intro o s2 s2' h2
          refine ih5 _ _ _ _ _ _ _ hnode ?_
          omega
    · intro item depth ign h bs acc hnode hb
      rw [deMapLoop, deMapLoop]
      refine DeM.bind_congr rfl ?_
      rintro ⟨more, bs'⟩ s s1 h1
      simp only
      split
      · rfl
      · next hm =>
        have : more = true := by simpa using hm
        subst this
        obtain ⟨-, -, hr⟩ := hasMore_true _ _ _ _ _ _ h1
        refine DeM.bind_congr rfl ?_
        intro n s2 s2' h2
        refine DeM.bind_congr rfl ?_
        rintro ⟨kb, borrowed⟩ s3 s3' h3
        simp only
        refine DeM.bind_congr rfl ?_
        rintro ⟨kOut, kName⟩ s4 s4' h4
        simp only
        have hv := h.valFor_size kName
        refine DeM.bind_congr (ih1 _ _ _ _ hnode ?_) ?_
        · omega
        intro v s5 s5' h5
        refine ih6 _ _ _ _ _ _ hnode ?_
        omega
    · intro fields depth h acc hb
      cases fields with
      | nil => simp only [deRecordFields]
      | cons f r =>
        obtain ⟨name, k⟩ := f
        rw [deRecordFields, deRecordFields]
        split
        · rfl
        · next fnode hk =>
          have hv := h.valFor_size (some name)
          simp only [List.length_cons] at hb
          refine DeM.bind_congr (ih1 _ _ _ _ (nodeFields_le hk) ?_) ?_
          · omega
          intro o s2 s2' h2
          refine ih7 _ _ _ _ ?_
          omega
end

/-! ### 5. Fuel monotonicity (no bound needed) -/

/-- `m'` agrees with `m` wherever `m` does not panic. -/
def Refines {α : Type} (m m' : DeM α) : Prop := ∀ s, (m s).1 ≠ .error .panic → m' s = m s

theorem Refines.refl {α : Type} (m : DeM α) : Refines m m := fun _ _ => rfl

theorem Refines.trans {α : Type} {m m' m'' : DeM α} (h1 : Refines m m') (h2 : Refines m' m'') :
    Refines m m'' := by
  intro s hs
  have e1 := h1 s hs
  have e2 := h2 s (by rw [e1]; exact hs)
  rw [e2, e1]

theorem Refines.of_panic {α : Type} (m' : DeM α) : Refines (DeM.fail .panic) m' := by
  intro s hs
  exact absurd rfl hs

theorem Refines.bind {α β : Type} {m m' : DeM α} {f g : α → DeM β} (hm : Refines m m')
    (hf : ∀ a, Refines (f a) (g a)) : Refines (m >>= f) (m' >>= g) := by
  intro s hs
  simp only [DeM.bind_apply] at hs ⊢
  cases hms : m s with
  | mk r s' =>
    rw [hms] at hs
    cases r with
    | ok a =>
      simp only at hs
      have := hm s (by rw [hms]; simp)
      rw [this, hms]
      exact hf a s' hs
    | error e =>
      simp only at hs
      have := hm s (by rw [hms]; simpa using hs)
      rw [this, hms]

macro "refines_step" : tactic => `(tactic| first
  | with_reducible exact Refines.refl _
  | with_reducible exact Refines.of_panic _
  | with_reducible assumption
  | with_reducible (refine Refines.bind ?_ (fun _ => ?_))
  | split
  | simp only [])

section
variable (ext : DeExt) (cfg : DeConfig) (S : Schema)

theorem refines_succ (f1 f2 : Nat)
    (ih1 : ∀ node depth favor h, Refines (de ext cfg S f1 node depth favor h) (de ext cfg S f2 node depth favor h))
    (ih2 : ∀ node depth vs, Refines (deTypeNameEnum ext cfg S f1 node depth vs) (deTypeNameEnum ext cfg S f2 node depth vs))
    (ih3 : ∀ node depth h, Refines (deAny ext cfg S f1 node depth h) (deAny ext cfg S f2 node depth h))
    (ih4 : ∀ node depth, Refines (deIgnored ext cfg S f1 node depth) (deIgnored ext cfg S f2 node depth))
    (ih5 : ∀ item depth ign eh mi bs acc, Refines (deSeqLoop ext cfg S f1 item depth ign eh mi bs acc)
      (deSeqLoop ext cfg S f2 item depth ign eh mi bs acc))
    (ih6 : ∀ item depth ign h bs acc, Refines (deMapLoop ext cfg S f1 item depth ign h bs acc)
      (deMapLoop ext cfg S f2 item depth ign h bs acc))
    (ih7 : ∀ fields depth h acc, Refines (deRecordFields ext cfg S f1 fields depth h acc)
      (deRecordFields ext cfg S f2 fields depth h acc)) :
    (∀ node depth favor h, Refines (de ext cfg S (f1 + 1) node depth favor h) (de ext cfg S (f2 + 1) node depth favor h)) ∧
    (∀ node depth vs, Refines (deTypeNameEnum ext cfg S (f1 + 1) node depth vs) (deTypeNameEnum ext cfg S (f2 + 1) node depth vs)) ∧
    (∀ node depth h, Refines (deAny ext cfg S (f1 + 1) node depth h) (deAny ext cfg S (f2 + 1) node depth h)) ∧
    (∀ node depth, Refines (deIgnored ext cfg S (f1 + 1) node depth) (deIgnored ext cfg S (f2 + 1) node depth)) ∧
    (∀ item depth ign eh mi bs acc, Refines (deSeqLoop ext cfg S (f1 + 1) item depth ign eh mi bs acc)
      (deSeqLoop ext cfg S (f2 + 1) item depth ign eh mi bs acc)) ∧
    (∀ item depth ign h bs acc, Refines (deMapLoop ext cfg S (f1 + 1) item depth ign h bs acc)
      (deMapLoop ext cfg S (f2 + 1) item depth ign h bs acc)) ∧
    (∀ fields depth h acc, Refines (deRecordFields ext cfg S (f1 + 1) fields depth h acc)
      (deRecordFields ext cfg S (f2 + 1) fields depth h acc)) := by
  refine ⟨?_, ?_, ?_, ?_, ?_, ?_, ?_⟩
  · intro node depth favor h
    cases h <;> cases node <;> simp only [de] <;>
      repeat (first | with_reducible exact ih1 _ _ _ _ | with_reducible exact ih2 _ _ _ | with_reducible exact ih3 _ _ _ | with_reducible exact ih4 _ _ | refines_step)
  · intro node depth vs
    simp only [deTypeNameEnum]
    repeat (first | with_reducible exact ih1 _ _ _ _ | with_reducible exact ih4 _ _ | refines_step)
  · intro node depth h
    cases node <;> simp only [deAny] <;>
      repeat (first | with_reducible exact ih3 _ _ _ | with_reducible exact ih5 _ _ _ _ _ _ _ | with_reducible exact ih6 _ _ _ _ _ _ | with_reducible exact ih7 _ _ _ _ | refines_step)
  · intro node depth
    cases node <;> simp only [deIgnored] <;>
      repeat (first | with_reducible exact ih3 _ _ _ | with_reducible exact ih5 _ _ _ _ _ _ _ | with_reducible exact ih6 _ _ _ _ _ _ | refines_step)
  · intro item depth ign eh mi bs acc
    simp only [deSeqLoop]
    repeat (first | with_reducible exact ih1 _ _ _ _ | with_reducible exact ih5 _ _ _ _ _ _ _ | refines_step)
  · intro item depth ign h bs acc
    simp only [deMapLoop]
    repeat (first | with_reducible exact ih1 _ _ _ _ | with_reducible exact ih6 _ _ _ _ _ _ | refines_step)
  · intro fields depth h acc
    cases fields with
    | nil => simp only [deRecordFields]; exact Refines.refl _
    | cons f r =>
      obtain ⟨name, k⟩ := f
      simp only [deRecordFields]
      repeat (first | with_reducible exact ih1 _ _ _ _ | with_reducible exact ih7 _ _ _ _ | refines_step)

/-- Fuel monotonicity: a run that does not end in `panic` is unchanged by one more unit of fuel. -/
theorem refines_all : ∀ fuel : Nat,
    (∀ node depth favor h, Refines (de ext cfg S fuel node depth favor h) (de ext cfg S (fuel + 1) node depth favor h)) ∧
    (∀ node depth vs, Refines (deTypeNameEnum ext cfg S fuel node depth vs) (deTypeNameEnum ext cfg S (fuel + 1) node depth vs)) ∧
    (∀ node depth h, Refines (deAny ext cfg S fuel node depth h) (deAny ext cfg S (fuel + 1) node depth h)) ∧
    (∀ node depth, Refines (deIgnored ext cfg S fuel node depth) (deIgnored ext cfg S (fuel + 1) node depth)) ∧
    (∀ item depth ign eh mi bs acc, Refines (deSeqLoop ext cfg S fuel item depth ign eh mi bs acc)
      (deSeqLoop ext cfg S (fuel + 1) item depth ign eh mi bs acc)) ∧
    (∀ item depth ign h bs acc, Refines (deMapLoop ext cfg S fuel item depth ign h bs acc)
      (deMapLoop ext cfg S (fuel + 1) item depth ign h bs acc)) ∧
    (∀ fields depth h acc, Refines (deRecordFields ext cfg S fuel fields depth h acc)
      (deRecordFields ext cfg S (fuel + 1) fields depth h acc))
  | 0 => by
    refine ⟨?_, ?_, ?_, ?_, ?_, ?_, ?_⟩
    · intros; rw [de]; exact Refines.of_panic _
    · intros; rw [deTypeNameEnum]; exact Refines.of_panic _
    · intros; rw [deAny]; exact Refines.of_panic _
    · intros; rw [deIgnored]; exact Refines.of_panic _
    · intros; rw [deSeqLoop]; exact Refines.of_panic _
    · intros; rw [deMapLoop]; exact Refines.of_panic _
    · intro fields depth h acc
      cases fields with
      | nil => simp only [deRecordFields]; exact Refines.refl _
      | cons f r => rw [deRecordFields]; exact Refines.of_panic _
  | fuel + 1 => by
    obtain ⟨ih1, ih2, ih3, ih4, ih5, ih6, ih7⟩ := refines_all fuel
    exact refines_succ ext cfg S fuel (fuel + 1) ih1 ih2 ih3 ih4 ih5 ih6 ih7

theorem de_refines_le {fuel fuel' : Nat} (hle : fuel ≤ fuel') (node : Node) (depth : Nat)
    (favor : Bool) (h : Hint) :
    Refines (de ext cfg S fuel node depth favor h) (de ext cfg S fuel' node depth favor h) := by
  induction hle with
  | refl => exact Refines.refl _
  | step _ ih => exact ih.trans ((refines_all ext cfg S _).1 node depth favor h)
end

/-! ### 6. The fuel bound -/

/-- fuel that one level of nesting may need for its own loop: a block loop runs at most
    `max_seq_size + 1` times, a record loop once per field -/
def levelCost (cfg : DeConfig) (S : Schema) : Nat := cfg.maxSeqSize + maxFields S + 4

/-- The fuel bound of C04: linear in the depth budget, in `max_seq_size`, in the width of the
    widest record and in the size of the target; independent of the input bytes. -/
def fuelBound (cfg : DeConfig) (S : Schema) (h : Hint) (depth : Nat) : Nat :=
  depth * levelCost cfg S + 2 * h.size + 2


/-! ### 7. Depth budget: nothing compound is read with a zero budget -/

/-- `m` never succeeds. -/
def NeverOk {α : Type} (m : DeM α) : Prop := ∀ s a, (m s).1 ≠ .ok a

theorem NeverOk.fail {α : Type} (e : DeErr) : NeverOk (DeM.fail e : DeM α) := by
  intro s a h; cases h

theorem NeverOk.bind_left {α β : Type} {m : DeM α} (f : α → DeM β) (hm : NeverOk m) :
    NeverOk (m >>= f) := by
  intro s b
  simp only [DeM.bind_apply]
  split
  · next a s' heq => exact absurd (by rw [heq]) (hm s a)
  · intro h; cases h

theorem NeverOk.bind_right {α β : Type} (m : DeM α) {f : α → DeM β} (hf : ∀ a, NeverOk (f a)) :
    NeverOk (m >>= f) := by
  intro s b
  simp only [DeM.bind_apply]
  split
  · next a s' heq => exact hf a s' b
  · intro h; cases h

theorem NeverOk.decDepth_zero : NeverOk (decDepth 0) := NeverOk.fail _

/-- array, map or record -/
def Node.isContainer : Node → Bool
  | .array _ | .map _ | .record _ _ => true
  | _ => false

theorem depth_zero_all (ext : DeExt) (cfg : DeConfig) (S : Schema) : ∀ fuel : Nat,
    (∀ node favor h, node.isContainer = true → NeverOk (de ext cfg S fuel node 0 favor h)) ∧
    (∀ node vs, node.isContainer = true → NeverOk (deTypeNameEnum ext cfg S fuel node 0 vs)) ∧
    (∀ node h, node.isContainer = true → NeverOk (deAny ext cfg S fuel node 0 h)) ∧
    (∀ node, node.isContainer = true → NeverOk (deIgnored ext cfg S fuel node 0))
  | 0 => by
    refine ⟨?_, ?_, ?_, ?_⟩
    · intros; rw [de]; exact NeverOk.fail _
    · intros; rw [deTypeNameEnum]; exact NeverOk.fail _
    · intros; rw [deAny]; exact NeverOk.fail _
    · intros; rw [deIgnored]; exact NeverOk.fail _
  | fuel + 1 => by
    obtain ⟨ih1, ih2, ih3, ih4⟩ := depth_zero_all ext cfg S fuel
    refine ⟨?_, ?_, ?_, ?_⟩
    · intro node favor h hc
      cases node <;> simp only [Node.isContainer, Bool.false_eq_true] at hc <;>
        cases h <;> simp only [de] <;>
        first
          | exact ih3 _ _ rfl
          | exact ih4 _ rfl
          | exact NeverOk.bind_left _ (ih1 _ _ _ rfl)
          | (split
             · exact ih2 _ _ rfl
             · exact NeverOk.bind_left _ NeverOk.decDepth_zero)
    · intro node vs hc
      simp only [deTypeNameEnum]
      split
      · exact NeverOk.fail _
      · exact NeverOk.bind_left _ (ih4 _ hc)
      · exact NeverOk.bind_left _ (ih1 _ _ _ hc)
      · exact NeverOk.bind_left _ (ih1 _ _ _ hc)
      · exact NeverOk.bind_left _ (ih1 _ _ _ hc)
    · intro node h hc
      cases node <;> simp only [Node.isContainer, Bool.false_eq_true] at hc <;> simp only [deAny]
      · split
        · exact NeverOk.fail _
        · exact NeverOk.bind_left _ NeverOk.decDepth_zero
      · split
        · exact NeverOk.fail _
        · exact NeverOk.bind_left _ NeverOk.decDepth_zero
      · exact NeverOk.bind_left _ NeverOk.decDepth_zero
    · intro node hc
      cases node <;> simp only [Node.isContainer, Bool.false_eq_true] at hc <;> simp only [deIgnored]
      · split
        · exact NeverOk.fail _
        · exact NeverOk.bind_left _ NeverOk.decDepth_zero
      · split
        · exact NeverOk.fail _
        · exact NeverOk.bind_left _ NeverOk.decDepth_zero
      · exact NeverOk.bind_left _ (ih3 _ _ rfl)

theorem depth_zero_union (ext : DeExt) (cfg : DeConfig) (S : Schema) (fuel : Nat) (vs : List Nat)
    (h : Hint) : NeverOk (deAny ext cfg S fuel (.union vs) 0 h) := by
  cases fuel with
  | zero => rw [deAny]; exact NeverOk.fail _
  | succ fuel =>
    simp only [deAny]
    refine NeverOk.bind_right _ fun d => ?_
    split
    · exact NeverOk.fail _
    · split
      · exact NeverOk.fail _
      · exact NeverOk.bind_left _ NeverOk.decDepth_zero


/-! ### 8. No panic: primitives -/

/-- `m` never ends in the `panic` class. -/
def NoPanic {α : Type} (m : DeM α) : Prop := ∀ s, (m s).1 ≠ .error .panic

theorem NoPanic.pure {α : Type} (a : α) : NoPanic (pure a : DeM α) := by
  intro s h; cases h

theorem NoPanic.fail_custom {α : Type} : NoPanic (DeM.fail .custom : DeM α) := by
  intro s h; cases h

theorem NoPanic.fail_io {α : Type} : NoPanic (DeM.fail .io : DeM α) := by
  intro s h; cases h

theorem NoPanic.bind' {α β : Type} {m : DeM α} {f : α → DeM β} (hm : NoPanic m)
    (hf : ∀ a s s', m s = (.ok a, s') → NoPanic (f a)) : NoPanic (m >>= f) := by
  intro s
  simp only [DeM.bind_apply]
  have := hm s
  split
  · next a s' heq => exact hf a s s' heq s'
  · next e s' heq => rw [heq] at this; simpa using this

theorem NoPanic.bind {α β : Type} {m : DeM α} {f : α → DeM β} (hm : NoPanic m)
    (hf : ∀ a, NoPanic (f a)) : NoPanic (m >>= f) :=
  NoPanic.bind' hm fun a _ _ _ => hf a

theorem fillBuf_ok (s : RState) : ∃ b, (fillBuf s).1 = .ok b := by
  unfold fillBuf
  split
  · exact ⟨_, rfl⟩
  · split
    · exact ⟨_, rfl⟩
    · exact ⟨_, rfl⟩

theorem NoPanic.readSome (k : Nat) : NoPanic (readSome k) := by
  intro s
  unfold Impl.readSome
  simp only
  obtain ⟨b, hb⟩ := fillBuf_ok s
  split <;>
  · split
    · simp
    · split
      · next e s' h => rw [h] at hb; simp at hb
      · simp

theorem NoPanic.readExactR : ∀ (fuel k : Nat) (acc : Bytes), NoPanic (readExactR fuel k acc)
  | _, 0, acc => by unfold Impl.readExactR; exact NoPanic.pure _
  | 0, _ + 1, _ => by unfold Impl.readExactR; exact NoPanic.fail_io
  | fuel + 1, k + 1, acc => by
    unfold Impl.readExactR
    refine NoPanic.bind (NoPanic.readSome _) fun got => ?_
    split
    · exact NoPanic.fail_io
    · exact NoPanic.readExactR fuel _ _

theorem NoPanic.readExact (k : Nat) : NoPanic (readExact k) := NoPanic.readExactR k k []

theorem NoPanic.varintBytewise (t : VarTy) : ∀ (fuel : Nat) (buf : Bytes), NoPanic (varintBytewise t fuel buf)
  | 0, buf => by
    unfold Impl.varintBytewise
    split
    · exact NoPanic.pure _
    · exact NoPanic.fail_custom
  | fuel + 1, buf => by
    unfold Impl.varintBytewise
    refine NoPanic.bind (NoPanic.readSome _) fun got => ?_
    split
    · exact NoPanic.fail_io
    · simp only
      split
      · split
        · exact NoPanic.pure _
        · exact NoPanic.fail_custom
      · exact NoPanic.varintBytewise t fuel _

theorem NoPanic.varintProcessor (t : VarTy) : ∀ (fuel : Nat) (buf : Bytes), NoPanic (varintProcessor t fuel buf)
  | 0, buf => by
    unfold Impl.varintProcessor
    split
    · exact NoPanic.pure _
    · exact NoPanic.fail_io
  | fuel + 1, buf => by
    unfold Impl.varintProcessor
    split
    · split
      · exact NoPanic.pure _
      · exact NoPanic.fail_io
    · refine NoPanic.bind (NoPanic.readSome _) fun got => ?_
      split
      · split
        · exact NoPanic.fail_io
        · split
          · exact NoPanic.pure _
          · exact NoPanic.fail_io
      · split
        · exact NoPanic.fail_io
        · exact NoPanic.varintProcessor t fuel _

theorem NoPanic.readVarint (t : VarTy) : NoPanic (readVarint t) := by
  intro s
  unfold Impl.readVarint
  split
  · split <;> simp
  · obtain ⟨b, hb⟩ := fillBuf_ok s
    split
    · next e s' h => rw [h] at hb; simp at hb
    · next buf s' h =>
      split
      · simp [Impl.consume, Prod.map]
      · exact NoPanic.varintBytewise t 10 [] s'

theorem NoPanic.readSlice (n : Nat) : NoPanic (readSlice n) := by
  intro s
  unfold Impl.readSlice
  split
  · split <;> simp
  · obtain ⟨b, hb⟩ := fillBuf_ok s
    split
    · next e s' h => rw [h] at hb; simp at hb
    · next buf s' h =>
      split
      · simp
      · split
        · simp
        · have := NoPanic.readExactR n n [] { s' with scratch := max s'.scratch n }
          simp only
          split
          · simp
          · next e s'' h2 => rw [h2] at this; simpa using this

theorem NoPanic.skipBytes (n : Nat) : NoPanic (skipBytes n) := by
  intro s
  unfold Impl.skipBytes
  split
  · split <;> simp
  · simp only
    split <;> simp

theorem NoPanic.decDepth (d : Nat) : NoPanic (decDepth d) := by
  unfold Impl.decDepth
  split
  · exact NoPanic.fail_custom
  · exact NoPanic.pure _

macro "nopanic_step" : tactic => `(tactic| first
  | with_reducible exact NoPanic.pure _ | with_reducible exact NoPanic.fail_custom
  | with_reducible exact NoPanic.fail_io
  | with_reducible exact NoPanic.readVarint _ | with_reducible exact NoPanic.readSlice _
  | with_reducible exact NoPanic.readExact _ | with_reducible exact NoPanic.decDepth _
  | with_reducible exact NoPanic.varintProcessor _ _ _ | with_reducible exact NoPanic.skipBytes _
  | with_reducible assumption
  | with_reducible (refine NoPanic.bind ?_ (fun _ => ?_))
  | split
  | simp only [])

theorem NoPanic.readLen : NoPanic readLen := by
  unfold Impl.readLen
  repeat nopanic_step

theorem NoPanic.readDiscriminant : NoPanic readDiscriminant := NoPanic.readLen

theorem NoPanic.readString : NoPanic readString := by
  unfold Impl.readString
  repeat (first | with_reducible exact NoPanic.readLen | nopanic_step)

theorem NoPanic.readBytes : NoPanic readBytes := by
  unfold Impl.readBytes
  repeat (first | with_reducible exact NoPanic.readLen | nopanic_step)

theorem NoPanic.readBool : NoPanic readBool := by
  unfold Impl.readBool
  repeat nopanic_step

theorem NoPanic.readBlockLen (ignored : Bool) : ∀ fuel, NoPanic (readBlockLen ignored fuel)
  | 0 => by unfold Impl.readBlockLen; exact NoPanic.fail_custom
  | fuel + 1 => by
    have := NoPanic.readBlockLen ignored fuel
    unfold Impl.readBlockLen
    repeat nopanic_step

theorem NoPanic.hasMore (cfg : DeConfig) (ignored : Bool) (bs : BlockState) :
    NoPanic (hasMore cfg ignored bs) := by
  intro s
  unfold Impl.hasMore
  split
  · simp
  · have := NoPanic.readBlockLen ignored (s.rest.length + 2) s
    split
    · next e s' h => rw [h] at this; simpa using this
    · simp
    · simp only
      split <;> simp

theorem NoPanic.setLimit (l : Option Nat) : NoPanic (setLimit l) := by intro s h; cases h
theorem NoPanic.getLimit : NoPanic getLimit := by intro s h; cases h
theorem NoPanic.withLimitCleared {α : Type} {m : DeM α} (hm : NoPanic m) :
    NoPanic (withLimitCleared m) := by
  intro s
  unfold Impl.withLimitCleared
  exact hm s

theorem NoPanic.readDecimal (ext : DeExt) (mode : DecMode) (hint : DecHint) :
    NoPanic (readDecimal ext mode hint) := by
  unfold Impl.readDecimal
  repeat (first | with_reducible exact NoPanic.readLen | with_reducible exact NoPanic.setLimit _ | with_reducible exact NoPanic.getLimit | with_reducible apply NoPanic.withLimitCleared | nopanic_step)


/-! ### 9. No panic: the mutual block, for a schema whose keys are in bounds -/

/-- the child keys of `n` are in bounds of `S`, and `n` is no wider than the widest record of `S`
    (true of every node of a schema whose keys are in bounds, `nodeOK_of_get`) -/
def NodeOK (S : Schema) (n : Node) : Prop :=
  (∀ k ∈ n.children, k < S.size) ∧ nodeFields n ≤ maxFields S

theorem nodeOK_of_get {S : Schema} (hS : S.keysInBounds = true) {k : Nat} {n : Node}
    (h : S[k]? = some n) : NodeOK S n := by
  refine ⟨?_, nodeFields_le h⟩
  unfold Schema.keysInBounds at hS
  rw [Array.all_eq_true] at hS
  obtain ⟨hk, rfl⟩ := Array.getElem?_eq_some_iff.mp h
  have := hS k hk
  rw [List.all_eq_true] at this
  intro c hc
  simpa using this c hc

theorem getElem?_ne_none_of_lt {S : Schema} {k : Nat} (h : k < S.size) : ∃ n, S[k]? = some n :=
  ⟨S[k], Array.getElem?_eq_getElem h⟩


macro "prim_step" : tactic => `(tactic| first
  | with_reducible exact NoPanic.readLen | with_reducible exact NoPanic.readDiscriminant
  | with_reducible exact NoPanic.readString | with_reducible exact NoPanic.readBytes
  | with_reducible exact NoPanic.readBool | with_reducible exact NoPanic.readDecimal _ _ _
  | with_reducible exact NoPanic.hasMore _ _ _
  | nopanic_step)

section
variable (ext : DeExt) (cfg : DeConfig) (S : Schema)

theorem nopanic_all (hS : S.keysInBounds = true) (W : Nat) (D : Nat → Nat)
    (hW : cfg.maxSeqSize + maxFields S + 4 ≤ W) (hD : ∀ d, D d + W ≤ D (d + 1)) : ∀ fuel : Nat,
    (∀ node depth favor h, NodeOK S node → D depth + 2 * h.size + 2 ≤ fuel →
      NoPanic (de ext cfg S fuel node depth favor h)) ∧
    (∀ node depth vs, NodeOK S node → D depth + 2 * variantsSize vs + 4 ≤ fuel →
      NoPanic (deTypeNameEnum ext cfg S fuel node depth vs)) ∧
    (∀ node depth h, NodeOK S node → D depth + 2 * h.size ≤ fuel →
      NoPanic (deAny ext cfg S fuel node depth h)) ∧
    (∀ node depth, NodeOK S node → D depth + 3 ≤ fuel →
      NoPanic (deIgnored ext cfg S fuel node depth)) ∧
    (∀ item depth ign eh mi bs acc, NodeOK S item →
      D depth + 2 * eh.size + 3 + (cfg.maxSeqSize - bs.nRead + bs.current) ≤ fuel →
      NoPanic (deSeqLoop ext cfg S fuel item depth ign eh mi bs acc)) ∧
    (∀ item depth ign h bs acc, NodeOK S item →
      D depth + 2 * h.size + 3 + (cfg.maxSeqSize - bs.nRead + bs.current) ≤ fuel →
      NoPanic (deMapLoop ext cfg S fuel item depth ign h bs acc)) ∧
    (∀ fields depth h acc, (∀ f ∈ fields, f.2 < S.size) →
      D depth + 2 * h.size + 2 + fields.length ≤ fuel →
      NoPanic (deRecordFields ext cfg S fuel fields depth h acc)) := by
  intro fuel
  induction fuel with
  | zero =>
    refine ⟨?_, ?_, ?_, ?_, ?_, ?_, ?_⟩
    · intros; omega
    · intros; omega
    · intro _ _ h _ _; have := h.size_pos; omega
    · intros; omega
    · intros; omega
    · intros; omega
    · intros; omega
  | succ fuel ih =>
    obtain ⟨ih1, ih2, ih3, ih4, ih5, ih6, ih7⟩ := ih
    refine ⟨?_, ?_, ?_, ?_, ?_, ?_, ?_⟩
    · intro node depth favor h hnode hb
      cases h with
      | ignored => simp only [Hint.size] at hb; simp only [de]; exact ih4 _ _ hnode (by omega)
      | option inner =>
        simp only [Hint.size] at hb
        cases node <;> simp only [de]
        case null => exact NoPanic.pure _
        case union vs =>
          refine NoPanic.bind NoPanic.readDiscriminant fun d => ?_
          split
          · exact NoPanic.fail_custom
          · next k hk =>
            have hkb : k < S.size := hnode.1 k (List.mem_of_getElem? hk)
            obtain ⟨n, hn⟩ := getElem?_ne_none_of_lt hkb
            split
            · next hnone => rw [hn] at hnone; cases hnone
            · exact NoPanic.pure _
            · next variant hne hv =>
              refine NoPanic.bind' (NoPanic.decDepth _) ?_
              intro depth' s2 s2' h2
              have := decDepth_ok h2; subst this
              have := hD depth'
              exact NoPanic.bind (ih1 _ depth' _ inner (nodeOK_of_get hS hv) (by omega))
                fun _ => NoPanic.pure _
        all_goals exact NoPanic.bind (ih1 _ depth _ inner hnode (by omega)) fun _ => NoPanic.pure _
      | enum vs =>
        simp only [Hint.size] at hb
        cases node <;> simp only [de] <;> split
        all_goals first
          | exact ih2 _ _ _ hnode (by omega)
          | (refine NoPanic.bind' (NoPanic.decDepth _) ?_
             intro depth' s2 s2' h2
             have := decDepth_ok h2; subst this
             have := hD depth'
             first
               | exact ih2 _ _ _ hnode (by omega)
               | (refine NoPanic.bind (ih1 _ depth' _ .identifier hnode (by simp only [Hint.size]; omega)) fun _ => ?_
                  repeat prim_step))
          | (refine NoPanic.bind NoPanic.readDiscriminant fun d => ?_
             split
             · exact NoPanic.fail_custom
             · next k hk =>
               have hkb : k < S.size := hnode.1 k (List.mem_of_getElem? hk)
               obtain ⟨n, hn⟩ := getElem?_ne_none_of_lt hkb
               split
               · next hnone => rw [hn] at hnone; cases hnone
               · next variant hv =>
                 refine NoPanic.bind' (NoPanic.decDepth _) ?_
                 intro depth' s2 s2' h2
                 have := decDepth_ok h2; subst this
                 have := hD depth'
                 exact ih2 _ _ _ (nodeOK_of_get hS hv) (by omega))
      | _ =>
        cases node <;> simp only [de] <;>
          repeat (first | (with_reducible refine ih3 _ _ _ hnode ?_; simp only [Hint.size] at hb ⊢; omega) | prim_step)
    · intro node depth vs hnode hb
      simp only [deTypeNameEnum]
      split
      · exact NoPanic.fail_custom
      · exact NoPanic.bind (ih4 node depth hnode (by omega)) fun _ => NoPanic.pure _
      · next h' hsel =>
        have := lookupVariant_size _ _ _ hsel
        simp only [VariantHint.size] at this
        exact NoPanic.bind (ih1 node depth false h' hnode (by omega)) fun _ => NoPanic.pure _
      · next n e hsel =>
        have := lookupVariant_size _ _ _ hsel
        simp only [VariantHint.size] at this
        exact NoPanic.bind (ih1 node depth false (.tuple n e) hnode (by simp only [Hint.size]; omega))
          fun _ => NoPanic.pure _
      · next fs hsel =>
        have := lookupVariant_size _ _ _ hsel
        simp only [VariantHint.size] at this
        exact NoPanic.bind (ih1 node depth false (.struct fs) hnode (by simp only [Hint.size]; omega))
          fun _ => NoPanic.pure _
    · intro node depth h hnode hb
      have hsz := h.size_pos
      cases node <;> simp only [deAny]
      case array k =>
        obtain ⟨n, hn⟩ := getElem?_ne_none_of_lt (hnode.1 k (List.mem_singleton.mpr rfl))
        split
        · next hnone => rw [hn] at hnone; cases hnone
        · next item hk =>
          refine NoPanic.bind' (NoPanic.decDepth _) ?_
          intro depth' s2 s2' h2
          have := decDepth_ok h2; subst this
          have := hD depth'
          have := h.elem_size
          exact NoPanic.bind (ih5 item depth' false h.elem h.maxItems {} [] (nodeOK_of_get hS hk)
            (by simp only [Nat.sub_zero, Nat.add_zero]; omega)) fun _ => NoPanic.pure _
      case map k =>
        obtain ⟨n, hn⟩ := getElem?_ne_none_of_lt (hnode.1 k (List.mem_singleton.mpr rfl))
        split
        · next hnone => rw [hn] at hnone; cases hnone
        · next item hk =>
          refine NoPanic.bind' (NoPanic.decDepth _) ?_
          intro depth' s2 s2' h2
          have := decDepth_ok h2; subst this
          have := hD depth'
          exact NoPanic.bind (ih6 item depth' false h {} [] (nodeOK_of_get hS hk)
            (by simp only [Nat.sub_zero, Nat.add_zero]; omega)) fun _ => NoPanic.pure _
      case union vs =>
        refine NoPanic.bind NoPanic.readDiscriminant fun d => ?_
        split
        · exact NoPanic.fail_custom
        · next k hk =>
          have hkb : k < S.size := hnode.1 k (List.mem_of_getElem? hk)
          obtain ⟨n, hn⟩ := getElem?_ne_none_of_lt hkb
          split
          · next hnone => rw [hn] at hnone; cases hnone
          · next variant hv =>
            refine NoPanic.bind' (NoPanic.decDepth _) ?_
            intro depth' s2 s2' h2
            have := decDepth_ok h2; subst this
            have := hD depth'
            exact ih3 _ _ _ (nodeOK_of_get hS hv) (by omega)
      case record nm fields =>
        have hlen := hnode.2
        simp only [nodeFields] at hlen
        refine NoPanic.bind' (NoPanic.decDepth _) ?_
        intro depth' s2 s2' h2
        have := decDepth_ok h2; subst this
        have := hD depth'
        refine NoPanic.bind (ih7 fields depth' h [] ?_ (by omega)) fun _ => NoPanic.pure _
        intro f hf
        exact hnode.1 f.2 (List.mem_map.mpr ⟨f, hf, rfl⟩)
      all_goals repeat prim_step
    · intro node depth hnode hb
      cases node <;> simp only [deIgnored]
      case array k =>
        obtain ⟨n, hn⟩ := getElem?_ne_none_of_lt (hnode.1 k (List.mem_singleton.mpr rfl))
        split
        · next hnone => rw [hn] at hnone; cases hnone
        · next item hk =>
          refine NoPanic.bind' (NoPanic.decDepth _) ?_
          intro depth' s2 s2' h2
          have := decDepth_ok h2; subst this
          have := hD depth'
          exact NoPanic.bind (ih5 item depth' true .ignored none {} [] (nodeOK_of_get hS hk)
            (by simp only [Nat.sub_zero, Nat.add_zero, Hint.size]; omega)) fun _ => NoPanic.pure _
      case map k =>
        obtain ⟨n, hn⟩ := getElem?_ne_none_of_lt (hnode.1 k (List.mem_singleton.mpr rfl))
        split
        · next hnone => rw [hn] at hnone; cases hnone
        · next item hk =>
          refine NoPanic.bind' (NoPanic.decDepth _) ?_
          intro depth' s2 s2' h2
          have := decDepth_ok h2; subst this
          have := hD depth'
          exact NoPanic.bind (ih6 item depth' true .ignored {} [] (nodeOK_of_get hS hk)
            (by simp only [Nat.sub_zero, Nat.add_zero, Hint.size]; omega)) fun _ => NoPanic.pure _
      all_goals first
        | exact NoPanic.bind (ih3 _ depth .ignored hnode (by simp only [Hint.size]; omega)) fun _ => NoPanic.pure _
        | repeat prim_step
    · intro item depth ign eh mi bs acc hnode hb
      simp only [deSeqLoop]
      split
      · refine NoPanic.bind (NoPanic.hasMore _ _ _) ?_
        rintro ⟨more, bs'⟩
        simp only
        split
        · exact NoPanic.fail_custom
        · exact NoPanic.pure _
      · refine NoPanic.bind' (NoPanic.hasMore _ _ _) ?_
        rintro ⟨more, bs'⟩ s s1 h1
        simp only
        split
        · exact NoPanic.pure _
        · next hm =>
          have : more = true := by simpa using hm
          subst this
          obtain ⟨-, -, hr⟩ := hasMore_true _ _ _ _ _ _ h1
          refine NoPanic.bind (ih1 _ _ _ _ hnode (by omega)) fun o => ?_
          refine ih5 _ _ _ _ _ _ _ hnode ?_
          omega
    · intro item depth ign h bs acc hnode hb
      simp only [deMapLoop]
      refine NoPanic.bind' (NoPanic.hasMore _ _ _) ?_
      rintro ⟨more, bs'⟩ s s1 h1
      simp only
      split
      · exact NoPanic.pure _
      · next hm =>
        have : more = true := by simpa using hm
        subst this
        obtain ⟨-, -, hr⟩ := hasMore_true _ _ _ _ _ _ h1
        refine NoPanic.bind NoPanic.readLen fun n => ?_
        refine NoPanic.bind (NoPanic.readSlice _) ?_
        rintro ⟨kb, borrowed⟩
        simp only
        refine NoPanic.bind ?_ ?_
        · repeat prim_step
        rintro ⟨kOut, kName⟩
        simp only
        have hv := h.valFor_size kName
        refine NoPanic.bind (ih1 _ _ _ _ hnode ?_) fun v => ?_
        · omega
        refine ih6 _ _ _ _ _ _ hnode ?_
        omega
    · intro fields depth h acc hfs hb
      cases fields with
      | nil => simp only [deRecordFields]; exact NoPanic.pure _
      | cons f r =>
        obtain ⟨name, k⟩ := f
        simp only [deRecordFields]
        have hkb : k < S.size := hfs (name, k) (List.mem_cons_self)
        obtain ⟨n, hn⟩ := getElem?_ne_none_of_lt hkb
        split
        · next hnone => rw [hn] at hnone; cases hnone
        · next fnode hk =>
          have hv := h.valFor_size (some name)
          simp only [List.length_cons] at hb
          refine NoPanic.bind (ih1 _ _ _ _ (nodeOK_of_get hS hk) ?_) fun o => ?_
          · omega
          refine ih7 _ _ _ _ (fun f hf => hfs f (List.mem_cons_of_mem _ hf)) ?_
          omega
end

/-! ### 10. Memory: the scratch buffer of the reader back-end stays within the allocation cap -/

/-- `s'` allocates no more than `s` allowed: the allocation cap is unchanged and the scratch
    buffer (the only allocation driven by a length read from the input) is within
    `max (its old size) (the cap)`. -/
def MemLe (s s' : RState) : Prop := s'.maxAlloc = s.maxAlloc ∧ s'.scratch ≤ max s.scratch s.maxAlloc

theorem MemLe.refl (s : RState) : MemLe s s := ⟨rfl, Nat.le_max_left _ _⟩

theorem MemLe.of_eq {s s' : RState} (h1 : s'.maxAlloc = s.maxAlloc) (h2 : s'.scratch = s.scratch) :
    MemLe s s' := ⟨h1, by rw [h2]; exact Nat.le_max_left _ _⟩

theorem MemLe.trans {s s' s'' : RState} (h1 : MemLe s s') (h2 : MemLe s' s'') : MemLe s s'' := by
  unfold MemLe at *
  omega

/-- `m` keeps the allocation cap and never grows the scratch buffer beyond it. -/
def MemOK {α : Type} (m : DeM α) : Prop := ∀ s, MemLe s (m s).2

theorem MemOK.pure {α : Type} (a : α) : MemOK (pure a : DeM α) := fun s => MemLe.refl s
theorem MemOK.fail {α : Type} (e : DeErr) : MemOK (DeM.fail e : DeM α) := fun s => MemLe.refl s

theorem MemOK.bind {α β : Type} {m : DeM α} {f : α → DeM β} (hm : MemOK m) (hf : ∀ a, MemOK (f a)) :
    MemOK (m >>= f) := by
  intro s
  simp only [DeM.bind_apply]
  have := hm s
  split
  · next a s' h => rw [h] at this; exact this.trans (hf a s')
  · next e s' h => rw [h] at this; exact this

theorem fillBuf_mem (s : RState) :
    (fillBuf s).2.maxAlloc = s.maxAlloc ∧ (fillBuf s).2.scratch = s.scratch := by
  unfold fillBuf
  split
  · exact ⟨rfl, rfl⟩
  · split <;> exact ⟨rfl, rfl⟩

theorem MemOK.readSome (k : Nat) : MemOK (readSome k) := by
  intro s
  have hf := fillBuf_mem s
  unfold Impl.readSome
  simp only
  split <;>
  · split
    · exact MemLe.refl _
    · split
      · next e s' h =>
        rw [h] at hf
        exact MemLe.of_eq hf.1 hf.2
      · next buf s' h =>
        rw [h] at hf
        simp only [Impl.consume] at hf ⊢
        exact MemLe.of_eq hf.1 hf.2

theorem MemOK.readExactR : ∀ (fuel k : Nat) (acc : Bytes), MemOK (readExactR fuel k acc)
  | _, 0, acc => by unfold Impl.readExactR; exact MemOK.pure _
  | 0, _ + 1, _ => by unfold Impl.readExactR; exact MemOK.fail _
  | fuel + 1, k + 1, acc => by
    unfold Impl.readExactR
    refine MemOK.bind (MemOK.readSome _) fun got => ?_
    split
    · exact MemOK.fail _
    · exact MemOK.readExactR fuel _ _

theorem MemOK.readExact (k : Nat) : MemOK (readExact k) := MemOK.readExactR k k []

macro "mem_step" : tactic => `(tactic| first
  | with_reducible exact MemOK.pure _ | with_reducible exact MemOK.fail _
  | with_reducible exact MemOK.readSome _ | with_reducible exact MemOK.readExact _
  | with_reducible assumption
  | with_reducible (refine MemOK.bind ?_ (fun _ => ?_))
  | split
  | simp only [])

theorem MemOK.varintBytewise (t : VarTy) : ∀ (fuel : Nat) (buf : Bytes), MemOK (varintBytewise t fuel buf)
  | 0, buf => by
    unfold Impl.varintBytewise
    repeat mem_step
  | fuel + 1, buf => by
    have := fun b => MemOK.varintBytewise t fuel b
    unfold Impl.varintBytewise
    repeat (first | with_reducible exact this _ | mem_step)

theorem MemOK.varintProcessor (t : VarTy) : ∀ (fuel : Nat) (buf : Bytes), MemOK (varintProcessor t fuel buf)
  | 0, buf => by
    unfold Impl.varintProcessor
    repeat mem_step
  | fuel + 1, buf => by
    have := fun b => MemOK.varintProcessor t fuel b
    unfold Impl.varintProcessor
    repeat (first | with_reducible exact this _ | mem_step)

theorem MemOK.readVarint (t : VarTy) : MemOK (readVarint t) := by
  intro s
  unfold Impl.readVarint
  split
  · split
    · exact MemLe.refl _
    · exact MemLe.of_eq rfl rfl
  · have hf := fillBuf_mem s
    split
    · next e s' h => rw [h] at hf; exact MemLe.of_eq hf.1 hf.2
    · next buf s' h =>
      rw [h] at hf
      simp only at hf
      split
      · simp only [Impl.consume, Prod.map, id]
        exact MemLe.of_eq hf.1 hf.2
      · exact (MemLe.of_eq hf.1 hf.2).trans (MemOK.varintBytewise t 10 [] s')

theorem MemOK.readSlice (n : Nat) : MemOK (readSlice n) := by
  intro s
  unfold Impl.readSlice
  split
  · split
    · exact MemLe.refl _
    · exact MemLe.of_eq rfl rfl
  · have hf := fillBuf_mem s
    split
    · next e s' h => rw [h] at hf; exact MemLe.of_eq hf.1 hf.2
    · next buf s' h =>
      rw [h] at hf
      simp only at hf
      split
      · simp only [Impl.consume]
        exact MemLe.of_eq hf.1 hf.2
      · split
        · exact MemLe.of_eq hf.1 hf.2
        · next hle =>
          have := MemOK.readExactR n n [] { s' with scratch := max s'.scratch n }
          have h0 : MemLe s { s' with scratch := max s'.scratch n } := by
            refine ⟨hf.1, ?_⟩
            simp only
            rw [hf.2, ← hf.1]
            omega
          simp only
          split
          · next b s'' h2 => rw [h2] at this; exact h0.trans this
          · next e s'' h2 => rw [h2] at this; exact h0.trans this

theorem skipBytes_go_mem : ∀ (fuel left : Nat) (st : RState),
    MemLe st (skipBytes.go fuel left st)
  | 0, _, st => by unfold skipBytes.go; exact MemLe.refl _
  | _ + 1, 0, st => by unfold skipBytes.go; exact MemLe.refl _
  | fuel + 1, left + 1, st => by
    unfold skipBytes.go
    have := MemOK.readSome (left + 1) st
    split
    · next got st' h =>
      rw [h] at this
      split
      · exact this
      · exact this.trans (skipBytes_go_mem fuel _ st')
    · next r _ h =>
      rw [h] at this; exact this

theorem MemOK.skipBytes (n : Nat) : MemOK (skipBytes n) := by
  intro s
  unfold Impl.skipBytes
  split
  · split
    · exact MemLe.of_eq rfl rfl
    · exact MemLe.refl _
  · simp only
    split <;> exact skipBytes_go_mem _ _ _

theorem MemOK.decDepth (d : Nat) : MemOK (decDepth d) := by
  unfold Impl.decDepth
  repeat mem_step

theorem MemOK.readLen : MemOK readLen := by
  unfold Impl.readLen
  repeat (first | with_reducible exact MemOK.readVarint _ | mem_step)

theorem MemOK.readDiscriminant : MemOK readDiscriminant := MemOK.readLen

theorem MemOK.readString : MemOK readString := by
  unfold Impl.readString
  repeat (first | with_reducible exact MemOK.readLen | with_reducible exact MemOK.readSlice _ | mem_step)

theorem MemOK.readBytes : MemOK readBytes := by
  unfold Impl.readBytes
  repeat (first | with_reducible exact MemOK.readLen | with_reducible exact MemOK.readSlice _ | mem_step)

theorem MemOK.readBool : MemOK readBool := by
  unfold Impl.readBool
  repeat (first | with_reducible exact MemOK.readSlice _ | mem_step)

theorem MemOK.readBlockLen (ignored : Bool) : ∀ fuel, MemOK (readBlockLen ignored fuel)
  | 0 => by unfold Impl.readBlockLen; exact MemOK.fail _
  | fuel + 1 => by
    have := MemOK.readBlockLen ignored fuel
    unfold Impl.readBlockLen
    repeat (first | with_reducible exact MemOK.readVarint _ | with_reducible exact MemOK.skipBytes _ | mem_step)

theorem MemOK.hasMore (cfg : DeConfig) (ignored : Bool) (bs : BlockState) :
    MemOK (hasMore cfg ignored bs) := by
  intro s
  unfold Impl.hasMore
  split
  · exact MemLe.refl _
  · have := MemOK.readBlockLen ignored (s.rest.length + 2) s
    split
    · next e s' h => rw [h] at this; exact this
    · next s' h => rw [h] at this; exact this
    · next l s' h =>
      rw [h] at this
      simp only
      split <;> exact this

theorem MemOK.setLimit (l : Option Nat) : MemOK (setLimit l) := fun _ => MemLe.of_eq rfl rfl
theorem MemOK.getLimit : MemOK getLimit := fun _ => MemLe.refl _
theorem MemOK.withLimitCleared {α : Type} {m : DeM α} (hm : MemOK m) : MemOK (withLimitCleared m) := by
  intro s
  unfold Impl.withLimitCleared
  exact hm s

macro "mem_step'" : tactic => `(tactic| first
  | with_reducible exact MemOK.readVarint _ | with_reducible exact MemOK.readSlice _
  | with_reducible exact MemOK.readLen | with_reducible exact MemOK.readDiscriminant
  | with_reducible exact MemOK.readString | with_reducible exact MemOK.readBytes
  | with_reducible exact MemOK.readBool | with_reducible exact MemOK.decDepth _
  | with_reducible exact MemOK.hasMore _ _ _ | with_reducible exact MemOK.setLimit _
  | with_reducible exact MemOK.getLimit
  | with_reducible exact MemOK.varintProcessor _ _ _ | with_reducible exact MemOK.skipBytes _
  | with_reducible apply MemOK.withLimitCleared
  | mem_step)

theorem MemOK.readDecimal (ext : DeExt) (mode : DecMode) (hint : DecHint) :
    MemOK (readDecimal ext mode hint) := by
  unfold Impl.readDecimal
  repeat mem_step'

theorem MemOK.deAll (ext : DeExt) (cfg : DeConfig) (S : Schema) : ∀ fuel : Nat,
    (∀ node depth favor h, MemOK (de ext cfg S fuel node depth favor h)) ∧
    (∀ node depth vs, MemOK (deTypeNameEnum ext cfg S fuel node depth vs)) ∧
    (∀ node depth h, MemOK (deAny ext cfg S fuel node depth h)) ∧
    (∀ node depth, MemOK (deIgnored ext cfg S fuel node depth)) ∧
    (∀ item depth ign eh mi bs acc, MemOK (deSeqLoop ext cfg S fuel item depth ign eh mi bs acc)) ∧
    (∀ item depth ign h bs acc, MemOK (deMapLoop ext cfg S fuel item depth ign h bs acc)) ∧
    (∀ fields depth h acc, MemOK (deRecordFields ext cfg S fuel fields depth h acc)) := by
  intro fuel
  induction fuel with
  | zero =>
    refine ⟨?_, ?_, ?_, ?_, ?_, ?_, ?_⟩
    · intros; unfold de; exact MemOK.fail _
    · intros; unfold deTypeNameEnum; exact MemOK.fail _
    · intros; unfold deAny; exact MemOK.fail _
    · intros; unfold deIgnored; exact MemOK.fail _
    · intros; unfold deSeqLoop; exact MemOK.fail _
    · intros; unfold deMapLoop; exact MemOK.fail _
    · intro fields depth h acc
      cases fields with
      | nil => unfold deRecordFields; exact MemOK.pure _
      | cons f r => unfold deRecordFields; exact MemOK.fail _
  | succ fuel ih =>
    obtain ⟨ih1, ih2, ih3, ih4, ih5, ih6, ih7⟩ := ih
    refine ⟨?_, ?_, ?_, ?_, ?_, ?_, ?_⟩
    · intro node depth favor h
      unfold de
      repeat (first | with_reducible exact ih1 _ _ _ _ | with_reducible exact ih2 _ _ _ | with_reducible exact ih3 _ _ _ | with_reducible exact ih4 _ _ | with_reducible exact MemOK.readDecimal _ _ _ | mem_step')
    · intro node depth vs
      unfold deTypeNameEnum
      repeat (first | with_reducible exact ih1 _ _ _ _ | with_reducible exact ih2 _ _ _ | with_reducible exact ih3 _ _ _ | with_reducible exact ih4 _ _ | with_reducible exact MemOK.readDecimal _ _ _ | mem_step')
    · intro node depth h
      unfold deAny
      repeat (first | with_reducible exact ih3 _ _ _ | with_reducible exact ih5 _ _ _ _ _ _ _ | with_reducible exact ih6 _ _ _ _ _ _ | with_reducible exact ih7 _ _ _ _ | with_reducible exact MemOK.readDecimal _ _ _ | mem_step')
    · intro node depth
      unfold deIgnored
      repeat (first | with_reducible exact ih3 _ _ _ | with_reducible exact ih5 _ _ _ _ _ _ _ | with_reducible exact ih6 _ _ _ _ _ _ | with_reducible exact ih7 _ _ _ _ | with_reducible exact MemOK.readDecimal _ _ _ | mem_step')
    · intro item depth ign eh mi bs acc
      unfold deSeqLoop
      repeat (first | with_reducible exact ih1 _ _ _ _ | with_reducible exact ih5 _ _ _ _ _ _ _ | with_reducible exact MemOK.readDecimal _ _ _ | mem_step')
    · intro item depth ign h bs acc
      unfold deMapLoop
      repeat (first | with_reducible exact ih1 _ _ _ _ | with_reducible exact ih6 _ _ _ _ _ _ | with_reducible exact MemOK.readDecimal _ _ _ | mem_step')
    · intro fields depth h acc
      cases fields with
      | nil => unfold deRecordFields; exact MemOK.pure _
      | cons f r =>
        obtain ⟨name, k⟩ := f
        unfold deRecordFields
        repeat (first | with_reducible exact ih1 _ _ _ _ | with_reducible exact ih7 _ _ _ _ | with_reducible exact MemOK.readDecimal _ _ _ | mem_step')


/-! ### 11. Depth budget, semantically: nesting of the produced value -/

mutual
/-- how deeply sequences and maps are nested in a visitor-call tree -/
def Out.nesting : Out → Nat
  | .some o => o.nesting
  | .seq items => nestingList items + 1
  | .map entries => nestingEntries entries + 1
  | .variant n p => max n.nesting p.nesting
  | _ => 0
def nestingList : List Out → Nat
  | [] => 0
  | o :: r => max o.nesting (nestingList r)
def nestingEntries : List (Out × Out) → Nat
  | [] => 0
  | (k, v) :: r => max (max k.nesting v.nesting) (nestingEntries r)
end

theorem nestingList_le {n : Nat} : ∀ {l : List Out}, (∀ o ∈ l, o.nesting ≤ n) → nestingList l ≤ n
  | [], _ => by simp [nestingList]
  | o :: r, h => by
    simp only [nestingList]
    have h1 := h o List.mem_cons_self
    have h2 := nestingList_le (l := r) fun o ho => h o (List.mem_cons_of_mem _ ho)
    omega

theorem nestingEntries_le {n : Nat} : ∀ {l : List (Out × Out)},
    (∀ e ∈ l, e.1.nesting ≤ n ∧ e.2.nesting ≤ n) → nestingEntries l ≤ n
  | [], _ => by simp [nestingEntries]
  | (k, v) :: r, h => by
    simp only [nestingEntries]
    have h1 := h (k, v) List.mem_cons_self
    have h2 := nestingEntries_le (l := r) fun e he => h e (List.mem_cons_of_mem _ he)
    simp only at h1
    omega

/-- partial-correctness triple: every successful run of `m` returns a value satisfying `P` -/
def Post {α : Type} (m : DeM α) (P : α → Prop) : Prop := ∀ s a s', m s = (.ok a, s') → P a

theorem Post.pure {α : Type} {P : α → Prop} {a : α} (h : P a) : Post (pure a : DeM α) P := by
  intro s b s' hb
  simp only [DeM.pure_apply, Prod.mk.injEq, Except.ok.injEq] at hb
  rw [← hb.1]; exact h

theorem Post.fail {α : Type} {P : α → Prop} (e : DeErr) : Post (DeM.fail e : DeM α) P := by
  intro s b s' hb
  simp [DeM.fail_apply] at hb

theorem Post.bind {α β : Type} {m : DeM α} {f : α → DeM β} {Q : α → Prop} {P : β → Prop}
    (hm : Post m Q) (hf : ∀ a, Q a → Post (f a) P) : Post (m >>= f) P := by
  intro s b s' hb
  simp only [DeM.bind_apply] at hb
  split at hb
  · next a s1 h1 => exact hf a (hm s a s1 h1) s1 b s' hb
  · simp at hb

theorem Post.bind_any {α β : Type} {m : DeM α} {f : α → DeM β} {P : β → Prop}
    (hf : ∀ a, Post (f a) P) : Post (m >>= f) P :=
  Post.bind (Q := fun _ => True) (fun _ _ _ _ => trivial) fun a _ => hf a

theorem Post.decDepth (d : Nat) : Post (decDepth d) (fun d' => d = d' + 1) := by
  intro s a s' h
  exact decDepth_ok h

abbrev Flat (o : Out) : Prop := o.nesting = 0

macro "post_leaf" : tactic => `(tactic| first
  | with_reducible exact Post.fail _
  | focus (apply Post.pure; simp only [Flat, Out.nesting, Nat.zero_le, Nat.le_refl]; done)
  | with_reducible assumption
  | with_reducible (refine Post.bind_any (fun _ => ?_))
  | split
  | simp only [])

theorem Post.readString : Post readString Flat := by
  unfold Impl.readString
  repeat post_leaf

theorem Post.readBytes : Post readBytes Flat := by
  unfold Impl.readBytes
  repeat post_leaf

theorem Post.readBool : Post readBool Flat := by
  unfold Impl.readBool
  repeat post_leaf

theorem Post.readDecimal (ext : DeExt) (mode : DecMode) (hint : DecHint) :
    Post (readDecimal ext mode hint) Flat := by
  unfold Impl.readDecimal
  repeat post_leaf

theorem Post.mono {α : Type} {m : DeM α} {P Q : α → Prop} (h : Post m P) (hpq : ∀ a, P a → Q a) :
    Post m Q := fun s a s' hs => hpq a (h s a s' hs)


theorem Post.of_flat {m : DeM Out} {n : Nat} (h : Post m Flat) : Post m (fun o => o.nesting ≤ n) :=
  h.mono fun o ho => by simp only [Flat] at ho; omega

theorem offerName_flat (kh : Hint) (name : String) (idx : Nat) (dk : Bool) :
    (offerName kh name idx dk).nesting = 0 := by
  unfold offerName
  split
  · rfl
  · split <;> rfl
  · rfl

theorem ite_unit_u32 (c : Prop) [Decidable c] (x : Nat) :
    (if c then Out.unit else Out.u32 x).nesting ≤ 0 := by
  split <;> simp only [Out.nesting, Nat.le_refl]

theorem durationSeqOut_nesting (b : Bytes) (eh : Hint) (mi : Option Nat) :
    (durationSeqOut b eh mi).nesting ≤ 1 := by
  unfold durationSeqOut
  simp only [Out.nesting]
  have : nestingList (List.take (mi.getD 3)
      [if isIgnoredHint eh = true then Out.unit else Out.u32 (leToNat (List.take 4 (List.drop (4 * 0) b))),
       if isIgnoredHint eh = true then Out.unit else Out.u32 (leToNat (List.take 4 (List.drop (4 * 1) b))),
       if isIgnoredHint eh = true then Out.unit else Out.u32 (leToNat (List.take 4 (List.drop (4 * 2) b)))]) ≤ 0 := by
    apply nestingList_le
    intro o ho
    have ho := List.mem_of_mem_take ho
    simp only [List.mem_cons, List.not_mem_nil, or_false] at ho
    rcases ho with rfl | rfl | rfl <;> split <;> simp only [Out.nesting, Nat.le_refl]
  omega

theorem durationOut_nesting (b : Bytes) (h : Hint) : (durationOut b h).nesting ≤ 1 := by
  unfold durationOut
  simp only [Out.nesting]
  refine Nat.succ_le_succ (nestingEntries_le ?_)
  intro e he
  simp only [List.mem_cons, List.not_mem_nil, or_false] at he
  rcases he with rfl | rfl | rfl <;>
  · refine ⟨Nat.le_of_eq (offerName_flat _ _ _ _), ?_⟩
    exact ite_unit_u32 _ _


/-- leaves of the syntax-directed proof of `Post m (fun o => o.nesting ≤ n)` -/
macro "nest_step" : tactic => `(tactic| first
  | with_reducible exact Post.fail _
  | with_reducible exact Post.of_flat Post.readString
  | with_reducible exact Post.of_flat Post.readBytes
  | with_reducible exact Post.of_flat Post.readBool
  | with_reducible exact Post.of_flat (Post.readDecimal _ _ _)
  | focus (apply Post.pure; simp only [Out.nesting]; omega)
  | with_reducible exact Post.pure (Nat.le_trans (durationSeqOut_nesting _ _ _) (by omega))
  | with_reducible exact Post.pure (Nat.le_trans (durationOut_nesting _ _) (by omega))
  | with_reducible assumption
  | with_reducible (refine Post.bind_any (fun _ => ?_))
  | split
  | simp only [])

theorem deIgnored_flat (ext : DeExt) (cfg : DeConfig) (S : Schema) (fuel : Nat) (node : Node)
    (depth : Nat) : Post (deIgnored ext cfg S fuel node depth) Flat := by
  cases fuel with
  | zero => rw [deIgnored]; exact Post.fail _
  | succ fuel =>
    cases node <;> simp only [deIgnored] <;> repeat post_leaf

theorem nesting_all (ext : DeExt) (cfg : DeConfig) (S : Schema) : ∀ fuel : Nat,
    (∀ node depth favor h, Post (de ext cfg S fuel node depth favor h) (fun o => o.nesting ≤ depth + 1)) ∧
    (∀ node depth vs, Post (deTypeNameEnum ext cfg S fuel node depth vs) (fun o => o.nesting ≤ depth + 1)) ∧
    (∀ node depth h, Post (deAny ext cfg S fuel node depth h) (fun o => o.nesting ≤ depth + 1)) ∧
    (∀ item depth ign eh mi bs acc, (∀ o ∈ acc, o.nesting ≤ depth + 1) →
      Post (deSeqLoop ext cfg S fuel item depth ign eh mi bs acc)
        (fun items => ∀ o ∈ items, o.nesting ≤ depth + 1)) ∧
    (∀ item depth ign h bs acc, (∀ e ∈ acc, e.1.nesting ≤ depth + 1 ∧ e.2.nesting ≤ depth + 1) →
      Post (deMapLoop ext cfg S fuel item depth ign h bs acc)
        (fun es => ∀ e ∈ es, e.1.nesting ≤ depth + 1 ∧ e.2.nesting ≤ depth + 1)) ∧
    (∀ fields depth h acc, (∀ e ∈ acc, e.1.nesting ≤ depth + 1 ∧ e.2.nesting ≤ depth + 1) →
      Post (deRecordFields ext cfg S fuel fields depth h acc)
        (fun es => ∀ e ∈ es, e.1.nesting ≤ depth + 1 ∧ e.2.nesting ≤ depth + 1)) := by
  intro fuel
  induction fuel with
  | zero =>
    refine ⟨?_, ?_, ?_, ?_, ?_, ?_⟩
    · intros; rw [de]; exact Post.fail _
    · intros; rw [deTypeNameEnum]; exact Post.fail _
    · intros; rw [deAny]; exact Post.fail _
    · intros; rw [deSeqLoop]; exact Post.fail _
    · intros; rw [deMapLoop]; exact Post.fail _
    · intro fields depth h acc hacc
      cases fields with
      | nil =>
        simp only [deRecordFields]
        exact Post.pure fun e he => hacc e (List.mem_reverse.mp he)
      | cons f r => rw [deRecordFields]; exact Post.fail _
  | succ fuel ih =>
    obtain ⟨ih1, ih2, ih3, ih5, ih6, ih7⟩ := ih
    refine ⟨?_, ?_, ?_, ?_, ?_, ?_⟩
    · intro node depth favor h
      cases h with
      | ignored => simp only [de]; exact Post.of_flat (deIgnored_flat ext cfg S fuel node depth)
      | option inner =>
        cases node <;> simp only [de]
        case null => exact Post.pure (by simp only [Out.nesting]; omega)
        case union vs =>
          refine Post.bind_any fun d => ?_
          split
          · exact Post.fail _
          · split
            · exact Post.fail _
            · exact Post.pure (by simp only [Out.nesting]; omega)
            · refine Post.bind (Post.decDepth _) fun depth' hd => ?_
              subst hd
              refine Post.bind (ih1 _ depth' _ inner) fun o ho => ?_
              exact Post.pure (by simp only [Out.nesting]; omega)
        all_goals exact Post.bind (ih1 _ depth _ inner) fun o ho => Post.pure (by simp only [Out.nesting]; omega)
      | enum vs =>
        cases node <;> simp only [de] <;> split
        all_goals first
          | exact ih2 _ _ _
          | (refine Post.bind (Post.decDepth _) fun depth' hd => ?_
             subst hd
             first
               | exact (ih2 _ depth' _).mono fun o ho => by omega
               | (refine Post.bind (ih1 _ depth' _ .identifier) fun o ho => ?_
                  split
                  · exact Post.pure (by simp only [Out.nesting]; omega)
                  · exact Post.fail _
                  · exact Post.fail _))
          | (refine Post.bind_any fun d => ?_
             split
             · exact Post.fail _
             · split
               · exact Post.fail _
               · refine Post.bind (Post.decDepth _) fun depth' hd => ?_
                 subst hd
                 exact (ih2 _ depth' _).mono fun o ho => by omega)
      | _ =>
        cases node <;> simp only [de] <;>
          repeat (first | with_reducible exact ih3 _ _ _ | nest_step)
    · intro node depth vs
      simp only [deTypeNameEnum]
      split
      · exact Post.fail _
      · exact Post.bind_any fun _ => Post.pure (by simp only [Out.nesting]; omega)
      · exact Post.bind (ih1 _ _ _ _) fun o ho => Post.pure (by simp only [Out.nesting]; omega)
      · exact Post.bind (ih1 _ _ _ _) fun o ho => Post.pure (by simp only [Out.nesting]; omega)
      · exact Post.bind (ih1 _ _ _ _) fun o ho => Post.pure (by simp only [Out.nesting]; omega)
    · intro node depth h
      cases node <;> simp only [deAny]
      case array k =>
        split
        · exact Post.fail _
        · refine Post.bind (Post.decDepth _) fun depth' hd => ?_
          subst hd
          refine Post.bind (ih5 _ depth' _ _ _ _ [] (by simp)) fun items hi => ?_
          refine Post.pure ?_
          have := nestingList_le hi
          simp only [Out.nesting]; omega
      case map k =>
        split
        · exact Post.fail _
        · refine Post.bind (Post.decDepth _) fun depth' hd => ?_
          subst hd
          refine Post.bind (ih6 _ depth' _ _ _ [] (by simp)) fun es hi => ?_
          refine Post.pure ?_
          have := nestingEntries_le hi
          simp only [Out.nesting]; omega
      case union vs =>
        refine Post.bind_any fun d => ?_
        split
        · exact Post.fail _
        · split
          · exact Post.fail _
          · refine Post.bind (Post.decDepth _) fun depth' hd => ?_
            subst hd
            exact (ih3 _ depth' _).mono fun o ho => by omega
      case record nm fields =>
        refine Post.bind (Post.decDepth _) fun depth' hd => ?_
        subst hd
        refine Post.bind (ih7 _ depth' _ [] (by simp)) fun es hi => ?_
        refine Post.pure ?_
        have := nestingEntries_le hi
        simp only [Out.nesting]; omega
      all_goals repeat nest_step
    · intro item depth ign eh mi bs acc hacc
      simp only [deSeqLoop]
      split
      · refine Post.bind_any ?_
        rintro ⟨more, bs'⟩
        simp only
        split
        · exact Post.fail _
        · exact Post.pure fun o ho => hacc o (List.mem_reverse.mp ho)
      · refine Post.bind_any ?_
        rintro ⟨more, bs'⟩
        simp only
        split
        · exact Post.pure fun o ho => hacc o (List.mem_reverse.mp ho)
        · refine Post.bind (ih1 _ _ _ _) fun o ho => ?_
          refine ih5 _ _ _ _ _ _ _ ?_
          intro o' ho'
          rcases List.mem_cons.mp ho' with rfl | h'
          · exact ho
          · exact hacc _ h'
    · intro item depth ign h bs acc hacc
      simp only [deMapLoop]
      refine Post.bind_any ?_
      rintro ⟨more, bs'⟩
      simp only
      split
      · exact Post.pure fun o ho => hacc o (List.mem_reverse.mp ho)
      · refine Post.bind_any fun n => ?_
        refine Post.bind_any ?_
        rintro ⟨kb, borrowed⟩
        simp only
        refine Post.bind (Q := fun p => p.1.nesting = 0) ?_ ?_
        · split
          · exact Post.pure rfl
          · split
            · exact Post.pure rfl
            · exact Post.fail _
        rintro ⟨kOut, kName⟩ hk
        simp only at hk ⊢
        refine Post.bind (ih1 _ _ _ _) fun v hv => ?_
        refine ih6 _ _ _ _ _ _ ?_
        intro e he
        rcases List.mem_cons.mp he with rfl | h'
        · exact ⟨by simp only; omega, hv⟩
        · exact hacc _ h'
    · intro fields depth h acc hacc
      cases fields with
      | nil =>
        simp only [deRecordFields]
        exact Post.pure fun e he => hacc e (List.mem_reverse.mp he)
      | cons f r =>
        obtain ⟨name, k⟩ := f
        simp only [deRecordFields]
        split
        · exact Post.fail _
        · refine Post.bind (ih1 _ _ _ _) fun v hv => ?_
          refine ih7 _ _ _ _ ?_
          intro e he
          rcases List.mem_cons.mp he with rfl | h'
          · exact ⟨by simp only [offerName_flat]; omega, hv⟩
          · exact hacc _ h'

end Avro.Impl
