import AvroModel.Lemmas.DeBounds
import AvroModel.Impl.SchemaParse
/-
The fuels the test driver (`Driver/Main.lean`) passes to the fuelled model functions, defined
ONCE, here, and used both by the driver and by the theorems that speak about the driver's runs
(`Theorems/C04fuel.lean`, `Theorems/GraphFuel.lean`, the non-vacuity audit).

* `deFuel`: the fuel of every call of `de` (`deOne`, `runSingle`, `runOcfr`).  The first component
  is the driver's historical formula (it grows with the input length, which no theorem needs); the
  second is the bound `fuelBound` of C04, above which the fuel is irrelevant
  (`C04_fuel_independent_root`).  The historical formula alone can be BELOW `fuelBound` (a record with
  more than `8 * S.size + 60` fields and a small `max_seq_size`), hence the `max`.
* `graphFuel`: the fuel of `canonicalForm`, `renderJson`, `freeze`, `schemaFingerprint`.  It is at
  least `pcfBound S` and `renderBound S` (`Theorems/GraphFuel.lean`).
-/
namespace Avro.Impl

/-- The driver's historical fuel formula for `de` (`len`: length of the unread input). -/
def deFuelBase (cfg : DeConfig) (S : Schema) (depth len : Nat) : Nat :=
  (depth + 4) * (cfg.maxSeqSize + 8 * S.size + 64) + 16 * len + 4096

/-- The fuel the driver passes to `de`: never below the bound of C04. -/
def deFuel (cfg : DeConfig) (S : Schema) (hint : Hint) (depth len : Nat) : Nat :=
  max ((depth + 4) * (cfg.maxSeqSize + 8 * S.size + 64) + 16 * len + 4096) (fuelBound cfg S hint depth)

theorem deFuel_eq (cfg : DeConfig) (S : Schema) (hint : Hint) (depth len : Nat) :
    deFuel cfg S hint depth len = max (deFuelBase cfg S depth len) (fuelBound cfg S hint depth) := rfl

/-- The driver's fuel is inside the fuel range of the C04 theorems, unconditionally. -/
theorem fuelBound_le_deFuel (cfg : DeConfig) (S : Schema) (hint : Hint) (depth len : Nat) :
    fuelBound cfg S hint depth ≤ deFuel cfg S hint depth len :=
  Nat.le_max_right _ _

theorem deFuelBase_le_deFuel (cfg : DeConfig) (S : Schema) (hint : Hint) (depth len : Nat) :
    deFuelBase cfg S depth len ≤ deFuel cfg S hint depth len :=
  Nat.le_max_left _ _

/-- Fuel for the graph traversals (canonical form, renderer, freeze, fingerprint): the bound of the
    totality theorems `C19_pcf_total` / `C19_render_total`,
    `size * (size+1) * (maxWidth+1) + 1`, with slack. -/
def graphFuel (S : SchemaMut) : Nat := (S.size + 2) * (S.size + 2) * (maxWidth S + 2) + 64

end Avro.Impl
