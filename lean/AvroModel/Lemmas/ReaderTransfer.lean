import AvroModel.Theorems.C11
/-
Transfer of slice-back-end theorems to the streaming-reader back-end, through C11.

A reader state `r` (`isSlice = false`, any refill schedule `sched` / `lastChunk`, any buffer
position `avail ≤ rest.length`, any scratch size) is related by `Sim` to the slice state
`sliceOf r` over the same remaining bytes.  C11 (`deRel_all`) says that every entry point of the
deserializer gives, from such a pair, related outcomes: both fail, or both succeed with values
equal up to the `borrowed` flags and again related states.  The three lemmas below are the
three directions in which this is used:

  * `RelD.reader_of_slice`   the slice run succeeds  ⇒ the reader run succeeds, related value,
                             same remaining bytes, and the final reader state is again `ReaderOK`
                             (so the next datum can be read under the same hypotheses);
  * `RelD.slice_of_reader`   the reader run succeeds ⇒ the slice run succeeds, likewise;
  * `RelD.reader_not_ok`     the slice run yields no value ⇒ neither does the reader run
                             (the error class is NOT transferred: C11 lets `custom` / `io` differ).
-/
namespace Avro.Theorems
open Avro Avro.Impl

/-- What is asked of a streaming-reader state between two datums: it is the reader back-end, no
    `Take` is in place, the buffered part is a prefix of what is left (well-formedness), and the
    allocation cap covers what is left.  Nothing on `sched`, `lastChunk`, `scratch`. -/
structure ReaderOK (r : RState) : Prop where
  reader : r.isSlice = false
  nolimit : r.limit = none
  avail : r.avail ≤ r.rest.length
  alloc : r.rest.length ≤ r.maxAlloc

/-- The slice state over the same remaining bytes (the state the slice theorems speak about:
    `isSlice = true`, `avail = 0`; `limit`, and the fields the slice back-end never reads, kept). -/
def sliceOf (r : RState) : RState := { r with isSlice := true, avail := 0 }

@[simp] theorem sliceOf_isSlice (r : RState) : (sliceOf r).isSlice = true := rfl
@[simp] theorem sliceOf_avail (r : RState) : (sliceOf r).avail = 0 := rfl
@[simp] theorem sliceOf_rest (r : RState) : (sliceOf r).rest = r.rest := rfl
@[simp] theorem sliceOf_limit (r : RState) : (sliceOf r).limit = r.limit := rfl

theorem ReaderOK.sim {r : RState} (h : ReaderOK r) : Sim r (sliceOf r) :=
  ⟨h.reader, rfl, rfl, h.avail, rfl⟩

theorem ReaderOK.simD {r : RState} (h : ReaderOK r) : SimD true r (sliceOf r) :=
  ⟨h.sim, h.alloc, fun _ => h.nolimit⟩

theorem SimD.readerOK {r sl : RState} (h : SimD true r sl) : ReaderOK r :=
  ⟨h.sim.reader, h.nolimit rfl, h.sim.avail, h.alloc⟩

/-- The initial reader state over `bs`, for ANY chunk schedule. -/
theorem ReaderOK.init (bs : Bytes) (sched : List Nat) (lastChunk maxAlloc scratch : Nat)
    (h : bs.length ≤ maxAlloc) :
    ReaderOK { isSlice := false, rest := bs, avail := 0, sched := sched, lastChunk := lastChunk,
               maxAlloc := maxAlloc, scratch := scratch, limit := none } :=
  ⟨rfl, rfl, Nat.zero_le _, h⟩

theorem unborrow_eq_unit {o : Out} (h : unborrow o = .unit) : o = .unit := by
  cases o <;> simp [unborrow] at h ⊢

theorem unborrow_unborrow_unit : unborrow .unit = .unit := by simp [unborrow]

section
variable {m m' : DeM Out} (h : RelD true true Ro m m')
include h

/-- slice succeeds ⇒ reader succeeds -/
theorem RelD.reader_of_slice {r : RState} (hr : ReaderOK r) {o : Out} {sl' : RState}
    (hsl : m' (sliceOf r) = (.ok o, sl')) :
    ∃ o' r', m r = (.ok o', r') ∧ unborrow o' = unborrow o ∧ r'.rest = sl'.rest ∧
      ReaderOK r' := by
  have hh := h r (sliceOf r) hr.simD
  rw [hsl] at hh
  rcases hm : m r with ⟨(e | a), r'⟩ <;> rw [hm] at hh
  · exact hh.elim
  · exact ⟨a, r', rfl, hh.1, hh.2.sim.rest, hh.2.readerOK⟩

/-- reader succeeds ⇒ slice succeeds -/
theorem RelD.slice_of_reader {r : RState} (hr : ReaderOK r) {o : Out} {r' : RState}
    (hrd : m r = (.ok o, r')) :
    ∃ o' sl', m' (sliceOf r) = (.ok o', sl') ∧ unborrow o = unborrow o' ∧ r'.rest = sl'.rest ∧
      ReaderOK r' := by
  have hh := h r (sliceOf r) hr.simD
  rw [hrd] at hh
  rcases hm : m' (sliceOf r) with ⟨(e | a), sl'⟩ <;> rw [hm] at hh
  · exact hh.elim
  · exact ⟨a, sl', rfl, hh.1, hh.2.sim.rest, hh.2.readerOK⟩

/-- slice yields no value ⇒ reader yields no value -/
theorem RelD.reader_not_ok {r : RState} (hr : ReaderOK r)
    (hsl : ∀ o, (m' (sliceOf r)).1 ≠ .ok o) (o : Out) : (m r).1 ≠ .ok o := by
  intro hok
  obtain ⟨o', sl', e, _⟩ := h.slice_of_reader hr (o := o) (r' := (m r).2) (Prod.ext hok rfl)
  exact hsl o' (by rw [e])

end

variable (ext : DeExt) (cfg : DeConfig) (S : Schema)

/-- **Transfer, slice ⇒ reader**, for the datum deserializer with any hint. -/
theorem de_reader_of_slice (fuel : Nat) (node : Node) (depth : Nat) (favor : Bool) (h : Hint)
    {r : RState} (hr : ReaderOK r) {o : Out} {sl' : RState}
    (hsl : de ext cfg S fuel node depth favor h (sliceOf r) = (.ok o, sl')) :
    ∃ o' r', de ext cfg S fuel node depth favor h r = (.ok o', r') ∧ unborrow o' = unborrow o ∧
      r'.rest = sl'.rest ∧ ReaderOK r' :=
  ((deRel_all ext cfg S fuel).de node depth favor h).reader_of_slice hr hsl

/-- **Transfer, reader ⇒ slice.** -/
theorem de_slice_of_reader (fuel : Nat) (node : Node) (depth : Nat) (favor : Bool) (h : Hint)
    {r : RState} (hr : ReaderOK r) {o : Out} {r' : RState}
    (hrd : de ext cfg S fuel node depth favor h r = (.ok o, r')) :
    ∃ o' sl', de ext cfg S fuel node depth favor h (sliceOf r) = (.ok o', sl') ∧
      unborrow o = unborrow o' ∧ r'.rest = sl'.rest ∧ ReaderOK r' :=
  ((deRel_all ext cfg S fuel).de node depth favor h).slice_of_reader hr hrd

/-- **Transfer of "no value".** -/
theorem de_reader_not_ok (fuel : Nat) (node : Node) (depth : Nat) (favor : Bool) (h : Hint)
    {r : RState} (hr : ReaderOK r)
    (hsl : ∀ o, (de ext cfg S fuel node depth favor h (sliceOf r)).1 ≠ .ok o) (o : Out) :
    (de ext cfg S fuel node depth favor h r).1 ≠ .ok o :=
  ((deRel_all ext cfg S fuel).de node depth favor h).reader_not_ok hr hsl o

end Avro.Theorems
