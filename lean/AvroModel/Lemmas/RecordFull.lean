import AvroModel.Lemmas.RecordOrder
/-
The rest of C13: partial presentations of a record (omitted nullable fields are filled in by
`end`), the map presentation, and the three rejections (unknown field, duplicate field, missing
non-nullable field).  Used by `Theorems/C13full.lean`.
-/
namespace Avro.Theorems
open Avro Avro.Impl

/-! ### The type-directed lookup for `null` only ever selects a `null` branch -/

theorem Slot.register_some_cases {s : Slot} {p disc p' d' : Nat}
    (h : s.register p disc = .some p' d') : s = .some p' d' ∨ (p' = p ∧ d' = disc) := by
  unfold Slot.register at h
  split at h
  · simp at h; right; omega
  · split at h
    · left; exact h
    · split at h
      · simp at h
      · simp at h; right; omega
  · split at h
    · simp at h; right; omega
    · simp at h

theorem priorityFor_null_eq {n : Node} {p : Nat} (h : n.priorityFor .null = some p) : n = .null := by
  cases n <;> first | rfl | (simp [Node.priorityFor, Node.registrations] at h)

theorem slotFor_go_null (bs : List Node) (k : Nat) (slot : Slot) (p d : Nat)
    (h : slotFor.go .null bs k slot = .some p d) :
    slot = .some p d ∨ (k ≤ d ∧ bs[d - k]? = some .null) := by
  induction bs generalizing k slot with
  | nil => simp [slotFor.go] at h; exact Or.inl h
  | cons n rest ih =>
    simp only [slotFor.go] at h
    rcases ih _ _ h with h1 | ⟨h1, h2⟩
    · split at h1
      · rename_i p0 hp
        rcases Slot.register_some_cases h1 with h4 | ⟨rfl, rfl⟩
        · exact Or.inl h4
        · right; exact ⟨Nat.le_refl _, by simp [priorityFor_null_eq hp]⟩
      · exact Or.inl h1
    · right
      refine ⟨by omega, ?_⟩
      have : d - k = (d - (k + 1)) + 1 := by omega
      rw [this]; simpa using h2

/-- The branch selected for `serialize_none`/`serialize_unit` is a `null` branch. -/
theorem unnamedLookup_null_get {bs : List Node} {d : Nat}
    (h : unnamedLookup .null bs = some d) : bs[d]? = some .null := by
  unfold unnamedLookup at h
  split at h
  · rename_i p d' hs
    simp at h; subst h
    unfold slotFor at hs
    rcases slotFor_go_null bs 0 .none p d' hs with h1 | ⟨_, h2⟩
    · simp at h1
    · simpa using h2
  · simp at h

/-! ### Nullable fields and what `end` writes for them -/

/-- A node that accepts `serialize_none`: `null`, or a union with a (selectable) null branch. -/
def nullableNode (S : Schema) : Node → Bool
  | .null => true
  | .union vs => (unnamedLookup .null (branchNodes S vs)).isSome
  | _ => false

/-- The field whose schema key is `k` may be omitted. -/
def fieldNullable (S : Schema) (k : Nat) : Bool :=
  match S[k]? with
  | some n => nullableNode S n
  | none => false

/-- The encoding of null at a node: nothing for `null`, the discriminant of the null branch for a
    union. -/
def nullEncNode (S : Schema) : Node → Bytes
  | .union vs =>
    match unnamedLookup .null (branchNodes S vs) with
    | some d => encodeVarI64 d
    | none => []
  | _ => []

def nullEnc (S : Schema) (k : Nat) : Bytes :=
  match S[k]? with
  | some n => nullEncNode S n
  | none => []

theorem serUnit_nullable {S : Schema} {node : Node} (hn : nullableNode S node = true)
    (s : SerState) (hb : s.budget = none) :
    serUnit S node s = (.ok (), { s with out := s.out ++ nullEncNode S node }) := by
  unfold serUnit
  cases node <;> simp only [nullableNode] at hn <;> try cases hn
  · simp [nullEncNode, pure]
  · rename_i vs
    cases hl : unnamedLookup .null (branchNodes S vs) with
    | none => rw [hl] at hn; cases hn
    | some d =>
      simp only [nullEncNode, hl]
      exact writeAll_unlimited _ _ hb

theorem recordFill_nullable {S : Schema} {f : String × Nat} (hn : fieldNullable S f.2 = true)
    (s : SerState) (hb : s.budget = none) :
    recordFill S f s = (.ok (), { s with out := s.out ++ nullEnc S f.2 }) := by
  unfold fieldNullable at hn
  unfold recordFill nullEnc nodeAt
  cases hk : S[f.2]? with
  | none => rw [hk] at hn; cases hn
  | some node =>
    rw [hk] at hn
    simp only [bind, pure]
    cases node <;> simp only [nullableNode] at hn <;> try cases hn
    · simp [nullEncNode]
    · rename_i vs
      cases hl : unnamedLookup .null (branchNodes S vs) with
      | none => rw [hl] at hn; cases hn
      | some d =>
        simp only [nullEncNode, hl, unnamedLookup_null_get hl]
        exact writeAll_unlimited _ _ hb

/-- `end` fills a field in only if it is nullable. -/
theorem recordFill_ok_nullable {S : Schema} {f : String × Nat} {s : SerState}
    (h : (recordFill S f s).1 = .ok ()) : fieldNullable S f.2 = true := by
  unfold recordFill nodeAt at h
  unfold fieldNullable
  cases hk : S[f.2]? with
  | none => rw [hk] at h; simp [bind, SerM.fail] at h
  | some node =>
    rw [hk] at h
    simp only [bind, pure] at h
    cases node <;> simp only [nullableNode] <;> try (simp [SerM.fail] at h; done)
    · rename_i vs
      cases hl : unnamedLookup .null (branchNodes S vs) with
      | none => simp [hl, SerM.fail] at h
      | some d => rfl

/-! ### `end` on a partial presentation -/

/-- The fill loop of `end`: entered with the invariant, an unlimited writer, enough fuel, and all
    fields that were not presented nullable (with `enc i` their null encoding), it succeeds and
    completes the writer to the encodings of all fields. -/
theorem recordEnd_fill (S : Schema) (fields : List (String × Nat)) (enc : Nat → Bytes)
    (base : Bytes) : ∀ (fuel : Nat) (rs : RecordState) (s : SerState), s.budget = none →
      fields.length ≤ fuel + rs.current → RecInv fields enc base rs s →
      (∀ i f, fields[i]? = some f → ¬ RecDone rs i →
        fieldNullable S f.2 = true ∧ enc i = nullEnc S f.2) →
      ∃ rs' s', recordEnd S fields fuel rs s = (.ok rs', s') ∧ s'.budget = none ∧
        RecInv fields enc base rs' s' ∧ rs'.current = fields.length := by
  intro fuel
  induction fuel with
  | zero =>
    intro rs s hb hfuel hinv _
    exact ⟨rs, s, rfl, hb, hinv, by have := hinv.2.2; omega⟩
  | succ fuel ih =>
    intro rs s hb hfuel hinv hnull
    rw [recordEnd_succ]
    rcases Nat.lt_or_ge rs.current fields.length with hlt | hge
    · rw [List.getElem?_eq_getElem hlt]
      dsimp only
      have hfree : ¬ RecDone rs rs.current := by
        intro h
        rcases h with h | ⟨b, hb'⟩
        · omega
        · have := (hinv.2.1 _ b hb').1; omega
      obtain ⟨hn, he⟩ := hnull rs.current fields[rs.current] (List.getElem?_eq_getElem hlt) hfree
      rw [recordFill_nullable hn s hb]
      dsimp only
      obtain ⟨rs2, s2, g1, g2, g3, g4⟩ := flushBuffered_inv fields enc base rs.buffers.slots.length
        { rs with current := rs.current + 1 } { s with out := s.out ++ nullEnc S fields[rs.current].2 }
        hb (by simp only; omega)
        ⟨by simp only [hinv.1, range_succ_flatMap, List.append_assoc, he],
         fun i b hib => by have := hinv.2.1 i b hib; exact ⟨by simp only; omega, this.2⟩,
         by simp only; omega⟩
      rw [g1]
      dsimp only
      have hd := flushBuffered_done rs.buffers.slots.length { rs with current := rs.current + 1 }
        { s with out := s.out ++ nullEnc S fields[rs.current].2 } rs2 (by rw [g1])
      simp only at g4
      exact ih rs2 s2 g2 (by omega) g3 (fun i f hf hnd => hnull i f hf (fun h => hnd (hd i (by
        rcases h with h | ⟨b, hb'⟩
        · left; simp only; omega
        · right; exact ⟨b, hb'⟩))))
    · rw [List.getElem?_eq_none hge]
      exact ⟨rs, s, rfl, hb, hinv, by have := hinv.2.2; omega⟩

theorem structFinish_record_fill (S : Schema) (fields : List (String × Nat)) (enc : Nat → Bytes)
    (base : Bytes) (rs : RecordState) (s : SerState) (hb : s.budget = none)
    (hc : PoolClean s.pool) (hinv : RecInv fields enc base rs s)
    (hnull : ∀ i f, fields[i]? = some f → ¬ RecDone rs i →
      fieldNullable S f.2 = true ∧ enc i = nullEnc S f.2) :
    ∃ s', structFinish S (.record fields rs) s = (.ok (), s') ∧
      s'.out = base ++ (List.range fields.length).flatMap enc ∧ s'.budget = none ∧
      PoolClean s'.pool := by
  have hclean := ((structFinish_tr (P := False) (S := S) (k := .record fields rs)
    (fun h => h.elim) (fun h => h.elim)).out s hc).1
  obtain ⟨rs', s1, e1, b1, hinv1, hcur⟩ := recordEnd_fill S fields enc base (fields.length + 1) rs s
    hb (by omega) hinv hnull
  unfold structFinish structEnd at hclean ⊢
  dsimp only at hclean ⊢
  rw [e1] at hclean ⊢
  dsimp only at hclean ⊢
  rw [if_neg (by omega)] at hclean ⊢
  dsimp only at hclean ⊢
  unfold SerM.finally at hclean ⊢
  have hc1 : PoolClean s1.pool := by
    have := ((recordEnd_tr (P := False) (S := S) (fields := fields) (fun h => h.elim)
      (fun h => h.elim) (fields.length + 1) rs).out s hc).1
    rw [e1] at this; exact this
  obtain ⟨_, s', e2, _, o2, b2, _⟩ := structDrop_op
    (.record fields { rs' with buffers := { rs'.buffers with slots := [] } }) s1 hc1
  simp only [pure] at hclean ⊢
  rw [e2] at hclean ⊢
  exact ⟨s', rfl, by rw [o2, hinv1.1, hcur], by rw [b2, b1], hclean⟩

section partialPres
variable (ext : Ext) (allowSlow : Bool) (S : Schema) (nm : Name) (fields : List (String × Nat))
  (enc : Nat → Bytes) (vals : Nat → SV)

theorem presOf_congr {vals vals' : Nat → SV} {order : List Nat}
    (h : ∀ i ∈ order, vals i = vals' i) : presOf fields vals order = presOf fields vals' order := by
  unfold presOf
  apply List.map_congr_left
  intro i hi
  rw [h i hi]

/-- A struct presentation of some of the fields of a record, in any order, the others being
    nullable: the result is the schema-order concatenation of `enc`, where `enc i` is the encoding
    of the presented value, or the null encoding of an omitted field. -/
theorem ser_record_partial (hnd : (fields.map (·.1)).Nodup)
    (hkeys : ∀ f ∈ fields, ∃ node, S[f.2]? = some node)
    (order : List Nat) (hon : order.Nodup) (hlt : ∀ i ∈ order, i < fields.length)
    (henc : ∀ i ∈ order, ∀ f node, fields[i]? = some f → S[f.2]? = some node →
      ∃ t, ser ext allowSlow S node (vals i) {} = (.ok (), t) ∧ t.out = enc i)
    (hnull : ∀ i f, fields[i]? = some f → i ∉ order →
      fieldNullable S f.2 = true ∧ enc i = nullEnc S f.2)
    (name : String) (s : SerState) (hb : s.budget = none) (hc : PoolClean s.pool) :
    ∃ s', ser ext allowSlow S (.record nm fields) (.struct name (presOf fields vals order)) s =
        (.ok (), s') ∧
      s'.out = s.out ++ (List.range fields.length).flatMap enc ∧ s'.budget = none ∧
      PoolClean s'.pool := by
  let vals' : Nat → SV := fun i => if i ∈ order then vals i else .none
  have hpres : presOf fields vals order = presOf fields vals' order :=
    presOf_congr fields (fun i hi => by simp only [vals', if_pos hi])
  have henc' : ∀ i f node, fields[i]? = some f → S[f.2]? = some node →
      ∃ t, ser ext allowSlow S node (vals' i) {} = (.ok (), t) ∧ t.out = enc i := by
    intro i f node hf hnode
    by_cases hi : i ∈ order
    · simp only [vals', if_pos hi]; exact henc i hi f node hf hnode
    · simp only [vals', if_neg hi]
      obtain ⟨hn, he⟩ := hnull i f hf hi
      unfold fieldNullable at hn
      rw [hnode] at hn
      rw [ser, serUnit_nullable hn _ rfl]
      refine ⟨_, rfl, ?_⟩
      simp only [he, nullEnc, hnode, List.nil_append]
  rw [hpres, ser_struct_record_eq]
  obtain ⟨sb, s1, e1, hsb, o1, b1, c1⟩ := popSuperBuffer_op s hc
  rw [e1]
  dsimp only
  have hinv0 : RecInv fields enc s.out { current := 0, buffers := sb } s1 :=
    ⟨by simp [o1], fun i b hib => by simp [hsb] at hib, Nat.zero_le _⟩
  have hdone0 : ∀ i, ¬ RecDone { current := 0, buffers := sb } i := by
    intro i h
    rcases h with h | ⟨b, hb⟩
    · simp at h
    · simp [hsb] at hb
  obtain ⟨rs', s2, hsf, hinv, hb2, hc2, hdone⟩ := serFields_record_total ext allowSlow S fields enc
    s.out vals' hnd hkeys henc' order { current := 0, buffers := sb } s1 (by rw [b1, hb]) c1 hinv0
    hon (fun i hi => ⟨hlt i hi, hdone0 i⟩)
  rw [hsf]
  unfold structBodyFinish
  dsimp only
  exact structFinish_record_fill S fields enc s.out rs' s2 hb2 hc2 hinv
    (fun i f hf hnd' => hnull i f hf (fun hi => hnd' ((hdone i).mpr (.inr hi))))

end partialPres

/-! ### The map presentation -/

/-- A struct presentation turned into map entries: every key is a `serialize_str` call. -/
def strKeyEntries (pres : List (String × SV)) : List (SV × SV) := pres.map fun p => (.str p.1, p.2)

theorem serEntries_strKeys (ext : Ext) (allowSlow : Bool) (S : Schema)
    (fields : List (String × Nat)) : ∀ (pres : List (String × SV)) (rs : RecordState) (s : SerState),
    serEntries ext allowSlow S (.record fields rs) (strKeyEntries pres) s =
      serFields ext allowSlow S (.record fields rs) pres s := by
  intro pres
  induction pres with
  | nil => intro rs s; simp only [strKeyEntries, List.map_nil]; rw [serEntries, serFields]
  | cons p rest ih =>
    intro rs s
    obtain ⟨name, v⟩ := p
    simp only [strKeyEntries, List.map_cons] at ih ⊢
    rw [serEntries, serFields]
    simp only [keyStr]
    cases fieldIdx fields rs name with
    | error e => rfl
    | ok idx =>
      dsimp only
      cases recordValue S fields rs idx (fun node => ser ext allowSlow S node v) s with
      | mk r s1 =>
        cases r with
        | error q => rfl
        | ok rs1 => exact ih rs1 s1

theorem ser_map_record_eq (ext : Ext) (allowSlow : Bool) (S : Schema) (nm : Name)
    (fields : List (String × Nat)) (len : Option Nat) (entries : List (SV × SV)) (s : SerState) :
    ser ext allowSlow S (.record nm fields) (.map len entries) s =
      match popSuperBuffer s with
      | (.ok sb, s1) => structBodyFinish S
          (serEntries ext allowSlow S (.record fields { current := 0, buffers := sb }) entries s1)
      | (.error e, s1) => (.error e, s1) := by
  rw [ser]
  simp only [viaUnion, structStartAt, bind, pure]
  cases popSuperBuffer s with
  | mk r s1 => cases r <;> rfl

theorem ser_structVariant_record_eq (ext : Ext) (allowSlow : Bool) (S : Schema) (nm : Name)
    (fields : List (String × Nat)) (name : String) (idx : Nat) (variant : String)
    (pres : List (String × SV)) (s : SerState) :
    ser ext allowSlow S (.record nm fields) (.structVariant name idx variant pres) s =
      match popSuperBuffer s with
      | (.ok sb, s1) => structBodyFinish S
          (serFields ext allowSlow S (.record fields { current := 0, buffers := sb }) pres s1)
      | (.error e, s1) => (.error e, s1) := by
  rw [ser]
  simp only [viaName, viaUnion, structStartAt, bind, pure]
  cases popSuperBuffer s with
  | mk r s1 => cases r <;> rfl

/-- On the record node itself, the map presentation with the field names as string keys is the
    struct presentation: same result, same final state, whatever the advertised length and the
    struct name. -/
theorem ser_map_eq_struct (ext : Ext) (allowSlow : Bool) (S : Schema) (nm : Name)
    (fields : List (String × Nat)) (len : Option Nat) (name : String) (pres : List (String × SV))
    (s : SerState) :
    ser ext allowSlow S (.record nm fields) (.map len (strKeyEntries pres)) s =
      ser ext allowSlow S (.record nm fields) (.struct name pres) s := by
  rw [ser_map_record_eq, ser_struct_record_eq]
  simp only [serEntries_strKeys]
  rfl

theorem ser_structVariant_eq_struct (ext : Ext) (allowSlow : Bool) (S : Schema) (nm : Name)
    (fields : List (String × Nat)) (name name' : String) (idx : Nat) (variant : String)
    (pres : List (String × SV)) (s : SerState) :
    ser ext allowSlow S (.record nm fields) (.structVariant name' idx variant pres) s =
      ser ext allowSlow S (.record nm fields) (.struct name pres) s := by
  rw [ser_structVariant_record_eq, ser_struct_record_eq]
  rfl

/-! ### Rejections: a hypothesis-free invariant of the reordering machine -/

/-- Occupied slots are strictly after the field waited for. -/
def SlotInv (rs : RecordState) : Prop :=
  ∀ i b, rs.buffers.slots[i]? = some (some b) → rs.current < i

theorem flushBuffered_slotInv : ∀ (fuel : Nat) (rs : RecordState) (s : SerState)
    (rs' : RecordState), rs.buffers.slots.length ≤ fuel + rs.current →
    (∀ i b, rs.buffers.slots[i]? = some (some b) → rs.current ≤ i) →
    (flushBuffered fuel rs s).1 = .ok rs' → SlotInv rs' := by
  intro fuel
  induction fuel with
  | zero =>
    intro rs s rs' hfuel hw h i b hib
    simp [flushBuffered] at h; subst h
    have := hw i b hib
    have hlt : i < rs.buffers.slots.length := (List.getElem?_eq_some_iff.mp hib).1
    omega
  | succ fuel ih =>
    intro rs s rs' hfuel hw h
    unfold flushBuffered at h
    split at h
    · dsimp only at h
      split at h
      · simp at h
      · refine ih _ _ _ (by simp; omega) ?_ h
        intro i b hib
        simp only [List.getElem?_set] at hib
        split at hib
        · split at hib <;> cases hib
        · have := hw i b hib
          simp only; omega
    · rename_i hnot
      simp at h; subst h
      intro i b hib
      have := hw i b hib
      rcases Nat.lt_or_ge rs.current i with h | h
      · exact h
      · have : i = rs.current := by omega
        subst this
        exact (hnot b hib).elim

theorem recordValue_slotInv {S : Schema} {fields : List (String × Nat)} {rs : RecordState}
    {idx : Nat} {serv : Node → SerM Unit} {s : SerState} {rs' : RecordState} {s' : SerState}
    (hinv : SlotInv rs) (hidx : rs.current ≤ idx)
    (hok : recordValue S fields rs idx serv s = (.ok rs', s')) :
    SlotInv rs' ∧ ∀ i, RecDone rs i ∨ i = idx → RecDone rs' i := by
  unfold recordValue at hok
  split at hok
  · simp at hok
  · split at hok
    · simp at hok
    · split at hok
      · rename_i hcur
        split at hok
        · simp at hok
        · rename_i s1 hs1
          have hfl : (flushBuffered rs.buffers.slots.length { rs with current := rs.current + 1 } s1).1
              = .ok rs' := by rw [hok]
          refine ⟨flushBuffered_slotInv _ _ _ rs' (by simp only; omega)
            (fun i b hib => by have := hinv i b hib; simp only; omega) hfl, fun i hi => ?_⟩
          refine flushBuffered_done _ _ _ rs' hfl i ?_
          rcases hi with (hi | ⟨b, hb⟩) | hi
          · left; simp only; omega
          · right; exact ⟨b, hb⟩
          · left; simp only; omega
      · rename_i hcur
        dsimp only at hok
        split at hok
        · simp at hok
        · split at hok
          · simp at hok
          · split at hok
            · simp at hok
            · simp only [Prod.mk.injEq, Except.ok.injEq] at hok
              obtain ⟨e1, e2⟩ := hok; subst e1 e2
              have hlen := resizedSlots_length rs.buffers.slots idx
              refine ⟨fun i b hib => ?_, fun i hi => ?_⟩
              · simp only [List.getElem?_set] at hib
                split at hib
                · rename_i hi; subst hi; simp only; omega
                · exact hinv i b ((resizedSlots_some _ _ _ _).mp hib)
              · by_cases hi' : i = idx
                · subst hi'
                  right
                  exact ⟨_, by simp only [List.getElem?_set, if_true, if_pos hlen]; rfl⟩
                · rcases hi with (hi | ⟨b, hb'⟩) | hi
                  · left; exact hi
                  · right
                    exact ⟨b, by
                      simp only [List.getElem?_set]
                      rw [if_neg (by omega)]
                      exact (resizedSlots_some _ _ _ _).mpr hb'⟩
                  · exact (hi' hi).elim

theorem fieldIdx_unknown {fields : List (String × Nat)} {rs : RecordState} {name : String}
    (h : name ∉ fields.map (·.1)) : ∃ e, fieldIdx fields rs name = .error e := by
  unfold fieldIdx
  split
  · exact ⟨_, rfl⟩
  · rename_i first hfirst
    split
    · rename_i hname
      exfalso; apply h
      rw [← hname]
      exact List.mem_map_of_mem (List.mem_of_getElem? hfirst)
    · cases hl : lookupLast (fields.map (·.1)) name with
      | none => exact ⟨_, rfl⟩
      | some i => exact (h (List.mem_of_getElem? (lookupLast_sound hl))).elim

/-- The name of a field that was already presented: `field_idx` fails, or returns its (occupied)
    slot, strictly after the current field. -/
theorem fieldIdx_done {fields : List (String × Nat)} (hnd : (fields.map (·.1)).Nodup)
    {rs : RecordState} (hinv : SlotInv rs) {i : Nat} {f : String × Nat}
    (hf : fields[i]? = some f) (hd : RecDone rs i) :
    (i < rs.current ∧ fieldIdx fields rs f.1 = .error .custom) ∨
      (fieldIdx fields rs f.1 = .ok i ∧ rs.current < i ∧
        ∃ b, rs.buffers.slots[i]? = some (some b)) := by
  rcases Nat.lt_or_ge i rs.current with hlt | hge
  · left
    refine ⟨hlt, ?_⟩
    have hni : (fields.map (·.1))[i]? = some f.1 := by rw [List.getElem?_map, hf]; rfl
    unfold fieldIdx
    split
    · rfl
    · rename_i first hfirst
      have hcur : rs.current < fields.length := (List.getElem?_eq_some_iff.mp hfirst).1
      split
      · rename_i hname
        exfalso
        have hnc : (fields.map (·.1))[rs.current]? = some f.1 := by
          rw [List.getElem?_map, hfirst]; simp [hname]
        have : rs.current = i :=
          (List.getElem?_inj (by simpa using hcur) hnd).mp (hnc.trans hni.symm)
        omega
      · rw [lookupLast_of_nodup hnd hni]
        dsimp only
        rw [if_neg (by omega), if_pos hlt]
  · right
    rcases hd with hd | ⟨b, hb⟩
    · omega
    · exact ⟨fieldIdx_of_nodup hnd hf hge, hinv i b hb, b, hb⟩

theorem recordValue_occupied {S : Schema} {fields : List (String × Nat)} {rs : RecordState}
    {idx : Nat} {serv : Node → SerM Unit} {s : SerState} {b : Buffer}
    (hne : idx ≠ rs.current) (hb : rs.buffers.slots[idx]? = some (some b)) :
    ∃ e rs' s', recordValue S fields rs idx serv s = (.error (e, rs'), s') := by
  unfold recordValue
  split
  · exact ⟨_, _, _, rfl⟩
  · split
    · exact ⟨_, _, _, rfl⟩
    · rw [if_neg hne]
      dsimp only
      split
      · exact ⟨_, _, _, rfl⟩
      · rename_i hfree
        exact (hfree b ((resizedSlots_some _ _ _ _).mpr hb)).elim

/-- The duplicate whose first copy is still buffered is rejected with a `custom` error (when the
    field's schema key is valid). -/
theorem recordValue_occupied_custom {S : Schema} {fields : List (String × Nat)} {rs : RecordState}
    {idx : Nat} {serv : Node → SerM Unit} {s : SerState} {b : Buffer} {f : String × Nat}
    {node : Node} (hf : fields[idx]? = some f) (hnode : S[f.2]? = some node)
    (hne : idx ≠ rs.current) (hb : rs.buffers.slots[idx]? = some (some b)) :
    ∃ rs', recordValue S fields rs idx serv s = (.error (.custom, rs'), s) := by
  unfold recordValue
  simp only [hf, hnode, if_neg hne]
  split
  · exact ⟨_, rfl⟩
  · rename_i hfree
    exact (hfree b ((resizedSlots_some _ _ _ _).mpr hb)).elim

section rejections
variable (ext : Ext) (allowSlow : Bool) (S : Schema) (fields : List (String × Nat))

/-- One step of `serFields` on a record: fails, or continues on the tail with the new state. -/
theorem serFields_record_step (name : String) (v : SV) (rest : List (String × SV))
    (rs : RecordState) (s : SerState) :
    (∃ e k s', serFields ext allowSlow S (.record fields rs) ((name, v) :: rest) s =
        (.error (e, k), s')) ∨
    (∃ idx rs1 s1, fieldIdx fields rs name = .ok idx ∧
      recordValue S fields rs idx (fun node => ser ext allowSlow S node v) s = (.ok rs1, s1) ∧
      serFields ext allowSlow S (.record fields rs) ((name, v) :: rest) s =
        serFields ext allowSlow S (.record fields rs1) rest s1) := by
  rw [serFields]
  cases hfi : fieldIdx fields rs name with
  | error e => exact .inl ⟨_, _, _, rfl⟩
  | ok idx =>
    dsimp only
    cases hrv : recordValue S fields rs idx (fun node => ser ext allowSlow S node v) s with
    | mk r s1 =>
      cases r with
      | error q => obtain ⟨e, rs'⟩ := q; exact .inl ⟨_, _, _, rfl⟩
      | ok rs1 => exact .inr ⟨idx, rs1, s1, rfl, hrv, rfl⟩

/-- A name that is not a field of the record makes the field loop fail. -/
theorem serFields_unknown_err {name : String} (hname : name ∉ fields.map (·.1)) :
    ∀ (pres : List (String × SV)) (rs : RecordState) (s : SerState),
    name ∈ pres.map (·.1) →
    ∃ e k s', serFields ext allowSlow S (.record fields rs) pres s = (.error (e, k), s') := by
  intro pres
  induction pres with
  | nil => intro rs s h; simp at h
  | cons p rest ih =>
    intro rs s h
    obtain ⟨name', v⟩ := p
    by_cases hn : name' = name
    · subst hn
      obtain ⟨e, he⟩ := fieldIdx_unknown (rs := rs) hname
      rw [serFields, he]
      exact ⟨_, _, _, rfl⟩
    · rcases serFields_record_step ext allowSlow S fields name' v rest rs s with
        herr | ⟨idx, rs1, s1, _, _, heq⟩
      · exact herr
      · rw [heq]
        apply ih
        simp only [List.map_cons, List.mem_cons] at h
        rcases h with h | h
        · exact (hn h.symm).elim
        · exact h

/-- The name of a field that was already presented makes the field loop fail. -/
theorem serFields_done_err (hnd : (fields.map (·.1)).Nodup) {i : Nat} {f : String × Nat}
    (hf : fields[i]? = some f) :
    ∀ (pres : List (String × SV)) (rs : RecordState) (s : SerState),
    SlotInv rs → RecDone rs i → f.1 ∈ pres.map (·.1) →
    ∃ e k s', serFields ext allowSlow S (.record fields rs) pres s = (.error (e, k), s') := by
  intro pres
  induction pres with
  | nil => intro rs s _ _ h; simp at h
  | cons p rest ih =>
    intro rs s hinv hd h
    obtain ⟨name', v⟩ := p
    by_cases hn : name' = f.1
    · subst hn
      rcases fieldIdx_done hnd hinv hf hd with ⟨_, he⟩ | ⟨hok, hlt, b, hb⟩
      · rw [serFields, he]
        exact ⟨_, _, _, rfl⟩
      · obtain ⟨e, rs', s', he⟩ := recordValue_occupied (S := S) (fields := fields)
          (serv := fun node => ser ext allowSlow S node v) (s := s) (by omega : i ≠ rs.current) hb
        rw [serFields, hok]
        dsimp only
        rw [he]
        exact ⟨_, _, _, rfl⟩
    · rcases serFields_record_step ext allowSlow S fields name' v rest rs s with
        herr | ⟨idx, rs1, s1, hfi, hrv, heq⟩
      · exact herr
      · rw [heq]
        obtain ⟨hinv1, hd1⟩ := recordValue_slotInv hinv (fieldIdx_sound hfi).2 hrv
        apply ih rs1 s1 hinv1 (hd1 i (.inl hd))
        simp only [List.map_cons, List.mem_cons] at h
        rcases h with h | h
        · exact (hn h.symm).elim
        · exact h

/-- A name presented twice makes the field loop fail. -/
theorem serFields_dup_err (hnd : (fields.map (·.1)).Nodup) :
    ∀ (pres : List (String × SV)) (rs : RecordState) (s : SerState),
    SlotInv rs → ¬ (pres.map (·.1)).Nodup →
    ∃ e k s', serFields ext allowSlow S (.record fields rs) pres s = (.error (e, k), s') := by
  intro pres
  induction pres with
  | nil => intro rs s _ h; simp at h
  | cons p rest ih =>
    intro rs s hinv h
    obtain ⟨name, v⟩ := p
    rcases serFields_record_step ext allowSlow S fields name v rest rs s with
      herr | ⟨idx, rs1, s1, hfi, hrv, heq⟩
    · exact herr
    · rw [heq]
      obtain ⟨hinv1, hd1⟩ := recordValue_slotInv hinv (fieldIdx_sound hfi).2 hrv
      obtain ⟨k, hk⟩ := (fieldIdx_sound hfi).1
      by_cases hmem : name ∈ rest.map (·.1)
      · exact serFields_done_err ext allowSlow S fields hnd hk rest rs1 s1 hinv1
          (hd1 idx (.inr rfl)) hmem
      · apply ih rs1 s1 hinv1
        intro hnd'
        apply h
        simp only [List.map_cons, List.nodup_cons]
        exact ⟨hmem, hnd'⟩

/-- After a successful field loop, only presented fields are marked done. -/
theorem serFields_ok_conv : ∀ (pres : List (String × SV)) (rs : RecordState) (s : SerState)
    (k' : StructKind) (s' : SerState),
    serFields ext allowSlow S (.record fields rs) pres s = (.ok k', s') →
    ∃ rs', k' = .record fields rs' ∧
      ∀ i, RecDone rs' i → RecDone rs i ∨ ∃ f, fields[i]? = some f ∧ f.1 ∈ pres.map (·.1) := by
  intro pres
  induction pres with
  | nil =>
    intro rs s k' s' h
    rw [serFields] at h
    simp only [Prod.mk.injEq, Except.ok.injEq] at h
    exact ⟨rs, h.1.symm, fun i hi => .inl hi⟩
  | cons p rest ih =>
    intro rs s k' s' h
    obtain ⟨name, v⟩ := p
    rcases serFields_record_step ext allowSlow S fields name v rest rs s with
      ⟨e, k, s2, herr⟩ | ⟨idx, rs1, s1, hfi, hrv, heq⟩
    · rw [herr] at h; simp at h
    · rw [heq] at h
      obtain ⟨rs', hk', hconv⟩ := ih rs1 s1 k' s' h
      refine ⟨rs', hk', fun i hi => ?_⟩
      obtain ⟨k, hk⟩ := (fieldIdx_sound hfi).1
      rcases hconv i hi with h1 | ⟨f, hf, hmem⟩
      · rcases recordValue_done_conv hrv i h1 with h2 | h2
        · exact .inl h2
        · subst h2; exact .inr ⟨_, hk, by simp⟩
      · exact .inr ⟨f, hf, by simp only [List.map_cons, List.mem_cons]; exact .inr hmem⟩

/-- The fill loop of `end` never marks a non-nullable field done. -/
theorem recordEnd_missing {i : Nat} {f : String × Nat} (hf : fields[i]? = some f)
    (hnn : fieldNullable S f.2 = false) : ∀ (fuel : Nat) (rs : RecordState) (s : SerState)
    (rs' : RecordState) (s' : SerState), ¬ RecDone rs i →
    recordEnd S fields fuel rs s = (.ok rs', s') → ¬ RecDone rs' i := by
  intro fuel
  induction fuel with
  | zero =>
    intro rs s rs' s' hd h
    simp [recordEnd] at h
    rw [← h.1]; exact hd
  | succ fuel ih =>
    intro rs s rs' s' hd h
    rw [recordEnd_succ] at h
    split at h
    · simp at h; rw [← h.1]; exact hd
    · rename_i f0 hf0
      split at h
      · simp at h
      · rename_i s1 hfill
        have hn0 := recordFill_ok_nullable (S := S) (f := f0) (s := s) (by rw [hfill])
        have hne : rs.current ≠ i := by
          intro hci
          rw [hci, hf] at hf0
          simp only [Option.some.injEq] at hf0
          rw [← hf0, hnn] at hn0
          cases hn0
        split at h
        · simp at h
        · rename_i rs2 s2 hfl
          refine ih rs2 s2 rs' s' (fun hd2 => hd ?_) h
          rcases flushBuffered_done_conv _ _ _ rs2 (by rw [hfl]) i hd2 with h1 | ⟨b, hb⟩
          · simp only at h1
            exact .inl (by omega)
          · exact .inr ⟨b, hb⟩

theorem finally_fail_err (e : SerErr) (fin : SerM Unit) (s : SerState) :
    ∃ e', (SerM.finally (SerM.fail e : SerM Unit) fin s).1 = .error e' := by
  unfold SerM.finally SerM.fail
  dsimp only
  split <;> exact ⟨_, rfl⟩

/-- `end` fails when a non-nullable field was not presented. -/
theorem structFinish_missing {i : Nat} {f : String × Nat} (hf : fields[i]? = some f)
    (hnn : fieldNullable S f.2 = false) (rs : RecordState) (s : SerState) (hd : ¬ RecDone rs i) :
    ∃ e, (structFinish S (.record fields rs) s).1 = .error e := by
  have hlt : i < fields.length := (List.getElem?_eq_some_iff.mp hf).1
  unfold structFinish structEnd
  dsimp only
  cases hre : recordEnd S fields (fields.length + 1) rs s with
  | mk r s1 =>
    cases r with
    | error q => obtain ⟨e, rs'⟩ := q; exact finally_fail_err _ _ _
    | ok rs' =>
      have hd' := recordEnd_missing S fields hf hnn _ rs s rs' s1 hd hre
      have : rs'.current < fields.length := by
        rcases Nat.lt_or_ge i rs'.current with h | h
        · exact (hd' (.inl h)).elim
        · omega
      dsimp only
      rw [if_pos this]
      exact finally_fail_err _ _ _

theorem structBodyFinish_err (e : SerErr) (k : StructKind) (s : SerState) :
    ∃ e', (structBodyFinish S (.error (e, k), s)).1 = .error e' := by
  unfold structBodyFinish
  exact finally_fail_err _ _ _

theorem popSuperBuffer_ok_slots {s s1 : SerState} {sb : SuperBuffer}
    (h : popSuperBuffer s = (.ok sb, s1)) : sb.slots = [] := by
  unfold popSuperBuffer at h
  split at h
  · simp only [Prod.mk.injEq, Except.ok.injEq] at h
    rw [← h.1]
  · split at h
    · simp at h
    · rename_i hne
      simp only [Prod.mk.injEq, Except.ok.injEq] at h
      rw [← h.1]; simpa using hne

theorem slotInv_init {sb : SuperBuffer} (h : sb.slots = []) :
    SlotInv { current := 0, buffers := sb } := by
  intro i b hib
  simp [h] at hib

theorem recDone_init {sb : SuperBuffer} (h : sb.slots = []) (i : Nat) :
    ¬ RecDone { current := 0, buffers := sb } i := by
  intro hd
  rcases hd with hd | ⟨b, hb⟩
  · simp at hd
  · simp [h] at hb

/-- A struct presentation on a record node fails as soon as its field loop fails from the
    initial state. -/
theorem ser_struct_err_of_fields (nm : Name) (name : String) (pres : List (String × SV))
    (s : SerState)
    (h : ∀ sb s1, popSuperBuffer s = (.ok sb, s1) → sb.slots = [] →
      ∃ e k s', serFields ext allowSlow S (.record fields { current := 0, buffers := sb }) pres s1 =
        (.error (e, k), s')) :
    ∃ e, (ser ext allowSlow S (.record nm fields) (.struct name pres) s).1 = .error e := by
  rw [ser_struct_record_eq]
  cases hp : popSuperBuffer s with
  | mk r s1 =>
    cases r with
    | error e => exact ⟨e, rfl⟩
    | ok sb =>
      dsimp only
      obtain ⟨e, k, s', he⟩ := h sb s1 hp (popSuperBuffer_ok_slots hp)
      rw [he]
      exact structBodyFinish_err S e k s'

theorem ser_struct_unknown_err (nm : Name) (name : String) (pres : List (String × SV))
    (s : SerState) {bad : String} (hbad : bad ∉ fields.map (·.1)) (hmem : bad ∈ pres.map (·.1)) :
    ∃ e, (ser ext allowSlow S (.record nm fields) (.struct name pres) s).1 = .error e :=
  ser_struct_err_of_fields ext allowSlow S fields nm name pres s
    (fun _ s1 _ _ => serFields_unknown_err ext allowSlow S fields hbad pres _ s1 hmem)

theorem ser_struct_dup_err (hnd : (fields.map (·.1)).Nodup) (nm : Name) (name : String)
    (pres : List (String × SV)) (s : SerState) (hdup : ¬ (pres.map (·.1)).Nodup) :
    ∃ e, (ser ext allowSlow S (.record nm fields) (.struct name pres) s).1 = .error e :=
  ser_struct_err_of_fields ext allowSlow S fields nm name pres s
    (fun _ s1 _ hsb => serFields_dup_err ext allowSlow S fields hnd pres _ s1 (slotInv_init hsb) hdup)

theorem ser_struct_missing_err (nm : Name) (name : String) (pres : List (String × SV))
    (s : SerState) {i : Nat} {f : String × Nat} (hf : fields[i]? = some f)
    (hnn : fieldNullable S f.2 = false)
    (habs : f.1 ∉ pres.map (·.1)) :
    ∃ e, (ser ext allowSlow S (.record nm fields) (.struct name pres) s).1 = .error e := by
  rw [ser_struct_record_eq]
  cases hp : popSuperBuffer s with
  | mk r s1 =>
    cases r with
    | error e => exact ⟨e, rfl⟩
    | ok sb =>
      dsimp only
      have hsb := popSuperBuffer_ok_slots hp
      cases hsf : serFields ext allowSlow S (.record fields { current := 0, buffers := sb }) pres s1 with
      | mk r2 s2 =>
        cases r2 with
        | error q => obtain ⟨e, k⟩ := q; exact structBodyFinish_err S e k s2
        | ok k' =>
          obtain ⟨rs', hk', hconv⟩ := serFields_ok_conv ext allowSlow S fields pres _ s1 k' s2 hsf
          subst hk'
          unfold structBodyFinish
          dsimp only
          apply structFinish_missing S fields hf hnn rs' s2
          intro hd
          rcases hconv i hd with h1 | ⟨g, hg, hmem⟩
          · exact recDone_init hsb i h1
          · rw [hf] at hg
            simp only [Option.some.injEq] at hg
            subst hg
            exact habs hmem

end rejections

end Avro.Theorems
