import AvroModel.Theorems.C06
import AvroModel.Theorems.C03layouts
import AvroModel.Lemmas.DeSoundBounds
import AvroModel.Lemmas.SkipLayouts
/-
K16 — the metadata map of a container-file header, from the BYTES.

`readHeader` decodes the metadata with `metaDe` = `deAny` on the schema `map<bytes>` with the
request `map any bytes` (keys as strings, values as bytes).  The conformance theorems of C03 are
about the self-describing request `any`.  Here:
  * the request `map any bytes` on `map<bytes>` reads exactly like `any` (`Refines` both ways, up
    to one unit of fuel);
  * every entry of a `map<bytes>` takes at least two bytes, so the fuel `4 * len + 4096` that
    `readHeader` passes is enough for every layout;
  * hence `metaDe` accepts every layout accepted by `decodeL Limits.impl` with at most 1000
    entries (`metaDe_accepts`), and whatever it accepts is such a layout (`metaDe_sound`).
-/
namespace Avro.C06
open Avro Avro.Impl Avro.Impl.Ocf Avro.Spec

/-- the configuration `readHeader` uses -/
abbrev metaCfg : DeConfig := { maxSeqSize := 1000, allowedDepth := 64 }
/-- the request of `Metadata`'s `Deserialize` impl on the map -/
abbrev metaHint : Hint := .map .any .bytes

/-! ### 1. `map any bytes` on `map<bytes>` reads like `any` -/

section
variable (cfg : DeConfig) (S : Schema)

theorem refines_val_any_meta (g d : Nat) :
    Refines (de deExtModel cfg S g .bytes d false .any) (de deExtModel cfg S g .bytes d false .bytes) := by
  match g with
  | 0 => rw [de]; exact Refines.of_panic _
  | 1 => simp only [de, deAny]; exact Refines.of_panic _
  | g + 2 => simp only [de, deAny]; exact Refines.refl _

theorem refines_val_meta_any (g d : Nat) :
    Refines (de deExtModel cfg S g .bytes d false .bytes)
      (de deExtModel cfg S (g + 1) .bytes d false .any) := by
  match g with
  | 0 => rw [de]; exact Refines.of_panic _
  | g + 1 => simp only [de, deAny]; exact Refines.refl _

theorem refines_mapLoop_any_meta : ∀ (f d : Nat) (ign : Bool) (bst : BlockState)
    (acc : List (Out × Out)),
    Refines (deMapLoop deExtModel cfg S f .bytes d ign .any bst acc)
      (deMapLoop deExtModel cfg S f .bytes d ign metaHint bst acc)
  | 0, _, _, _, _ => by rw [deMapLoop]; exact Refines.of_panic _
  | f + 1, d, ign, bst, acc => by
    have ih := refines_mapLoop_any_meta f d ign
    simp only [deMapLoop, Hint.key, Hint.valFor]
    repeat (first | with_reducible exact refines_val_any_meta cfg S _ _ | with_reducible exact ih _ _ | refines_step)

theorem refines_mapLoop_meta_any : ∀ (f d : Nat) (ign : Bool) (bst : BlockState)
    (acc : List (Out × Out)),
    Refines (deMapLoop deExtModel cfg S f .bytes d ign metaHint bst acc)
      (deMapLoop deExtModel cfg S (f + 1) .bytes d ign .any bst acc)
  | 0, _, _, _, _ => by rw [deMapLoop]; exact Refines.of_panic _
  | f + 1, d, ign, bst, acc => by
    have ih := refines_mapLoop_meta_any f d ign
    rw [deMapLoop.eq_2, deMapLoop.eq_2]
    simp only [Hint.key, Hint.valFor]
    repeat (first | with_reducible exact refines_val_meta_any cfg S _ _ | with_reducible exact ih _ _ | refines_step)

theorem metaSchema_item : (metaSchema)[1]? = some Node.bytes := rfl

theorem refines_metaAny_any_meta (f d : Nat) :
    Refines (deAny deExtModel cfg metaSchema f (.map 1) d .any)
      (deAny deExtModel cfg metaSchema f (.map 1) d metaHint) := by
  match f with
  | 0 => simp only [deAny]; exact Refines.of_panic _
  | f + 1 =>
    simp only [deAny, metaSchema_item]
    repeat (first | with_reducible exact refines_mapLoop_any_meta cfg _ _ _ _ _ _ | refines_step)

theorem refines_metaAny_meta_any (f d : Nat) :
    Refines (deAny deExtModel cfg metaSchema f (.map 1) d metaHint)
      (deAny deExtModel cfg metaSchema (f + 1) (.map 1) d .any) := by
  match f with
  | 0 => simp only [deAny]; exact Refines.of_panic _
  | f + 1 =>
    simp only [deAny, metaSchema_item]
    repeat (first | with_reducible exact refines_mapLoop_meta_any cfg _ _ _ _ _ _ | refines_step)

end

/-! ### 2. Every entry of a `map<bytes>` takes at least two bytes -/

/-- every value is a `bytes` value -/
def AllBytes (es : List (String × Value)) : Prop := ∀ e ∈ es, ∃ b, e.2 = Value.bytes b

theorem decodeLenL_length_lt {L : Limits} {bs rest : Bytes} {n : Nat}
    (h : decodeLenL L bs = some (n, rest)) : rest.length < bs.length := by
  obtain ⟨i, hi, _, _⟩ := decodeLenL_inv h
  exact decodeLongL_length_lt hi

theorem decodeBytesL_length_lt {L : Limits} {bs b rest : Bytes}
    (h : decodeBytesL L bs = some (b, rest)) : rest.length < bs.length := by
  obtain ⟨r0, h1, rfl⟩ := decodeBytesL_inv h
  have := decodeLenL_length_lt h1
  simp only [List.length_append] at this
  omega

theorem decodeStringL_length_lt {L : Limits} {bs rest : Bytes} {k : String}
    (h : decodeStringL L bs = some (k, rest)) : rest.length < bs.length := by
  obtain ⟨n, r, b, h1, h2, _⟩ := decodeStringL_inv h
  have := decodeLenL_length_lt h1
  obtain ⟨rfl, _⟩ := takeN_eq h2
  simp only [List.length_append] at this
  omega

theorem decodeBlockHeaderL_length_lt {L : Limits} {bs rest : Bytes} {c : Nat}
    (h : decodeBlockHeaderL L bs = some (c, rest)) : rest.length < bs.length := by
  unfold decodeBlockHeaderL at h
  split at h
  · cases h
  · rename_i c0 r0 h0
    have l0 := decodeLongL_length_lt h0
    split at h
    · simp only [Option.some.injEq, Prod.mk.injEq] at h
      obtain ⟨_, rfl⟩ := h
      exact l0
    · split at h
      · cases h
      · rename_i sz r1 h1
        have l1 := decodeLongL_length_lt h1
        split at h
        · simp only [Option.some.injEq, Prod.mk.injEq] at h
          obtain ⟨_, rfl⟩ := h
          omega
        · cases h

theorem mapItems_bytes_length (L : Limits) (S : Schema) : ∀ (c f : Nat) (bs : Bytes)
    (es : List (String × Value)) (r : Bytes),
    decodeMapItemsL L S f .bytes c bs = some (es, r) →
    AllBytes es ∧ es.length = c ∧ 2 * c + r.length ≤ bs.length
  | 0, f, bs, es, r, h => by
    rw [decodeMapItemsL] at h
    simp only [Option.some.injEq, Prod.mk.injEq] at h
    obtain ⟨rfl, rfl⟩ := h
    exact ⟨fun e he => (by cases he), rfl, by omega⟩
  | c + 1, 0, bs, es, r, h => by
    rw [decodeMapItemsL] at h
    cases h
  | c + 1, f + 1, bs, es, r, h => by
    rw [decodeMapItemsL] at h
    split at h
    · cases h
    · rename_i k r1 hk
      have lk := decodeStringL_length_lt hk
      split at h
      · cases h
      · rename_i v r2 hv
        split at h
        · cases h
        · rename_i vs r3 hvs
          simp only [Option.some.injEq, Prod.mk.injEq] at h
          obtain ⟨rfl, rfl⟩ := h
          obtain ⟨ha, hl, hlen⟩ := mapItems_bytes_length L S c f r2 vs r3 hvs
          have hv' : ∃ b, v = Value.bytes b ∧ r2.length < r1.length := by
            cases f with
            | zero => rw [decodeL] at hv; cases hv
            | succ g =>
              rw [decodeL] at hv
              simp only [Option.map_eq_some_iff] at hv
              obtain ⟨⟨b, r'⟩, hb, he⟩ := hv
              simp only [Prod.mk.injEq] at he
              obtain ⟨rfl, rfl⟩ := he
              exact ⟨b, rfl, decodeBytesL_length_lt hb⟩
          obtain ⟨b, rfl, lv⟩ := hv'
          refine ⟨?_, by simp [hl], by omega⟩
          intro e he
          rcases List.mem_cons.1 he with rfl | he
          · exact ⟨b, rfl⟩
          · exact ha e he

theorem mapBlocks_bytes_length (L : Limits) (S : Schema) : ∀ (f : Nat) (bs : Bytes)
    (es : List (String × Value)) (r : Bytes),
    decodeMapBlocksL L S f .bytes bs = some (es, r) →
    AllBytes es ∧ 2 * es.length + r.length + 1 ≤ bs.length
  | 0, bs, es, r, h => by
    rw [decodeMapBlocksL] at h
    cases h
  | f + 1, bs, es, r, h => by
    rw [decodeMapBlocksL] at h
    split at h
    · cases h
    · rename_i r0 hh
      have := decodeBlockHeaderL_length_lt hh
      simp only [Option.some.injEq, Prod.mk.injEq] at h
      obtain ⟨rfl, rfl⟩ := h
      exact ⟨fun e he => (by cases he), by simp only [List.length_nil]; omega⟩
    · rename_i c r0 hc hh
      have l0 := decodeBlockHeaderL_length_lt hh
      split at h
      · cases h
      · rename_i vs r1 hvs
        obtain ⟨ha1, hl1, hlen1⟩ := mapItems_bytes_length L S c f r0 vs r1 hvs
        split at h
        · cases h
        · rename_i more r2 hmore
          obtain ⟨ha2, hlen2⟩ := mapBlocks_bytes_length L S f r1 more r2 hmore
          simp only [Option.some.injEq, Prod.mk.injEq] at h
          obtain ⟨rfl, rfl⟩ := h
          refine ⟨?_, by simp only [List.length_append]; omega⟩
          intro e he
          rcases List.mem_append.1 he with he | he
          · exact ha1 e he
          · exact ha2 e he

/-! ### 3. Metadata entries: the value, what the visitor receives, what `readHeader` keeps -/

/-- a metadata entry (key: a string, i.e. valid UTF-8; value: bytes) as an entry of the map value -/
def metaEntry (e : String × Bytes) : String × Value := (e.1, Value.bytes e.2)
/-- the `map<bytes>` value holding these entries, in this order -/
def metaValue (kvs : List (String × Bytes)) : Value := Value.map (kvs.map metaEntry)
/-- what the visitor receives on slice input -/
def metaOut (kvs : List (String × Bytes)) : List (Out × Out) :=
  kvs.map fun e => (Out.str e.1 true, Out.bytes e.2 true)
/-- the entries as byte strings (what `readHeader` classifies) -/
def metaKV (kvs : List (String × Bytes)) : List (Bytes × Bytes) :=
  kvs.map fun e => (e.1.toUTF8.data.toList, e.2)

theorem kvOf_metaOut (kvs : List (String × Bytes)) : kvOf (metaOut kvs) = metaKV kvs := by
  induction kvs with
  | nil => rfl
  | cons e es ih =>
    simp only [metaOut, metaKV, List.map_cons] at ih ⊢
    simp only [kvOf, List.filterMap_cons, outBytes] at ih ⊢
    rw [ih]

theorem observeEntries_meta (kvs : List (String × Bytes)) :
    observeEntries metaSchema .bytes (kvs.map metaEntry) = some (metaOut kvs) := by
  induction kvs with
  | nil => simp [observeEntries, metaOut]
  | cons e es ih =>
    obtain ⟨k, b⟩ := e
    simp only [List.map_cons, metaEntry, observeEntries, observe] at ih ⊢
    rw [ih]
    rfl

theorem observe_meta (kvs : List (String × Bytes)) :
    observe metaSchema (.map 1) (metaValue kvs) = some (Out.map (metaOut kvs)) := by
  simp only [metaValue, observe, metaSchema_item, observeEntries_meta, Option.map_some]

theorem depthEntries_meta (kvs : List (String × Bytes)) : depthEntries (kvs.map metaEntry) = 0 := by
  induction kvs with
  | nil => simp [depthEntries]
  | cons e es ih => simp only [List.map_cons, metaEntry, depthEntries, depthOf] at ih ⊢; omega

theorem maxLenEntries_meta (kvs : List (String × Bytes)) : maxLenEntries (kvs.map metaEntry) = 0 := by
  induction kvs with
  | nil => simp [maxLenEntries]
  | cons e es ih => simp only [List.map_cons, metaEntry, maxLenEntries, maxLen] at ih ⊢; omega

theorem sizeEntries_meta (kvs : List (String × Bytes)) :
    sizeEntries (kvs.map metaEntry) = 2 * kvs.length := by
  induction kvs with
  | nil => simp [sizeEntries]
  | cons e es ih =>
    simp only [List.map_cons, metaEntry, sizeEntries, Spec.size, List.length_cons] at ih ⊢; omega

theorem allBytes_eq {es : List (String × Value)} (h : AllBytes es) :
    ∃ kvs : List (String × Bytes), es = kvs.map metaEntry := by
  induction es with
  | nil => exact ⟨[], rfl⟩
  | cons e es ih =>
    obtain ⟨kvs, rfl⟩ := ih (fun x hx => h x (List.mem_cons_of_mem _ hx))
    obtain ⟨k, v⟩ := e
    obtain ⟨b, hb⟩ := h (k, v) (List.mem_cons_self)
    simp only at hb
    subst hb
    exact ⟨(k, b) :: kvs, rfl⟩

/-- a run of the limited decoder on `map<bytes>`: the value is a list of metadata entries, each of
    which took at least two bytes, and the end marker one -/
theorem decodeL_meta_inv {L : Limits} {fuelS : Nat} {bs rest : Bytes} {v : Value}
    (h : decodeL L metaSchema fuelS (.map 1) bs = some (v, rest)) :
    ∃ kvs, v = metaValue kvs ∧ 2 * kvs.length + rest.length + 1 ≤ bs.length := by
  cases fuelS with
  | zero => rw [decodeL] at h; cases h
  | succ f =>
    rw [decodeL] at h
    have e : nodeOf metaSchema 1 = some Node.bytes := rfl
    simp only [e, Option.map_eq_some_iff] at h
    obtain ⟨⟨es, r⟩, hes, he⟩ := h
    simp only [Prod.mk.injEq] at he
    obtain ⟨rfl, rfl⟩ := he
    obtain ⟨ha, hlen⟩ := mapBlocks_bytes_length L metaSchema f bs es r hes
    obtain ⟨kvs, rfl⟩ := allBytes_eq ha
    refine ⟨kvs, rfl, ?_⟩
    simpa using hlen

/-! ### 4. `metaDe` accepts every layout, and only layouts -/

/-- **`metaDe` accepts every layout of a `map<bytes>`** that the limited specification decoder
    accepts (any partition into blocks, negative counts with byte sizes, varints of at most ten
    bytes), provided it has at most 1000 entries (`max_seq_size` of `readHeader`): the visitor
    receives the entries in file order and exactly the map is consumed.  The fuel that
    `readHeader` passes (`4 * len + 4096`) is always enough. -/
theorem metaDe_accepts (kvs : List (String × Bytes)) (bytes rest : Bytes) (fuelS : Nat)
    (hdec : decodeL Limits.impl metaSchema fuelS (.map 1) bytes = some (metaValue kvs, rest))
    (hn : kvs.length ≤ 1000)
    (s : RState) (hs : s.isSlice = true) (hl : s.limit = none) (ha : s.avail = 0)
    (hr : s.rest = bytes) :
    metaDe s = (.ok (.map (metaOut kvs)), { s with rest := rest }) := by
  obtain ⟨kvs', hk, hlen⟩ := decodeL_meta_inv hdec
  have hkk : kvs'.length = kvs.length := by
    have : (kvs'.map metaEntry).length = (kvs.map metaEntry).length := by
      simp only [metaValue, Value.map.injEq] at hk
      rw [hk]
    simpa using this
  have hrun := (de_accepts_layouts metaCfg metaSchema (metaValue kvs) (.map 1) bytes rest
    (.map (metaOut kvs)) 64 fuelS (s.rest.length * 4 + 4096 + 1) hdec (observe_meta kvs)
    (by simp only [metaValue, depthOf, depthEntries_meta]; omega)
    (by simp only [metaValue, maxLen, maxLenEntries_meta, List.length_map]; omega)
    (by
      simp only [metaValue, Spec.size, sizeEntries_meta]
      rw [hr]; omega)).run s hs hl ha hr
  rw [de_any_succ] at hrun
  have := refines_metaAny_any_meta metaCfg (s.rest.length * 4 + 4096) 64 s (by rw [hrun]; simp)
  unfold metaDe
  rw [this, hrun]

/-- **`metaDe` accepts only layouts**: whatever it accepts on a slice is a run of the limited
    specification decoder on `map<bytes>`, with at most 1000 entries; the visitor received those
    entries in file order, and only the map was consumed. -/
theorem metaDe_sound (s s' : RState) (o : Out)
    (hs : s.isSlice = true) (hl : s.limit = none) (ha : s.avail = 0)
    (h : metaDe s = (.ok o, s')) :
    ∃ kvs fuelS, decodeL Limits.impl metaSchema fuelS (.map 1) s.rest = some (metaValue kvs, s'.rest) ∧
      o = .map (metaOut kvs) ∧ kvs.length ≤ 1000 ∧
      2 * kvs.length + s'.rest.length + 1 ≤ s.rest.length ∧ s' = { s with rest := s'.rest } := by
  unfold metaDe at h
  have h1 := refines_metaAny_meta_any metaCfg (s.rest.length * 4 + 4096) 64 s (by rw [h]; simp)
  rw [h, ← de_any_succ] at h1
  obtain ⟨v, fuelS, hv, ho, _, hm, hs'⟩ :=
    de_sound_bounds metaCfg metaSchema (.map 1) 64 _ s s' o hs hl ha h1
  obtain ⟨kvs, rfl, hlen⟩ := decodeL_meta_inv hv
  rw [observe_meta] at ho
  simp only [Option.some.injEq] at ho
  refine ⟨kvs, fuelS, hv, ho.symm, ?_, hlen, hs'⟩
  simp only [metaValue, maxLen, List.length_map] at hm
  exact Nat.le_trans (Nat.le_max_left _ _) hm

end Avro.C06
