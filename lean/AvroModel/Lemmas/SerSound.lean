import AvroModel.Impl.Ser
import AvroModel.Spec.Denotes
import AvroModel.Lemmas.Varint
import AvroModel.Lemmas.SpecRoundTrip
/-
Helper lemmas for C02 (encoder soundness): the writer with unlimited budget, union lookups,
`lookupLast`, two's complement sign extension, and the decimal encoders.
-/
namespace Avro
open Avro.Spec Avro.Impl

/-! ### The writer with unlimited budget -/

theorem writeAll_none (bs : Bytes) (s : SerState) (h : s.budget = none) :
    writeAll bs s = (.ok (), { s with out := s.out ++ bs }) := by
  simp [writeAll, h]

theorem writeVarI64_none (i : Int) (s : SerState) (h : s.budget = none) :
    writeVarI64 i s = (.ok (), { s with out := s.out ++ encodeVarI64 i }) := by
  simp [writeVarI64, writeAll, h]

theorem writeVarI64_spec (i : Int) (hi : InI64 i) (s : SerState) (h : s.budget = none) :
    writeVarI64 i s = (.ok (), { s with out := s.out ++ encodeLong i }) := by
  rw [writeVarI64_none i s h, encodeVarI64_eq_spec i hi]

theorem writeLengthDelimited_none (bs : Bytes) (hl : bs.length < 2 ^ 63) (s : SerState)
    (h : s.budget = none) :
    writeLengthDelimited bs s = (.ok (), { s with out := s.out ++ lenPrefixed bs }) := by
  have hi : InI64 (bs.length : Int) := inI64_of_lt hl
  simp only [writeLengthDelimited, bind, writeVarI64_spec _ hi s h]
  rw [writeAll_none _ _ (by simpa using h)]
  simp [lenPrefixed]

theorem strBytes_eq_utf8 (s : String) : strBytes s = utf8 s := rfl

/-! ### `lookupLast` -/

theorem lookupLast_go_some (xs : List String) (name : String) (k : Nat) (acc : Option Nat) (i : Nat)
    (h : lookupLast.go name xs k acc = some i) :
    (acc = some i) ∨ (k ≤ i ∧ xs[i - k]? = some name) := by
  induction xs generalizing k acc with
  | nil => simp [lookupLast.go] at h; exact Or.inl h
  | cons x rest ih =>
    simp only [lookupLast.go] at h
    rcases ih _ _ h with h1 | ⟨h1, h2⟩
    · split at h1
      · rename_i hx
        simp at h1; subst h1; right; simp [hx]
      · exact Or.inl h1
    · right
      refine ⟨by omega, ?_⟩
      have : i - k = (i - (k + 1)) + 1 := by omega
      rw [this]; simpa using h2

theorem lookupLast_some {xs : List String} {name : String} {i : Nat}
    (h : lookupLast xs name = some i) : xs[i]? = some name := by
  unfold lookupLast at h
  rcases lookupLast_go_some xs name 0 none i h with h1 | ⟨_, h2⟩
  · simp at h1
  · simpa using h2

theorem lookupLast_lt {xs : List String} {name : String} {i : Nat}
    (h : lookupLast xs name = some i) : i < xs.length := by
  have := lookupLast_some h
  exact (List.getElem?_eq_some_iff.1 this).1

/-! ### UTF-8 -/

theorem utf8_of_fromUTF8? {b : Bytes} {str : String}
    (h : String.fromUTF8? (ByteArray.mk b.toArray) = some str) : utf8 str = b := by
  unfold String.fromUTF8? at h
  split at h
  · simp at h; subst h; simp [utf8, String.fromUTF8, String.toUTF8]
  · simp at h

theorem validUtf8_iff (b : Bytes) : validUtf8 b = true ↔ ∃ str, utf8 str = b := by
  constructor
  · intro hv
    unfold validUtf8 at hv
    rw [Option.isSome_iff_exists] at hv
    obtain ⟨str, hstr⟩ := hv
    exact ⟨str, utf8_of_fromUTF8? hstr⟩
  · rintro ⟨str, rfl⟩
    simp [validUtf8, fromUTF8?_utf8]
/-! ### Two's complement: sign extension -/

theorem leToNat_append (xs ys : Bytes) : leToNat (xs ++ ys) = leToNat xs + 256 ^ xs.length * leToNat ys := by
  induction xs with
  | nil => simp [leToNat]
  | cons x xs ih =>
    simp only [List.cons_append, leToNat, ih, List.length_cons, Nat.pow_succ]
    rw [Nat.mul_add, Nat.add_assoc, ← Nat.mul_assoc, Nat.mul_comm 256 (256 ^ xs.length)]

theorem beToNat_cons (b : UInt8) (bs : Bytes) :
    beToNat (b :: bs) = b.toNat * 256 ^ bs.length + beToNat bs := by
  simp only [beToNat, List.reverse_cons, leToNat_append, leToNat, List.length_reverse]
  rw [Nat.mul_zero, Nat.add_zero, Nat.mul_comm]; omega

theorem beToNat_lt (bs : Bytes) : beToNat bs < 256 ^ bs.length := by
  have := leToNat_lt bs.reverse
  simpa [beToNat] using this

theorem pow2_8 (n : Nat) : (2 : Int) ^ (8 * n) = ((256 ^ n : Nat) : Int) := by
  have : (2 : Nat) ^ (8 * n) = 256 ^ n := by
    rw [Nat.pow_mul]
  rw [← this]; simp

theorem fromTwos_cons (b : UInt8) (bs : Bytes) :
    fromTwosComplementBE (b :: bs) =
      ((b.toNat * 256 ^ bs.length + beToNat bs : Nat) : Int) -
        (if b.toNat ≥ 128 then ((256 ^ (bs.length + 1) : Nat) : Int) else 0) := by
  simp only [fromTwosComplementBE, beToNat_cons, List.length_cons, pow2_8]
  split <;> simp

/-- one byte of sign extension in front of a non-empty string does not change the value -/
theorem fromTwos_signExt_one (fill h : UInt8) (tl : Bytes)
    (hs : (fill = 0 ∧ h.toNat < 128) ∨ (fill = 255 ∧ h.toNat ≥ 128)) :
    fromTwosComplementBE (fill :: h :: tl) = fromTwosComplementBE (h :: tl) := by
  rw [fromTwos_cons fill, fromTwos_cons h, beToNat_cons]
  have hlt := beToNat_lt tl
  simp only [List.length_cons, Nat.pow_succ]
  generalize 256 ^ tl.length = Q at *
  rcases hs with ⟨rfl, hh⟩ | ⟨rfl, hh⟩
  · have hn : ¬ h.toNat ≥ 128 := by omega
    have e : (0 : UInt8).toNat = 0 := rfl
    rw [e, if_neg hn, if_neg (by omega)]
    omega
  · have e : (255 : UInt8).toNat = 255 := rfl
    rw [e, if_pos hh, if_pos (by omega)]
    omega

theorem fromTwos_signExt (fill : UInt8) (pre : Bytes) (h : UInt8) (tl : Bytes)
    (hpre : ∀ x ∈ pre, x = fill)
    (hs : (fill = 0 ∧ h.toNat < 128) ∨ (fill = 255 ∧ h.toNat ≥ 128)) :
    fromTwosComplementBE (pre ++ h :: tl) = fromTwosComplementBE (h :: tl) := by
  induction pre with
  | nil => rfl
  | cons x pre ih =>
    have hx : x = fill := hpre x (by simp)
    have ih' := ih (fun y hy => hpre y (by simp [hy]))
    subst hx
    cases pre with
    | nil => exact fromTwos_signExt_one x h tl hs
    | cons y pre' =>
      have hy : y = x := hpre y (by simp)
      subst hy
      rw [← ih']
      simp only [List.cons_append]
      apply fromTwos_signExt_one
      rcases hs with ⟨rfl, _⟩ | ⟨rfl, _⟩
      · left; exact ⟨rfl, by decide⟩
      · right; exact ⟨rfl, by decide⟩

theorem i128be_length (n : Int) : (i128be n).length = 16 := by simp [i128be, beBytes_length]

theorem i128be_eq_twos {n : Int} (h : inI128 n = true) : twosComplementBE 16 n = some (i128be n) := by
  simp only [inI128, decide_eq_true_eq] at h
  have e : (2 : Int) ^ 127 = 170141183460469231731687303715884105728 := by decide
  rw [e] at h
  simp [twosComplementBE, i128be, h]

theorem i128be_roundtrip {n : Int} (h : inI128 n = true) : fromTwosComplementBE (i128be n) = n :=
  fromTwosComplementBE_of_twos (i128be_eq_twos h)

theorem stripZeros_le (bs : Bytes) : stripZeros bs ≤ bs.length - 1 := by
  fun_induction stripZeros bs <;> simp_all <;> omega

theorem stripZeros_sound (bs : Bytes) :
    fromTwosComplementBE (bs.drop (stripZeros bs)) = fromTwosComplementBE bs := by
  fun_induction stripZeros bs with
  | case1 b0 b1 rest hc ih =>
    have h1 : b1.toNat < 128 := (and_128_eq_zero_iff _ b1.toNat_lt).1 hc.2
    rw [Nat.add_comm, List.drop_succ_cons, ih, hc.1]
    exact (fromTwos_signExt_one 0 b1 rest (Or.inl ⟨rfl, h1⟩)).symm
  | case2 => simp
  | case3 => simp

/-! ### Integers presented to decimal nodes -/

theorem ite_fail_ok {c : Prop} [Decidable c] {α : Type} {m : SerM α} {e : SerErr} {s : SerState}
    {a : α} (h : ((if c then m else SerM.fail e) s).1 = .ok a) : c := by
  by_cases hc : c
  · exact hc
  · simp [hc, SerM.fail] at h

/-- The integer-to-decimal encoder, bytes representation (repaired defect D5). -/
theorem serIntegerAsDecimal_bytes (scale : Nat) (v : Int) (s : SerState) (h : s.budget = none) :
    (serIntegerAsDecimal scale .bytes v s).1 = .ok () →
    ∃ m : Bytes, m.length ≤ 16 ∧
      serIntegerAsDecimal scale .bytes v s = (.ok (), { s with out := s.out ++ lenPrefixed m }) ∧
      fromTwosComplementBE m = v * (10 : Int) ^ scale := by
  intro hok
  unfold serIntegerAsDecimal at hok ⊢
  by_cases h1 : inI128 v = true
  case neg => simp [h1, SerM.fail] at hok
  by_cases h2 : inI128 ((10 : Int) ^ scale) = true
  case neg => simp [h1, h2, SerM.fail] at hok
  by_cases h3 : inI128 (v * (10 : Int) ^ scale) = true
  case neg => simp [h1, h2, h3, SerM.fail] at hok
  simp only [h1, h2, h3, Bool.not_true, Bool.false_eq_true, if_false]
  refine ⟨(i128be (v * 10 ^ scale)).drop (stripZeros (i128be (v * 10 ^ scale))), ?_, ?_, ?_⟩
  · simp [i128be_length]
  · have hl : ((i128be (v * 10 ^ scale)).drop (stripZeros (i128be (v * 10 ^ scale)))).length < 2 ^ 63 := by
      simp [i128be_length]; omega
    exact writeLengthDelimited_none _ hl s h
  · rw [stripZeros_sound, i128be_roundtrip h3]

/-- The integer-to-decimal encoder, fixed representation (repaired defect D6). -/
theorem serIntegerAsDecimal_fixed (scale : Nat) (nm : Name) (size : Nat) (v : Int) (s : SerState)
    (h : s.budget = none) :
    (serIntegerAsDecimal scale (.fixed nm size) v s).1 = .ok () →
    size ≤ 16 ∧ ∃ m : Bytes, m.length = size ∧
      serIntegerAsDecimal scale (.fixed nm size) v s = (.ok (), { s with out := s.out ++ m }) ∧
      fromTwosComplementBE m = v * (10 : Int) ^ scale := by
  intro hok
  unfold serIntegerAsDecimal at hok ⊢
  by_cases h1 : inI128 v = true
  case neg => simp [h1, SerM.fail] at hok
  by_cases h2 : inI128 ((10 : Int) ^ scale) = true
  case neg => simp [h1, h2, SerM.fail] at hok
  by_cases h3 : inI128 (v * (10 : Int) ^ scale) = true
  case neg => simp [h1, h2, h3, SerM.fail] at hok
  simp only [h1, h2, h3, Bool.not_true, Bool.false_eq_true, if_false] at hok ⊢
  by_cases h4 : size ≤ 16
  case neg => simp [h4, SerM.fail] at hok
  simp only [h4, if_true] at hok ⊢
  generalize hn : v * (10 : Int) ^ scale = n at *
  have hlen := i128be_length n
  have hrt := i128be_roundtrip h3
  generalize i128be n = bytes at *
  have hfits := ite_fail_ok hok
  rw [if_pos hfits]
  refine ⟨trivial, bytes.drop (16 - size), by simp [hlen]; omega, writeAll_none _ s h, ?_⟩
  rw [Bool.and_eq_true, List.all_eq_true] at hfits
  obtain ⟨hpre, hrest⟩ := hfits
  have hsplit : bytes = bytes.take (16 - size) ++ bytes.drop (16 - size) := (List.take_append_drop _ _).symm
  cases hd : bytes.drop (16 - size) with
  | nil =>
    have : bytes[16 - size]? = none := by
      have : bytes.length ≤ 16 - size := by simpa using hd
      simp [this]
    rw [this] at hrest
    simp at hrest
    simp [fromTwosComplementBE, hrest]
  | cons b tl =>
    have hb : bytes[16 - size]? = some b := by
      have := List.getElem?_drop (xs := bytes) (i := 16 - size) (j := 0)
      rw [hd] at this; simpa using this.symm
    rw [hb] at hrest
    simp only [decide_eq_true_eq] at hrest
    rw [← hrt]
    conv => rhs; rw [hsplit, hd]
    symm
    apply fromTwos_signExt (if n < 0 then 0xFF else 0x00)
    · intro x hx; simpa using hpre x hx
    · have hbb : (b.toNat &&& 0x80 = 0) ↔ b.toNat < 128 := and_128_eq_zero_iff _ b.toNat_lt
      by_cases hneg : n < 0
      · right; simp only [hneg, if_true]; refine ⟨trivial, ?_⟩
        have : b.toNat &&& 0x80 ≠ 0 := by rw [hrest]; exact hneg
        omega
      · left; simp only [hneg, if_false]; refine ⟨trivial, ?_⟩
        have : ¬ (b.toNat &&& 0x80 ≠ 0) := by rw [hrest]; exact hneg
        omega

/-! ### Unnamed union lookup -/

theorem Slot.register_some {s : Slot} {p disc p' d' : Nat}
    (h : s.register p disc = .some p' d') : s = .some p' d' ∨ (p' = p ∧ d' = disc) := by
  unfold Slot.register at h
  split at h
  · simp at h; right; omega
  · split at h
    · left; exact h
    · split at h
      · simp at h
      · simp at h; right; omega
  · split at h
    · simp at h; right; omega
    · simp at h

theorem slotFor_go_some (key : LookupKey) (bs : List Node) (k : Nat) (slot : Slot) (p d : Nat)
    (h : slotFor.go key bs k slot = .some p d) :
    slot = .some p d ∨ (k ≤ d ∧ ∃ n, bs[d - k]? = some n ∧ n.priorityFor key = some p) := by
  induction bs generalizing k slot with
  | nil => simp [slotFor.go] at h; exact Or.inl h
  | cons n rest ih =>
    simp only [slotFor.go] at h
    rcases ih _ _ h with h1 | ⟨h1, m, h2, h3⟩
    · split at h1
      · rename_i p0 hp
        rcases Slot.register_some h1 with h4 | ⟨rfl, rfl⟩
        · exact Or.inl h4
        · right; exact ⟨Nat.le_refl _, n, by simp, hp⟩
      · exact Or.inl h1
    · right
      refine ⟨by omega, m, ?_, h3⟩
      have : d - k = (d - (k + 1)) + 1 := by omega
      rw [this]; simpa using h2

theorem unnamedLookup_some {key : LookupKey} {bs : List Node} {d : Nat}
    (h : unnamedLookup key bs = some d) :
    ∃ n p, bs[d]? = some n ∧ n.priorityFor key = some p := by
  unfold unnamedLookup at h
  split at h
  · rename_i p d' hs
    simp at h; subst h
    unfold slotFor at hs
    rcases slotFor_go_some key bs 0 .none p d' hs with h1 | ⟨_, n, h2, h3⟩
    · simp at h1
    · exact ⟨n, p, by simpa using h2, h3⟩
  · simp at h

theorem unnamedLookup_lt {key : LookupKey} {bs : List Node} {d : Nat}
    (h : unnamedLookup key bs = some d) : d < bs.length := by
  obtain ⟨n, _, hn, _⟩ := unnamedLookup_some h
  exact (List.getElem?_eq_some_iff.1 hn).1

/-- A union branch registers nothing, so the unnamed lookup never selects a union. -/
theorem unnamed_never_union {key : LookupKey} {bs : List Node} {d : Nat}
    (h : unnamedLookup key bs = some d) : ∀ vs', bs[d]? ≠ some (.union vs') := by
  intro vs' hc
  obtain ⟨n, p, hn, hp⟩ := unnamedLookup_some h
  rw [hc] at hn
  simp only [Option.some.injEq] at hn; subst hn
  simp [Node.priorityFor, Node.registrations] at hp

theorem branchNodes_length (S : Schema) (vs : List Nat) : (branchNodes S vs).length = vs.length := by
  simp [branchNodes]

theorem branchNodes_getElem? (S : Schema) (vs : List Nat) (d : Nat) :
    (branchNodes S vs)[d]? = (vs[d]?).map fun k => S[k]?.getD .null := by
  simp [branchNodes]

/-- What `viaUnion` does on a union node. -/
theorem viaUnion_union {α : Type} (S : Schema) (vs : List Nat) (key : LookupKey) (f : Node → SerM α)
    (s : SerState) (h : s.budget = none) :
    (unnamedLookup key (branchNodes S vs) = none ∧
      viaUnion S (.union vs) key f s = (.error .custom, s)) ∨
    (∃ d k, unnamedLookup key (branchNodes S vs) = some d ∧ d < vs.length ∧ vs[d]? = some k ∧
      ((S[k]? = none ∧ viaUnion S (.union vs) key f s =
          (.error .panic, { s with out := s.out ++ encodeVarI64 d })) ∨
       (∃ n, S[k]? = some n ∧ viaUnion S (.union vs) key f s =
          f n { s with out := s.out ++ encodeVarI64 d }))) := by
  cases hl : unnamedLookup key (branchNodes S vs) with
  | none => left; simp [viaUnion, hl, SerM.fail]
  | some d =>
    right
    have hd : d < vs.length := by have := unnamedLookup_lt hl; rwa [branchNodes_length] at this
    obtain ⟨k, hk⟩ : ∃ k, vs[d]? = some k := ⟨vs[d], List.getElem?_eq_getElem hd⟩
    refine ⟨d, k, rfl, hd, hk, ?_⟩
    cases hn : S[k]? with
    | none =>
      left; simp [viaUnion, hl, bind, writeVarI64_none _ s h, hk, hn, SerM.fail]
    | some n =>
      right; refine ⟨n, rfl, ?_⟩
      simp [viaUnion, hl, bind, writeVarI64_none _ s h, hk, hn]

end Avro
