import AvroModel.Spec.ValidDoc
import AvroModel.Lemmas.PcfSpecRaw
/-
C07 (valid documents parse), first part: the raw schema tree.

* the walks of `Spec/ValidDoc.lean` read on the raw tree `RawSchema` (`defsRaw`, `regOk`,
  `sizeRaw`, `rankedRaw`);
* `raw_read_ind`: an induction principle for "`rawOfJson` read `raw` from `j`";
* the transfers document → raw tree obtained from it.
-/
namespace Avro.ValidParses
open Avro Avro.Impl Avro.Spec Avro.Spec.Pcf Avro.PcfSpec

/-! ### the walks on the raw tree -/

def defsParts (enc : Option String) (t : RawType) (name nsAttr : Option String)
    (dfields : Option String → List Fullname) (ditems dvalues : List Fullname) : List Fullname :=
  match name with
  | some nm =>
    fullnameOfDef nm nsAttr enc ::
      (match t with
        | .array => ditems
        | .map => dvalues
        | .record => dfields (fullnameOfDef nm nsAttr enc).1
        | _ => [])
  | none =>
    match t with
    | .array => ditems
    | .map => dvalues
    | _ => []

mutual

def defsRaw (enc : Option String) : RawSchema → List Fullname
  | .type _ => []
  | .ref _ => []
  | .union bs => defsRawList enc bs
  | .object a fields items values =>
    defsParts enc a.type a.name a.nsAttr (fun ns => defsRawOF ns fields) (defsRawO enc items)
      (defsRawO enc values)

def defsRawO (enc : Option String) : Option RawSchema → List Fullname
  | none => []
  | some r => defsRaw enc r

def defsRawOF (enc : Option String) : Option (List (String × RawSchema)) → List Fullname
  | none => []
  | some fs => defsRawFields enc fs

def defsRawList (enc : Option String) : List RawSchema → List Fullname
  | [] => []
  | r :: rest => defsRaw enc r ++ defsRawList enc rest

def defsRawFields (enc : Option String) : List (String × RawSchema) → List Fullname
  | [] => []
  | (_, r) :: rest => defsRaw enc r ++ defsRawFields enc rest

end

def isPrimType : RawType → Bool
  | .array | .map | .record | .enum | .fixed => false
  | _ => true

def attrsRegOk (a : RawAttrs) : Bool :=
  !(a.logicalType == some "decimal") || a.precision.isSome

mutual

/-- local demands of the registration: no complex type as a bare string, a decimal has its
    precision -/
def regOk : RawSchema → Bool
  | .type t => isPrimType t
  | .ref _ => true
  | .union bs => regOkList bs
  | .object a fields items values => attrsRegOk a && regOkOF fields && regOkO items && regOkO values

def regOkO : Option RawSchema → Bool
  | none => true
  | some r => regOk r

def regOkOF : Option (List (String × RawSchema)) → Bool
  | none => true
  | some fs => regOkFields fs

def regOkList : List RawSchema → Bool
  | [] => true
  | r :: rest => regOk r && regOkList rest

def regOkFields : List (String × RawSchema) → Bool
  | [] => true
  | (_, r) :: rest => regOk r && regOkFields rest

end

mutual

def sizeRaw : RawSchema → Nat
  | .type _ => 2
  | .ref _ => 2
  | .union bs => 1 + sizeRawList bs
  | .object _ fields items values => 2 + sizeRawO items + sizeRawO values + sizeRawOF fields

def sizeRawO : Option RawSchema → Nat
  | none => 0
  | some r => sizeRaw r

def sizeRawOF : Option (List (String × RawSchema)) → Nat
  | none => 0
  | some fs => sizeRawFields fs

def sizeRawList : List RawSchema → Nat
  | [] => 0
  | r :: rest => 1 + sizeRaw r + sizeRawList rest

def sizeRawFields : List (String × RawSchema) → Nat
  | [] => 0
  | (_, r) :: rest => 1 + sizeRaw r + sizeRawFields rest

end

def directBelowRaw (rank : Fullname → Nat) (owner : Fullname) (ns : Option String) :
    RawSchema → Bool
  | .ref s => decide (rank (fullnameOfRef s ns) < rank owner)
  | .object a _ _ _ =>
    match a.type, a.name with
    | .record, some name => decide (rank (fullnameOfDef name a.nsAttr ns) < rank owner)
    | _, _ => true
  | _ => true

def rankedParts (enc : Option String) (t : RawType) (name nsAttr : Option String)
    (rfields : Fullname → Bool) (ritems rvalues : Bool) : Bool :=
  match t with
  | .array => ritems
  | .map => rvalues
  | .record =>
    (match name with
      | some nm => rfields (fullnameOfDef nm nsAttr enc)
      | none => true)
  | _ => true

mutual

def rankedRaw (rank : Fullname → Nat) (enc : Option String) : RawSchema → Bool
  | .type _ => true
  | .ref _ => true
  | .union bs => rankedRawList rank enc bs
  | .object a fields items values =>
    rankedParts enc a.type a.name a.nsAttr (fun owner => rankedRawOF rank owner fields)
      (rankedRawO rank enc items) (rankedRawO rank enc values)

def rankedRawO (rank : Fullname → Nat) (enc : Option String) : Option RawSchema → Bool
  | none => true
  | some r => rankedRaw rank enc r

def rankedRawOF (rank : Fullname → Nat) (owner : Fullname) :
    Option (List (String × RawSchema)) → Bool
  | none => true
  | some fs => rankedRawFields rank owner fs

def rankedRawList (rank : Fullname → Nat) (enc : Option String) : List RawSchema → Bool
  | [] => true
  | r :: rest => rankedRaw rank enc r && rankedRawList rank enc rest

def rankedRawFields (rank : Fullname → Nat) (owner : Fullname) :
    List (String × RawSchema) → Bool
  | [] => true
  | (_, r) :: rest =>
    (directBelowRaw rank owner owner.1 r && rankedRaw rank owner.1 r) &&
      rankedRawFields rank owner rest

end

/-! ### induction on "`rawOfJson` read `raw` from `j`" -/

/-- the scalar attributes read from the members of an object -/
structure AttrsRead (ms : List (String × Json)) (a : RawAttrs) : Prop where
  type : strAttr "type" ms = some (typeText a.type)
  logicalType : strAttr "logicalType" ms = a.logicalType
  name : strAttr "name" ms = a.name
  nsAttr : strAttr "namespace" ms = a.nsAttr
  symbols : symbolsAttr ms = a.symbols
  size : natAttr "size" ms = a.size
  precision : natAttr "precision" ms = a.precision

/-- an optional schema member: absent / `null` and nothing read, or read from its value -/
def OptRead (P : Json → RawSchema → Prop) (key : String) (ms : List (String × Json))
    (r : Option RawSchema) : Prop :=
  (r = none ∧ (attr key ms = none ∨ attr key ms = some .null)) ∨
  ∃ j x, attr key ms = some j ∧ isNull j = false ∧ P j x ∧ r = some x

def FieldsRead (PF : List Json → List (String × RawSchema) → Prop) (ms : List (String × Json))
    (r : Option (List (String × RawSchema))) : Prop :=
  (r = none ∧ (attr "fields" ms = none ∨ attr "fields" ms = some .null)) ∨
  ∃ its fs, attr "fields" ms = some (.arr its) ∧ PF its fs ∧ r = some fs

theorem rawOfJson_not_null {fuel : Nat} {j : Json} {raw : RawSchema}
    (h : rawOfJson fuel j = .ok raw) : isNull j = false := by
  cases j <;> first | rfl | (cases fuel <;> simp [rawOfJson] at h)

section
variable (PJ : Json → RawSchema → Prop) (PL : List Json → List RawSchema → Prop)
  (PF : List Json → List (String × RawSchema) → Prop)

theorem optRead_of {fuel ms key r}
    (ihJ : ∀ j raw, rawOfJson fuel j = .ok raw → PJ j raw)
    (h : stSchema fuel ms key = .ok r) : OptRead PJ key ms r := by
  rcases stSchema_ok h with ⟨rfl, ha⟩ | ⟨j, x, ha, hx, rfl⟩
  · exact Or.inl ⟨rfl, ha⟩
  · exact Or.inr ⟨j, x, ha, rawOfJson_not_null hx, ihJ j x hx, rfl⟩

theorem fieldsRead_of {fuel ms r}
    (ihF : ∀ js fs, rawFieldsOfJson fuel js = .ok fs → PF js fs)
    (h : stFields fuel ms = .ok r) : FieldsRead PF ms r := by
  rcases stFields_ok h with ⟨rfl, ha⟩ | ⟨its, fs, ha, hx, rfl⟩
  · exact Or.inl ⟨rfl, ha⟩
  · exact Or.inr ⟨its, fs, ha, ihF its fs hx, rfl⟩

theorem rawObject_read {fuel ms raw}
    (hobj : ∀ ms a fields items values, AttrsRead ms a → FieldsRead PF ms fields →
      OptRead PJ "items" ms items → OptRead PJ "values" ms values →
      PJ (.obj ms) (.object a fields items values))
    (ihJ : ∀ j raw, rawOfJson fuel j = .ok raw → PJ j raw)
    (ihF : ∀ js fs, rawFieldsOfJson fuel js = .ok fs → PF js fs)
    (h : rawObjectOfJson (fuel + 1) ms = .ok raw) : PJ (.obj ms) raw := by
  rw [rawObjectOfJson_eq] at h
  obtain ⟨ty, hty, h⟩ := bind_ok h
  obtain ⟨lt, hlt, h⟩ := bind_ok h
  obtain ⟨name, hname, h⟩ := bind_ok h
  obtain ⟨ns, hns, h⟩ := bind_ok h
  obtain ⟨fields, hfields, h⟩ := bind_ok h
  obtain ⟨symbols, hsymbols, h⟩ := bind_ok h
  obtain ⟨items, hitems, h⟩ := bind_ok h
  obtain ⟨values, hvalues, h⟩ := bind_ok h
  obtain ⟨size, hsize, h⟩ := bind_ok h
  obtain ⟨precision, hprec, h⟩ := bind_ok h
  obtain ⟨scale, -, h⟩ := bind_ok h
  cases h
  obtain ⟨s, hs, hos⟩ := stType_ok hty
  have := ofString_some hos
  subst this
  exact hobj ms _ fields items values
    ⟨hs, stStr_ok hlt, stStr_ok hname, stStr_ok hns, stSymbols_ok hsymbols, stNat_ok hsize,
      stNat_ok hprec⟩
    (fieldsRead_of PF ihF hfields) (optRead_of PJ ihJ hitems) (optRead_of PJ ihJ hvalues)

/-- Induction on what the four mutually recursive readers read. -/
theorem raw_read_ind
    (hty : ∀ s t, RawType.ofString s = some t → PJ (.str s) (.type t))
    (href : ∀ s, RawType.ofString s = none → PJ (.str s) (.ref s))
    (harr : ∀ js rs, PL js rs → PJ (.arr js) (.union rs))
    (hobj : ∀ ms a fields items values, AttrsRead ms a → FieldsRead PF ms fields →
      OptRead PJ "items" ms items → OptRead PJ "values" ms values →
      PJ (.obj ms) (.object a fields items values))
    (hnilL : PL [] [])
    (hconsL : ∀ j js r rs, PJ j r → PL js rs → PL (j :: js) (r :: rs))
    (hnilF : PF [] [])
    (hconsF : ∀ fm js name t r fs, strAttr "name" fm = some name → attr "type" fm = some t →
      PJ t r → PF js fs → PF (.obj fm :: js) ((name, r) :: fs))
    (fuel : Nat) :
    (∀ j raw, rawOfJson fuel j = .ok raw → PJ j raw) ∧
    (∀ js rs, rawListOfJson fuel js = .ok rs → PL js rs) ∧
    (∀ ms raw, rawObjectOfJson fuel ms = .ok raw → PJ (.obj ms) raw) ∧
    (∀ js fs, rawFieldsOfJson fuel js = .ok fs → PF js fs) := by
  induction fuel with
  | zero =>
    refine ⟨?_, ?_, ?_, ?_⟩
    · intro j raw h; simp [rawOfJson] at h
    · intro js rs h
      cases js with
      | nil => simp [rawListOfJson] at h; subst h; exact hnilL
      | cons j js => simp [rawListOfJson] at h
    · intro ms raw h; simp [rawObjectOfJson] at h
    · intro js fs h
      cases js with
      | nil => simp [rawFieldsOfJson] at h; subst h; exact hnilF
      | cons j js => simp [rawFieldsOfJson] at h
  | succ fuel ih =>
    obtain ⟨ihJ, ihL, ihO, ihF⟩ := ih
    refine ⟨?_, ?_, ?_, ?_⟩
    · intro j raw h
      cases j with
      | str s =>
        simp only [rawOfJson] at h
        cases ho : RawType.ofString s with
        | some t => rw [ho] at h; cases h; exact hty s t ho
        | none => rw [ho] at h; cases h; exact href s ho
      | arr items =>
        simp only [rawOfJson] at h
        split at h
        · rename_i l hl; cases h; exact harr _ _ (ihL _ _ hl)
        · cases h
      | obj ms =>
        simp only [rawOfJson] at h
        exact ihO _ _ h
      | null => simp [rawOfJson] at h
      | bool b => simp [rawOfJson] at h
      | nat n => simp [rawOfJson] at h
      | numOther => simp [rawOfJson] at h
    · intro js rs h
      cases js with
      | nil => simp [rawListOfJson] at h; subst h; exact hnilL
      | cons j js =>
        simp only [rawListOfJson] at h
        split at h
        · cases h
        · rename_i r hr
          split at h
          · cases h
          · rename_i rs' hrs
            cases h
            exact hconsL _ _ _ _ (ihJ _ _ hr) (ihL _ _ hrs)
    · intro ms raw h
      exact rawObject_read PJ PF hobj ihJ ihF h
    · intro js fs h
      cases js with
      | nil => simp [rawFieldsOfJson] at h; subst h; exact hnilF
      | cons j js =>
        cases j with
        | obj fm =>
          simp only [rawFieldsOfJson] at h
          split at h
          · rename_i name t hn ht
            split at h
            · cases h
            · rename_i r hr
              split at h
              · cases h
              · rename_i fs' hfs
                cases h
                exact hconsF fm js name t r fs' (by simp [strAttr, member_attr hn])
                  (member_attr ht) (ihJ _ _ hr) (ihF _ _ hfs)
          · cases h
        | null => simp [rawFieldsOfJson] at h
        | bool b => simp [rawFieldsOfJson] at h
        | nat n => simp [rawFieldsOfJson] at h
        | numOther => simp [rawFieldsOfJson] at h
        | str s => simp [rawFieldsOfJson] at h
        | arr l => simp [rawFieldsOfJson] at h

end

end Avro.ValidParses

namespace Avro.ValidParses
open Avro Avro.Impl Avro.Spec Avro.Spec.Pcf Avro.PcfSpec

/-! ### member-list recursions as lookups -/

theorem defsAttr_eq (enc : Option String) (key : String) (ms : List (String × Json)) :
    defsAttr enc key ms =
      match attr key ms with
      | some v => definedNamesIn enc v
      | none => [] := by
  induction ms with
  | nil => simp [defsAttr, attr]
  | cons p rest ih =>
    obtain ⟨k, v⟩ := p
    by_cases hk : k = key <;> simp [defsAttr, attr, hk, ih]

theorem defsFieldsAttr_eq (enc : Option String) (ms : List (String × Json)) :
    defsFieldsAttr enc ms =
      match attr "fields" ms with
      | some (.arr fs) => defsFields enc fs
      | _ => [] := by
  induction ms with
  | nil => simp [defsFieldsAttr, attr]
  | cons p rest ih =>
    obtain ⟨k, v⟩ := p
    by_cases hk : k = "fields"
    · cases v <;> simp only [defsFieldsAttr, attr, hk, if_true]
    · cases v <;> simp only [defsFieldsAttr, attr, hk, if_false, ih]

theorem sizeAttr_eq (key : String) (ms : List (String × Json)) :
    sizeAttr key ms =
      match attr key ms with
      | some v => schemaSize v
      | none => 0 := by
  induction ms with
  | nil => simp [sizeAttr, attr]
  | cons p rest ih =>
    obtain ⟨k, v⟩ := p
    by_cases hk : k = key <;> simp [sizeAttr, attr, hk, ih]

theorem sizeFieldsAttr_eq (ms : List (String × Json)) :
    sizeFieldsAttr ms =
      match attr "fields" ms with
      | some (.arr fs) => sizeFields fs
      | _ => 0 := by
  induction ms with
  | nil => simp [sizeFieldsAttr, attr]
  | cons p rest ih =>
    obtain ⟨k, v⟩ := p
    by_cases hk : k = "fields"
    · cases v <;> simp only [sizeFieldsAttr, attr, hk, if_true]
    · cases v <;> simp only [sizeFieldsAttr, attr, hk, if_false, ih]

theorem depthAttr_eq (key : String) (ms : List (String × Json)) :
    depthAttr key ms =
      match attr key ms with
      | some v => parseDepth v
      | none => 0 := by
  induction ms with
  | nil => simp [depthAttr, attr]
  | cons p rest ih =>
    obtain ⟨k, v⟩ := p
    by_cases hk : k = key <;> simp [depthAttr, attr, hk, ih]

theorem depthFieldsAttr_eq (ms : List (String × Json)) :
    depthFieldsAttr ms =
      match attr "fields" ms with
      | some (.arr fs) => depthFields fs
      | _ => 0 := by
  induction ms with
  | nil => simp [depthFieldsAttr, attr]
  | cons p rest ih =>
    obtain ⟨k, v⟩ := p
    by_cases hk : k = "fields"
    · cases v <;> simp only [depthFieldsAttr, attr, hk, if_true]
    · cases v <;> simp only [depthFieldsAttr, attr, hk, if_false, ih]

theorem rankedAttr_eq (rank : Fullname → Nat) (enc : Option String) (key : String)
    (ms : List (String × Json)) :
    rankedAttr rank enc key ms =
      match attr key ms with
      | some v => ranked rank enc v
      | none => true := by
  induction ms with
  | nil => simp [rankedAttr, attr]
  | cons p rest ih =>
    obtain ⟨k, v⟩ := p
    by_cases hk : k = key <;> simp [rankedAttr, attr, hk, ih]

theorem rankedFieldsAttr_eq (rank : Fullname → Nat) (owner : Fullname)
    (ms : List (String × Json)) :
    rankedFieldsAttr rank owner ms =
      match attr "fields" ms with
      | some (.arr fs) => rankedFields rank owner fs
      | _ => true := by
  induction ms with
  | nil => simp [rankedFieldsAttr, attr]
  | cons p rest ih =>
    obtain ⟨k, v⟩ := p
    by_cases hk : k = "fields"
    · cases v <;> simp only [rankedFieldsAttr, attr, hk, if_true]
    · cases v <;> simp only [rankedFieldsAttr, attr, hk, if_false, ih]

theorem rankedFieldType_eq (rank : Fullname → Nat) (owner : Fullname)
    (ms : List (String × Json)) :
    rankedFieldType rank owner ms =
      match attr "type" ms with
      | some v => directBelow rank owner owner.1 v && ranked rank owner.1 v
      | none => true := by
  induction ms with
  | nil => simp [rankedFieldType, attr]
  | cons p rest ih =>
    obtain ⟨k, v⟩ := p
    by_cases hk : k = "type" <;> simp [rankedFieldType, attr, hk, ih]

theorem wtOpt_eq (key : String) (ms : List (String × Json)) :
    wtOpt key ms =
      match attr key ms with
      | some v => isNull v || wellTyped v
      | none => true := by
  induction ms with
  | nil => simp [wtOpt, attr]
  | cons p rest ih =>
    obtain ⟨k, v⟩ := p
    by_cases hk : k = key <;> simp [wtOpt, attr, hk, ih]

theorem wtReq_eq (key : String) (ms : List (String × Json)) :
    wtReq key ms =
      match attr key ms with
      | some v => wellTyped v
      | none => false := by
  induction ms with
  | nil => simp [wtReq, attr]
  | cons p rest ih =>
    obtain ⟨k, v⟩ := p
    by_cases hk : k = key <;> simp [wtReq, attr, hk, ih]

theorem wtFieldsAttr_eq (ms : List (String × Json)) :
    wtFieldsAttr ms =
      match attr "fields" ms with
      | none => true
      | some .null => true
      | some (.arr fs) => wtFields fs
      | some _ => false := by
  induction ms with
  | nil => simp [wtFieldsAttr, attr]
  | cons p rest ih =>
    obtain ⟨k, v⟩ := p
    by_cases hk : k = "fields"
    · cases v <;> simp only [wtFieldsAttr, attr, hk, if_true]
    · cases v <;> simp only [wtFieldsAttr, attr, hk, if_false, ih]

end Avro.ValidParses
