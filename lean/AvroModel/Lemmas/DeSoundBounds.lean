import AvroModel.Lemmas.DeLayouts
/-
Soundness of the deserializer with the budgets: a value that is successfully deserialized with
depth budget `depth` and sequence limit `cfg.maxSeqSize` nests arrays / maps / unions / records at
most `depth` deep and has no array or map longer than `cfg.maxSeqSize`.

Variant of `de_sound_layouts` (section 7 of `Lemmas/DeLayouts.lean`) whose conclusion carries the
two bounds; used to state C12 on all layouts without hypotheses on the decoded value.
-/
namespace Avro.Spec
open Avro Avro.Impl

/-- nodes whose values do not nest -/
def _root_.Avro.Impl.Node.isLeafNode : Node → Bool
  | .array _ | .map _ | .union _ | .record _ _ => false
  | _ => true

theorem decodeL_leaf_bounds {L : Limits} {S : Schema} {fS : Nat} {n : Node} {bs rest : Bytes}
    {v : Value} (h : decodeL L S fS n bs = some (v, rest)) (hn : n.isLeafNode = true) :
    depthOf v = 0 ∧ maxLen v = 0 := by
  cases fS with
  | zero => simp [decodeL] at h
  | succ f =>
    cases n with
    | array k => cases hn
    | map k => cases hn
    | union vs => cases hn
    | record nm fields => cases hn
    | decimal sc pr repr =>
      cases repr <;> simp only [decodeL] at h <;> repeat' (split at h)
      all_goals first
        | (cases h <;> exact ⟨by simp [depthOf], by simp [maxLen]⟩)
        | (simp only [Option.map_eq_some_iff] at h
           obtain ⟨⟨b, r⟩, _, h⟩ := h
           simp only [Prod.mk.injEq] at h
           obtain ⟨rfl, _⟩ := h
           exact ⟨by simp [depthOf], by simp [maxLen]⟩)
    | _ =>
      simp only [decodeL] at h
      repeat' (split at h)
      all_goals first
        | (cases h <;> exact ⟨by simp [depthOf], by simp [maxLen]⟩)
        | (simp only [Option.map_eq_some_iff] at h
           obtain ⟨⟨b, r⟩, _, h⟩ := h
           simp only [Prod.mk.injEq] at h
           obtain ⟨rfl, _⟩ := h
           exact ⟨by simp [depthOf], by simp [maxLen]⟩)

end Avro.Spec

namespace Avro.Impl
open Avro Avro.Spec

/-- what a successful run says: a run of the limited specification decoder, and the budgets -/
def SoundQB (cfg : DeConfig) (S : Schema) (n : Node) (bs : Bytes) (depth : Nat) :
    Out → Bytes → Prop :=
  fun o rest => ∃ v fS, decodeL Limits.impl S fS n bs = some (v, rest) ∧ observe S n v = some o ∧
    depthOf v ≤ depth ∧ maxLen v ≤ cfg.maxSeqSize

structure SndB (cfg : DeConfig) (S : Schema) (fuel : Nat) : Prop where
  any : ∀ n depth bs, Inv (deAny deExtModel cfg S fuel n depth .any) bs (SoundQB cfg S n bs depth)
  de : ∀ n depth bs, Inv (de deExtModel cfg S fuel n depth false .any) bs (SoundQB cfg S n bs depth)
  seq : ∀ item depth c nr acc bs, nr ≤ cfg.maxSeqSize →
    Inv (deSeqLoop deExtModel cfg S fuel item depth false .any none ⟨c, nr⟩ acc) bs
      (fun out rest => ∃ vs1 r1 more os fS,
        decodeItemsL Limits.impl S fS item c bs = some (vs1, r1) ∧
        decodeBlocksL Limits.impl S fS item r1 = some (more, rest) ∧
        observeList S item (vs1 ++ more) = some os ∧ out = acc.reverse ++ os ∧
        depthItems (vs1 ++ more) ≤ depth ∧ maxLenItems (vs1 ++ more) ≤ cfg.maxSeqSize ∧
        nr + more.length ≤ cfg.maxSeqSize)
  map : ∀ item depth c nr acc bs, nr ≤ cfg.maxSeqSize →
    Inv (deMapLoop deExtModel cfg S fuel item depth false .any ⟨c, nr⟩ acc) bs
      (fun out rest => ∃ es1 r1 more os fS,
        decodeMapItemsL Limits.impl S fS item c bs = some (es1, r1) ∧
        decodeMapBlocksL Limits.impl S fS item r1 = some (more, rest) ∧
        observeEntries S item (es1 ++ more) = some os ∧ out = acc.reverse ++ os ∧
        depthEntries (es1 ++ more) ≤ depth ∧ maxLenEntries (es1 ++ more) ≤ cfg.maxSeqSize ∧
        nr + more.length ≤ cfg.maxSeqSize)
  fields : ∀ fields depth acc bs,
    Inv (deRecordFields deExtModel cfg S fuel fields depth .any acc) bs
      (fun out rest => ∃ vals os fS,
        decodeFieldsL Limits.impl S fS (fields.map (·.2)) bs = some (vals, rest) ∧
        observeFields S fields vals = some os ∧ out = acc.reverse ++ os ∧
        depthItems vals ≤ depth ∧ maxLenItems vals ≤ cfg.maxSeqSize)

variable (cfg : DeConfig) (S : Schema)

theorem sndB_succ_seq (g : Nat) (ih : SndB cfg S g) (item : Node) (depth c nr : Nat)
    (acc : List Out) (bs : Bytes) (hnr : nr ≤ cfg.maxSeqSize) :
    Inv (deSeqLoop deExtModel cfg S (g + 1) item depth false .any none ⟨c, nr⟩ acc) bs
      (fun out rest => ∃ vs1 r1 more os fS,
        decodeItemsL Limits.impl S fS item c bs = some (vs1, r1) ∧
        decodeBlocksL Limits.impl S fS item r1 = some (more, rest) ∧
        observeList S item (vs1 ++ more) = some os ∧ out = acc.reverse ++ os ∧
        depthItems (vs1 ++ more) ≤ depth ∧ maxLenItems (vs1 ++ more) ≤ cfg.maxSeqSize ∧
        nr + more.length ≤ cfg.maxSeqSize) := by
  rw [deSeqLoop]
  simp only [reduceCtorEq, if_false, Option.map_none]
  cases c with
  | zero =>
    refine Inv.bind (inv_hasMore_zero cfg nr bs) ?_
    rintro ⟨more, bst⟩ r0 ⟨l, hh, hcase⟩
    rcases hcase with ⟨rfl, hp⟩ | ⟨hl, hmax, hp⟩
    · simp only [Prod.mk.injEq] at hp
      obtain ⟨rfl, rfl⟩ := hp
      simp only [Bool.not_false, if_true]
      refine Inv.pure ⟨[], bs, [], [], 1, rfl, ?_, rfl, by simp, by simp [depthItems],
        by simp [maxLenItems], by simpa using hnr⟩
      simp only [decodeBlocksL, hh]
    · simp only [Prod.mk.injEq] at hp
      obtain ⟨rfl, rfl⟩ := hp
      simp only [Bool.not_true, Bool.false_eq_true, if_false]
      refine Inv.bind (ih.de item depth r0) ?_
      rintro o r1 ⟨v, f1, hd, ho, hvd, hvm⟩
      refine (ih.seq item depth (l - 1) (nr + l) (o :: acc) r1 hmax).mono ?_
      rintro out rest ⟨vs1, r2, more, os, f2, hi, hb, hos, rfl, hdp, hml, hcnt⟩
      obtain ⟨l', rfl⟩ : ∃ l', l = l' + 1 := ⟨l - 1, by omega⟩
      simp only [Nat.add_sub_cancel] at hi
      have hlen := decodeItemsL_length _ _ _ _ _ _ _ _ hi
      refine ⟨[], bs, (v :: vs1) ++ more, o :: os, max f1 f2 + 3, rfl, ?_, ?_, by simp, ?_, ?_, ?_⟩
      · have e1 := liftD S (f' := max f1 f2 + 1) (by omega) hd
        have e2 := liftI S (f' := max f1 f2 + 1) (by omega) hi
        have e3 := liftB S (f' := max f1 f2 + 2) (by omega) hb
        rw [decodeBlocksL, hh]
        simp only [decodeItemsL, e1, e2, e3]
      · simp only [List.nil_append, List.cons_append, observeList, ho, hos]
      · simp only [List.nil_append, List.cons_append, depthItems]
        omega
      · simp only [List.nil_append, List.cons_append, maxLenItems]
        omega
      · simp only [List.cons_append, List.length_cons, List.length_append]
        omega
  | succ c' =>
    refine Inv.bind (inv_hasMore_succ cfg false c' nr bs) ?_
    rintro ⟨more, bst⟩ r0 ⟨rfl, hp⟩
    simp only [Prod.mk.injEq] at hp
    obtain ⟨rfl, rfl⟩ := hp
    simp only [Bool.not_true, Bool.false_eq_true, if_false]
    refine Inv.bind (ih.de item depth r0) ?_
    rintro o r1 ⟨v, f1, hd, ho, hvd, hvm⟩
    refine (ih.seq item depth c' nr (o :: acc) r1 hnr).mono ?_
    rintro out rest ⟨vs1, r2, more, os, f2, hi, hb, hos, rfl, hdp, hml, hcnt⟩
    refine ⟨v :: vs1, r2, more, o :: os, max f1 f2 + 1, ?_, liftB S (by omega) hb, ?_, by simp,
      ?_, ?_, hcnt⟩
    · have e1 := liftD S (f' := max f1 f2) (by omega) hd
      have e2 := liftI S (f' := max f1 f2) (by omega) hi
      simp only [decodeItemsL, e1, e2]
    · simp only [List.cons_append, observeList, ho, hos]
    · simp only [List.cons_append, depthItems]
      omega
    · simp only [List.cons_append, maxLenItems]
      omega

end Avro.Impl

namespace Avro.Impl
open Avro Avro.Spec

variable (cfg : DeConfig) (S : Schema)

theorem sndB_succ_map (g : Nat) (ih : SndB cfg S g) (item : Node) (depth c nr : Nat)
    (acc : List (Out × Out)) (bs : Bytes) (hnr : nr ≤ cfg.maxSeqSize) :
    Inv (deMapLoop deExtModel cfg S (g + 1) item depth false .any ⟨c, nr⟩ acc) bs
      (fun out rest => ∃ es1 r1 more os fS,
        decodeMapItemsL Limits.impl S fS item c bs = some (es1, r1) ∧
        decodeMapBlocksL Limits.impl S fS item r1 = some (more, rest) ∧
        observeEntries S item (es1 ++ more) = some os ∧ out = acc.reverse ++ os ∧
        depthEntries (es1 ++ more) ≤ depth ∧ maxLenEntries (es1 ++ more) ≤ cfg.maxSeqSize ∧
        nr + more.length ≤ cfg.maxSeqSize) := by
  rw [deMapLoop]
  -- the part of the iteration after `has_more` said yes
  have body : ∀ (c' nr' : Nat) (r0 : Bytes), nr' ≤ cfg.maxSeqSize →
      Inv (do
        let n ← readLen
        let (kb, borrowed) ← readSlice n
        let (kOut, kName) ← (match Hint.any.key with
          | .ignored => pure (Out.unit, none)
          | _ =>
            match bytesToStr? kb with
            | some s => pure (Out.str s borrowed, some s)
            | none => DeM.fail .custom : DeM (Out × Option String))
        let v ← de deExtModel cfg S g item depth false (Hint.any.valFor kName)
        deMapLoop deExtModel cfg S g item depth false .any ⟨c', nr'⟩ ((kOut, v) :: acc)) r0
      (fun out rest => ∃ es1 r1 more os fS,
        decodeMapItemsL Limits.impl S fS item (c' + 1) r0 = some (es1, r1) ∧
        decodeMapBlocksL Limits.impl S fS item r1 = some (more, rest) ∧
        observeEntries S item (es1 ++ more) = some os ∧ out = acc.reverse ++ os ∧
        depthEntries (es1 ++ more) ≤ depth ∧ maxLenEntries (es1 ++ more) ≤ cfg.maxSeqSize ∧
        nr' + more.length ≤ cfg.maxSeqSize) := by
    intro c' nr' r0 hnr'
    refine Inv.bind (inv_readLen r0) ?_
    intro n ra hlen
    refine Inv.bind (inv_readSlice n ra) ?_
    rintro ⟨kb, borrowed⟩ rb ⟨ht, hbor⟩
    simp only at ht hbor
    subst hbor
    simp only [Hint.key, bytesToStr?]
    split
    · rename_i k hk
      refine Inv.bind (Inv.pure (Q := fun p r => p = (Out.str k true, some k) ∧ r = rb) ⟨rfl, rfl⟩) ?_
      rintro ⟨kOut, kName⟩ r ⟨hp, rfl⟩
      simp only [Prod.mk.injEq] at hp
      obtain ⟨rfl, rfl⟩ := hp
      simp only [Hint.valFor]
      have hstr : decodeStringL Limits.impl r0 = some (k, r) := by
        unfold decodeStringL decodeBytesL
        rw [hlen]
        simp only [ht, hk]
      refine Inv.bind (ih.de item depth r) ?_
      rintro o r1 ⟨v, f1, hd, ho, hvd, hvm⟩
      refine (ih.map item depth c' nr' ((.str k true, o) :: acc) r1 hnr').mono ?_
      rintro out rest ⟨es1, r2, more, os, f2, hi, hb, hos, rfl, hdp, hml, hcnt⟩
      refine ⟨(k, v) :: es1, r2, more, (.str k true, o) :: os, max f1 f2 + 1, ?_,
        liftMB S (by omega) hb, ?_, by simp, ?_, ?_, hcnt⟩
      · have e1 := liftD S (f' := max f1 f2) (by omega) hd
        have e2 := liftMI S (f' := max f1 f2) (by omega) hi
        simp only [decodeMapItemsL, hstr, e1, e2]
      · simp only [List.cons_append, observeEntries, ho, hos]
      · simp only [List.cons_append, depthEntries]
        omega
      · simp only [List.cons_append, maxLenEntries]
        omega
    · refine Inv.bind (Inv.fail _ _ (fun _ _ => False)) ?_
      intro _ _ hf
      exact absurd hf id
  cases c with
  | zero =>
    refine Inv.bind (inv_hasMore_zero cfg nr bs) ?_
    rintro ⟨more, bst⟩ r0 ⟨l, hh, hcase⟩
    rcases hcase with ⟨rfl, hp⟩ | ⟨hl, hmax, hp⟩
    · simp only [Prod.mk.injEq] at hp
      obtain ⟨rfl, rfl⟩ := hp
      simp only [Bool.not_false, if_true]
      refine Inv.pure ⟨[], bs, [], [], 1, rfl, ?_, rfl, by simp, by simp [depthEntries],
        by simp [maxLenEntries], by simpa using hnr⟩
      simp only [decodeMapBlocksL, hh]
    · simp only [Prod.mk.injEq] at hp
      obtain ⟨rfl, rfl⟩ := hp
      simp only [Bool.not_true, Bool.false_eq_true, if_false]
      obtain ⟨l', rfl⟩ : ∃ l', l = l' + 1 := ⟨l - 1, by omega⟩
      refine (body l' (nr + (l' + 1)) r0 hmax).mono ?_
      rintro out rest ⟨es1, r1, more, os, fS, hi, hb, hos, rfl, hdp, hml, hcnt⟩
      have hlen := decodeMapItemsL_length _ _ _ _ _ _ _ _ hi
      refine ⟨[], bs, es1 ++ more, os, fS + 1, rfl, ?_, hos, rfl, hdp, hml, ?_⟩
      · rw [decodeMapBlocksL, hh]
        simp only [hi, hb]
      · simp only [List.length_append]
        omega
  | succ c' =>
    refine Inv.bind (inv_hasMore_succ cfg false c' nr bs) ?_
    rintro ⟨more, bst⟩ r0 ⟨rfl, hp⟩
    simp only [Prod.mk.injEq] at hp
    obtain ⟨rfl, rfl⟩ := hp
    simp only [Bool.not_true, Bool.false_eq_true, if_false]
    exact body c' nr r0 hnr

theorem sndB_succ_fields (g : Nat) (ih : SndB cfg S g) (fields : List (String × Nat))
    (depth : Nat) (acc : List (Out × Out)) (bs : Bytes) :
    Inv (deRecordFields deExtModel cfg S (g + 1) fields depth .any acc) bs
      (fun out rest => ∃ vals os fS,
        decodeFieldsL Limits.impl S fS (fields.map (·.2)) bs = some (vals, rest) ∧
        observeFields S fields vals = some os ∧ out = acc.reverse ++ os ∧
        depthItems vals ≤ depth ∧ maxLenItems vals ≤ cfg.maxSeqSize) := by
  cases fields with
  | nil =>
    rw [deRecordFields]
    exact Inv.pure ⟨[], [], 0, rfl, rfl, by simp, by simp [depthItems], by simp [maxLenItems]⟩
  | cons fk fs =>
    obtain ⟨name, k⟩ := fk
    rw [deRecordFields]
    split
    · exact Inv.fail _ _ _
    · rename_i fnode hnode
      simp only [Hint.valFor, Hint.key, offerName]
      refine Inv.bind (ih.de fnode depth bs) ?_
      rintro o r1 ⟨v, f1, hd, ho, hvd, hvm⟩
      refine (ih.fields fs depth ((.str name false, o) :: acc) r1).mono ?_
      rintro out rest ⟨vals, os, f2, hf, hos, rfl, hdp, hml⟩
      refine ⟨v :: vals, (.str name false, o) :: os, max f1 f2 + 1, ?_, ?_, by simp, ?_, ?_⟩
      · have e1 := liftD S (f' := max f1 f2) (by omega) hd
        have e2 := liftF S (f' := max f1 f2) (by omega) hf
        simp only [List.map_cons, decodeFieldsL, nodeOf, hnode, e1, e2]
      · simp only [observeFields, hnode, ho, hos]
      · simp only [depthItems]; omega
      · simp only [maxLenItems]; omega

theorem sndB_fields_zero (fields : List (String × Nat)) (depth : Nat) (acc : List (Out × Out))
    (bs : Bytes) :
    Inv (deRecordFields deExtModel cfg S 0 fields depth .any acc) bs
      (fun out rest => ∃ vals os fS,
        decodeFieldsL Limits.impl S fS (fields.map (·.2)) bs = some (vals, rest) ∧
        observeFields S fields vals = some os ∧ out = acc.reverse ++ os ∧
        depthItems vals ≤ depth ∧ maxLenItems vals ≤ cfg.maxSeqSize) := by
  cases fields with
  | nil =>
    rw [deRecordFields]
    exact Inv.pure ⟨[], [], 0, rfl, rfl, by simp, by simp [depthItems], by simp [maxLenItems]⟩
  | cons fk fs =>
    rw [deRecordFields]
    exact Inv.fail _ _ _

/-- `decDepth` with what it returns -/
theorem inv_decDepth' (depth : Nat) (bs : Bytes) :
    Inv (decDepth depth) bs (fun d r => r = bs ∧ depth = d + 1) := by
  cases depth with
  | zero => exact Inv.fail _ _ _
  | succ d => exact Inv.pure ⟨rfl, rfl⟩

theorem sndB_succ_any (g : Nat) (ih : SndB cfg S g) (n : Node) (depth : Nat) (bs : Bytes) :
    Inv (deAny deExtModel cfg S (g + 1) n depth .any) bs (SoundQB cfg S n bs depth) := by
  cases n with
  | array k =>
    rw [deAny]
    split
    · exact Inv.fail _ _ _
    · rename_i item hitem
      refine Inv.bind (inv_decDepth' depth bs) ?_
      rintro d r ⟨rfl, rfl⟩
      refine Inv.bind (ih.seq item d 0 0 [] r (Nat.zero_le _)) ?_
      rintro items rest ⟨vs1, r1, more, os, fS, hi, hb, hos, rfl, hdp, hml, hcnt⟩
      have h0 : vs1 = [] ∧ r1 = r := by
        cases fS <;> simp only [decodeItemsL, Option.some.injEq, Prod.mk.injEq] at hi <;>
          exact ⟨hi.1.symm, hi.2.symm⟩
      obtain ⟨rfl, rfl⟩ := h0
      simp only [List.nil_append] at hos hdp hml
      refine Inv.pure ⟨.array more, fS + 1, ?_, ?_, ?_, ?_⟩
      · simp only [decodeL, nodeOf, hitem, hb, Option.map_some]
      · simp only [observe, hitem, hos, Option.map_some]
      · simp only [depthOf]; omega
      · simp only [maxLen]; omega
  | map k =>
    rw [deAny]
    split
    · exact Inv.fail _ _ _
    · rename_i item hitem
      refine Inv.bind (inv_decDepth' depth bs) ?_
      rintro d r ⟨rfl, rfl⟩
      refine Inv.bind (ih.map item d 0 0 [] r (Nat.zero_le _)) ?_
      rintro items rest ⟨es1, r1, more, os, fS, hi, hb, hos, rfl, hdp, hml, hcnt⟩
      have h0 : es1 = [] ∧ r1 = r := by
        cases fS <;> simp only [decodeMapItemsL, Option.some.injEq, Prod.mk.injEq] at hi <;>
          exact ⟨hi.1.symm, hi.2.symm⟩
      obtain ⟨rfl, rfl⟩ := h0
      simp only [List.nil_append] at hos hdp hml
      refine Inv.pure ⟨.map more, fS + 1, ?_, ?_, ?_, ?_⟩
      · simp only [decodeL, nodeOf, hitem, hb, Option.map_some]
      · simp only [observe, hitem, hos, Option.map_some]
      · simp only [depthOf]; omega
      · simp only [maxLen]; omega
  | union vs =>
    rw [deAny]
    refine Inv.bind (inv_readLen bs) ?_
    intro d r0 hd
    split
    · exact Inv.fail _ _ _
    · rename_i k hk
      split
      · exact Inv.fail _ _ _
      · rename_i variant hvar
        refine Inv.bind (inv_decDepth' depth r0) ?_
        rintro dd r ⟨rfl, rfl⟩
        refine (ih.any variant dd r).mono ?_
        rintro o rest ⟨v, fS, hv, ho, hvd, hvm⟩
        refine ⟨.union d v, fS + 1, ?_, ?_, ?_, ?_⟩
        · simp only [decodeL, hd, hk, nodeOf, hvar, hv, Option.map_some]
        · simp only [observe, hk, hvar, ho]
        · simp only [depthOf]; omega
        · simp only [maxLen]; exact hvm
  | record nm fields =>
    rw [deAny]
    refine Inv.bind (inv_decDepth' depth bs) ?_
    rintro d r ⟨rfl, rfl⟩
    refine Inv.bind (ih.fields fields d [] r) ?_
    rintro entries rest ⟨vals, os, fS, hf, hos, rfl, hdp, hml⟩
    refine Inv.pure ⟨.record vals, fS + 1, ?_, ?_, ?_, ?_⟩
    · simp only [decodeL, hf, Option.map_some]
    · simp only [observe, hos, Option.map_some]
    · simp only [depthOf]; omega
    · simp only [maxLen]; exact hml
  | _ =>
    refine ((sndAll cfg S (g + 1)).any _ depth bs).mono ?_
    rintro o rest ⟨v, fS, hv, ho⟩
    obtain ⟨h1, h2⟩ := decodeL_leaf_bounds hv rfl
    exact ⟨v, fS, hv, ho, by omega, by omega⟩

theorem sndB_zero : SndB cfg S 0 := by
  refine ⟨?_, ?_, ?_, ?_, sndB_fields_zero cfg S⟩
  · intro n depth bs; rw [deAny]; exact Inv.fail _ _ _
  · intro n depth bs; rw [de]; exact Inv.fail _ _ _
  · intro item depth c nr acc bs _; rw [deSeqLoop]; exact Inv.fail _ _ _
  · intro item depth c nr acc bs _; rw [deMapLoop]; exact Inv.fail _ _ _

theorem sndB : ∀ fuel, SndB cfg S fuel := by
  intro fuel
  induction fuel with
  | zero => exact sndB_zero cfg S
  | succ g ih =>
    refine ⟨sndB_succ_any cfg S g ih, ?_, sndB_succ_seq cfg S g ih, sndB_succ_map cfg S g ih,
      sndB_succ_fields cfg S g ih⟩
    intro n depth bs
    rw [de_any_succ]
    exact ih.any n depth bs

/-- **Soundness with the budgets**: whatever the deserializer accepts is a run of the limited
    specification decoder whose value respects the depth budget and the sequence limit. -/
theorem de_sound_bounds (n : Node) (depth fuel : Nat) (s s' : RState) (o : Out)
    (hs : s.isSlice = true) (hl : s.limit = none) (ha : s.avail = 0)
    (h : de deExtModel cfg S fuel n depth false .any s = (.ok o, s')) :
    ∃ v fuelS, decodeL Limits.impl S fuelS n s.rest = some (v, s'.rest) ∧
      observe S n v = some o ∧ depthOf v ≤ depth ∧ maxLen v ≤ cfg.maxSeqSize ∧
      s' = { s with rest := s'.rest } := by
  have e1 : s.mk' s.rest none = s := by
    obtain ⟨isS, r, av, sched, lc, ma, scr, lim⟩ := s
    simp only at hl
    subst hl
    rfl
  rw [← e1] at h
  obtain ⟨rest, rfl, v, fS, hv, ho, hd, hm⟩ := (sndB cfg S fuel).de n depth s.rest s ⟨hs, ha⟩ o s' h
  refine ⟨v, fS, hv, ho, hd, hm, ?_⟩
  obtain ⟨isS, r, av, sched, lc, ma, scr, lim⟩ := s
  simp only at hl
  subst hl
  rfl

end Avro.Impl
