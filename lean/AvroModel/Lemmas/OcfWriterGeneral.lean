import AvroModel.Lemmas.OcfParse
/-
Helper lemmas for `Theorems/C15general.lean`: the abstract container writer (`astep` / `AState`
of `Lemmas/OcfWriter.lean`) on histories where `push_serialized` may carry a count of 0.

* `AllZero es`: every entry of `es` counts for no value; `cntOf es = 0 ↔ AllZero es`;
* `Quiet approx a`: the state between two calls — if the buffer has reached the block size it
  counts no value (otherwise the call that filled it would have closed the block).  Holds after
  every call whatever the state before (`astep_quiet`), and in the initial state;
* `cntOf` / `bufOf` of concatenations;
* `IsConcat enc bytes k`: `bytes` is the concatenation of the encodings of `k` values.
-/
namespace Avro.Impl.Ocf

open Avro Avro.Impl

/-! ### Counts and bytes of lists of entries -/

/-- every entry counts for no value (a `push_serialized(bytes, 0)`) -/
def AllZero (es : List Entry) : Prop := ∀ e ∈ es, e.2 = 0

theorem cntOf_cons (e : Entry) (es : List Entry) : cntOf (e :: es) = e.2 + cntOf es := by
  simp [cntOf]

theorem bufOf_cons (e : Entry) (es : List Entry) : bufOf (e :: es) = e.1 ++ bufOf es := by
  simp [bufOf]

theorem cntOf_append (xs ys : List Entry) : cntOf (xs ++ ys) = cntOf xs + cntOf ys := by
  simp [cntOf]

theorem bufOf_append (xs ys : List Entry) : bufOf (xs ++ ys) = bufOf xs ++ bufOf ys := by
  simp [bufOf]

theorem cntOf_flatten (L : List (List Entry)) : cntOf L.flatten = (L.map cntOf).sum := by
  induction L with
  | nil => rfl
  | cons l L ih => simp [cntOf_append, ih]

theorem bufOf_flatten (L : List (List Entry)) : bufOf L.flatten = (L.map bufOf).flatten := by
  induction L with
  | nil => rfl
  | cons l L ih => simp [bufOf_append, ih]

theorem cntOf_eq_zero_iff (es : List Entry) : cntOf es = 0 ↔ AllZero es := by
  induction es with
  | nil => simp [AllZero]
  | cons e es ih =>
    rw [cntOf_cons]
    constructor
    · intro h x hx
      rcases List.mem_cons.1 hx with rfl | hx
      · omega
      · exact ih.1 (by omega) x hx
    · intro h
      have h1 := h e (by simp)
      have h2 := ih.2 (fun x hx => h x (List.mem_cons_of_mem _ hx))
      omega

/-- A block's count is at most the count of any list of entries it is part of. -/
theorem cntOf_le_of_mem_flatten (L : List (List Entry)) (b : List Entry) (hb : b ∈ L) :
    cntOf b ≤ cntOf L.flatten := by
  induction L with
  | nil => cases hb
  | cons l L ih =>
    rw [List.flatten_cons, cntOf_append]
    rcases List.mem_cons.1 hb with rfl | hb
    · omega
    · have := ih hb; omega

theorem bufOf_length_le_of_mem_flatten (L : List (List Entry)) (b : List Entry) (hb : b ∈ L) :
    (bufOf b).length ≤ (bufOf L.flatten).length := by
  induction L with
  | nil => cases hb
  | cons l L ih =>
    rw [List.flatten_cons, bufOf_append, List.length_append]
    rcases List.mem_cons.1 hb with rfl | hb
    · omega
    · have := ih hb; omega

/-! ### The state between two calls -/

/-- Between two calls: a buffer that has reached the block size counts no value. -/
def Quiet (approx : Nat) (a : AState) : Prop :=
  (bufOf a.buffered).length ≥ approx → cntOf a.buffered = 0

theorem quiet_init (approx : Nat) : Quiet approx {} := fun _ => rfl

theorem aseal_quiet (approx : Nat) (a : AState) : Quiet approx (aseal a) := fun _ => aseal_cnt a

theorem asealIf_quiet (approx : Nat) (a : AState) : Quiet approx (asealIf approx a) := by
  unfold asealIf
  split
  · exact aseal_quiet approx a
  · rename_i h; intro h'; exact absurd h' h

theorem astep_quiet (approx : Nat) (a : AState) (op : WOp) : Quiet approx (astep approx a op) := by
  cases op with
  | value d =>
    cases d with
    | none => exact asealIf_quiet approx a
    | some d => exact asealIf_quiet approx _
  | push b k => exact asealIf_quiet approx _
  | finishBlock => exact aseal_quiet approx a
  | intoInner => exact aseal_quiet approx a
  | drop => exact aseal_quiet approx a

theorem arun_quiet (approx : Nat) (a : AState) (ops : List WOp) (h : Quiet approx a) :
    Quiet approx (arun approx a ops) := by
  unfold arun
  induction ops generalizing a with
  | nil => exact h
  | cons op ops ih => exact ih _ (astep_quiet approx a op)

/-- In a quiet state the check made at the beginning of `serialize` / `push_serialized` closes
    nothing. -/
theorem asealIf_of_quiet (approx : Nat) (a : AState) (h : Quiet approx a) : asealIf approx a = a := by
  unfold asealIf aseal
  split
  · rename_i hge
    have := h hge
    have : ¬ (cntOf a.buffered > 0) := by omega
    simp only [this, if_false]
  · rfl

theorem arun_snoc (approx : Nat) (a : AState) (ops : List WOp) (op : WOp) :
    arun approx a (ops ++ [op]) = astep approx (arun approx a ops) op := by
  simp only [arun, List.foldl_append, List.foldl_cons, List.foldl_nil]

theorem wrun_append_singleton (c : Codec) (dbg : Bool) (w : WState) (ops : List WOp) (op : WOp) :
    wrun c dbg w (ops ++ [op]) =
      ((wrun c dbg w ops).1 ++ [(wstep c dbg (wrun c dbg w ops).2 op).1],
        (wstep c dbg (wrun c dbg w ops).2 op).2) := by
  simp only [wrun, List.foldl_append, List.foldl_cons, List.foldl_nil]

theorem wrun_cons (c : Codec) (dbg : Bool) (w : WState) (op : WOp) (ops : List WOp) :
    (wrun c dbg w (op :: ops)).2 = (wrun c dbg (wstep c dbg w op).2 ops).2 := by
  have key : ∀ (ops : List WOp) (acc acc' : List (Except WErr Unit)) (w : WState),
      (ops.foldl (fun (acc : List (Except WErr Unit) × WState) op =>
          (acc.1 ++ [(wstep c dbg acc.2 op).1], (wstep c dbg acc.2 op).2)) (acc, w)).2 =
      (ops.foldl (fun (acc : List (Except WErr Unit) × WState) op =>
          (acc.1 ++ [(wstep c dbg acc.2 op).1], (wstep c dbg acc.2 op).2)) (acc', w)).2 := by
    intro ops
    induction ops with
    | nil => intros; rfl
    | cons o ops ih => intro acc acc' w; simp only [List.foldl_cons]; exact ih _ _ _
  simp only [wrun, List.foldl_cons]
  exact key ops _ _ _

/-- Every block written is part of the log. -/
theorem mem_sealed_sublist_log (a : AState) (b : List Entry) (hb : b ∈ a.sealed) :
    ∀ e ∈ b, e ∈ a.log := by
  intro e he
  unfold AState.log
  exact List.mem_append_left _ (List.mem_flatten.2 ⟨b, hb, he⟩)

/-! ### Successful flushes -/

/-- What a successful `flush_finished_block` leaves: nothing pending, and either an emptied
    buffer (a block was written) or the state it started from (nothing was pending). -/
theorem flushFinishedBlock_ok (c : Codec) (x y : WState)
    (hx : flushFinishedBlock c x = (.ok (), y)) :
    y.pending = none ∧ ((y.buf = [] ∧ y.n = x.n) ∨ y = x) := by
  unfold flushFinishedBlock at hx
  cases hp : x.pending with
  | none =>
    simp only [hp, Prod.mk.injEq, true_and] at hx
    subst hx
    exact ⟨hp, .inr rfl⟩
  | some header =>
    simp only [hp] at hx
    by_cases ht : x.taken = true
    · simp [ht] at hx
    · simp only [ht, Bool.false_eq_true, if_false] at hx
      cases hwr : writeAllVectored (sinkFuel x.sink [header, blockData c x, x.sync])
          [header, blockData c x, x.sync] x.sink with
      | mk r s =>
        simp only [hwr] at hx
        cases r with
        | error e => simp at hx
        | ok u =>
          simp only [Prod.mk.injEq, true_and] at hx
          subst hx
          exact ⟨rfl, .inl ⟨rfl, rfl⟩⟩

/-! ### The header followed by anything -/

open Avro.Spec Avro.Spec.Ocf in
/-- The specification parser on a header followed by arbitrary bytes `X`: the view is the
    header's metadata and marker and whatever `parseBlocks` makes of `X`. -/
theorem parse_header_append (metaBytes sync : Bytes) (md : List (Bytes × Bytes)) (X : Bytes)
    (hmeta : MetaParses metaBytes md) (hsync : sync.length = 16) :
    parse (magic ++ metaBytes ++ sync ++ X) =
      some { metadata := md, sync := sync,
             blocks := (parseBlocks sync ((magic ++ metaBytes ++ sync ++ X).length + 1) X).1,
             trailing := (parseBlocks sync ((magic ++ metaBytes ++ sync ++ X).length + 1) X).2.1,
             badSync := (parseBlocks sync ((magic ++ metaBytes ++ sync ++ X).length + 1) X).2.2 } := by
  unfold parse
  have h4 : (magic ++ metaBytes ++ sync ++ X).take 4 = magic := by
    simp only [List.append_assoc]
    exact List.take_left' rfl
  have hd4 : (magic ++ metaBytes ++ sync ++ X).drop 4 = metaBytes ++ (sync ++ X) := by
    simp only [List.append_assoc]
    exact List.drop_left' rfl
  have hm := hmeta (sync ++ X) ((magic ++ metaBytes ++ sync ++ X).length + 1)
    (by simp only [List.length_append]; omega)
  have h16 : ¬ ((sync ++ X).length < 16) := by
    simp only [List.length_append, hsync]; omega
  have ht16 : (sync ++ X).take 16 = sync := List.take_left' hsync
  have hd16 : (sync ++ X).drop 16 = X := List.drop_left' hsync
  simp only [h4, ne_eq, not_true_eq_false, if_false, hd4, hm, h16, ht16, hd16]

open Avro.Spec Avro.Spec.Ocf in
/-- A block header whose count field is negative stops the parser: no block, everything is
    trailing. -/
theorem parseBlocks_negative_count (sync : Bytes) (i : Int) (hi : InI64 i) (hneg : i < 0)
    (rest : Bytes) (fuel : Nat) :
    parseBlocks sync (fuel + 1) (encodeLong i ++ rest) =
      ([], (encodeLong i ++ rest).length, false) := by
  conv => lhs; unfold parseBlocks
  have hne : (encodeLong i ++ rest).isEmpty = false := by
    have := encodeLong_ne_nil i
    cases h : encodeLong i with
    | nil => exact absurd h this
    | cons x xs => rfl
  simp only [hne, Bool.false_eq_true, if_false, decodeLong_encodeLong i hi, hneg, if_true]

/-- `2^63 as i64` is `i64::MIN`: the varint written for a count of `2^63` is the encoding of the
    `long` `-2^63`. -/
theorem encodeVarI64_two_pow_63 :
    encodeVarI64 ((2 ^ 63 : Nat) : Int) = Spec.encodeLong (-9223372036854775808) := by
  rw [← encodeVarI64_eq_spec _ (by unfold Spec.InI64; omega)]
  unfold encodeVarI64
  congr 3

/-! ### Concatenations of datum encodings -/

/-- `bytes` is the concatenation of the encodings of exactly `k` values. -/
def IsConcat {V : Type} (enc : V → Bytes) (bytes : Bytes) (k : Nat) : Prop :=
  ∃ vs : List V, vs.length = k ∧ bytes = (vs.map enc).flatten

theorem isConcat_entries {V : Type} (enc : V → Bytes) (es : List Entry)
    (h : ∀ e ∈ es, IsConcat enc e.1 e.2) : IsConcat enc (bufOf es) (cntOf es) := by
  induction es with
  | nil => exact ⟨[], rfl, rfl⟩
  | cons e es ih =>
    obtain ⟨vs, h1, h2⟩ := h e (by simp)
    obtain ⟨ws, h3, h4⟩ := ih (fun x hx => h x (List.mem_cons_of_mem _ hx))
    refine ⟨vs ++ ws, ?_, ?_⟩
    · rw [List.length_append, cntOf_cons, h1, h3]
    · rw [bufOf_cons, h2, h4]; simp

/-- Bytes given with a count of 0 are a concatenation of 0 encodings only if there are none. -/
theorem isConcat_zero_iff {V : Type} (enc : V → Bytes) (bytes : Bytes) :
    IsConcat enc bytes 0 ↔ bytes = [] := by
  constructor
  · rintro ⟨vs, h1, h2⟩
    have : vs = [] := List.length_eq_zero_iff.1 h1
    subst this
    exact h2
  · rintro rfl; exact ⟨[], rfl, rfl⟩

end Avro.Impl.Ocf
