import AvroModel.Theorems.C05
import AvroModel.Theorems.C17stream
/-
Bridges between the two copies of the container-reader vocabulary.

`Theorems/C17.lean` (used by C05, C06) and `Lemmas/OcfStream.lean` (used by C17stream, namespace
`Avro.Theorems.Stream`) both define `End`, `readAll`, `blockData`, `blockBytes`, `fileBody`,
`BlockOk`, `openSlice` - verbatim copies made when the two developments could not be imported
together.  They can be now; the functions are definitionally the same, the two `End` types are
isomorphic, `next`/`nextInner`/`enterBlock`/`leaveBlock` are shared (`Impl/Ocf.lean`).
This file proves the small equalities that let the theorems of `C17stream.lean` (real datum
deserializer) be restated in the vocabulary of `C05.lean` / `C06.lean`.
-/
namespace Avro.Theorems.Real
open Avro Avro.Impl Avro.Impl.Ocf Avro.Theorems

/-- the `End` of `Lemmas/OcfStream.lean` read as the `End` of `Theorems/C17.lean` -/
def endOfS : Stream.End → End
  | .eos => .eos
  | .err e => .err e
  | .more => .more

@[simp] theorem endOfS_eos : endOfS .eos = .eos := rfl

theorem endOfS_eq_eos {e : Stream.End} : endOfS e = .eos ↔ e = .eos := by
  cases e <;> simp [endOfS]

theorem endOfS_eq_more {e : Stream.End} : endOfS e = .more ↔ e = .more := by
  cases e <;> simp [endOfS]

/-- the two `readAll` are the same function -/
theorem readAll_eq_stream {α : Type} (d : Decomp) (datum : RState → Except DeErr α × RState) :
    ∀ (k : Nat) (r : Reader),
      readAll d datum k r =
        ((Stream.readAll d datum k r).1, endOfS (Stream.readAll d datum k r).2) := by
  intro k
  induction k with
  | zero => intro r; rfl
  | succ k ih =>
    intro r
    simp only [readAll, Stream.readAll]
    generalize next d datum r = x
    obtain ⟨res, r'⟩ := x
    cases res with
    | error e => rfl
    | ok oa =>
      cases oa with
      | none => rfl
      | some a => simp only [ih r']

/-- a run of the `Stream` copy that ends with end of stream, in the vocabulary of `C17.lean` -/
theorem readAll_of_stream {α : Type} {d : Decomp} {datum : RState → Except DeErr α × RState}
    {k : Nat} {r : Reader} {xs : List α}
    (h : Stream.readAll d datum k r = (xs, .eos)) : readAll d datum k r = (xs, .eos) := by
  rw [readAll_eq_stream, h]; rfl

theorem readAll_fst_stream {α : Type} (d : Decomp) (datum : RState → Except DeErr α × RState)
    (k : Nat) (r : Reader) : (readAll d datum k r).1 = (Stream.readAll d datum k r).1 := by
  rw [readAll_eq_stream]

theorem readAll_snd_eos_of_stream {α : Type} {d : Decomp}
    {datum : RState → Except DeErr α × RState} {k : Nat} {r : Reader}
    (h : (Stream.readAll d datum k r).2 = .eos) : (readAll d datum k r).2 = .eos := by
  rw [readAll_eq_stream, h]; rfl

section Layout
variable {V : Type} (enc : V → Bytes)

theorem blockData_eq (vals : List V) : Stream.blockData enc vals = blockData enc vals := rfl

theorem blockBytes_eq (sync : Bytes) (vals : List V) :
    Stream.blockBytes enc sync vals = blockBytes enc sync vals := rfl

theorem fileBody_eq (sync : Bytes) (blocks : List (List V)) :
    Stream.fileBody enc sync blocks = fileBody enc sync blocks := rfl

theorem blockOk_iff (vals : List V) : Stream.BlockOk enc vals ↔ BlockOk enc vals := Iff.rfl

theorem openSlice_eq (sync bytes : Bytes) : Stream.openSlice sync bytes = openSlice sync bytes := rfl

end Layout

end Avro.Theorems.Real
