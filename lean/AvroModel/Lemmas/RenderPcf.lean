import AvroModel.Lemmas.RenderPcfSteps
/-
C09 (global): the JSON the renderer writes for a node graph, read by the specification's own
transformation into Parsing Canonical Form, is the text the canonical-form writer computes from
the graph.

Three walks in lock step:
* `render` / `renderList` / `renderFields` on the graph (fuel `f`, state `RenderState`),
* `pcf` / `pcfList` / `pcfFields` on the graph (fuel `pf ≥ f`, state `PcfState`),
* `canon` and `scan` (with the list `D` of fullnames defined so far) on the JSON that the first
  walk produced.

Invariant `Inv S st ps D`:
* `gen`     — both writers count the same number of named types written;
* `guard`   — for every node, the cell of the canonical-form writer's guard is at most the
              current generation, and if it *is* the current generation then the cell of the
              renderer's guard is at least that (so: the renderer passed its guard ⇒ the
              canonical-form writer passes its own);
* `written` — a named node has a non-zero cell in the renderer iff it is in the writer's
              `written` list;
* `defs`    — the fullname of every written named node is in `D`.
-/
namespace Avro.RenderPcf
open Avro Avro.Impl Avro.Spec Avro.Spec.Pcf

/-- every name in the graph is well-formed -/
def NamesWF (S : SchemaMut) : Prop :=
  ∀ (i : Nat) (node : RawNode) (nm : Name),
    S[i]? = some node → nameOf node.type = some nm → NameWF nm

structure Inv (S : SchemaMut) (st : RenderState) (ps : PcfState) (D : List Fullname) : Prop where
  gen : st.nWritten = ps.written.length + 1
  guard : ∀ i, cell ps i ≤ st.nWritten ∧ (cell ps i = st.nWritten → st.nWritten ≤ st.get i)
  written : ∀ (i : Nat) (node : RawNode) (nm : Name),
    S[i]? = some node → nameOf node.type = some nm → (0 < st.get i ↔ i ∈ ps.written)
  defs : ∀ (i : Nat) (node : RawNode) (nm : Name),
    S[i]? = some node → nameOf node.type = some nm → i ∈ ps.written → (nm.ns, nm.short) ∈ D

structure Res (S : SchemaMut) (st st' : RenderState) (ps ps' : PcfState) (D' : List Fullname)
    (text : String) : Prop where
  out : ps'.out = ps.out ++ text
  inv : Inv S st' ps' D'
  mono : st.nWritten ≤ st'.nWritten

theorem Inv.init (S : SchemaMut) : Inv S {} {} [] := by
  refine ⟨rfl, ?_, ?_, ?_⟩
  · intro i
    exact ⟨by simp [cell], fun h => by simp [cell] at h⟩
  · intro i node nm _ _
    simp [RenderState.get]
  · intro i node nm _ _ h
    simp at h

theorem Inv.withOut {S : SchemaMut} {st : RenderState} {ps : PcfState} {D : List Fullname}
    (h : Inv S st ps D) (o : String) : Inv S st { ps with out := o } D :=
  ⟨h.gen, h.guard, h.written, h.defs⟩

theorem cell_unnamedEnter (ps : PcfState) (key : Nat) (o : String) (i : Nat) :
    cell (unnamedEnter ps key o) i = if i = key then ps.written.length + 1 else cell ps i := by
  simp only [cell, unnamedEnter]
  exact lookup_set ps.onPath key _ i

theorem cell_unnamedExit (ps ps2 : PcfState) (key : Nat) (o : String) (i : Nat) :
    cell (unnamedExit ps ps2 key o) i = if i = key then cell ps key else cell ps2 i := by
  simp only [cell, unnamedExit]
  exact lookup_set ps2.onPath key _ i

/-- entering an array, map or union whose guard the renderer passed -/
theorem Inv.enter {S : SchemaMut} {st : RenderState} {ps : PcfState} {D : List Fullname}
    (h : Inv S st ps D) (key : Nat) (node : RawNode) (hk : S[key]? = some node)
    (hu : nameOf node.type = none) (o : String) :
    Inv S (st.set key st.nWritten) (unnamedEnter ps key o) D := by
  refine ⟨h.gen, ?_, ?_, h.defs⟩
  · intro i
    rw [cell_unnamedEnter, get_set, nWritten_set]
    by_cases hi : i = key
    · simp only [hi, if_true]
      exact ⟨by rw [h.gen]; exact Nat.le_refl _, fun _ => Nat.le_refl _⟩
    · simp only [hi, if_false]
      exact h.guard i
  · intro i n nm hi hn
    have hne : i ≠ key := by
      intro e; subst e; rw [hk] at hi; cases hi; rw [hu] at hn; cases hn
    rw [get_set]
    simp only [hne, if_false]
    exact h.written i n nm hi hn

/-- leaving it: the renderer releases its cell, the canonical-form writer restores the previous
    value, which is below the generation at entry -/
theorem Inv.exit {S : SchemaMut} {st2 : RenderState} {ps ps2 : PcfState} {D : List Fullname}
    (h : Inv S st2 ps2 D) (key : Nat) (node : RawNode) (hk : S[key]? = some node)
    (hu : nameOf node.type = none) (hprev : cell ps key < st2.nWritten) (o : String) :
    Inv S (st2.set key 0) (unnamedExit ps ps2 key o) D := by
  refine ⟨h.gen, ?_, ?_, h.defs⟩
  · intro i
    rw [cell_unnamedExit, get_set, nWritten_set]
    by_cases hi : i = key
    · simp only [hi, if_true]
      exact ⟨by omega, fun e => by omega⟩
    · simp only [hi, if_false]
      exact h.guard i
  · intro i n nm hi hn
    have hne : i ≠ key := by
      intro e; subst e; rw [hk] at hi; cases hi; rw [hu] at hn; cases hn
    rw [get_set]
    simp only [hne, if_false]
    exact h.written i n nm hi hn

theorem get_namedEnter (st : RenderState) (key i : Nat) :
    (namedEnter st key).get i = if i = key then st.nWritten else st.get i := by
  have : (namedEnter st key).get i = (st.set key st.nWritten).get i := rfl
  rw [this, get_set]

/-- the first visit of a named type -/
theorem Inv.define {S : SchemaMut} {st : RenderState} {ps : PcfState} {D : List Fullname}
    (h : Inv S st ps D) (key : Nat) (node : RawNode) (nm : Name) (hk : S[key]? = some node)
    (hn : nameOf node.type = some nm) (o : String) :
    Inv S (namedEnter st key) { ps with written := key :: ps.written, out := o }
      ((nm.ns, nm.short) :: D) := by
  refine ⟨?_, ?_, ?_, ?_⟩
  · simp only [namedEnter, List.length_cons, h.gen]
  · intro i
    have := (h.guard i).1
    have e : cell { ps with written := key :: ps.written, out := o } i = cell ps i := rfl
    have e2 : (namedEnter st key).nWritten = st.nWritten + 1 := rfl
    rw [e, e2]
    exact ⟨by omega, fun e => by omega⟩
  · intro i n nm' hi hn'
    rw [get_namedEnter]
    by_cases hik : i = key
    · subst hik
      simp only [if_true, List.mem_cons, true_or, iff_true]
      rw [h.gen]; omega
    · simp only [hik, if_false, List.mem_cons, false_or]
      exact h.written i n nm' hi hn'
  · intro i n nm' hi hn' hmem
    by_cases hik : i = key
    · subst hik
      rw [hk] at hi; cases hi; rw [hn] at hn'; cases hn'
      exact List.mem_cons_self
    · have : i ∈ ps.written := by
        rcases List.mem_cons.mp hmem with e | e
        · exact absurd e hik
        · exact e
      exact List.mem_cons_of_mem _ (h.defs i n nm' hi hn' this)

/-! ### the three statements -/

def ClaimN (S : SchemaMut) (f : Nat) : Prop :=
  ∀ key ns st j st' ps D pf, f ≤ pf →
    render S f key ns st = .ok (j, st') → Inv S st ps D →
    ∃ c D' ps', canon ns j = some c ∧ scan ns j D = some D' ∧
      pcf S pf key ps = .ok ps' ∧ Res S st st' ps ps' D' (print c)

def ClaimL (S : SchemaMut) (f : Nat) : Prop :=
  ∀ vs ns st js st' ps D pf first, f ≤ pf →
    renderList S f vs ns st = .ok (js, st') → Inv S st ps D →
    ∃ cs D' ps', canonList ns js = some cs ∧ scanList ns js D = some D' ∧
      pcfList S pf vs first ps = .ok ps' ∧
      Res S st st' ps ps' D' (if first then printList cs else printTail cs)

def ClaimF (S : SchemaMut) (f : Nat) : Prop :=
  ∀ fields ns st js st' ps D pf first, f ≤ pf →
    renderFields S f fields ns st = .ok (js, st') → Inv S st ps D →
    ∃ cs D' ps', canonFields ns js = some cs ∧ scanFields ns js D = some D' ∧
      pcfFields S pf fields first ps = .ok ps' ∧
      Res S st st' ps ps' D' (if first then printList cs else printTail cs)

theorem claimL_nil {S : SchemaMut} {f : Nat} {ns : Option String} {st st' : RenderState}
    {js : List Json} {ps : PcfState} {D : List Fullname} {pf : Nat} {first : Bool}
    (h : renderList S f [] ns st = .ok (js, st')) (hinv : Inv S st ps D) :
    ∃ cs D' ps', canonList ns js = some cs ∧ scanList ns js D = some D' ∧
      pcfList S pf [] first ps = .ok ps' ∧
      Res S st st' ps ps' D' (if first then printList cs else printTail cs) := by
  obtain ⟨rfl, rfl⟩ := renderList_nil_inv h
  refine ⟨[], D, ps, by simp only [canonList], by simp only [scanList],
    by cases pf <;> simp [pcfList], ?_, hinv, Nat.le_refl _⟩
  cases first <;> simp [printList, printTail]

theorem claimF_nil {S : SchemaMut} {f : Nat} {ns : Option String} {st st' : RenderState}
    {js : List Json} {ps : PcfState} {D : List Fullname} {pf : Nat} {first : Bool}
    (h : renderFields S f [] ns st = .ok (js, st')) (hinv : Inv S st ps D) :
    ∃ cs D' ps', canonFields ns js = some cs ∧ scanFields ns js D = some D' ∧
      pcfFields S pf [] first ps = .ok ps' ∧
      Res S st st' ps ps' D' (if first then printList cs else printTail cs) := by
  obtain ⟨rfl, rfl⟩ := renderFields_nil_inv h
  refine ⟨[], D, ps, by simp only [canonFields], by simp only [scanFields],
    by cases pf <;> simp [pcfFields], ?_, hinv, Nat.le_refl _⟩
  cases first <;> simp [printList, printTail]

theorem claimL_succ {S : SchemaMut} {f : Nat} (ihN : ClaimN S f) (ihL : ClaimL S f) :
    ClaimL S (f + 1) := by
  intro vs ns st js st' ps D pf first hpf h hinv
  cases vs with
  | nil => exact claimL_nil h hinv
  | cons k rest =>
    obtain ⟨pf, rfl⟩ : ∃ pf', pf = pf' + 1 := ⟨pf - 1, by omega⟩
    have hpf' : f ≤ pf := by omega
    obtain ⟨j1, st1, js2, h1, h2, rfl⟩ := renderList_cons_inv h
    have hinv0 : Inv S st (if first then ps else { ps with out := ps.out ++ "," }) D := by
      cases first
      · exact hinv.withOut _
      · exact hinv
    obtain ⟨c, D1, ps1, hc, hs, hp1, hres1⟩ := ihN k ns st j1 st1 _ D pf hpf' h1 hinv0
    obtain ⟨cs, D2, ps2, hcs, hss, hp2, hres2⟩ :=
      ihL rest ns st1 js2 st' ps1 D1 pf false hpf' h2 hres1.inv
    refine ⟨c :: cs, D2, ps2, canonList_cons _ _ _ _ _ hc hcs, by simp only [scanList, hs, hss],
      by simp only [pcfList, hp1, hp2], ?_, hres2.inv, Nat.le_trans hres1.mono hres2.mono⟩
    rw [hres2.out, hres1.out]
    cases first <;> simp [printList, printTail, String.append_assoc]

theorem claimF_succ {S : SchemaMut} {f : Nat} (ihN : ClaimN S f) (ihF : ClaimF S f) :
    ClaimF S (f + 1) := by
  intro fields ns st js st' ps D pf first hpf h hinv
  cases fields with
  | nil => exact claimF_nil h hinv
  | cons x rest =>
    obtain ⟨name, k⟩ := x
    obtain ⟨pf, rfl⟩ : ∃ pf', pf = pf' + 1 := ⟨pf - 1, by omega⟩
    have hpf' : f ≤ pf := by omega
    obtain ⟨j1, st1, js2, h1, h2, rfl⟩ := renderFields_cons_inv h
    have hinv0 : Inv S st
        { (if first then ps else { ps with out := ps.out ++ "," }) with
          out := (if first then ps else { ps with out := ps.out ++ "," }).out ++
            "{\"name\":\"" ++ name ++ "\",\"type\":" } D := by
      cases first <;> exact hinv.withOut _
    obtain ⟨c, D1, ps1, hc, hs, hp1, hres1⟩ := ihN k ns st j1 st1 _ D pf hpf' h1 hinv0
    obtain ⟨cs, D2, ps2, hcs, hss, hp2, hres2⟩ :=
      ihF rest ns st1 js2 st' { ps1 with out := ps1.out ++ "}" } D1 pf false hpf' h2
        (hres1.inv.withOut _)
    refine ⟨.obj [("name", .str name), ("type", c)] :: cs, D2, ps2,
      canonFields_cons _ _ _ _ _ _ hc hcs, by simp only [scanFields_cons, hs, hss],
      by simp only [pcfFields, hp1, hp2], ?_, hres2.inv, Nat.le_trans hres1.mono hres2.mono⟩
    rw [hres2.out]
    simp only [hres1.out]
    cases first <;>
      simp only [printList, printTail, print_field, String.append_assoc, if_true,
        if_false, Bool.false_eq_true]

/-! ### one node -/

section node
variable {S : SchemaMut} {f : Nat}

theorem claimN_prim (node : RawNode) (t : String)
    {key : Nat} {ns : Option String} {st st' : RenderState} {j : Json} {ps : PcfState}
    {D : List Fullname} {pf : Nat}
    (hk : S[key]? = some node) (hp : primText node.type = some t)
    (h : render S (f + 1) key ns st = .ok (j, st')) (hinv : Inv S st ps D) :
    ∃ c D' ps', canon ns j = some c ∧ scan ns j D = some D' ∧
      pcf S (pf + 1) key ps = .ok ps' ∧ Res S st st' ps ps' D' (print c) := by
  obtain ⟨rfl, hj⟩ := render_prim_inv hk hp h
  have hprim := primText_isPrimitive hp
  refine ⟨.str t, D, _, ?_, ?_, pcf_prim hk hp, ?_, hinv.withOut _, Nat.le_refl _⟩
  · cases hl : node.logical with
    | none => rw [hj, hl]; exact canon_str_prim _ _ hprim
    | some lt =>
      rw [hj, hl]
      have := strAttr_type_typeMembers t (some lt) []
      rw [List.append_nil] at this
      exact canon_obj_prim _ _ _ this hprim
  · cases hl : node.logical with
    | none => rw [hj, hl]; exact scan_str_prim _ _ _ hprim
    | some lt =>
      rw [hj, hl]
      have := strAttr_type_typeMembers t (some lt) []
      rw [List.append_nil] at this
      exact scan_obj_prim _ _ _ _ this hprim
  · simp only [print_str, String.append_assoc]

theorem guard_pass {st : RenderState} {ps : PcfState} {D : List Fullname}
    (hinv : Inv S st ps D) {key : Nat} (hlt : st.get key < st.nWritten) :
    cell ps key ≠ ps.written.length + 1 ∧ cell ps key < st.nWritten := by
  obtain ⟨h1, h2⟩ := hinv.guard key
  have hg := hinv.gen
  constructor
  · intro e
    have := h2 (by omega)
    omega
  · rcases Nat.lt_or_ge (cell ps key) st.nWritten with h | h
    · exact h
    · have := h2 (by omega)
      omega

theorem claimN_array (ihN : ClaimN S f) (lg : Option LogicalType) (items : Nat)
    {key : Nat} {ns : Option String} {st st' : RenderState} {j : Json} {ps : PcfState}
    {D : List Fullname} {pf : Nat} (hpf : f ≤ pf)
    (hk : S[key]? = some ⟨.array items, lg⟩)
    (h : render S (f + 1) key ns st = .ok (j, st')) (hinv : Inv S st ps D) :
    ∃ c D' ps', canon ns j = some c ∧ scan ns j D = some D' ∧
      pcf S (pf + 1) key ps = .ok ps' ∧ Res S st st' ps ps' D' (print c) := by
  obtain ⟨hlt, j1, st1, h1, rfl, rfl⟩ := render_array_inv hk h
  obtain ⟨hg, hprev⟩ := guard_pass hinv hlt
  have hinv1 := hinv.enter key _ hk rfl (ps.out ++ "{\"type\":\"array\",\"items\":")
  obtain ⟨c, D', ps2, hc, hs, hp2, hres⟩ := ihN items ns _ j1 st1 _ D pf hpf h1 hinv1
  have hty := strAttr_type_typeMembers "array" lg [("items", j1)]
  have hat : attr "items" (typeMembers "array" lg ++ [("items", j1)]) = some j1 := by
    rw [attr_unnamed_rest _ _ _ _ (by decide) (by decide) (by decide) (by decide)]
    simp only [attr, if_true]
  have hm : st.nWritten ≤ st1.nWritten := hres.mono
  refine ⟨.obj [("type", .str "array"), ("items", c)], D', _, ?_, ?_, pcf_array hk hg hp2, ?_, ?_, ?_⟩
  · rw [canon_obj_array _ _ hty, canonAttr_eq, hat]
    simp only [Option.bind_some, hc, Option.map_some]
  · rw [scan_obj_array _ _ _ hty, scanAttr_eq, hat]
    exact hs
  · show ps2.out ++ "}" = _
    rw [hres.out, print_array]
    simp only [unnamedEnter, String.append_assoc]
  · exact hres.inv.exit key _ hk rfl (by omega) _
  · exact hm

theorem claimN_map (ihN : ClaimN S f) (lg : Option LogicalType) (values : Nat)
    {key : Nat} {ns : Option String} {st st' : RenderState} {j : Json} {ps : PcfState}
    {D : List Fullname} {pf : Nat} (hpf : f ≤ pf)
    (hk : S[key]? = some ⟨.map values, lg⟩)
    (h : render S (f + 1) key ns st = .ok (j, st')) (hinv : Inv S st ps D) :
    ∃ c D' ps', canon ns j = some c ∧ scan ns j D = some D' ∧
      pcf S (pf + 1) key ps = .ok ps' ∧ Res S st st' ps ps' D' (print c) := by
  obtain ⟨hlt, j1, st1, h1, rfl, rfl⟩ := render_map_inv hk h
  obtain ⟨hg, hprev⟩ := guard_pass hinv hlt
  have hinv1 := hinv.enter key _ hk rfl (ps.out ++ "{\"type\":\"map\",\"values\":")
  obtain ⟨c, D', ps2, hc, hs, hp2, hres⟩ := ihN values ns _ j1 st1 _ D pf hpf h1 hinv1
  have hty := strAttr_type_typeMembers "map" lg [("values", j1)]
  have hat : attr "values" (typeMembers "map" lg ++ [("values", j1)]) = some j1 := by
    rw [attr_unnamed_rest _ _ _ _ (by decide) (by decide) (by decide) (by decide)]
    simp only [attr, if_true]
  have hm : st.nWritten ≤ st1.nWritten := hres.mono
  refine ⟨.obj [("type", .str "map"), ("values", c)], D', _, ?_, ?_, pcf_map hk hg hp2, ?_, ?_, ?_⟩
  · rw [canon_obj_map _ _ hty, canonAttr_eq, hat]
    simp only [Option.bind_some, hc, Option.map_some]
  · rw [scan_obj_map _ _ _ hty, scanAttr_eq, hat]
    exact hs
  · show ps2.out ++ "}" = _
    rw [hres.out, print_map]
    simp only [unnamedEnter, String.append_assoc]
  · exact hres.inv.exit key _ hk rfl (by omega) _
  · exact hm

theorem claimN_union (ihL : ClaimL S f) (lg : Option LogicalType) (vs : List Nat)
    {key : Nat} {ns : Option String} {st st' : RenderState} {j : Json} {ps : PcfState}
    {D : List Fullname} {pf : Nat} (hpf : f ≤ pf)
    (hk : S[key]? = some ⟨.union vs, lg⟩)
    (h : render S (f + 1) key ns st = .ok (j, st')) (hinv : Inv S st ps D) :
    ∃ c D' ps', canon ns j = some c ∧ scan ns j D = some D' ∧
      pcf S (pf + 1) key ps = .ok ps' ∧ Res S st st' ps ps' D' (print c) := by
  obtain ⟨hlt, js, st1, h1, rfl, rfl⟩ := render_union_inv hk h
  obtain ⟨hg, hprev⟩ := guard_pass hinv hlt
  have hinv1 := hinv.enter key _ hk rfl (ps.out ++ "[")
  obtain ⟨cs, D', ps2, hc, hs, hp2, hres⟩ := ihL vs ns _ js st1 _ D pf true hpf h1 hinv1
  have hm : st.nWritten ≤ st1.nWritten := hres.mono
  refine ⟨.arr cs, D', _, ?_, ?_, pcf_union hk hg hp2, ?_, ?_, ?_⟩
  · simp only [canon, hc, Option.map_some]
  · simp only [scan, hs]
  · show ps2.out ++ "]" = _
    rw [hres.out, print_union]
    simp only [unnamedEnter, if_true, String.append_assoc]
  · exact hres.inv.exit key _ hk rfl (by omega) _
  · exact hm

theorem claimN_again (hwf : NamesWF S) (node : RawNode) (nm : Name)
    {key : Nat} {ns : Option String} {st st' : RenderState} {j : Json} {ps : PcfState}
    {D : List Fullname} {pf : Nat}
    (hk : S[key]? = some node) (hn : nameOf node.type = some nm) (hw : 0 < st.get key)
    (h : render S (f + 1) key ns st = .ok (j, st')) (hinv : Inv S st ps D) :
    ∃ c D' ps', canon ns j = some c ∧ scan ns j D = some D' ∧
      pcf S (pf + 1) key ps = .ok ps' ∧ Res S st st' ps ps' D' (print c) := by
  obtain ⟨rfl, rfl⟩ := render_named_again_inv hk hn hw h
  have hnm := hwf key node nm hk hn
  have hmem : key ∈ ps.written := (hinv.written key node nm hk hn).mp hw
  have hnp := ref_not_primitive nm hnm ns
  have hfn := ref_fullname nm hnm ns
  refine ⟨.str nm.fq, D, _, ?_, ?_, pcf_named_again hk hn (by simpa using hmem), ?_,
    hinv.withOut _, Nat.le_refl _⟩
  · rw [canon_str_ref _ _ hnp, hfn, fq_text nm hnm]
  · apply scan_str_ref _ _ _ hnp
    rw [hfn]
    exact hinv.defs key node nm hk hn hmem
  · simp only [print_str, String.append_assoc]

theorem not_written {st : RenderState} {ps : PcfState} {D : List Fullname}
    (hinv : Inv S st ps D) {key : Nat} {node : RawNode} {nm : Name}
    (hk : S[key]? = some node) (hn : nameOf node.type = some nm) (hw : ¬ 0 < st.get key) :
    ps.written.contains key = false := by
  cases hc : ps.written.contains key with
  | false => rfl
  | true =>
    have : key ∈ ps.written := by simpa using hc
    exact absurd ((hinv.written key node nm hk hn).mpr this) hw

theorem mono_namedEnter (st : RenderState) (key : Nat) :
    st.nWritten ≤ (namedEnter st key).nWritten := by
  show st.nWritten ≤ st.nWritten + 1
  omega

theorem claimN_enum (hwf : NamesWF S) (lg : Option LogicalType) (nm : Name) (syms : List String)
    {key : Nat} {ns : Option String} {st st' : RenderState} {j : Json} {ps : PcfState}
    {D : List Fullname} {pf : Nat}
    (hk : S[key]? = some ⟨.enum nm syms, lg⟩) (hw : ¬ 0 < st.get key)
    (h : render S (f + 1) key ns st = .ok (j, st')) (hinv : Inv S st ps D) :
    ∃ c D' ps', canon ns j = some c ∧ scan ns j D = some D' ∧
      pcf S (pf + 1) key ps = .ok ps' ∧ Res S st st' ps ps' D' (print c) := by
  obtain ⟨rfl, rfl⟩ := render_enum_inv hk hw h
  have hnm := hwf key _ nm hk rfl
  have hty : strAttr "type" (typeMembers "enum" lg ++ nameMembers ns nm ++
      [("symbols", .arr (syms.map .str))]) = some "enum" := by
    rw [List.append_assoc]; exact strAttr_type_typeMembers _ _ _
  obtain ⟨nmstr, hname, hfull⟩ := def_fullname "enum" lg nm hnm ns
    [("symbols", .arr (syms.map .str))] (by simp [attr])
  have hsy : symbolsAttr (typeMembers "enum" lg ++ nameMembers ns nm ++
      [("symbols", .arr (syms.map .str))]) = some syms := by
    simp only [symbolsAttr]
    rw [attr_object_rest _ _ _ _ _ _ (by decide) (by decide) (by decide) (by decide) (by decide)
      (by decide)]
    simp only [attr, if_true, strings_map_str]
  refine ⟨_, _, _, canon_obj_enum _ _ _ _ hty hname hsy, scan_obj_enum _ _ _ _ hty hname,
    pcf_enum_first hk (not_written hinv hk rfl hw), ?_, ?_, mono_namedEnter _ _⟩
  · simp only [print_enum, hfull, fq_text nm hnm]
  · rw [hfull]
    exact hinv.define key _ nm hk rfl _

theorem claimN_fixed (hwf : NamesWF S) (lg : Option LogicalType) (nm : Name) (size : Nat)
    {key : Nat} {ns : Option String} {st st' : RenderState} {j : Json} {ps : PcfState}
    {D : List Fullname} {pf : Nat}
    (hk : S[key]? = some ⟨.fixed nm size, lg⟩) (hw : ¬ 0 < st.get key)
    (h : render S (f + 1) key ns st = .ok (j, st')) (hinv : Inv S st ps D) :
    ∃ c D' ps', canon ns j = some c ∧ scan ns j D = some D' ∧
      pcf S (pf + 1) key ps = .ok ps' ∧ Res S st st' ps ps' D' (print c) := by
  obtain ⟨rfl, rfl⟩ := render_fixed_inv hk hw h
  have hnm := hwf key _ nm hk rfl
  have hty : strAttr "type" (typeMembers "fixed" lg ++ nameMembers ns nm ++
      [("size", .nat size)]) = some "fixed" := by
    rw [List.append_assoc]; exact strAttr_type_typeMembers _ _ _
  obtain ⟨nmstr, hname, hfull⟩ := def_fullname "fixed" lg nm hnm ns
    [("size", .nat size)] (by simp [attr])
  have hsz : natAttr "size" (typeMembers "fixed" lg ++ nameMembers ns nm ++
      [("size", .nat size)]) = some size := by
    simp only [natAttr]
    rw [attr_object_rest _ _ _ _ _ _ (by decide) (by decide) (by decide) (by decide) (by decide)
      (by decide)]
    simp only [attr, if_true]
  refine ⟨_, _, _, canon_obj_fixed _ _ _ _ hty hname hsz, scan_obj_fixed _ _ _ _ hty hname,
    pcf_fixed_first hk (not_written hinv hk rfl hw), ?_, ?_, mono_namedEnter _ _⟩
  · simp only [print_fixed, hfull, fq_text nm hnm]
  · rw [hfull]
    exact hinv.define key _ nm hk rfl _

theorem claimN_record (hwf : NamesWF S) (ihF : ClaimF S f) (lg : Option LogicalType) (nm : Name)
    (fields : List (String × Nat))
    {key : Nat} {ns : Option String} {st st' : RenderState} {j : Json} {ps : PcfState}
    {D : List Fullname} {pf : Nat} (hpf : f ≤ pf)
    (hk : S[key]? = some ⟨.record nm fields, lg⟩) (hw : ¬ 0 < st.get key)
    (h : render S (f + 1) key ns st = .ok (j, st')) (hinv : Inv S st ps D) :
    ∃ c D' ps', canon ns j = some c ∧ scan ns j D = some D' ∧
      pcf S (pf + 1) key ps = .ok ps' ∧ Res S st st' ps ps' D' (print c) := by
  obtain ⟨js, h1, rfl⟩ := render_record_inv hk hw h
  have hnm := hwf key _ nm hk rfl
  have hty : strAttr "type" (typeMembers "record" lg ++ nameMembers ns nm ++
      [("fields", .arr js)]) = some "record" := by
    rw [List.append_assoc]; exact strAttr_type_typeMembers _ _ _
  obtain ⟨nmstr, hname, hfull⟩ := def_fullname "record" lg nm hnm ns
    [("fields", .arr js)] (by simp [attr])
  have hfa : attr "fields" (typeMembers "record" lg ++ nameMembers ns nm ++
      [("fields", .arr js)]) = some (.arr js) := by
    rw [attr_object_rest _ _ _ _ _ _ (by decide) (by decide) (by decide) (by decide) (by decide)
      (by decide)]
    simp only [attr, if_true]
  have hinv1 := hinv.define key _ nm hk rfl
    (ps.out ++ ("{\"name\":\"" ++ nm.fq ++ "\",\"type\":\"record\",\"fields\":["))
  obtain ⟨cs, D', ps2, hc, hs, hp2, hres⟩ :=
    ihF fields nm.ns _ js st' _ _ pf true hpf h1 hinv1
  refine ⟨.obj [("name", .str nm.fq), ("type", .str "record"), ("fields", .arr cs)], D', _,
    ?_, ?_, pcf_record_first hk (not_written hinv hk rfl hw) hp2, ?_, hres.inv.withOut _,
    Nat.le_trans (mono_namedEnter _ _) hres.mono⟩
  · rw [canon_obj_record _ _ _ hty hname, hfull, fieldsAttr_eq, hfa]
    simp only [hc, Option.map_some, fq_text nm hnm]
  · rw [scan_obj_record _ _ _ _ hty hname, hfull, scanFieldsAttr_eq, hfa]
    exact hs
  · show ps2.out ++ "]}" = _
    rw [hres.out, print_record]
    simp only [if_true, String.append_assoc]

end node

theorem claimN_succ {S : SchemaMut} {f : Nat} (hwf : NamesWF S) (ihN : ClaimN S f)
    (ihL : ClaimL S f) (ihF : ClaimF S f) : ClaimN S (f + 1) := by
  intro key ns st j st' ps D pf hpf h hinv
  obtain ⟨pf, rfl⟩ : ∃ pf', pf = pf' + 1 := ⟨pf - 1, by omega⟩
  have hpf' : f ≤ pf := by omega
  cases hk : S[key]? with
  | none => simp [render, hk] at h
  | some node =>
    obtain ⟨ty, lg⟩ := node
    cases ty with
    | null => exact claimN_prim _ "null" hk rfl h hinv
    | boolean => exact claimN_prim _ "boolean" hk rfl h hinv
    | int => exact claimN_prim _ "int" hk rfl h hinv
    | long => exact claimN_prim _ "long" hk rfl h hinv
    | float => exact claimN_prim _ "float" hk rfl h hinv
    | double => exact claimN_prim _ "double" hk rfl h hinv
    | bytes => exact claimN_prim _ "bytes" hk rfl h hinv
    | string => exact claimN_prim _ "string" hk rfl h hinv
    | array items => exact claimN_array ihN lg items hpf' hk h hinv
    | map values => exact claimN_map ihN lg values hpf' hk h hinv
    | union vs => exact claimN_union ihL lg vs hpf' hk h hinv
    | record nm fields =>
      by_cases hw : 0 < st.get key
      · exact claimN_again hwf _ nm hk rfl hw h hinv
      · exact claimN_record hwf ihF lg nm fields hpf' hk hw h hinv
    | enum nm syms =>
      by_cases hw : 0 < st.get key
      · exact claimN_again hwf _ nm hk rfl hw h hinv
      · exact claimN_enum hwf lg nm syms hk hw h hinv
    | fixed nm size =>
      by_cases hw : 0 < st.get key
      · exact claimN_again hwf _ nm hk rfl hw h hinv
      · exact claimN_fixed hwf lg nm size hk hw h hinv

/-- The three walks in lock step, for every fuel of the renderer. -/
theorem render_pcf (S : SchemaMut) (hwf : NamesWF S) :
    ∀ f, ClaimN S f ∧ ClaimL S f ∧ ClaimF S f := by
  intro f
  induction f with
  | zero =>
    refine ⟨?_, ?_, ?_⟩
    · intro key ns st j st' ps D pf hpf h; simp [render] at h
    · intro vs ns st js st' ps D pf first hpf h hinv
      cases vs with
      | nil => exact claimL_nil h hinv
      | cons k rest => simp [renderList] at h
    · intro fields ns st js st' ps D pf first hpf h hinv
      cases fields with
      | nil => exact claimF_nil h hinv
      | cons x rest => simp [renderFields] at h
  | succ f ih =>
    obtain ⟨ihN, ihL, ihF⟩ := ih
    exact ⟨claimN_succ hwf ihN ihL ihF, claimL_succ ihN ihL, claimF_succ ihN ihF⟩

/-- decidable form of `NamesWF` -/
def namesWFb (S : SchemaMut) : Bool :=
  S.toList.all fun node =>
    match nameOf node.type with
    | some nm => nameWFb nm
    | none => true

theorem namesWF_of_b (S : SchemaMut) (h : namesWFb S = true) : NamesWF S := by
  intro i node nm hi hn
  have hmem : node ∈ S.toList := by
    obtain ⟨hlt, e⟩ := Array.getElem?_eq_some_iff.mp hi
    rw [← e]
    exact Array.getElem_mem_toList hlt
  have := (List.all_eq_true.mp h) node hmem
  rw [hn] at this
  exact (nameWFb_iff nm).mp this

theorem namesWFb_of (S : SchemaMut) (h : NamesWF S) : namesWFb S = true := by
  apply List.all_eq_true.mpr
  intro node hmem
  obtain ⟨i, hlt, e⟩ := List.getElem_of_mem hmem
  cases hn : nameOf node.type with
  | none => rfl
  | some nm =>
    have hi : S[i]? = some node := by
      have hlt' : i < S.size := by simpa using hlt
      rw [Array.getElem?_eq_getElem hlt']
      simpa using e
    exact (nameWFb_iff nm).mpr (h i node nm hi hn)

/-- **Main statement** (with the well-formedness of names as a plain `∀` over the nodes). -/
theorem render_has_graph_pcf (S : SchemaMut) (fuel : Nat) (j : Json) (hwf : NamesWF S)
    (hrender : renderJson S fuel = .ok j) :
    noForwardRefs j = true ∧
    ∃ text, parsingCanonicalForm j = some text ∧
      ∀ fuel', fuel ≤ fuel' → canonicalForm S fuel' = .ok text := by
  unfold renderJson at hrender
  cases hr : render S fuel 0 none {} with
  | error e => rw [hr] at hrender; cases hrender
  | ok p =>
    obtain ⟨j', st'⟩ := p
    rw [hr] at hrender
    simp only [Except.ok.injEq] at hrender
    subst hrender
    have key := fun pf hpf =>
      (render_pcf S hwf fuel).1 0 none {} j' st' {} [] pf hpf hr (Inv.init S)
    obtain ⟨c, D', ps', hc, hs, -, -⟩ := key fuel (Nat.le_refl _)
    refine ⟨by simp only [noForwardRefs, hs, Option.isSome_some], print c,
      by simp only [parsingCanonicalForm, hc, Option.map_some], ?_⟩
    intro fuel' hf
    obtain ⟨c', D'', ps'', hc', -, hp, hres⟩ := key fuel' hf
    rw [hc] at hc'
    cases hc'
    simp only [canonicalForm, hp, hres.out]
    simp

end Avro.RenderPcf
