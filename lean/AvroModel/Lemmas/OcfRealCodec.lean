import AvroModel.Lemmas.OcfRealBridge
/-
The container reader over a whole valid file written with a compressing codec (abstract codec,
law L1 a hypothesis), slice back-end for the file, the datum deserializer running on the
DECOMPRESSED block (`plainReader plain 8192`, a reader back-end: `isSlice = false`, no `Take`,
default allocation cap) - with a datum hypothesis that carries a STATE INVARIANT.

`Theorems/C05.lean` does this induction (`readAll_posC`, `readAll_validC`) under `DatumOkR`, which
quantifies over every reader state and is not met by the real deserializer.  Here the hypothesis is
`DatumOkInv enc Q P proj tgt datum`: on the values satisfying `Q`, from the states satisfying `P`,
`datum` returns a result whose projection `proj` is `tgt v`, leaves the rest, and re-establishes
`P`.  The lemmas of `C05.lean` that do not look at the datum deserializer are reused as they are.
-/
namespace Avro.Theorems.Real
open Avro Avro.Impl Avro.Impl.Ocf Avro.Theorems

section CodecReal
variable {V α β : Type} (enc : V → Bytes) (c : Codec)

/-- The datum deserializer decodes what `enc` wrote for the values satisfying `Q`, from the states
    satisfying `P`, and re-establishes `P`; results compared through `proj` / `tgt`. -/
def DatumOkInv (Q : V → Prop) (P : RState → Prop) (proj : α → β) (tgt : V → β)
    (datum : RState → Except DeErr α × RState) : Prop :=
  ∀ (s : RState) (v : V) (y : Bytes), Q v → P s → s.rest = enc v ++ y →
    ∃ a s', datum s = (.ok a, s') ∧ proj a = tgt v ∧ s'.rest = y ∧ P s'

/-- a prefix-safe datum deserializer (`DatumCutOk` of `Lemmas/OcfStream.lean`) at full length -/
theorem datumOkInv_of_cut {Q : V → Prop} {P : RState → Prop} {proj : α → β} {tgt : V → β}
    {datum : RState → Except DeErr α × RState}
    (h : Stream.DatumCutOk enc Q P proj tgt datum) : DatumOkInv enc Q P proj tgt datum := by
  intro s v y hq hp hr
  obtain ⟨a, s', h1, h2, h3, h4⟩ := (h s v y (enc v ++ y).length hq hp
    (by rw [hr, List.take_of_length_le (Nat.le_refl _)])).1 (by simp)
  refine ⟨a, s', h1, h2, ?_, h4⟩
  rw [h3, List.take_of_length_le (by simp)]

/-- in a block: `PosC` of `C05.lean` plus the invariant on the block's back-end -/
structure PosR (P : RState → Prop) (sync : Bytes) (r : Reader) (vals : List V)
    (bs : List (List V)) : Prop where
  pos : PosC enc c sync r vals bs
  blk : P r.blk

variable {enc c}

/-- `enterBlock_validC` of `C05.lean`, keeping track of the back-end the block is given -/
theorem enterBlock_validR {d : Decomp} {sync : Bytes} {r : Reader} {b : List V}
    {bs : List (List V)} (hnn : d.isNull = false) (hns : d.isSnappy = false)
    (hL1 : ∀ x, d.decompress (c.compress x) = some x)
    (hb : BlockOkC enc c b) (hp : StartC enc c sync r (b :: bs)) :
    ∃ r2, enterBlock d r = (.ok (), r2) ∧ PosC enc c sync r2 b bs ∧
      r2.blk = plainReader (blockData enc b) 8192 ∧
      r2.after.length ≤ r.outer.rest.length := by
  obtain ⟨hst, hpe, hsy, hos, hol, hor⟩ := hp
  have hr1 : r.outer.rest = encodeVarI64 b.length ++
      (encodeVarI64 (c.compress (blockData enc b)).length ++
        (c.compress (blockData enc b) ++ (sync ++ fileBodyC enc c sync bs))) := by
    rw [hor]
    simp [fileBodyC, blockBytesC, List.append_assoc]
  refine ⟨_, C05_enterBlock_codec c d hnn hns b.length (blockData enc b) sync _ (hL1 _) hb.1 hb.2
    r hos hr1, ⟨rfl, hpe, hsy, rfl, rfl, rfl, hos, hol, ?_⟩, rfl, ?_⟩
  · simp only [List.length_append]; omega
  · simp only [hr1, List.length_append]; omega

variable {d : Decomp} {datum : RState → Except DeErr α × RState} {sync : Bytes}
  {Q : V → Prop} {P : RState → Prop} {proj : α → β} {tgt : V → β}

/-! The lemmas of `C05.lean` that do not look at the datum deserializer, restated for a datum
deserializer whose result type `α` differs from the type `V` of the values written (there both are
the same type variable). -/

theorem nextInner_posC_nil' (datum : RState → Except DeErr α × RState) {r : Reader}
    {bs : List (List V)} (hnn : d.isNull = false) (hsy : sync.length = 16)
    (hp : PosC enc c sync r [] bs) :
    ∃ rn, StartC enc c sync rn bs ∧ rn.outer.rest.length ≤ r.after.length ∧
      ∀ F, nextInner d datum (F + 1) r = nextInner d datum F rn := by
  obtain ⟨rn, hl, hs, hlen⟩ := leaveBlock_validC hnn hsy hp
  refine ⟨rn, hs, hlen, fun F => ?_⟩
  rw [nextInner_succ]
  simp only [hp.st, List.length_nil, hl]

theorem nextInner_startC_nil' (datum : RState → Except DeErr α × RState) {r : Reader}
    (hp : StartC enc c sync r ([] : List (List V))) (F : Nat) :
    nextInner d datum (F + 1) r = (.ok none, r) := by
  obtain ⟨st, pe, sy, outer, blk, after, lim⟩ := r
  have hst := hp.st
  simp only at hst
  subst hst
  have hos : outer.isSlice = true := hp.oslice
  have hor : outer.rest = [] := by have := hp.orest; simpa [fileBodyC] using this
  rw [nextInner_succ]
  simp only [fillBuf_slice hos, hor]
  simp

theorem next_posC_nil_nil' (datum : RState → Except DeErr α × RState) {r : Reader}
    (hnn : d.isNull = false) (hsy : sync.length = 16)
    (hp : PosC enc c sync r ([] : List V) []) :
    ∃ r1, next d datum r = (.ok none, r1) := by
  obtain ⟨rn, hs, _, hstep⟩ := nextInner_posC_nil' datum hnn hsy hp
  refine ⟨rn, ?_⟩
  rw [next_eq_post d datum r hp.peof, hstep (r.outer.rest.length + 3),
    nextInner_startC_nil' datum hs (r.outer.rest.length + 2)]
  rfl

theorem next_startC_nil' (datum : RState → Except DeErr α × RState) {r : Reader}
    (hp : StartC enc c sync r ([] : List (List V))) : next d datum r = (.ok none, r) := by
  rw [next_eq_post d datum r hp.peof, nextInner_startC_nil' datum hp (r.outer.rest.length + 3)]
  rfl

theorem nextInner_posR_cons {r : Reader} {v : V} {vs : List V} {bs : List (List V)}
    (hd : DatumOkInv enc Q P proj tgt datum) (hPs : ∀ s, P s → s.isSlice = false) (hq : Q v)
    (hp : PosR enc c P sync r (v :: vs) bs) (F : Nat) :
    ∃ a r1, nextInner d datum (F + 1) r = (.ok (some a), r1) ∧ proj a = tgt v ∧
      PosR enc c P sync r1 vs bs := by
  obtain ⟨⟨h1, h2, h3, h4, h5, h6, h7, h8, h9⟩, hP⟩ := hp
  obtain ⟨a, s', hs', hav, hr', hP'⟩ := hd r.blk v (blockData enc vs) hq hP
    (by rw [h5]; simp [blockData])
  have hsl' : s'.isSlice = false := hPs s' hP'
  rw [nextInner_succ]
  simp only [h1, List.length_cons, hs']
  exact ⟨a, _, rfl, hav, ⟨rfl, h2, h3, hsl', hr', h6, h7, h8, h9⟩, hP'⟩

theorem next_posR_cons {r : Reader} {v : V} {vs : List V} {bs : List (List V)}
    (hd : DatumOkInv enc Q P proj tgt datum) (hPs : ∀ s, P s → s.isSlice = false) (hq : Q v)
    (hp : PosR enc c P sync r (v :: vs) bs) :
    ∃ a r1, next d datum r = (.ok (some a), r1) ∧ proj a = tgt v ∧ PosR enc c P sync r1 vs bs := by
  obtain ⟨a, r1, h1, hav, hp1⟩ :=
    nextInner_posR_cons (d := d) hd hPs hq hp (r.outer.rest.length + 3)
  exact ⟨a, r1, by rw [next_eq_post d datum r hp.pos.peof, h1]; rfl, hav, hp1⟩

/-- `nextInner_startC_cons` of `C05.lean`, keeping track of the block's back-end -/
theorem nextInner_startR_cons (datum : RState → Except DeErr α × RState) {r : Reader}
    {b : List V} {bs : List (List V)} (hnn : d.isNull = false) (hns : d.isSnappy = false)
    (hL1 : ∀ x, d.decompress (c.compress x) = some x)
    (hb : BlockOkC enc c b) (hp : StartC enc c sync r (b :: bs)) :
    ∃ r2, PosC enc c sync r2 b bs ∧ r2.blk = plainReader (blockData enc b) 8192 ∧
      r2.after.length ≤ r.outer.rest.length ∧
      ∀ F, nextInner d datum (F + 1) r = nextInner d datum F r2 := by
  obtain ⟨r2, he, hp2, hblk, hlen⟩ := enterBlock_validR hnn hns hL1 hb hp
  refine ⟨r2, hp2, hblk, hlen, fun F => ?_⟩
  obtain ⟨st, pe, sy, outer, blk, after, lim⟩ := r
  have hst := hp.st
  simp only at hst
  subst hst
  have hos : outer.isSlice = true := hp.oslice
  have hne : outer.rest.isEmpty = false := by
    have hor : outer.rest = _ := hp.orest
    rw [hor]
    have := encodeVarI64_ne_nil (b.length : Int)
    cases hx : encodeVarI64 (b.length : Int) with
    | nil => exact absurd hx this
    | cons x xs => simp [fileBodyC, blockBytesC, hx]
  rw [nextInner_succ]
  simp only [fillBuf_slice hos, hne, Bool.false_eq_true, if_false]
  rw [he]

theorem next_posR_nil_cons (datum : RState → Except DeErr α × RState) {r : Reader}
    {b : List V} {bs : List (List V)} (hnn : d.isNull = false) (hns : d.isSnappy = false)
    (hL1 : ∀ x, d.decompress (c.compress x) = some x) (hsy : sync.length = 16)
    (hb : BlockOkC enc c b) (hP0 : P (plainReader (blockData enc b) 8192))
    (hp : PosR enc c P sync r [] (b :: bs)) :
    ∃ r2, PosR enc c P sync r2 b bs ∧ next d datum r = next d datum r2 := by
  obtain ⟨rn, hs, hl1, hstep1⟩ := nextInner_posC_nil' datum hnn hsy hp.pos
  obtain ⟨r2, hp2, hblk, hl2, hstep2⟩ := nextInner_startR_cons datum hnn hns hL1 hb hs
  refine ⟨r2, ⟨hp2, by rw [hblk]; exact hP0⟩, ?_⟩
  rw [next_eq_post d datum r hp.pos.peof, next_eq_post d datum r2 hp2.peof,
    hstep1 (r.outer.rest.length + 3), hstep2 (r.outer.rest.length + 2)]
  have hm := mu_posC hp2
  have h1 := hp.pos.inv
  have h2 := hp2.inv
  rw [nextInner_fuel d datum (r.outer.rest.length + 2) (r2.outer.rest.length + 4) r2
    (by omega) (by omega)]

theorem next_startR_cons (datum : RState → Except DeErr α × RState) {r : Reader}
    {b : List V} {bs : List (List V)} (hnn : d.isNull = false) (hns : d.isSnappy = false)
    (hL1 : ∀ x, d.decompress (c.compress x) = some x)
    (hb : BlockOkC enc c b) (hP0 : P (plainReader (blockData enc b) 8192))
    (hp : StartC enc c sync r (b :: bs)) :
    ∃ r2, PosR enc c P sync r2 b bs ∧ next d datum r = next d datum r2 := by
  obtain ⟨r2, hp2, hblk, hl2, hstep2⟩ := nextInner_startR_cons datum hnn hns hL1 hb hp
  refine ⟨r2, ⟨hp2, by rw [hblk]; exact hP0⟩, ?_⟩
  rw [next_eq_post d datum r hp.peof, next_eq_post d datum r2 hp2.peof,
    hstep2 (r.outer.rest.length + 3)]
  have hm := mu_posC hp2
  have h2 := hp2.inv
  rw [nextInner_fuel d datum (r.outer.rest.length + 3) (r2.outer.rest.length + 4) r2
    (by omega) (by omega)]

/-- reading a valid sequence of compressed blocks from inside a block yields the values (up to
    `proj` / `tgt`), then end of stream -/
theorem readAll_posR (hnn : d.isNull = false) (hns : d.isSnappy = false)
    (hL1 : ∀ x, d.decompress (c.compress x) = some x) (hsy : sync.length = 16)
    (hd : DatumOkInv enc Q P proj tgt datum) (hPs : ∀ s, P s → s.isSlice = false) :
    ∀ (bs : List (List V)), (∀ b ∈ bs, BlockOkC enc c b) →
      (∀ b ∈ bs, P (plainReader (blockData enc b) 8192)) → ∀ (vals : List V) (r : Reader),
      (∀ v ∈ vals ++ bs.flatten, Q v) → PosR enc c P sync r vals bs →
      (readAll d datum (vals.length + bs.flatten.length + 1) r).1.map proj
          = (vals ++ bs.flatten).map tgt ∧
      (readAll d datum (vals.length + bs.flatten.length + 1) r).2 = .eos := by
  intro bs
  induction bs with
  | nil =>
    intro _ _ vals
    induction vals with
    | nil =>
      intro r hq hp
      obtain ⟨r1, h1⟩ := next_posC_nil_nil' datum hnn hsy hp.pos
      simp [readAll, h1]
    | cons v vs ihv =>
      intro r hq hp
      obtain ⟨a, r1, h1, hav, hp1⟩ := next_posR_cons (d := d) hd hPs (hq v (by simp)) hp
      have := ihv r1 (fun w hw => hq w (by
        simp only [List.cons_append, List.mem_cons]; exact Or.inr hw)) hp1
      simp only [List.flatten_nil, List.length_nil, Nat.add_zero, List.append_nil] at this ⊢
      rw [List.length_cons, readAll_succ_some h1]
      simp only [List.map_cons, hav, this.1, this.2, and_self]
  | cons b bs ihb =>
    intro hbs hP0 vals
    have hb : BlockOkC enc c b := hbs b (by simp)
    have hbs' : ∀ b' ∈ bs, BlockOkC enc c b' := fun b' hb' => hbs b' (by simp [hb'])
    have hP0' : ∀ b' ∈ bs, P (plainReader (blockData enc b') 8192) :=
      fun b' hb' => hP0 b' (by simp [hb'])
    induction vals with
    | nil =>
      intro r hq hp
      obtain ⟨r2, hp2, heq⟩ :=
        next_posR_nil_cons datum hnn hns hL1 hsy hb (hP0 b (by simp)) hp
      have := ihb hbs' hP0' b r2 (by simpa using hq) hp2
      rw [readAll_congr heq]
      simpa [Nat.add_assoc] using this
    | cons v vs ihv =>
      intro r hq hp
      obtain ⟨a, r1, h1, hav, hp1⟩ := next_posR_cons (d := d) hd hPs (hq v (by simp)) hp
      have := ihv r1 (fun w hw => hq w (by
        simp only [List.cons_append, List.mem_cons]; exact Or.inr hw)) hp1
      have e : (v :: vs).length + (b :: bs).flatten.length + 1
          = (vs.length + (b :: bs).flatten.length + 1) + 1 := by simp; omega
      rw [e, readAll_succ_some h1]
      simp only [List.cons_append, List.map_cons, hav, this.1, this.2, and_self]

/-- **Reading a whole valid file, abstract codec, invariant-carrying datum hypothesis** (slice
    back-end for the file; law L1 a hypothesis). -/
theorem readAll_validR (hnn : d.isNull = false) (hns : d.isSnappy = false)
    (hL1 : ∀ x, d.decompress (c.compress x) = some x) (hsy : sync.length = 16)
    (hd : DatumOkInv enc Q P proj tgt datum) (hPs : ∀ s, P s → s.isSlice = false)
    (bs : List (List V)) (hbs : ∀ b ∈ bs, BlockOkC enc c b)
    (hP0 : ∀ b ∈ bs, P (plainReader (blockData enc b) 8192))
    (hq : ∀ v ∈ bs.flatten, Q v) (r : Reader) (hp : StartC enc c sync r bs) :
    (readAll d datum (bs.flatten.length + 1) r).1.map proj = bs.flatten.map tgt ∧
    (readAll d datum (bs.flatten.length + 1) r).2 = .eos := by
  cases bs with
  | nil => simp [readAll, next_startC_nil' datum hp]
  | cons b bs =>
    have hb : BlockOkC enc c b := hbs b (by simp)
    have hbs' : ∀ b' ∈ bs, BlockOkC enc c b' := fun b' hb' => hbs b' (by simp [hb'])
    have hP0' : ∀ b' ∈ bs, P (plainReader (blockData enc b') 8192) :=
      fun b' hb' => hP0 b' (by simp [hb'])
    obtain ⟨r2, hp2, heq⟩ := next_startR_cons datum hnn hns hL1 hb (hP0 b (by simp)) hp
    rw [readAll_congr heq]
    have := readAll_posR hnn hns hL1 hsy hd hPs bs hbs' hP0' b r2 (by simpa using hq) hp2
    simpa [Nat.add_assoc] using this

end CodecReal

end Avro.Theorems.Real
