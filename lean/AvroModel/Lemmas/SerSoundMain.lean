import AvroModel.Lemmas.SerSound
import AvroModel.Lemmas.SerDecimal
/-
Framework for the composite C02 theorem: decodability predicates, hypotheses on schema, value
and external parameters, and the soundness of every leaf serializer call.
-/
namespace Avro
open Avro.Spec Avro.Impl

/-! ### Decodability: a byte string that the specification decoder reads back, followed by anything,
with any sufficiently large fuel -/

def DecP {α : Type} (p : Nat → Bytes → Option (α × Bytes)) (bytes : Bytes) (a : α) : Prop :=
  ∃ N, ∀ fuel, N ≤ fuel → ∀ rest, p fuel (bytes ++ rest) = some (a, rest)

abbrev Dec (S : Schema) (n : Node) : Bytes → Value → Prop := DecP (fun f => decode S f n)
abbrev DecBlocks (S : Schema) (item : Node) : Bytes → List Value → Prop :=
  DecP (fun f => decodeBlocks S f item)
abbrev DecItems (S : Schema) (item : Node) (c : Nat) : Bytes → List Value → Prop :=
  DecP (fun f => decodeItems S f item c)
abbrev DecMapBlocks (S : Schema) (item : Node) : Bytes → List (String × Value) → Prop :=
  DecP (fun f => decodeMapBlocks S f item)
abbrev DecMapItems (S : Schema) (item : Node) (c : Nat) : Bytes → List (String × Value) → Prop :=
  DecP (fun f => decodeMapItems S f item c)
abbrev DecFields (S : Schema) (ks : List Nat) : Bytes → List Value → Prop :=
  DecP (fun f => decodeFields S f ks)

theorem DecP.of_const {α : Type} {p : Bytes → Option (α × Bytes)} {bytes : Bytes} {a : α}
    (h : ∀ rest, p (bytes ++ rest) = some (a, rest)) : DecP (fun _ => p) bytes a :=
  ⟨0, fun _ _ rest => h rest⟩

theorem Dec.of_encode {S : Schema} {n : Node} {v : Value} {bytes : Bytes}
    (h : encode S n v = some bytes) : Dec S n bytes v :=
  ⟨size v, fun fuel hf rest => decode_encode S n v bytes rest h fuel hf⟩

/-- a decoder step that needs one unit of fuel and no recursion -/
theorem Dec.of_step {S : Schema} {n : Node} {v : Value} {bytes : Bytes}
    (h : ∀ fuel rest, decode S (fuel + 1) n (bytes ++ rest) = some (v, rest)) : Dec S n bytes v :=
  ⟨1, fun fuel hf rest => by
    obtain ⟨g, rfl⟩ : ∃ g, fuel = g + 1 := ⟨fuel - 1, by omega⟩
    exact h g rest⟩

theorem Dec.union {S : Schema} {vs : List Nat} {d k : Nat} {n : Node} {bytes : Bytes} {y : Value}
    (hk : vs[d]? = some k) (hn : S[k]? = some n) (hd : d < 2 ^ 63) (h : Dec S n bytes y) :
    Dec S (.union vs) (encodeLong d ++ bytes) (.union d y) := by
  obtain ⟨N, hN⟩ := h
  refine ⟨N + 1, fun fuel hf rest => ?_⟩
  obtain ⟨g, rfl⟩ : ∃ g, fuel = g + 1 := ⟨fuel - 1, by omega⟩
  simp only [decode, List.append_assoc, decodeLen_encodeLong d hd, hk, nodeOf, hn,
    hN g (by omega) rest, Option.map_some]

theorem DecItems.nil {S : Schema} {item : Node} : DecItems S item 0 [] [] :=
  ⟨0, fun fuel _ rest => by simp [decodeItems]⟩

theorem DecItems.nil_inv {S : Schema} {item : Node} {b : Bytes} {vs : List Value}
    (h : DecItems S item 0 b vs) : b = [] ∧ vs = [] := by
  obtain ⟨N, hN⟩ := h
  have := hN N (Nat.le_refl _) []
  simp only [decodeItems, List.append_nil, Option.some.injEq, Prod.mk.injEq] at this
  exact ⟨this.2, this.1.symm⟩

theorem DecItems.cons {S : Schema} {item : Node} {c : Nat} {b bs : Bytes} {v : Value}
    {vs : List Value} (h1 : Dec S item b v) (h2 : DecItems S item c bs vs) :
    DecItems S item (c + 1) (b ++ bs) (v :: vs) := by
  obtain ⟨N1, hN1⟩ := h1
  obtain ⟨N2, hN2⟩ := h2
  refine ⟨max N1 N2 + 1, fun fuel hf rest => ?_⟩
  obtain ⟨g, rfl⟩ : ∃ g, fuel = g + 1 := ⟨fuel - 1, by omega⟩
  simp only [decodeItems, List.append_assoc, hN1 g (by omega) (bs ++ rest), hN2 g (by omega) rest]

theorem DecBlocks.end_ {S : Schema} {item : Node} : DecBlocks S item [0] [] :=
  ⟨1, fun fuel hf rest => by
    obtain ⟨g, rfl⟩ : ∃ g, fuel = g + 1 := ⟨fuel - 1, by omega⟩
    simp [decodeBlocks, decodeBlockHeader_zero]⟩

theorem DecBlocks.block {S : Schema} {item : Node} {c : Nat} {b1 b2 : Bytes} {vs1 vs2 : List Value}
    (hc : 0 < c) (hc' : c < 2 ^ 63) (h1 : DecItems S item c b1 vs1) (h2 : DecBlocks S item b2 vs2) :
    DecBlocks S item (encodeLong c ++ b1 ++ b2) (vs1 ++ vs2) := by
  obtain ⟨N1, hN1⟩ := h1
  obtain ⟨N2, hN2⟩ := h2
  refine ⟨max N1 N2 + 1, fun fuel hf rest => ?_⟩
  obtain ⟨g, rfl⟩ : ∃ g, fuel = g + 1 := ⟨fuel - 1, by omega⟩
  obtain ⟨c', rfl⟩ : ∃ c', c = c' + 1 := ⟨c - 1, by omega⟩
  show decodeBlocks S (g + 1) item _ = _
  rw [decodeBlocks, List.append_assoc, List.append_assoc, decodeBlockHeader_encodeLong _ hc']
  simp only [hN1 g (by omega) (b2 ++ rest), hN2 g (by omega) rest]

theorem Dec.array {S : Schema} {k : Nat} {item : Node} {b : Bytes} {vs : List Value}
    (hk : S[k]? = some item) (h : DecBlocks S item b vs) : Dec S (.array k) b (.array vs) := by
  obtain ⟨N, hN⟩ := h
  refine ⟨N + 1, fun fuel hf rest => ?_⟩
  obtain ⟨g, rfl⟩ : ∃ g, fuel = g + 1 := ⟨fuel - 1, by omega⟩
  simp only [decode, nodeOf, hk, hN g (by omega) rest, Option.map_some]

/-! ### Hypotheses of the composite theorem -/

/-- The pool holds only emptied buffers (what `popBuffer`/`popSuperBuffer` assert). -/
def PoolClean (p : Pool) : Prop :=
  (∀ b ∈ p.buffers, b.data = []) ∧ (∀ sb ∈ p.superBuffers, sb.slots = [])

/-- The writer is a `Vec` and the pool is clean. -/
def Good (s : SerState) : Prop := s.budget = none ∧ PoolClean s.pool

def denExtOf (ext : Ext) : DenExt :=
  { asF32 := ext.asF32, decFromF64 := ext.decFromF64, decParse := ext.decParse,
    decRescale := ext.decRescale }

/-- What is assumed of `rust_decimal`: a mantissa fits `i128` (it has 96 bits) and a scale fits
    a `long` (it is at most 28).  `rescale` is CONDITIONAL on its argument fitting `i128`: the
    serializer only rescales a value that `decParse` / `decFromF64` returned, and a parameter
    table that answers `d` itself outside its finite domain (the test driver's
    `ExtTable.toExt`) satisfies this form (`Driver.toExt_ExtOK`), not the unconditional one. -/
structure ExtOK (ext : Ext) : Prop where
  rescale : ∀ d scale, inI128 d.1 = true → inI128 (ext.decRescale d scale).1 = true
  fromF64 : ∀ b d, ext.decFromF64 b = some d → inI128 d.1 = true ∧ d.2 < 2 ^ 63
  parse : ∀ s d, ext.decParse s = some d → inI128 d.1 = true ∧ d.2 < 2 ^ 63

def nodeNamesDistinct : Node → Bool
  | .record _ fs => decide (fs.map (·.1)).Nodup
  | .enum _ syms => decide syms.Nodup
  | _ => true

/-- records have distinct field names, enums distinct symbols -/
def schemaNamesDistinct (S : Schema) : Bool := S.all nodeNamesDistinct

/-- every count the encoder writes as a `long` fits a `long` -/
def nodeSmall : Node → Bool
  | .union vs => decide (vs.length < 2 ^ 63)
  | .enum _ syms => decide (syms.length < 2 ^ 63)
  | _ => true

def schemaSmall (S : Schema) : Bool := S.all nodeSmall

/-- Avro: "Unions may not immediately contain other unions." -/
def nodeNoNestedUnion (S : Schema) : Node → Bool
  | .union vs => vs.all fun k => match S[k]? with
    | some (.union _) => false
    | _ => true
  | _ => true

def schemaNoNestedUnion (S : Schema) : Bool := S.all (nodeNoNestedUnion S)

structure NodeOK (S : Schema) (n : Node) : Prop where
  children : ∀ k ∈ n.children, k < S.size
  distinct : nodeNamesDistinct n = true
  small : nodeSmall n = true
  nonest : nodeNoNestedUnion S n = true

def SchemaOK (S : Schema) : Prop := ∀ (k : Nat) (n : Node), S[k]? = some n → NodeOK S n

theorem Array.all_getElem? {α : Type} {p : α → Bool} {a : Array α} (h : a.all p = true) {k : Nat}
    {x : α} (hx : a[k]? = some x) : p x = true := by
  rw [Array.all_eq_true'] at h
  exact h x (Array.mem_of_getElem? hx)

theorem SchemaOK.of_checks {S : Schema} (h1 : S.keysInBounds = true)
    (h2 : schemaNamesDistinct S = true) (h3 : schemaSmall S = true)
    (h4 : schemaNoNestedUnion S = true) : SchemaOK S := by
  intro k n hk
  refine ⟨?_, Array.all_getElem? h2 hk, Array.all_getElem? h3 hk, Array.all_getElem? h4 hk⟩
  have := Array.all_getElem? h1 hk
  simpa using this

/-- Top-level node: checked like the nodes of `S`. -/
def nodeOKb (S : Schema) (n : Node) : Bool :=
  n.children.all (· < S.size) && nodeNamesDistinct n && nodeSmall n && nodeNoNestedUnion S n

theorem NodeOK.of_check {S : Schema} {n : Node} (h : nodeOKb S n = true) :
    NodeOK S n := by
  simp only [nodeOKb, Bool.and_eq_true] at h
  obtain ⟨⟨⟨h1, h2⟩, h3⟩, h4⟩ := h
  exact ⟨by simpa using h1, h2, h3, h4⟩

mutual
/-- A presentation a Rust program can produce: integers lie in the range of their type, every
    length is below `2 ^ 63` (`isize::MAX`). -/
def svOK : SV → Bool
  | .bool _ | .f32 _ | .f64 _ | .none | .unit | .char _ => true
  | .int t v => t.inRange v
  | .str s => decide ((utf8 s).length < 2 ^ 63)
  | .bytes b => decide (b.length < 2 ^ 63)
  | .some v => svOK v
  | .unitStruct name => decide ((utf8 name).length < 2 ^ 63)
  | .unitVariant _ _ variant => decide ((utf8 variant).length < 2 ^ 63)
  | .newtypeStruct _ v => svOK v
  | .newtypeVariant _ _ _ v => svOK v
  | .seq _ elems => decide (elems.length < 2 ^ 63) && svOKList elems
  | .tuple elems => decide (elems.length < 2 ^ 63) && svOKList elems
  | .tupleStruct _ elems => decide (elems.length < 2 ^ 63) && svOKList elems
  | .tupleVariant _ _ _ elems => decide (elems.length < 2 ^ 63) && svOKList elems
  | .map _ entries => decide (entries.length < 2 ^ 63) && svOKEntries entries
  | .struct _ fields => decide (fields.length < 2 ^ 63) && svOKFields fields
  | .structVariant _ _ _ fields => decide (fields.length < 2 ^ 63) && svOKFields fields
def svOKList : List SV → Bool
  | [] => true
  | e :: es => svOK e && svOKList es
def svOKFields : List (String × SV) → Bool
  | [] => true
  | (name, v) :: rest => decide ((utf8 name).length < 2 ^ 63) && svOK v && svOKFields rest
def svOKEntries : List (SV × SV) → Bool
  | [] => true
  | (k, v) :: rest => svOK k && svOK v && svOKEntries rest
end

/-! ### Leaf calls -/

def Impl.Node.isUnion : Node → Bool
  | .union _ => true
  | _ => false

theorem viaUnion_nonunion {α : Type} (S : Schema) (n : Node) (key : LookupKey) (f : Node → SerM α)
    (h : n.isUnion = false) : viaUnion S n key f = f n := by
  cases n <;> first | rfl | simp [Node.isUnion] at h

theorem viaName_nonunion {α : Type} (S : Schema) (n : Node) (name : String) (f : Node → SerM α)
    (h : n.isUnion = false) : viaName S n name f = f n := by
  cases n <;> first | rfl | simp [Node.isUnion] at h

/-- `denotes` on a presentation that is not a container -/
def denotesAtLeaf (ext : DenExt) (S : Schema) (n : Node) (sv : SV) (v : Value) : Bool :=
  match n with
  | .union _ =>
    (match unionBranch S n v with
      | some (_, branch, y) => denotesLeaf ext branch sv y
      | none => false)
  | _ => denotesLeaf ext n sv v

theorem denotesAtLeaf_nonunion (ext : DenExt) (S : Schema) (n : Node) (sv : SV) (v : Value)
    (h : n.isUnion = false) : denotesAtLeaf ext S n sv v = denotesLeaf ext n sv v := by
  cases n <;> first | rfl | simp [Node.isUnion] at h

/-- result of a leaf call at a non-union node -/
def LeafRes (ext : DenExt) (S : Schema) (n : Node) (sv : SV) (m : SerM Unit) (s : SerState) : Prop :=
  (m s).1 = .ok () →
    ∃ v bytes, m s = (.ok (), { s with out := s.out ++ bytes }) ∧ Dec S n bytes v ∧
      denotesLeaf ext n sv v = true

theorem SchemaOK.child {S : Schema} {n : Node} (hn : NodeOK S n) {k : Nat}
    (hk : k ∈ n.children) : ∃ c, S[k]? = some c := by
  have := hn.children k hk
  exact ⟨S[k], by simp [this]⟩

theorem union_branch_of_lookup {S : Schema} {vs : List Nat} {key : LookupKey} {d k : Nat}
    {n : Node} (hl : unnamedLookup key (branchNodes S vs) = some d) (hk : vs[d]? = some k)
    (hn : S[k]? = some n) : n.isUnion = false ∧ n.priorityFor key ≠ none := by
  obtain ⟨n', p, hn', hp⟩ := unnamedLookup_some hl
  rw [branchNodes_getElem?, hk] at hn'
  simp [hn] at hn'
  subst hn'
  constructor
  · cases n <;> first | rfl | simp [Node.priorityFor, Node.registrations] at hp
  · simp [hp]

theorem viaUnion_leaf {ext : DenExt} {S : Schema} (hS : SchemaOK S) {node : Node}
    (hn : NodeOK S node) (key : LookupKey) (f : Node → SerM Unit) (sv : SV) (s : SerState)
    (h : s.budget = none)
    (hf : ∀ n s, s.budget = none → n.isUnion = false → NodeOK S n → LeafRes ext S n sv (f n) s)
    (hok : (viaUnion S node key f s).1 = .ok ()) :
    ∃ v bytes, viaUnion S node key f s = (.ok (), { s with out := s.out ++ bytes }) ∧
      Dec S node bytes v ∧ denotesAtLeaf ext S node sv v = true := by
  by_cases hu : node.isUnion = false
  · rw [viaUnion_nonunion S node key f hu] at hok ⊢
    simp only [denotesAtLeaf_nonunion _ _ _ _ _ hu]
    exact hf node s h hu hn hok
  · obtain ⟨vs, rfl⟩ : ∃ vs, node = .union vs := by
      cases node <;> simp [Node.isUnion] at hu; exact ⟨_, rfl⟩
    rcases viaUnion_union S vs key f s h with ⟨_, he⟩ | ⟨d, k, hl, hd, hk, hcase⟩
    · rw [he] at hok; simp at hok
    · rcases hcase with ⟨_, he⟩ | ⟨n, hnk, he⟩
      · rw [he] at hok; simp at hok
      · rw [he] at hok ⊢
        have hsmall : vs.length < 2 ^ 63 := by simpa [nodeSmall] using hn.small
        have hd63 : d < 2 ^ 63 := by omega
        have hnu := (union_branch_of_lookup hl hk hnk).1
        obtain ⟨v, bytes, hrun, hdec, hden⟩ :=
          hf n { s with out := s.out ++ encodeVarI64 d } h hnu (hS k n hnk) hok
        refine ⟨.union d v, encodeLong d ++ bytes, ?_, Dec.union hk hnk hd63 hdec, ?_⟩
        · rw [hrun, encodeVarI64_eq_spec _ (inI64_of_lt hd63)]; simp
        · simp [denotesAtLeaf, unionBranch, hk, hnk, hden]


/-- a `rust_decimal` value written to a decimal node -/
theorem serDecimal_regular_sound {ext : Ext} (hext : ExtOK ext) (S : Schema) (scale prec : Nat)
    (repr : DecimalRepr) (d : Int × Nat) (s : SerState) (h : s.budget = none)
    (hd128 : inI128 d.1 = true)
    (hok : (serDecimal ext (.regular scale repr) d s).1 = .ok ()) :
    ∃ u bytes, serDecimal ext (.regular scale repr) d s = (.ok (), { s with out := s.out ++ bytes }) ∧
      Dec S (.decimal scale prec repr) bytes (.decimal u) ∧
      decimalOf (denExtOf ext) scale d = some u := by
  cases repr with
  | bytes =>
    obtain ⟨hsc, m, hl, he, hv⟩ := serDecimal_regular_bytes ext scale d s h (hext.rescale d scale hd128) hok
    refine ⟨(ext.decRescale d scale).1, _, he, Dec.of_step fun fuel rest => ?_, by simp [decimalOf, denExtOf, hsc]⟩
    simp [decode, decodeBytes_lenPrefixed m (by omega) rest, hv]
  | fixed nm size =>
    obtain ⟨hsc, m, hl, he, hv⟩ := serDecimal_regular_fixed ext scale nm size d s h (hext.rescale d scale hd128) hok
    refine ⟨(ext.decRescale d scale).1, _, he, Dec.of_step fun fuel rest => ?_, by simp [decimalOf, denExtOf, hsc]⟩
    simp [decode, takeN_append_of_length m rest hl, hv]

theorem serDecimal_big_sound {ext : Ext} (S : Schema) (d : Int × Nat) (s : SerState)
    (h : s.budget = none) (hr : inI128 d.1 = true) (hsc : d.2 < 2 ^ 63) :
    ∃ bytes, serDecimal ext .big d s = (.ok (), { s with out := s.out ++ bytes }) ∧
      Dec S .bigDecimal bytes (.bigDecimal d.1 d.2) := by
  obtain ⟨m, hl, he, hv⟩ := serDecimal_big ext d s h hr hsc
  refine ⟨_, he, Dec.of_step fun fuel rest => ?_⟩
  have hl2 : (lenPrefixed m ++ encodeLong d.2).length < 2 ^ 63 := by
    have h1 : (encodeLong (d.2 : Int)).length ≤ 10 := by
      rw [← encodeVarI64_eq_spec _ (inI64_of_lt hsc)]
      exact encodeVarI64_length_le _ (inI64_of_lt hsc)
    have h2 : (encodeLong (m.length : Int)).length ≤ 10 := by
      rw [← encodeVarI64_eq_spec _ (inI64_of_lt (by omega))]
      exact encodeVarI64_length_le _ (inI64_of_lt (by omega))
    simp only [lenPrefixed, List.length_append]; omega
  have e1 := decodeBytes_lenPrefixed m (by omega) (encodeLong d.2)
  have e2 := decodeLen_encodeLong d.2 hsc []
  rw [List.append_nil] at e2
  simp [decode, decodeBytes_lenPrefixed _ hl2 rest, e1, e2, hv]


theorem utf8_singleton_length (c : Char) : (utf8 (String.singleton c)).length < 2 ^ 63 := by
  have h0 : ∀ s : String, (utf8 s).length = s.utf8ByteSize := fun s => by simp [utf8]
  have h1 := h0 (String.singleton c)
  have h2 : (String.singleton c).utf8ByteSize ≤ 4 := by
    have := Char.utf8Size_le_four c
    simp
    omega
  omega

theorem priorityFor_null {n : Node} {p : Nat} (h : n.priorityFor .null = some p) : n = .null := by
  cases n <;> simp [Node.priorityFor, Node.registrations] at h ⊢
  all_goals (try (cases ‹DecimalRepr› <;> simp at h))

section
variable {ext : Ext} {S : Schema} (hS : SchemaOK S) {node : Node}
  (hn : NodeOK S node) (s : SerState) (h : s.budget = none)
include hn h

theorem serUnit_sound (sv : SV) (hsv : sv = .none ∨ sv = .unit)
    (hok : (serUnit S node s).1 = .ok ()) :
    ∃ v bytes, serUnit S node s = (.ok (), { s with out := s.out ++ bytes }) ∧
      Dec S node bytes v ∧ denotesAtLeaf (denExtOf ext) S node sv v = true := by
  unfold serUnit at hok ⊢
  cases node <;> simp only [] at hok ⊢
  case null =>
    refine ⟨.null, [], by simp [pure], Dec.of_encode (by simp [encode]), ?_⟩
    rcases hsv with rfl | rfl <;> simp [denotesAtLeaf, denotesLeaf]
  case union vs =>
    cases hl : unnamedLookup .null (branchNodes S vs) with
    | none => simp [hl, SerM.fail] at hok
    | some d =>
      obtain ⟨n', p, hn', hp⟩ := unnamedLookup_some hl
      have hnull := priorityFor_null hp
      subst hnull
      have hd : d < vs.length := by have := unnamedLookup_lt hl; rwa [branchNodes_length] at this
      have hsmall : vs.length < 2 ^ 63 := by simpa [nodeSmall] using hn.small
      have hk : vs[d]? = some vs[d] := List.getElem?_eq_getElem hd
      have hkb : vs[d] < S.size := hn.children _ (by simp [Node.children])
      have hSk : S[vs[d]]? = some S[vs[d]] := by simp [hkb]
      rw [branchNodes_getElem?, hk] at hn'
      simp only [Option.map_some, hSk, Option.getD_some, Option.some.injEq] at hn'
      rw [hn'] at hSk
      refine ⟨.union d .null, encodeLong d ++ [], ?_, Dec.union hk hSk (by omega) (Dec.of_encode (by simp [encode])), ?_⟩
      · show writeVarI64 (d : Int) s = _
        rw [writeVarI64_spec _ (inI64_of_lt (by omega)) s h]; simp
      · rcases hsv with rfl | rfl <;> simp [denotesAtLeaf, unionBranch, hk, hSk, denotesLeaf]
  all_goals simp [SerM.fail] at hok

end

theorem Dec.fixed {S : Schema} {nm : Name} {size : Nat} {b : Bytes} (hl : b.length = size) :
    Dec S (.fixed nm size) b (.fixed b) := Dec.of_encode (by simp [encode, hl])

theorem leBytes_take_drop12 (b : Bytes) (hl : b.length = 12) :
    b = leBytes 4 (leToNat (b.take 4)) ++ leBytes 4 (leToNat ((b.drop 4).take 4)) ++
      leBytes 4 (leToNat (b.drop 8)) := by
  have e1 := leBytes_leToNat (b.take 4)
  have e2 := leBytes_leToNat ((b.drop 4).take 4)
  have e3 := leBytes_leToNat (b.drop 8)
  have l1 : (b.take 4).length = 4 := by simp; omega
  have l2 : ((b.drop 4).take 4).length = 4 := by simp; omega
  have l3 : (b.drop 8).length = 4 := by simp; omega
  rw [l1] at e1; rw [l2] at e2; rw [l3] at e3
  rw [e1, e2, e3]
  have : b.drop 8 = (b.drop 4).drop 4 := by simp
  rw [this, List.append_assoc, List.take_append_drop, List.take_append_drop]

section
variable {ext : Ext} {S : Schema} (hS : SchemaOK S) {node : Node}
  (hn : NodeOK S node) (s : SerState) (h : s.budget = none)
include hS hn h

theorem serBytes_sound (b : Bytes) (hb : b.length < 2 ^ 63)
    (hok : (serBytes S node b s).1 = .ok ()) :
    ∃ v bytes, serBytes S node b s = (.ok (), { s with out := s.out ++ bytes }) ∧
      Dec S node bytes v ∧ denotesAtLeaf (denExtOf ext) S node (.bytes b) v = true := by
  unfold serBytes at hok ⊢
  refine viaUnion_leaf hS hn _ _ _ s h ?_ hok
  intro n s h hu hnok hok
  cases n <;> simp only [] at hok ⊢
  case bytes =>
    exact ⟨.bytes b, _, writeLengthDelimited_none b hb s h, Dec.of_encode (by simp [encode, hb]),
      by simp [denotesLeaf]⟩
  case string =>
    have hv := ite_fail_ok hok
    rw [if_pos hv]
    obtain ⟨str, rfl⟩ := (validUtf8_iff b).1 hv
    exact ⟨.string str, _, writeLengthDelimited_none _ hb s h, Dec.of_encode (by simp [encode, hb]),
      by simp [denotesLeaf]⟩
  case fixed nm size =>
    by_cases hsz : size ≠ b.length
    · simp [hsz, SerM.fail] at hok
    · rw [if_neg hsz]
      exact ⟨.fixed b, _, writeAll_none b s h, Dec.fixed (by omega), by simp [denotesLeaf]; omega⟩
  case duration =>
    by_cases hsz : b.length ≠ 12
    · simp [hsz, SerM.fail] at hok
    · rw [if_neg hsz]
      have hl : b.length = 12 := by omega
      refine ⟨.duration (leToNat (b.take 4)) (leToNat ((b.drop 4).take 4)) (leToNat (b.drop 8)), _,
        writeAll_none b s h, Dec.of_step fun fuel rest => ?_, ?_⟩
      · simp [decode, takeN_append_of_length b rest hl]
      · simp only [denotesLeaf, decide_eq_true_eq]
        exact leBytes_take_drop12 b hl
  all_goals simp [SerM.fail] at hok

end

section
variable {ext : Ext} {S : Schema} (hS : SchemaOK S) {node : Node}
  (hn : NodeOK S node) (s : SerState) (h : s.budget = none)
include hS hn h

theorem serBool_sound (b : Bool) (hok : (serBool S node b s).1 = .ok ()) :
    ∃ v bytes, serBool S node b s = (.ok (), { s with out := s.out ++ bytes }) ∧
      Dec S node bytes v ∧ denotesAtLeaf (denExtOf ext) S node (.bool b) v = true := by
  unfold serBool at hok ⊢
  refine viaUnion_leaf hS hn _ _ _ s h ?_ hok
  intro n s h hu hnok hok
  cases n <;> simp [SerM.fail] at hok
  exact ⟨.bool b, [if b then 1 else 0], writeAll_none _ s h, Dec.of_encode (by simp [encode]),
    by simp [denotesLeaf]⟩

theorem serF32_sound (bits : BitVec 32) (hok : (serF32 S node bits s).1 = .ok ()) :
    ∃ v bytes, serF32 S node bits s = (.ok (), { s with out := s.out ++ bytes }) ∧
      Dec S node bytes v ∧ denotesAtLeaf (denExtOf ext) S node (.f32 bits) v = true := by
  unfold serF32 at hok ⊢
  refine viaUnion_leaf hS hn _ _ _ s h ?_ hok
  intro n s h hu hnok hok
  cases n <;> simp [SerM.fail] at hok
  exact ⟨.float bits, _, writeAll_none _ s h, Dec.of_encode (by simp [encode]),
    by simp [denotesLeaf]⟩

end

section
variable {ext : Ext} {S : Schema} (hS : SchemaOK S) {node : Node}
  (hn : NodeOK S node) (s : SerState) (h : s.budget = none)
include hS hn h

theorem serInteger_sound (t : IntTy) (x : Int) (ht : t.inRange x = true)
    (hok : (serInteger S node t x s).1 = .ok ()) :
    ∃ v bytes, serInteger S node t x s = (.ok (), { s with out := s.out ++ bytes }) ∧
      Dec S node bytes v ∧ denotesAtLeaf (denExtOf ext) S node (.int t x) v = true := by
  unfold serInteger at hok ⊢
  refine viaUnion_leaf hS hn _ _ _ s h ?_ hok
  intro n s h hu hnok hok
  cases n <;> simp only [] at hok ⊢
  case int | date | timeMillis =>
    have hr := ite_fail_ok hok
    have hi : InI64 x := by unfold InI64; omega
    have h32 : InI32 x := hr
    rw [if_pos hr]
    exact ⟨.int x, _, writeVarI64_spec x hi s h, Dec.of_encode (by simp [encode, h32]),
      by simp [denotesLeaf, ht]⟩
  case long | timeMicros | timestampMillis | timestampMicros =>
    have hr := ite_fail_ok hok
    have hi : InI64 x := hr
    rw [if_pos hr]
    exact ⟨.long x, _, writeVarI64_spec x hi s h, Dec.of_encode (by simp [encode, hi]),
      by simp [denotesLeaf, ht]⟩
  case enum nm syms =>
    have hr := ite_fail_ok hok
    have hsmall : syms.length < 2 ^ 63 := by simpa [nodeSmall] using hnok.small
    have hi : InI64 x := by unfold InI64; omega
    have h1 : x.toNat < syms.length ∧ x.toNat < 2 ^ 63 := by omega
    have h2 : ((x.toNat : Nat) : Int) = x := by omega
    rw [if_pos hr]
    refine ⟨.enum x.toNat, _, writeVarI64_spec x hi s h, Dec.of_encode (by simp [encode, h1, h2]), ?_⟩
    simp [denotesLeaf, ht, h2, h1]
  case decimal scale prec repr =>
    cases repr with
    | bytes =>
      obtain ⟨m, hl, he, hv⟩ := serIntegerAsDecimal_bytes scale x s h hok
      refine ⟨.decimal (x * 10 ^ scale), _, he, Dec.of_step fun fuel rest => ?_, by simp [denotesLeaf, ht]⟩
      simp [decode, decodeBytes_lenPrefixed m (by omega) rest, hv]
    | fixed nm size =>
      obtain ⟨h16, m, hl, he, hv⟩ := serIntegerAsDecimal_fixed scale nm size x s h hok
      refine ⟨.decimal (x * 10 ^ scale), _, he, Dec.of_step fun fuel rest => ?_, by simp [denotesLeaf, ht]⟩
      simp [decode, takeN_append_of_length m rest hl, hv]
  all_goals simp [SerM.fail] at hok

end

theorem denotesLeaf_string_text {ext : DenExt} {sv : SV} {str : String} (ht : textOf sv = some str) :
    denotesLeaf ext .string sv (.string str) = true := by
  cases sv <;> simp [textOf] at ht <;> simp [denotesLeaf, textOf, ht]

theorem denotesLeaf_bytes_text {ext : DenExt} {sv : SV} {str : String} (ht : textOf sv = some str) :
    denotesLeaf ext .bytes sv (.bytes (utf8 str)) = true := by
  cases sv <;> simp [textOf] at ht <;> simp [denotesLeaf, textOf, ht]

theorem denotesLeaf_enum_text {ext : DenExt} {sv : SV} {str : String} {nm : Name}
    {syms : List String} {idx : Nat} (ht : textOf sv = some str)
    (hs : syms[idx]? = some str) :
    denotesLeaf ext (.enum nm syms) sv (.enum idx) = true := by
  cases sv <;> simp [textOf] at ht <;> simp_all [denotesLeaf, textOf]

section
variable {ext : Ext} {S : Schema} (s : SerState) (h : s.budget = none)
include h

/-- `serStrAt` on string / bytes / enum nodes for any presentation that offers a text -/
theorem serStrAt_text {n : Node} (hnok : NodeOK S n) (sv : SV) (str : String)
    (ht : textOf sv = some str) (hlen : (utf8 str).length < 2 ^ 63)
    (h3 : n = .string ∨ n = .bytes ∨ ∃ nm syms, n = .enum nm syms) :
    LeafRes (denExtOf ext) S n sv (serStrAt ext n str) s := by
  intro hok
  rcases h3 with rfl | rfl | ⟨nm, syms, rfl⟩
  · exact ⟨.string str, _, writeLengthDelimited_none _ hlen s h,
      Dec.of_encode (by simp [encode, hlen]), denotesLeaf_string_text ht⟩
  · exact ⟨.bytes (utf8 str), _, writeLengthDelimited_none _ hlen s h,
      Dec.of_encode (by simp [encode, hlen]), denotesLeaf_bytes_text ht⟩
  · simp only [serStrAt] at hok ⊢
    cases hl : lookupLast syms str with
    | none => simp [hl, SerM.fail] at hok
    | some d =>
      have hd := lookupLast_lt hl
      have hsmall : syms.length < 2 ^ 63 := by simpa [nodeSmall] using hnok.small
      have hi : InI64 (d : Int) := inI64_of_lt (by omega)
      have h1 : d < syms.length ∧ d < 2 ^ 63 := by omega
      exact ⟨.enum d, _, writeVarI64_spec _ hi s h, Dec.of_encode (by simp [encode, h1]),
        denotesLeaf_enum_text ht (lookupLast_some hl)⟩

/-- `serialize_str` / `serialize_char` at a non-union node -/
theorem serStrAt_leaf (hext : ExtOK ext) {n : Node} (hnok : NodeOK S n)
    (sv : SV) (str : String)
    (hsv : sv = .str str ∨ ∃ c, sv = .char c ∧ str = String.singleton c)
    (hlen : (utf8 str).length < 2 ^ 63) :
    LeafRes (denExtOf ext) S n sv (serStrAt ext n str) s := by
  have ht : textOf sv = some str := by
    rcases hsv with rfl | ⟨c, rfl, rfl⟩ <;> rfl
  intro hok
  cases n
  case string => exact serStrAt_text s h hnok sv str ht hlen (Or.inl rfl) hok
  case bytes => exact serStrAt_text s h hnok sv str ht hlen (Or.inr (Or.inl rfl)) hok
  case enum nm syms =>
    exact serStrAt_text s h hnok sv str ht hlen (Or.inr (Or.inr ⟨nm, syms, rfl⟩)) hok
  case uuid =>
    simp only [serStrAt] at hok ⊢
    refine ⟨.string str, _, writeLengthDelimited_none _ hlen s h,
      Dec.of_encode (by simp [encode, hlen]), ?_⟩
    rcases hsv with rfl | ⟨c, rfl, rfl⟩ <;> simp [denotesLeaf]
  case fixed nm size =>
    simp only [serStrAt] at hok ⊢
    by_cases hsz : size ≠ (strBytes str).length
    · simp [hsz, SerM.fail] at hok
    · rw [if_neg hsz]
      have hl : (utf8 str).length = size := by have : (strBytes str).length = size := by omega
                                               exact this
      refine ⟨.fixed (utf8 str), _, writeAll_none _ s h, Dec.fixed hl, ?_⟩
      rcases hsv with rfl | ⟨c, rfl, rfl⟩ <;> simp [denotesLeaf, hl]
  case decimal scale prec repr =>
    simp only [serStrAt] at hok ⊢
    cases hp : ext.decParse str with
    | none => simp [hp, SerM.fail] at hok
    | some d =>
      simp only [hp] at hok ⊢
      obtain ⟨u, bytes, he, hd, hu⟩ := serDecimal_regular_sound hext S scale prec repr d s h (hext.parse str d hp).1 hok
      refine ⟨.decimal u, bytes, he, hd, ?_⟩
      have hp' : (denExtOf ext).decParse str = some d := hp
      rcases hsv with rfl | ⟨c, rfl, rfl⟩ <;>
        (simp only [denotesLeaf, hp']; exact decide_eq_true hu)
  case bigDecimal =>
    simp only [serStrAt] at hok ⊢
    cases hp : ext.decParse str with
    | none => simp [hp, SerM.fail] at hok
    | some d =>
      simp only [hp] at hok ⊢
      obtain ⟨hr, hsc⟩ := hext.parse str d hp
      obtain ⟨bytes, he, hd⟩ := serDecimal_big_sound (ext := ext) S d s h hr hsc
      refine ⟨.bigDecimal d.1 d.2, bytes, he, hd, ?_⟩
      rcases hsv with rfl | ⟨c, rfl, rfl⟩ <;> simp [denotesLeaf, denExtOf, hp]
  all_goals simp [serStrAt, SerM.fail] at hok

end

theorem nullVariantBranch_some {S : Schema} {vs : List Nat} {variant : String} {d : Nat}
    (h : nullVariantBranch S vs variant = some d) :
    variant = "Null" ∧ ∃ k, vs[d]? = some k ∧ S[k]? = some .null := by
  unfold nullVariantBranch at h
  split at h
  · rename_i hv
    refine ⟨hv, ?_⟩
    split at h
    · rename_i d' _
      split at h
      · rename_i hb
        have key : ∀ c : Bool, (if c = true then none else some d') = some d → d' = d := by
          intro c; cases c <;> simp
        have hdd := key _ h
        subst hdd
        cases hk : vs[d']? with
        | none => simp [hk] at hb
        | some k => exact ⟨k, rfl, by simpa [hk] using hb⟩
      · cases h
    · cases h
  · cases h

section
variable {ext : Ext} {S : Schema} (hS : SchemaOK S) {node : Node}
  (hn : NodeOK S node) (s : SerState) (h : s.budget = none)
include hS hn h

theorem serStr_sound (hext : ExtOK ext) (sv : SV) (str : String)
    (hsv : sv = .str str ∨ ∃ c, sv = .char c ∧ str = String.singleton c)
    (hlen : (utf8 str).length < 2 ^ 63)
    (hok : (serStr ext S node str s).1 = .ok ()) :
    ∃ v bytes, serStr ext S node str s = (.ok (), { s with out := s.out ++ bytes }) ∧
      Dec S node bytes v ∧ denotesAtLeaf (denExtOf ext) S node sv v = true := by
  unfold serStr at hok ⊢
  refine viaUnion_leaf hS hn _ _ _ s h ?_ hok
  intro n s h hu hnok
  exact serStrAt_leaf s h hext hnok sv str hsv hlen

theorem serUnitStruct_sound (name : String) (hlen : (utf8 name).length < 2 ^ 63)
    (hok : (serUnitStruct ext S node name s).1 = .ok ()) :
    ∃ v bytes, serUnitStruct ext S node name s = (.ok (), { s with out := s.out ++ bytes }) ∧
      Dec S node bytes v ∧ denotesAtLeaf (denExtOf ext) S node (.unitStruct name) v = true := by
  unfold serUnitStruct at hok ⊢
  refine viaUnion_leaf hS hn _ _ _ s h ?_ hok
  intro n s h hu hnok hok
  cases n <;> simp only [] at hok ⊢
  case null => exact ⟨.null, [], by simp [pure], Dec.of_encode (by simp [encode]), by simp [denotesLeaf]⟩
  case string => exact serStrAt_text s h hnok _ name rfl hlen (Or.inl rfl) hok
  case bytes => exact serStrAt_text s h hnok _ name rfl hlen (Or.inr (Or.inl rfl)) hok
  case enum nm syms =>
    exact serStrAt_text s h hnok _ name rfl hlen (Or.inr (Or.inr ⟨nm, syms, rfl⟩)) hok
  all_goals simp [SerM.fail] at hok

theorem serUnitVariant_sound (name : String) (idx : Nat) (variant : String)
    (hlen : (utf8 variant).length < 2 ^ 63)
    (hok : (serUnitVariant ext S node variant s).1 = .ok ()) :
    ∃ v bytes, serUnitVariant ext S node variant s = (.ok (), { s with out := s.out ++ bytes }) ∧
      Dec S node bytes v ∧
      denotesAtLeaf (denExtOf ext) S node (.unitVariant name idx variant) v = true := by
  have hAt : (viaUnion S node .unitVariant (serUnitVariantAt ext variant) s).1 = .ok () →
      ∃ v bytes, viaUnion S node .unitVariant (serUnitVariantAt ext variant) s =
          (.ok (), { s with out := s.out ++ bytes }) ∧
        Dec S node bytes v ∧
        denotesAtLeaf (denExtOf ext) S node (.unitVariant name idx variant) v = true := by
    intro hok
    refine viaUnion_leaf hS hn _ _ _ s h ?_ hok
    intro n s h hu hnok hok
    cases n <;> simp only [serUnitVariantAt] at hok ⊢
    case null =>
      have hv := ite_fail_ok hok
      rw [if_pos hv]
      exact ⟨.null, [], by simp [pure], Dec.of_encode (by simp [encode]), by simp [denotesLeaf, hv]⟩
    case string => exact serStrAt_text s h hnok _ variant rfl hlen (Or.inl rfl) hok
    case bytes => exact serStrAt_text s h hnok _ variant rfl hlen (Or.inr (Or.inl rfl)) hok
    case enum nm syms =>
      exact serStrAt_text s h hnok _ variant rfl hlen (Or.inr (Or.inr ⟨nm, syms, rfl⟩)) hok
    all_goals simp [SerM.fail] at hok
  by_cases hu : node.isUnion = false
  · have e : serUnitVariant ext S node variant =
        viaUnion S node .unitVariant (serUnitVariantAt ext variant) := by
      cases node <;> first | rfl | simp [Node.isUnion] at hu
    rw [e] at hok ⊢
    exact hAt hok
  · obtain ⟨vs, rfl⟩ : ∃ vs, node = .union vs := by
      cases node <;> simp [Node.isUnion] at hu; exact ⟨_, rfl⟩
    cases hd : nullVariantBranch S vs variant with
    | none =>
      have e : serUnitVariant ext S (.union vs) variant =
          viaUnion S (.union vs) .unitVariant (serUnitVariantAt ext variant) := by
        simp only [serUnitVariant, hd]
      rw [e] at hok ⊢
      exact hAt hok
    | some d =>
      have e : serUnitVariant ext S (.union vs) variant = writeVarI64 (d : Int) := by
        simp only [serUnitVariant, hd]
      rw [e]
      obtain ⟨hv, k, hk, hSk⟩ := nullVariantBranch_some hd
      have hdl : d < vs.length := by
        rcases Nat.lt_or_ge d vs.length with h' | h'
        · exact h'
        · simp [List.getElem?_eq_none h'] at hk
      have hsmall : vs.length < 2 ^ 63 := by simpa [nodeSmall] using hn.small
      refine ⟨.union d .null, encodeLong d ++ [], ?_,
        Dec.union hk hSk (by omega) (Dec.of_encode (by simp [encode])), ?_⟩
      · rw [writeVarI64_spec _ (inI64_of_lt (by omega)) s h]; simp
      · simp [denotesAtLeaf, unionBranch, hk, hSk, denotesLeaf, hv]

theorem serF64_sound (hext : ExtOK ext) (bits : BitVec 64) (hok : (serF64 ext S node bits s).1 = .ok ()) :
    ∃ v bytes, serF64 ext S node bits s = (.ok (), { s with out := s.out ++ bytes }) ∧
      Dec S node bytes v ∧ denotesAtLeaf (denExtOf ext) S node (.f64 bits) v = true := by
  unfold serF64 at hok ⊢
  refine viaUnion_leaf hS hn _ _ _ s h ?_ hok
  intro n s h hu hnok hok
  cases n <;> simp only [] at hok ⊢
  case double =>
    exact ⟨.double bits, _, writeAll_none _ s h, Dec.of_encode (by simp [encode]),
      by simp [denotesLeaf]⟩
  case float =>
    exact ⟨.float (ext.asF32 bits), _, writeAll_none _ s h, Dec.of_encode (by simp [encode]),
      by simp [denotesLeaf, denExtOf]⟩
  case decimal scale prec repr =>
    cases hp : ext.decFromF64 bits with
    | none => simp [hp, SerM.fail] at hok
    | some d =>
      simp only [hp] at hok ⊢
      obtain ⟨u, bytes, he, hd, hu⟩ := serDecimal_regular_sound hext S scale prec repr d s h (hext.fromF64 bits d hp).1 hok
      have hp' : (denExtOf ext).decFromF64 bits = some d := hp
      refine ⟨.decimal u, bytes, he, hd, ?_⟩
      simp only [denotesLeaf, hp']; exact decide_eq_true hu
  case bigDecimal =>
    cases hp : ext.decFromF64 bits with
    | none => simp [hp, SerM.fail] at hok
    | some d =>
      simp only [hp] at hok ⊢
      obtain ⟨hr, hsc⟩ := hext.fromF64 bits d hp
      obtain ⟨bytes, he, hd⟩ := serDecimal_big_sound (ext := ext) S d s h hr hsc
      exact ⟨.bigDecimal d.1 d.2, bytes, he, hd, by simp [denotesLeaf, denExtOf, hp]⟩
  all_goals simp [SerM.fail] at hok

end

theorem denotes_bool (ext : DenExt) (S : Schema) (n : Node) (b : Bool) (v : Value) :
    denotes ext S n (.bool b) v = denotesAtLeaf ext S n (.bool b) v := by
  rw [denotes.eq_def]; rfl
theorem denotes_unitVariant (ext : DenExt) (S : Schema) (n : Node) (a : String) (i : Nat) (b : String) (v : Value) :
    denotes ext S n (.unitVariant a i b) v = denotesAtLeaf ext S n (.unitVariant a i b) v := by
  rw [denotes.eq_def]; rfl

/-! ### Results of compound calls -/

/-- `m` succeeds from `s`, appends `bytes`, keeps the writer/pool invariant, and `bytes` decode
    at node `n` to a value satisfying `Q`. -/
def Res (S : Schema) (n : Node) (m : SerM Unit) (s : SerState) (Q : Value → Prop) : Prop :=
  ∃ s' v bytes, m s = (.ok (), s') ∧ s'.out = s.out ++ bytes ∧ Good s' ∧ Dec S n bytes v ∧ Q v

theorem Res.mono {S : Schema} {n : Node} {m : SerM Unit} {s : SerState} {Q Q' : Value → Prop}
    (h : Res S n m s Q) (hq : ∀ v, Q v → Q' v) : Res S n m s Q' := by
  obtain ⟨s', v, bytes, h1, h2, h3, h4, h5⟩ := h
  exact ⟨s', v, bytes, h1, h2, h3, h4, hq v h5⟩

theorem Good.append {s : SerState} (hs : Good s) (bs : Bytes) : Good { s with out := s.out ++ bs } :=
  hs

theorem Res.of_leaf {S : Schema} {n : Node} {m : SerM Unit} {s : SerState} {Q : Value → Prop}
    (hs : Good s)
    (h : ∃ v bytes, m s = (.ok (), { s with out := s.out ++ bytes }) ∧ Dec S n bytes v ∧ Q v) :
    Res S n m s Q := by
  obtain ⟨v, bytes, h1, h2, h3⟩ := h
  exact ⟨_, v, bytes, h1, rfl, hs.append bytes, h2, h3⟩

theorem viaUnion_bind {α β : Type} (S : Schema) (node : Node) (key : LookupKey) (f : Node → SerM α)
    (g : α → SerM β) :
    (viaUnion S node key f >>= g) = viaUnion S node key (fun n => f n >>= g) := by
  cases node <;> try rfl
  rename_i vs
  funext s
  simp only [viaUnion]
  cases unnamedLookup key (branchNodes S vs) with
  | none => rfl
  | some d =>
    simp only [bind]
    cases writeVarI64 (d : Int) s with
    | mk r s1 =>
      cases r with
      | error e => rfl
      | ok u =>
        simp only []
        cases vs[d]? with
        | none => rfl
        | some k => simp only []; cases S[k]? <;> rfl

theorem viaName_bind {α β : Type} (S : Schema) (node : Node) (name : String) (f : Node → SerM α)
    (g : α → SerM β) :
    (viaName S node name f >>= g) = viaName S node name (fun n => f n >>= g) := by
  cases node <;> try rfl
  rename_i vs
  funext s
  simp only [viaName]
  cases namedLookup name (branchNodes S vs) with
  | none => rfl
  | some d =>
    simp only [bind]
    cases writeVarI64 (d : Int) s with
    | mk r s1 =>
      cases r with
      | error e => rfl
      | ok u =>
        simp only []
        cases vs[d]? with
        | none => rfl
        | some k => simp only []; cases S[k]? <;> rfl

section
variable {S : Schema} (hS : SchemaOK S) {node : Node} (hn : NodeOK S node)
include hS hn

theorem viaUnion_sound (key : LookupKey) (f : Node → SerM Unit) (Q : Node → Value → Prop)
    (s : SerState) (hs : Good s)
    (hf : ∀ n s, Good s → n.isUnion = false → NodeOK S n → (f n s).1 = .ok () →
      Res S n (f n) s (Q n))
    (hok : (viaUnion S node key f s).1 = .ok ()) :
    Res S node (viaUnion S node key f) s (fun v =>
      (node.isUnion = false ∧ Q node v) ∨
      (∃ vs d k n y, node = .union vs ∧ v = .union d y ∧ vs[d]? = some k ∧ S[k]? = some n ∧
        n.isUnion = false ∧ Q n y)) := by
  by_cases hu : node.isUnion = false
  · rw [viaUnion_nonunion S node key f hu] at hok ⊢
    exact (hf node s hs hu hn hok).mono fun v hv => Or.inl ⟨hu, hv⟩
  · obtain ⟨vs, rfl⟩ : ∃ vs, node = .union vs := by
      cases node <;> simp [Node.isUnion] at hu; exact ⟨_, rfl⟩
    rcases viaUnion_union S vs key f s hs.1 with ⟨_, he⟩ | ⟨d, k, hl, hd, hk, hcase⟩
    · rw [he] at hok; simp at hok
    · rcases hcase with ⟨_, he⟩ | ⟨n, hnk, he⟩
      · rw [he] at hok; simp at hok
      · rw [he] at hok
        unfold Res
        rw [he]
        have hsmall : vs.length < 2 ^ 63 := by simpa [nodeSmall] using hn.small
        have hd63 : d < 2 ^ 63 := by omega
        have hnu := (union_branch_of_lookup hl hk hnk).1
        obtain ⟨s', v, bytes, hrun, hout, hgood, hdec, hq⟩ :=
          hf n { s with out := s.out ++ encodeVarI64 d } (hs.append _) hnu (hS k n hnk) hok
        refine ⟨s', .union d v, encodeLong d ++ bytes, hrun, ?_, hgood, Dec.union hk hnk hd63 hdec,
          Or.inr ⟨vs, d, k, n, v, rfl, rfl, hk, hnk, hnu, hq⟩⟩
        rw [hout, encodeVarI64_eq_spec _ (inI64_of_lt hd63)]; simp

end

theorem namedLookup_go_some (name : String) (bs : List Node) (k : Nat) (acc : Option Nat) (d : Nat)
    (h : namedLookup.go name bs k acc = some d) :
    acc = some d ∨ (k ≤ d ∧ d - k < bs.length) := by
  induction bs generalizing k acc with
  | nil => simp [namedLookup.go] at h; exact Or.inl h
  | cons n rest ih =>
    simp only [namedLookup.go] at h
    rcases ih _ _ h with h1 | ⟨h1, h2⟩
    · split at h1
      · simp at h1; subst h1; right; simp
      · exact Or.inl h1
    · right; simp only [List.length_cons]; omega

theorem namedLookup_lt {name : String} {bs : List Node} {d : Nat}
    (h : namedLookup name bs = some d) : d < bs.length := by
  unfold namedLookup at h
  rcases namedLookup_go_some name bs 0 none d h with h1 | ⟨_, h2⟩
  · simp at h1
  · simpa using h2

theorem viaName_union {α : Type} (S : Schema) (vs : List Nat) (name : String) (f : Node → SerM α)
    (s : SerState) (h : s.budget = none) :
    (namedLookup name (branchNodes S vs) = none ∧
      viaName S (.union vs) name f s = f (.union vs) s) ∨
    (∃ d k, namedLookup name (branchNodes S vs) = some d ∧ d < vs.length ∧ vs[d]? = some k ∧
      ((S[k]? = none ∧ viaName S (.union vs) name f s =
          (.error .panic, { s with out := s.out ++ encodeVarI64 d })) ∨
       (∃ n, S[k]? = some n ∧ viaName S (.union vs) name f s =
          f n { s with out := s.out ++ encodeVarI64 d }))) := by
  cases hl : namedLookup name (branchNodes S vs) with
  | none => left; simp [viaName, hl]
  | some d =>
    right
    have hd : d < vs.length := by have := namedLookup_lt hl; rwa [branchNodes_length] at this
    obtain ⟨k, hk⟩ : ∃ k, vs[d]? = some k := ⟨vs[d], List.getElem?_eq_getElem hd⟩
    refine ⟨d, k, rfl, hd, hk, ?_⟩
    cases hn : S[k]? with
    | none =>
      left; simp [viaName, hl, bind, writeVarI64_none _ s h, hk, hn, SerM.fail]
    | some n =>
      right; refine ⟨n, rfl, ?_⟩
      simp [viaName, hl, bind, writeVarI64_none _ s h, hk, hn]

section
variable {S : Schema} (hS : SchemaOK S) {node : Node} (hn : NodeOK S node)
include hS hn

theorem viaName_sound (name : String) (f : Node → SerM Unit) (Q : Node → Value → Prop)
    (s : SerState) (hs : Good s)
    (hf : ∀ n s, Good s → NodeOK S n → (f n s).1 = .ok () → Res S n (f n) s (Q n))
    (hok : (viaName S node name f s).1 = .ok ()) :
    Res S node (viaName S node name f) s (fun v =>
      ((node.isUnion = false ∨ ∃ vs, node = .union vs ∧ namedLookup name (branchNodes S vs) = none)
        ∧ Q node v) ∨
      (∃ vs d k n y, node = .union vs ∧ namedLookup name (branchNodes S vs) = some d ∧
        v = .union d y ∧ vs[d]? = some k ∧ S[k]? = some n ∧ n.isUnion = false ∧ Q n y)) := by
  by_cases hu : node.isUnion = false
  · rw [viaName_nonunion S node name f hu] at hok ⊢
    exact (hf node s hs hn hok).mono fun v hv => Or.inl ⟨Or.inl hu, hv⟩
  · obtain ⟨vs, rfl⟩ : ∃ vs, node = .union vs := by
      cases node <;> simp [Node.isUnion] at hu; exact ⟨_, rfl⟩
    rcases viaName_union S vs name f s hs.1 with ⟨hl, he⟩ | ⟨d, k, hl, hd, hk, hcase⟩
    · rw [he] at hok
      unfold Res
      rw [he]
      exact (hf _ s hs hn hok).mono fun v hv => Or.inl ⟨Or.inr ⟨vs, rfl, hl⟩, hv⟩
    · rcases hcase with ⟨_, he⟩ | ⟨n, hnk, he⟩
      · rw [he] at hok; simp at hok
      · rw [he] at hok
        unfold Res
        rw [he]
        have hsmall : vs.length < 2 ^ 63 := by simpa [nodeSmall] using hn.small
        have hd63 : d < 2 ^ 63 := by omega
        have hnu : n.isUnion = false := by
          have hnn := hn.nonest
          simp only [nodeNoNestedUnion, List.all_eq_true] at hnn
          have := hnn k (List.mem_of_getElem? hk)
          rw [hnk] at this
          cases n <;> first | rfl | simp at this
        obtain ⟨s', v, bytes, hrun, hout, hgood, hdec, hq⟩ :=
          hf n { s with out := s.out ++ encodeVarI64 d } (hs.append _) (hS k n hnk) hok
        refine ⟨s', .union d v, encodeLong d ++ bytes, hrun, ?_, hgood, Dec.union hk hnk hd63 hdec,
          Or.inr ⟨vs, d, k, n, v, rfl, hl, rfl, hk, hnk, hnu, hq⟩⟩
        rw [hout, encodeVarI64_eq_spec _ (inI64_of_lt hd63)]; simp

end

/-- soundness of `ser` on one presentation, at every node and state -/
def SerSound (ext : Ext) (a : Bool) (S : Schema) (sv : SV) : Prop :=
  ∀ node s, NodeOK S node → Good s → (ser ext a S node sv s).1 = .ok () →
    Res S node (ser ext a S node sv) s (fun v => denotes (denExtOf ext) S node sv v = true)

/-- `c` more items of the current block, then further blocks up to the end marker -/
def DecTail (S : Schema) (item : Node) (c : Nat) (B : Bytes) (V : List Value) : Prop :=
  ∃ b1 b2 v1 v2, B = b1 ++ b2 ∧ V = v1 ++ v2 ∧ DecItems S item c b1 v1 ∧ DecBlocks S item b2 v2

theorem blockSignal_zero (s : SerState) (h : s.budget = none) :
    blockSignal 0 s = (.ok 0, { s with out := s.out ++ encodeLong 1 }) := by
  simp only [blockSignal, bind, writeVarI64_spec 1 (by decide) s h, pure]

theorem blockSignal_succ (n : Nat) (s : SerState) : blockSignal (n + 1) s = (.ok n, s) := rfl

theorem DecTail.cons_in_block {S : Schema} {item : Node} {n : Nat} {b B : Bytes} {v : Value}
    {V : List Value} (h1 : Dec S item b v) (h2 : DecTail S item n B V) :
    DecTail S item (n + 1) (b ++ B) (v :: V) := by
  obtain ⟨b1, b2, v1, v2, rfl, rfl, hi, hb⟩ := h2
  exact ⟨b ++ b1, b2, v :: v1, v2, by simp, by simp, DecItems.cons h1 hi, hb⟩

theorem DecTail.cons_new_block {S : Schema} {item : Node} {b B : Bytes} {v : Value}
    {V : List Value} (h1 : Dec S item b v) (h2 : DecTail S item 0 B V) :
    DecTail S item 0 (encodeLong 1 ++ (b ++ B)) (v :: V) := by
  obtain ⟨b1, b2, v1, v2, rfl, rfl, hi, hb⟩ := h2
  obtain ⟨rfl, rfl⟩ := hi.nil_inv
  refine ⟨[], encodeLong 1 ++ (b ++ b2), [], v :: v2, by simp, by simp, DecItems.nil, ?_⟩
  have := DecBlocks.block (c := 1) (by omega) (by omega) (DecItems.cons h1 DecItems.nil) hb
  simpa using this

section
variable {ext : Ext} {a : Bool} {S : Schema}

theorem serElems_array_sound (item : Node) (hitem : NodeOK S item) (elems : List SV)
    (hIH : ∀ e ∈ elems, SerSound ext a S e) :
    ∀ c s k' s', Good s → serElems ext a S (.array item c) elems s = (.ok k', s') →
    ∃ c' vs bytes, k' = .array item c' ∧ s'.out = s.out ++ bytes ∧ Good s' ∧
      c ≤ c' + elems.length ∧
      denotesList (denExtOf ext) S item elems vs = true ∧
      ∀ tB tV, DecTail S item c' tB tV → DecTail S item c (bytes ++ tB) (vs ++ tV) := by
  induction elems with
  | nil =>
    intro c s k' s' hs hrun
    simp only [serElems, Prod.mk.injEq, Except.ok.injEq] at hrun
    obtain ⟨rfl, rfl⟩ := hrun
    exact ⟨c, [], [], rfl, by simp, hs, by simp, by simp [denotesList],
      fun tB tV h => by simpa using h⟩
  | cons e rest ih =>
    intro c s k' s' hs hrun
    have ihr := ih (fun e he => hIH e (List.mem_cons_of_mem _ he))
    have he := hIH e (List.mem_cons_self ..)
    simp only [serElems] at hrun
    cases c with
    | zero =>
      rw [blockSignal_zero s hs.1] at hrun
      simp only [] at hrun
      generalize hs1 : ({ s with out := s.out ++ encodeLong 1 } : SerState) = s1 at hrun
      have hg1 : Good s1 := by subst hs1; exact hs.append _
      cases hser : ser ext a S item e s1 with
      | mk r s2 =>
        rw [hser] at hrun
        cases r with
        | error err => simp at hrun
        | ok u =>
          simp only [] at hrun
          obtain ⟨s2', v, be, hrun2, hout2, hg2, hdec, hden⟩ := he item s1 hitem hg1 (by rw [hser])
          rw [hser] at hrun2
          simp only [Prod.mk.injEq, true_and] at hrun2
          subst hrun2
          obtain ⟨c', vs, bytes, hk', hout, hg', hcle, hdl, htail⟩ := ihr 0 s2 k' s' hg2 hrun
          refine ⟨c', v :: vs, encodeLong 1 ++ (be ++ bytes), hk', ?_, hg', by simp, ?_, ?_⟩
          · rw [hout, hout2, ← hs1]; simp
          · simp [denotesList, hden, hdl]
          · intro tB tV ht
            have := DecTail.cons_new_block hdec (htail tB tV ht)
            simpa using this
    | succ n =>
      rw [blockSignal_succ] at hrun
      simp only [] at hrun
      cases hser : ser ext a S item e s with
      | mk r s2 =>
        rw [hser] at hrun
        cases r with
        | error err => simp at hrun
        | ok u =>
          simp only [] at hrun
          obtain ⟨s2', v, be, hrun2, hout2, hg2, hdec, hden⟩ := he item s hitem hs (by rw [hser])
          rw [hser] at hrun2
          simp only [Prod.mk.injEq, true_and] at hrun2
          subst hrun2
          obtain ⟨c', vs, bytes, hk', hout, hg', hcle, hdl, htail⟩ := ihr n s2 k' s' hg2 hrun
          refine ⟨c', v :: vs, be ++ bytes, hk', ?_, hg', by simp; omega, ?_, ?_⟩
          · rw [hout, hout2]; simp
          · simp [denotesList, hden, hdl]
          · intro tB tV ht
            have := DecTail.cons_in_block hdec (htail tB tV ht)
            simpa using this

end

theorem extractU8_eq (e : SV) : extractU8 e = u8Like e := by
  cases e <;> rfl

theorem extractU32_eq (e : SV) : extractU32 e = u32Of e := by
  cases e <;> try rfl

set_option linter.unusedSimpArgs false in
theorem u32Of_lt {e : SV} {x : Nat} (h : u32Of e = some x) : x < 2 ^ 32 := by
  cases e <;> try (simp [u32Of] at h)
  rename_i t v
  cases t <;> simp [u32Of] at h
  omega

section
variable {ext : Ext} {a : Bool} {S : Schema}

theorem serElems_fixed_sound (elems : List SV) :
    ∀ n s k' s', s.budget = none → serElems ext a S (.fixed n) elems s = (.ok k', s') →
    ∃ b n', k' = .fixed n' ∧ u8List elems = some b ∧ s' = { s with out := s.out ++ b } ∧
      n = b.length + n' := by
  induction elems with
  | nil =>
    intro n s k' s' hs hrun
    simp only [serElems, Prod.mk.injEq, Except.ok.injEq] at hrun
    obtain ⟨rfl, rfl⟩ := hrun
    exact ⟨[], n, rfl, rfl, by simp, by simp⟩
  | cons e rest ih =>
    intro n s k' s' hs hrun
    simp only [serElems] at hrun
    cases n with
    | zero => simp at hrun
    | succ n =>
      simp only [] at hrun
      rw [extractU8_eq] at hrun
      cases hb : u8Like e with
      | none => simp [hb] at hrun
      | some b =>
        simp only [hb, writeAll_none _ s hs] at hrun
        obtain ⟨bs, n', hk', hu, hs', hn⟩ := ih n { s with out := s.out ++ [b] } k' s' hs hrun
        refine ⟨b :: bs, n', hk', by simp [u8List, hb, hu], ?_, by simp; omega⟩
        rw [hs']; simp

theorem serElems_buffered_sound (elems : List SV) :
    ∀ buf s k' s', serElems ext a S (.buffered buf) elems s = (.ok k', s') →
    ∃ b buf', k' = .buffered buf' ∧ u8List elems = some b ∧ s' = s ∧ buf'.data = buf.data ++ b := by
  induction elems with
  | nil =>
    intro buf s k' s' hrun
    simp only [serElems, Prod.mk.injEq, Except.ok.injEq] at hrun
    obtain ⟨rfl, rfl⟩ := hrun
    exact ⟨[], buf, rfl, rfl, rfl, by simp⟩
  | cons e rest ih =>
    intro buf s k' s' hrun
    simp only [serElems] at hrun
    rw [extractU8_eq] at hrun
    cases hb : u8Like e with
    | none => simp [hb] at hrun
    | some b =>
      simp only [hb] at hrun
      obtain ⟨bs, buf', hk', hu, hs', hd⟩ := ih _ s k' s' hrun
      exact ⟨b :: bs, buf', hk', by simp [u8List, hb, hu], hs', by rw [hd]; simp⟩

theorem serElems_duration_sound (elems : List SV) :
    ∀ n s k' s', s.budget = none → serElems ext a S (.duration n) elems s = (.ok k', s') →
    ∃ xs : List Nat, k' = .duration (n + xs.length) ∧
      elems.map u32Of = xs.map some ∧
      s' = { s with out := s.out ++ xs.flatMap (leBytes 4) } := by
  induction elems with
  | nil =>
    intro n s k' s' hs hrun
    simp only [serElems, Prod.mk.injEq, Except.ok.injEq] at hrun
    obtain ⟨rfl, rfl⟩ := hrun
    exact ⟨[], rfl, rfl, by simp⟩
  | cons e rest ih =>
    intro n s k' s' hs hrun
    simp only [serElems] at hrun
    by_cases hn : n ≥ 3
    · simp [hn] at hrun
    · rw [if_neg hn, extractU32_eq] at hrun
      cases hx : u32Of e with
      | none => simp [hx] at hrun
      | some x =>
        simp only [hx, writeAll_none _ s hs] at hrun
        obtain ⟨xs, hk', hm, hs'⟩ := ih (n + 1) { s with out := s.out ++ leBytes 4 x } k' s' hs hrun
        refine ⟨x :: xs, by rw [hk']; simp; omega, by simp [hx, hm], ?_⟩
        rw [hs']; simp

end

/-- `serialize_seq` & co. on a non-union node, the elements, `end` and `Drop` -/
def seqCore (ext : Ext) (a : Bool) (S : Schema) (n : Node) (len : Option Nat) (elems : List SV) :
    SerM Unit := do
  let k ← seqStartAt a S n len
  fun s => seqFinish (serElems ext a S k elems s)

/-- the per-node part of `Spec.seqDispatch` -/
def seqAtNode (S : Schema) (arr : Node → List Value → Bool) (asBytes : Option Bytes)
    (asU32 : List (Option Nat)) (n : Node) (v : Value) : Bool :=
  match n, v with
  | .array k, .array items =>
    (match S[k]? with
      | none => false
      | some item => arr item items)
  | .bytes, .bytes b => asBytes = some b
  | .fixed _ size, .fixed b => asBytes = some b && b.length = size
  | .duration, .duration mo d ms => asU32 = [some mo, some d, some ms]
  | _, _ => false

theorem finally_pure {α : Type} (m : SerM α) (s : SerState) : SerM.finally m (pure ()) s = m s := by
  simp only [SerM.finally, pure]

theorem finally_fail_not_ok {α : Type} (e : SerErr) (fin : SerM Unit) (s : SerState) (x : α) :
    (SerM.finally (SerM.fail e : SerM α) fin s).1 ≠ .ok x := by
  simp only [SerM.finally, SerM.fail]
  cases fin s with
  | mk r s' => cases r <;> simp

theorem encodeLong_zero : encodeLong 0 = [0] := by
  unfold encodeLong zigzag; simp; unfold encodeNat; simp

theorem u8List_length {elems : List SV} {b : Bytes} (h : u8List elems = some b) :
    b.length = elems.length := by
  induction elems generalizing b with
  | nil => simp [u8List] at h; subst h; rfl
  | cons e rest ih =>
    simp only [u8List] at h
    cases h1 : u8Like e with
    | none => simp [h1] at h
    | some x =>
      cases h2 : u8List rest with
      | none => simp [h1, h2] at h
      | some bs =>
        simp [h1, h2] at h; subst h
        simp [ih h2]

theorem popBuffer_good {s : SerState} (hs : Good s) :
    ∃ buf s1, popBuffer s = (.ok buf, s1) ∧ buf.data = [] ∧ s1.out = s.out ∧ Good s1 := by
  unfold popBuffer
  cases hb : s.pool.buffers with
  | nil => exact ⟨_, s, rfl, rfl, rfl, hs⟩
  | cons b rest =>
    have hclean := hs.2.1
    rw [hb] at hclean
    have hbd : b.data = [] := hclean b (by simp)
    simp only [hbd, ne_eq, not_true_eq_false, if_false]
    refine ⟨b, _, rfl, hbd, rfl, hs.1, ?_, hs.2.2⟩
    intro b' hb'
    exact hclean b' (by simp [hb'])

theorem pushBuffer_good {s : SerState} (hs : Good s) (b : Buffer) (hb : b.data = []) :
    ∃ s1, pushBuffer b s = (.ok (), s1) ∧ s1.out = s.out ∧ Good s1 := by
  refine ⟨_, rfl, rfl, hs.1, ?_, hs.2.2⟩
  intro b' hb'
  simp only [List.mem_cons] at hb'
  rcases hb' with rfl | hb'
  · exact hb
  · exact hs.2.1 b' hb'


section
variable {ext : Ext} {a : Bool} {S : Schema}

theorem seqCore_array_sound (k : Nat) (hnok : NodeOK S (.array k)) (hS : SchemaOK S)
    (len : Option Nat) (elems : List SV) (hlen : elems.length < 2 ^ 63)
    (hIH : ∀ e ∈ elems, SerSound ext a S e) (s : SerState) (hs : Good s)
    (hok : (seqCore ext a S (.array k) len elems s).1 = .ok ()) :
    Res S (.array k) (seqCore ext a S (.array k) len elems) s (fun v =>
      seqAtNode S (fun item items => denotesList (denExtOf ext) S item elems items) (u8List elems)
        (elems.map u32Of) (.array k) v = true) := by
  have hkb : k < S.size := hnok.children k (by simp [Node.children])
  obtain ⟨item, hk⟩ : ∃ item, S[k]? = some item := ⟨S[k], by simp [hkb]⟩
  have hitem := hS k item hk
  generalize hL : len.getD 0 = L at *
  -- the header
  have hstart : seqStartAt a S (.array k) len s =
      (.ok (.array item L), { s with out := s.out ++ (if L > 0 then encodeVarI64 L else []) }) := by
    simp only [seqStartAt, bind, nodeAt, hk, pure, blockNew, hL]
    by_cases h0 : L > 0
    · simp [h0, writeVarI64_none _ s hs.1]
    · simp [h0]
  unfold Res
  simp only [seqCore, bind, hstart] at hok ⊢
  generalize hs1 : ({ s with out := s.out ++ (if L > 0 then encodeVarI64 L else []) } : SerState) = s1
    at hok ⊢
  have hg1 : Good s1 := by subst hs1; exact hs.append _
  cases hrun : serElems ext a S (.array item L) elems s1 with
  | mk r s2 =>
    rw [hrun] at hok
    cases r with
    | error ek =>
      exfalso
      obtain ⟨e, k'⟩ := ek
      exact finally_fail_not_ok e _ _ _ hok
    | ok k' =>
      obtain ⟨c', vs, bytes, hk', hout, hg2, hcle, hdl, htail⟩ :=
        serElems_array_sound item hitem elems hIH L s1 k' s2 hg1 hrun
      subst hk'
      simp only [seqFinish, seqEnd, seqDrop, finally_pure, blockEnd] at hok ⊢
      by_cases hc' : c' ≠ 0
      · simp [hc', SerM.fail] at hok
      · have hc0 : c' = 0 := by omega
        subst hc0
        have hL63 : L < 2 ^ 63 := by omega
        simp only [ne_eq, not_true_eq_false, if_false,
          writeVarI64_spec 0 (by decide) s2 hg2.1, encodeLong_zero]
        have ht := htail [0] [] ⟨[], [0], [], [], rfl, rfl, DecItems.nil, DecBlocks.end_⟩
        obtain ⟨b1, b2, v1, v2, hb, hv, hi, hbl⟩ := ht
        rw [List.append_nil] at hv
        have hblocks : DecBlocks S item ((if L > 0 then encodeLong L else []) ++ (bytes ++ [0])) vs := by
          by_cases h0 : L > 0
          · simp only [h0, if_true]
            rw [hb, hv, ← List.append_assoc]
            exact DecBlocks.block h0 hL63 hi hbl
          · have : L = 0 := by omega
            subst this
            obtain ⟨rfl, rfl⟩ := hi.nil_inv
            simp only [h0, if_false, List.nil_append]
            rw [hb, hv]; simpa using hbl
        refine ⟨_, .array vs, (if L > 0 then encodeLong L else []) ++ (bytes ++ [0]), rfl, ?_,
          hg2.append _, Dec.array hk hblocks, ?_⟩
        · simp only [hout, ← hs1]
          by_cases h0 : L > 0
          · simp [h0, encodeVarI64_eq_spec _ (inI64_of_lt hL63)]
          · simp [h0]
        · simp [seqAtNode, hk, hdl]

end

theorem seqDrop_good {s : SerState} (hs : Good s) (k : SeqKind) :
    ∃ s1, seqDrop k s = (.ok (), s1) ∧ s1.out = s.out ∧ Good s1 := by
  cases k with
  | buffered buf =>
    simp only [seqDrop]
    by_cases hcap : buf.cap = true
    · rw [if_pos hcap]; exact pushBuffer_good hs _ rfl
    · rw [if_neg hcap]; exact ⟨s, rfl, rfl, hs⟩
  | _ => exact ⟨s, rfl, rfl, hs⟩

theorem finally_ok {m : SerM Unit} {fin : SerM Unit} {s s1 s2 : SerState}
    (h1 : m s = (.ok (), s1)) (h2 : fin s1 = (.ok (), s2)) :
    SerM.finally m fin s = (.ok (), s2) := by
  simp only [SerM.finally, h1, h2]

theorem finally_ok_inv {m : SerM Unit} {fin : SerM Unit} {s : SerState}
    (h : (SerM.finally m fin s).1 = .ok ()) : (m s).1 = .ok () := by
  simp only [SerM.finally] at h
  cases hm : m s with
  | mk r s1 =>
    rw [hm] at h
    simp only [] at h
    cases hf : fin s1 with
    | mk r2 s2 =>
      rw [hf] at h
      cases r2 <;> simp_all

section
variable {ext : Ext} {a : Bool} {S : Schema}

theorem seqCore_bytes_sound (len : Option Nat) (elems : List SV) (hlen : elems.length < 2 ^ 63)
    (s : SerState) (hs : Good s)
    (hok : (seqCore ext a S .bytes len elems s).1 = .ok ()) :
    Res S .bytes (seqCore ext a S .bytes len elems) s (fun v =>
      seqAtNode S (fun item items => denotesList (denExtOf ext) S item elems items) (u8List elems)
        (elems.map u32Of) .bytes v = true) := by
  unfold Res
  cases a with
  | false => simp [seqCore, seqStartAt, bind, SerM.fail] at hok
  | true =>
    cases len with
    | none =>
      obtain ⟨buf, s1, hpop, hbd, hout1, hg1⟩ := popBuffer_good hs
      simp only [seqCore, seqStartAt, bind, hpop, pure, Bool.not_true, Bool.false_eq_true,
        if_false] at hok ⊢
      cases hrun : serElems ext true S (.buffered buf) elems s1 with
      | mk r s2 =>
        rw [hrun] at hok
        cases r with
        | error ek => exfalso; obtain ⟨e, k'⟩ := ek; exact finally_fail_not_ok e _ _ _ hok
        | ok k' =>
          obtain ⟨b, buf', hk', hu, hs2, hd⟩ := serElems_buffered_sound elems buf s1 k' s2 hrun
          subst hk' hs2
          rw [hbd, List.nil_append] at hd
          have hbl : b.length < 2 ^ 63 := by rw [u8List_length hu]; exact hlen
          obtain ⟨s3, hdrop, hout3, hg3⟩ := seqDrop_good (hg1.append (lenPrefixed b)) (.buffered buf')
          have hend : seqEnd (.buffered buf') s2 = (.ok (), { s2 with out := s2.out ++ lenPrefixed b }) := by
            simp only [seqEnd, hd, writeLengthDelimited_none b hbl s2 hg1.1]
          refine ⟨s3, .bytes b, lenPrefixed b, finally_ok hend hdrop, by rw [hout3, hout1], hg3,
            Dec.of_encode (by simp [encode, hbl]), by simp [seqAtNode, hu]⟩
    | some l =>
      simp only [seqCore, seqStartAt, bind, pure, Bool.not_true, Bool.false_eq_true,
        if_false, writeVarI64_none _ s hs.1] at hok ⊢
      generalize hs1 : ({ s with out := s.out ++ encodeVarI64 l } : SerState) = s1 at hok ⊢
      have hg1 : Good s1 := by subst hs1; exact hs.append _
      cases hrun : serElems ext true S (.fixed l) elems s1 with
      | mk r s2 =>
        rw [hrun] at hok
        cases r with
        | error ek => exfalso; obtain ⟨e, k'⟩ := ek; exact finally_fail_not_ok e _ _ _ hok
        | ok k' =>
          obtain ⟨b, n', hk', hu, hs2, hn⟩ := serElems_fixed_sound elems l s1 k' s2 hg1.1 hrun
          subst hk'
          simp only [seqFinish, seqEnd, seqDrop, finally_pure] at hok ⊢
          by_cases hn0 : n' ≠ 0
          · simp [hn0, SerM.fail] at hok
          · have : n' = 0 := by omega
            subst this
            have hbl : b.length < 2 ^ 63 := by rw [u8List_length hu]; exact hlen
            have hl : l = b.length := by omega
            simp only [ne_eq, not_true_eq_false, if_false, pure]
            refine ⟨s2, .bytes b, lenPrefixed b, rfl, ?_, ?_, Dec.of_encode (by simp [encode, hbl]),
              by simp [seqAtNode, hu]⟩
            · rw [hs2, ← hs1, hl, encodeVarI64_eq_spec _ (inI64_of_lt hbl)]
              simp [lenPrefixed]
            · rw [hs2]; exact hg1.append _

theorem seqCore_fixed_sound (nm : Name) (size : Nat) (len : Option Nat) (elems : List SV)
    (s : SerState) (hs : Good s)
    (hok : (seqCore ext a S (.fixed nm size) len elems s).1 = .ok ()) :
    Res S (.fixed nm size) (seqCore ext a S (.fixed nm size) len elems) s (fun v =>
      seqAtNode S (fun item items => denotesList (denExtOf ext) S item elems items) (u8List elems)
        (elems.map u32Of) (.fixed nm size) v = true) := by
  have hstart : seqStartAt a S (.fixed nm size) len s = (.ok (.fixed size), s) := by
    cases a with
    | false => simp [seqCore, seqStartAt, bind, SerM.fail] at hok
    | true =>
      cases len with
      | none => rfl
      | some l =>
        by_cases hl : l ≠ size
        · simp [seqCore, seqStartAt, bind, SerM.fail, hl] at hok
        · simp [seqStartAt, hl, pure]
  unfold Res
  simp only [seqCore, bind, hstart] at hok ⊢
  cases hrun : serElems ext a S (.fixed size) elems s with
  | mk r s2 =>
    rw [hrun] at hok
    cases r with
    | error ek => exfalso; obtain ⟨e, k'⟩ := ek; exact finally_fail_not_ok e _ _ _ hok
    | ok k' =>
      obtain ⟨b, n', hk', hu, hs2, hn⟩ := serElems_fixed_sound elems size s k' s2 hs.1 hrun
      subst hk'
      simp only [seqFinish, seqEnd, seqDrop, finally_pure] at hok ⊢
      by_cases hn0 : n' ≠ 0
      · simp [hn0, SerM.fail] at hok
      · have : n' = 0 := by omega
        subst this
        have hl : b.length = size := by omega
        simp only [ne_eq, not_true_eq_false, if_false, pure]
        refine ⟨s2, .fixed b, b, rfl, by rw [hs2], by rw [hs2]; exact hs.append _, Dec.fixed hl,
          by simp [seqAtNode, hu, hl]⟩

theorem seqCore_duration_sound (len : Option Nat) (elems : List SV)
    (s : SerState) (hs : Good s)
    (hok : (seqCore ext a S .duration len elems s).1 = .ok ()) :
    Res S .duration (seqCore ext a S .duration len elems) s (fun v =>
      seqAtNode S (fun item items => denotesList (denExtOf ext) S item elems items) (u8List elems)
        (elems.map u32Of) .duration v = true) := by
  have hstart : seqStartAt a S .duration len s = (.ok (.duration 0), s) := by
    cases len with
    | none => rfl
    | some l =>
      by_cases hl : l ≠ 3
      · simp [seqCore, seqStartAt, bind, SerM.fail, hl] at hok
      · simp [seqStartAt, hl, pure]
  unfold Res
  simp only [seqCore, bind, hstart] at hok ⊢
  cases hrun : serElems ext a S (.duration 0) elems s with
  | mk r s2 =>
    rw [hrun] at hok
    cases r with
    | error ek => exfalso; obtain ⟨e, k'⟩ := ek; exact finally_fail_not_ok e _ _ _ hok
    | ok k' =>
      obtain ⟨xs, hk', hm, hs2⟩ := serElems_duration_sound elems 0 s k' s2 hs.1 hrun
      subst hk'
      simp only [seqFinish, seqEnd, seqDrop, finally_pure] at hok ⊢
      by_cases hn0 : 0 + xs.length ≠ 3
      · have : ¬ xs.length = 3 := by omega
        simp [this, SerM.fail] at hok
      · rw [if_neg hn0]
        have hx3 : xs.length = 3 := by omega
        match xs, hx3 with
        | [x, y, z], _ =>
          have hlt : ∀ w ∈ [x, y, z], w < 2 ^ 32 := by
            intro w hw
            have : some w ∈ List.map u32Of elems := by rw [hm]; exact List.mem_map_of_mem hw
            obtain ⟨e, _, he⟩ := List.mem_map.1 this
            exact u32Of_lt he
          have hx := hlt x (by simp)
          have hy := hlt y (by simp)
          have hz := hlt z (by simp)
          refine ⟨s2, .duration x y z, leBytes 4 x ++ leBytes 4 y ++ leBytes 4 z, rfl, ?_, ?_,
            Dec.of_encode (by simp [encode, hx, hy, hz]), by simp [seqAtNode, hm]⟩
          · rw [hs2]; simp
          · rw [hs2]; exact hs.append _

end

theorem seqDispatch_nonunion {S : Schema} {node : Node} {name : Option String} {v : Value}
    {arr : Node → List Value → Bool} {ab : Option Bytes} {au : List (Option Nat)}
    (hu : node.isUnion = false) :
    seqDispatch S node name v arr ab au = seqAtNode S arr ab au node v := by
  cases node <;> first | rfl | simp [Node.isUnion] at hu

theorem seqDispatch_union {S : Schema} {vs : List Nat} {name : Option String} {d k : Nat} {n : Node}
    {y : Value} {arr : Node → List Value → Bool} {ab : Option Bytes} {au : List (Option Nat)}
    (hk : vs[d]? = some k) (hn : S[k]? = some n) (hu : n.isUnion = false)
    (hname : nameAgrees S (.union vs) name d = true)
    (h : seqAtNode S arr ab au n y = true) :
    seqDispatch S (.union vs) name (.union d y) arr ab au = true := by
  simp only [seqDispatch, unionBranch, hk, hn, hname, Bool.true_and]
  cases n <;> first | exact h | simp [Node.isUnion] at hu

section
variable {ext : Ext} {a : Bool} {S : Schema}

theorem seqCore_sound (hS : SchemaOK S) (n : Node) (hnok : NodeOK S n)
    (len : Option Nat) (elems : List SV) (hlen : elems.length < 2 ^ 63)
    (hIH : ∀ e ∈ elems, SerSound ext a S e) (s : SerState) (hs : Good s)
    (hok : (seqCore ext a S n len elems s).1 = .ok ()) :
    Res S n (seqCore ext a S n len elems) s (fun v =>
      seqAtNode S (fun item items => denotesList (denExtOf ext) S item elems items) (u8List elems)
        (elems.map u32Of) n v = true) := by
  cases n
  case array k => exact seqCore_array_sound k hnok hS len elems hlen hIH s hs hok
  case bytes => exact seqCore_bytes_sound len elems hlen s hs hok
  case fixed nm size => exact seqCore_fixed_sound nm size len elems s hs hok
  case duration => exact seqCore_duration_sound len elems s hs hok
  all_goals simp [seqCore, seqStartAt, bind, SerM.fail] at hok

/-- the body shared by `seq`, `tuple`, `tuple_struct` (and `tuple_variant` after the by-name
    lookup) -/
def seqBody (ext : Ext) (a : Bool) (S : Schema) (node : Node) (len : Option Nat) (elems : List SV) :
    SerM Unit := do
  let k ← seqStart a S node len
  fun s => seqFinish (serElems ext a S k elems s)

theorem seqBody_eq (node : Node) (len : Option Nat) (elems : List SV) :
    seqBody ext a S node len elems =
      viaUnion S node .seqOrTuple (fun n => seqCore ext a S n len elems) := by
  unfold seqBody seqStart seqCore
  exact viaUnion_bind S node .seqOrTuple _ _

theorem seqBody_sound (hS : SchemaOK S) (node : Node) (hnok : NodeOK S node)
    (len : Option Nat) (elems : List SV) (hlen : elems.length < 2 ^ 63)
    (hIH : ∀ e ∈ elems, SerSound ext a S e) (s : SerState) (hs : Good s)
    (hok : (seqBody ext a S node len elems s).1 = .ok ()) :
    Res S node (seqBody ext a S node len elems) s (fun v =>
      (node.isUnion = false ∧
        seqAtNode S (fun item items => denotesList (denExtOf ext) S item elems items) (u8List elems)
          (elems.map u32Of) node v = true) ∨
      (∃ vs d k n y, node = .union vs ∧ v = .union d y ∧ vs[d]? = some k ∧ S[k]? = some n ∧
        n.isUnion = false ∧
        seqAtNode S (fun item items => denotesList (denExtOf ext) S item elems items) (u8List elems)
          (elems.map u32Of) n y = true)) := by
  rw [seqBody_eq] at hok ⊢
  exact viaUnion_sound hS hnok _ _ _ s hs
    (fun n s hs _ hn hok => seqCore_sound hS n hn len elems hlen hIH s hs hok) hok

end

/-! ### Maps -/

/-- a length-prefixed UTF-8 string the decoder reads back -/
def DecStr (b : Bytes) (k : String) : Prop := ∀ rest, decodeString (b ++ rest) = some (k, rest)

theorem DecStr.of_utf8 {k : String} (h : (utf8 k).length < 2 ^ 63) :
    DecStr (lenPrefixed (utf8 k)) k := fun rest => decodeString_lenPrefixed k h rest

theorem Dec.string_inv {S : Schema} {b : Bytes} {v : Value} (h : Dec S .string b v) :
    ∃ k, v = .string k ∧ DecStr b k := by
  obtain ⟨N, hN⟩ := h
  have h0 := hN (N + 1) (by omega) []
  simp only [decode, List.append_nil] at h0
  cases hd : decodeString b with
  | none => simp [hd] at h0
  | some p =>
    obtain ⟨k, r⟩ := p
    simp only [hd, Option.map_some, Option.some.injEq, Prod.mk.injEq] at h0
    obtain ⟨rfl, rfl⟩ := h0
    refine ⟨k, rfl, fun rest => ?_⟩
    have h1 := hN (N + 1) (by omega) rest
    simp only [decode] at h1
    cases hd' : decodeString (b ++ rest) with
    | none => simp [hd'] at h1
    | some p' =>
      obtain ⟨k', r'⟩ := p'
      simp only [hd', Option.map_some, Option.some.injEq, Prod.mk.injEq, Value.string.injEq] at h1
      obtain ⟨rfl, rfl⟩ := h1
      rfl

theorem DecMapItems.nil {S : Schema} {item : Node} : DecMapItems S item 0 [] [] :=
  ⟨0, fun fuel _ rest => by simp [decodeMapItems]⟩

theorem DecMapItems.nil_inv {S : Schema} {item : Node} {b : Bytes} {vs : List (String × Value)}
    (h : DecMapItems S item 0 b vs) : b = [] ∧ vs = [] := by
  obtain ⟨N, hN⟩ := h
  have := hN N (Nat.le_refl _) []
  simp only [decodeMapItems, List.append_nil, Option.some.injEq, Prod.mk.injEq] at this
  exact ⟨this.2, this.1.symm⟩

theorem DecMapItems.cons {S : Schema} {item : Node} {c : Nat} {bk b bs : Bytes} {k : String}
    {v : Value} {vs : List (String × Value)} (h0 : DecStr bk k) (h1 : Dec S item b v)
    (h2 : DecMapItems S item c bs vs) :
    DecMapItems S item (c + 1) (bk ++ (b ++ bs)) ((k, v) :: vs) := by
  obtain ⟨N1, hN1⟩ := h1
  obtain ⟨N2, hN2⟩ := h2
  refine ⟨max N1 N2 + 1, fun fuel hf rest => ?_⟩
  obtain ⟨g, rfl⟩ : ∃ g, fuel = g + 1 := ⟨fuel - 1, by omega⟩
  simp only [decodeMapItems, List.append_assoc, h0 (b ++ (bs ++ rest)),
    hN1 g (by omega) (bs ++ rest), hN2 g (by omega) rest]

theorem DecMapBlocks.end_ {S : Schema} {item : Node} : DecMapBlocks S item [0] [] :=
  ⟨1, fun fuel hf rest => by
    obtain ⟨g, rfl⟩ : ∃ g, fuel = g + 1 := ⟨fuel - 1, by omega⟩
    simp [decodeMapBlocks, decodeBlockHeader_zero]⟩

theorem DecMapBlocks.block {S : Schema} {item : Node} {c : Nat} {b1 b2 : Bytes}
    {vs1 vs2 : List (String × Value)}
    (hc : 0 < c) (hc' : c < 2 ^ 63) (h1 : DecMapItems S item c b1 vs1)
    (h2 : DecMapBlocks S item b2 vs2) :
    DecMapBlocks S item (encodeLong c ++ b1 ++ b2) (vs1 ++ vs2) := by
  obtain ⟨N1, hN1⟩ := h1
  obtain ⟨N2, hN2⟩ := h2
  refine ⟨max N1 N2 + 1, fun fuel hf rest => ?_⟩
  obtain ⟨g, rfl⟩ : ∃ g, fuel = g + 1 := ⟨fuel - 1, by omega⟩
  obtain ⟨c', rfl⟩ : ∃ c', c = c' + 1 := ⟨c - 1, by omega⟩
  show decodeMapBlocks S (g + 1) item _ = _
  rw [decodeMapBlocks, List.append_assoc, List.append_assoc, decodeBlockHeader_encodeLong _ hc']
  simp only [hN1 g (by omega) (b2 ++ rest), hN2 g (by omega) rest]

theorem Dec.map {S : Schema} {k : Nat} {item : Node} {b : Bytes} {vs : List (String × Value)}
    (hk : S[k]? = some item) (h : DecMapBlocks S item b vs) : Dec S (.map k) b (.map vs) := by
  obtain ⟨N, hN⟩ := h
  refine ⟨N + 1, fun fuel hf rest => ?_⟩
  obtain ⟨g, rfl⟩ : ∃ g, fuel = g + 1 := ⟨fuel - 1, by omega⟩
  simp only [decode, nodeOf, hk, hN g (by omega) rest, Option.map_some]

def DecMapTail (S : Schema) (item : Node) (c : Nat) (B : Bytes) (V : List (String × Value)) : Prop :=
  ∃ b1 b2 v1 v2, B = b1 ++ b2 ∧ V = v1 ++ v2 ∧ DecMapItems S item c b1 v1 ∧ DecMapBlocks S item b2 v2

theorem DecMapTail.cons_in_block {S : Schema} {item : Node} {n : Nat} {bk b B : Bytes} {k : String}
    {v : Value} {V : List (String × Value)} (h0 : DecStr bk k) (h1 : Dec S item b v)
    (h2 : DecMapTail S item n B V) :
    DecMapTail S item (n + 1) (bk ++ (b ++ B)) ((k, v) :: V) := by
  obtain ⟨b1, b2, v1, v2, rfl, rfl, hi, hb⟩ := h2
  exact ⟨bk ++ (b ++ b1), b2, (k, v) :: v1, v2, by simp, by simp, DecMapItems.cons h0 h1 hi, hb⟩

theorem DecMapTail.cons_new_block {S : Schema} {item : Node} {bk b B : Bytes} {k : String}
    {v : Value} {V : List (String × Value)} (h0 : DecStr bk k) (h1 : Dec S item b v)
    (h2 : DecMapTail S item 0 B V) :
    DecMapTail S item 0 (encodeLong 1 ++ (bk ++ (b ++ B))) ((k, v) :: V) := by
  obtain ⟨b1, b2, v1, v2, rfl, rfl, hi, hb⟩ := h2
  obtain ⟨rfl, rfl⟩ := hi.nil_inv
  refine ⟨[], encodeLong 1 ++ (bk ++ (b ++ b2)), [], (k, v) :: v2, by simp, by simp,
    DecMapItems.nil, ?_⟩
  have := DecMapBlocks.block (c := 1) (by omega) (by omega)
    (DecMapItems.cons h0 h1 DecMapItems.nil) hb
  simpa using this


section
variable {ext : Ext} {a : Bool} {S : Schema}

theorem serFields_map_sound (item : Node) (hitem : NodeOK S item) (fields : List (String × SV))
    (hIH : ∀ p ∈ fields, (utf8 p.1).length < 2 ^ 63 ∧ SerSound ext a S p.2) :
    ∀ c s k' s', Good s → serFields ext a S (.map item c) fields s = (.ok k', s') →
    ∃ c' ents bytes, k' = .map item c' ∧ s'.out = s.out ++ bytes ∧ Good s' ∧
      c ≤ c' + fields.length ∧
      denotesMapFields (denExtOf ext) S item fields ents = true ∧
      ∀ tB tV, DecMapTail S item c' tB tV → DecMapTail S item c (bytes ++ tB) (ents ++ tV) := by
  induction fields with
  | nil =>
    intro c s k' s' hs hrun
    simp only [serFields, Prod.mk.injEq, Except.ok.injEq] at hrun
    obtain ⟨rfl, rfl⟩ := hrun
    exact ⟨c, [], [], rfl, by simp, hs, by simp, by simp [denotesMapFields],
      fun tB tV h => by simpa using h⟩
  | cons p rest ih =>
    obtain ⟨name, sv⟩ := p
    intro c s k' s' hs hrun
    have ihr := ih (fun p hp => hIH p (List.mem_cons_of_mem _ hp))
    obtain ⟨hname, he⟩ := hIH (name, sv) (List.mem_cons_self ..)
    simp only [] at hname he
    simp only [serFields] at hrun
    -- the block signal and the key
    obtain ⟨c1, hdr, hc1, hsig⟩ : ∃ c1 hdr, (c = 0 ∧ c1 = 0 ∧ hdr = encodeLong 1 ∨ c = c1 + 1 ∧ hdr = []) ∧
        (do let c ← blockSignal c; writeLengthDelimited (strBytes name); pure c : SerM Nat) s =
          (.ok c1, { s with out := s.out ++ (hdr ++ lenPrefixed (utf8 name)) }) := by
      cases c with
      | zero =>
        refine ⟨0, encodeLong 1, Or.inl ⟨rfl, rfl, rfl⟩, ?_⟩
        simp only [bind, blockSignal_zero s hs.1, strBytes_eq_utf8]
        rw [writeLengthDelimited_none (utf8 name) hname _
          (show ({ s with out := s.out ++ encodeLong 1 } : SerState).budget = none from hs.1)]
        simp [pure]
      | succ n =>
        refine ⟨n, [], Or.inr ⟨rfl, rfl⟩, ?_⟩
        simp only [bind, blockSignal_succ, strBytes_eq_utf8,
          writeLengthDelimited_none _ hname s hs.1, pure, List.nil_append]
    rw [hsig] at hrun
    simp only [] at hrun
    generalize hs1 : ({ s with out := s.out ++ (hdr ++ lenPrefixed (utf8 name)) } : SerState) = s1 at hrun
    have hg1 : Good s1 := by subst hs1; exact hs.append _
    cases hser : ser ext a S item sv s1 with
    | mk r s2 =>
      rw [hser] at hrun
      cases r with
      | error err => simp at hrun
      | ok u =>
        simp only [] at hrun
        obtain ⟨s2', v, be, hrun2, hout2, hg2, hdec, hden⟩ := he item s1 hitem hg1 (by rw [hser])
        rw [hser] at hrun2
        simp only [Prod.mk.injEq, true_and] at hrun2
        subst hrun2
        obtain ⟨c', ents, bytes, hk', hout, hg', hcle, hdl, htail⟩ := ihr c1 s2 k' s' hg2 hrun
        refine ⟨c', (name, v) :: ents, hdr ++ (lenPrefixed (utf8 name) ++ (be ++ bytes)), hk', ?_, hg', ?_, ?_, ?_⟩
        · rw [hout, hout2, ← hs1]; simp
        · rcases hc1 with ⟨rfl, rfl, _⟩ | ⟨rfl, _⟩ <;> simp <;> omega
        · simp [denotesMapFields, hden, hdl]
        · intro tB tV ht
          have hstr := DecStr.of_utf8 hname
          rcases hc1 with ⟨rfl, rfl, rfl⟩ | ⟨rfl, rfl⟩
          · have := DecMapTail.cons_new_block hstr hdec (htail tB tV ht)
            simpa using this
          · have := DecMapTail.cons_in_block hstr hdec (htail tB tV ht)
            simpa using this

theorem serEntries_map_sound (item : Node) (hitem : NodeOK S item) (entries : List (SV × SV))
    (hstr : NodeOK S .string)
    (hIH : ∀ p ∈ entries, SerSound ext a S p.1 ∧ SerSound ext a S p.2) :
    ∀ c s k' s', Good s → serEntries ext a S (.map item c) entries s = (.ok k', s') →
    ∃ c' ents bytes, k' = .map item c' ∧ s'.out = s.out ++ bytes ∧ Good s' ∧
      c ≤ c' + entries.length ∧
      denotesMapEntries (denExtOf ext) S item entries ents = true ∧
      ∀ tB tV, DecMapTail S item c' tB tV → DecMapTail S item c (bytes ++ tB) (ents ++ tV) := by
  induction entries with
  | nil =>
    intro c s k' s' hs hrun
    simp only [serEntries, Prod.mk.injEq, Except.ok.injEq] at hrun
    obtain ⟨rfl, rfl⟩ := hrun
    exact ⟨c, [], [], rfl, by simp, hs, by simp, by simp [denotesMapEntries],
      fun tB tV h => by simpa using h⟩
  | cons p rest ih =>
    obtain ⟨key, sv⟩ := p
    intro c s k' s' hs hrun
    have ihr := ih (fun p hp => hIH p (List.mem_cons_of_mem _ hp))
    obtain ⟨hkey, he⟩ := hIH (key, sv) (List.mem_cons_self ..)
    simp only [] at hkey he
    simp only [serEntries] at hrun
    obtain ⟨c1, hdr, hc1, hsig⟩ : ∃ c1 hdr, (c = 0 ∧ c1 = 0 ∧ hdr = encodeLong 1 ∨ c = c1 + 1 ∧ hdr = []) ∧
        blockSignal c s = (.ok c1, { s with out := s.out ++ hdr }) := by
      cases c with
      | zero => exact ⟨0, encodeLong 1, Or.inl ⟨rfl, rfl, rfl⟩, blockSignal_zero s hs.1⟩
      | succ n => exact ⟨n, [], Or.inr ⟨rfl, rfl⟩, by simp [blockSignal_succ]⟩
    rw [hsig] at hrun
    simp only [] at hrun
    generalize hs1 : ({ s with out := s.out ++ hdr } : SerState) = s1 at hrun
    have hg1 : Good s1 := by subst hs1; exact hs.append _
    cases hserk : ser ext a S .string key s1 with
    | mk rk sk =>
      rw [hserk] at hrun
      cases rk with
      | error err => simp at hrun
      | ok u =>
        simp only [] at hrun
        obtain ⟨sk', kv, bk, hrunk, houtk, hgk, hdeck, hdenk⟩ := hkey .string s1 hstr hg1 (by rw [hserk])
        rw [hserk] at hrunk
        simp only [Prod.mk.injEq, true_and] at hrunk
        subst hrunk
        obtain ⟨kstr, rfl, hdstr⟩ := hdeck.string_inv
        cases hser : ser ext a S item sv sk with
        | mk r s2 =>
          rw [hser] at hrun
          cases r with
          | error err => simp at hrun
          | ok u =>
            simp only [] at hrun
            obtain ⟨s2', v, be, hrun2, hout2, hg2, hdec, hden⟩ := he item sk hitem hgk (by rw [hser])
            rw [hser] at hrun2
            simp only [Prod.mk.injEq, true_and] at hrun2
            subst hrun2
            obtain ⟨c', ents, bytes, hk', hout, hg', hcle, hdl, htail⟩ := ihr c1 s2 k' s' hg2 hrun
            refine ⟨c', (kstr, v) :: ents, hdr ++ (bk ++ (be ++ bytes)), hk', ?_, hg', ?_, ?_, ?_⟩
            · rw [hout, hout2, houtk, ← hs1]; simp
            · rcases hc1 with ⟨rfl, rfl, _⟩ | ⟨rfl, _⟩ <;> simp <;> omega
            · simp [denotesMapEntries, hdenk, hden, hdl]
            · intro tB tV ht
              rcases hc1 with ⟨rfl, rfl, rfl⟩ | ⟨rfl, rfl⟩
              · have := DecMapTail.cons_new_block hdstr hdec (htail tB tV ht)
                simpa using this
              · have := DecMapTail.cons_in_block hdstr hdec (htail tB tV ht)
                simpa using this

end

def cntSome (vals : List (Option Nat)) : Nat := vals.countP Option.isSome

theorem durationFieldIdx_cases {name : String} {i : Nat} (h : durationFieldIdx name = some i) :
    (i = 0 ∧ name = "months") ∨ (i = 1 ∧ name = "days") ∨ (i = 2 ∧ name = "milliseconds") := by
  unfold durationFieldIdx at h
  split at h
  · simp at h; left; exact ⟨h.symm, ‹_›⟩
  · split at h
    · simp at h; right; left; exact ⟨h.symm, ‹_›⟩
    · split at h
      · simp at h; right; right; exact ⟨h.symm, ‹_›⟩
      · simp at h

section
variable {ext : Ext} {a : Bool} {S : Schema}

theorem serFields_duration_sound (fields : List (String × SV)) :
    ∀ vals s k' s', vals.length = 3 →
    serFields ext a S (.duration vals) fields s = (.ok k', s') →
    ∃ vals', k' = .duration vals' ∧ s' = s ∧ vals'.length = 3 ∧
      cntSome vals' = cntSome vals + fields.length ∧
      (∀ p ∈ fields, ∃ i x, durationFieldIdx p.1 = some i ∧ u32Of p.2 = some x ∧
        vals'[i]? = some (some x)) ∧
      (∀ (i x : Nat), vals[i]? = some (some x) → vals'[i]? = some (some x)) ∧
      (∀ (i x : Nat), vals'[i]? = some (some x) →
        vals[i]? = some (some x) ∨ ∃ p ∈ fields, durationFieldIdx p.1 = some i) := by
  induction fields with
  | nil =>
    intro vals s k' s' hl hrun
    simp only [serFields, Prod.mk.injEq, Except.ok.injEq] at hrun
    obtain ⟨rfl, rfl⟩ := hrun
    exact ⟨vals, rfl, rfl, hl, by simp, by simp, fun i x h => h, fun i x h => Or.inl h⟩
  | cons p rest ih =>
    obtain ⟨name, sv⟩ := p
    intro vals s k' s' hl hrun
    simp only [serFields] at hrun
    cases hi : durationFieldIdx name with
    | none => simp [hi] at hrun
    | some i =>
      simp only [hi] at hrun
      have hi3 : i < 3 := by rcases durationFieldIdx_cases hi with ⟨h, _⟩ | ⟨h, _⟩ | ⟨h, _⟩ <;> omega
      have hnone : vals[i]? = some none := by
        cases hv : vals[i]? with
        | none => simp at hv; omega
        | some o =>
          cases o with
          | none => rfl
          | some y => simp [hv] at hrun
      simp only [hnone] at hrun
      rw [extractU32_eq] at hrun
      cases hx : u32Of sv with
      | none => simp [hx] at hrun
      | some x =>
        simp only [hx] at hrun
        obtain ⟨vals', hk', hs', hl', hcnt, hmem, hmono, hinv⟩ :=
          ih (vals.set i (some x)) s k' s' (by simp [hl]) hrun
        have hseti : (vals.set i (some x))[i]? = some (some x) := by
          simp [hl, hi3]
        have hsetj : ∀ j, j ≠ i → (vals.set i (some x))[j]? = vals[j]? := by
          intro j hj; simp [Ne.symm hj]
        refine ⟨vals', hk', hs', hl', ?_, ?_, ?_, ?_⟩
        · rw [hcnt]
          have : cntSome (vals.set i (some x)) = cntSome vals + 1 := by
            match vals, hl with
            | [v0, v1, v2], _ =>
              have : i = 0 ∨ i = 1 ∨ i = 2 := by omega
              rcases this with rfl | rfl | rfl <;> simp at hnone <;> subst hnone <;>
                simp [cntSome, List.countP_cons] <;> omega
          rw [this]; simp; omega
        · intro p hp
          simp only [List.mem_cons] at hp
          rcases hp with rfl | hp
          · exact ⟨i, x, hi, hx, hmono i x hseti⟩
          · exact hmem p hp
        · intro j y hj
          by_cases hji : j = i
          · subst hji; rw [hnone] at hj; simp at hj
          · exact hmono j y (by rw [hsetj j hji]; exact hj)
        · intro j y hj
          rcases hinv j y hj with h1 | ⟨p, hp, hpj⟩
          · by_cases hji : j = i
            · subst hji; right; exact ⟨(name, sv), by simp, hi⟩
            · left; rw [← hsetj j hji]; exact h1
          · right; exact ⟨p, by simp [hp], hpj⟩

end

def Impl.StructKind.isMap : StructKind → Bool
  | .map _ _ => true
  | _ => false

theorem keyStr_some {key : SV} {name : String} (h : keyStr key = some name) : key = .str name := by
  cases key <;> simp [keyStr] at h
  subst h; rfl

section
variable {ext : Ext} {a : Bool} {S : Schema}

/-- on a record or duration state, map-presented entries behave as struct-presented fields -/
theorem serEntries_eq_serFields (entries : List (SV × SV)) :
    ∀ (fields : List (String × SV)) (k : StructKind) (s : SerState), k.isMap = false →
    strKeys entries = some fields →
    serEntries ext a S k entries s = serFields ext a S k fields s := by
  induction entries with
  | nil =>
    intro fields k s hk h
    simp [strKeys] at h; subst h
    simp [serEntries, serFields]
  | cons p rest ih =>
    obtain ⟨key, v⟩ := p
    intro fields k s hk h
    cases key <;> simp only [strKeys, reduceCtorEq] at h
    rename_i name
    cases hr : strKeys rest with
    | none => simp [hr] at h
    | some fr =>
      simp only [hr, Option.map_some, Option.some.injEq] at h
      subst h
      cases k with
      | map _ _ => simp [StructKind.isMap] at hk
      | record sf rs =>
        simp only [serEntries, serFields, keyStr]
        cases fieldIdx sf rs name with
        | error e => rfl
        | ok idx =>
          simp only []
          cases recordValue S sf rs idx (fun node => ser ext a S node v) s with
          | mk r s1 =>
            cases r with
            | error e => rfl
            | ok rs' => exact ih fr _ s1 rfl hr
      | duration vals =>
        simp only [serEntries, serFields, keyStr]
        cases durationFieldIdx name with
        | none => rfl
        | some i =>
          simp only []
          split
          · rfl
          · cases extractU32 v with
            | none => rfl
            | some x => exact ih fr _ s rfl hr

theorem serEntries_ok_strKeys (entries : List (SV × SV)) :
    ∀ (k : StructKind) (s : SerState) (k' : StructKind) (s' : SerState), k.isMap = false →
    serEntries ext a S k entries s = (.ok k', s') → ∃ fields, strKeys entries = some fields := by
  induction entries with
  | nil => intro k s k' s' _ _; exact ⟨[], rfl⟩
  | cons p rest ih =>
    obtain ⟨key, v⟩ := p
    intro k s k' s' hk hrun
    cases k with
    | map _ _ => simp [StructKind.isMap] at hk
    | record sf rs =>
      simp only [serEntries] at hrun
      cases hks : keyStr key with
      | none => simp [hks] at hrun
      | some name =>
        have := keyStr_some hks; subst this
        simp only [hks] at hrun
        cases hfi : fieldIdx sf rs name with
        | error e => simp [hfi] at hrun
        | ok idx =>
          simp only [hfi] at hrun
          cases hrv : recordValue S sf rs idx (fun node => ser ext a S node v) s with
          | mk r s1 =>
            rw [hrv] at hrun
            cases r with
            | error e => simp at hrun
            | ok rs' =>
              obtain ⟨fr, hfr⟩ := ih _ s1 k' s' rfl hrun
              exact ⟨(name, v) :: fr, by simp [strKeys, hfr]⟩
    | duration vals =>
      simp only [serEntries] at hrun
      cases hks : keyStr key with
      | none => simp [hks] at hrun
      | some name =>
        have := keyStr_some hks; subst this
        simp only [hks] at hrun
        cases hi : durationFieldIdx name with
        | none => simp [hi] at hrun
        | some i =>
          simp only [hi] at hrun
          split at hrun
          · simp at hrun
          · cases hx : extractU32 v with
            | none => simp [hx] at hrun
            | some x =>
              simp only [hx] at hrun
              obtain ⟨fr, hfr⟩ := ih _ s k' s' rfl hrun
              exact ⟨(name, v) :: fr, by simp [strKeys, hfr]⟩

end

/-- the per-node part of `Spec.structDispatch` -/
def structAtNode (S : Schema) (presented : List String)
    (recF : List (String × Nat) → List Value → Bool)
    (mapF : Node → List (String × Value) → Bool)
    (durF : Nat → Nat → Nat → Bool) (n : Node) (v : Value) : Bool :=
  match n, v with
  | .record _ schemaFields, .record vals =>
    recordComplete S schemaFields presented vals && recF schemaFields vals
  | .map k, .map entries =>
    (match S[k]? with
      | none => false
      | some item => mapF item entries)
  | .duration, .duration mo d ms => durationComplete presented && durF mo d ms
  | _, _ => false

theorem structDispatch_nonunion {S : Schema} {node : Node} {name : Option String} {v : Value}
    {presented : List String} {recF : List (String × Nat) → List Value → Bool}
    {mapF : Node → List (String × Value) → Bool} {durF : Nat → Nat → Nat → Bool}
    (hu : node.isUnion = false) :
    structDispatch S node name v presented recF mapF durF =
      structAtNode S presented recF mapF durF node v := by
  cases node <;> first | rfl | simp [Node.isUnion] at hu

theorem structDispatch_union {S : Schema} {vs : List Nat} {name : Option String} {d k : Nat}
    {n : Node} {y : Value}
    {presented : List String} {recF : List (String × Nat) → List Value → Bool}
    {mapF : Node → List (String × Value) → Bool} {durF : Nat → Nat → Nat → Bool}
    (hk : vs[d]? = some k) (hn : S[k]? = some n) (hu : n.isUnion = false)
    (hname : nameAgrees S (.union vs) name d = true)
    (h : structAtNode S presented recF mapF durF n y = true) :
    structDispatch S (.union vs) name (.union d y) presented recF mapF durF = true := by
  simp only [structDispatch, unionBranch, hk, hn, hname, Bool.true_and]
  cases n <;> first | exact h | simp [Node.isUnion] at hu

/-- body of a struct/map presentation after node selection, for an abstract field loop `run` -/
def structCore (S : Schema) (n : Node) (len : Nat) (durLen : Option Nat)
    (run : StructKind → SerState → Except (SerErr × StructKind) StructKind × SerState) : SerM Unit := do
  let k ← structStartAt S n len durLen
  fun s => structBodyFinish S (run k s)

theorem structDrop_nonrecord {k : StructKind} (h : ∀ f rs, k ≠ .record f rs) : structDrop k = pure () := by
  cases k <;> first | rfl | exact absurd rfl (h _ _)

section
variable {S : Schema}

theorem structCore_map_sound (k : Nat) (hnok : NodeOK S (.map k)) (L : Nat) (durLen : Option Nat)
    (run : StructKind → SerState → Except (SerErr × StructKind) StructKind × SerState)
    (cnt : Nat) (hcnt : cnt < 2 ^ 63) (den : Node → List (String × Value) → Bool)
    (hrun : ∀ item, S[k]? = some item → ∀ c s k' s', Good s → run (.map item c) s = (.ok k', s') →
      ∃ c' ents bytes, k' = .map item c' ∧ s'.out = s.out ++ bytes ∧ Good s' ∧ c ≤ c' + cnt ∧
        den item ents = true ∧
        ∀ tB tV, DecMapTail S item c' tB tV → DecMapTail S item c (bytes ++ tB) (ents ++ tV))
    (s : SerState) (hs : Good s)
    (hok : (structCore S (.map k) L durLen run s).1 = .ok ()) :
    Res S (.map k) (structCore S (.map k) L durLen run) s (fun v =>
      ∃ item ents, S[k]? = some item ∧ v = .map ents ∧ den item ents = true) := by
  have hkb : k < S.size := hnok.children k (by simp [Node.children])
  obtain ⟨item, hk⟩ : ∃ item, S[k]? = some item := ⟨S[k], by simp [hkb]⟩
  have hstart : structStartAt S (.map k) L durLen s =
      (.ok (.map item L), { s with out := s.out ++ (if L > 0 then encodeVarI64 L else []) }) := by
    simp only [structStartAt, bind, nodeAt, hk, pure, blockNew]
    by_cases h0 : L > 0
    · simp [h0, writeVarI64_none _ s hs.1]
    · simp [h0]
  unfold Res
  simp only [structCore, bind, hstart] at hok ⊢
  generalize hs1 : ({ s with out := s.out ++ (if L > 0 then encodeVarI64 L else []) } : SerState) = s1
    at hok ⊢
  have hg1 : Good s1 := by subst hs1; exact hs.append _
  cases hr : run (.map item L) s1 with
  | mk r s2 =>
    rw [hr] at hok
    cases r with
    | error ek =>
      exfalso
      obtain ⟨e, k'⟩ := ek
      exact finally_fail_not_ok e _ _ _ hok
    | ok k' =>
      obtain ⟨c', ents, bytes, hk', hout, hg2, hcle, hden, htail⟩ := hrun item hk L s1 k' s2 hg1 hr
      subst hk'
      simp only [structBodyFinish, structFinish, structEnd, TrM.lift, bind, blockEnd] at hok ⊢
      by_cases hc' : c' ≠ 0
      · simp [hc', SerM.fail] at hok
        exact absurd hok (finally_fail_not_ok _ _ _ _)
      · have hc0 : c' = 0 := by omega
        subst hc0
        have hL63 : L < 2 ^ 63 := by omega
        simp only [ne_eq, not_true_eq_false, if_false,
          writeVarI64_spec 0 (by decide) s2 hg2.1, encodeLong_zero, pure, structDrop, SerM.finally]
        have ht := htail [0] [] ⟨[], [0], [], [], rfl, rfl, DecMapItems.nil, DecMapBlocks.end_⟩
        obtain ⟨b1, b2, v1, v2, hb, hv, hi, hbl⟩ := ht
        rw [List.append_nil] at hv
        have hblocks : DecMapBlocks S item ((if L > 0 then encodeLong L else []) ++ (bytes ++ [0])) ents := by
          by_cases h0 : L > 0
          · simp only [h0, if_true]
            rw [hb, hv, ← List.append_assoc]
            exact DecMapBlocks.block h0 hL63 hi hbl
          · have : L = 0 := by omega
            subst this
            obtain ⟨rfl, rfl⟩ := hi.nil_inv
            simp only [h0, if_false, List.nil_append]
            rw [hb, hv]; simpa using hbl
        refine ⟨_, .map ents, (if L > 0 then encodeLong L else []) ++ (bytes ++ [0]), rfl, ?_,
          hg2.append _, Dec.map hk hblocks, item, ents, hk, rfl, hden⟩
        simp only [hout, ← hs1]
        by_cases h0 : L > 0
        · simp [h0, encodeVarI64_eq_spec _ (inI64_of_lt hL63)]
        · simp [h0]

end

theorem denotesDurFields_of {mo d ms : Nat} (fields : List (String × SV))
    (h : ∀ p ∈ fields, ∃ x, durField p.1 mo d ms = some x ∧ u32Of p.2 = some x) :
    denotesDurFields mo d ms fields = true := by
  induction fields with
  | nil => rfl
  | cons p rest ih =>
    obtain ⟨name, sv⟩ := p
    obtain ⟨x, h1, h2⟩ := h (name, sv) (by simp)
    simp only [] at h1 h2
    simp [denotesDurFields, h1, h2, ih (fun p hp => h p (by simp [hp]))]

section
variable {ext : Ext} {a : Bool} {S : Schema}

theorem structCore_duration_sound (L : Nat) (durLen : Option Nat) (fields : List (String × SV))
    (s : SerState) (hs : Good s)
    (hok : (structCore S .duration L durLen (fun k s => serFields ext a S k fields s) s).1 = .ok ()) :
    Res S .duration (structCore S .duration L durLen (fun k s => serFields ext a S k fields s)) s
      (fun v => ∃ mo d ms, v = .duration mo d ms ∧
        durationComplete (fields.map (·.1)) = true ∧ denotesDurFields mo d ms fields = true) := by
  have hstart : structStartAt S .duration L durLen s = (.ok (.duration [none, none, none]), s) := by
    cases durLen with
    | none => rfl
    | some l =>
      by_cases hl : l ≠ 3
      · simp [structCore, structStartAt, bind, SerM.fail, hl] at hok
      · simp [structStartAt, hl, pure]
  unfold Res
  simp only [structCore, bind, hstart] at hok ⊢
  cases hrun : serFields ext a S (.duration [none, none, none]) fields s with
  | mk r s2 =>
    rw [hrun] at hok
    cases r with
    | error ek => exfalso; obtain ⟨e, k'⟩ := ek; exact finally_fail_not_ok e _ _ _ hok
    | ok k' =>
      obtain ⟨vals', hk', hs2, hl', hcnt, hmem, _, hinv⟩ :=
        serFields_duration_sound fields [none, none, none] s k' s2 rfl hrun
      subst hk' hs2
      simp only [structBodyFinish, structFinish] at hok ⊢
      match vals', hl' with
      | [o0, o1, o2], _ =>
        cases o0 with
        | none => simp only [structEnd] at hok; exact absurd hok (finally_fail_not_ok _ _ _ _)
        | some x0 =>
        cases o1 with
        | none => simp only [structEnd] at hok; exact absurd hok (finally_fail_not_ok _ _ _ _)
        | some x1 =>
        cases o2 with
        | none => simp only [structEnd] at hok; exact absurd hok (finally_fail_not_ok _ _ _ _)
        | some x2 =>
          have hlen : fields.length = 3 := by
            simp [cntSome] at hcnt; omega
          -- who set each slot
          have hsrc : ∀ (i x : Nat), [some x0, some x1, some x2][i]? = some (some x) →
              ∃ p ∈ fields, durationFieldIdx p.1 = some i := by
            intro i x hx
            rcases hinv i x hx with h1 | h1
            · have : i < 3 := by
                cases hi : [some x0, some x1, some x2][i]? with
                | none => rw [hi] at hx; simp at hx
                | some _ => have := (List.getElem?_eq_some_iff.1 hi).1; simpa using this
              have : i = 0 ∨ i = 1 ∨ i = 2 := by omega
              rcases this with rfl | rfl | rfl <;> simp at h1
            · exact h1
          have hval : ∀ p ∈ fields, ∃ x, durField p.1 x0 x1 x2 = some x ∧ u32Of p.2 = some x := by
            intro p hp
            obtain ⟨i, x, hi, hx, hv⟩ := hmem p hp
            refine ⟨x, ?_, hx⟩
            rcases durationFieldIdx_cases hi with ⟨rfl, hn⟩ | ⟨rfl, hn⟩ | ⟨rfl, hn⟩ <;>
              simp at hv <;> subst hv <;> simp [durField, hn]
          have hlt : ∀ (i x : Nat), [some x0, some x1, some x2][i]? = some (some x) → x < 2 ^ 32 := by
            intro i x hx
            obtain ⟨p, hp, hpi⟩ := hsrc i x hx
            obtain ⟨j, y, hj, hy, hv⟩ := hmem p hp
            rw [hpi] at hj; simp at hj; subst hj
            rw [hx] at hv; simp at hv; subst hv
            exact u32Of_lt hy
          have h0 := hlt 0 x0 (by simp)
          have h1 := hlt 1 x1 (by simp)
          have h2 := hlt 2 x2 (by simp)
          have hcontains : ∀ (i : Nat) (nm : String), (∀ name, durationFieldIdx name = some i → name = nm) →
              (∃ x, [some x0, some x1, some x2][i]? = some (some x)) →
              (fields.map (·.1)).contains nm = true := by
            intro i nm hnm ⟨x, hx⟩
            obtain ⟨p, hp, hpi⟩ := hsrc i x hx
            have := hnm p.1 hpi
            simp only [List.contains_eq_mem, List.mem_map, decide_eq_true_eq]
            exact ⟨p, hp, this⟩
          have hc0 := hcontains 0 "months" (fun name h => by
            rcases durationFieldIdx_cases h with ⟨_, hn⟩ | ⟨h', _⟩ | ⟨h', _⟩ <;> first | exact hn | omega)
            ⟨x0, by simp⟩
          have hc1 := hcontains 1 "days" (fun name h => by
            rcases durationFieldIdx_cases h with ⟨h', _⟩ | ⟨_, hn⟩ | ⟨h', _⟩ <;> first | exact hn | omega)
            ⟨x1, by simp⟩
          have hc2 := hcontains 2 "milliseconds" (fun name h => by
            rcases durationFieldIdx_cases h with ⟨h', _⟩ | ⟨h', _⟩ | ⟨_, hn⟩ <;> first | exact hn | omega)
            ⟨x2, by simp⟩
          simp only [structEnd, TrM.lift, bind, writeAll_none _ s2 hs.1, pure, structDrop,
            SerM.finally]
          refine ⟨_, .duration x0 x1 x2, leBytes 4 x0 ++ leBytes 4 x1 ++ leBytes 4 x2, rfl, rfl,
            hs.append _, Dec.of_encode (by simp [encode, h0, h1, h2]), x0, x1, x2, rfl, ?_,
            denotesDurFields_of fields hval⟩
          simp only [durationComplete, List.length_map, hlen, hc0, hc1, hc2, decide_true, Bool.and_self]

end
end Avro
