import AvroModel.Spec.Pcf
import AvroModel.Lemmas.SchemaParse
/-
C08 (the canonical form is the specification's): first half.

The specification's transformation (`Spec/Pcf.lean`, on JSON documents) read on the raw schema
tree `RawSchema` the parser builds from the document (`rawOfJson`):
`canonRaw`, `scanRaw` and `raw_of_json_spec : rawOfJson fuel j = .ok raw →
  canon enc j = canonRaw enc raw ∧ scan enc j D = scanRaw enc raw D`.
-/
namespace Avro.PcfSpec
open Avro Avro.Impl Avro.Spec Avro.Spec.Pcf

/-! ### type names -/

def typeText : RawType → String
  | .null => "null" | .boolean => "boolean" | .int => "int" | .long => "long"
  | .float => "float" | .double => "double" | .bytes => "bytes" | .string => "string"
  | .array => "array" | .map => "map" | .record => "record" | .enum => "enum" | .fixed => "fixed"

theorem ofString_some {s t} (h : RawType.ofString s = some t) : s = typeText t := by
  unfold RawType.ofString at h
  split at h <;> first | (cases h; rfl) | cases h

theorem ofString_none {s} (h : RawType.ofString s = none) : isPrimitive s = false := by
  unfold RawType.ofString at h
  split at h <;> first | cases h | skip
  rename_i h1 h2 h3 h4 h5 h6 h7 h8 h9 h10 h11 h12 h13
  simp only [isPrimitive, primitiveNames, List.contains_cons, List.contains_nil, Bool.or_false,
    Bool.or_eq_false_iff, beq_eq_false_iff_ne, ne_eq]
  exact ⟨h1, h2, h3, h4, h5, h6, h7, h8⟩

/-! ### the transformation on raw schema trees -/

/-- what `canon` makes of a schema object, given the canonical forms of its parts -/
def canonParts (enc : Option String) (t : RawType) (name nsAttr : Option String)
    (symbols : Option (List String)) (size : Option Nat)
    (cfields : Option String → Option (List Json)) (citems cvalues : Option Json) : Option Json :=
  match t with
  | .array => citems.map fun c => .obj [("type", .str "array"), ("items", c)]
  | .map => cvalues.map fun c => .obj [("type", .str "map"), ("values", c)]
  | .enum =>
    match name, symbols with
    | some name, some syms =>
      some (.obj [("name", .str (fullnameText (fullnameOfDef name nsAttr enc))),
                  ("type", .str "enum"),
                  ("symbols", .arr (syms.map Json.str))])
    | _, _ => none
  | .fixed =>
    match name, size with
    | some name, some size =>
      some (.obj [("name", .str (fullnameText (fullnameOfDef name nsAttr enc))),
                  ("type", .str "fixed"),
                  ("size", .nat size)])
    | _, _ => none
  | .record =>
    match name with
    | none => none
    | some name =>
      (cfields (fullnameOfDef name nsAttr enc).1).map fun fs =>
        .obj [("name", .str (fullnameText (fullnameOfDef name nsAttr enc))),
              ("type", .str "record"),
              ("fields", .arr fs)]
  | t => some (.str (typeText t))

mutual

def canonRaw (enc : Option String) : RawSchema → Option Json
  | .type t =>
    if isPrimitive (typeText t) then some (.str (typeText t))
    else some (.str (fullnameText (fullnameOfRef (typeText t) enc)))
  | .ref r => some (.str (fullnameText (fullnameOfRef r enc)))
  | .union bs => (canonRawList enc bs).map Json.arr
  | .object a fields items values =>
    canonParts enc a.type a.name a.nsAttr a.symbols a.size
      (fun ns => canonRawOFields ns fields) (canonRawO enc items) (canonRawO enc values)

def canonRawO (enc : Option String) : Option RawSchema → Option Json
  | none => none
  | some r => canonRaw enc r

def canonRawOFields (enc : Option String) : Option (List (String × RawSchema)) → Option (List Json)
  | none => none
  | some fs => canonRawFields enc fs

def canonRawList (enc : Option String) : List RawSchema → Option (List Json)
  | [] => some []
  | r :: rest =>
    match canonRaw enc r, canonRawList enc rest with
    | some c, some cs => some (c :: cs)
    | _, _ => none

def canonRawFields (enc : Option String) : List (String × RawSchema) → Option (List Json)
  | [] => some []
  | (name, r) :: rest =>
    match canonRaw enc r, canonRawFields enc rest with
    | some c, some cs => some (.obj [("name", .str name), ("type", c)] :: cs)
    | _, _ => none

end

/-- what `scan` makes of a schema object, given the scans of its parts -/
def scanParts (enc : Option String) (t : RawType) (name nsAttr : Option String)
    (sfields : Option String → List Fullname → Option (List Fullname))
    (sitems svalues : List Fullname → Option (List Fullname)) (D : List Fullname) :
    Option (List Fullname) :=
  match t with
  | .array => sitems D
  | .map => svalues D
  | .enum | .fixed =>
    match name with
    | some name => some (fullnameOfDef name nsAttr enc :: D)
    | none => some D
  | .record =>
    match name with
    | some name => sfields (fullnameOfDef name nsAttr enc).1 (fullnameOfDef name nsAttr enc :: D)
    | none => some D
  | _ => some D

mutual

def scanRaw (enc : Option String) : RawSchema → List Fullname → Option (List Fullname)
  | .type t, D =>
    if isPrimitive (typeText t) then some D
    else if D.contains (fullnameOfRef (typeText t) enc) then some D else none
  | .ref r, D => if D.contains (fullnameOfRef r enc) then some D else none
  | .union bs, D => scanRawList enc bs D
  | .object a fields items values, D =>
    scanParts enc a.type a.name a.nsAttr (fun ns D => scanRawOFields ns fields D)
      (scanRawO enc items) (scanRawO enc values) D

def scanRawO (enc : Option String) : Option RawSchema → List Fullname → Option (List Fullname)
  | none, D => some D
  | some r, D => scanRaw enc r D

def scanRawOFields (enc : Option String) :
    Option (List (String × RawSchema)) → List Fullname → Option (List Fullname)
  | none, D => some D
  | some fs, D => scanRawFields enc fs D

def scanRawList (enc : Option String) : List RawSchema → List Fullname → Option (List Fullname)
  | [], D => some D
  | r :: rest, D =>
    match scanRaw enc r D with
    | some D' => scanRawList enc rest D'
    | none => none

def scanRawFields (enc : Option String) :
    List (String × RawSchema) → List Fullname → Option (List Fullname)
  | [], D => some D
  | (_, r) :: rest, D =>
    match scanRaw enc r D with
    | some D' => scanRawFields enc rest D'
    | none => none

end

/-! ### attribute lookups -/

theorem member_attr {ms : List (String × Json)} {key : String} {r : Option Json}
    (h : member ms key = .ok r) : attr key ms = r := by
  induction ms with
  | nil => simp [member] at h; subst h; rfl
  | cons p rest ih =>
    obtain ⟨k, v⟩ := p
    by_cases hk : k = key
    · subst hk
      simp only [attr, if_true]
      unfold member at h
      simp only [List.filter_cons, decide_true, if_true] at h
      split at h
      · rename_i heq; cases heq
      · rename_i v' heq
        simp only [List.cons.injEq, Prod.mk.injEq] at heq
        simp only [Except.ok.injEq] at h
        rw [← h, heq.1.2]
      · cases h
    · simp only [attr, hk, if_false]
      apply ih
      unfold member at h ⊢
      simpa [List.filter_cons, hk] using h

theorem canonAttr_eq (enc : Option String) (key : String) (ms : List (String × Json)) :
    canonAttr enc key ms = (attr key ms).bind (canon enc) := by
  induction ms with
  | nil => simp [canonAttr, attr]
  | cons p rest ih =>
    obtain ⟨k, v⟩ := p
    by_cases hk : k = key <;> simp [canonAttr, attr, hk, ih]

theorem fieldsAttr_eq (enc : Option String) (ms : List (String × Json)) :
    fieldsAttr enc ms =
      match attr "fields" ms with
      | some (.arr fs) => canonFields enc fs
      | _ => none := by
  induction ms with
  | nil => simp [fieldsAttr, attr]
  | cons p rest ih =>
    obtain ⟨k, v⟩ := p
    by_cases hk : k = "fields"
    · cases v <;> simp only [fieldsAttr, attr, hk, if_true]
    · cases v <;> simp only [fieldsAttr, attr, hk, if_false, ih]

theorem scanAttr_eq (enc : Option String) (key : String) (ms : List (String × Json))
    (D : List Fullname) :
    scanAttr enc key ms D =
      match attr key ms with
      | some v => scan enc v D
      | none => some D := by
  induction ms with
  | nil => simp [scanAttr, attr]
  | cons p rest ih =>
    obtain ⟨k, v⟩ := p
    by_cases hk : k = key <;> simp [scanAttr, attr, hk, ih]

theorem scanFieldsAttr_eq (enc : Option String) (ms : List (String × Json)) (D : List Fullname) :
    scanFieldsAttr enc ms D =
      match attr "fields" ms with
      | some (.arr fs) => scanFields enc fs D
      | _ => some D := by
  induction ms with
  | nil => simp [scanFieldsAttr, attr]
  | cons p rest ih =>
    obtain ⟨k, v⟩ := p
    by_cases hk : k = "fields"
    · cases v <;> simp only [scanFieldsAttr, attr, hk, if_true]
    · cases v <;> simp only [scanFieldsAttr, attr, hk, if_false, ih]

/-! ### the stages of `rawObjectOfJson` -/

def stType (ms : List (String × Json)) : Except SchemaErr RawType :=
  match member ms "type" with
  | .error e => .error e
  | .ok (some (.str s)) => (match RawType.ofString s with
    | some t => .ok t
    | none => .error .json)
  | .ok _ => .error .json

def stStr (ms : List (String × Json)) (key : String) : Except SchemaErr (Option String) := do
  optString (← member ms key)

def stNat (ms : List (String × Json)) (key : String) (max : Nat) :
    Except SchemaErr (Option Nat) := do
  optNat (← member ms key) max

def stFields (fuel : Nat) (ms : List (String × Json)) :
    Except SchemaErr (Option (List (String × RawSchema))) :=
  match member ms "fields" with
  | .error e => .error e
  | .ok none | .ok (some .null) => .ok none
  | .ok (some (.arr items)) => (match rawFieldsOfJson fuel items with
    | .ok fs => .ok (some fs)
    | .error e => .error e)
  | .ok (some _) => .error .json

def stSymbols (ms : List (String × Json)) : Except SchemaErr (Option (List String)) :=
  match member ms "symbols" with
  | .error e => .error e
  | .ok none | .ok (some .null) => .ok none
  | .ok (some (.arr items)) =>
    (match items.mapM (fun j => match j with | .str s => some s | _ => none) with
      | some l => .ok (some l)
      | none => .error .json)
  | .ok (some _) => .error .json

def stSchema (fuel : Nat) (ms : List (String × Json)) (key : String) :
    Except SchemaErr (Option RawSchema) :=
  match member ms key with
  | .error e => .error e
  | .ok none | .ok (some .null) => .ok none
  | .ok (some j) => (match rawOfJson fuel j with
    | .ok r => .ok (some r)
    | .error e => .error e)

theorem rawObjectOfJson_eq (fuel : Nat) (ms : List (String × Json)) :
    rawObjectOfJson (fuel + 1) ms = (do
      let ty ← stType ms
      let logicalType ← stStr ms "logicalType"
      let name ← stStr ms "name"
      let ns ← stStr ms "namespace"
      let fields ← stFields fuel ms
      let symbols ← stSymbols ms
      let items ← stSchema fuel ms "items"
      let values ← stSchema fuel ms "values"
      let size ← stNat ms "size" (2 ^ 64 - 1)
      let precision ← stNat ms "precision" (2 ^ 64 - 1)
      let scale ← stNat ms "scale" (2 ^ 32 - 1)
      pure (.object { type := ty, logicalType, name, nsAttr := ns, symbols, size, precision, scale }
        fields items values)) := by
  rw [rawObjectOfJson]
  rfl

theorem bind_ok {α β : Type} {x : Except SchemaErr α} {f : α → Except SchemaErr β} {b : β}
    (h : x >>= f = .ok b) : ∃ a, x = .ok a ∧ f a = .ok b := by
  cases x with
  | error e => cases h
  | ok a => exact ⟨a, rfl, h⟩

theorem stType_ok {ms t} (h : stType ms = .ok t) :
    ∃ s, strAttr "type" ms = some s ∧ RawType.ofString s = some t := by
  unfold stType at h
  split at h
  · cases h
  · rename_i s hm
    split at h
    · rename_i t' ho
      cases h
      exact ⟨s, by simp [strAttr, member_attr hm], ho⟩
    · cases h
  · cases h

theorem stStr_ok {ms key r} (h : stStr ms key = .ok r) : strAttr key ms = r := by
  unfold stStr at h
  obtain ⟨x, hm, ho⟩ := bind_ok h
  unfold strAttr
  rw [member_attr hm]
  unfold optString at ho
  split at ho
  · cases ho; rfl
  · cases ho; rfl
  · cases ho; rfl
  · cases ho

theorem stNat_ok {ms key max r} (h : stNat ms key max = .ok r) : natAttr key ms = r := by
  unfold stNat at h
  obtain ⟨x, hm, ho⟩ := bind_ok h
  unfold natAttr
  rw [member_attr hm]
  unfold optNat at ho
  split at ho
  · cases ho; rfl
  · cases ho; rfl
  · split at ho
    · cases ho; rfl
    · cases ho
  · cases ho

theorem mapM_strings (items : List Json) :
    items.mapM (fun j => match j with | .str s => some s | _ => none) = strings items := by
  induction items with
  | nil => rfl
  | cons j rest ih =>
    rw [List.mapM_cons, ih]
    cases j <;> simp [strings]
    · cases strings rest <;> rfl

theorem stSymbols_ok {ms r} (h : stSymbols ms = .ok r) : symbolsAttr ms = r := by
  unfold stSymbols at h
  unfold symbolsAttr
  split at h
  · cases h
  · rename_i hm; cases h; rw [member_attr hm]
  · rename_i hm; cases h; rw [member_attr hm]
  · rename_i items hm
    rw [member_attr hm]
    show strings items = r
    rw [← mapM_strings]
    split at h
    · rename_i l hl; cases h; exact hl
    · cases h
  · cases h

theorem stFields_ok {fuel ms r} (h : stFields fuel ms = .ok r) :
    (r = none ∧ (attr "fields" ms = none ∨ attr "fields" ms = some .null)) ∨
    ∃ its fs, attr "fields" ms = some (.arr its) ∧ rawFieldsOfJson fuel its = .ok fs ∧
      r = some fs := by
  unfold stFields at h
  split at h
  · cases h
  · rename_i hm; cases h; exact Or.inl ⟨rfl, Or.inl (member_attr hm)⟩
  · rename_i hm; cases h; exact Or.inl ⟨rfl, Or.inr (member_attr hm)⟩
  · rename_i items hm
    split at h
    · rename_i fs hf; cases h; exact Or.inr ⟨items, fs, member_attr hm, hf, rfl⟩
    · cases h
  · cases h

theorem stSchema_ok {fuel ms key r} (h : stSchema fuel ms key = .ok r) :
    (r = none ∧ (attr key ms = none ∨ attr key ms = some .null)) ∨
    ∃ j x, attr key ms = some j ∧ rawOfJson fuel j = .ok x ∧ r = some x := by
  unfold stSchema at h
  split at h
  · cases h
  · rename_i hm; cases h; exact Or.inl ⟨rfl, Or.inl (member_attr hm)⟩
  · rename_i hm; cases h; exact Or.inl ⟨rfl, Or.inr (member_attr hm)⟩
  · rename_i j hnn hm
    split at h
    · rename_i x hx; cases h; exact Or.inr ⟨j, x, member_attr hm, hx, rfl⟩
    · cases h

/-- the statement proved of each of the four mutually recursive readers -/
def JSpec (j : Json) (raw : RawSchema) : Prop :=
  ∀ enc, canon enc j = canonRaw enc raw ∧ ∀ D, scan enc j D = scanRaw enc raw D

theorem schemaAttr_spec {fuel ms key r}
    (ihJ : ∀ j raw, rawOfJson fuel j = .ok raw → JSpec j raw)
    (h : stSchema fuel ms key = .ok r) (enc : Option String) :
    canonAttr enc key ms = canonRawO enc r ∧
    ∀ D, scanAttr enc key ms D = scanRawO enc r D := by
  rcases stSchema_ok h with ⟨rfl, ha | ha⟩ | ⟨j, x, ha, hx, rfl⟩
  · simp [canonAttr_eq, scanAttr_eq, ha, canonRawO, scanRawO]
  · simp [canonAttr_eq, scanAttr_eq, ha, canonRawO, scanRawO, canon, scan]
  · obtain ⟨h1, h2⟩ := ihJ j x hx enc
    simp [canonAttr_eq, scanAttr_eq, ha, canonRawO, scanRawO, h1, h2]

theorem fieldsAttr_spec {fuel ms r}
    (ihF : ∀ js fs, rawFieldsOfJson fuel js = .ok fs →
      ∀ enc, canonFields enc js = canonRawFields enc fs ∧
        ∀ D, scanFields enc js D = scanRawFields enc fs D)
    (h : stFields fuel ms = .ok r) (enc : Option String) :
    fieldsAttr enc ms = canonRawOFields enc r ∧
    ∀ D, scanFieldsAttr enc ms D = scanRawOFields enc r D := by
  rcases stFields_ok h with ⟨rfl, ha | ha⟩ | ⟨its, fs, ha, hx, rfl⟩
  · simp [fieldsAttr_eq, scanFieldsAttr_eq, ha, canonRawOFields, scanRawOFields]
  · simp [fieldsAttr_eq, scanFieldsAttr_eq, ha, canonRawOFields, scanRawOFields]
  · obtain ⟨h1, h2⟩ := ihF its fs hx enc
    simp [fieldsAttr_eq, scanFieldsAttr_eq, ha, canonRawOFields, scanRawOFields, h1, h2]

theorem rawObject_spec {fuel ms raw}
    (ihJ : ∀ j raw, rawOfJson fuel j = .ok raw → JSpec j raw)
    (ihF : ∀ js fs, rawFieldsOfJson fuel js = .ok fs →
      ∀ enc, canonFields enc js = canonRawFields enc fs ∧
        ∀ D, scanFields enc js D = scanRawFields enc fs D)
    (h : rawObjectOfJson (fuel + 1) ms = .ok raw) : JSpec (.obj ms) raw := by
  rw [rawObjectOfJson_eq] at h
  obtain ⟨ty, hty, h⟩ := bind_ok h
  obtain ⟨lt, -, h⟩ := bind_ok h
  obtain ⟨name, hname, h⟩ := bind_ok h
  obtain ⟨ns, hns, h⟩ := bind_ok h
  obtain ⟨fields, hfields, h⟩ := bind_ok h
  obtain ⟨symbols, hsymbols, h⟩ := bind_ok h
  obtain ⟨items, hitems, h⟩ := bind_ok h
  obtain ⟨values, hvalues, h⟩ := bind_ok h
  obtain ⟨size, hsize, h⟩ := bind_ok h
  obtain ⟨precision, -, h⟩ := bind_ok h
  obtain ⟨scale, -, h⟩ := bind_ok h
  cases h
  obtain ⟨s, hs, hos⟩ := stType_ok hty
  have := ofString_some hos
  subst this
  have hname := stStr_ok hname
  have hns := stStr_ok hns
  have hsymbols := stSymbols_ok hsymbols
  have hsize := stNat_ok hsize
  have hI := schemaAttr_spec ihJ hitems
  have hV := schemaAttr_spec ihJ hvalues
  have hF := fieldsAttr_spec ihF hfields
  intro enc
  constructor
  · simp only [canon, canonRaw, hs]
    cases ty <;>
      simp [typeText, isPrimitive, primitiveNames, canonParts, hname, hns, hsymbols, hsize,
        (hI enc).1, (hV enc).1, (hF _).1]
    all_goals (cases name <;> cases symbols <;> cases size <;> rfl)
  · intro D
    simp only [scan, scanRaw, hs]
    cases ty <;>
      simp [typeText, scanParts, hname, hns, (hI enc).2, (hV enc).2, (hF _).2]
    all_goals (cases name <;> rfl)

def LSpec (js : List Json) (rs : List RawSchema) : Prop :=
  ∀ enc, canonList enc js = canonRawList enc rs ∧ ∀ D, scanList enc js D = scanRawList enc rs D

def FSpec (js : List Json) (fs : List (String × RawSchema)) : Prop :=
  ∀ enc, canonFields enc js = canonRawFields enc fs ∧
    ∀ D, scanFields enc js D = scanRawFields enc fs D

theorem raw_spec (fuel : Nat) :
    (∀ j raw, rawOfJson fuel j = .ok raw → JSpec j raw) ∧
    (∀ js rs, rawListOfJson fuel js = .ok rs → LSpec js rs) ∧
    (∀ ms raw, rawObjectOfJson fuel ms = .ok raw → JSpec (.obj ms) raw) ∧
    (∀ js fs, rawFieldsOfJson fuel js = .ok fs → FSpec js fs) := by
  induction fuel with
  | zero =>
    refine ⟨?_, ?_, ?_, ?_⟩
    · intro j raw h; simp [rawOfJson] at h
    · intro js rs h
      cases js with
      | nil =>
        simp [rawListOfJson] at h; subst h
        intro enc; simp [canonList, canonRawList, scanList, scanRawList]
      | cons j js => simp [rawListOfJson] at h
    · intro ms raw h; simp [rawObjectOfJson] at h
    · intro js fs h
      cases js with
      | nil =>
        simp [rawFieldsOfJson] at h; subst h
        intro enc; simp [canonFields, canonRawFields, scanFields, scanRawFields]
      | cons j js => simp [rawFieldsOfJson] at h
  | succ fuel ih =>
    obtain ⟨ihJ, ihL, ihO, ihF⟩ := ih
    refine ⟨?_, ?_, ?_, ?_⟩
    · intro j raw h
      cases j with
      | str s =>
        simp only [rawOfJson] at h
        cases ho : RawType.ofString s with
        | some t =>
          rw [ho] at h; cases h
          have := ofString_some ho; subst this
          intro enc
          exact ⟨by simp only [canon, canonRaw], fun D => by simp only [scan, scanRaw]⟩
        | none =>
          rw [ho] at h; cases h
          have hp := ofString_none ho
          intro enc
          exact ⟨by simp [canon, canonRaw, hp], fun D => by simp [scan, scanRaw, hp]⟩
      | arr items =>
        simp only [rawOfJson] at h
        split at h
        · rename_i l hl
          cases h
          intro enc
          obtain ⟨h1, h2⟩ := ihL _ _ hl enc
          exact ⟨by simp only [canon, canonRaw, h1], fun D => by simp only [scan, scanRaw, h2]⟩
        · cases h
      | obj ms =>
        simp only [rawOfJson] at h
        exact ihO _ _ h
      | null => simp [rawOfJson] at h
      | bool b => simp [rawOfJson] at h
      | nat n => simp [rawOfJson] at h
      | numOther => simp [rawOfJson] at h
    · intro js rs h
      cases js with
      | nil =>
        simp [rawListOfJson] at h; subst h
        intro enc; simp [canonList, canonRawList, scanList, scanRawList]
      | cons j js =>
        simp only [rawListOfJson] at h
        split at h
        · cases h
        · rename_i r hr
          split at h
          · cases h
          · rename_i rs' hrs
            cases h
            intro enc
            obtain ⟨h1, h2⟩ := ihJ _ _ hr enc
            obtain ⟨h3, h4⟩ := ihL _ _ hrs enc
            refine ⟨?_, fun D => ?_⟩
            · simp only [canonList, canonRawList, h1, h3]
              cases canonRaw enc r <;> cases canonRawList enc rs' <;> rfl
            · simp only [scanList, scanRawList, h2, h4]
              cases scanRaw enc r D <;> rfl
    · intro ms raw h
      exact rawObject_spec ihJ ihF h
    · intro js fs h
      cases js with
      | nil =>
        simp [rawFieldsOfJson] at h; subst h
        intro enc; simp [canonFields, canonRawFields, scanFields, scanRawFields]
      | cons j js =>
        cases j with
        | obj fm =>
          simp only [rawFieldsOfJson] at h
          split at h
          · rename_i name t hn ht
            split at h
            · cases h
            · rename_i r hr
              split at h
              · cases h
              · rename_i fs' hfs
                cases h
                intro enc
                obtain ⟨h1, h2⟩ := ihJ _ _ hr enc
                obtain ⟨h3, h4⟩ := ihF _ _ hfs enc
                have hname : strAttr "name" fm = some name := by
                  simp [strAttr, member_attr hn]
                have hty : attr "type" fm = some t := member_attr ht
                refine ⟨?_, fun D => ?_⟩
                · simp only [canonFields, canonRawFields, hname, canonAttr_eq, hty,
                    Option.bind_some, h1, h3]
                  cases canonRaw enc r <;> cases canonRawFields enc fs' <;> rfl
                · simp only [scanFields, scanRawFields, scanAttr_eq, hty, h2, h4]
                  cases scanRaw enc r D <;> rfl
          · cases h
        | null => simp [rawFieldsOfJson] at h
        | bool b => simp [rawFieldsOfJson] at h
        | nat n => simp [rawFieldsOfJson] at h
        | numOther => simp [rawFieldsOfJson] at h
        | str s => simp [rawFieldsOfJson] at h
        | arr l => simp [rawFieldsOfJson] at h

/-- The specification's transformation and reference check, read on the raw tree. -/
theorem raw_of_json_spec {fuel : Nat} {j : Json} {raw : RawSchema}
    (h : rawOfJson fuel j = .ok raw) (enc : Option String) :
    canon enc j = canonRaw enc raw ∧ ∀ D, scan enc j D = scanRaw enc raw D :=
  (raw_spec fuel).1 j raw h enc

end Avro.PcfSpec
