import AvroModel.Impl.Lifetimes
/-
The reference-counting invariant of the ownership-history model (`Impl/Lifetimes.lean`) and its
preservation by every API step.  Used by `Theorems/C10.lean`.
-/
namespace Avro.Lemmas.Lifetimes
open Avro.Impl.Lifetimes

/-- `omega` after exposing the id abbreviations as `Nat` -/
local macro "omega_ids" : tactic =>
  `(tactic| ((try simp only [AllocId, HandleId, ReaderId] at *) <;> omega))

/-- number of live references to allocation `a`: user handles `some a` plus readers that still hold
    their own `Arc` on `a`. -/
def refs (s : St) (a : Nat) : Nat :=
  s.handles.count (some a) + s.readers.countP (fun r => r.arcHeld && r.schema == a)

/-- The invariant of C10 (7):
    (a) `counts`: every allocation's strong count is the number of live references to it and it has
        been freed exactly when that count is 0;
    (b) `stateArc`: a reader whose state (pointers into the schema) is alive still holds its `Arc`;
    (c) `handleBound` / `readerBound`: ids name existing allocations. -/
structure Inv (s : St) : Prop where
  counts : ∀ (a : Nat) (al : Alloc), s.allocs[a]? = some al →
    al.strong = refs s a ∧ (al.freed = true ↔ al.strong = 0)
  stateArc : ∀ r ∈ s.readers, r.stateAlive = true → r.arcHeld = true
  handleBound : ∀ a : Nat, some a ∈ s.handles → a < s.allocs.length
  readerBound : ∀ r ∈ s.readers, r.schema < s.allocs.length

/-! ### `retain` / `release` -/

theorem retain_length (allocs : List Alloc) (a : Nat) :
    (retain allocs a).length = allocs.length := by
  unfold retain; split <;> simp

theorem release_length (allocs : List Alloc) (a : Nat) :
    (release allocs a).length = allocs.length := by
  unfold release; split <;> simp

theorem retain_getElem?_ne {allocs : List Alloc} {a a' : Nat} (h : a' ≠ a) :
    (retain allocs a)[a']? = allocs[a']? := by
  unfold retain; split
  · rfl
  · rw [List.getElem?_set]; simp [Ne.symm h]

theorem release_getElem?_ne {allocs : List Alloc} {a a' : Nat} (h : a' ≠ a) :
    (release allocs a)[a']? = allocs[a']? := by
  unfold release; split
  · rfl
  · rw [List.getElem?_set]; simp [Ne.symm h]

theorem retain_getElem?_self {allocs : List Alloc} {a : Nat} {al : Alloc}
    (h : allocs[a]? = some al) :
    (retain allocs a)[a]? = some { al with strong := al.strong + 1 } := by
  have hlt : a < allocs.length := (List.getElem?_eq_some_iff.1 h).1
  unfold retain; rw [h]; simp [hlt]

theorem release_getElem?_self {allocs : List Alloc} {a : Nat} {al : Alloc}
    (h : allocs[a]? = some al) :
    (release allocs a)[a]? =
      some { strong := al.strong - 1, freed := al.freed || (al.strong - 1 == 0) } := by
  have hlt : a < allocs.length := (List.getElem?_eq_some_iff.1 h).1
  unfold release; rw [h]; simp [hlt]

/-! ### consequences of the invariant -/

theorem refs_pos_of_handle {s : St} {a : Nat} (h : some a ∈ s.handles) : 0 < refs s a := by
  have := List.count_pos_iff.2 h
  unfold refs; omega

theorem refs_pos_of_reader {s : St} {r : RdHandle} (h : r ∈ s.readers) (harc : r.arcHeld = true) :
    0 < refs s r.schema := by
  have : 0 < s.readers.countP (fun x => x.arcHeld && x.schema == r.schema) :=
    List.countP_pos_iff.2 ⟨r, h, by simp [harc]⟩
  unfold refs; omega

theorem refs_fresh {s : St} (inv : Inv s) : refs s s.allocs.length = 0 := by
  unfold refs
  have h1 : s.handles.count (some s.allocs.length) = 0 :=
    List.count_eq_zero.2 fun h => Nat.lt_irrefl _ (inv.handleBound _ h)
  have h2 : s.readers.countP (fun r => r.arcHeld && r.schema == s.allocs.length) = 0 := by
    rw [List.countP_eq_zero]
    intro r hr
    have := inv.readerBound r hr
    simp; intro _; omega_ids
  omega

/-- a referenced allocation exists, has a positive strong count and is not freed. -/
theorem live_of_refs_pos {s : St} (inv : Inv s) {a : Nat} (hlt : a < s.allocs.length)
    (hpos : 0 < refs s a) :
    ∃ al, s.allocs[a]? = some al ∧ al.strong = refs s a ∧ al.freed = false := by
  refine ⟨s.allocs[a], by simp [hlt], ?_⟩
  have ⟨h1, h2⟩ := inv.counts a s.allocs[a] (by simp [hlt])
  refine ⟨h1, ?_⟩
  cases hf : s.allocs[a].freed
  · rfl
  · have := h2.1 hf; omega

theorem not_freed_of_refs_pos {s : St} (inv : Inv s) {a : Nat} (hlt : a < s.allocs.length)
    (hpos : 0 < refs s a) : isFreed s.allocs a = false := by
  rcases live_of_refs_pos inv hlt hpos with ⟨al, hal, _, hf⟩
  simp [isFreed, hal, hf]

/-! ### preservation, by kind of state change -/

theorem inv_init : Inv {} :=
  ⟨by intro a al h; simp at h, by intro r h; simp at h, by intro a h; simp at h,
   by intro r h; simp at h⟩

/-- a fresh allocation with one user handle (`newSchema`) -/
theorem inv_newHandle {s : St} (inv : Inv s) :
    Inv { s with allocs := s.allocs ++ [{ strong := 1 }],
                 handles := s.handles ++ [some s.allocs.length] } := by
  have hfresh := refs_fresh inv
  constructor
  · intro a al h
    simp only [refs, List.count_append, List.count_singleton] at hfresh ⊢
    rw [List.getElem?_append] at h
    split at h
    · rename_i hlt
      have := inv.counts a al h
      simp only [refs] at this
      have hne : ¬ (s.allocs.length = a) := by omega
      simp [hne]
      exact this
    · rename_i hge
      have : a = s.allocs.length := by
        cases hd : a - s.allocs.length with
        | zero => omega
        | succ k => simp [hd] at h
      subst this
      simp at h
      subst h
      simp
      omega
  · exact inv.stateArc
  · intro a h
    simp only [List.mem_append, List.mem_singleton, List.length_append, List.length_singleton] at h ⊢
    rcases h with h | h
    · have := inv.handleBound a h; omega
    · cases h; omega
  · intro r h
    have := inv.readerBound r h
    simp only [List.length_append, List.length_singleton]; omega_ids

/-- a fresh allocation owned by a new reader (`openReader`) -/
theorem inv_newReader {s : St} (inv : Inv s) :
    Inv { s with allocs := s.allocs ++ [{ strong := 1 }],
                 readers := s.readers ++
                   [{ schema := s.allocs.length, stateAlive := true, arcHeld := true }] } := by
  have hfresh := refs_fresh inv
  constructor
  · intro a al h
    simp only [refs, List.countP_append, List.countP_singleton] at hfresh ⊢
    rw [List.getElem?_append] at h
    split at h
    · rename_i hlt
      have := inv.counts a al h
      simp only [refs] at this
      have hne : ¬ (s.allocs.length = a) := by omega
      simp [hne]
      exact this
    · rename_i hge
      have : a = s.allocs.length := by
        cases hd : a - s.allocs.length with
        | zero => omega
        | succ k => simp [hd] at h
      subst this
      simp at h
      subst h
      simp
      omega
  · intro r h
    simp only [List.mem_append, List.mem_singleton] at h
    rcases h with h | rfl
    · exact inv.stateArc r h
    · intro _; rfl
  · intro a h
    have := inv.handleBound a h
    simp only [List.length_append, List.length_singleton]; omega
  · intro r h
    simp only [List.mem_append, List.mem_singleton, List.length_append, List.length_singleton] at h ⊢
    rcases h with h | rfl
    · have := inv.readerBound r h; omega_ids
    · simp

/-- one more user handle on an allocation that is already referenced (`cloneArc`,
    `readerSchema`) -/
theorem inv_addHandle {s : St} (inv : Inv s) {a : Nat} (hlt : a < s.allocs.length)
    (hpos : 0 < refs s a) :
    Inv { s with allocs := retain s.allocs a, handles := s.handles ++ [some a] } := by
  rcases live_of_refs_pos inv hlt hpos with ⟨al, hal, hstrong, hfreed⟩
  constructor
  · intro a' al' h
    simp only [refs, List.count_append, List.count_singleton] at hstrong hpos ⊢
    by_cases he : a' = a
    · subst he
      simp only at h
      rw [retain_getElem?_self hal] at h
      simp only [Option.some.injEq] at h
      subst h
      simp [hfreed]
      omega
    · simp only at h
      rw [retain_getElem?_ne he] at h
      have := inv.counts a' al' h
      simp only [refs] at this
      have hne : ¬ (a = a') := fun h => he h.symm
      simp [hne]
      exact this
  · exact inv.stateArc
  · intro a' h
    simp only [List.mem_append, List.mem_singleton, retain_length] at h ⊢
    rcases h with h | h
    · exact inv.handleBound a' h
    · cases h; exact hlt
  · intro r h
    simpa only [retain_length] using inv.readerBound r h

/-- a user handle is dropped (`dropHandle`) -/
theorem inv_dropHandle {s : St} (inv : Inv s) {h : HandleId} {a : Nat}
    (hh : s.handles[h]? = some (some a)) :
    Inv { s with allocs := release s.allocs a, handles := s.handles.set h none } := by
  have hmem : some a ∈ s.handles := List.mem_of_getElem? hh
  have hlt := inv.handleBound a hmem
  have hpos := refs_pos_of_handle hmem
  rcases live_of_refs_pos inv hlt hpos with ⟨al, hal, hstrong, hfreed⟩
  rcases List.getElem?_eq_some_iff.1 hh with ⟨hhlt, hget⟩
  have hcnt := List.count_pos_iff.2 hmem
  constructor
  · intro a' al' h'
    simp only [refs, List.count_set hhlt, hget] at hstrong hpos ⊢
    by_cases he : a' = a
    · subst he
      simp only at h'
      rw [release_getElem?_self hal] at h'
      simp only [Option.some.injEq] at h'
      subst h'
      simp [hfreed]
      omega
    · simp only at h'
      rw [release_getElem?_ne he] at h'
      have := inv.counts a' al' h'
      simp only [refs] at this
      have hne : ¬ (a = a') := fun h => he h.symm
      simp [hne]
      exact this
  · exact inv.stateArc
  · intro a' h'
    simp only [release_length]
    rcases List.mem_or_eq_of_mem_set h' with h' | h'
    · exact inv.handleBound a' h'
    · cases h'
  · intro r h'
    simpa only [release_length] using inv.readerBound r h'

/-- a reader is dropped (`dropReader`): state first, then its `Arc` -/
theorem inv_dropReader {s : St} (inv : Inv s) {r : ReaderId} {rd : RdHandle}
    (hr : s.readers[r]? = some rd) (harc : rd.arcHeld = true) :
    Inv { s with readers := s.readers.set r { rd with stateAlive := false, arcHeld := false },
                 allocs := release s.allocs rd.schema } := by
  have hmem : rd ∈ s.readers := List.mem_of_getElem? hr
  have hlt := inv.readerBound rd hmem
  have hpos := refs_pos_of_reader hmem harc
  rcases live_of_refs_pos inv hlt hpos with ⟨al, hal, hstrong, hfreed⟩
  rcases List.getElem?_eq_some_iff.1 hr with ⟨hrlt, hget⟩
  have hcnt : 0 < s.readers.countP (fun x => x.arcHeld && x.schema == rd.schema) :=
    List.countP_pos_iff.2 ⟨rd, hmem, by simp [harc]⟩
  constructor
  · intro a' al' h'
    simp only [refs, List.countP_set hrlt, hget] at hstrong hpos ⊢
    by_cases he : a' = rd.schema
    · subst he
      simp only at h'
      rw [release_getElem?_self hal] at h'
      simp only [Option.some.injEq] at h'
      subst h'
      simp [hfreed, harc]
      omega
    · simp only at h'
      rw [release_getElem?_ne he] at h'
      have := inv.counts a' al' h'
      simp only [refs] at this
      have hne : ¬ (rd.schema = a') := fun h => he h.symm
      simp [hne]
      exact this
  · intro r' h' halive
    rcases List.mem_or_eq_of_mem_set h' with h' | h'
    · exact inv.stateArc r' h' halive
    · subst h'; simp at halive
  · intro a' h'
    simpa only [release_length] using inv.handleBound a' h'
  · intro r' h'
    simp only [release_length]
    rcases List.mem_or_eq_of_mem_set h' with h' | h'
    · exact inv.readerBound r' h'
    · subst h'; exact hlt

/-! ### every step -/

theorem inv_step {s : St} (inv : Inv s) (op : Op) : Inv (step s op) := by
  cases op with
  | newSchema => exact inv_newHandle inv
  | cloneArc h =>
    simp only [step]
    split
    · rename_i a hh
      have hmem : some a ∈ s.handles := List.mem_of_getElem? hh
      exact inv_addHandle inv (inv.handleBound a hmem) (refs_pos_of_handle hmem)
    · exact inv
  | dropHandle h =>
    simp only [step]
    split
    · rename_i a hh; exact inv_dropHandle inv hh
    · exact inv
  | useHandle h =>
    simp only [step]
    split
    · exact ⟨inv.counts, inv.stateArc, inv.handleBound, inv.readerBound⟩
    · exact inv
  | openReader => exact inv_newReader inv
  | readerSchema r =>
    simp only [step]
    split
    · rename_i rd hr
      split
      · rename_i harc
        have hmem : rd ∈ s.readers := List.mem_of_getElem? hr
        exact inv_addHandle inv (inv.readerBound rd hmem) (refs_pos_of_reader hmem harc)
      · exact inv
    · exact inv
  | readNext r =>
    simp only [step]
    split
    · split
      · exact ⟨inv.counts, inv.stateArc, inv.handleBound, inv.readerBound⟩
      · exact inv
    · exact inv
  | dropReader r =>
    simp only [step]
    split
    · rename_i rd hr
      split
      · rename_i harc; exact inv_dropReader inv hr harc
      · exact inv
    · exact inv

/-- a step from a state satisfying the invariant records no use-after-free. -/
theorem step_useAfterFree {s : St} (inv : Inv s) (op : Op) :
    (step s op).useAfterFree = s.useAfterFree := by
  cases op with
  | newSchema => rfl
  | cloneArc h => simp only [step]; split <;> rfl
  | dropHandle h => simp only [step]; split <;> rfl
  | useHandle h =>
    simp only [step]
    split
    · rename_i a hh
      have hmem : some a ∈ s.handles := List.mem_of_getElem? hh
      simp [not_freed_of_refs_pos inv (inv.handleBound a hmem) (refs_pos_of_handle hmem)]
    · rfl
  | openReader => rfl
  | readerSchema r =>
    simp only [step]
    split
    · split <;> rfl
    · rfl
  | readNext r =>
    simp only [step]
    split
    · rename_i rd hr
      split
      · rename_i halive
        have hmem : rd ∈ s.readers := List.mem_of_getElem? hr
        have harc := inv.stateArc rd hmem halive
        simp [not_freed_of_refs_pos inv (inv.readerBound rd hmem) (refs_pos_of_reader hmem harc)]
      · rfl
    · rfl
  | dropReader r =>
    simp only [step]
    split
    · split <;> rfl
    · rfl

theorem inv_foldl {s : St} (inv : Inv s) (ops : List Op) :
    Inv (ops.foldl step s) ∧ (ops.foldl step s).useAfterFree = s.useAfterFree := by
  induction ops generalizing s with
  | nil => exact ⟨inv, rfl⟩
  | cons op rest ih =>
    have := ih (inv_step inv op)
    exact ⟨this.1, this.2.trans (step_useAfterFree inv op)⟩

end Avro.Lemmas.Lifetimes
