import AvroModel.Lemmas.OcfStream
/-
Helper lemmas for `Theorems/C17class.lean`, part 1: the error CLASS of the read primitives and of
the datum deserializer `de … .any` on a reader back-end whose source ends early.

Part 1: the primitives. `read_exact` only ever fails with an I/O error; `read_slice` on a reader
        fails with an I/O error unless the allocation cap refuses the length; `read_varint` on a
        reader whose remaining input is a proper prefix of a decodable varint fails with an I/O
        error (`UnexpectedEof` of the byte-wise fallback).
Part 2: a truncation simulation. `TSim z r sl`: `r` a reader state, `sl` a slice state holding
        the same bytes followed by `z` (the bytes the cut removed). `TRel`: whenever the slice run on
        the full input succeeds, the reader run on the cut input either succeeds too, in a
        corresponding state (it did not need the missing bytes), or fails with class `io`.
Part 3: `TRel` for `de … .any` (every node kind except `bigDecimal`), by induction on the fuel.
-/
namespace Avro.Theorems.Cut
open Avro Avro.Impl Avro.Theorems

/-! ### Part 1: error classes of the primitives -/

/-- `Read::read_exact` fails with an I/O error only (`UnexpectedEof`), on either back-end. -/
theorem readExactR_err_io (fuel : Nat) : ∀ (k : Nat) (acc : Bytes) (s : RState) (e : DeErr)
    (s' : RState), readExactR fuel k acc s = (.error e, s') → e = .io := by
  induction fuel with
  | zero =>
    intro k acc s e s' h
    cases k with
    | zero => simp [readExactR, pure] at h
    | succ k =>
      simp only [readExactR, DeM.fail, Prod.mk.injEq, Except.error.injEq] at h
      exact h.1.symm
  | succ fuel ih =>
    intro k acc s e s' h
    cases k with
    | zero => simp [readExactR, pure] at h
    | succ k =>
      obtain ⟨b, s1, hrs, _⟩ := OcfS.readSome_ok (k + 1) s
      simp only [readExactR, bind, hrs] at h
      split at h
      · simp only [DeM.fail, Prod.mk.injEq, Except.error.injEq] at h
        exact h.1.symm
      · exact ih _ _ _ _ _ h

theorem readExact_err_io {k : Nat} {s s' : RState} {e : DeErr}
    (h : readExact k s = (.error e, s')) : e = .io :=
  readExactR_err_io k k [] s e s' h

/-- `read_slice` on a reader: an error is an I/O error as soon as the allocation cap allows the
    length. -/
theorem readSlice_err_io {n : Nat} {s s' : RState} {e : DeErr} (hs : s.isSlice = false)
    (hn : n ≤ s.maxAlloc) (h : readSlice n s = (.error e, s')) : e = .io := by
  obtain ⟨a, s1, hf, _, _, _⟩ := OcfS.fillBuf_ok s
  have hma : s1.maxAlloc = s.maxAlloc := by
    unfold fillBuf at hf
    simp only [hs, Bool.false_eq_true, if_false] at hf
    split at hf
    · simp only [Prod.mk.injEq] at hf; rw [← hf.2]
    · split at hf <;> (simp only [Prod.mk.injEq] at hf; rw [← hf.2])
  simp only [readSlice, hs, Bool.false_eq_true, if_false, hf] at h
  split at h
  · simp [consume] at h
  · split at h
    · omega
    · split at h
      · cases h
      · rename_i e' s'' heq
        simp only [Prod.mk.injEq, Except.error.injEq] at h
        rw [← h.1]
        exact readExactR_err_io _ _ _ _ _ _ heq

/-- the byte-wise fallback of `read_varint`: when what is left is the beginning of a decodable
    varint, running out of input is an I/O error (never "invalid varint") -/
theorem varintBytewise_err_io (t : VarTy) (fuel : Nat) : ∀ (buf : Bytes) (s : RState) (z : Bytes),
    s.WF → s.limit = none → buf.length + fuel = 10 → 0 < fuel →
    (∀ x ∈ buf, x.toNat &&& 0x80 ≠ 0) →
    (decodeVar t (buf ++ (s.rest ++ z))).isSome = true →
    ∀ e s', varintBytewise t fuel buf s = (.error e, s') → e = .io := by
  induction fuel with
  | zero => intros; omega
  | succ fuel ih =>
    intro buf s z h hlim hlen _ hc hz e s' herr
    obtain ⟨m, s1, hrs, hm1, hm2, hmpos, hadv⟩ := readSome_spec 1 s h
    have hl1 : s.lim 1 = 1 := by simp [RState.lim, hlim]
    cases hr : s.rest with
    | nil =>
      have hstep : varintBytewise t (fuel + 1) buf s = (.error .io, s1) := by
        simp [varintBytewise, bind, hrs, hr, DeM.fail]
      rw [hstep] at herr
      simp only [Prod.mk.injEq, Except.error.injEq] at herr
      exact herr.1.symm
    | cons b tl =>
      have hm : m = 1 := by
        have := hmpos (by omega) (by simp [hr])
        omega
      subst hm
      have hgot : s.rest.take 1 = [b] := by simp [hr]
      have hs1 : s1.rest = tl := by rw [hadv.rest, hr]; rfl
      have hs1lim : s1.limit = none := by rw [hadv.limit, hlim]; rfl
      by_cases hstop : b.toNat &&& 0x80 = 0 ∨ (buf ++ [b]).length = 10
      · exfalso
        have hstep : varintBytewise t (fuel + 1) buf s =
            match decodeVar t (buf ++ [b]) with
            | some (v, _) => (.ok v, s1)
            | none => (.error .custom, s1) := by
          simp only [varintBytewise, bind, hrs, hgot, hstop, if_true]
          split <;> simp [pure, DeM.fail, *]
        obtain ⟨e1, _⟩ := decodeVar_cont_term t buf b (tl ++ z) hc (by omega) (by simpa using hstop)
        rw [hr, List.cons_append, e1] at hz
        rw [hstep] at herr
        cases hd : decodeVar t (buf ++ [b]) with
        | none => rw [hd] at hz; cases hz
        | some p => rw [hd] at herr; cases herr
      · have hstep : varintBytewise t (fuel + 1) buf s =
            varintBytewise t fuel (buf ++ [b]) s1 := by
          simp only [varintBytewise, bind, hrs, hgot, hstop, if_false]
        have hstop' : ¬ (b.toNat &&& 0x80 = 0) ∧ buf.length + 1 ≠ 10 := by
          simpa [not_or] using hstop
        have hc' : ∀ x ∈ buf ++ [b], x.toNat &&& 0x80 ≠ 0 := by
          intro x hx
          rcases List.mem_append.1 hx with hx | hx
          · exact hc x hx
          · have : x = b := by simpa using hx
            rw [this]; exact hstop'.1
        rw [hstep] at herr
        refine ih (buf ++ [b]) s1 z hadv.wf hs1lim (by simp; omega) (by omega) hc' ?_ e s' herr
        rw [hs1, List.append_assoc, List.singleton_append, ← List.cons_append, ← hr]
        exact hz

/-- `read_varint` on a reader whose remaining input is a proper prefix of a decodable varint:
    an I/O error. -/
theorem readVarint_err_io {t : VarTy} {s s' : RState} {e : DeErr} (z : Bytes) (h : s.WF)
    (hs : s.isSlice = false) (hlim : s.limit = none)
    (hz : (decodeVar t (s.rest ++ z)).isSome = true)
    (herr : readVarint t s = (.error e, s')) : e = .io := by
  obtain ⟨a, s1, hf, hal, hapos, h1, h2, h3, h4, h5⟩ := fillBuf_spec s h
  have ha := h5 hs
  have hwf1 : s1.WF := by intro _; rw [ha, h2]; exact hal
  cases hb : decodeVar t (s.rest.take a) with
  | some p =>
    obtain ⟨v, k⟩ := p
    have hstep : readVarint t s =
        (.ok v, { s1 with rest := s1.rest.drop k, avail := s1.avail - k }) := by
      simp [readVarint, hs, hf, hb, consume, Prod.map]
    rw [hstep] at herr; cases herr
  | none =>
    have hstep : readVarint t s = varintBytewise t 10 [] s1 := by
      simp [readVarint, hs, hf, hb]
    rw [hstep] at herr
    exact varintBytewise_err_io t 10 [] s1 z hwf1 (by rw [h3, hlim]) (by simp) (by omega)
      (by simp) (by rw [List.nil_append, h2]; exact hz) e s' herr


/-! ### Part 2: the truncation simulation -/

/-- `r`: a reader state between two reads (no `Take`); `sl`: a slice state holding the same bytes
    followed by `z`, the bytes the cut removed. The reader may allocate the whole uncut input. -/
structure TSim (z : Bytes) (r sl : RState) : Prop where
  reader : r.isSlice = false
  slice : sl.isSlice = true
  rest : sl.rest = r.rest ++ z
  avail : r.avail ≤ r.rest.length
  rlim : r.limit = none
  slim : sl.limit = none
  alloc : sl.rest.length ≤ r.maxAlloc

theorem TSim.wf_reader {z : Bytes} {r sl : RState} (h : TSim z r sl) : r.WF := fun _ => h.avail
theorem TSim.wf_slice {z : Bytes} {r sl : RState} (h : TSim z r sl) : sl.WF := by
  intro hs; rw [h.slice] at hs; cases hs

theorem TSim.adv {z : Bytes} {r sl r' sl' : RState} {k : Nat} (h : TSim z r sl)
    (hk : k ≤ r.rest.length) (hr : Adv k r r') (hs : Adv k sl sl') : TSim z r' sl' where
  reader := hr.isSlice.trans h.reader
  slice := hs.isSlice.trans h.slice
  rest := by rw [hr.rest, hs.rest, h.rest, List.drop_append_of_le_length hk]
  avail := hr.wf (hr.isSlice.trans h.reader)
  rlim := by rw [hr.limit, h.rlim]; rfl
  slim := by rw [hs.limit, h.slim]; rfl
  alloc := by rw [hs.length, hr.maxAlloc]; have := h.alloc; omega

/-- Outcome of the reader run on the cut input (`x`) against the slice run on the whole input
    (`y`): nothing is claimed when the slice run fails; when it succeeds, the reader run succeeds
    in a corresponding state, or fails with class `io`. -/
def OutT (z : Bytes) {α β : Type} (R : α → β → Prop)
    (x : Except DeErr α × RState) (y : Except DeErr β × RState) : Prop :=
  match y with
  | (.error _, _) => True
  | (.ok b, sl') =>
    match x with
    | (.ok a, r') => R a b ∧ TSim z r' sl'
    | (.error e, _) => e = .io

def TRel (z : Bytes) {α β : Type} (R : α → β → Prop) (m : DeM α) (m' : DeM β) : Prop :=
  ∀ r sl, TSim z r sl → OutT z R (m r) (m' sl)

variable {z : Bytes}

theorem OutT.of_io {α β : Type} {R : α → β → Prop} {r' : RState}
    (y : Except DeErr β × RState) : OutT z R ((.error .io : Except DeErr α), r') y := by
  obtain ⟨(e | b), sl'⟩ := y
  · trivial
  · rfl

theorem TRel.pure {α β : Type} {R : α → β → Prop} {a : α} {b : β} (h : R a b) :
    TRel z R (pure a) (pure b) := fun _ _ hs => ⟨h, hs⟩

/-- nothing is claimed when the slice side fails -/
theorem TRel.fail {α β : Type} {R : α → β → Prop} {m : DeM α} {e' : DeErr} :
    TRel z R m (DeM.fail e' : DeM β) := fun _ _ _ => trivial

theorem TRel.bind {α β γ δ : Type} {R : α → β → Prop} {R' : γ → δ → Prop}
    {m : DeM α} {m' : DeM β} {f : α → DeM γ} {f' : β → DeM δ}
    (h1 : TRel z R m m') (h2 : ∀ a b, R a b → TRel z R' (f a) (f' b)) :
    TRel z R' (m >>= f) (m' >>= f') := by
  intro r sl hs
  have h := h1 r sl hs
  rw [bind_eq, bind_eq]
  rcases hm : m r with ⟨(e | a), r'⟩ <;> rcases hm' : m' sl with ⟨(e' | b), sl'⟩ <;>
    rw [hm, hm'] at h
  · trivial
  · have : e = .io := h
    subst this
    exact OutT.of_io _
  · trivial
  · exact h2 a b h.1 r' sl' h.2

theorem TRel.mono {α β : Type} {R R' : α → β → Prop} {m : DeM α} {m' : DeM β}
    (h : TRel z R m m') (hR : ∀ a b, R a b → R' a b) : TRel z R' m m' := by
  intro r sl hs
  have h := h r sl hs
  rcases hm : m r with ⟨(e | a), r'⟩ <;> rcases hm' : m' sl with ⟨(e' | b), sl'⟩ <;>
    rw [hm, hm'] at h
  · trivial
  · exact h
  · trivial
  · exact ⟨hR a b h.1, h.2⟩

theorem readExact_trel (k : Nat) : TRel z (· = ·) (readExact k) (readExact k) := by
  intro r sl hs
  have hr := readExact_spec k r hs.wf_reader
  have hsl := readExact_spec k sl hs.wf_slice
  rw [eff_of_limit_none hs.rlim] at hr
  rw [eff_of_limit_none hs.slim] at hsl
  by_cases hk : k ≤ sl.rest.length
  · obtain ⟨sl', e2, a2⟩ := hsl.1 hk
    rw [e2]
    by_cases hk' : k ≤ r.rest.length
    · obtain ⟨r', e1, a1⟩ := hr.1 hk'
      rw [e1]
      refine ⟨?_, hs.adv hk' a1 a2⟩
      rw [hs.rest, List.take_append_of_le_length hk']
    · obtain ⟨e, r', e1⟩ := hr.2 (by omega)
      rw [e1]
      exact readExact_err_io e1
  · obtain ⟨e, sl', e2⟩ := hsl.2 (by omega)
    rw [e2]; trivial

theorem readVarint_trel (t : VarTy) : TRel z (· = ·) (readVarint t) (readVarint t) := by
  intro r sl hs
  have hr := readVarint_spec t r hs.wf_reader hs.rlim
  have hsl := readVarint_spec t sl hs.wf_slice hs.slim
  cases hd : decodeVar t sl.rest with
  | none =>
    obtain ⟨e, sl', e2⟩ := hsl.2 hd
    rw [e2]; trivial
  | some p =>
    obtain ⟨v, k⟩ := p
    obtain ⟨sl', e2, a2⟩ := hsl.1 v k hd
    rw [e2]
    cases hd' : decodeVar t r.rest with
    | some p' =>
      obtain ⟨v', k'⟩ := p'
      have := decodeVar_append z hd'
      rw [← hs.rest, hd] at this
      simp only [Option.some.injEq, Prod.mk.injEq] at this
      obtain ⟨rfl, rfl⟩ := this
      obtain ⟨r', e1, a1⟩ := hr.1 v k hd'
      rw [e1]
      exact ⟨rfl, hs.adv (decodeVar_le hd') a1 a2⟩
    | none =>
      obtain ⟨e, r', e1⟩ := hr.2 hd'
      rw [e1]
      exact readVarint_err_io z hs.wf_reader hs.reader hs.rlim (by rw [← hs.rest, hd]; rfl) e1

theorem readSlice_trel (n : Nat) :
    TRel z (fun a b => a.1 = b.1) (readSlice n) (readSlice n) := by
  intro r sl hs
  have hlen : sl.rest.length = r.rest.length + z.length := by rw [hs.rest, List.length_append]
  have hr := readSlice_spec n r hs.wf_reader hs.rlim
    (fun _ hn => by have := hs.alloc; omega)
  have hsl := readSlice_spec n sl hs.wf_slice hs.slim
    (fun hsl => by rw [hs.slice] at hsl; cases hsl)
  by_cases hk : n ≤ sl.rest.length
  · obtain ⟨sl', e2, a2⟩ := hsl.1 hk
    rw [e2]
    by_cases hk' : n ≤ r.rest.length
    · obtain ⟨r', e1, a1⟩ := hr.1 hk'
      rw [e1]
      refine ⟨?_, hs.adv hk' a1 a2⟩
      show r.rest.take n = sl.rest.take n
      rw [hs.rest, List.take_append_of_le_length hk']
    · obtain ⟨e, r', e1⟩ := hr.2 (by omega)
      rw [e1]
      exact readSlice_err_io hs.reader (by have := hs.alloc; omega) e1
  · obtain ⟨e, sl', e2⟩ := hsl.2 (by omega)
    rw [e2]; trivial

theorem readLen_trel : TRel z (· = ·) readLen readLen := by
  unfold readLen
  apply TRel.bind (readVarint_trel _)
  intro a b hab; subst hab
  split
  · exact TRel.fail
  · exact TRel.pure rfl

/-- values are not compared -/
def RT {α : Type} (_ _ : α) : Prop := True

theorem readString_trel : TRel z RT readString readString := by
  unfold readString
  apply TRel.bind readLen_trel
  intro a b hab; subst hab
  apply TRel.bind (readSlice_trel _)
  rintro ⟨b1, f1⟩ ⟨b2, f2⟩ hab
  simp only at hab; subst hab
  dsimp only
  split
  · exact TRel.pure trivial
  · exact TRel.fail

theorem readBytes_trel : TRel z RT readBytes readBytes := by
  unfold readBytes
  apply TRel.bind readLen_trel
  intro a b hab; subst hab
  apply TRel.bind (readSlice_trel _)
  rintro ⟨b1, f1⟩ ⟨b2, f2⟩ hab
  exact TRel.pure trivial

theorem readBool_trel : TRel z RT readBool readBool := by
  unfold readBool
  apply TRel.bind (readSlice_trel _)
  rintro ⟨b1, f1⟩ ⟨b2, f2⟩ hab
  simp only at hab; subst hab
  dsimp only
  split
  · exact TRel.pure trivial
  · exact TRel.pure trivial
  · exact TRel.fail

theorem decDepth_trel (d : Nat) : TRel z (· = ·) (decDepth d) (decDepth d) := by
  unfold decDepth
  split
  · exact TRel.fail
  · exact TRel.pure rfl

/-- `read_block_len` when not ignoring: one round, whatever the fuel -/
theorem readBlockLen_trel (f g : Nat) :
    TRel z (· = ·) (readBlockLen false (f + 1)) (readBlockLen false (g + 1)) := by
  unfold readBlockLen
  apply TRel.bind (readVarint_trel _)
  intro a b hab; subst hab
  split
  · simp only [Bool.false_eq_true, if_false]
    apply TRel.bind (readVarint_trel _)
    intro a b hab; subst hab
    split
    · exact TRel.fail
    · exact TRel.pure rfl
  · exact TRel.pure rfl

theorem hasMore_trel (cfg : DeConfig) (bs : BlockState) :
    TRel z (· = ·) (hasMore cfg false bs) (hasMore cfg false bs) := by
  intro r sl hs
  unfold hasMore
  cases hc : bs.current with
  | succ c => exact ⟨rfl, hs⟩
  | zero =>
    have h := readBlockLen_trel (z := z) (r.rest.length + 1) (sl.rest.length + 1) r sl hs
    simp only
    rcases hm : readBlockLen false (r.rest.length + 1 + 1) r with ⟨(e | a), r'⟩ <;>
      rcases hm' : readBlockLen false (sl.rest.length + 1 + 1) sl with ⟨(e' | b), sl'⟩ <;>
      rw [hm, hm'] at h
    · trivial
    · have : e = .io := h
      subst this
      cases b with
      | none => rfl
      | some l =>
        simp only
        split
        · trivial
        · rfl
    · trivial
    · obtain ⟨rfl, h2⟩ := h
      cases a with
      | none => exact ⟨rfl, h2⟩
      | some l =>
        simp only
        split
        · trivial
        · exact ⟨rfl, h2⟩

/-- `read_decimal` on a `decimal` node (`bytes` or `fixed` representation) -/
theorem readDecimal_trel (ext : DeExt) (scale : Nat) (repr : DecimalRepr) (hint : DecHint) :
    TRel z RT (readDecimal ext (.regular scale repr) hint)
      (readDecimal ext (.regular scale repr) hint) := by
  unfold readDecimal
  apply TRel.bind (R := (· = ·))
  · split
    · apply TRel.bind readLen_trel
      intro a b hab; subst hab
      split
      · exact TRel.fail
      · apply TRel.bind (readExact_trel _)
        intro a b hab; subst hab
        exact TRel.pure rfl
    · split
      · exact TRel.fail
      · apply TRel.bind (readExact_trel _)
        intro a b hab; subst hab
        exact TRel.pure rfl
    · rename_i heq; cases heq
  · rintro ⟨u, sc⟩ _ rfl
    dsimp only
    repeat (first | exact TRel.fail | exact TRel.pure trivial | split)


/-! ### Part 3: the datum deserializer with a dynamically typed target (`Hint.any`) -/

structure DeTRel (z : Bytes) (ext : DeExt) (cfg : DeConfig) (S : Schema) (fuel : Nat) : Prop where
  de : ∀ node depth favor, node ≠ .bigDecimal → TRel z RT
    (de ext cfg S fuel node depth favor .any) (de ext cfg S fuel node depth favor .any)
  any : ∀ node depth, node ≠ .bigDecimal → TRel z RT
    (deAny ext cfg S fuel node depth .any) (deAny ext cfg S fuel node depth .any)
  seq : ∀ item depth bs acc acc', item ≠ .bigDecimal → TRel z RT
    (deSeqLoop ext cfg S fuel item depth false .any none bs acc)
    (deSeqLoop ext cfg S fuel item depth false .any none bs acc')
  map : ∀ item depth bs acc acc', item ≠ .bigDecimal → TRel z RT
    (deMapLoop ext cfg S fuel item depth false .any bs acc)
    (deMapLoop ext cfg S fuel item depth false .any bs acc')
  recd : ∀ fields depth acc acc', TRel z RT
    (deRecordFields ext cfg S fuel fields depth .any acc)
    (deRecordFields ext cfg S fuel fields depth .any acc')

variable {ext : DeExt} {cfg : DeConfig} {S : Schema} {fuel : Nat}

theorem de_tstep (ih : DeTRel z ext cfg S fuel) (node : Node) (depth : Nat) (favor : Bool)
    (hn : node ≠ .bigDecimal) :
    TRel z RT (de ext cfg S (fuel + 1) node depth favor .any)
      (de ext cfg S (fuel + 1) node depth favor .any) := by
  unfold de
  dsimp only
  exact ih.any _ _ hn

macro "trel_auto" ih:term "," hS:term : tactic => `(tactic| repeat (first
  | exact TRel.fail
  | exact TRel.pure trivial
  | exact readString_trel
  | exact readBytes_trel
  | exact readBool_trel
  | exact readDecimal_trel _ _ _ _
  | exact DeTRel.any $ih _ _ (by intro hbig; subst hbig; exact $hS _ ‹_›)
  | (apply TRel.bind (readVarint_trel _); intro a b hab; subst hab)
  | (apply TRel.bind (readExact_trel _); intro a b hab; subst hab)
  | (apply TRel.bind readLen_trel; intro a b hab; subst hab)
  | (apply TRel.bind (decDepth_trel _); intro a b hab; subst hab)
  | (apply TRel.bind (readSlice_trel _); rintro ⟨b1, f1⟩ ⟨b2, f2⟩ hab; simp only at hab; subst hab;
      try dsimp only)
  | (apply TRel.bind (DeTRel.seq $ih _ _ _ _ _ (by intro hbig; subst hbig; exact $hS _ ‹_›));
      intro a b hab)
  | (apply TRel.bind (DeTRel.map $ih _ _ _ _ _ (by intro hbig; subst hbig; exact $hS _ ‹_›));
      intro a b hab)
  | (apply TRel.bind (DeTRel.recd $ih _ _ _ _); intro a b hab)
  | split))

theorem any_tstep (hS : ∀ k : Nat, S[k]? ≠ some Node.bigDecimal) (ih : DeTRel z ext cfg S fuel)
    (node : Node) (depth : Nat) (hn : node ≠ .bigDecimal) :
    TRel z RT (deAny ext cfg S (fuel + 1) node depth .any)
      (deAny ext cfg S (fuel + 1) node depth .any) := by
  unfold deAny
  trel_auto ih, hS
  · exact absurd rfl hn
  · trel_auto ih, hS


theorem seq_tstep (ih : DeTRel z ext cfg S fuel) (item : Node) (depth : Nat)
    (bs : BlockState) (acc acc' : List Out) (hn : item ≠ .bigDecimal) :
    TRel z RT (deSeqLoop ext cfg S (fuel + 1) item depth false .any none bs acc)
      (deSeqLoop ext cfg S (fuel + 1) item depth false .any none bs acc') := by
  unfold deSeqLoop
  split
  · rename_i h; cases h
  · apply TRel.bind (hasMore_trel _ _)
    rintro ⟨m1, bs1⟩ _ rfl
    dsimp only
    split
    · exact TRel.pure trivial
    · apply TRel.bind (ih.de _ _ _ hn)
      intro a b _
      exact ih.seq _ _ _ _ _ hn

theorem map_tstep (ih : DeTRel z ext cfg S fuel) (item : Node) (depth : Nat)
    (bs : BlockState) (acc acc' : List (Out × Out)) (hn : item ≠ .bigDecimal) :
    TRel z RT (deMapLoop ext cfg S (fuel + 1) item depth false .any bs acc)
      (deMapLoop ext cfg S (fuel + 1) item depth false .any bs acc') := by
  unfold deMapLoop
  apply TRel.bind (hasMore_trel _ _)
  rintro ⟨m1, bs1⟩ _ rfl
  dsimp only
  split
  · exact TRel.pure trivial
  · apply TRel.bind readLen_trel
    intro n _ hn'; subst hn'
    apply TRel.bind (readSlice_trel _)
    rintro ⟨b1, f1⟩ ⟨b2, f2⟩ hb
    simp only at hb; subst hb
    simp only [Hint.key, Hint.valFor]
    apply TRel.bind (R := RT)
    · split
      · exact TRel.pure trivial
      · exact TRel.fail
    · rintro ⟨k1, n1⟩ ⟨k2, n2⟩ _
      dsimp only
      apply TRel.bind (ih.de _ _ _ hn)
      intro a b _
      exact ih.map _ _ _ _ _ hn

theorem recd_tstep (hS : ∀ k : Nat, S[k]? ≠ some Node.bigDecimal) (ih : DeTRel z ext cfg S fuel)
    (fields : List (String × Nat)) (depth : Nat) (acc acc' : List (Out × Out)) :
    TRel z RT (deRecordFields ext cfg S (fuel + 1) fields depth .any acc)
      (deRecordFields ext cfg S (fuel + 1) fields depth .any acc') := by
  cases fields with
  | nil => unfold deRecordFields; exact TRel.pure trivial
  | cons f rest =>
    obtain ⟨name, k⟩ := f
    unfold deRecordFields
    split
    · exact TRel.fail
    · rename_i fnode heq
      simp only [Hint.valFor]
      apply TRel.bind (ih.de _ _ _ (by intro hbig; subst hbig; exact hS _ heq))
      intro a b _
      exact ih.recd _ _ _ _

theorem deTRel_all (z : Bytes) (ext : DeExt) (cfg : DeConfig) (S : Schema)
    (hS : ∀ k : Nat, S[k]? ≠ some Node.bigDecimal) : ∀ fuel, DeTRel z ext cfg S fuel := by
  intro fuel
  induction fuel with
  | zero =>
    refine ⟨?_, ?_, ?_, ?_, ?_⟩
    · intros; unfold de; exact TRel.fail
    · intros; unfold deAny; exact TRel.fail
    · intros; unfold deSeqLoop; exact TRel.fail
    · intros; unfold deMapLoop; exact TRel.fail
    · intro fields depth acc acc'
      cases fields with
      | nil => unfold deRecordFields; exact TRel.pure trivial
      | cons f rest => unfold deRecordFields; exact TRel.fail
  | succ fuel ih =>
    exact ⟨de_tstep ih, any_tstep hS ih, seq_tstep ih, map_tstep ih, recd_tstep hS ih⟩

/-- **The datum deserializer on an input that ends early (reader back-end, any chunk schedule,
    dynamically typed target).** `sl` holds the bytes of `r` followed by `z`. If `de` succeeds on
    the slice, then on the reader it either succeeds in a corresponding state (it never needed
    `z`) or fails with an I/O error. Schema without `big-decimal`. -/
theorem de_trunc (z : Bytes) (ext : DeExt) (cfg : DeConfig) (S : Schema)
    (hS : ∀ k : Nat, S[k]? ≠ some Node.bigDecimal) (fuel : Nat) (node : Node)
    (hn : node ≠ .bigDecimal) (depth : Nat) (favor : Bool) (r sl : RState) (hs : TSim z r sl)
    (o : Out) (sl' : RState) (hok : de ext cfg S fuel node depth favor .any sl = (.ok o, sl')) :
    (∃ a r', de ext cfg S fuel node depth favor .any r = (.ok a, r') ∧ TSim z r' sl') ∨
    (∃ r', de ext cfg S fuel node depth favor .any r = (.error .io, r')) := by
  have h := (deTRel_all z ext cfg S hS fuel).de node depth favor hn r sl hs
  rw [hok] at h
  rcases hm : de ext cfg S fuel node depth favor .any r with ⟨(e | a), r'⟩ <;> rw [hm] at h
  · have : e = .io := h
    subst this
    exact .inr ⟨r', rfl⟩
  · exact .inl ⟨a, r', rfl, h.2⟩

end Avro.Theorems.Cut
