import AvroModel.Lemmas.SerSoundMain
/-
C02 composite theorem, record part: the field reordering machine of `ser/serFields` writes the
encodings of the fields in schema order.
-/
namespace Avro
open Avro.Spec Avro.Impl


/-! ### Records: the reordering machine -/

/-- what is buffered for field `i` -/
def slotOf (slots : List (Option Buffer)) (i : Nat) : Option Bytes :=
  match slots[i]? with
  | some (some b) => some b.data
  | _ => none

def slotData (rs : RecordState) (i : Nat) : Option Bytes := slotOf rs.buffers.slots i

/-- concatenated encodings of the fields below `c` -/
def encUpTo (w : Nat → Option (Value × Bytes)) : Nat → Bytes
  | 0 => []
  | c + 1 => encUpTo w c ++ (match w c with | some (_, e) => e | none => [])

def wUpdate (w : Nat → Option (Value × Bytes)) (idx : Nat) (x : Value × Bytes) :
    Nat → Option (Value × Bytes) := fun i => if i = idx then some x else w i

theorem encUpTo_update (w : Nat → Option (Value × Bytes)) (idx : Nat) (x : Value × Bytes) (c : Nat)
    (h : c ≤ idx) : encUpTo (wUpdate w idx x) c = encUpTo w c := by
  induction c with
  | zero => rfl
  | succ c ih =>
    have : c ≠ idx := by omega
    simp [encUpTo, ih (by omega), wUpdate, this]

/-- `w i = some (v, e)`: field `i` has been serialized (to the output if `i < current`, to its
    side buffer otherwise) as `e`, which decodes to `v`. -/
structure RecInv (S : Schema) (fields : List (String × Nat)) (o : Bytes)
    (w : Nat → Option (Value × Bytes)) (rs : RecordState) (s : SerState) : Prop where
  cur_le : rs.current ≤ fields.length
  dom : ∀ i, (w i).isSome = true → i < fields.length
  below : ∀ i, i < rs.current → (w i).isSome = true
  out : s.out = o ++ encUpTo w rs.current
  slots : ∀ i, rs.current ≤ i → slotData rs i = (w i).map (·.2)
  good : Good s
  wit : ∀ i v e, w i = some (v, e) →
    ∃ f fnode, fields[i]? = some f ∧ S[f.2]? = some fnode ∧ Dec S fnode e v

def Flushed (rs : RecordState) : Prop := slotData rs rs.current = none

theorem flushBuffered_inv {S : Schema} {fields : List (String × Nat)} {o : Bytes}
    {w : Nat → Option (Value × Bytes)} :
    ∀ fuel rs s, RecInv S fields o w rs s → rs.buffers.slots.length ≤ fuel + rs.current →
    ∃ rs' s', flushBuffered fuel rs s = (.ok rs', s') ∧ RecInv S fields o w rs' s' ∧ Flushed rs' ∧
      rs'.buffers.cap = rs.buffers.cap := by
  intro fuel
  induction fuel with
  | zero =>
    intro rs s hinv hfuel
    refine ⟨rs, s, rfl, hinv, ?_, rfl⟩
    have : rs.buffers.slots[rs.current]? = none := by simp; omega
    simp [Flushed, slotData, slotOf, this]
  | succ fuel ih =>
    intro rs s hinv hfuel
    cases hslot : rs.buffers.slots[rs.current]? with
    | none =>
      refine ⟨rs, s, by simp [flushBuffered, hslot], hinv, by simp [Flushed, slotData, slotOf, hslot], rfl⟩
    | some ob =>
      cases ob with
      | none =>
        refine ⟨rs, s, by simp [flushBuffered, hslot], hinv, by simp [Flushed, slotData, slotOf, hslot], rfl⟩
      | some b =>
        have hsd : slotData rs rs.current = some b.data := by simp [slotData, slotOf, hslot]
        have hw := hinv.slots rs.current (Nat.le_refl _)
        rw [hsd] at hw
        cases hwc : w rs.current with
        | none => rw [hwc] at hw; simp at hw
        | some ve =>
          obtain ⟨v, e⟩ := ve
          rw [hwc] at hw
          simp only [Option.map_some, Option.some.injEq] at hw
          have hcur : rs.current < fields.length := hinv.dom _ (by simp [hwc])
          simp only [flushBuffered, hslot, writeAll_none _ s hinv.good.1]
          obtain ⟨s2, hpush, hout2, hg2⟩ :=
            pushBuffer_good (s := { s with out := s.out ++ b.data }) (hinv.good.append _)
              { b with data := [] } rfl
          rw [hpush]
          simp only []
          have hlt : rs.current < rs.buffers.slots.length := by
            have := (List.getElem?_eq_some_iff.1 hslot).1; exact this
          obtain ⟨rs', s', hrun, hinv', hfl, hcap⟩ := ih
            { current := rs.current + 1,
              buffers := { rs.buffers with slots := rs.buffers.slots.set rs.current none } } s2
            { cur_le := hcur
              dom := hinv.dom
              below := by
                intro i hi
                by_cases h : i < rs.current
                · exact hinv.below i h
                · have : i = rs.current := by simp at hi; omega
                  subst this; simp [hwc]
              out := by
                rw [hout2]; simp only [hinv.out, encUpTo, hwc, List.append_assoc, hw]
              slots := by
                intro i hi
                simp only at hi
                have := hinv.slots i (by omega)
                rw [← this]
                have hne : rs.current ≠ i := by omega
                simp [slotData, slotOf, hne]
              good := hg2
              wit := hinv.wit }
            (by simp; omega)
          exact ⟨rs', s', hrun, hinv', hfl, by rw [hcap]⟩


theorem resizeSlots_spec (slots : List (Option Buffer)) (idx : Nat) :
    let slots' := if slots.length ≤ idx then listResize slots (idx + 1) none else slots
    idx < slots'.length ∧ ∀ i, slotOf slots' i = slotOf slots i := by
  intro slots'
  by_cases h : slots.length ≤ idx
  · have hs : slots' = slots ++ List.replicate (idx + 1 - slots.length) none := by
      simp only [slots', h, if_true, listResize]
      have : ¬ slots.length ≥ idx + 1 := by omega
      simp [this]
    rw [hs]
    refine ⟨by simp; omega, fun i => ?_⟩
    unfold slotOf
    by_cases hi : i < slots.length
    · rw [List.getElem?_append_left hi]
    · rw [List.getElem?_append_right (by omega)]
      have : slots[i]? = none := by simp; omega
      rw [this]
      cases hr : (List.replicate (idx + 1 - slots.length) (none : Option Buffer))[i - slots.length]? with
      | none => rfl
      | some x =>
        have := List.mem_of_getElem? hr
        simp at this
        rw [this.2]
  · have hs : slots' = slots := by simp [slots', h]
    rw [hs]
    exact ⟨by omega, fun i => rfl⟩

theorem slotOf_set (slots : List (Option Buffer)) (idx : Nat) (b : Buffer) (h : idx < slots.length)
    (i : Nat) :
    slotOf (slots.set idx (some b)) i = if i = idx then some b.data else slotOf slots i := by
  unfold slotOf
  by_cases hi : i = idx
  · subst hi; simp [h]
  · have : idx ≠ i := fun h => hi h.symm
    simp [hi, this]


section
variable {ext : Ext} {a : Bool} {S : Schema}

theorem RecInv.w_none_of_flushed {fields : List (String × Nat)} {o : Bytes}
    {w : Nat → Option (Value × Bytes)} {rs : RecordState} {s : SerState}
    (hinv : RecInv S fields o w rs s) (hfl : Flushed rs) : w rs.current = none := by
  have := hinv.slots rs.current (Nat.le_refl _)
  rw [hfl] at this
  cases hw : w rs.current with
  | none => rfl
  | some x => rw [hw] at this; simp at this

theorem recordValue_inv (hS : SchemaOK S) {fields : List (String × Nat)} {o : Bytes}
    {w : Nat → Option (Value × Bytes)} {rs : RecordState} {s : SerState}
    (hinv : RecInv S fields o w rs s) (hfl : Flushed rs) (idx : Nat) (hidx : rs.current ≤ idx)
    (sv : SV) (hsv : SerSound ext a S sv) (rs' : RecordState) (s' : SerState)
    (hrun : recordValue S fields rs idx (fun node => ser ext a S node sv) s = (.ok rs', s')) :
    ∃ f fnode v e, fields[idx]? = some f ∧ S[f.2]? = some fnode ∧ w idx = none ∧
      denotes (denExtOf ext) S fnode sv v = true ∧
      RecInv S fields o (wUpdate w idx (v, e)) rs' s' ∧ Flushed rs' := by
  unfold recordValue at hrun
  cases hf : fields[idx]? with
  | none => simp [hf] at hrun
  | some f =>
    have hidxn : idx < fields.length := (List.getElem?_eq_some_iff.1 hf).1
    simp only [hf] at hrun
    cases hfn : S[f.2]? with
    | none => simp [hfn] at hrun
    | some fnode =>
      simp only [hfn] at hrun
      have hfnok := hS f.2 fnode hfn
      by_cases hcur : idx = rs.current
      · -- the field is the next one in schema order
        subst hcur
        rw [if_pos rfl] at hrun
        have hwn := hinv.w_none_of_flushed hfl
        cases hser : ser ext a S fnode sv s with
        | mk r s1 =>
          rw [hser] at hrun
          cases r with
          | error err => simp at hrun
          | ok u =>
            simp only [] at hrun
            obtain ⟨s1', v, e, hrun1, hout1, hg1, hdec, hden⟩ :=
              hsv fnode s hfnok hinv.good (by rw [hser])
            rw [hser] at hrun1
            simp only [Prod.mk.injEq, true_and] at hrun1
            subst hrun1
            have hpre : RecInv S fields o (wUpdate w rs.current (v, e))
                { rs with current := rs.current + 1 } s1 :=
              { cur_le := hidxn
                dom := by
                  intro i hi
                  by_cases h : i = rs.current
                  · subst h; exact hidxn
                  · simp only [wUpdate, h, if_false] at hi; exact hinv.dom i hi
                below := by
                  intro i hi
                  by_cases h : i = rs.current
                  · simp [wUpdate, h]
                  · simp only [wUpdate, h, if_false]; exact hinv.below i (by simp at hi; omega)
                out := by
                  rw [hout1, hinv.out]
                  simp [encUpTo, encUpTo_update, wUpdate]
                slots := by
                  intro i hi
                  simp only at hi
                  have h : i ≠ rs.current := by omega
                  simp only [wUpdate, h, if_false]
                  exact hinv.slots i (by omega)
                good := hg1
                wit := by
                  intro i v' e' hw'
                  by_cases h : i = rs.current
                  · subst h
                    simp only [wUpdate, if_true, Option.some.injEq, Prod.mk.injEq] at hw'
                    obtain ⟨rfl, rfl⟩ := hw'
                    exact ⟨f, fnode, hf, hfn, hdec⟩
                  · simp only [wUpdate, h, if_false] at hw'
                    exact hinv.wit i v' e' hw' }
            obtain ⟨rs2, s2, hfr, hinv2, hfl2, _⟩ :=
              flushBuffered_inv rs.buffers.slots.length { rs with current := rs.current + 1 } s1 hpre
                (by simp)
            rw [hfr] at hrun
            simp only [Prod.mk.injEq, Except.ok.injEq] at hrun
            obtain ⟨rfl, rfl⟩ := hrun
            exact ⟨f, fnode, v, e, rfl, hfn, hwn, hden, hinv2, hfl2⟩
      · -- a later field: serialized into a side buffer
        rw [if_neg hcur] at hrun
        have hgt : rs.current < idx := by omega
        obtain ⟨hlen', hslot'⟩ := resizeSlots_spec rs.buffers.slots idx
        generalize hsl : (if rs.buffers.slots.length ≤ idx then listResize rs.buffers.slots (idx + 1) none
          else rs.buffers.slots) = slots' at hrun hlen' hslot'
        have hwn : w idx = none := by
          have h1 := hinv.slots idx hidx
          have h2 : slotOf slots' idx = none := by
            unfold slotOf
            cases hx : slots'[idx]? with
            | none => rfl
            | some ob =>
              cases ob with
              | none => rfl
              | some b0 => simp [hx] at hrun
          rw [slotData, ← hslot' idx, h2] at h1
          cases hw : w idx with
          | none => rfl
          | some x => rw [hw] at h1; simp at h1
        have hnot : ∀ b0, slots'[idx]? ≠ some (some b0) := by
          intro b0 hb0; simp [hb0] at hrun
        have hrun' : (match popBuffer s with
            | (.error e, s') => (Except.error (e, ({ rs with buffers := { cap := true, slots := slots' } } : RecordState)), s')
            | (.ok buf, s') =>
              match intoBuffer buf (ser ext a S fnode sv) s' with
              | (.error e, s'') => (.error (e, { rs with buffers := { cap := true, slots := slots' } }), s'')
              | (.ok b, s'') =>
                (.ok { rs with buffers := { cap := true, slots := slots'.set idx (some b) } }, s'')) =
            (.ok rs', s') := by
          cases hx : slots'[idx]? with
          | none => simp only [hx] at hrun; exact hrun
          | some ob =>
            cases ob with
            | none => simp only [hx] at hrun; exact hrun
            | some b0 => exact absurd hx (hnot b0)
        clear hrun
        obtain ⟨buf, s1, hpop, hbd, hout1, hg1⟩ := popBuffer_good hinv.good
        rw [hpop] at hrun'
        simp only [intoBuffer] at hrun'
        have hg1' : Good { s1 with out := buf.data, budget := none } := ⟨rfl, hg1.2⟩
        cases hser : ser ext a S fnode sv { s1 with out := buf.data, budget := none } with
        | mk r s2 =>
          rw [hser] at hrun'
          cases r with
          | error err => simp at hrun'
          | ok u =>
            simp only [Prod.mk.injEq, Except.ok.injEq] at hrun'
            obtain ⟨hrs', hs'⟩ := hrun'
            obtain ⟨s2', v, e, hrun2, hout2, hg2, hdec, hden⟩ :=
              hsv fnode _ hfnok hg1' (by rw [hser])
            rw [hser] at hrun2
            simp only [Prod.mk.injEq, true_and] at hrun2
            subst hrun2
            simp only [hbd, List.nil_append] at hout2
            refine ⟨f, fnode, v, e, rfl, hfn, hwn, hden, ?_, ?_⟩
            · subst hrs' hs'
              exact
              { cur_le := hinv.cur_le
                dom := by
                  intro i hi
                  by_cases h : i = idx
                  · subst h; exact hidxn
                  · simp only [wUpdate, h, if_false] at hi; exact hinv.dom i hi
                below := by
                  intro i hi
                  simp only at hi
                  have h : i ≠ idx := by omega
                  simp only [wUpdate, h, if_false]; exact hinv.below i hi
                out := by
                  simp only [hout1, hinv.out]
                  rw [encUpTo_update _ _ _ _ (by omega)]
                slots := by
                  intro i hi
                  simp only at hi
                  simp only [slotData, slotOf_set slots' idx _ hlen', wUpdate]
                  by_cases h : i = idx
                  · simp [h, hout2]
                  · simp only [h, if_false, hslot' i]; exact hinv.slots i hi
                good := ⟨hg1.1, hg2.2⟩
                wit := by
                  intro i v' e' hw'
                  by_cases h : i = idx
                  · subst h
                    simp only [wUpdate, if_true, Option.some.injEq, Prod.mk.injEq] at hw'
                    obtain ⟨rfl, rfl⟩ := hw'
                    exact ⟨f, fnode, hf, hfn, hdec⟩
                  · simp only [wUpdate, h, if_false] at hw'
                    exact hinv.wit i v' e' hw' }
            · subst hrs'
              have hne : rs.current ≠ idx := by omega
              simp only [Flushed, slotData, slotOf_set slots' idx _ hlen', hne, if_false, hslot']
              exact hfl

end

theorem fieldIdx_ok {fields : List (String × Nat)} {rs : RecordState} {name : String} {idx : Nat}
    (h : fieldIdx fields rs name = .ok idx) :
    rs.current ≤ idx ∧ ∃ f, fields[idx]? = some f ∧ f.1 = name := by
  unfold fieldIdx at h
  cases hc : fields[rs.current]? with
  | none => simp [hc] at h
  | some first =>
    simp only [hc] at h
    by_cases hn : first.1 = name
    · simp only [hn, if_true, Except.ok.injEq] at h
      subst h
      exact ⟨Nat.le_refl _, first, hc, hn⟩
    · simp only [hn, if_false] at h
      cases hl : lookupLast (fields.map (·.1)) name with
      | none => simp [hl] at h
      | some i =>
        simp only [hl] at h
        by_cases hi : i > rs.current
        · simp only [hi, if_true, Except.ok.injEq] at h
          subst h
          have := lookupLast_some hl
          rw [List.getElem?_map] at this
          cases hf : fields[i]? with
          | none => simp [hf] at this
          | some f =>
            simp [hf] at this
            exact ⟨by omega, f, rfl, this⟩
        · simp only [hi, if_false] at h
          split at h <;> simp at h

theorem names_inj {fields : List (String × Nat)} (hd : (fields.map (·.1)).Nodup) {i j : Nat}
    {f1 f2 : String × Nat} (h1 : fields[i]? = some f1) (h2 : fields[j]? = some f2)
    (he : f1.1 = f2.1) : i = j := by
  have hi := (List.getElem?_eq_some_iff.1 h1)
  have hj := (List.getElem?_eq_some_iff.1 h2)
  obtain ⟨hi1, hi2⟩ := hi
  obtain ⟨hj1, hj2⟩ := hj
  exact (List.getElem_inj (xs := fields.map (·.1)) (h₀ := by simpa using hi1)
    (h₁ := by simpa using hj1) hd).1 (by simp [hi2, hj2, he])

/-- bookkeeping of which fields were presented by name -/
structure PresInv (ext : DenExt) (S : Schema) (fields : List (String × Nat))
    (w : Nat → Option (Value × Bytes)) (done : List (String × SV)) : Prop where
  nodup : (done.map (·.1)).Nodup
  den : ∀ p ∈ done, ∃ i f fnode v e, fields[i]? = some f ∧ f.1 = p.1 ∧ S[f.2]? = some fnode ∧
    w i = some (v, e) ∧ denotes ext S fnode p.2 v = true
  src : ∀ i v e, w i = some (v, e) → ∃ f fnode, fields[i]? = some f ∧ S[f.2]? = some fnode ∧
    (f.1 ∈ done.map (·.1) ∨ isNullish S fnode v = true)

section
variable {ext : Ext} {a : Bool} {S : Schema}

theorem serFields_record_sound (hS : SchemaOK S) (fields : List (String × Nat))
    (hd : (fields.map (·.1)).Nodup) (o : Bytes) (flds : List (String × SV))
    (hIH : ∀ p ∈ flds, SerSound ext a S p.2) :
    ∀ done w rs s k' s', RecInv S fields o w rs s → Flushed rs →
    PresInv (denExtOf ext) S fields w done →
    serFields ext a S (.record fields rs) flds s = (.ok k', s') →
    ∃ w' rs', k' = .record fields rs' ∧ RecInv S fields o w' rs' s' ∧ Flushed rs' ∧
      PresInv (denExtOf ext) S fields w' (done ++ flds) := by
  induction flds with
  | nil =>
    intro done w rs s k' s' hinv hfl hp hrun
    simp only [serFields, Prod.mk.injEq, Except.ok.injEq] at hrun
    obtain ⟨rfl, rfl⟩ := hrun
    exact ⟨w, rs, rfl, hinv, hfl, by simpa using hp⟩
  | cons p rest ih =>
    obtain ⟨name, sv⟩ := p
    intro done w rs s k' s' hinv hfl hp hrun
    have ihr := ih (fun p hp => hIH p (List.mem_cons_of_mem _ hp))
    have hsv := hIH (name, sv) (List.mem_cons_self ..)
    simp only [] at hsv
    simp only [serFields] at hrun
    cases hfi : fieldIdx fields rs name with
    | error e => simp [hfi] at hrun
    | ok idx =>
      simp only [hfi] at hrun
      obtain ⟨hidx, f, hf, hfname⟩ := fieldIdx_ok hfi
      cases hrv : recordValue S fields rs idx (fun node => ser ext a S node sv) s with
      | mk r s1 =>
        rw [hrv] at hrun
        cases r with
        | error e => simp at hrun
        | ok rs1 =>
          simp only [] at hrun
          obtain ⟨f', fnode, v, e, hf', hfn, hwn, hden, hinv1, hfl1⟩ :=
            recordValue_inv hS hinv hfl idx hidx sv hsv rs1 s1 hrv
          rw [hf] at hf'
          simp only [Option.some.injEq] at hf'
          subst hf'
          have hnotin : name ∉ done.map (·.1) := by
            intro hmem
            obtain ⟨p, hp1, hp2⟩ := List.mem_map.1 hmem
            obtain ⟨i, fi, _, vi, ei, hfi', hfin, _, hwi, _⟩ := hp.den p hp1
            have : i = idx := names_inj hd hfi' hf (by rw [hfin, hp2, hfname])
            subst this
            rw [hwn] at hwi; simp at hwi
          have hp1 : PresInv (denExtOf ext) S fields (wUpdate w idx (v, e)) (done ++ [(name, sv)]) :=
            { nodup := by
                rw [List.map_append, List.nodup_append]
                refine ⟨hp.nodup, by simp, ?_⟩
                intro x hx y hy
                simp at hy
                subst hy
                intro hxy; subst hxy
                exact hnotin hx
              den := by
                intro p hpm
                rw [List.mem_append] at hpm
                rcases hpm with hpm | hpm
                · obtain ⟨i, fi, fnodei, vi, ei, h1, h2, h3, h4, h5⟩ := hp.den p hpm
                  have hne : i ≠ idx := by
                    intro h; subst h; rw [hwn] at h4; simp at h4
                  exact ⟨i, fi, fnodei, vi, ei, h1, h2, h3, by simp [wUpdate, hne, h4], h5⟩
                · simp at hpm; subst hpm
                  exact ⟨idx, f, fnode, v, e, hf, hfname, hfn, by simp [wUpdate], hden⟩
              src := by
                intro i v' e' hw'
                by_cases hi : i = idx
                · subst hi
                  exact ⟨f, fnode, hf, hfn, Or.inl (by simp [hfname])⟩
                · simp only [wUpdate, hi, if_false] at hw'
                  obtain ⟨fi, fnodei, h1, h2, h3⟩ := hp.src i v' e' hw'
                  refine ⟨fi, fnodei, h1, h2, ?_⟩
                  rcases h3 with h3 | h3
                  · left; rw [List.map_append, List.mem_append]; exact Or.inl h3
                  · right; exact h3 }
          obtain ⟨w', rs', hk', hinv', hfl', hp'⟩ := ihr _ _ rs1 s1 k' s' hinv1 hfl1 hp1 hrun
          exact ⟨w', rs', hk', hinv', hfl', by simpa using hp'⟩

end

/-- the value written by `end` for an omitted field: null, or the null branch of a union -/
def nullFill (S : Schema) (k : Nat) : SerM Unit := do
  let n ← nodeAt S k
  match n with
  | .null => pure ()
  | .union vs =>
    match unnamedLookup .null (branchNodes S vs) with
    | some d =>
      match (branchNodes S vs)[d]? with
      | some .null => writeVarI64 d
      | _ => SerM.fail .custom
    | none => SerM.fail .custom
  | _ => SerM.fail .custom

theorem recordEnd_succ (S : Schema) (fields : List (String × Nat)) (fuel : Nat) (rs : RecordState)
    (s : SerState) :
    recordEnd S fields (fuel + 1) rs s =
      match fields[rs.current]? with
      | none => (.ok rs, s)
      | some f =>
        match nullFill S f.2 s with
        | (.error e, s') => (.error (e, rs), s')
        | (.ok _, s') =>
          match flushBuffered rs.buffers.slots.length { rs with current := rs.current + 1 } s' with
          | (.error e, s'') => (.error e, s'')
          | (.ok rs', s'') => recordEnd S fields fuel rs' s'' := by
  rw [recordEnd]
  rfl


section
variable {S : Schema}

theorem nullFill_sound (hS : SchemaOK S) (k : Nat) (s : SerState) (hs : Good s)
    (hok : (nullFill S k s).1 = .ok ()) :
    ∃ fnode v e, S[k]? = some fnode ∧ nullFill S k s = (.ok (), { s with out := s.out ++ e }) ∧
      Dec S fnode e v ∧ isNullish S fnode v = true := by
  unfold nullFill at hok ⊢
  cases hk : S[k]? with
  | none => simp [bind, nodeAt, hk, SerM.fail] at hok
  | some fnode =>
    have hfnok := hS k fnode hk
    simp only [bind, nodeAt, hk, pure] at hok ⊢
    cases fnode <;> simp only [] at hok ⊢
    case null =>
      exact ⟨.null, .null, [], rfl, by simp, Dec.of_encode (by simp [encode]), rfl⟩
    case union vs =>
      cases hl : unnamedLookup .null (branchNodes S vs) with
      | none => simp [hl, SerM.fail] at hok
      | some d =>
        simp only [hl] at hok ⊢
        have hd : d < vs.length := by have := unnamedLookup_lt hl; rwa [branchNodes_length] at this
        have hsmall : vs.length < 2 ^ 63 := by simpa [nodeSmall] using hfnok.small
        have hkd : vs[d]? = some vs[d] := List.getElem?_eq_getElem hd
        have hkb : vs[d] < S.size := hfnok.children _ (by simp [Node.children])
        have hSk : S[vs[d]]? = some S[vs[d]] := by simp [hkb]
        have hbn : (branchNodes S vs)[d]? = some S[vs[d]] := by
          rw [branchNodes_getElem?, hkd]; simp [hSk]
        rw [hbn] at hok ⊢
        cases hb : S[vs[d]] <;> rw [hb] at hok <;> try simp only [] at hok
        case null =>
          rw [hb] at hSk
          refine ⟨.union vs, .union d .null, encodeLong d, rfl, ?_,
            by simpa using Dec.union hkd hSk (by omega) (Dec.of_encode (bytes := []) (v := .null) (by simp [encode])), ?_⟩
          · exact writeVarI64_spec _ (inI64_of_lt (by omega)) s hs.1
          · simp [isNullish, hkd, hSk]
        all_goals simp [SerM.fail] at hok
    all_goals simp [SerM.fail] at hok

end

section
variable {ext : DenExt} {S : Schema}

theorem RecInv.advance {fields : List (String × Nat)} {o : Bytes}
    {w : Nat → Option (Value × Bytes)} {rs : RecordState} {s : SerState}
    (hinv : RecInv S fields o w rs s) {f : String × Nat}
    (hf : fields[rs.current]? = some f) {fnode : Node} (hfn : S[f.2]? = some fnode) {v : Value}
    {e : Bytes} (hdec : Dec S fnode e v) {s1 : SerState} (hout1 : s1.out = s.out ++ e)
    (hg1 : Good s1) :
    RecInv S fields o (wUpdate w rs.current (v, e)) { rs with current := rs.current + 1 } s1 :=
  have hidxn : rs.current < fields.length := (List.getElem?_eq_some_iff.1 hf).1
  { cur_le := hidxn
    dom := by
      intro i hi
      by_cases h : i = rs.current
      · subst h; exact hidxn
      · simp only [wUpdate, h, if_false] at hi; exact hinv.dom i hi
    below := by
      intro i hi
      by_cases h : i = rs.current
      · simp [wUpdate, h]
      · simp only [wUpdate, h, if_false]; exact hinv.below i (by simp at hi; omega)
    out := by
      rw [hout1, hinv.out]
      simp [encUpTo, encUpTo_update, wUpdate]
    slots := by
      intro i hi
      simp only at hi
      have h : i ≠ rs.current := by omega
      simp only [wUpdate, h, if_false]
      exact hinv.slots i (by omega)
    good := hg1
    wit := by
      intro i v' e' hw'
      by_cases h : i = rs.current
      · subst h
        simp only [wUpdate, if_true, Option.some.injEq, Prod.mk.injEq] at hw'
        obtain ⟨rfl, rfl⟩ := hw'
        exact ⟨f, fnode, hf, hfn, hdec⟩
      · simp only [wUpdate, h, if_false] at hw'
        exact hinv.wit i v' e' hw' }

theorem recordEnd_inv (hS : SchemaOK S) (fields : List (String × Nat)) (o : Bytes)
    (done : List (String × SV)) :
    ∀ fuel w rs s rs' s', RecInv S fields o w rs s → Flushed rs → PresInv ext S fields w done →
    recordEnd S fields fuel rs s = (.ok rs', s') →
    ∃ w', RecInv S fields o w' rs' s' ∧ Flushed rs' ∧ PresInv ext S fields w' done := by
  intro fuel
  induction fuel with
  | zero =>
    intro w rs s rs' s' hinv hfl hp hrun
    simp only [recordEnd, Prod.mk.injEq, Except.ok.injEq] at hrun
    obtain ⟨rfl, rfl⟩ := hrun
    exact ⟨w, hinv, hfl, hp⟩
  | succ fuel ih =>
    intro w rs s rs' s' hinv hfl hp hrun
    rw [recordEnd_succ] at hrun
    cases hf : fields[rs.current]? with
    | none =>
      simp only [hf, Prod.mk.injEq, Except.ok.injEq] at hrun
      obtain ⟨rfl, rfl⟩ := hrun
      exact ⟨w, hinv, hfl, hp⟩
    | some f =>
      simp only [hf] at hrun
      cases hfill : nullFill S f.2 s with
      | mk r s1 =>
        rw [hfill] at hrun
        cases r with
        | error e => simp at hrun
        | ok u =>
          simp only [] at hrun
          obtain ⟨fnode, v, e, hfn, hrunf, hdec, hnull⟩ :=
            nullFill_sound hS f.2 s hinv.good (by rw [hfill])
          rw [hfill] at hrunf
          simp only [Prod.mk.injEq, true_and] at hrunf
          subst hrunf
          have hwn := hinv.w_none_of_flushed hfl
          have hpre := hinv.advance hf hfn hdec (s1 := { s with out := s.out ++ e }) rfl
            (hinv.good.append _)
          obtain ⟨rs2, s2, hfr, hinv2, hfl2, _⟩ :=
            flushBuffered_inv rs.buffers.slots.length { rs with current := rs.current + 1 } _ hpre
              (by simp)
          rw [hfr] at hrun
          simp only [] at hrun
          have hp2 : PresInv ext S fields (wUpdate w rs.current (v, e)) done :=
            { nodup := hp.nodup
              den := by
                intro p hpm
                obtain ⟨i, fi, fnodei, vi, ei, h1, h2, h3, h4, h5⟩ := hp.den p hpm
                have hne : i ≠ rs.current := by
                  intro h; subst h; rw [hwn] at h4; simp at h4
                exact ⟨i, fi, fnodei, vi, ei, h1, h2, h3, by simp [wUpdate, hne, h4], h5⟩
              src := by
                intro i v' e' hw'
                by_cases hi : i = rs.current
                · subst hi
                  simp only [wUpdate, if_true, Option.some.injEq, Prod.mk.injEq] at hw'
                  obtain ⟨rfl, rfl⟩ := hw'
                  exact ⟨f, fnode, hf, hfn, Or.inr hnull⟩
                · simp only [wUpdate, hi, if_false] at hw'
                  exact hp.src i v' e' hw' }
          exact ih _ rs2 s2 rs' s' hinv2 hfl2 hp2 hrun

end

def encOf (w : Nat → Option (Value × Bytes)) (i : Nat) : Bytes :=
  match w i with
  | some (_, e) => e
  | none => []

def valOf (w : Nat → Option (Value × Bytes)) (i : Nat) : Value :=
  match w i with
  | some (v, _) => v
  | none => .null

theorem encUpTo_eq (w : Nat → Option (Value × Bytes)) (c : Nat) :
    encUpTo w c = (List.range' 0 c).flatMap (encOf w) := by
  induction c with
  | zero => rfl
  | succ c ih =>
    rw [encUpTo, ih, List.range'_1_concat]
    simp [encOf] <;> (cases w c <;> rfl)

theorem DecFields.nil {S : Schema} : DecFields S [] [] [] :=
  ⟨0, fun fuel _ rest => by simp [decodeFields]⟩

theorem DecFields.cons {S : Schema} {k : Nat} {n : Node} {ks : List Nat} {b bs : Bytes} {v : Value}
    {vs : List Value} (hk : S[k]? = some n) (h1 : Dec S n b v) (h2 : DecFields S ks bs vs) :
    DecFields S (k :: ks) (b ++ bs) (v :: vs) := by
  obtain ⟨N1, hN1⟩ := h1
  obtain ⟨N2, hN2⟩ := h2
  refine ⟨max N1 N2 + 1, fun fuel hf rest => ?_⟩
  obtain ⟨g, rfl⟩ : ∃ g, fuel = g + 1 := ⟨fuel - 1, by omega⟩
  simp only [decodeFields, nodeOf, hk, List.append_assoc, hN1 g (by omega) (bs ++ rest),
    hN2 g (by omega) rest]

theorem Dec.record {S : Schema} {nm : Name} {fields : List (String × Nat)} {b : Bytes}
    {vs : List Value} (h : DecFields S (fields.map (·.2)) b vs) :
    Dec S (.record nm fields) b (.record vs) := by
  obtain ⟨N, hN⟩ := h
  refine ⟨N + 1, fun fuel hf rest => ?_⟩
  obtain ⟨g, rfl⟩ : ∃ g, fuel = g + 1 := ⟨fuel - 1, by omega⟩
  simp only [decode, hN g (by omega) rest, Option.map_some]

theorem decFields_of_w {S : Schema} {fields : List (String × Nat)}
    {w : Nat → Option (Value × Bytes)}
    (hall : ∀ i, i < fields.length → (w i).isSome = true)
    (wit : ∀ i v e, w i = some (v, e) →
      ∃ f fnode, fields[i]? = some f ∧ S[f.2]? = some fnode ∧ Dec S fnode e v) :
    ∀ m i, i + m = fields.length →
      DecFields S ((fields.drop i).map (·.2)) ((List.range' i m).flatMap (encOf w))
        ((List.range' i m).map (valOf w)) := by
  intro m
  induction m with
  | zero =>
    intro i hi
    have : fields.drop i = [] := by simp; omega
    rw [this]; exact DecFields.nil
  | succ m ih =>
    intro i hi
    have hi' : i < fields.length := by omega
    have hw := hall i hi'
    cases hwi : w i with
    | none => simp [hwi] at hw
    | some ve =>
      obtain ⟨v, e⟩ := ve
      obtain ⟨f, fnode, hf, hfn, hdec⟩ := wit i v e hwi
      have hdrop : fields.drop i = f :: fields.drop (i + 1) := by
        have := (List.getElem?_eq_some_iff.1 hf)
        obtain ⟨h1, h2⟩ := this
        rw [← h2]; exact List.drop_eq_getElem_cons h1
      rw [hdrop, List.range'_succ]
      simp only [List.map_cons, List.flatMap_cons]
      have e1 : encOf w i = e := by simp [encOf, hwi]
      have e2 : valOf w i = v := by simp [valOf, hwi]
      rw [e1, e2]
      exact DecFields.cons hfn hdec (ih (i + 1) (by omega))

theorem indexOfName_of_nodup {fields : List (String × Nat)} (hd : (fields.map (·.1)).Nodup)
    {i : Nat} {f : String × Nat} (hf : fields[i]? = some f) : indexOfName f.1 fields = some i := by
  induction fields generalizing i with
  | nil => simp at hf
  | cons g rest ih =>
    obtain ⟨gn, gk⟩ := g
    cases i with
    | zero =>
      simp at hf; subst hf
      simp [indexOfName]
    | succ i =>
      simp only [List.getElem?_cons_succ] at hf
      simp only [List.map_cons, List.nodup_cons] at hd
      have hne : gn ≠ f.1 := by
        intro h
        apply hd.1
        rw [h]
        exact List.mem_map.2 ⟨f, List.mem_of_getElem? hf, rfl⟩
      simp [indexOfName, hne, ih hd.2 hf]

theorem popSuperBuffer_good {s : SerState} (hs : Good s) :
    ∃ sb s1, popSuperBuffer s = (.ok sb, s1) ∧ sb.slots = [] ∧ s1.out = s.out ∧ Good s1 := by
  unfold popSuperBuffer
  cases hb : s.pool.superBuffers with
  | nil => exact ⟨_, s, rfl, rfl, rfl, hs⟩
  | cons b rest =>
    have hclean := hs.2.2
    rw [hb] at hclean
    have hbd : b.slots = [] := hclean b (by simp)
    simp only [hbd, ne_eq, not_true_eq_false, if_false]
    refine ⟨b, _, rfl, hbd, rfl, hs.1, hs.2.1, ?_⟩
    intro b' hb'
    exact hclean b' (by simp [hb'])

theorem recordDrop_good {s : SerState} (hs : Good s) (rs : RecordState)
    (hslots : rs.buffers.slots = []) :
    ∃ s1, recordDrop rs s = (.ok (), s1) ∧ s1.out = s.out ∧ Good s1 := by
  unfold recordDrop
  by_cases hcap : rs.buffers.cap = true
  · simp only [hcap, if_true, bind, getPool, setPool, pushSuperBuffer, hslots, List.filterMap_nil,
      List.reverse_nil, List.nil_append]
    refine ⟨_, rfl, rfl, hs.1, hs.2.1, ?_⟩
    intro sb hsb
    simp only [List.mem_cons] at hsb
    rcases hsb with rfl | hsb
    · rfl
    · exact hs.2.2 sb hsb
  · simp only [hcap, Bool.false_eq_true, if_false]
    exact ⟨s, rfl, rfl, hs⟩


theorem wvals_getElem? (w : Nat → Option (Value × Bytes)) (n i : Nat) (h : i < n) :
    ((List.range' 0 n).map (valOf w))[i]? = some (valOf w i) := by
  simp [h]

section
variable {ext : DenExt} {S : Schema}

theorem denotesPresented_of_pres {fields : List (String × Nat)} (hd : (fields.map (·.1)).Nodup)
    {w : Nat → Option (Value × Bytes)} {done : List (String × SV)}
    (hp : PresInv ext S fields w done) (l : List (String × SV)) (hl : ∀ p ∈ l, p ∈ done) :
    denotesPresented ext S fields ((List.range' 0 fields.length).map (valOf w)) l = true := by
  induction l with
  | nil => rfl
  | cons p rest ih =>
    obtain ⟨name, sv⟩ := p
    obtain ⟨i, f, fnode, v, e, hf, hfn, hS, hw, hden⟩ := hp.den (name, sv) (hl _ (by simp))
    simp only [] at hfn hden
    have hi : i < fields.length := (List.getElem?_eq_some_iff.1 hf).1
    have hidx : indexOfName name fields = some i := by rw [← hfn]; exact indexOfName_of_nodup hd hf
    have hv : valOf w i = v := by simp [valOf, hw]
    simp only [denotesPresented, hidx, hf, wvals_getElem? w _ i hi, hv, hS, hden, Bool.true_and]
    exact ih (fun p hp => hl p (by simp [hp]))

theorem recordComplete_of_pres {fields : List (String × Nat)}
    {w : Nat → Option (Value × Bytes)} {done : List (String × SV)}
    (hp : PresInv ext S fields w done) (hall : ∀ i, i < fields.length → (w i).isSome = true) :
    recordComplete S fields (done.map (·.1)) ((List.range' 0 fields.length).map (valOf w)) = true := by
  simp only [recordComplete, Bool.and_eq_true, decide_eq_true_eq, List.all_eq_true,
    List.length_map, List.length_range', List.mem_range]
  refine ⟨⟨⟨hp.nodup, ?_⟩, trivial⟩, ?_⟩
  · intro nm hnm
    obtain ⟨p, hp1, hp2⟩ := List.mem_map.1 hnm
    obtain ⟨i, f, _, _, _, hf, hfn, _⟩ := hp.den p hp1
    simp only [List.contains_eq_mem, List.mem_map, decide_eq_true_eq]
    exact ⟨f, List.mem_of_getElem? hf, by rw [hfn, hp2]⟩
  · intro i hi
    have hw := hall i hi
    cases hwi : w i with
    | none => simp [hwi] at hw
    | some ve =>
      obtain ⟨v, e⟩ := ve
      obtain ⟨f, fnode, hf, hS, hor⟩ := hp.src i v e hwi
      have hv : valOf w i = v := by simp [valOf, hwi]
      simp only [hf, wvals_getElem? w _ i hi, hv, hS]
      rcases hor with h | h
      · simp [h]
      · simp [h]

end

section
variable {ext : Ext} {a : Bool} {S : Schema}

theorem structCore_record_sound (hS : SchemaOK S) (nm : Name) (fields : List (String × Nat))
    (hnok : NodeOK S (.record nm fields)) (L : Nat) (durLen : Option Nat)
    (flds : List (String × SV)) (hIH : ∀ p ∈ flds, SerSound ext a S p.2)
    (s : SerState) (hs : Good s)
    (hok : (structCore S (.record nm fields) L durLen
      (fun k s => serFields ext a S k flds s) s).1 = .ok ()) :
    Res S (.record nm fields)
      (structCore S (.record nm fields) L durLen (fun k s => serFields ext a S k flds s)) s
      (fun v => ∃ vals, v = .record vals ∧
        recordComplete S fields (flds.map (·.1)) vals = true ∧
        denotesPresented (denExtOf ext) S fields vals flds = true) := by
  have hd : (fields.map (·.1)).Nodup := by simpa [nodeNamesDistinct] using hnok.distinct
  obtain ⟨sb, s1, hpop, hsb, hout1, hg1⟩ := popSuperBuffer_good hs
  have hstart : structStartAt S (.record nm fields) L durLen s =
      (.ok (.record fields { current := 0, buffers := sb }), s1) := by
    simp only [structStartAt, bind, hpop, pure]
  unfold Res
  simp only [structCore, bind, hstart] at hok ⊢
  have hinv0 : RecInv S fields s.out (fun _ => none) { current := 0, buffers := sb } s1 :=
    { cur_le := Nat.zero_le _
      dom := by intro i hi; simp at hi
      below := by intro i hi; simp at hi
      out := by simp [encUpTo, hout1]
      slots := by intro i _; simp [slotData, slotOf, hsb]
      good := hg1
      wit := by intro i v e h; simp at h }
  have hfl0 : Flushed { current := 0, buffers := sb } := by simp [Flushed, slotData, slotOf, hsb]
  have hp0 : PresInv (denExtOf ext) S fields (fun _ => none) [] :=
    { nodup := by simp
      den := by intro p hp; simp at hp
      src := by intro i v e h; simp at h }
  cases hrun : serFields ext a S (.record fields { current := 0, buffers := sb }) flds s1 with
  | mk r s2 =>
    rw [hrun] at hok
    cases r with
    | error ek => exfalso; obtain ⟨e, k'⟩ := ek; exact finally_fail_not_ok e _ _ _ hok
    | ok k' =>
      obtain ⟨w1, rs1, hk', hinv1, hfl1, hp1⟩ :=
        serFields_record_sound hS fields hd s.out flds hIH [] _ _ s1 k' s2 hinv0 hfl0 hp0 hrun
      subst hk'
      simp only [List.nil_append] at hp1
      simp only [structBodyFinish, structFinish, structEnd] at hok ⊢
      cases hend : recordEnd S fields (fields.length + 1) rs1 s2 with
      | mk r3 s3 =>
        rw [hend] at hok
        cases r3 with
        | error ek =>
          exfalso; obtain ⟨e, k'⟩ := ek
          exact finally_fail_not_ok e _ _ _ hok
        | ok rs3 =>
          simp only [] at hok ⊢
          obtain ⟨w3, hinv3, hfl3, hp3⟩ :=
            recordEnd_inv (ext := denExtOf ext) hS fields s.out flds _ w1 rs1 s2 rs3 s3 hinv1 hfl1 hp1 hend
          by_cases hlt : rs3.current < fields.length
          · exfalso
            simp only [hlt, if_true] at hok
            exact finally_fail_not_ok _ _ _ _ hok
          · simp only [hlt, if_false]
            have hcur : rs3.current = fields.length := by have := hinv3.cur_le; omega
            obtain ⟨s4, hdrop, hout4, hg4⟩ := recordDrop_good hinv3.good
              { rs3 with buffers := { rs3.buffers with slots := [] } } rfl
            have hall : ∀ i, i < fields.length → (w3 i).isSome = true := by
              intro i hi; exact hinv3.below i (by omega)
            have hfin : SerM.finally (pure ()) (structDrop (.record fields
                { rs3 with buffers := { rs3.buffers with slots := [] } })) s3 = (.ok (), s4) := by
              simp only [SerM.finally, pure, structDrop, hdrop]
            refine ⟨s4, .record ((List.range' 0 fields.length).map (valOf w3)),
              (List.range' 0 fields.length).flatMap (encOf w3), hfin, ?_, hg4, ?_, _, rfl, ?_, ?_⟩
            · rw [hout4, hinv3.out, hcur, encUpTo_eq]
            · apply Dec.record
              have := decFields_of_w hall hinv3.wit fields.length 0 (by omega)
              simpa using this
            · exact recordComplete_of_pres hp3 hall
            · exact denotesPresented_of_pres hd hp3 flds (fun p hp => hp)

end

theorem strKeys_mem {entries : List (SV × SV)} {fields : List (String × SV)}
    (h : strKeys entries = some fields) {p : String × SV} (hp : p ∈ fields) :
    (SV.str p.1, p.2) ∈ entries := by
  induction entries generalizing fields with
  | nil => simp [strKeys] at h; subst h; simp at hp
  | cons q rest ih =>
    obtain ⟨key, v⟩ := q
    cases key <;> simp only [strKeys, reduceCtorEq] at h
    rename_i name
    cases hr : strKeys rest with
    | none => simp [hr] at h
    | some fr =>
      simp only [hr, Option.map_some, Option.some.injEq] at h
      subst h
      simp only [List.mem_cons] at hp
      rcases hp with rfl | hp
      · simp
      · exact List.mem_cons_of_mem _ (ih hr hp)

theorem denotesPresentedE_eq {ext : DenExt} {S : Schema} {sf : List (String × Nat)}
    {vals : List Value} {entries : List (SV × SV)} {fields : List (String × SV)}
    (h : strKeys entries = some fields) :
    denotesPresentedE ext S sf vals entries = denotesPresented ext S sf vals fields := by
  induction entries generalizing fields with
  | nil => simp [strKeys] at h; subst h; rfl
  | cons q rest ih =>
    obtain ⟨key, v⟩ := q
    cases key <;> simp only [strKeys, reduceCtorEq] at h
    rename_i name
    cases hr : strKeys rest with
    | none => simp [hr] at h
    | some fr =>
      simp only [hr, Option.map_some, Option.some.injEq] at h
      subst h
      simp only [denotesPresentedE, denotesPresented, ih hr]

theorem structStartAt_kind {S : Schema} {n : Node} {L : Nat} {durLen : Option Nat} {s s1 : SerState}
    {k : StructKind} (h : structStartAt S n L durLen s = (.ok k, s1))
    (hn : (∃ nm fs, n = .record nm fs) ∨ n = .duration) : k.isMap = false := by
  rcases hn with ⟨nm, fs, rfl⟩ | rfl
  · simp only [structStartAt, bind] at h
    cases hp : popSuperBuffer s with
    | mk r s' =>
      rw [hp] at h
      cases r with
      | error e => simp at h
      | ok sb => simp [pure] at h; rw [← h.1]; rfl
  · simp only [structStartAt] at h
    cases durLen with
    | none => simp [pure] at h; rw [← h.1]; rfl
    | some l =>
      simp only [] at h
      by_cases hl : l ≠ 3
      · simp [hl, SerM.fail] at h
      · simp [hl, pure] at h; rw [← h.1]; rfl

theorem structCore_congr {S : Schema} {n : Node} {L : Nat} {durLen : Option Nat}
    {run1 run2 : StructKind → SerState → Except (SerErr × StructKind) StructKind × SerState}
    (hn : (∃ nm fs, n = .record nm fs) ∨ n = .duration)
    (h : ∀ k s, k.isMap = false → run1 k s = run2 k s) (s : SerState) :
    structCore S n L durLen run1 s = structCore S n L durLen run2 s := by
  simp only [structCore, bind]
  cases hst : structStartAt S n L durLen s with
  | mk r s1 =>
    cases r with
    | error e => rfl
    | ok k => simp only [h k s1 (structStartAt_kind hst hn)]

theorem structCore_run_ok {S : Schema} {n : Node} {L : Nat} {durLen : Option Nat}
    {run : StructKind → SerState → Except (SerErr × StructKind) StructKind × SerState}
    (hn : (∃ nm fs, n = .record nm fs) ∨ n = .duration) {s : SerState}
    (hok : (structCore S n L durLen run s).1 = .ok ()) :
    ∃ k s1 k' s2, k.isMap = false ∧ run k s1 = (.ok k', s2) := by
  simp only [structCore, bind] at hok
  cases hst : structStartAt S n L durLen s with
  | mk r s1 =>
    rw [hst] at hok
    cases r with
    | error e => simp at hok
    | ok k =>
      simp only [] at hok
      cases hr : run k s1 with
      | mk r2 s2 =>
        rw [hr] at hok
        cases r2 with
        | error ek =>
          exfalso; obtain ⟨e, k'⟩ := ek
          exact finally_fail_not_ok e _ _ _ hok
        | ok k2 => exact ⟨k, s1, k2, s2, structStartAt_kind hst hn, hr⟩


section
variable {ext : Ext} {a : Bool} {S : Schema}

theorem structCoreF_sound (hS : SchemaOK S) (n : Node) (hnok : NodeOK S n)
    (L : Nat) (durLen : Option Nat) (flds : List (String × SV)) (hlen : flds.length < 2 ^ 63)
    (hIH : ∀ p ∈ flds, (utf8 p.1).length < 2 ^ 63 ∧ SerSound ext a S p.2)
    (s : SerState) (hs : Good s)
    (hok : (structCore S n L durLen (fun k s => serFields ext a S k flds s) s).1 = .ok ()) :
    Res S n (structCore S n L durLen (fun k s => serFields ext a S k flds s)) s (fun v =>
      structAtNode S (flds.map (·.1))
        (fun sf vals => denotesPresented (denExtOf ext) S sf vals flds)
        (fun item ents => denotesMapFields (denExtOf ext) S item flds ents)
        (fun mo d ms => denotesDurFields mo d ms flds) n v = true) := by
  cases n
  case record nm fields =>
    refine (structCore_record_sound hS nm fields hnok L durLen flds (fun p hp => (hIH p hp).2)
      s hs hok).mono ?_
    rintro v ⟨vals, rfl, h1, h2⟩
    simp [structAtNode, h1, h2]
  case map k =>
    refine (structCore_map_sound k hnok L durLen _ flds.length hlen
      (fun item ents => denotesMapFields (denExtOf ext) S item flds ents) ?_ s hs hok).mono ?_
    · intro item hitem c s k' s' hs hrun
      exact serFields_map_sound item (hS k item hitem) flds hIH c s k' s' hs hrun
    · rintro v ⟨item, ents, hk, rfl, hden⟩
      simp [structAtNode, hk, hden]
  case duration =>
    refine (structCore_duration_sound L durLen flds s hs hok).mono ?_
    rintro v ⟨mo, d, ms, rfl, h1, h2⟩
    simp [structAtNode, h1, h2]
  all_goals simp [structCore, structStartAt, bind, SerM.fail] at hok

theorem structCoreE_sound (hS : SchemaOK S) (n : Node) (hnok : NodeOK S n)
    (hstr : NodeOK S .string)
    (L : Nat) (durLen : Option Nat) (entries : List (SV × SV)) (hlen : entries.length < 2 ^ 63)
    (hIH : ∀ p ∈ entries, SerSound ext a S p.1 ∧ SerSound ext a S p.2)
    (s : SerState) (hs : Good s)
    (hok : (structCore S n L durLen (fun k s => serEntries ext a S k entries s) s).1 = .ok ()) :
    Res S n (structCore S n L durLen (fun k s => serEntries ext a S k entries s)) s (fun v =>
      (match strKeys entries with
        | some fields =>
          structAtNode S (fields.map (·.1))
            (fun sf vals => denotesPresentedE (denExtOf ext) S sf vals entries)
            (fun item ents => denotesMapEntries (denExtOf ext) S item entries ents)
            (fun mo d ms => denotesDurFields mo d ms fields) n v
        | none =>
          structAtNode S [] (fun _ _ => false)
            (fun item ents => denotesMapEntries (denExtOf ext) S item entries ents)
            (fun _ _ _ => false) n v) = true) := by
  by_cases hmap : ∃ k, n = .map k
  · obtain ⟨k, rfl⟩ := hmap
    refine (structCore_map_sound k hnok L durLen _ entries.length hlen
      (fun item ents => denotesMapEntries (denExtOf ext) S item entries ents) ?_ s hs hok).mono ?_
    · intro item hitem c s k' s' hs hrun
      exact serEntries_map_sound item (hS k item hitem) entries hstr hIH c s k' s' hs hrun
    · rintro v ⟨item, ents, hk, rfl, hden⟩
      cases strKeys entries <;> simp [structAtNode, hk, hden]
  · by_cases hrd : (∃ nm fs, n = .record nm fs) ∨ n = .duration
    · obtain ⟨k0, s1, k', s2, hk0, hrun0⟩ := structCore_run_ok hrd hok
      obtain ⟨fields, hfields⟩ := serEntries_ok_strKeys entries k0 s1 k' s2 hk0 hrun0
      have hcongr := structCore_congr (S := S) (L := L) (durLen := durLen) hrd
        (run1 := fun k s => serEntries ext a S k entries s)
        (run2 := fun k s => serFields ext a S k fields s)
        (fun k s hk => serEntries_eq_serFields entries fields k s hk hfields) s
      rw [hcongr] at hok
      unfold Res
      rw [hcongr]
      simp only [hfields]
      have hIHf : ∀ p ∈ fields, SerSound ext a S p.2 := fun p hp =>
        (hIH _ (strKeys_mem hfields hp)).2
      rcases hrd with ⟨nm, fs, rfl⟩ | rfl
      · refine (structCore_record_sound hS nm fs hnok L durLen fields hIHf s hs hok).mono ?_
        rintro v ⟨vals, rfl, h1, h2⟩
        simp [structAtNode, h1, denotesPresentedE_eq hfields, h2]
      · refine (structCore_duration_sound L durLen fields s hs hok).mono ?_
        rintro v ⟨mo, d, ms, rfl, h1, h2⟩
        simp [structAtNode, h1, h2]
    · exfalso
      cases n <;> first
        | (simp [structCore, structStartAt, bind, SerM.fail] at hok; done)
        | exact hmap ⟨_, rfl⟩
        | exact hrd (Or.inl ⟨_, _, rfl⟩)
        | exact hrd (Or.inr rfl)

end

theorem NodeOK.string {S : Schema} : NodeOK S .string :=
  ⟨by simp [Node.children], rfl, rfl, rfl⟩

theorem nameAgrees_none (S : Schema) (n : Node) (idx : Nat) : nameAgrees S n none idx = true := by
  cases n <;> rfl

theorem branchNodes'_eq (S : Schema) (vs : List Nat) : branchNodes' S vs = branchNodes S vs := rfl

section
variable {S : Schema}

/-- from the outcome of `viaUnion` to `seqDispatch` -/
theorem seqDispatch_of_viaUnion {node : Node} {name : Option String} {v : Value}
    {arr : Node → List Value → Bool} {ab : Option Bytes} {au : List (Option Nat)}
    (hname : ∀ vs d, node = .union vs → nameAgrees S (.union vs) name d = true)
    (h : (node.isUnion = false ∧ seqAtNode S arr ab au node v = true) ∨
      (∃ vs d k n y, node = .union vs ∧ v = .union d y ∧ vs[d]? = some k ∧ S[k]? = some n ∧
        n.isUnion = false ∧ seqAtNode S arr ab au n y = true)) :
    seqDispatch S node name v arr ab au = true := by
  rcases h with ⟨hu, h⟩ | ⟨vs, d, k, n, y, rfl, rfl, hk, hn, hu, h⟩
  · rw [seqDispatch_nonunion hu]; exact h
  · exact seqDispatch_union hk hn hu (hname vs d rfl) h

theorem structDispatch_of_viaUnion {node : Node} {name : Option String} {v : Value}
    {presented : List String} {recF : List (String × Nat) → List Value → Bool}
    {mapF : Node → List (String × Value) → Bool} {durF : Nat → Nat → Nat → Bool}
    (hname : ∀ vs d, node = .union vs → nameAgrees S (.union vs) name d = true)
    (h : (node.isUnion = false ∧ structAtNode S presented recF mapF durF node v = true) ∨
      (∃ vs d k n y, node = .union vs ∧ v = .union d y ∧ vs[d]? = some k ∧ S[k]? = some n ∧
        n.isUnion = false ∧ structAtNode S presented recF mapF durF n y = true)) :
    structDispatch S node name v presented recF mapF durF = true := by
  rcases h with ⟨hu, h⟩ | ⟨vs, d, k, n, y, rfl, rfl, hk, hn, hu, h⟩
  · rw [structDispatch_nonunion hu]; exact h
  · exact structDispatch_union hk hn hu (hname vs d rfl) h

/-- from the outcome of `viaName` around `viaUnion` to `seqDispatch` with the name -/
theorem seqDispatch_of_viaName {node : Node} {name : String} {v : Value}
    {arr : Node → List Value → Bool} {ab : Option Bytes} {au : List (Option Nat)}
    (h : ((node.isUnion = false ∨ ∃ vs, node = .union vs ∧ namedLookup name (branchNodes S vs) = none) ∧
        ((node.isUnion = false ∧ seqAtNode S arr ab au node v = true) ∨
          (∃ vs d k n y, node = .union vs ∧ v = .union d y ∧ vs[d]? = some k ∧ S[k]? = some n ∧
            n.isUnion = false ∧ seqAtNode S arr ab au n y = true))) ∨
      (∃ vs d k n y, node = .union vs ∧ namedLookup name (branchNodes S vs) = some d ∧
        v = .union d y ∧ vs[d]? = some k ∧ S[k]? = some n ∧ n.isUnion = false ∧
        ((n.isUnion = false ∧ seqAtNode S arr ab au n y = true) ∨
          (∃ vs d k n' y', n = .union vs ∧ y = .union d y' ∧ vs[d]? = some k ∧ S[k]? = some n' ∧
            n'.isUnion = false ∧ seqAtNode S arr ab au n' y' = true)))) :
    seqDispatch S node (some name) v arr ab au = true := by
  rcases h with ⟨hcase, h⟩ | ⟨vs, d, k, n, y, rfl, hl, rfl, hk, hn, hu, h⟩
  · refine seqDispatch_of_viaUnion ?_ h
    intro vs d hnode
    rcases hcase with hu | ⟨vs', hnode', hl⟩
    · subst hnode; simp [Node.isUnion] at hu
    · subst hnode; simp only [Node.union.injEq] at hnode'; subst hnode'
      simp [nameAgrees, branchNodes'_eq, hl]
  · rcases h with ⟨_, h⟩ | ⟨vs', _, _, _, _, hn', _⟩
    · exact seqDispatch_union hk hn hu (by simp [nameAgrees, branchNodes'_eq, hl]) h
    · subst hn'; simp [Node.isUnion] at hu

theorem structDispatch_of_viaName {node : Node} {name : String} {v : Value}
    {presented : List String} {recF : List (String × Nat) → List Value → Bool}
    {mapF : Node → List (String × Value) → Bool} {durF : Nat → Nat → Nat → Bool}
    (h : ((node.isUnion = false ∨ ∃ vs, node = .union vs ∧ namedLookup name (branchNodes S vs) = none) ∧
        ((node.isUnion = false ∧ structAtNode S presented recF mapF durF node v = true) ∨
          (∃ vs d k n y, node = .union vs ∧ v = .union d y ∧ vs[d]? = some k ∧ S[k]? = some n ∧
            n.isUnion = false ∧ structAtNode S presented recF mapF durF n y = true))) ∨
      (∃ vs d k n y, node = .union vs ∧ namedLookup name (branchNodes S vs) = some d ∧
        v = .union d y ∧ vs[d]? = some k ∧ S[k]? = some n ∧ n.isUnion = false ∧
        ((n.isUnion = false ∧ structAtNode S presented recF mapF durF n y = true) ∨
          (∃ vs d k n' y', n = .union vs ∧ y = .union d y' ∧ vs[d]? = some k ∧ S[k]? = some n' ∧
            n'.isUnion = false ∧ structAtNode S presented recF mapF durF n' y' = true)))) :
    structDispatch S node (some name) v presented recF mapF durF = true := by
  rcases h with ⟨hcase, h⟩ | ⟨vs, d, k, n, y, rfl, hl, rfl, hk, hn, hu, h⟩
  · refine structDispatch_of_viaUnion ?_ h
    intro vs d hnode
    rcases hcase with hu | ⟨vs', hnode', hl⟩
    · subst hnode; simp [Node.isUnion] at hu
    · subst hnode; simp only [Node.union.injEq] at hnode'; subst hnode'
      simp [nameAgrees, branchNodes'_eq, hl]
  · rcases h with ⟨_, h⟩ | ⟨vs', _, _, _, _, hn', _⟩
    · exact structDispatch_union hk hn hu (by simp [nameAgrees, branchNodes'_eq, hl]) h
    · subst hn'; simp [Node.isUnion] at hu

end

section
variable (ext : DenExt) (S : Schema) (n : Node) (v : Value)

theorem denotes_int (t : IntTy) (x : Int) :
    denotes ext S n (.int t x) v = denotesAtLeaf ext S n (.int t x) v := by
  rw [denotes.eq_def]; rfl
theorem denotes_f32 (b : BitVec 32) :
    denotes ext S n (.f32 b) v = denotesAtLeaf ext S n (.f32 b) v := by
  rw [denotes.eq_def]; rfl
theorem denotes_f64 (b : BitVec 64) :
    denotes ext S n (.f64 b) v = denotesAtLeaf ext S n (.f64 b) v := by
  rw [denotes.eq_def]; rfl
theorem denotes_char (c : Char) :
    denotes ext S n (.char c) v = denotesAtLeaf ext S n (.char c) v := by
  rw [denotes.eq_def]; rfl
theorem denotes_str (s : String) :
    denotes ext S n (.str s) v = denotesAtLeaf ext S n (.str s) v := by
  rw [denotes.eq_def]; rfl
theorem denotes_bytes (b : Bytes) :
    denotes ext S n (.bytes b) v = denotesAtLeaf ext S n (.bytes b) v := by
  rw [denotes.eq_def]; rfl
theorem denotes_none : denotes ext S n .none v = denotesAtLeaf ext S n .none v := by
  rw [denotes.eq_def]; rfl
theorem denotes_unit : denotes ext S n .unit v = denotesAtLeaf ext S n .unit v := by
  rw [denotes.eq_def]; rfl
theorem denotes_unitStruct (name : String) :
    denotes ext S n (.unitStruct name) v = denotesAtLeaf ext S n (.unitStruct name) v := by
  rw [denotes.eq_def]; rfl

end

section
variable {ext : DenExt} {S : Schema}

def newtypeDen (ext : DenExt) (S : Schema) (node : Node) (name : String) (x : SV) (v : Value) : Bool :=
  match node with
  | .union vs =>
    (match namedLookup name (branchNodes' S vs) with
      | some d =>
        (match unionBranch S node v with
          | some (idx, branch, y) => decide (d = idx) && denotes ext S branch x y
          | none => false)
      | none => denotes ext S node x v)
  | _ => denotes ext S node x v

theorem denotes_newtypeStruct (node : Node) (name : String) (x : SV) (v : Value) :
    denotes ext S node (.newtypeStruct name x) v = newtypeDen ext S node name x v := by
  rw [denotes.eq_def]; rfl

theorem denotes_newtypeVariant (node : Node) (nm : String) (idx : Nat) (name : String) (x : SV)
    (v : Value) :
    denotes ext S node (.newtypeVariant nm idx name x) v = newtypeDen ext S node name x v := by
  rw [denotes.eq_def]; rfl

theorem newtypeDen_of {node : Node} {name : String} {x : SV} {v : Value}
    (h : ((node.isUnion = false ∨ ∃ vs, node = .union vs ∧ namedLookup name (branchNodes S vs) = none) ∧
        denotes ext S node x v = true) ∨
      (∃ vs d k n y, node = .union vs ∧ namedLookup name (branchNodes S vs) = some d ∧
        v = .union d y ∧ vs[d]? = some k ∧ S[k]? = some n ∧ n.isUnion = false ∧
        denotes ext S n x y = true)) :
    newtypeDen ext S node name x v = true := by
  rcases h with ⟨hcase, h⟩ | ⟨vs, d, k, n, y, rfl, hl, rfl, hk, hn, hu, h⟩
  · rcases hcase with hu | ⟨vs, rfl, hl⟩
    · cases node <;> first | exact h | simp [Node.isUnion] at hu
    · simp only [newtypeDen, branchNodes'_eq, hl]; exact h
  · simp [newtypeDen, branchNodes'_eq, hl, unionBranch, hk, hn, h]

end

theorem svOKList_mem {elems : List SV} (h : svOKList elems = true) {e : SV}
    (he : e ∈ elems) : svOK e = true := by
  induction elems with
  | nil => simp at he
  | cons x rest ih =>
    simp only [svOKList, Bool.and_eq_true] at h
    simp only [List.mem_cons] at he
    rcases he with rfl | he
    · exact h.1
    · exact ih h.2 he

theorem svOKFields_mem {fields : List (String × SV)} (h : svOKFields fields = true)
    {p : String × SV} (hp : p ∈ fields) : (utf8 p.1).length < 2 ^ 63 ∧ svOK p.2 = true := by
  induction fields with
  | nil => simp at hp
  | cons x rest ih =>
    obtain ⟨name, v⟩ := x
    simp only [svOKFields, Bool.and_eq_true, decide_eq_true_eq] at h
    simp only [List.mem_cons] at hp
    rcases hp with rfl | hp
    · exact ⟨h.1.1, h.1.2⟩
    · exact ih h.2 hp

theorem svOKEntries_mem {entries : List (SV × SV)} (h : svOKEntries entries = true)
    {p : SV × SV} (hp : p ∈ entries) : svOK p.1 = true ∧ svOK p.2 = true := by
  induction entries with
  | nil => simp at hp
  | cons x rest ih =>
    obtain ⟨k, v⟩ := x
    simp only [svOKEntries, Bool.and_eq_true] at h
    simp only [List.mem_cons] at hp
    rcases hp with rfl | hp
    · exact ⟨h.1.1, h.1.2⟩
    · exact ih h.2 hp

theorem sizeOf_lt_of_mem_fields {fields : List (String × SV)} {p : String × SV} (hp : p ∈ fields) :
    sizeOf p.2 < sizeOf fields := by
  have h1 := List.sizeOf_lt_of_mem hp
  obtain ⟨a, b⟩ := p
  simp only [Prod.mk.sizeOf_spec] at h1
  simp only []; omega

theorem sizeOf_lt_of_mem_entries {entries : List (SV × SV)} {p : SV × SV} (hp : p ∈ entries) :
    sizeOf p.1 < sizeOf entries ∧ sizeOf p.2 < sizeOf entries := by
  have h1 := List.sizeOf_lt_of_mem hp
  obtain ⟨a, b⟩ := p
  simp only [Prod.mk.sizeOf_spec] at h1
  simp only []; omega


section
variable (ext : DenExt) (S : Schema) (n : Node) (v : Value)

theorem denotes_some (x : SV) : denotes ext S n (.some x) v = denotes ext S n x v := by
  rw [denotes.eq_def]

theorem denotes_seq (len : Option Nat) (elems : List SV) :
    denotes ext S n (.seq len elems) v =
      seqDispatch S n none v (fun item items => denotesList ext S item elems items)
        (u8List elems) (elems.map u32Of) := by
  rw [denotes.eq_def]
theorem denotes_tuple (elems : List SV) :
    denotes ext S n (.tuple elems) v =
      seqDispatch S n none v (fun item items => denotesList ext S item elems items)
        (u8List elems) (elems.map u32Of) := by
  rw [denotes.eq_def]
theorem denotes_tupleStruct (nm : String) (elems : List SV) :
    denotes ext S n (.tupleStruct nm elems) v =
      seqDispatch S n none v (fun item items => denotesList ext S item elems items)
        (u8List elems) (elems.map u32Of) := by
  rw [denotes.eq_def]
theorem denotes_tupleVariant (nm : String) (idx : Nat) (variant : String) (elems : List SV) :
    denotes ext S n (.tupleVariant nm idx variant elems) v =
      seqDispatch S n (some variant) v (fun item items => denotesList ext S item elems items)
        (u8List elems) (elems.map u32Of) := by
  rw [denotes.eq_def]
theorem denotes_map (len : Option Nat) (entries : List (SV × SV)) :
    denotes ext S n (.map len entries) v =
      (match strKeys entries with
      | some fields =>
        structDispatch S n none v (fields.map (·.1))
          (fun schemaFields vals => denotesPresentedE ext S schemaFields vals entries)
          (fun item ents => denotesMapEntries ext S item entries ents)
          (fun mo d ms => denotesDurFields mo d ms fields)
      | none =>
        structDispatch S n none v []
          (fun _ _ => false)
          (fun item ents => denotesMapEntries ext S item entries ents)
          (fun _ _ _ => false)) := by
  rw [denotes.eq_def]; rfl
theorem denotes_struct (name : String) (fields : List (String × SV)) :
    denotes ext S n (.struct name fields) v =
      structDispatch S n (some name) v (fields.map (·.1))
        (fun schemaFields vals => denotesPresented ext S schemaFields vals fields)
        (fun item ents => denotesMapFields ext S item fields ents)
        (fun mo d ms => denotesDurFields mo d ms fields) := by
  rw [denotes.eq_def]
theorem denotes_structVariant (nm : String) (idx : Nat) (variant : String)
    (fields : List (String × SV)) :
    denotes ext S n (.structVariant nm idx variant fields) v =
      structDispatch S n (some variant) v (fields.map (·.1))
        (fun schemaFields vals => denotesPresented ext S schemaFields vals fields)
        (fun item ents => denotesMapFields ext S item fields ents)
        (fun mo d ms => denotesDurFields mo d ms fields) := by
  rw [denotes.eq_def]

end

section
variable {ext : Ext} {a : Bool} {S : Schema}

/-- sequence-like presentations without a variant name -/
theorem seqLike_sound (hS : SchemaOK S) (len : Option Nat) (elems : List SV)
    (hlen : elems.length < 2 ^ 63) (hIH : ∀ e ∈ elems, SerSound ext a S e)
    (node : Node) (s : SerState) (hn : NodeOK S node) (hs : Good s)
    (hok : (seqBody ext a S node len elems s).1 = .ok ()) :
    Res S node (seqBody ext a S node len elems) s (fun v =>
      seqDispatch S node none v (fun item items => denotesList (denExtOf ext) S item elems items)
        (u8List elems) (elems.map u32Of) = true) :=
  (seqBody_sound hS node hn len elems hlen hIH s hs hok).mono fun _ h =>
    seqDispatch_of_viaUnion (fun _ _ _ => nameAgrees_none _ _ _) h

theorem ser_sound_aux (hS : SchemaOK S) (hext : ExtOK ext) :
    ∀ N sv, sizeOf sv ≤ N → svOK sv = true → SerSound ext a S sv := by
  intro N
  induction N with
  | zero =>
    intro sv hsz
    exfalso
    cases sv <;> simp at hsz
  | succ N ih =>
    intro sv hsz hsv
    cases sv with
    | bool b =>
      intro node s hn hs hok
      simp only [ser] at hok ⊢
      simp only [denotes_bool]
      exact Res.of_leaf hs (serBool_sound hS hn s hs.1 b hok)
    | int t x =>
      intro node s hn hs hok
      simp only [ser] at hok ⊢
      simp only [denotes_int]
      exact Res.of_leaf hs (serInteger_sound hS hn s hs.1 t x (by simpa [svOK] using hsv) hok)
    | f32 b =>
      intro node s hn hs hok
      simp only [ser] at hok ⊢
      simp only [denotes_f32]
      exact Res.of_leaf hs (serF32_sound hS hn s hs.1 b hok)
    | f64 b =>
      intro node s hn hs hok
      simp only [ser] at hok ⊢
      simp only [denotes_f64]
      exact Res.of_leaf hs (serF64_sound hS hn s hs.1 hext b hok)
    | char c =>
      intro node s hn hs hok
      simp only [ser] at hok ⊢
      simp only [denotes_char]
      exact Res.of_leaf hs (serStr_sound hS hn s hs.1 hext (.char c) (String.singleton c)
        (Or.inr ⟨c, rfl, rfl⟩) (utf8_singleton_length c) hok)
    | str str =>
      intro node s hn hs hok
      simp only [ser] at hok ⊢
      simp only [denotes_str]
      exact Res.of_leaf hs (serStr_sound hS hn s hs.1 hext (.str str) str (Or.inl rfl)
        (by simpa [svOK] using hsv) hok)
    | bytes b =>
      intro node s hn hs hok
      simp only [ser] at hok ⊢
      simp only [denotes_bytes]
      exact Res.of_leaf hs (serBytes_sound hS hn s hs.1 b (by simpa [svOK] using hsv) hok)
    | none =>
      intro node s hn hs hok
      simp only [ser] at hok ⊢
      simp only [denotes_none]
      exact Res.of_leaf hs (serUnit_sound hn s hs.1 .none (Or.inl rfl) hok)
    | unit =>
      intro node s hn hs hok
      simp only [ser] at hok ⊢
      simp only [denotes_unit]
      exact Res.of_leaf hs (serUnit_sound hn s hs.1 .unit (Or.inr rfl) hok)
    | unitStruct name =>
      intro node s hn hs hok
      simp only [ser] at hok ⊢
      simp only [denotes_unitStruct]
      exact Res.of_leaf hs (serUnitStruct_sound hS hn s hs.1 name (by simpa [svOK] using hsv) hok)
    | unitVariant nm idx variant =>
      intro node s hn hs hok
      simp only [ser] at hok ⊢
      simp only [denotes_unitVariant]
      exact Res.of_leaf hs
        (serUnitVariant_sound hS hn s hs.1 nm idx variant (by simpa [svOK] using hsv) hok)
    | some x =>
      intro node s hn hs hok
      simp only [ser] at hok ⊢
      simp only [denotes_some]
      have hx : sizeOf x ≤ N := by simp only [SV.some.sizeOf_spec] at hsz; omega
      exact ih x hx (by simpa [svOK] using hsv) node s hn hs hok
    | newtypeStruct name x =>
      intro node s hn hs hok
      simp only [ser] at hok ⊢
      have hx : sizeOf x ≤ N := by simp only [SV.newtypeStruct.sizeOf_spec] at hsz; omega
      have hxs := ih x hx (by simpa [svOK] using hsv)
      refine (viaName_sound hS hn name _ (fun n v => denotes (denExtOf ext) S n x v = true) s hs
        (fun n s hs hn hok => hxs n s hn hs hok) hok).mono ?_
      intro v hv
      rw [denotes_newtypeStruct]; exact newtypeDen_of hv
    | newtypeVariant nm idx variant x =>
      intro node s hn hs hok
      simp only [ser] at hok ⊢
      have hx : sizeOf x ≤ N := by simp only [SV.newtypeVariant.sizeOf_spec] at hsz; omega
      have hxs := ih x hx (by simpa [svOK] using hsv)
      refine (viaName_sound hS hn variant _ (fun n v => denotes (denExtOf ext) S n x v = true) s hs
        (fun n s hs hn hok => hxs n s hn hs hok) hok).mono ?_
      intro v hv
      rw [denotes_newtypeVariant]; exact newtypeDen_of hv
    | seq len elems =>
      intro node s hn hs hok
      simp only [svOK, Bool.and_eq_true, decide_eq_true_eq] at hsv
      have hIH : ∀ e ∈ elems, SerSound ext a S e := fun e he =>
        ih e (by have := List.sizeOf_lt_of_mem he; simp only [SV.seq.sizeOf_spec] at hsz; omega)
          (svOKList_mem hsv.2 he)
      have heq : ser ext a S node (.seq len elems) = seqBody ext a S node len elems := by
        rw [ser]; rfl
      rw [heq] at hok ⊢
      simp only [denotes_seq]
      exact seqLike_sound hS len elems hsv.1 hIH node s hn hs hok
    | tuple elems =>
      intro node s hn hs hok
      simp only [svOK, Bool.and_eq_true, decide_eq_true_eq] at hsv
      have hIH : ∀ e ∈ elems, SerSound ext a S e := fun e he =>
        ih e (by have := List.sizeOf_lt_of_mem he; simp only [SV.tuple.sizeOf_spec] at hsz; omega)
          (svOKList_mem hsv.2 he)
      have heq : ser ext a S node (.tuple elems) = seqBody ext a S node (some elems.length) elems := by
        rw [ser]; rfl
      rw [heq] at hok ⊢
      simp only [denotes_tuple]
      exact seqLike_sound hS _ elems hsv.1 hIH node s hn hs hok
    | tupleStruct nm elems =>
      intro node s hn hs hok
      simp only [svOK, Bool.and_eq_true, decide_eq_true_eq] at hsv
      have hIH : ∀ e ∈ elems, SerSound ext a S e := fun e he =>
        ih e (by have := List.sizeOf_lt_of_mem he; simp only [SV.tupleStruct.sizeOf_spec] at hsz; omega)
          (svOKList_mem hsv.2 he)
      have heq : ser ext a S node (.tupleStruct nm elems) =
          seqBody ext a S node (some elems.length) elems := by
        rw [ser]; rfl
      rw [heq] at hok ⊢
      simp only [denotes_tupleStruct]
      exact seqLike_sound hS _ elems hsv.1 hIH node s hn hs hok
    | tupleVariant nm idx variant elems =>
      intro node s hn hs hok
      simp only [svOK, Bool.and_eq_true, decide_eq_true_eq] at hsv
      have hIH : ∀ e ∈ elems, SerSound ext a S e := fun e he =>
        ih e (by have := List.sizeOf_lt_of_mem he; simp only [SV.tupleVariant.sizeOf_spec] at hsz; omega)
          (svOKList_mem hsv.2 he)
      have heq : ser ext a S node (.tupleVariant nm idx variant elems) =
          viaName S node variant (fun n => seqBody ext a S n (some elems.length) elems) := by
        rw [ser]; rfl
      rw [heq] at hok ⊢
      simp only [denotes_tupleVariant]
      refine (viaName_sound hS hn variant _ _ s hs
        (fun n s hs hn hok => seqBody_sound hS n hn _ elems hsv.1 hIH s hs hok) hok).mono ?_
      intro v hv
      exact seqDispatch_of_viaName hv
    | map len entries =>
      intro node s hn hs hok
      simp only [svOK, Bool.and_eq_true, decide_eq_true_eq] at hsv
      have hIH : ∀ p ∈ entries, SerSound ext a S p.1 ∧ SerSound ext a S p.2 := fun p hp =>
        have hsz' := sizeOf_lt_of_mem_entries hp
        have hok' := svOKEntries_mem hsv.2 hp
        ⟨ih p.1 (by simp only [SV.map.sizeOf_spec] at hsz; omega) hok'.1,
         ih p.2 (by simp only [SV.map.sizeOf_spec] at hsz; omega) hok'.2⟩
      have heq : ser ext a S node (.map len entries) =
          viaUnion S node .structOrMap (fun n => structCore S n (len.getD 0) len
            (fun k s => serEntries ext a S k entries s)) := by
        rw [ser]; rfl
      rw [heq] at hok ⊢
      refine (viaUnion_sound hS hn _ _ _ s hs
        (fun n s hs _ hn hok =>
          structCoreE_sound hS n hn NodeOK.string _ _ entries hsv.1 hIH s hs hok) hok).mono ?_
      intro v hv
      rw [denotes_map]
      cases hk : strKeys entries <;> simp only [hk] at hv ⊢ <;>
        exact structDispatch_of_viaUnion (fun _ _ _ => nameAgrees_none _ _ _) hv
    | struct name fields =>
      intro node s hn hs hok
      simp only [svOK, Bool.and_eq_true, decide_eq_true_eq] at hsv
      have hIH : ∀ p ∈ fields, (utf8 p.1).length < 2 ^ 63 ∧ SerSound ext a S p.2 := fun p hp =>
        have hsz' := sizeOf_lt_of_mem_fields hp
        have hok' := svOKFields_mem hsv.2 hp
        ⟨hok'.1, ih p.2 (by simp only [SV.struct.sizeOf_spec] at hsz; omega) hok'.2⟩
      have heq : ser ext a S node (.struct name fields) =
          viaName S node name (fun n => viaUnion S n .structOrMap (fun n =>
            structCore S n fields.length (some fields.length)
              (fun k s => serFields ext a S k fields s))) := by
        rw [ser]; rfl
      rw [heq] at hok ⊢
      simp only [denotes_struct]
      refine (viaName_sound hS hn name _ _ s hs
        (fun n s hs hn hok => viaUnion_sound hS hn _ _ _ s hs
          (fun n s hs _ hn hok =>
            structCoreF_sound hS n hn _ _ fields hsv.1 hIH s hs hok) hok) hok).mono ?_
      intro v hv
      exact structDispatch_of_viaName hv
    | structVariant nm idx variant fields =>
      intro node s hn hs hok
      simp only [svOK, Bool.and_eq_true, decide_eq_true_eq] at hsv
      have hIH : ∀ p ∈ fields, (utf8 p.1).length < 2 ^ 63 ∧ SerSound ext a S p.2 := fun p hp =>
        have hsz' := sizeOf_lt_of_mem_fields hp
        have hok' := svOKFields_mem hsv.2 hp
        ⟨hok'.1, ih p.2 (by simp only [SV.structVariant.sizeOf_spec] at hsz; omega) hok'.2⟩
      have heq : ser ext a S node (.structVariant nm idx variant fields) =
          viaName S node variant (fun n => viaUnion S n .structOrMap (fun n =>
            structCore S n fields.length (some fields.length)
              (fun k s => serFields ext a S k fields s))) := by
        rw [ser]; rfl
      rw [heq] at hok ⊢
      simp only [denotes_structVariant]
      refine (viaName_sound hS hn variant _ _ s hs
        (fun n s hs hn hok => viaUnion_sound hS hn _ _ _ s hs
          (fun n s hs _ hn hok =>
            structCoreF_sound hS n hn _ _ fields hsv.1 hIH s hs hok) hok) hok).mono ?_
      intro v hv
      exact structDispatch_of_viaName hv

end
end Avro
