import AvroModel.Lemmas.SerSound
namespace Avro
open Avro.Spec Avro.Impl
/-
C02 helper lemmas for `decimal::serialize` (`Impl.serDecimal`): a characterisation of
`can_truncate_without_altering_number` (`Impl.canTruncate`) as a sign-extension prefix, and the
soundness of the three modes (bytes / fixed / big-decimal) on a writer that never fails.
All statements are exactly as specified; no extra hypotheses were needed.
-/

/-! ### `List.takeWhile` facts -/

theorem mem_takeWhile_true {α} (p : α → Bool) (l : List α) : ∀ x ∈ l.takeWhile p, p x = true := by
  induction l with
  | nil => simp
  | cons a l ih =>
    intro x hx
    by_cases ha : p a = true
    · simp only [List.takeWhile_cons, ha, if_true, List.mem_cons] at hx
      rcases hx with rfl | hx
      · exact ha
      · exact ih x hx
    · simp [ha] at hx

theorem takeWhile_eq_take_length {α} (p : α → Bool) (l : List α) :
    l.takeWhile p = l.take (l.takeWhile p).length := by
  induction l with
  | nil => simp
  | cons a l ih =>
    by_cases ha : p a = true
    · simp only [List.takeWhile_cons, ha, if_true, List.length_cons, List.take_succ_cons]
      rw [← ih]
    · simp [ha]

theorem getElem?_takeWhile_length {α} (p : α → Bool) (l : List α) (v : α)
    (h : l[(l.takeWhile p).length]? = some v) : p v = false := by
  induction l with
  | nil => simp at h
  | cons a l ih =>
    by_cases ha : p a = true
    · simp only [List.takeWhile_cons, ha, if_true, List.length_cons, List.getElem?_cons_succ] at h
      exact ih h
    · simp only [List.takeWhile_cons, ha] at h
      simp at h; subst h; simpa using ha

theorem length_takeWhile_le' {α} (p : α → Bool) (l : List α) : (l.takeWhile p).length ≤ l.length := by
  induction l with
  | nil => simp
  | cons a l ih =>
    by_cases ha : p a = true
    · simp only [List.takeWhile_cons, ha, if_true, List.length_cons]; omega
    · simp [ha]

/-! ### Sign prefixes -/

/-- the first `r` bytes of `buf` are sign-extension of the rest, which is non-empty -/
def SignPrefix (buf : Bytes) (r : Nat) : Prop :=
  ∃ fill h tl, (∀ x ∈ buf.take r, x = fill) ∧ buf.drop r = h :: tl ∧
    ((fill = 0 ∧ h.toNat < 128) ∨ (fill = 255 ∧ h.toNat ≥ 128))

theorem SignPrefix.sound {buf r} :
    SignPrefix buf r → fromTwosComplementBE (buf.drop r) = fromTwosComplementBE buf := by
  rintro ⟨fill, h, tl, hall, hd, hs⟩
  have := fromTwos_signExt fill (buf.take r) h tl hall hs
  rw [← hd, List.take_append_drop] at this
  exact this.symm

theorem SignPrefix.lt_length {buf r} : SignPrefix buf r → r < buf.length := by
  rintro ⟨fill, h, tl, _, hd, _⟩
  have : (buf.drop r).length = tl.length + 1 := by rw [hd]; rfl
  rw [List.length_drop] at this
  omega

theorem SignPrefix.mono {buf r r'} : SignPrefix buf r → r' ≤ r → SignPrefix buf r' := by
  intro hsp hle
  have hlt := hsp.lt_length
  obtain ⟨fill, h, tl, hall, hd, hs⟩ := hsp
  by_cases heq : r' = r
  · subst heq; exact ⟨fill, h, tl, hall, hd, hs⟩
  have hr' : r' < buf.length := by omega
  have hmem : buf[r'] ∈ buf.take r := by
    rw [List.mem_take_iff_getElem]
    exact ⟨r', by omega, rfl⟩
  have hfill : buf[r'] = fill := hall _ hmem
  refine ⟨fill, buf[r'], buf.drop (r' + 1), ?_, List.drop_eq_getElem_cons hr', ?_⟩
  · intro x hx
    apply hall
    have : buf.take r' = (buf.take r).take r' := by
      rw [List.take_take, Nat.min_eq_left hle]
    rw [this] at hx
    exact List.mem_of_mem_take hx
  · rw [hfill]
    rcases hs with ⟨rfl, _⟩ | ⟨rfl, _⟩
    · left; exact ⟨rfl, by decide⟩
    · right; exact ⟨rfl, by decide⟩

theorem SignPrefix.of_take {buf s} : SignPrefix (buf.take (s + 1)) s → SignPrefix buf s := by
  intro hsp
  have hlt := hsp.lt_length
  obtain ⟨fill, h, tl, hall, hd, hs⟩ := hsp
  rw [List.length_take] at hlt
  have hs' : s < buf.length := by omega
  rw [List.take_take, Nat.min_eq_left (Nat.le_succ s)] at hall
  refine ⟨fill, buf[s], buf.drop (s + 1), hall, List.drop_eq_getElem_cons hs', ?_⟩
  have : (buf.take (s + 1))[s]? = some h := by
    have := List.getElem?_drop (xs := buf.take (s + 1)) (i := s) (j := 0)
    rw [hd] at this; simpa using this.symm
  rw [List.getElem?_take] at this
  simp at this
  rw [List.getElem?_eq_getElem hs'] at this
  simp at this
  rw [this]; exact hs

theorem canTruncate_signPrefix (buf : Bytes) (hne : buf ≠ []) : SignPrefix buf (canTruncate buf) := by
  cases buf with
  | nil => exact absurd rfl hne
  | cons b0 rest =>
    unfold canTruncate
    simp only []
    generalize hbuf : b0 :: rest = buf
    generalize hfill : (if b0.toNat &&& 0x80 = 0 then (0x00 : UInt8) else 0xFF) = fill
    have hb0 : (b0.toNat &&& 0x80 = 0) ↔ b0.toNat < 128 := and_128_eq_zero_iff _ b0.toNat_lt
    -- `fill` is sign-compatible with `b0` and with itself
    have hc0 : (fill = 0 ∧ b0.toNat < 128) ∨ (fill = 255 ∧ b0.toNat ≥ 128) := by
      by_cases hb : b0.toNat &&& 0x80 = 0
      · left; rw [if_pos hb] at hfill; exact ⟨hfill.symm, hb0.1 hb⟩
      · right; rw [if_neg hb] at hfill; refine ⟨hfill.symm, ?_⟩
        have := mt hb0.2 hb; omega
    have hcf : (fill = 0 ∧ fill.toNat < 128) ∨ (fill = 255 ∧ fill.toNat ≥ 128) := by
      rcases hc0 with ⟨rfl, _⟩ | ⟨rfl, _⟩
      · left; exact ⟨rfl, by decide⟩
      · right; exact ⟨rfl, by decide⟩
    generalize ht : (buf.takeWhile (fun x => decide (x = fill))).length = t
    have hall : ∀ x ∈ buf.take t, x = fill := by
      intro x hx
      rw [← ht, ← takeWhile_eq_take_length] at hx
      simpa using mem_takeWhile_true _ _ x hx
    have htl : t ≤ buf.length := by
      rw [← ht]; exact length_takeWhile_le' _ _
    -- dropping `t - 1` bytes when `t ≠ 0`
    have hprev : t ≠ 0 → SignPrefix buf (t - 1) := by
      intro h0
      have hlt : t - 1 < buf.length := by omega
      have hmem : buf[t - 1] ∈ buf.take t := by
        rw [List.mem_take_iff_getElem]
        exact ⟨t - 1, by omega, rfl⟩
      refine ⟨fill, buf[t - 1], buf.drop (t - 1 + 1), ?_, List.drop_eq_getElem_cons hlt, ?_⟩
      · intro x hx
        apply hall
        have : buf.take (t - 1) = (buf.take t).take (t - 1) := by
          rw [List.take_take, Nat.min_eq_left (Nat.sub_le _ _)]
        rw [this] at hx
        exact List.mem_of_mem_take hx
      · rw [hall _ hmem]; exact hcf
    by_cases h0 : t ≠ 0
    · rw [if_pos h0]
      cases hv : buf[t]? with
      | none => exact hprev h0
      | some v =>
        simp only []
        have hvl : t < buf.length := (List.getElem?_eq_some_iff.1 hv).1
        have hvb : (v.toNat &&& 0x80 = 0) ↔ v.toNat < 128 := and_128_eq_zero_iff _ v.toNat_lt
        split
        · rename_i heq
          have hiff : (v.toNat &&& 0x80 = 0) ↔ (b0.toNat &&& 0x80 = 0) := Eq.to_iff heq
          refine ⟨fill, v, buf.drop (t + 1), hall, ?_, ?_⟩
          · rw [List.drop_eq_getElem_cons hvl]
            have := (List.getElem?_eq_some_iff.1 hv).2
            rw [this]
          · rcases hc0 with ⟨hf, hb⟩ | ⟨hf, hb⟩
            · left; exact ⟨hf, hvb.1 (hiff.2 (hb0.2 hb))⟩
            · right; refine ⟨hf, ?_⟩
              have : ¬ v.toNat < 128 := fun hh => by
                have := hb0.1 (hiff.1 (hvb.2 hh)); omega
              omega
        · exact hprev h0
    · rw [if_neg h0]
      have h0' : t = 0 := by omega
      subst h0'
      refine ⟨fill, b0, rest, by simp, by simp [← hbuf], hc0⟩

/-! ### `serDecimal` -/

theorem forM_writeAll_replicate (k : Nat) (b : UInt8) (s : SerState) (h : s.budget = none) :
    (List.replicate k b).forM (fun b => writeAll [b]) s =
      (.ok (), { s with out := s.out ++ List.replicate k b }) := by
  induction k generalizing s with
  | zero => simp [pure]
  | succ k ih =>
    simp only [List.replicate_succ, List.forM, bind]
    rw [writeAll_none _ _ h]
    simp only []
    rw [ih _ (by simpa using h)]
    simp

theorem canTruncate_i128be_lt (n : Int) : canTruncate (i128be n) < 16 := by
  have hne : i128be n ≠ [] := by
    intro h; have := i128be_length n; rw [h] at this; simp at this
  have := (canTruncate_signPrefix _ hne).lt_length
  rwa [i128be_length] at this

theorem serDecimal_regular_bytes (ext : Ext) (scale : Nat) (d : Int × Nat) (s : SerState) (h : s.budget = none)
    (hr : inI128 (ext.decRescale d scale).1 = true)
    (hok : (serDecimal ext (.regular scale .bytes) d s).1 = .ok ()) :
    (ext.decRescale d scale).2 = scale ∧
    ∃ m : Bytes, m.length ≤ 16 ∧
      serDecimal ext (.regular scale .bytes) d s = (.ok (), { s with out := s.out ++ lenPrefixed m }) ∧
      fromTwosComplementBE m = (ext.decRescale d scale).1 := by
  unfold serDecimal at hok ⊢
  simp only [bind, pure] at hok ⊢
  by_cases hsc : (ext.decRescale d scale).2 = scale
  case neg => simp [hsc, SerM.fail] at hok
  refine ⟨hsc, ?_⟩
  generalize ext.decRescale d scale = d' at *
  simp only [hsc, ne_eq, not_true_eq_false, if_false]
  have hlt := canTruncate_i128be_lt d'.1
  have hlen := i128be_length d'.1
  have hsound := (canTruncate_signPrefix (i128be d'.1)
    (by intro h0; rw [h0] at hlen; simp at hlen)).sound
  rw [i128be_roundtrip hr] at hsound
  generalize i128be d'.1 = buf at *
  generalize canTruncate buf = start at *
  have hm : ((buf.drop start).length : Int) = 16 - (start : Int) := by
    rw [List.length_drop, hlen]; omega
  refine ⟨buf.drop start, by simp [hlen], ?_, hsound⟩
  rw [← hm, writeVarI64_spec _ (inI64_of_lt (by simp [hlen]; omega)) s h]
  simp only []
  rw [writeAll_none _ _ (by simpa using h)]
  simp [lenPrefixed]

theorem serDecimal_regular_fixed (ext : Ext) (scale : Nat) (nm : Name) (size : Nat) (d : Int × Nat) (s : SerState)
    (h : s.budget = none)
    (hr : inI128 (ext.decRescale d scale).1 = true)
    (hok : (serDecimal ext (.regular scale (.fixed nm size)) d s).1 = .ok ()) :
    (ext.decRescale d scale).2 = scale ∧
    ∃ m : Bytes, m.length = size ∧
      serDecimal ext (.regular scale (.fixed nm size)) d s = (.ok (), { s with out := s.out ++ m }) ∧
      fromTwosComplementBE m = (ext.decRescale d scale).1 := by
  unfold serDecimal at hok ⊢
  simp only [bind, pure] at hok ⊢
  by_cases hsc : (ext.decRescale d scale).2 = scale
  case neg => simp [hsc, SerM.fail] at hok
  refine ⟨hsc, ?_⟩
  generalize ext.decRescale d scale = d' at *
  simp only [hsc, ne_eq, not_true_eq_false, if_false] at hok ⊢
  have hlen := i128be_length d'.1
  have hrt := i128be_roundtrip hr
  generalize i128be d'.1 = buf at *
  by_cases h16 : size ≤ 16
  · simp only [h16, if_true] at hok ⊢
    by_cases h1 : size ≥ 1
    · simp only [h1, if_true] at hok ⊢
      by_cases hct : canTruncate (buf.take (16 - size + 1)) < 16 - size
      case pos => simp [hct, SerM.fail] at hok
      simp only [hct, if_false]
      rw [writeAll_none _ _ h]
      refine ⟨buf.drop (16 - size), by rw [List.length_drop, hlen]; omega, rfl, ?_⟩
      have hne : buf.take (16 - size + 1) ≠ [] := by
        intro h0
        have := congrArg List.length h0
        rw [List.length_take, hlen] at this
        simp at this
      have hsp := ((canTruncate_signPrefix _ hne).mono (Nat.le_of_not_lt hct)).of_take
      rw [hsp.sound, hrt]
    · simp only [h1, if_false] at hok ⊢
      by_cases hz : d'.1 = 0
      case neg => simp [hz, SerM.fail] at hok
      simp only [hz, not_true_eq_false, if_false]
      rw [writeAll_none _ _ h]
      have hs0 : size = 0 := by omega
      refine ⟨buf.drop (16 - size), by rw [List.length_drop, hlen]; omega, rfl, ?_⟩
      have : buf.drop (16 - size) = [] := by
        apply List.drop_of_length_le; omega
      rw [this]; rfl
  · simp only [h16, if_false] at hok ⊢
    rw [forM_writeAll_replicate _ _ _ h]
    simp only []
    rw [writeAll_none _ _ (by simpa using h)]
    generalize hfill : (if (buf.headD 0).toNat &&& 128 = 0 then (0 : UInt8) else 255) = fill
    refine ⟨List.replicate (size - 16) fill ++ buf, ?_, ?_, ?_⟩
    · rw [List.length_append, List.length_replicate, hlen]; omega
    · simp
    · cases hb : buf with
      | nil => rw [hb] at hlen; simp at hlen
      | cons b tl =>
        rw [← hrt, hb]
        apply fromTwos_signExt fill
        · intro x hx; exact (List.mem_replicate.1 hx).2
        · have hbb : (b.toNat &&& 0x80 = 0) ↔ b.toNat < 128 := and_128_eq_zero_iff _ b.toNat_lt
          rw [hb] at hfill
          have hh : (b :: tl).headD 0 = b := rfl
          rw [hh] at hfill
          by_cases hbz : b.toNat &&& 128 = 0
          · left; rw [if_pos hbz] at hfill; exact ⟨hfill.symm, hbb.1 hbz⟩
          · right; rw [if_neg hbz] at hfill; refine ⟨hfill.symm, ?_⟩
            have := mt hbb.2 hbz; omega

theorem serDecimal_big (ext : Ext) (d : Int × Nat) (s : SerState) (h : s.budget = none)
    (hr : inI128 d.1 = true) (hsc : d.2 < 2 ^ 63) :
    ∃ m : Bytes, m.length ≤ 16 ∧
      serDecimal ext .big d s =
        (.ok (), { s with out := s.out ++ lenPrefixed (lenPrefixed m ++ encodeLong d.2) }) ∧
      fromTwosComplementBE m = d.1 := by
  unfold serDecimal
  simp only [bind, pure]
  have hlt := canTruncate_i128be_lt d.1
  have hlen := i128be_length d.1
  have hsound := (canTruncate_signPrefix (i128be d.1)
    (by intro h0; rw [h0] at hlen; simp at hlen)).sound
  rw [i128be_roundtrip hr] at hsound
  generalize i128be d.1 = buf at *
  generalize canTruncate buf = start at *
  have hml : (buf.drop start).length = 16 - start := by rw [List.length_drop, hlen]
  refine ⟨buf.drop start, by omega, ?_, hsound⟩
  have hi1 : InI64 ((16 - start : Nat) : Int) := inI64_of_lt (by omega)
  have hi2 : InI64 (d.2 : Int) := inI64_of_lt hsc
  have hl1 := encodeVarI64_length_le _ hi1
  have hl2 := encodeVarI64_length_le _ hi2
  rw [encodeVarI64_eq_spec _ hi1] at hl1 ⊢
  rw [encodeVarI64_eq_spec _ hi2] at hl2 ⊢
  have hL : ((lenPrefixed (buf.drop start) ++ encodeLong d.2).length : Int) =
      ((encodeLong ((16 - start : Nat) : Int)).length : Int) + ((16 - start : Nat) : Int) +
        ((encodeLong (d.2 : Int)).length : Int) := by
    simp only [lenPrefixed, List.length_append, hml]
    omega
  have hLlt : (lenPrefixed (buf.drop start) ++ encodeLong d.2).length < 2 ^ 63 := by
    simp only [lenPrefixed, List.length_append, hml]
    omega
  rw [← hL, writeVarI64_spec _ (inI64_of_lt hLlt) s h]
  simp only []
  rw [writeAll_none _ _ (by simpa using h)]
  simp only []
  rw [writeAll_none _ _ (by simpa using h)]
  simp only []
  by_cases hne : encodeLong (d.2 : Int) ≠ []
  · rw [if_pos hne, writeAll_none _ _ (by simpa using h)]
    simp [lenPrefixed, hml]
  · exact absurd (encodeNat_ne_nil _) hne

end Avro
