import AvroModel.Impl.SchemaRender
/-
Lemmas for C09 / C19 (schema regeneration, canonical form, cycle check, freeze).

* strings / names: `rfindDot`, `rsplitDot_join`, `Name.WF`, `Name.ofFq_wf`, `Name.wf_iff`,
  `defKey_toName_wf`, `def_spelling_roundtrip`, `ref_spelling_roundtrip`;
* logical-type members: `logicalOfMembers`, `LogicalType.Expressible`, `logical_members_roundtrip`;
* one-level views `pcfStep` / `renderStep` (`pcf_succ`, `render_succ`, `*_nil`, `*_cons`) with the
  combinators `mapOk`, `andThen`; `NP r` := `r ≠ .error .panic`;
* `pcf`: fuel monotonicity, generation cells of `onPath` (`PcfState.cell`, `pcf_cell_set`),
  `PcfLe` (what a successful call does to the state), `pcfMeasure` (potential of the generation
  guard, `≤ S.size * (S.size + 1)` in every state), `pcf_total_aux`, `pcfBound`; at the end
  `pcf_reenter`, `pcf_cop_aux`, `pcf_unnamed_cycle_not_ok`;
* `check_for_cycles`: `CycLe`, `cycMeasure`, `cyc_total_aux`, `checkForCyclesF` (fuel as parameter);
* `render`: fuel monotonicity, generation cells (`RenderState.get_set`), `RLe`, `RInv`,
  `renderPot` (potential of the generation-counter guard), `render_total_aux`, `renderBound`;
* `freeze`; graphs that cannot be expressed (`render_reenter`, `UnnamedClosed`,
  `render_unnamed_cycle_not_ok`, `render_cop_aux`); members of a whole object (`member_object`).
-/
namespace Avro.Impl
open Avro

/-! ### `rfindDot` -/

theorem rfindDot_go_nodot (cs : List Char) (i : Nat) (acc : Option Nat) (h : '.' ∉ cs) :
    rfindDot.go cs i acc = acc := by
  induction cs generalizing i acc with
  | nil => rfl
  | cons c rest ih =>
    simp only [List.mem_cons, not_or] at h
    have hc : c ≠ '.' := fun e => h.1 e.symm
    simp only [rfindDot.go, hc, if_false]
    exact ih _ _ h.2

theorem rfindDot_go_split (xs ys : List Char) (i : Nat) (acc : Option Nat) (h : '.' ∉ ys) :
    rfindDot.go (xs ++ '.' :: ys) i acc = some (i + xs.length) := by
  induction xs generalizing i acc with
  | nil => simp [rfindDot.go, rfindDot_go_nodot _ _ _ h]
  | cons c rest ih =>
    simp only [List.cons_append, rfindDot.go, ih, List.length_cons]
    congr 1; omega

theorem rfindDot_nodot (cs : List Char) (h : '.' ∉ cs) : rfindDot cs = none :=
  rfindDot_go_nodot cs 0 none h

theorem rfindDot_split (xs ys : List Char) (h : '.' ∉ ys) :
    rfindDot (xs ++ '.' :: ys) = some xs.length := by
  simp [rfindDot, rfindDot_go_split xs ys 0 none h]

/-- Every character list is dot-free or splits at its last dot. -/
theorem lastDot_cases (cs : List Char) :
    '.' ∉ cs ∨ ∃ xs ys, cs = xs ++ '.' :: ys ∧ '.' ∉ ys := by
  induction cs with
  | nil => left; simp
  | cons c rest ih =>
    rcases ih with h | ⟨xs, ys, rfl, hy⟩
    · by_cases hc : c = '.'
      · right; exact ⟨[], rest, by simp [hc], h⟩
      · left; simp only [List.mem_cons, not_or]; exact ⟨fun e => hc e.symm, h⟩
    · right; exact ⟨c :: xs, ys, by simp, hy⟩

theorem drop_split {α} (xs ys : List α) (a : α) :
    List.drop (xs.length + 1) (xs ++ a :: ys) = ys := by
  induction xs with
  | nil => simp
  | cons x xs ih => simp

theorem take_split {α} (xs ys : List α) : List.take xs.length (xs ++ ys) = xs := by
  simp

/-- A string "has no dot". -/
def NoDot (s : String) : Prop := '.' ∉ s.toList

theorem toList_dot : (".":String).toList = ['.'] := rfl

private theorem rsplitDot_nodot (s : String) (h : NoDot s) : rsplitDot s = none := by
  simp [rsplitDot, rfindDot_nodot _ h]

/-- `rsplit_once('.')` of `x ++ "." ++ short` when `short` has no dot. -/
theorem rsplitDot_join (x short : String) (h : NoDot short) :
    rsplitDot (x ++ "." ++ short) = some (x, short) := by
  have e : (x ++ "." ++ short).toList = x.toList ++ '.' :: short.toList := by
    simp [String.toList_append, toList_dot]
  simp only [rsplitDot, e, rfindDot_split _ _ h, drop_split, take_split, String.ofList_toList]


/-- What the crate's `Name` can hold (the image of `Name::from_fully_qualified_name`). -/
structure Name.WF (n : Name) : Prop where
  short_nodot : NoDot n.short
  ns_none : n.ns = none → n.fq = n.short
  ns_some : ∀ x, n.ns = some x → x ≠ "" ∧ n.fq = x ++ "." ++ n.short

theorem Name.ofFq_wf (s : String) : (Name.ofFq s).WF := by
  unfold Name.ofFq
  rcases lastDot_cases s.toList with h | ⟨xs, ys, e, hy⟩
  · simp only [rfindDot_nodot _ h]
    exact ⟨h, fun _ => rfl, fun x hx => by simp at hx⟩
  · simp only [e, rfindDot_split _ _ hy]
    cases xs with
    | nil =>
      simp only [List.length_nil, List.nil_append, List.drop_one, List.tail_cons]
      exact ⟨by simpa [NoDot] using hy, fun _ => rfl, fun x hx => by simp at hx⟩
    | cons c xs =>
      have hd := drop_split (c :: xs) ys '.'
      have ht := take_split (c :: xs) ('.' :: ys)
      simp only [List.length_cons] at hd ht ⊢
      simp only [hd, ht]
      refine ⟨?_, fun h => by simp at h, ?_⟩
      · simpa [NoDot] using hy
      · intro x hx
        simp only [Option.some.injEq] at hx
        subst hx
        refine ⟨?_, ?_⟩
        · intro h0
          have := congrArg String.toList h0
          simp at this
        · apply String.ext
          simp [String.toList_append, toList_dot, e]

theorem Name.wf_iff (n : Name) : n.WF ↔ ∃ s, n = Name.ofFq s := by
  constructor
  · intro h
    refine ⟨n.fq, ?_⟩
    obtain ⟨fq, short, ns⟩ := n
    cases ns with
    | none =>
      have := h.ns_none rfl
      simp only at this; subst this
      simp [Name.ofFq, rfindDot_nodot _ h.short_nodot]
    | some x =>
      obtain ⟨hx, hfq⟩ := h.ns_some x rfl
      simp only at hfq; subst hfq
      have e : (x ++ "." ++ short).toList = x.toList ++ '.' :: short.toList := by
        simp [String.toList_append, toList_dot]
      have hlen : x.toList.length ≠ 0 := by
        intro h0
        exact hx (String.toList_eq_nil_iff.mp (List.length_eq_zero_iff.mp h0))
      obtain ⟨k, hk⟩ := Nat.exists_eq_succ_of_ne_zero hlen
      have hd := drop_split x.toList short.toList '.'
      have ht := take_split x.toList ('.' :: short.toList)
      simp only [Name.ofFq, e, rfindDot_split _ _ h.short_nodot]
      rw [hk] at hd ht ⊢
      simp only [hd, ht, String.ofList_toList]
  · rintro ⟨s, rfl⟩; exact Name.ofFq_wf s


private theorem nonEmpty_of_ne (x : String) (h : x ≠ "") : nonEmpty x = some x := by
  simp [nonEmpty, String.isEmpty_iff, h]

private theorem nonEmpty_empty : nonEmpty "" = none := rfl

theorem nonEmpty_ne (x y : String) (h : nonEmpty x = some y) : y ≠ "" ∧ y = x := by
  unfold nonEmpty at h
  split at h
  · cases h
  · rename_i hne
    cases h
    exact ⟨fun e => hne (String.isEmpty_iff.mpr e), rfl⟩

theorem NameKey.toName_ns (k : NameKey) : k.toName.ns = k.ns := by
  unfold NameKey.toName; cases k.ns <;> rfl

/-- Reading one optional string member the way the derived `Deserialize` of the parser does
    (`rawObjectOfJson`: `optString (← member members key)`). -/
def readStr (ms : List (String × Json)) (key : String) : Except SchemaErr (Option String) := do
  optString (← member ms key)

/-- keys made by `defKey` denote well-formed names -/
theorem defKey_toName_wf (nm : String) (nsAttr enclosing : Option String)
    (henc : enclosing ≠ some "") : (defKey nm nsAttr enclosing).toName.WF := by
  unfold defKey
  rcases lastDot_cases nm.toList with h | ⟨xs, ys, e, hy⟩
  · have hnd : NoDot nm := h
    simp only [rsplitDot_nodot _ hnd]
    have key : ∀ ns : Option String, ns ≠ some "" → (NameKey.toName ⟨ns, nm⟩).WF := by
      intro ns hns
      cases ns with
      | none => exact ⟨hnd, fun _ => rfl, fun x hx => by simp [NameKey.toName] at hx⟩
      | some x =>
        refine ⟨hnd, fun hx => by simp [NameKey.toName] at hx, ?_⟩
        intro y hy
        simp only [NameKey.toName, Option.some.injEq] at hy
        subst hy
        exact ⟨fun e => hns (by rw [e]), rfl⟩
    apply key
    cases nsAttr with
    | none => exact henc
    | some a =>
      intro hc
      exact (nonEmpty_ne _ _ hc).1 rfl
  · have hnm : nm = String.ofList xs ++ "." ++ String.ofList ys := by
      apply String.ext; simp [String.toList_append, toList_dot, e]
    have hyd : NoDot (String.ofList ys) := by simpa [NoDot] using hy
    rw [hnm, rsplitDot_join _ _ hyd]
    simp only
    cases hne : nonEmpty (String.ofList xs) with
    | none => exact ⟨hyd, fun _ => rfl, fun x hx => by simp [NameKey.toName] at hx⟩
    | some x =>
      refine ⟨hyd, fun hx => by simp [NameKey.toName] at hx, ?_⟩
      intro y hy'
      simp only [NameKey.toName, Option.some.injEq] at hy'
      subst hy'
      exact ⟨(nonEmpty_ne _ _ hne).1, rfl⟩

/-- **Definition spelling**: the `"name"` / `"namespace"` members written by `serialize_name`
    for a well-formed name, read back by the parser's rule in the same enclosing namespace, give
    the same name — for every (parent namespace, name) arrangement. -/
theorem def_spelling_roundtrip (name : Name) (h : name.WF) (parentNs : Option String) :
    ∃ nm nsAttr, readStr (nameMembers parentNs name) "name" = .ok (some nm) ∧
      readStr (nameMembers parentNs name) "namespace" = .ok nsAttr ∧
      (defKey nm nsAttr parentNs).toName = name := by
  obtain ⟨fq, short, ns⟩ := name
  have hsd : NoDot short := h.short_nodot
  unfold nameMembers
  by_cases h1 : parentNs = ns
  · -- same namespace: the short name inherits the enclosing namespace
    subst h1
    refine ⟨short, none, by simp [readStr, member, optString]; rfl, by simp [readStr, member, optString]; rfl, ?_⟩
    simp only [defKey, rsplitDot_nodot _ hsd]
    cases parentNs with
    | none => have := h.ns_none rfl; simp only at this; subst this; rfl
    | some x => have := (h.ns_some x rfl).2; simp only at this; subst this; rfl
  · simp only [h1, if_false]
    cases ns with
    | none =>
      -- no namespace under a namespaced parent: `"namespace": ""`
      have := h.ns_none rfl; simp only at this; subst this
      refine ⟨fq, some "", by simp [readStr, member, optString]; rfl, by simp [readStr, member, optString]; rfl, ?_⟩
      simp only [defKey, rsplitDot_nodot _ hsd, nonEmpty_empty]
      rfl
    | some x =>
      -- different namespace: the dotted fullname
      obtain ⟨hx, hfq⟩ := h.ns_some x rfl
      simp only at hfq; subst hfq
      refine ⟨x ++ "." ++ short, none, by simp [readStr, member, optString]; rfl,
        by simp [readStr, member, optString]; rfl, ?_⟩
      simp only [defKey, rsplitDot_join _ _ hsd, nonEmpty_of_ne _ hx]
      rfl

/-- **Reference spelling**: `str_for_ref` read back by the parser's reference rule. -/
theorem ref_spelling_roundtrip (name : Name) (h : name.WF) (parentNs : Option String) :
    (refKey (refString parentNs name) parentNs).toName = name := by
  obtain ⟨fq, short, ns⟩ := name
  have hsd : NoDot short := h.short_nodot
  unfold refString
  by_cases h1 : parentNs = ns ∧ (RawType.ofString short).isNone = true
  · obtain ⟨h1, _⟩ := h1
    subst h1
    simp only [true_and, *, if_true, refKey, rsplitDot_nodot _ hsd]
    cases parentNs with
    | none => have := h.ns_none rfl; simp only at this; subst this; rfl
    | some x => have := (h.ns_some x rfl).2; simp only at this; subst this; rfl
  · simp only [h1, if_false]
    cases ns with
    | none =>
      have := h.ns_none rfl; simp only at this; subst this
      have e : "." ++ fq = "" ++ "." ++ fq := by simp
      simp only [Option.isNone_none, if_true, refKey, e, rsplitDot_join _ _ hsd, nonEmpty_empty]
      rfl
    | some x =>
      obtain ⟨hx, hfq⟩ := h.ns_some x rfl
      simp only at hfq; subst hfq
      simp only [Option.isNone_some, Bool.false_eq_true, if_false, refKey, rsplitDot_join _ _ hsd, nonEmpty_of_ne _ hx]
      rfl

/-! ### logical-type members -/

def knownLogicalNames : List String :=
  ["decimal", "uuid", "date", "time-millis", "time-micros", "timestamp-millis",
   "timestamp-micros", "duration", "big-decimal"]

/-- The attributes `logicalOf` looks at. -/
def logicalAttrs (lt : Option String) (precision scale : Option Nat) : RawAttrs :=
  { type := RawType.null, logicalType := lt, name := none, nsAttr := none, symbols := none, size := none, precision := precision, scale := scale }

/-- What the parser computes from the `"logicalType"`, `"precision"` and `"scale"` members of a
    schema object (`rawObjectOfJson` then `logicalOf`). -/
def logicalOfMembers (ms : List (String × Json)) : Except SchemaErr (Option LogicalType) := do
  let lt ← readStr ms "logicalType"
  let precision ← (do optNat (← member ms "precision") (2 ^ 64 - 1))
  let scale ← (do optNat (← member ms "scale") (2 ^ 32 - 1))
  logicalOf (logicalAttrs lt precision scale)

/-- Logical types the crate can hold and spell unambiguously: `unknown n` with `n` not one of the
    nine known names; decimal parameters within `usize` / `u32`. -/
def LogicalType.Expressible : LogicalType → Prop
  | .unknown n => n ∉ knownLogicalNames
  | .decimal scale precision => scale ≤ 2 ^ 32 - 1 ∧ precision ≤ 2 ^ 64 - 1
  | _ => True


def readNat (ms : List (String × Json)) (key : String) (max : Nat) : Except SchemaErr (Option Nat) := do
  optNat (← member ms key) max

theorem logicalOfMembers_eq (ms : List (String × Json)) (a : Option String) (p s : Option Nat)
    (h1 : readStr ms "logicalType" = .ok a) (h2 : readNat ms "precision" (2 ^ 64 - 1) = .ok p)
    (h3 : readNat ms "scale" (2 ^ 32 - 1) = .ok s) :
    logicalOfMembers ms = logicalOf (logicalAttrs a p s) := by
  unfold logicalOfMembers
  unfold readNat at h2 h3
  rw [h1, h2, h3]; rfl

theorem logicalOf_unknown (n : String) (h : n ∉ knownLogicalNames) (p s : Option Nat) :
    logicalOf (logicalAttrs (some n) p s) = .ok (some (.unknown n)) := by
  simp [knownLogicalNames] at h
  unfold logicalOf logicalAttrs
  split <;> simp_all

theorem logical_members_roundtrip (t : String) (l : Option LogicalType)
    (h : ∀ lt, l = some lt → lt.Expressible) :
    logicalOfMembers (typeMembers t l) = .ok l := by
  cases l with
  | none =>
    rw [logicalOfMembers_eq _ none none none] <;> rfl
  | some lt =>
    have h := h lt rfl
    cases lt with
    | unknown n =>
      rw [logicalOfMembers_eq _ (some n) none none, logicalOf_unknown _ h]
      all_goals (simp [typeMembers, readStr, readNat, member]; rfl)
    | decimal s p =>
      simp only [LogicalType.Expressible] at h
      rw [logicalOfMembers_eq _ (some "decimal") (some p) (some s)]
      · rfl
      · simp [typeMembers, readStr, member]; rfl
      · simp only [typeMembers, readNat, member]
        simp only [List.filter, List.cons_append, List.nil_append, decide_true, decide_false, String.reduceEq]
        show optNat (some (Json.nat p)) (2 ^ 64 - 1) = _
        simp [optNat, h.2]
      · simp only [typeMembers, readNat, member]
        simp only [List.filter, List.cons_append, List.nil_append, decide_true, decide_false, String.reduceEq]
        show optNat (some (Json.nat s)) (2 ^ 32 - 1) = _
        simp [optNat, h.1]
    | uuid =>
      rw [logicalOfMembers_eq _ (some "uuid") none none]
      · simp [logicalOf, logicalAttrs]
      all_goals (simp [typeMembers, readStr, readNat, member]; rfl)
    | date =>
      rw [logicalOfMembers_eq _ (some "date") none none]
      · simp [logicalOf, logicalAttrs]
      all_goals (simp [typeMembers, readStr, readNat, member]; rfl)
    | timeMillis =>
      rw [logicalOfMembers_eq _ (some "time-millis") none none]
      · simp [logicalOf, logicalAttrs]
      all_goals (simp [typeMembers, readStr, readNat, member]; rfl)
    | timeMicros =>
      rw [logicalOfMembers_eq _ (some "time-micros") none none]
      · simp [logicalOf, logicalAttrs]
      all_goals (simp [typeMembers, readStr, readNat, member]; rfl)
    | timestampMillis =>
      rw [logicalOfMembers_eq _ (some "timestamp-millis") none none]
      · simp [logicalOf, logicalAttrs]
      all_goals (simp [typeMembers, readStr, readNat, member]; rfl)
    | timestampMicros =>
      rw [logicalOfMembers_eq _ (some "timestamp-micros") none none]
      · simp [logicalOf, logicalAttrs]
      all_goals (simp [typeMembers, readStr, readNat, member]; rfl)
    | duration =>
      rw [logicalOfMembers_eq _ (some "duration") none none]
      · simp [logicalOf, logicalAttrs]
      all_goals (simp [typeMembers, readStr, readNat, member]; rfl)
    | bigDecimal =>
      rw [logicalOfMembers_eq _ (some "big-decimal") none none]
      · simp [logicalOf, logicalAttrs]
      all_goals (simp [typeMembers, readStr, readNat, member]; rfl)

/-! ### One-level view of `pcf` -/

def mapOk {α β : Type} (r : Except SchemaErr α) (f : α → β) : Except SchemaErr β :=
  match r with
  | .error e => .error e
  | .ok a => .ok (f a)

def pcfUnnamed (st : PcfState) (key : Nat) (body : PcfState → Except SchemaErr PcfState) :
    Except SchemaErr PcfState :=
  if (st.onPath.lookup key).getD 0 = st.written.length + 1 then .error .custom
  else mapOk (body { st with onPath := (key, st.written.length + 1) :: st.onPath.filter (·.1 ≠ key) })
    fun st' => { st' with
      onPath := (key, (st.onPath.lookup key).getD 0) :: st'.onPath.filter (·.1 ≠ key) }

def pcfNamed (st : PcfState) (key : Nat) (name : Name)
    (full : PcfState → Except SchemaErr PcfState) : Except SchemaErr PcfState :=
  if st.written.contains key then .ok { st with out := st.out ++ "\"" ++ name.fq ++ "\"" }
  else full { st with written := key :: st.written }

def pcfStep (S : SchemaMut) (rp : Nat → PcfState → Except SchemaErr PcfState)
    (rl : List Nat → Bool → PcfState → Except SchemaErr PcfState)
    (rf : List (String × Nat) → Bool → PcfState → Except SchemaErr PcfState)
    (key : Nat) (st : PcfState) : Except SchemaErr PcfState :=
  match S[key]? with
  | none => .error .custom
  | some node =>
    let prim (s : String) : Except SchemaErr PcfState := .ok { st with out := st.out ++ "\"" ++ s ++ "\"" }
    match node.type with
    | .null => prim "null" | .boolean => prim "boolean" | .bytes => prim "bytes"
    | .double => prim "double" | .float => prim "float" | .int => prim "int"
    | .long => prim "long" | .string => prim "string"
    | .union vs => pcfUnnamed st key fun st =>
        mapOk (rl vs true { st with out := st.out ++ "[" }) fun st => { st with out := st.out ++ "]" }
    | .array items => pcfUnnamed st key fun st =>
        mapOk (rp items { st with out := st.out ++ "{\"type\":\"array\",\"items\":" })
          fun st => { st with out := st.out ++ "}" }
    | .map values => pcfUnnamed st key fun st =>
        mapOk (rp values { st with out := st.out ++ "{\"type\":\"map\",\"values\":" })
          fun st => { st with out := st.out ++ "}" }
    | .enum name syms => pcfNamed st key name fun st =>
        let text := "{\"name\":\"" ++ name.fq ++ "\",\"type\":\"enum\",\"symbols\":[" ++ joinWith "," (syms.map fun s => "\"" ++ s ++ "\"") ++ "]}"
        .ok { st with out := st.out ++ text }
    | .fixed name size => pcfNamed st key name fun st =>
        let text := "{\"name\":\"" ++ name.fq ++ "\",\"type\":\"fixed\",\"size\":" ++ toString size ++ "}"
        .ok { st with out := st.out ++ text }
    | .record name fields => pcfNamed st key name fun st =>
        let text := "{\"name\":\"" ++ name.fq ++ "\",\"type\":\"record\",\"fields\":["
        mapOk (rf fields true { st with out := st.out ++ text }) fun st => { st with out := st.out ++ "]}" }

theorem pcf_succ (S : SchemaMut) (fuel key : Nat) (st : PcfState) :
    pcf S (fuel + 1) key st = pcfStep S (pcf S fuel) (pcfList S fuel) (pcfFields S fuel) key st := by
  rw [pcf]
  unfold pcfStep
  cases S[key]? with
  | none => rfl
  | some node =>
    obtain ⟨ty, lg⟩ := node
    cases ty <;> simp only [pcfUnnamed, pcfNamed, mapOk]
    all_goals first
      | rfl
      | (split <;> first
          | rfl
          | (generalize pcf S fuel _ _ = r; cases r <;> rfl)
          | (generalize pcfList S fuel _ _ _ = r; cases r <;> rfl)
          | (generalize pcfFields S fuel _ _ _ = r; cases r <;> rfl))


def andThen {α β : Type} (r : Except SchemaErr α) (f : α → Except SchemaErr β) : Except SchemaErr β :=
  match r with
  | .error e => .error e
  | .ok a => f a

theorem pcfList_nil (S : SchemaMut) (fuel : Nat) (first : Bool) (st : PcfState) :
    pcfList S fuel [] first st = .ok st := by
  cases fuel <;> rfl

theorem pcfList_cons (S : SchemaMut) (fuel k : Nat) (rest : List Nat) (first : Bool) (st : PcfState) :
    pcfList S (fuel + 1) (k :: rest) first st =
      andThen (pcf S fuel k (if first then st else { st with out := st.out ++ "," }))
        (fun st => pcfList S fuel rest false st) := by
  rw [pcfList]; unfold andThen
  generalize pcf S fuel _ _ = r; cases r <;> rfl

theorem pcfFields_nil (S : SchemaMut) (fuel : Nat) (first : Bool) (st : PcfState) :
    pcfFields S fuel [] first st = .ok st := by
  cases fuel <;> rfl

theorem pcfFields_cons (S : SchemaMut) (fuel k : Nat) (name : String) (rest : List (String × Nat))
    (first : Bool) (st : PcfState) :
    pcfFields S (fuel + 1) ((name, k) :: rest) first st =
      andThen (pcf S fuel k
          { (if first then st else { st with out := st.out ++ "," }) with
            out := (if first then st else { st with out := st.out ++ "," }).out ++ "{\"name\":\"" ++ name ++ "\",\"type\":" })
        (fun st => pcfFields S fuel rest false { st with out := st.out ++ "}" }) := by
  rw [pcfFields]; unfold andThen
  generalize pcf S fuel _ _ = r; cases r <;> rfl

/-- "not the model's out-of-fuel marker" -/
def NP {α : Type} (r : Except SchemaErr α) : Prop := r ≠ .error .panic

theorem NP_ok {α : Type} (a : α) : NP (Except.ok a : Except SchemaErr α) := by intro h; cases h
theorem NP_custom {α : Type} : NP (Except.error .custom : Except SchemaErr α) := by intro h; cases h

theorem andThen_mono {α β : Type} {r r' : Except SchemaErr α} {f f' : α → Except SchemaErr β}
    (h : NP r → r' = r) (hf : ∀ a, NP (f a) → f' a = f a) :
    NP (andThen r f) → andThen r' f' = andThen r f := by
  intro hn
  have hr : NP r := by
    intro e; rw [e] at hn; exact hn rfl
  rw [h hr]
  cases r with
  | error e => rfl
  | ok a => exact hf a hn

theorem mapOk_mono {α β : Type} {r r' : Except SchemaErr α} (f : α → β)
    (h : NP r → r' = r) : NP (mapOk r f) → mapOk r' f = mapOk r f := by
  intro hn
  have hr : NP r := by
    intro e; rw [e] at hn; exact hn rfl
  rw [h hr]

theorem andThen_ok {α β : Type} {r : Except SchemaErr α} {f : α → Except SchemaErr β} {b : β}
    (h : andThen r f = .ok b) : ∃ a, r = .ok a ∧ f a = .ok b := by
  cases r with
  | error e => cases h
  | ok a => exact ⟨a, rfl, h⟩

theorem mapOk_ok {α β : Type} {r : Except SchemaErr α} {f : α → β} {b : β}
    (h : mapOk r f = .ok b) : ∃ a, r = .ok a ∧ b = f a := by
  cases r with
  | error e => cases h
  | ok a => cases h; exact ⟨a, rfl, rfl⟩

theorem andThen_NP {α β : Type} {r : Except SchemaErr α} {f : α → Except SchemaErr β}
    (h : NP r) (hf : ∀ a, r = .ok a → NP (f a)) : NP (andThen r f) := by
  cases r with
  | error e =>
    intro h'
    have : e = .panic := by simpa [andThen] using h'
    subst this; exact h rfl
  | ok a => exact hf a rfl

theorem mapOk_NP {α β : Type} {r : Except SchemaErr α} {f : α → β} (h : NP r) : NP (mapOk r f) := by
  cases r with
  | error e =>
    intro h'
    have : e = .panic := by simpa [mapOk] using h'
    subst this; exact h rfl
  | ok a => exact NP_ok _

/-! #### fuel monotonicity -/

theorem pcfUnnamed_mono (st : PcfState) (key : Nat) {body body' : PcfState → Except SchemaErr PcfState}
    (h : ∀ s, NP (body s) → body' s = body s) :
    NP (pcfUnnamed st key body) → pcfUnnamed st key body' = pcfUnnamed st key body := by
  unfold pcfUnnamed
  split
  · intro _; rfl
  · exact mapOk_mono _ (h _)

theorem pcfNamed_mono (st : PcfState) (key : Nat) (name : Name)
    {full full' : PcfState → Except SchemaErr PcfState}
    (h : ∀ s, NP (full s) → full' s = full s) :
    NP (pcfNamed st key name full) → pcfNamed st key name full' = pcfNamed st key name full := by
  unfold pcfNamed
  split
  · intro _; rfl
  · exact h _

theorem pcfStep_mono (S : SchemaMut) {rp rp' : Nat → PcfState → Except SchemaErr PcfState}
    {rl rl' : List Nat → Bool → PcfState → Except SchemaErr PcfState}
    {rf rf' : List (String × Nat) → Bool → PcfState → Except SchemaErr PcfState}
    (hp : ∀ k s, NP (rp k s) → rp' k s = rp k s)
    (hl : ∀ k f s, NP (rl k f s) → rl' k f s = rl k f s)
    (hf : ∀ k f s, NP (rf k f s) → rf' k f s = rf k f s) (key : Nat) (st : PcfState) :
    NP (pcfStep S rp rl rf key st) → pcfStep S rp' rl' rf' key st = pcfStep S rp rl rf key st := by
  unfold pcfStep
  split
  · intro _; rfl
  · split
    any_goals (intro _; rfl)
    · exact pcfUnnamed_mono _ _ fun s => mapOk_mono _ (hl _ _ _)
    · exact pcfUnnamed_mono _ _ fun s => mapOk_mono _ (hp _ _)
    · exact pcfUnnamed_mono _ _ fun s => mapOk_mono _ (hp _ _)
    · exact pcfNamed_mono _ _ _ fun s => mapOk_mono _ (hf _ _ _)

theorem pcf_fuel_mono_aux (S : SchemaMut) : ∀ fuel,
    (∀ key st, NP (pcf S fuel key st) → pcf S (fuel+1) key st = pcf S fuel key st) ∧
    (∀ ks first st, NP (pcfList S fuel ks first st) →
      pcfList S (fuel+1) ks first st = pcfList S fuel ks first st) ∧
    (∀ fs first st, NP (pcfFields S fuel fs first st) →
      pcfFields S (fuel+1) fs first st = pcfFields S fuel fs first st) := by
  intro fuel
  induction fuel with
  | zero =>
    refine ⟨fun key st h => absurd rfl h, ?_, ?_⟩
    · intro ks first st h
      cases ks with
      | nil => rfl
      | cons k rest => exact absurd rfl h
    · intro ks first st h
      cases ks with
      | nil => rfl
      | cons k rest => exact absurd rfl h
  | succ fuel ih =>
    obtain ⟨ih1, ih2, ih3⟩ := ih
    refine ⟨?_, ?_, ?_⟩
    · intro key st
      rw [pcf_succ, pcf_succ]
      exact pcfStep_mono S ih1 ih2 ih3 key st
    · intro ks first st
      cases ks with
      | nil => intro _; rw [pcfList_nil, pcfList_nil]
      | cons k rest =>
        rw [pcfList_cons, pcfList_cons]
        exact andThen_mono (ih1 _ _) fun a => ih2 _ _ _
    · intro fs first st
      cases fs with
      | nil => intro _; rw [pcfFields_nil, pcfFields_nil]
      | cons f rest =>
        obtain ⟨name, k⟩ := f
        rw [pcfFields_cons, pcfFields_cons]
        exact andThen_mono (ih1 _ _) fun a => ih3 _ _ _


/-! #### counting free indices -/

theorem countP_lt_of {α : Type} (p q : α → Bool) (l : List α)
    (hqp : ∀ x ∈ l, q x = true → p x = true) (a : α) (ha : a ∈ l) (hpa : p a = true)
    (hqa : q a = false) : l.countP q + 1 ≤ l.countP p := by
  induction l with
  | nil => cases ha
  | cons x xs ih =>
    simp only [List.countP_cons]
    have hmono : xs.countP q ≤ xs.countP p :=
      List.countP_mono_left fun y hy => hqp y (List.mem_cons_of_mem _ hy)
    rcases List.mem_cons.mp ha with rfl | hx
    · simp only [hpa, hqa, if_true]
      simp only [Bool.false_eq_true, if_false]; omega
    · have := ih (fun y hy => hqp y (List.mem_cons_of_mem _ hy)) hx
      have hx' := hqp x (List.mem_cons_self)
      by_cases hq : q x = true
      · simp only [hq, hx' hq, if_true]; omega
      · have e : (if q x = true then 1 else 0) = 0 := by simp [hq]
        rw [e]; omega

/-- number of indices `< n` not in `l` -/
def free (n : Nat) (l : List Nat) : Nat := (List.range n).countP fun i => !l.contains i

theorem free_nil (n : Nat) : free n [] = n := by
  simp [free]

theorem free_mono (n : Nat) (l l' : List Nat) (h : ∀ i, i ∈ l → i ∈ l') : free n l' ≤ free n l := by
  apply List.countP_mono_left
  intro x _ hx
  simp only [Bool.not_eq_true', List.contains_eq_mem, decide_eq_false_iff_not] at hx ⊢
  exact fun hm => hx (h x hm)

theorem free_cons_lt (n : Nat) (l : List Nat) (k : Nat) (hk : k < n) (hkl : k ∉ l) :
    free n (k :: l) + 1 ≤ free n l := by
  apply countP_lt_of _ _ _ _ k (List.mem_range.mpr hk)
  · simp [hkl]
  · simp
  · intro x _ hx
    simp only [Bool.not_eq_true', List.contains_eq_mem, decide_eq_false_iff_not, List.mem_cons,
      not_or] at hx ⊢
    exact hx.2

theorem foldl_max_ge (l : List Nat) (a : Nat) : a ≤ l.foldl max a := by
  induction l generalizing a with
  | nil => exact Nat.le_refl _
  | cons x xs ih => exact Nat.le_trans (Nat.le_max_left _ _) (ih _)

private theorem le_foldl_max (l : List Nat) (a x : Nat) (hx : x ∈ l) : x ≤ l.foldl max a := by
  induction l generalizing a with
  | nil => cases hx
  | cons y ys ih =>
    rcases List.mem_cons.mp hx with rfl | h
    · exact Nat.le_trans (Nat.le_max_right _ _) (foldl_max_ge _ _)
    · exact ih _ h

theorem width_le_maxWidth (S : SchemaMut) (key : Nat) (node : RawNode) (h : S[key]? = some node) :
    (match node.type with | .record _ fs => fs.length | .union vs => vs.length | _ => 0) ≤ maxWidth S := by
  unfold maxWidth
  apply le_foldl_max
  apply List.mem_map.mpr
  exact ⟨node, Array.mem_toList_iff.mpr (Array.mem_of_getElem? h), rfl⟩

theorem lt_size_of_getElem? (S : SchemaMut) (key : Nat) (node : RawNode) (h : S[key]? = some node) :
    key < S.size := (Array.getElem?_eq_some_iff.mp h).1

/-! #### the generation cells of `onPath` -/

theorem lookup_filter_ne (l : List (Nat × Nat)) (i j : Nat) (h : j ≠ i) :
    (l.filter (·.1 ≠ i)).lookup j = l.lookup j := by
  induction l with
  | nil => rfl
  | cons x xs ih =>
    obtain ⟨a, b⟩ := x
    by_cases ha : a = i
    · subst ha
      have : (j == a) = false := by simpa using h
      have hd : decide ((a, b).1 ≠ a) = false := by simp
      simp only [List.filter, hd, List.lookup_cons, this, ih]
    · have : decide ((a, b).1 ≠ i) = true := by simpa using ha
      simp only [List.filter, this, List.lookup_cons, ih]

theorem sum_map_le {α : Type} (l : List α) (f g : α → Nat) (h : ∀ x ∈ l, f x ≤ g x) :
    (l.map f).sum ≤ (l.map g).sum := by
  induction l with
  | nil => exact Nat.le_refl _
  | cons x xs ih =>
    simp only [List.map_cons, List.sum_cons]
    have := h x List.mem_cons_self
    have := ih fun y hy => h y (List.mem_cons_of_mem _ hy)
    omega

theorem sum_map_lt {α : Type} (l : List α) (f g : α → Nat) (h : ∀ x ∈ l, f x ≤ g x)
    (a : α) (ha : a ∈ l) (hlt : f a + 1 ≤ g a) : (l.map f).sum + 1 ≤ (l.map g).sum := by
  induction l with
  | nil => cases ha
  | cons x xs ih =>
    simp only [List.map_cons, List.sum_cons]
    have hx := h x List.mem_cons_self
    have hle := sum_map_le xs f g fun y hy => h y (List.mem_cons_of_mem _ hy)
    rcases List.mem_cons.mp ha with rfl | hm
    · omega
    · have := ih (fun y hy => h y (List.mem_cons_of_mem _ hy)) hm
      omega

theorem sum_map_le_const {α : Type} (l : List α) (f : α → Nat) (c : Nat) (h : ∀ x ∈ l, f x ≤ c) :
    (l.map f).sum ≤ l.length * c := by
  induction l with
  | nil => simp
  | cons x xs ih =>
    simp only [List.map_cons, List.sum_cons, List.length_cons, Nat.succ_mul]
    have := h x List.mem_cons_self
    have := ih fun y hy => h y (List.mem_cons_of_mem _ hy)
    omega

/-- the node is a record, enum or fixed -/
def isNamedKey (S : SchemaMut) (j : Nat) : Bool :=
  match S[j]? with
  | some node =>
    (match node.type with
      | .record _ _ => true | .enum _ _ => true | .fixed _ _ => true | _ => false)
  | none => false

/-- the generation recorded for an unnamed node (`0` = not being written) -/
def PcfState.cell (st : PcfState) (i : Nat) : Nat := (st.onPath.lookup i).getD 0

/-- the current generation: `1 +` the number of named types written -/
def PcfState.gen (st : PcfState) : Nat := st.written.length + 1

theorem pcf_cell_set (l : List (Nat × Nat)) (i v j : Nat) :
    (((i, v) :: l.filter (·.1 ≠ i)).lookup j).getD 0 = if j = i then v else (l.lookup j).getD 0 := by
  by_cases h : j = i
  · subst h; simp
  · have : (j == i) = false := by simpa using h
    simp only [List.lookup_cons, this, lookup_filter_ne _ _ _ h, h, if_false]

theorem free_le (n : Nat) (l : List Nat) : free n l ≤ n := by
  have := List.countP_le_length (p := fun i => !l.contains i) (l := List.range n)
  simpa [free] using this

/-! #### what a successful `pcf` does to `written` / `onPath` -/

/-- The generation cells are restored, `written` only grows, and
    `written.length + #(indices not in written)` does not grow. -/
structure PcfLe (S : SchemaMut) (st st' : PcfState) : Prop where
  cell : ∀ j, st'.cell j = st.cell j
  sub : ∀ i, i ∈ st.written → i ∈ st'.written
  len : st.written.length ≤ st'.written.length
  bal : st'.written.length + free S.size st'.written ≤ st.written.length + free S.size st.written

theorem PcfLe.refl (S : SchemaMut) (st : PcfState) : PcfLe S st st :=
  ⟨fun _ => rfl, fun _ h => h, Nat.le_refl _, Nat.le_refl _⟩
theorem PcfLe.trans {S : SchemaMut} {a b c : PcfState} (h1 : PcfLe S a b) (h2 : PcfLe S b c) :
    PcfLe S a c :=
  ⟨fun j => (h2.cell j).trans (h1.cell j), fun i h => h2.sub i (h1.sub i h),
    Nat.le_trans h1.len h2.len, Nat.le_trans h2.bal h1.bal⟩

/-- changing `out` only -/
theorem PcfLe.of_eq (S : SchemaMut) {st st' : PcfState} (hw : st'.written = st.written)
    (hp : st'.onPath = st.onPath) : PcfLe S st st' := by
  refine ⟨fun j => ?_, fun i h => hw ▸ h, by rw [hw]; exact Nat.le_refl _, by rw [hw]; exact Nat.le_refl _⟩
  unfold PcfState.cell; rw [hp]

theorem PcfLe.outs {S : SchemaMut} {s a : PcfState} {o o' : String}
    (h : PcfLe S { s with out := o } a) : PcfLe S s { a with out := o' } :=
  PcfLe.trans (PcfLe.of_eq S (st := s) (st' := { s with out := o }) rfl rfl)
    (PcfLe.trans h (PcfLe.of_eq S (st := a) (st' := { a with out := o' }) rfl rfl))

theorem pcfStep_le (S : SchemaMut) {rp : Nat → PcfState → Except SchemaErr PcfState}
    {rl : List Nat → Bool → PcfState → Except SchemaErr PcfState}
    {rf : List (String × Nat) → Bool → PcfState → Except SchemaErr PcfState}
    (hp : ∀ k s s', rp k s = .ok s' → PcfLe S s s')
    (hl : ∀ k f s s', rl k f s = .ok s' → PcfLe S s s')
    (hf : ∀ k f s s', rf k f s = .ok s' → PcfLe S s s') (key : Nat) (st st' : PcfState) :
    pcfStep S rp rl rf key st = .ok st' → PcfLe S st st' := by
  unfold pcfStep
  split
  · intro h; cases h
  next node hS =>
  have hk := lt_size_of_getElem? S key node hS
  have unn : ∀ (body : PcfState → Except SchemaErr PcfState),
      (∀ s s', body s = .ok s' → PcfLe S s s') → pcfUnnamed st key body = .ok st' → PcfLe S st st' := by
    intro body hb h
    unfold pcfUnnamed at h
    split at h
    · cases h
    · obtain ⟨a, ha, rfl⟩ := mapOk_ok h
      have := hb _ _ ha
      refine ⟨fun j => ?_, this.sub, this.len, this.bal⟩
      have hj := this.cell j
      unfold PcfState.cell at hj ⊢
      simp only [pcf_cell_set] at hj ⊢
      by_cases e : j = key
      · subst e; simp
      · simpa [e] using hj
  have nam : ∀ (name : Name) (full : PcfState → Except SchemaErr PcfState),
      (∀ s s', full s = .ok s' → PcfLe S s s') → pcfNamed st key name full = .ok st' → PcfLe S st st' := by
    intro name full hb h
    unfold pcfNamed at h
    split at h
    · cases h; exact PcfLe.of_eq S rfl rfl
    next hc =>
      have := hb _ _ h
      have hc' : key ∉ st.written := by simpa using hc
      have hfree := free_cons_lt S.size st.written key hk hc'
      refine ⟨this.cell, fun i hi => this.sub i (List.mem_cons_of_mem _ hi), ?_, ?_⟩
      · have := this.len; simp only [List.length_cons] at this; omega
      · have := this.bal; simp only [List.length_cons] at this; omega
  split
  any_goals (intro h; cases h; exact PcfLe.of_eq S rfl rfl)
  · refine unn _ fun s s' h => ?_
    obtain ⟨a, ha, rfl⟩ := mapOk_ok h
    have h1 := hl _ _ _ _ ha
    exact h1.outs
  · refine unn _ fun s s' h => ?_
    obtain ⟨a, ha, rfl⟩ := mapOk_ok h
    have h1 := hp _ _ _ ha
    exact h1.outs
  · refine unn _ fun s s' h => ?_
    obtain ⟨a, ha, rfl⟩ := mapOk_ok h
    have h1 := hp _ _ _ ha
    exact h1.outs
  · refine nam _ _ fun s s' h => ?_
    cases h; exact PcfLe.of_eq S rfl rfl
  · refine nam _ _ fun s s' h => ?_
    cases h; exact PcfLe.of_eq S rfl rfl
  · refine nam _ _ fun s s' h => ?_
    obtain ⟨a, ha, rfl⟩ := mapOk_ok h
    have h1 := hf _ _ _ _ ha
    exact h1.outs

theorem pcf_le_aux (S : SchemaMut) : ∀ fuel,
    (∀ key st st', pcf S fuel key st = .ok st' → PcfLe S st st') ∧
    (∀ ks first st st', pcfList S fuel ks first st = .ok st' → PcfLe S st st') ∧
    (∀ fs first st st', pcfFields S fuel fs first st = .ok st' → PcfLe S st st') := by
  intro fuel
  induction fuel with
  | zero =>
    refine ⟨fun key st st' h => (by cases h), ?_, ?_⟩
    · intro ks first st st' h
      cases ks with
      | nil => cases h; exact PcfLe.refl _ _
      | cons k rest => cases h
    · intro ks first st st' h
      cases ks with
      | nil => cases h; exact PcfLe.refl _ _
      | cons k rest => cases h
  | succ fuel ih =>
    obtain ⟨ih1, ih2, ih3⟩ := ih
    refine ⟨?_, ?_, ?_⟩
    · intro key st st'
      rw [pcf_succ]
      exact pcfStep_le S ih1 ih2 ih3 key st st'
    · intro ks first st st' h
      cases ks with
      | nil => rw [pcfList_nil] at h; cases h; exact PcfLe.refl _ _
      | cons k rest =>
        rw [pcfList_cons] at h
        obtain ⟨a, ha, hb⟩ := andThen_ok h
        have h1 := ih1 _ _ _ ha
        have h2 := ih2 _ _ _ _ hb
        refine PcfLe.trans ?_ (PcfLe.trans h1 h2)
        cases first <;> exact PcfLe.of_eq S rfl rfl
    · intro fs first st st' h
      cases fs with
      | nil => rw [pcfFields_nil] at h; cases h; exact PcfLe.refl _ _
      | cons f rest =>
        obtain ⟨name, k⟩ := f
        rw [pcfFields_cons] at h
        obtain ⟨a, ha, hb⟩ := andThen_ok h
        have h1 := ih1 _ _ _ ha
        have h2 := ih3 _ _ _ _ hb
        refine PcfLe.trans ?_ (PcfLe.trans h1 (PcfLe.trans ?_ h2))
        · cases first <;> exact PcfLe.of_eq S rfl rfl
        · exact PcfLe.of_eq S rfl rfl


/-! #### totality of `pcf` -/

/-- What node `j` can still contribute to the depth of the recursion: a named node is written in
    full at most once; an unnamed node can be entered once per generation, and there are at most
    `free S.size written + 1` generations to come (the current one included), the current one
    being used up when the cell holds it. -/
def pcfCellPot (S : SchemaMut) (st : PcfState) (j : Nat) : Nat :=
  if isNamedKey S j then (if j ∈ st.written then 0 else 1)
  else free S.size st.written + 1 - (if st.cell j = st.gen then 1 else 0)

/-- potential of the generation guard of `pcf`: how many more "pushes" (a named node to write,
    an unnamed node to enter) are possible along a chain of nested calls -/
def pcfMeasure (S : SchemaMut) (st : PcfState) : Nat :=
  ((List.range S.size).map (pcfCellPot S st)).sum

theorem pcfMeasure_le (S : SchemaMut) {st st' : PcfState} (h : PcfLe S st st') :
    pcfMeasure S st' ≤ pcfMeasure S st := by
  apply sum_map_le
  intro j _
  unfold pcfCellPot
  have hF := free_mono S.size _ _ h.sub
  have hlen := h.len
  have hbal := h.bal
  split
  · by_cases hc : j ∈ st.written
    · rw [if_pos hc, if_pos (h.sub j hc)]; exact Nat.le_refl _
    · rw [if_neg hc]
      split <;> omega
  · rw [h.cell j]
    unfold PcfState.gen
    by_cases hlt : free S.size st'.written = free S.size st.written
    · have : st'.written.length = st.written.length := by omega
      rw [this, hlt]
      exact Nat.le_refl _
    · split <;> split <;> omega

theorem pcfMeasure_le_bound (S : SchemaMut) (st : PcfState) :
    pcfMeasure S st ≤ S.size * (S.size + 1) := by
  have := sum_map_le_const (List.range S.size) (pcfCellPot S st) (S.size + 1) (by
    intro j _
    unfold pcfCellPot
    have := free_le S.size st.written
    split
    · split <;> omega
    · omega)
  simpa [pcfMeasure] using this

theorem pcf_unnamed_enter (S : SchemaMut) (st : PcfState) (key : Nat) (hk : key < S.size)
    (hun : isNamedKey S key = false) (hne : st.cell key ≠ st.gen) :
    pcfMeasure S { st with onPath := (key, st.written.length + 1) :: st.onPath.filter (·.1 ≠ key) } + 1
      ≤ pcfMeasure S st := by
  have hcell : ∀ j, ({ st with onPath := (key, st.written.length + 1) :: st.onPath.filter (·.1 ≠ key) } :
      PcfState).cell j = if j = key then st.written.length + 1 else st.cell j :=
    fun j => pcf_cell_set _ _ _ _
  apply sum_map_lt _ _ _ _ key (List.mem_range.mpr hk)
  · unfold pcfCellPot
    rw [hcell]
    have hne' : ¬ st.cell key = st.written.length + 1 := hne
    simp only [hun, Bool.false_eq_true, if_false, if_true, PcfState.gen, hne']
    omega
  · intro j _
    unfold pcfCellPot
    rw [hcell]
    by_cases e : j = key
    · subst e
      have hne' : ¬ st.cell j = st.written.length + 1 := hne
      simp only [hun, Bool.false_eq_true, if_false, if_true, PcfState.gen, hne']
      omega
    · simp only [e, if_false]
      exact Nat.le_refl _

theorem pcf_named_enter (S : SchemaMut) (st : PcfState) (key : Nat) (hk : key < S.size)
    (hnm : isNamedKey S key = true) (hc : key ∉ st.written) :
    pcfMeasure S { st with written := key :: st.written } + 1 ≤ pcfMeasure S st := by
  have hfree := free_cons_lt S.size st.written key hk hc
  apply sum_map_lt _ _ _ _ key (List.mem_range.mpr hk)
  · unfold pcfCellPot
    rw [if_pos hnm, if_pos hnm, if_pos List.mem_cons_self, if_neg hc]
    exact Nat.le_refl _
  · intro j _
    unfold pcfCellPot
    split
    · by_cases hj : j ∈ st.written
      · rw [if_pos hj, if_pos (List.mem_cons_of_mem _ hj)]; exact Nat.le_refl _
      · rw [if_neg hj]
        split <;> omega
    · show free S.size (key :: st.written) + 1 - _ ≤ _
      split <;> split <;> omega

theorem pcfStep_total (S : SchemaMut) {rp : Nat → PcfState → Except SchemaErr PcfState}
    {rl : List Nat → Bool → PcfState → Except SchemaErr PcfState}
    {rf : List (String × Nat) → Bool → PcfState → Except SchemaErr PcfState} (d : Nat)
    (hp : ∀ k s, pcfMeasure S s + 1 ≤ d → NP (rp k s))
    (hl : ∀ vs f s, vs.length ≤ maxWidth S → pcfMeasure S s + 1 ≤ d → NP (rl vs f s))
    (hf : ∀ fs f s, fs.length ≤ maxWidth S → pcfMeasure S s + 1 ≤ d → NP (rf fs f s))
    (key : Nat) (st : PcfState) (hd : pcfMeasure S st ≤ d) : NP (pcfStep S rp rl rf key st) := by
  unfold pcfStep
  split
  · exact NP_custom
  next node hS =>
    have hk := lt_size_of_getElem? S key node hS
    have hw := width_le_maxWidth S key node hS
    have out_eq : ∀ (s : PcfState) (o : String), pcfMeasure S { s with out := o } = pcfMeasure S s :=
      fun _ _ => rfl
    have unn : isNamedKey S key = false → ∀ (body : PcfState → Except SchemaErr PcfState),
        (∀ s, pcfMeasure S s + 1 ≤ d → NP (body s)) → NP (pcfUnnamed st key body) := by
      intro hun body hb
      unfold pcfUnnamed
      split
      · exact NP_custom
      next hc =>
        apply mapOk_NP
        apply hb
        have := pcf_unnamed_enter S st key hk hun hc
        omega
    have nam : isNamedKey S key = true → ∀ (name : Name) (full : PcfState → Except SchemaErr PcfState),
        (∀ s, pcfMeasure S s + 1 ≤ d → NP (full s)) → NP (pcfNamed st key name full) := by
      intro hnm name full hb
      unfold pcfNamed
      split
      · exact NP_ok _
      next hc =>
        apply hb
        have hc' : key ∉ st.written := by simpa using hc
        have := pcf_named_enter S st key hk hnm hc'
        omega
    split
    any_goals exact NP_ok _
    next vs hT =>
      rw [hT] at hw
      exact unn (by simp [isNamedKey, hS, hT]) _ fun s hs => mapOk_NP (hl _ _ _ hw (by rw [out_eq]; exact hs))
    next hT => exact unn (by simp [isNamedKey, hS, hT]) _ fun s hs => mapOk_NP (hp _ _ (by rw [out_eq]; exact hs))
    next hT => exact unn (by simp [isNamedKey, hS, hT]) _ fun s hs => mapOk_NP (hp _ _ (by rw [out_eq]; exact hs))
    next hT => exact nam (by simp [isNamedKey, hS, hT]) _ _ fun s hs => NP_ok _
    next hT => exact nam (by simp [isNamedKey, hS, hT]) _ _ fun s hs => NP_ok _
    next name fields hT =>
      rw [hT] at hw
      exact nam (by simp [isNamedKey, hS, hT]) _ _ fun s hs => mapOk_NP (hf _ _ _ hw (by rw [out_eq]; exact hs))

theorem pcf_total_aux (S : SchemaMut) : ∀ fuel,
    (∀ key st d, pcfMeasure S st ≤ d → d * (maxWidth S + 1) + 1 ≤ fuel → NP (pcf S fuel key st)) ∧
    (∀ ks first st d, pcfMeasure S st ≤ d → ks.length + d * (maxWidth S + 1) + 1 ≤ fuel →
      NP (pcfList S fuel ks first st)) ∧
    (∀ fs first st d, pcfMeasure S st ≤ d → fs.length + d * (maxWidth S + 1) + 1 ≤ fuel →
      NP (pcfFields S fuel fs first st)) := by
  intro fuel
  induction fuel with
  | zero =>
    refine ⟨fun key st d _ h => (by omega), fun ks first st d _ h => (by omega),
      fun ks first st d _ h => (by omega)⟩
  | succ fuel ih =>
    obtain ⟨ih1, ih2, ih3⟩ := ih
    refine ⟨?_, ?_, ?_⟩
    · intro key st d hd hfuel
      rw [pcf_succ]
      apply pcfStep_total S d _ _ _ key st hd
      · intro k s hs
        obtain ⟨d', rfl⟩ : ∃ d', d = d' + 1 := ⟨d - 1, by omega⟩
        rw [Nat.succ_mul] at hfuel
        exact ih1 k s d' (by omega) (by omega)
      · intro vs f s hw hs
        obtain ⟨d', rfl⟩ : ∃ d', d = d' + 1 := ⟨d - 1, by omega⟩
        rw [Nat.succ_mul] at hfuel
        exact ih2 vs f s d' (by omega) (by omega)
      · intro vs f s hw hs
        obtain ⟨d', rfl⟩ : ∃ d', d = d' + 1 := ⟨d - 1, by omega⟩
        rw [Nat.succ_mul] at hfuel
        exact ih3 vs f s d' (by omega) (by omega)
    · intro ks first st d hd hfuel
      cases ks with
      | nil => rw [pcfList_nil]; exact NP_ok _
      | cons k rest =>
        rw [pcfList_cons]
        simp only [List.length_cons] at hfuel
        have hm : pcfMeasure S (if first then st else { st with out := st.out ++ "," }) ≤ d := by
          cases first <;> exact hd
        refine andThen_NP (ih1 _ _ d hm (by omega)) fun a ha => ?_
        have := pcfMeasure_le S ((pcf_le_aux S fuel).1 _ _ _ ha)
        exact ih2 _ _ _ d (by omega) (by omega)
    · intro fs first st d hd hfuel
      cases fs with
      | nil => rw [pcfFields_nil]; exact NP_ok _
      | cons f rest =>
        obtain ⟨name, k⟩ := f
        rw [pcfFields_cons]
        simp only [List.length_cons] at hfuel
        have hm : pcfMeasure S (if first then st else { st with out := st.out ++ "," }) ≤ d := by
          cases first <;> exact hd
        refine andThen_NP (ih1 _ _ d hm (by omega)) fun a ha => ?_
        have := pcfMeasure_le S ((pcf_le_aux S fuel).1 _ _ _ ha)
        exact ih3 _ _ _ d (Nat.le_trans this hm) (by omega)

/-- Fuel that always suffices for the canonical form of `S` (the same shape as `renderBound`:
    at most `S.size + 1` generations, each unnamed node entered at most once per generation). -/
def pcfBound (S : SchemaMut) : Nat := S.size * (S.size + 1) * (maxWidth S + 1) + 1

theorem pcf_total_st (S : SchemaMut) (fuel : Nat) (h : pcfBound S ≤ fuel) (key : Nat) (st : PcfState) :
    NP (pcf S fuel key st) :=
  (pcf_total_aux S fuel).1 key st (S.size * (S.size + 1)) (pcfMeasure_le_bound S st) h

theorem pcf_total (S : SchemaMut) (fuel : Nat) (h : pcfBound S ≤ fuel) (key : Nat) :
    NP (pcf S fuel key {}) := pcf_total_st S fuel h key {}


/-! ### `check_for_cycles` -/

theorem cycleInner_succ (S : SchemaMut) (fuel idx : Nat) (cs : CycleState) :
    cycleInner S (fuel + 1) idx cs =
      mapOk (cycleFields S fuel (recordFieldKeys S idx) { cs with visited := idx :: cs.visited })
        (fun cs' => { visited := cs'.visited.erase idx, checked := idx :: cs'.checked }) := by
  rw [cycleInner]; unfold mapOk
  generalize cycleFields S fuel _ _ = r; cases r <;> rfl

theorem cycleFields_nil (S : SchemaMut) (fuel : Nat) (cs : CycleState) :
    cycleFields S fuel [] cs = .ok cs := by
  cases fuel <;> rfl

theorem cycleFields_cons (S : SchemaMut) (fuel k : Nat) (rest : List Nat) (cs : CycleState) :
    cycleFields S (fuel + 1) (k :: rest) cs =
      if isRecord S k then
        if cs.visited.contains k then .error .cycle
        else if cs.checked.contains k then cycleFields S fuel rest cs
        else andThen (cycleInner S fuel k cs) (fun cs => cycleFields S fuel rest cs)
      else cycleFields S fuel rest cs := by
  rw [cycleFields]; unfold andThen
  split
  · split
    · rfl
    · split
      · rfl
      · generalize cycleInner S fuel _ _ = r; cases r <;> rfl
  · rfl

/-- indices on the path or entirely explored only accumulate -/
def CycLe (cs cs' : CycleState) : Prop :=
  ∀ i, (i ∈ cs.visited ∨ i ∈ cs.checked) → (i ∈ cs'.visited ∨ i ∈ cs'.checked)

theorem cyc_le_aux (S : SchemaMut) : ∀ fuel,
    (∀ idx cs cs', cycleInner S fuel idx cs = .ok cs' → CycLe cs cs') ∧
    (∀ ks cs cs', cycleFields S fuel ks cs = .ok cs' → CycLe cs cs') := by
  intro fuel
  induction fuel with
  | zero =>
    refine ⟨fun idx cs cs' h => (by cases h), ?_⟩
    intro ks cs cs' h
    cases ks with
    | nil => cases h; exact fun _ h => h
    | cons k rest => cases h
  | succ fuel ih =>
    obtain ⟨ih1, ih2⟩ := ih
    refine ⟨?_, ?_⟩
    · intro idx cs cs' h
      rw [cycleInner_succ] at h
      obtain ⟨a, ha, rfl⟩ := mapOk_ok h
      have := ih2 _ _ _ ha
      intro i hi
      have hi' := this i (by
        rcases hi with hi | hi
        · exact Or.inl (List.mem_cons_of_mem _ hi)
        · exact Or.inr hi)
      by_cases e : i = idx
      · subst e; exact Or.inr List.mem_cons_self
      · rcases hi' with hi' | hi'
        · exact Or.inl ((List.mem_erase_of_ne e).mpr hi')
        · exact Or.inr (List.mem_cons_of_mem _ hi')
    · intro ks cs cs' h
      cases ks with
      | nil => rw [cycleFields_nil] at h; cases h; exact fun _ h => h
      | cons k rest =>
        rw [cycleFields_cons] at h
        split at h
        · split at h
          · cases h
          · split at h
            · exact ih2 _ _ _ h
            · obtain ⟨a, ha, hb⟩ := andThen_ok h
              exact fun i hi => ih2 _ _ _ hb i (ih1 _ _ _ ha i hi)
        · exact ih2 _ _ _ h

/-- records that are neither on the path nor explored -/
def cycMeasure (S : SchemaMut) (cs : CycleState) : Nat :=
  (List.range S.size).countP fun i => isRecord S i && !cs.visited.contains i && !cs.checked.contains i

theorem cycMeasure_le_size (S : SchemaMut) (cs : CycleState) : cycMeasure S cs ≤ S.size := by
  unfold cycMeasure
  have := List.countP_le_length (p := fun i => isRecord S i && !cs.visited.contains i && !cs.checked.contains i)
    (l := List.range S.size)
  simpa using this

theorem cycMeasure_mono (S : SchemaMut) {cs cs' : CycleState} (h : CycLe cs cs') :
    cycMeasure S cs' ≤ cycMeasure S cs := by
  apply List.countP_mono_left
  intro x _ hx
  simp only [Bool.and_eq_true, Bool.not_eq_true', List.contains_eq_mem, decide_eq_false_iff_not] at hx ⊢
  refine ⟨⟨hx.1.1, fun hm => ?_⟩, fun hm => ?_⟩
  · rcases h x (Or.inl hm) with h' | h'
    · exact hx.1.2 h'
    · exact hx.2 h'
  · rcases h x (Or.inr hm) with h' | h'
    · exact hx.1.2 h'
    · exact hx.2 h'

private theorem isRecord_lt (S : SchemaMut) (k : Nat) (h : isRecord S k = true) : k < S.size := by
  unfold isRecord at h
  split at h
  next heq => exact (Array.getElem?_eq_some_iff.mp heq).1
  · cases h

theorem cycMeasure_push (S : SchemaMut) (cs : CycleState) (k : Nat) (hr : isRecord S k = true)
    (hv : k ∉ cs.visited) (hc : k ∉ cs.checked) :
    cycMeasure S { cs with visited := k :: cs.visited } + 1 ≤ cycMeasure S cs := by
  apply countP_lt_of _ _ _ _ k (List.mem_range.mpr (isRecord_lt S k hr))
  · simp [hr, hv, hc]
  · simp
  · intro x _ hx
    simp only [Bool.and_eq_true, Bool.not_eq_true', List.contains_eq_mem, decide_eq_false_iff_not,
      List.mem_cons, not_or] at hx ⊢
    exact ⟨⟨hx.1.1, hx.1.2.2⟩, hx.2⟩

theorem recordFieldKeys_length (S : SchemaMut) (idx : Nat) :
    (recordFieldKeys S idx).length ≤ maxWidth S := by
  unfold recordFieldKeys
  split
  next name fs lg heq =>
    have := width_le_maxWidth S idx _ heq
    simpa using this
  · exact Nat.zero_le _

theorem cyc_total_aux (S : SchemaMut) : ∀ fuel,
    (∀ idx cs d, cycMeasure S { cs with visited := idx :: cs.visited } ≤ d →
      (d + 1) * (maxWidth S + 1) ≤ fuel → NP (cycleInner S fuel idx cs)) ∧
    (∀ ks cs d, cycMeasure S cs ≤ d → ks.length + d * (maxWidth S + 1) ≤ fuel →
      NP (cycleFields S fuel ks cs)) := by
  intro fuel
  induction fuel with
  | zero =>
    refine ⟨fun idx cs d _ h => ?_, fun ks cs d _ h => ?_⟩
    · rw [Nat.succ_mul] at h; omega
    · cases ks with
      | nil => exact NP_ok _
      | cons k rest => simp at h
  | succ fuel ih =>
    obtain ⟨ih1, ih2⟩ := ih
    refine ⟨?_, ?_⟩
    · intro idx cs d hd hfuel
      rw [cycleInner_succ]
      apply mapOk_NP
      have := recordFieldKeys_length S idx
      rw [Nat.succ_mul] at hfuel
      exact ih2 _ _ d hd (by omega)
    · intro ks cs d hd hfuel
      cases ks with
      | nil => rw [cycleFields_nil]; exact NP_ok _
      | cons k rest =>
        rw [cycleFields_cons]
        simp only [List.length_cons] at hfuel
        split
        next hr =>
          split
          · intro h; cases h
          next hv =>
            split
            · exact ih2 _ _ d hd (by omega)
            next hc =>
              have hv' : k ∉ cs.visited := by simpa using hv
              have hc' : k ∉ cs.checked := by simpa using hc
              have hpush := cycMeasure_push S cs k hr hv' hc'
              obtain ⟨d', rfl⟩ : ∃ d', d = d' + 1 := ⟨d - 1, by omega⟩
              refine andThen_NP (ih1 _ _ d' (by omega) (by omega)) fun a ha => ?_
              have := cycMeasure_mono S ((cyc_le_aux S fuel).1 _ _ _ ha)
              exact ih2 _ _ (d' + 1) (by omega) (by omega)
        · exact ih2 _ _ d hd (by omega)

/-- `checkForCycles` with the fuel of the inner calls as a parameter. -/
def checkForCyclesF (S : SchemaMut) (F : Nat) : Except SchemaErr Unit :=
  let rec go : Nat → Nat → CycleState → Except SchemaErr Unit
    | 0, _, _ => .ok ()
    | n + 1, i, cs =>
      if isRecord S i ∧ ¬ cs.checked.contains i then
        match cycleInner S F i cs with
        | .error e => .error e
        | .ok cs => go n (i + 1) cs
      else go n (i + 1) cs
  go S.size 0 {}

theorem checkForCycles_go_eq (S : SchemaMut) (n i : Nat) (cs : CycleState) :
    checkForCycles.go S n i cs =
      checkForCyclesF.go S ((S.size + 2) * (maxWidth S + 2)) n i cs := by
  induction n generalizing i cs with
  | zero => rfl
  | succ n ih =>
    rw [checkForCycles.go, checkForCyclesF.go]
    split
    · generalize cycleInner S _ i cs = r
      cases r with
      | error e => rfl
      | ok cs' => exact ih _ _
    · exact ih _ _

theorem checkForCycles_eq (S : SchemaMut) :
    checkForCycles S = checkForCyclesF S ((S.size + 2) * (maxWidth S + 2)) :=
  checkForCycles_go_eq S _ _ _

theorem checkForCyclesF_total (S : SchemaMut) (F : Nat)
    (hF : (S.size + 1) * (maxWidth S + 1) ≤ F) : NP (checkForCyclesF S F) := by
  unfold checkForCyclesF
  generalize hn : S.size = n
  generalize (0 : Nat) = i
  generalize ({} : CycleState) = cs
  clear hn
  induction n generalizing i cs with
  | zero => exact NP_ok _
  | succ n ih =>
    rw [checkForCyclesF.go]
    split
    · have h1 : NP (cycleInner S F i cs) :=
        (cyc_total_aux S F).1 i cs S.size (cycMeasure_le_size S _) hF
      cases hr : cycleInner S F i cs with
      | error e =>
        intro h'
        apply h1
        rw [hr]
        simpa using h'
      | ok cs' => exact ih _ _
    · exact ih _ _


/-! ### One-level view of `render` -/

abbrev RenderRes := Except SchemaErr (Json × RenderState)
abbrev RenderListRes := Except SchemaErr (List Json × RenderState)

def renderGuarded (st : RenderState) (key : Nat) (body : RenderState → RenderRes) : RenderRes :=
  if st.get key ≥ st.nWritten then .error .custom
  else mapOk (body (st.set key st.nWritten)) fun p => (p.1, p.2.set key 0)

def renderNamed (st : RenderState) (key : Nat) (parentNs : Option String) (name : Name)
    (full : RenderState → RenderRes) : RenderRes :=
  if st.get key > 0 then .ok (.str (refString parentNs name), st)
  else full { (st.set key st.nWritten) with nWritten := st.nWritten + 1 }

def renderStep (S : SchemaMut) (rr : Nat → Option String → RenderState → RenderRes)
    (rl : List Nat → Option String → RenderState → RenderListRes)
    (rf : List (String × Nat) → Option String → RenderState → RenderListRes)
    (key : Nat) (parentNs : Option String) (st : RenderState) : RenderRes :=
  match S[key]? with
  | none => .error .custom
  | some node =>
    let prim (t : String) : RenderRes :=
      match node.logical with
      | none => .ok (.str t, st)
      | some _ => .ok (.obj (typeMembers t node.logical), st)
    match node.type with
    | .null => prim "null" | .boolean => prim "boolean" | .int => prim "int" | .long => prim "long"
    | .float => prim "float" | .double => prim "double" | .bytes => prim "bytes"
    | .string => prim "string"
    | .array items => renderGuarded st key fun st =>
        mapOk (rr items parentNs st) fun p =>
          (.obj (typeMembers "array" node.logical ++ [("items", p.1)]), p.2)
    | .map values => renderGuarded st key fun st =>
        mapOk (rr values parentNs st) fun p =>
          (.obj (typeMembers "map" node.logical ++ [("values", p.1)]), p.2)
    | .union vs =>
      if node.logical.isSome then .error .custom
      else renderGuarded st key fun st =>
        mapOk (rl vs parentNs st) fun p => (.arr p.1, p.2)
    | .record name fields => renderNamed st key parentNs name fun st =>
        mapOk (rf fields name.ns st) fun p =>
          (.obj (typeMembers "record" node.logical ++ nameMembers parentNs name ++ [("fields", .arr p.1)]), p.2)
    | .enum name syms => renderNamed st key parentNs name fun st =>
        .ok (.obj (typeMembers "enum" node.logical ++ nameMembers parentNs name
          ++ [("symbols", .arr (syms.map .str))]), st)
    | .fixed name size => renderNamed st key parentNs name fun st =>
        .ok (.obj (typeMembers "fixed" node.logical ++ nameMembers parentNs name ++ [("size", .nat size)]), st)

theorem render_succ (S : SchemaMut) (fuel key : Nat) (ns : Option String) (st : RenderState) :
    render S (fuel + 1) key ns st =
      renderStep S (render S fuel) (renderList S fuel) (renderFields S fuel) key ns st := by
  rw [render]
  unfold renderStep
  cases S[key]? with
  | none => rfl
  | some node =>
    obtain ⟨ty, lg⟩ := node
    cases ty <;> simp only [renderGuarded, renderNamed, mapOk]
    all_goals first
      | rfl
      | (split <;> first
          | rfl
          | (generalize render S fuel _ _ _ = r; rcases r with _ | ⟨_, _⟩ <;> rfl)
          | (generalize renderFields S fuel _ _ _ = r; rcases r with _ | ⟨_, _⟩ <;> rfl)
          | (split <;> first
              | rfl
              | (generalize renderList S fuel _ _ _ = r; rcases r with _ | ⟨_, _⟩ <;> rfl)))

theorem renderList_nil (S : SchemaMut) (fuel : Nat) (ns : Option String) (st : RenderState) :
    renderList S fuel [] ns st = .ok ([], st) := by
  cases fuel <;> rfl

theorem renderList_cons (S : SchemaMut) (fuel k : Nat) (rest : List Nat) (ns : Option String)
    (st : RenderState) :
    renderList S (fuel + 1) (k :: rest) ns st =
      andThen (render S fuel k ns st) fun p =>
        mapOk (renderList S fuel rest ns p.2) fun q => (p.1 :: q.1, q.2) := by
  rw [renderList]; unfold andThen mapOk
  generalize render S fuel _ _ _ = r
  rcases r with _ | ⟨j, st'⟩
  · rfl
  · simp only
    generalize renderList S fuel _ _ _ = r
    rcases r with _ | ⟨_, _⟩ <;> rfl

theorem renderFields_nil (S : SchemaMut) (fuel : Nat) (ns : Option String) (st : RenderState) :
    renderFields S fuel [] ns st = .ok ([], st) := by
  cases fuel <;> rfl

theorem renderFields_cons (S : SchemaMut) (fuel k : Nat) (name : String) (rest : List (String × Nat))
    (ns : Option String) (st : RenderState) :
    renderFields S (fuel + 1) ((name, k) :: rest) ns st =
      andThen (render S fuel k ns st) fun p =>
        mapOk (renderFields S fuel rest ns p.2) fun q =>
          (.obj [("name", .str name), ("type", p.1)] :: q.1, q.2) := by
  rw [renderFields]; unfold andThen mapOk
  generalize render S fuel _ _ _ = r
  rcases r with _ | ⟨j, st'⟩
  · rfl
  · simp only
    generalize renderFields S fuel _ _ _ = r
    rcases r with _ | ⟨_, _⟩ <;> rfl


/-! #### fuel monotonicity -/

theorem renderGuarded_mono (st : RenderState) (key : Nat) {body body' : RenderState → RenderRes}
    (h : ∀ s, NP (body s) → body' s = body s) :
    NP (renderGuarded st key body) → renderGuarded st key body' = renderGuarded st key body := by
  unfold renderGuarded
  split
  · intro _; rfl
  · exact mapOk_mono _ (h _)

theorem renderNamed_mono (st : RenderState) (key : Nat) (ns : Option String) (name : Name)
    {full full' : RenderState → RenderRes} (h : ∀ s, NP (full s) → full' s = full s) :
    NP (renderNamed st key ns name full) →
      renderNamed st key ns name full' = renderNamed st key ns name full := by
  unfold renderNamed
  split
  · intro _; rfl
  · exact h _

theorem renderStep_mono (S : SchemaMut) {rr rr' : Nat → Option String → RenderState → RenderRes}
    {rl rl' : List Nat → Option String → RenderState → RenderListRes}
    {rf rf' : List (String × Nat) → Option String → RenderState → RenderListRes}
    (hr : ∀ k n s, NP (rr k n s) → rr' k n s = rr k n s)
    (hl : ∀ k n s, NP (rl k n s) → rl' k n s = rl k n s)
    (hf : ∀ k n s, NP (rf k n s) → rf' k n s = rf k n s)
    (key : Nat) (ns : Option String) (st : RenderState) :
    NP (renderStep S rr rl rf key ns st) →
      renderStep S rr' rl' rf' key ns st = renderStep S rr rl rf key ns st := by
  unfold renderStep
  split
  · intro _; rfl
  next node hS =>
    obtain ⟨ty, lg⟩ := node
    cases ty <;> simp only
    any_goals (intro _; trivial)
    · exact renderGuarded_mono _ _ fun s => mapOk_mono _ (hr _ _ _)
    · exact renderGuarded_mono _ _ fun s => mapOk_mono _ (hr _ _ _)
    · split
      · intro _; rfl
      · exact renderGuarded_mono _ _ fun s => mapOk_mono _ (hl _ _ _)
    · exact renderNamed_mono _ _ _ _ fun s => mapOk_mono _ (hf _ _ _)

theorem render_fuel_mono_aux (S : SchemaMut) : ∀ fuel,
    (∀ key ns st, NP (render S fuel key ns st) → render S (fuel+1) key ns st = render S fuel key ns st) ∧
    (∀ ks ns st, NP (renderList S fuel ks ns st) →
      renderList S (fuel+1) ks ns st = renderList S fuel ks ns st) ∧
    (∀ fs ns st, NP (renderFields S fuel fs ns st) →
      renderFields S (fuel+1) fs ns st = renderFields S fuel fs ns st) := by
  intro fuel
  induction fuel with
  | zero =>
    refine ⟨fun key ns st h => absurd rfl h, ?_, ?_⟩
    · intro ks ns st h
      cases ks with
      | nil => rfl
      | cons k rest => exact absurd rfl h
    · intro ks ns st h
      cases ks with
      | nil => rfl
      | cons k rest => exact absurd rfl h
  | succ fuel ih =>
    obtain ⟨ih1, ih2, ih3⟩ := ih
    refine ⟨?_, ?_, ?_⟩
    · intro key ns st
      rw [render_succ, render_succ]
      exact renderStep_mono S ih1 ih2 ih3 key ns st
    · intro ks ns st
      cases ks with
      | nil => intro _; rw [renderList_nil, renderList_nil]
      | cons k rest =>
        rw [renderList_cons, renderList_cons]
        exact andThen_mono (ih1 _ _ _) fun a => mapOk_mono _ (ih2 _ _ _)
    · intro fs ns st
      cases fs with
      | nil => intro _; rw [renderFields_nil, renderFields_nil]
      | cons f rest =>
        obtain ⟨name, k⟩ := f
        rw [renderFields_cons, renderFields_cons]
        exact andThen_mono (ih1 _ _ _) fun a => mapOk_mono _ (ih3 _ _ _)


/-! #### the generation cells -/

theorem RenderState.get_set (st : RenderState) (i v j : Nat) :
    (st.set i v).get j = if j = i then v else st.get j := by
  unfold RenderState.get RenderState.set
  by_cases h : j = i
  · subst h; simp
  · have : (j == i) = false := by simpa using h
    simp only [List.lookup_cons, this, lookup_filter_ne _ _ _ h, h, if_false]

theorem RenderState.get_init (j : Nat) : ({} : RenderState).get j = 0 := rfl


/-- named nodes not written yet -/
def unwritten (S : SchemaMut) (st : RenderState) : Nat :=
  (List.range S.size).countP fun j => isNamedKey S j && st.get j == 0

/-- how many more times cell `j` can be (re-)entered: generations left above
    `max (cell + 1) nWritten`, the cap being `S.size + 1`. -/
def cellPot (n : Nat) (st : RenderState) (j : Nat) : Nat :=
  n + 2 - max (st.get j + 1) st.nWritten

def renderPot (S : SchemaMut) (st : RenderState) : Nat :=
  ((List.range S.size).map (cellPot S.size st)).sum

structure RLe (S : SchemaMut) (st st' : RenderState) : Prop where
  nw : st.nWritten ≤ st'.nWritten
  cap : st'.nWritten + unwritten S st' ≤ st.nWritten + unwritten S st
  cell : ∀ j, max (st.get j + 1) st.nWritten ≤ max (st'.get j + 1) st'.nWritten

structure RInv (S : SchemaMut) (st : RenderState) : Prop where
  pos : 1 ≤ st.nWritten
  cap : st.nWritten + unwritten S st ≤ S.size + 1

theorem RLe.refl (S : SchemaMut) (st : RenderState) : RLe S st st :=
  ⟨Nat.le_refl _, Nat.le_refl _, fun _ => Nat.le_refl _⟩

theorem RLe.trans {S : SchemaMut} {a b c : RenderState} (h1 : RLe S a b) (h2 : RLe S b c) :
    RLe S a c :=
  ⟨Nat.le_trans h1.nw h2.nw, Nat.le_trans h2.cap h1.cap, fun j => Nat.le_trans (h1.cell j) (h2.cell j)⟩

theorem RInv.of_le {S : SchemaMut} {st st' : RenderState} (h : RInv S st) (hle : RLe S st st') :
    RInv S st' :=
  ⟨Nat.le_trans h.pos hle.nw, Nat.le_trans hle.cap h.cap⟩

theorem renderPot_le {S : SchemaMut} {st st' : RenderState} (hle : RLe S st st') :
    renderPot S st' ≤ renderPot S st := by
  apply sum_map_le
  intro j _
  have := hle.cell j
  unfold cellPot
  omega

theorem unwritten_congr (S : SchemaMut) (st st1 : RenderState) (key : Nat)
    (hget : ∀ j, j ≠ key → st1.get j = st.get j) (hun : isNamedKey S key = false) :
    unwritten S st1 = unwritten S st := by
  unfold unwritten
  apply List.countP_congr
  intro j _
  by_cases e : j = key
  · subst e; simp [hun]
  · rw [hget j e]

theorem unwritten_push (S : SchemaMut) (st st1 : RenderState) (key : Nat)
    (hget : ∀ j, j ≠ key → st1.get j = st.get j) (hk : key < S.size)
    (hnamed : isNamedKey S key = true) (h0 : st.get key = 0) (h1 : st1.get key ≠ 0) :
    unwritten S st1 + 1 ≤ unwritten S st := by
  apply countP_lt_of _ _ _ _ key (List.mem_range.mpr hk)
  · simp [hnamed, h0]
  · simp [h1]
  · intro j _ hj
    by_cases e : j = key
    · subst e; simp [h1] at hj
    · rw [hget j e] at hj; exact hj


theorem guarded_enter (S : SchemaMut) (st : RenderState) (key : Nat) (hk : key < S.size)
    (hun : isNamedKey S key = false) (hlt : st.get key < st.nWritten) (hI : RInv S st) :
    RInv S (st.set key st.nWritten) ∧
      renderPot S (st.set key st.nWritten) + 1 ≤ renderPot S st := by
  have hget : ∀ j, j ≠ key → (st.set key st.nWritten).get j = st.get j := by
    intro j hj; rw [RenderState.get_set]; simp [hj]
  refine ⟨⟨hI.pos, ?_⟩, ?_⟩
  · rw [unwritten_congr S st _ key hget hun]; exact hI.cap
  · have hcap := hI.cap
    apply sum_map_lt _ _ _ _ key (List.mem_range.mpr hk)
    · unfold cellPot
      rw [RenderState.get_set]
      simp only [if_true]
      show S.size + 2 - max (st.nWritten + 1) st.nWritten + 1 ≤ _
      omega
    · intro j _
      by_cases e : j = key
      · subst e
        unfold cellPot
        rw [RenderState.get_set]
        simp only [if_true]
        show S.size + 2 - max (st.nWritten + 1) st.nWritten ≤ _
        omega
      · unfold cellPot
        rw [hget j e]
        exact Nat.le_refl _

theorem guarded_exit (S : SchemaMut) (st st2 : RenderState) (key : Nat)
    (hun : isNamedKey S key = false) (hlt : st.get key < st.nWritten)
    (h : RLe S (st.set key st.nWritten) st2) : RLe S st (st2.set key 0) := by
  have hget : ∀ j, j ≠ key → (st.set key st.nWritten).get j = st.get j := by
    intro j hj; rw [RenderState.get_set]; simp [hj]
  have hget2 : ∀ j, j ≠ key → (st2.set key 0).get j = st2.get j := by
    intro j hj; rw [RenderState.get_set]; simp [hj]
  refine ⟨h.nw, ?_, ?_⟩
  · rw [unwritten_congr S st2 _ key hget2 hun]
    have := h.cap
    rw [unwritten_congr S st _ key hget hun] at this
    exact this
  · intro j
    by_cases e : j = key
    · subst e
      rw [RenderState.get_set]
      simp only [if_true]
      have := h.nw
      show max (st.get j + 1) st.nWritten ≤ max (0 + 1) st2.nWritten
      have : st.nWritten ≤ st2.nWritten := this
      omega
    · have := h.cell j
      rw [hget j e] at this
      rw [hget2 j e]
      exact this

theorem named_enter (S : SchemaMut) (st : RenderState) (key : Nat) (hk : key < S.size)
    (hnamed : isNamedKey S key = true) (h0 : st.get key = 0) (hpos : 1 ≤ st.nWritten) :
    RLe S st { (st.set key st.nWritten) with nWritten := st.nWritten + 1 } := by
  have hgetk : ∀ j, ({ (st.set key st.nWritten) with nWritten := st.nWritten + 1 } : RenderState).get j
      = if j = key then st.nWritten else st.get j := fun j => RenderState.get_set st key _ j
  refine ⟨Nat.le_succ _, ?_, ?_⟩
  · have := unwritten_push S st { (st.set key st.nWritten) with nWritten := st.nWritten + 1 } key
      (fun j hj => by rw [hgetk]; simp [hj]) hk hnamed h0 (by rw [hgetk]; simp; omega)
    show st.nWritten + 1 + _ ≤ _
    omega
  · intro j
    rw [hgetk]
    show _ ≤ max _ (st.nWritten + 1)
    by_cases e : j = key
    · subst e; simp only [if_true, h0]; omega
    · simp only [e, if_false]; omega

theorem named_enter_pot (S : SchemaMut) (st : RenderState) (key : Nat) (hk : key < S.size)
    (h0 : st.get key = 0) (hI : RInv S st) :
    renderPot S { (st.set key st.nWritten) with nWritten := st.nWritten + 1 } + 1 ≤ renderPot S st := by
  have hgetk : ∀ j, ({ (st.set key st.nWritten) with nWritten := st.nWritten + 1 } : RenderState).get j
      = if j = key then st.nWritten else st.get j := fun j => RenderState.get_set st key _ j
  have hcap := hI.cap
  have hpos := hI.pos
  apply sum_map_lt _ _ _ _ key (List.mem_range.mpr hk)
  · unfold cellPot
    rw [hgetk]
    simp only [if_true, h0]
    show S.size + 2 - max (st.nWritten + 1) (st.nWritten + 1) + 1 ≤ _
    omega
  · intro j _
    unfold cellPot
    rw [hgetk]
    show S.size + 2 - max _ (st.nWritten + 1) ≤ _
    by_cases e : j = key
    · subst e; simp only [if_true, h0]; omega
    · simp only [e, if_false]; omega


theorem renderStep_le (S : SchemaMut) {rr : Nat → Option String → RenderState → RenderRes}
    {rl : List Nat → Option String → RenderState → RenderListRes}
    {rf : List (String × Nat) → Option String → RenderState → RenderListRes}
    (hr : ∀ k n s p, 1 ≤ s.nWritten → rr k n s = .ok p → RLe S s p.2)
    (hl : ∀ k n s p, 1 ≤ s.nWritten → rl k n s = .ok p → RLe S s p.2)
    (hf : ∀ k n s p, 1 ≤ s.nWritten → rf k n s = .ok p → RLe S s p.2)
    (key : Nat) (ns : Option String) (st : RenderState) (p : Json × RenderState)
    (hpos : 1 ≤ st.nWritten) :
    renderStep S rr rl rf key ns st = .ok p → RLe S st p.2 := by
  unfold renderStep
  split
  · intro h; cases h
  next node hS =>
    have hk := lt_size_of_getElem? S key node hS
    have grd : isNamedKey S key = false → ∀ (body : RenderState → RenderRes),
        (∀ s q, 1 ≤ s.nWritten → body s = .ok q → RLe S s q.2) →
        renderGuarded st key body = .ok p → RLe S st p.2 := by
      intro hun body hb h
      unfold renderGuarded at h
      split at h
      · cases h
      next hlt =>
        obtain ⟨a, ha, rfl⟩ := mapOk_ok h
        exact guarded_exit S st a.2 key hun (by omega) (hb _ _ hpos ha)
    have nam : isNamedKey S key = true → ∀ (name : Name) (full : RenderState → RenderRes),
        (∀ s q, 1 ≤ s.nWritten → full s = .ok q → RLe S s q.2) →
        renderNamed st key ns name full = .ok p → RLe S st p.2 := by
      intro hnm name full hb h
      unfold renderNamed at h
      split at h
      · cases h; exact RLe.refl _ _
      next h0 =>
        have h1 := named_enter S st key hk hnm (by omega) hpos
        exact RLe.trans h1 (hb _ _ (Nat.le_succ_of_le hpos) h)
    obtain ⟨ty, lg⟩ := node
    cases ty <;> simp only
    any_goals (intro h; split at h <;> (cases h; exact RLe.refl _ _))
    · refine grd (by simp [isNamedKey, hS]) _ fun s q hs h => ?_
      obtain ⟨a, ha, rfl⟩ := mapOk_ok h
      exact hr _ _ _ a hs ha
    · refine grd (by simp [isNamedKey, hS]) _ fun s q hs h => ?_
      obtain ⟨a, ha, rfl⟩ := mapOk_ok h
      exact hr _ _ _ a hs ha
    · split
      · intro h; cases h
      · refine grd (by simp [isNamedKey, hS]) _ fun s q hs h => ?_
        obtain ⟨a, ha, rfl⟩ := mapOk_ok h
        exact hl _ _ _ a hs ha
    · refine nam (by simp [isNamedKey, hS]) _ _ fun s q hs h => ?_
      obtain ⟨a, ha, rfl⟩ := mapOk_ok h
      exact hf _ _ _ a hs ha
    · refine nam (by simp [isNamedKey, hS]) _ _ fun s q hs h => ?_
      cases h; exact RLe.refl _ _
    · refine nam (by simp [isNamedKey, hS]) _ _ fun s q hs h => ?_
      cases h; exact RLe.refl _ _

theorem render_le_aux (S : SchemaMut) : ∀ fuel,
    (∀ key ns st p, 1 ≤ st.nWritten → render S fuel key ns st = .ok p → RLe S st p.2) ∧
    (∀ ks ns st p, 1 ≤ st.nWritten → renderList S fuel ks ns st = .ok p → RLe S st p.2) ∧
    (∀ fs ns st p, 1 ≤ st.nWritten → renderFields S fuel fs ns st = .ok p → RLe S st p.2) := by
  intro fuel
  induction fuel with
  | zero =>
    refine ⟨fun key ns st p _ h => (by cases h), ?_, ?_⟩
    · intro ks ns st p _ h
      cases ks with
      | nil => cases h; exact RLe.refl _ _
      | cons k rest => cases h
    · intro ks ns st p _ h
      cases ks with
      | nil => cases h; exact RLe.refl _ _
      | cons k rest => cases h
  | succ fuel ih =>
    obtain ⟨ih1, ih2, ih3⟩ := ih
    refine ⟨?_, ?_, ?_⟩
    · intro key ns st p hpos
      rw [render_succ]
      exact renderStep_le S ih1 ih2 ih3 key ns st p hpos
    · intro ks ns st p hpos h
      cases ks with
      | nil => rw [renderList_nil] at h; cases h; exact RLe.refl _ _
      | cons k rest =>
        rw [renderList_cons] at h
        obtain ⟨a, ha, hb⟩ := andThen_ok h
        obtain ⟨b, hb', rfl⟩ := mapOk_ok hb
        have h1 := ih1 _ _ _ _ hpos ha
        exact RLe.trans h1 (ih2 _ _ _ b (Nat.le_trans hpos h1.nw) hb')
    · intro fs ns st p hpos h
      cases fs with
      | nil => rw [renderFields_nil] at h; cases h; exact RLe.refl _ _
      | cons f rest =>
        obtain ⟨name, k⟩ := f
        rw [renderFields_cons] at h
        obtain ⟨a, ha, hb⟩ := andThen_ok h
        obtain ⟨b, hb', rfl⟩ := mapOk_ok hb
        have h1 := ih1 _ _ _ _ hpos ha
        exact RLe.trans h1 (ih3 _ _ _ b (Nat.le_trans hpos h1.nw) hb')


/-! #### totality of `render` -/

theorem renderStep_total (S : SchemaMut) {rr : Nat → Option String → RenderState → RenderRes}
    {rl : List Nat → Option String → RenderState → RenderListRes}
    {rf : List (String × Nat) → Option String → RenderState → RenderListRes} (d : Nat)
    (hr : ∀ k n s, RInv S s → renderPot S s + 1 ≤ d → NP (rr k n s))
    (hl : ∀ vs n s, vs.length ≤ maxWidth S → RInv S s → renderPot S s + 1 ≤ d → NP (rl vs n s))
    (hf : ∀ fs n s, fs.length ≤ maxWidth S → RInv S s → renderPot S s + 1 ≤ d → NP (rf fs n s))
    (key : Nat) (ns : Option String) (st : RenderState) (hI : RInv S st)
    (hd : renderPot S st ≤ d) : NP (renderStep S rr rl rf key ns st) := by
  unfold renderStep
  split
  · exact NP_custom
  next node hS =>
    have hk := lt_size_of_getElem? S key node hS
    have hw := width_le_maxWidth S key node hS
    have grd : isNamedKey S key = false → ∀ (body : RenderState → RenderRes),
        (∀ s, RInv S s → renderPot S s + 1 ≤ d → NP (body s)) → NP (renderGuarded st key body) := by
      intro hun body hb
      unfold renderGuarded
      split
      · exact NP_custom
      next hlt =>
        have := guarded_enter S st key hk hun (by omega) hI
        exact mapOk_NP (hb _ this.1 (by omega))
    have nam : isNamedKey S key = true → ∀ (name : Name) (full : RenderState → RenderRes),
        (∀ s, RInv S s → renderPot S s + 1 ≤ d → NP (full s)) →
        NP (renderNamed st key ns name full) := by
      intro hnm name full hb
      unfold renderNamed
      split
      · exact NP_ok _
      next h0 =>
        have h1 := named_enter S st key hk hnm (by omega) hI.pos
        have h2 := named_enter_pot S st key hk (by omega) hI
        exact hb _ (hI.of_le h1) (by omega)
    obtain ⟨ty, lg⟩ := node
    cases ty <;> simp only
    any_goals (split <;> exact NP_ok _)
    · exact grd (by simp [isNamedKey, hS]) _ fun s hs hp => mapOk_NP (hr _ _ _ hs hp)
    · exact grd (by simp [isNamedKey, hS]) _ fun s hs hp => mapOk_NP (hr _ _ _ hs hp)
    · split
      · exact NP_custom
      · exact grd (by simp [isNamedKey, hS]) _ fun s hs hp => mapOk_NP (hl _ _ _ hw hs hp)
    · exact nam (by simp [isNamedKey, hS]) _ _ fun s hs hp => mapOk_NP (hf _ _ _ hw hs hp)
    · exact nam (by simp [isNamedKey, hS]) _ _ fun s hs hp => NP_ok _
    · exact nam (by simp [isNamedKey, hS]) _ _ fun s hs hp => NP_ok _

theorem render_total_aux (S : SchemaMut) : ∀ fuel,
    (∀ key ns st d, RInv S st → renderPot S st ≤ d → d * (maxWidth S + 1) + 1 ≤ fuel →
      NP (render S fuel key ns st)) ∧
    (∀ ks ns st d, RInv S st → renderPot S st ≤ d → ks.length + d * (maxWidth S + 1) + 1 ≤ fuel →
      NP (renderList S fuel ks ns st)) ∧
    (∀ fs ns st d, RInv S st → renderPot S st ≤ d → fs.length + d * (maxWidth S + 1) + 1 ≤ fuel →
      NP (renderFields S fuel fs ns st)) := by
  intro fuel
  induction fuel with
  | zero =>
    refine ⟨fun key ns st d _ _ h => (by omega), fun ks ns st d _ _ h => (by omega),
      fun ks ns st d _ _ h => (by omega)⟩
  | succ fuel ih =>
    obtain ⟨ih1, ih2, ih3⟩ := ih
    refine ⟨?_, ?_, ?_⟩
    · intro key ns st d hI hd hfuel
      rw [render_succ]
      apply renderStep_total S d _ _ _ key ns st hI hd
      · intro k n s hs hp
        obtain ⟨d', rfl⟩ : ∃ d', d = d' + 1 := ⟨d - 1, by omega⟩
        rw [Nat.succ_mul] at hfuel
        exact ih1 k n s d' hs (by omega) (by omega)
      · intro vs n s hw hs hp
        obtain ⟨d', rfl⟩ : ∃ d', d = d' + 1 := ⟨d - 1, by omega⟩
        rw [Nat.succ_mul] at hfuel
        exact ih2 vs n s d' hs (by omega) (by omega)
      · intro vs n s hw hs hp
        obtain ⟨d', rfl⟩ : ∃ d', d = d' + 1 := ⟨d - 1, by omega⟩
        rw [Nat.succ_mul] at hfuel
        exact ih3 vs n s d' hs (by omega) (by omega)
    · intro ks ns st d hI hd hfuel
      cases ks with
      | nil => rw [renderList_nil]; exact NP_ok _
      | cons k rest =>
        rw [renderList_cons]
        simp only [List.length_cons] at hfuel
        refine andThen_NP (ih1 _ _ _ d hI hd (by omega)) fun a ha => ?_
        have hle := (render_le_aux S fuel).1 _ _ _ _ hI.pos ha
        have := renderPot_le hle
        exact mapOk_NP (ih2 _ _ _ d (hI.of_le hle) (by omega) (by omega))
    · intro fs ns st d hI hd hfuel
      cases fs with
      | nil => rw [renderFields_nil]; exact NP_ok _
      | cons f rest =>
        obtain ⟨name, k⟩ := f
        rw [renderFields_cons]
        simp only [List.length_cons] at hfuel
        refine andThen_NP (ih1 _ _ _ d hI hd (by omega)) fun a ha => ?_
        have hle := (render_le_aux S fuel).1 _ _ _ _ hI.pos ha
        have := renderPot_le hle
        exact mapOk_NP (ih3 _ _ _ d (hI.of_le hle) (by omega) (by omega))

/-- Fuel that always suffices to regenerate the JSON of `S`. -/
def renderBound (S : SchemaMut) : Nat := S.size * (S.size + 1) * (maxWidth S + 1) + 1

theorem RInv_init (S : SchemaMut) : RInv S {} := by
  refine ⟨Nat.le_refl _, ?_⟩
  have : unwritten S {} ≤ S.size := by
    unfold unwritten
    have := List.countP_le_length (p := fun j => isNamedKey S j && ({} : RenderState).get j == 0)
      (l := List.range S.size)
    simpa using this
  show 1 + _ ≤ _
  omega

theorem renderPot_init (S : SchemaMut) : renderPot S {} ≤ S.size * (S.size + 1) := by
  have := sum_map_le_const (List.range S.size) (cellPot S.size {}) (S.size + 1) (by
    intro j _
    unfold cellPot
    omega)
  simpa [renderPot] using this

theorem render_total (S : SchemaMut) (fuel : Nat) (h : renderBound S ≤ fuel) (key : Nat)
    (ns : Option String) : NP (render S fuel key ns {}) :=
  (render_total_aux S fuel).1 key ns {} (S.size * (S.size + 1)) (RInv_init S) (renderPot_init S) h


/-! ### freeze -/

theorem freezeNode_children (n : RawNode) : (freezeNode n).children = n.type.children := by
  obtain ⟨ty, lg⟩ := n
  rcases lg with _ | l
  · cases ty <;> rfl
  · cases l <;> cases ty <;> first | rfl | (simp only [freezeNode]; split <;> rfl)

theorem freezeNodes_keysInBounds (S : SchemaMut) (h : S.keysInBounds = true) :
    (freezeNodes S).keysInBounds = true := by
  unfold Schema.keysInBounds freezeNodes
  unfold SchemaMut.keysInBounds at h
  simp only [Array.size_map]
  simpa [Function.comp_def, freezeNode_children] using h

theorem freeze_ok (S : SchemaMut) (kept : Bool) (fuel : Nat) (F : Schema)
    (h : freeze S kept fuel = .ok F) :
    F = freezeNodes S ∧ S.size ≠ 0 ∧ S.keysInBounds = true := by
  unfold freeze at h
  split at h
  · cases h
  next hne =>
    split at h
    · cases h
    · split at h
      · cases h
      · split at h
        next hk => cases h; exact ⟨rfl, hne, hk⟩
        · cases h

theorem canonicalForm_NP (S : SchemaMut) (fuel : Nat) (h : pcfBound S ≤ fuel) :
    NP (canonicalForm S fuel) := by
  unfold canonicalForm
  have := pcf_total S fuel h 0
  cases hr : pcf S fuel 0 {} with
  | error e =>
    intro h'
    have : e = .panic := by simpa using h'
    subst this; exact this hr
  | ok st => exact NP_ok _

theorem renderJson_NP (S : SchemaMut) (fuel : Nat) (h : renderBound S ≤ fuel) :
    NP (renderJson S fuel) := by
  unfold renderJson
  have := render_total S fuel h 0 none
  cases hr : render S fuel 0 none {} with
  | error e =>
    intro h'
    have : e = .panic := by simpa using h'
    subst this; exact this hr
  | ok p => exact NP_ok _

theorem freeze_NP (S : SchemaMut) (kept : Bool) (fuel : Nat) (h1 : pcfBound S ≤ fuel)
    (h2 : renderBound S ≤ fuel) : NP (freeze S kept fuel) := by
  unfold freeze
  split
  · exact NP_custom
  · have hc := canonicalForm_NP S fuel h1
    split
    next e he =>
      intro h'
      have : e = .panic := by simpa using h'
      subst this; exact hc he
    · have hr : NP (if kept then Except.ok Json.null else renderJson S fuel) := by
        cases kept
        · exact renderJson_NP S fuel h2
        · exact NP_ok _
      split
      next e he =>
        intro h'
        have : e = .panic := by simpa using h'
        subst this; exact hr he
      · split
        · exact NP_ok _
        · exact NP_custom


/-! ### graphs that cannot be expressed -/

/-- array, map or union node -/
def isUnnamedKey (S : SchemaMut) (k : Nat) : Bool :=
  match S[k]? with
  | some node =>
    (match node.type with
      | .array _ => true | .map _ => true | .union _ => true | _ => false)
  | none => false

/-- `no_cycle_guard`: re-entering an unnamed node whose cell holds the current generation (or
    more) is an error. -/
theorem render_reenter (S : SchemaMut) (fuel k : Nat) (ns : Option String) (st : RenderState)
    (hu : isUnnamedKey S k = true) (hg : st.nWritten ≤ st.get k) :
    render S (fuel + 1) k ns st = .error .custom := by
  rw [render_succ]
  unfold renderStep
  unfold isUnnamedKey at hu
  split
  next heq => simp [heq] at hu
  next node hS =>
    simp only [hS] at hu
    obtain ⟨ty, lg⟩ := node
    cases ty <;> simp only at hu ⊢
    all_goals try (cases hu)
    · simp [renderGuarded, hg]
    · simp [renderGuarded, hg]
    · split
      · rfl
      · simp [renderGuarded, hg]

/-- a union carrying a logical type cannot be regenerated -/
theorem render_union_logical (S : SchemaMut) (fuel k : Nat) (ns : Option String) (st : RenderState)
    (vs : List Nat) (l : LogicalType) (h : S[k]? = some ⟨.union vs, some l⟩) :
    render S (fuel + 1) k ns st = .error .custom := by
  rw [render_succ]
  unfold renderStep
  simp [h]

/-- every error of the renderer is `custom` (or the model's out-of-fuel marker) -/
def CustomOrPanic {α : Type} (r : Except SchemaErr α) : Prop :=
  ∀ e, r = .error e → e = .custom ∨ e = .panic

theorem CustomOrPanic_ok {α : Type} (a : α) : CustomOrPanic (Except.ok a : Except SchemaErr α) := by
  intro e h; cases h

theorem CustomOrPanic_custom {α : Type} : CustomOrPanic (Except.error .custom : Except SchemaErr α) := by
  intro e h; cases h; exact Or.inl rfl

theorem mapOk_cop {α β : Type} {r : Except SchemaErr α} {f : α → β} (h : CustomOrPanic r) :
    CustomOrPanic (mapOk r f) := by
  cases r with
  | error e => intro e' h'; exact h e' (by simpa [mapOk] using h')
  | ok a => exact CustomOrPanic_ok _

theorem andThen_cop {α β : Type} {r : Except SchemaErr α} {f : α → Except SchemaErr β}
    (h : CustomOrPanic r) (hf : ∀ a, CustomOrPanic (f a)) : CustomOrPanic (andThen r f) := by
  cases r with
  | error e => intro e' h'; exact h e' (by simpa [andThen] using h')
  | ok a => exact hf a

theorem renderStep_cop (S : SchemaMut) {rr : Nat → Option String → RenderState → RenderRes}
    {rl : List Nat → Option String → RenderState → RenderListRes}
    {rf : List (String × Nat) → Option String → RenderState → RenderListRes}
    (hr : ∀ k n s, CustomOrPanic (rr k n s)) (hl : ∀ k n s, CustomOrPanic (rl k n s))
    (hf : ∀ k n s, CustomOrPanic (rf k n s))
    (key : Nat) (ns : Option String) (st : RenderState) :
    CustomOrPanic (renderStep S rr rl rf key ns st) := by
  have grd : ∀ (body : RenderState → RenderRes), (∀ s, CustomOrPanic (body s)) →
      CustomOrPanic (renderGuarded st key body) := by
    intro body hb; unfold renderGuarded
    split
    · exact CustomOrPanic_custom
    · exact mapOk_cop (hb _)
  have nam : ∀ (name : Name) (full : RenderState → RenderRes), (∀ s, CustomOrPanic (full s)) →
      CustomOrPanic (renderNamed st key ns name full) := by
    intro name full hb; unfold renderNamed
    split
    · exact CustomOrPanic_ok _
    · exact hb _
  unfold renderStep
  split
  · exact CustomOrPanic_custom
  next node hS =>
    obtain ⟨ty, lg⟩ := node
    cases ty <;> simp only
    any_goals (split <;> exact CustomOrPanic_ok _)
    · exact grd _ fun s => mapOk_cop (hr _ _ _)
    · exact grd _ fun s => mapOk_cop (hr _ _ _)
    · split
      · exact CustomOrPanic_custom
      · exact grd _ fun s => mapOk_cop (hl _ _ _)
    · exact nam _ _ fun s => mapOk_cop (hf _ _ _)
    · exact nam _ _ fun s => CustomOrPanic_ok _
    · exact nam _ _ fun s => CustomOrPanic_ok _

theorem render_cop_aux (S : SchemaMut) : ∀ fuel,
    (∀ key ns st, CustomOrPanic (render S fuel key ns st)) ∧
    (∀ ks ns st, CustomOrPanic (renderList S fuel ks ns st)) ∧
    (∀ fs ns st, CustomOrPanic (renderFields S fuel fs ns st)) := by
  intro fuel
  induction fuel with
  | zero =>
    refine ⟨fun key ns st e h => (by cases h; exact Or.inr rfl), ?_, ?_⟩
    · intro ks ns st e h
      cases ks with
      | nil => cases h
      | cons k rest => cases h; exact Or.inr rfl
    · intro ks ns st e h
      cases ks with
      | nil => cases h
      | cons k rest => cases h; exact Or.inr rfl
  | succ fuel ih =>
    obtain ⟨ih1, ih2, ih3⟩ := ih
    refine ⟨?_, ?_, ?_⟩
    · intro key ns st
      rw [render_succ]
      exact renderStep_cop S ih1 ih2 ih3 key ns st
    · intro ks ns st
      cases ks with
      | nil => rw [renderList_nil]; exact CustomOrPanic_ok _
      | cons k rest =>
        rw [renderList_cons]
        exact andThen_cop (ih1 _ _ _) fun a => mapOk_cop (ih2 _ _ _)
    · intro fs ns st
      cases fs with
      | nil => rw [renderFields_nil]; exact CustomOrPanic_ok _
      | cons f rest =>
        obtain ⟨name, k⟩ := f
        rw [renderFields_cons]
        exact andThen_cop (ih1 _ _ _) fun a => mapOk_cop (ih3 _ _ _)

/-- A set of keys closed under "has a child in the set through an unnamed node": every member
    lies on (or leads into) a cycle made of arrays, maps and unions only. -/
def UnnamedClosed (S : SchemaMut) (C : Nat → Prop) : Prop :=
  ∀ k, C k → ∃ node, S[k]? = some node ∧
    (match node.type with
      | .array i => C i
      | .map i => C i
      | .union vs => ∃ v, v ∈ vs ∧ C v
      | _ => False)

theorem renderList_ok_mem (S : SchemaMut) (fuel : Nat) (vs : List Nat) (ns : Option String)
    (st : RenderState) (p : List Json × RenderState) (h : renderList S fuel vs ns st = .ok p)
    (v : Nat) (hv : v ∈ vs) :
    ∃ f', f' < fuel ∧ ∃ st1 q, render S f' v ns st1 = .ok q := by
  induction vs generalizing fuel st p with
  | nil => cases hv
  | cons k rest ih =>
    cases fuel with
    | zero => cases h
    | succ fuel =>
      rw [renderList_cons] at h
      obtain ⟨a, ha, hb⟩ := andThen_ok h
      obtain ⟨b, hb', _⟩ := mapOk_ok hb
      rcases List.mem_cons.mp hv with rfl | hm
      · exact ⟨fuel, Nat.lt_succ_self _, st, a, ha⟩
      · obtain ⟨f', hf', r⟩ := ih fuel _ _ hb' hm
        exact ⟨f', Nat.lt_succ_of_lt hf', r⟩

/-- A node on a cycle through unnamed nodes only is never rendered successfully, whatever the
    fuel and the state. -/
theorem render_unnamed_cycle_not_ok (S : SchemaMut) (C : Nat → Prop) (hC : UnnamedClosed S C) :
    ∀ fuel k ns st p, C k → render S fuel k ns st ≠ .ok p := by
  intro fuel
  induction fuel using Nat.strongRecOn with
  | _ fuel ih =>
    intro k ns st p hk h
    cases fuel with
    | zero => cases h
    | succ fuel =>
      obtain ⟨node, hS, hnode⟩ := hC k hk
      rw [render_succ] at h
      unfold renderStep at h
      simp only [hS] at h
      obtain ⟨ty, lg⟩ := node
      cases ty <;> simp only at hnode h
      · -- array
        unfold renderGuarded at h
        split at h
        · cases h
        · obtain ⟨a, ha, _⟩ := mapOk_ok h
          obtain ⟨b, hb, _⟩ := mapOk_ok ha
          exact ih fuel (Nat.lt_succ_self _) _ _ _ _ hnode hb
      · unfold renderGuarded at h
        split at h
        · cases h
        · obtain ⟨a, ha, _⟩ := mapOk_ok h
          obtain ⟨b, hb, _⟩ := mapOk_ok ha
          exact ih fuel (Nat.lt_succ_self _) _ _ _ _ hnode hb
      · split at h
        · cases h
        · unfold renderGuarded at h
          split at h
          · cases h
          · obtain ⟨a, ha, _⟩ := mapOk_ok h
            obtain ⟨b, hb, _⟩ := mapOk_ok ha
            obtain ⟨v, hv, hCv⟩ := hnode
            obtain ⟨f', hf', st1, q, hq⟩ := renderList_ok_mem S fuel _ _ _ _ hb v hv
            exact ih f' (Nat.lt_succ_of_lt hf') _ _ _ _ hCv hq


/-! #### the same for the canonical form (`pcf`) -/

/-- `enter_unnamed`: re-entering an unnamed node whose cell holds the current generation (no named
    type was written since it was entered) is an error. -/
theorem pcf_reenter (S : SchemaMut) (fuel k : Nat) (st : PcfState)
    (hu : isUnnamedKey S k = true) (hg : st.cell k = st.gen) :
    pcf S (fuel + 1) k st = .error .custom := by
  have hg' : (st.onPath.lookup k).getD 0 = st.written.length + 1 := hg
  rw [pcf_succ]
  unfold pcfStep
  unfold isUnnamedKey at hu
  split
  next heq => simp [heq] at hu
  next node hS =>
    simp only [hS] at hu
    obtain ⟨ty, lg⟩ := node
    cases ty <;> simp only at hu ⊢
    all_goals try (cases hu)
    all_goals simp [pcfUnnamed, hg']

theorem pcfStep_cop (S : SchemaMut) {rp : Nat → PcfState → Except SchemaErr PcfState}
    {rl : List Nat → Bool → PcfState → Except SchemaErr PcfState}
    {rf : List (String × Nat) → Bool → PcfState → Except SchemaErr PcfState}
    (hp : ∀ k s, CustomOrPanic (rp k s)) (hl : ∀ k f s, CustomOrPanic (rl k f s))
    (hf : ∀ k f s, CustomOrPanic (rf k f s)) (key : Nat) (st : PcfState) :
    CustomOrPanic (pcfStep S rp rl rf key st) := by
  have unn : ∀ (body : PcfState → Except SchemaErr PcfState), (∀ s, CustomOrPanic (body s)) →
      CustomOrPanic (pcfUnnamed st key body) := by
    intro body hb; unfold pcfUnnamed
    split
    · exact CustomOrPanic_custom
    · exact mapOk_cop (hb _)
  have nam : ∀ (name : Name) (full : PcfState → Except SchemaErr PcfState),
      (∀ s, CustomOrPanic (full s)) → CustomOrPanic (pcfNamed st key name full) := by
    intro name full hb; unfold pcfNamed
    split
    · exact CustomOrPanic_ok _
    · exact hb _
  unfold pcfStep
  split
  · exact CustomOrPanic_custom
  · split
    any_goals exact CustomOrPanic_ok _
    · exact unn _ fun s => mapOk_cop (hl _ _ _)
    · exact unn _ fun s => mapOk_cop (hp _ _)
    · exact unn _ fun s => mapOk_cop (hp _ _)
    · exact nam _ _ fun s => CustomOrPanic_ok _
    · exact nam _ _ fun s => CustomOrPanic_ok _
    · exact nam _ _ fun s => mapOk_cop (hf _ _ _)

/-- every error of the canonical-form writer is `custom` (or the model's out-of-fuel marker) -/
theorem pcf_cop_aux (S : SchemaMut) : ∀ fuel,
    (∀ key st, CustomOrPanic (pcf S fuel key st)) ∧
    (∀ ks first st, CustomOrPanic (pcfList S fuel ks first st)) ∧
    (∀ fs first st, CustomOrPanic (pcfFields S fuel fs first st)) := by
  intro fuel
  induction fuel with
  | zero =>
    refine ⟨fun key st e h => (by cases h; exact Or.inr rfl), ?_, ?_⟩
    · intro ks first st e h
      cases ks with
      | nil => cases h
      | cons k rest => cases h; exact Or.inr rfl
    · intro ks first st e h
      cases ks with
      | nil => cases h
      | cons k rest => cases h; exact Or.inr rfl
  | succ fuel ih =>
    obtain ⟨ih1, ih2, ih3⟩ := ih
    refine ⟨?_, ?_, ?_⟩
    · intro key st
      rw [pcf_succ]
      exact pcfStep_cop S ih1 ih2 ih3 key st
    · intro ks first st
      cases ks with
      | nil => rw [pcfList_nil]; exact CustomOrPanic_ok _
      | cons k rest =>
        rw [pcfList_cons]
        exact andThen_cop (ih1 _ _) fun a => ih2 _ _ _
    · intro fs first st
      cases fs with
      | nil => rw [pcfFields_nil]; exact CustomOrPanic_ok _
      | cons f rest =>
        obtain ⟨name, k⟩ := f
        rw [pcfFields_cons]
        exact andThen_cop (ih1 _ _) fun a => ih3 _ _ _

theorem pcfList_ok_mem (S : SchemaMut) (fuel : Nat) (vs : List Nat) (first : Bool)
    (st st' : PcfState) (h : pcfList S fuel vs first st = .ok st') (v : Nat) (hv : v ∈ vs) :
    ∃ f', f' < fuel ∧ ∃ st1 st2, pcf S f' v st1 = .ok st2 := by
  induction vs generalizing fuel st first with
  | nil => cases hv
  | cons k rest ih =>
    cases fuel with
    | zero => cases h
    | succ fuel =>
      rw [pcfList_cons] at h
      obtain ⟨a, ha, hb⟩ := andThen_ok h
      rcases List.mem_cons.mp hv with rfl | hm
      · exact ⟨fuel, Nat.lt_succ_self _, _, a, ha⟩
      · obtain ⟨f', hf', r⟩ := ih fuel _ _ hb hm
        exact ⟨f', Nat.lt_succ_of_lt hf', r⟩

/-- A node on a cycle through unnamed nodes only has no canonical form, whatever the fuel and
    the state. (A cycle that goes through a named node is written: the named node by reference
    the second time.) -/
theorem pcf_unnamed_cycle_not_ok (S : SchemaMut) (C : Nat → Prop) (hC : UnnamedClosed S C) :
    ∀ fuel k st st', C k → pcf S fuel k st ≠ .ok st' := by
  intro fuel
  induction fuel using Nat.strongRecOn with
  | _ fuel ih =>
    intro k st st' hk h
    cases fuel with
    | zero => cases h
    | succ fuel =>
      obtain ⟨node, hS, hnode⟩ := hC k hk
      rw [pcf_succ] at h
      unfold pcfStep at h
      simp only [hS] at h
      obtain ⟨ty, lg⟩ := node
      cases ty <;> simp only at hnode h
      · -- array
        unfold pcfUnnamed at h
        split at h
        · cases h
        · obtain ⟨a, ha, _⟩ := mapOk_ok h
          obtain ⟨b, hb, _⟩ := mapOk_ok ha
          exact ih fuel (Nat.lt_succ_self _) _ _ _ hnode hb
      · -- map
        unfold pcfUnnamed at h
        split at h
        · cases h
        · obtain ⟨a, ha, _⟩ := mapOk_ok h
          obtain ⟨b, hb, _⟩ := mapOk_ok ha
          exact ih fuel (Nat.lt_succ_self _) _ _ _ hnode hb
      · -- union
        unfold pcfUnnamed at h
        split at h
        · cases h
        · obtain ⟨a, ha, _⟩ := mapOk_ok h
          obtain ⟨b, hb, _⟩ := mapOk_ok ha
          obtain ⟨v, hv, hCv⟩ := hnode
          obtain ⟨f', hf', st1, st2, hq⟩ := pcfList_ok_mem S fuel _ _ _ _ hb v hv
          exact ih f' (Nat.lt_succ_of_lt hf') _ _ _ hCv hq


/-! ### members of a whole schema object -/

theorem member_append_right_irrelevant (a b : List (String × Json)) (key : String)
    (h : ∀ p ∈ b, p.1 ≠ key) : member (a ++ b) key = member a key := by
  unfold member
  have : b.filter (·.1 = key) = [] := by
    apply List.filter_eq_nil_iff.mpr
    intro p hp; simpa using h p hp
  rw [List.filter_append, this, List.append_nil]

theorem member_append_left_irrelevant (a b : List (String × Json)) (key : String)
    (h : ∀ p ∈ a, p.1 ≠ key) : member (a ++ b) key = member b key := by
  unfold member
  have : a.filter (·.1 = key) = [] := by
    apply List.filter_eq_nil_iff.mpr
    intro p hp; simpa using h p hp
  rw [List.filter_append, this, List.nil_append]

def typeKeys : List String := ["logicalType", "type", "scale", "precision"]
def nameKeys : List String := ["namespace", "name"]

theorem typeMembers_keys (t : String) (l : Option LogicalType) :
    ∀ p ∈ typeMembers t l, p.1 ∈ typeKeys := by
  intro p hp
  cases l with
  | none => simp [typeMembers] at hp; subst hp; simp [typeKeys]
  | some lt =>
    cases lt <;> simp [typeMembers] at hp <;> (rcases hp with rfl | rfl | rfl | rfl) <;> simp [typeKeys]


theorem nameMembers_keys (parentNs : Option String) (name : Name) :
    ∀ p ∈ nameMembers parentNs name, p.1 ∈ nameKeys := by
  intro p hp
  unfold nameMembers at hp
  split at hp
  · simp at hp; subst hp; simp [nameKeys]
  · split at hp
    · simp at hp; rcases hp with rfl | rfl <;> simp [nameKeys]
    · simp at hp; subst hp; simp [nameKeys]

/-- In the object written for a named node, the type/logical members are read from
    `typeMembers` and the name members from `nameMembers`, whatever follows. -/
theorem member_object (t : String) (l : Option LogicalType) (parentNs : Option String)
    (name : Name) (rest : List (String × Json))
    (hrest : ∀ p ∈ rest, p.1 ∉ typeKeys ++ nameKeys) (key : String) :
    (key ∈ typeKeys → member (typeMembers t l ++ nameMembers parentNs name ++ rest) key
        = member (typeMembers t l) key) ∧
    (key ∈ nameKeys → member (typeMembers t l ++ nameMembers parentNs name ++ rest) key
        = member (nameMembers parentNs name) key) := by
  constructor
  · intro hk
    rw [List.append_assoc, member_append_right_irrelevant]
    intro p hp heq
    rcases List.mem_append.mp hp with hp | hp
    · have := nameMembers_keys _ _ p hp
      rw [heq] at this
      revert hk this
      simp only [typeKeys, nameKeys, List.mem_cons, List.not_mem_nil, or_false]
      rintro (rfl | rfl | rfl | rfl) <;> decide
    · apply hrest p hp
      rw [heq]; exact List.mem_append_left _ hk
  · intro hk
    rw [member_append_right_irrelevant, member_append_left_irrelevant]
    · intro p hp heq
      have := typeMembers_keys _ _ p hp
      rw [heq] at this
      revert hk this
      simp only [typeKeys, nameKeys, List.mem_cons, List.not_mem_nil, or_false]
      rintro (rfl | rfl) <;> decide
    · intro p hp heq
      apply hrest p hp
      rw [heq]; exact List.mem_append_right _ hk


end Avro.Impl
