import AvroModel.Lemmas.OcfReaderS
import AvroModel.Theorems.C11
import AvroModel.Theorems.C03layouts
/-
Helper lemmas for `Theorems/C17stream.lean`: the container reader on a truncated file with the
real datum deserializer — null codec; in particular the reader back-end (`io::Take` around the
source), where the deserializer runs directly on the (cut) bytes of a block, any chunk schedule.

Part 1: the specification decoder rejects every proper prefix of a canonical encoding outright
        (stronger than `C03_prefix_free`, which only excludes decoding *to the same value*).
Part 2: prefix-safety of the real datum deserializer `de … .any`, slice and reader back-ends.
Part 3: iterating a prefix-safe datum deserializer over a cut concatenation of encodings.
Part 4a: definitions and generic facts copied from `Theorems/C17.lean` (which cannot be imported
        next to C01/C03/C04, see `Lemmas/OcfReaderS.lean`).
Part 4b: the container reader over a cut source, either back-end (`sl : Bool`): whatever is
        yielded is the next value written (`readAll_cut`); the whole file yields all the values,
        then end of stream (`readAll_valid`).
-/
namespace Avro.Spec
open Avro Avro.Impl

/-- **A cut canonical encoding is rejected by the specification decoder**, whatever the fuel and
    whatever value one hopes for: if `decode` accepted `(enc ++ y).take j` with `j < enc.length`,
    locality would make it accept `enc` with a non-empty remainder or with bytes it never saw. -/
theorem decode_cut_none (S : Schema) (n : Node) (v : Value) (enc : Bytes)
    (h : encode S n v = some enc) (y : Bytes) (j : Nat) (hj : j < enc.length) (fuel : Nat) :
    decode S fuel n ((enc ++ y).take j) = none := by
  rw [List.take_append_of_le_length (Nat.le_of_lt hj)]
  cases hd : decode S fuel n (enc.take j) with
  | none => rfl
  | some res =>
    exfalso
    obtain ⟨v', r⟩ := res
    obtain ⟨c, hc, hloc⟩ := decode_local S fuel n _ v' r hd
    have h1 := hloc (r ++ enc.drop j) (fuel + size v) (by omega)
    rw [← List.append_assoc, ← hc, List.take_append_drop] at h1
    have h2 := decode_encode_nil S n v enc h (fuel + size v) (by omega)
    rw [h2] at h1
    simp only [Option.some.injEq, Prod.mk.injEq] at h1
    have h3 := congrArg List.length h1.2
    simp only [List.length_nil, List.length_append, List.length_drop] at h3
    omega

end Avro.Spec

namespace Avro.Theorems
open Avro Avro.Impl Avro.Impl.Ocf

/-! ### Part 2: prefix-safety of the datum deserializer -/

/-- **Prefix-safety, slice back-end.** The input is the canonical encoding of `v` followed by
    anything, cut after `j` bytes. If the cut falls after the encoding, `de` returns `observe v`
    and leaves exactly the (cut) rest; if it falls inside the encoding, `de` returns an error —
    never a value. -/
theorem de_cut_slice (cfg : DeConfig) (S : Schema) (n : Node) (v : Spec.Value) (enc : Bytes)
    (o : Out) (depth fuel : Nat)
    (henc : Spec.encode S n v = some enc) (hobs : Spec.observe S n v = some o)
    (hfix : Spec.fixedDecOk S n v = true)
    (hdepth : Spec.depthOf v ≤ depth) (hseq : Spec.maxLen v ≤ cfg.maxSeqSize)
    (hfuel : Spec.size v * 4 + 8 ≤ fuel)
    (s : RState) (hs : s.isSlice = true) (hl : s.limit = none) (ha : s.avail = 0)
    (y : Bytes) (j : Nat) (hr : s.rest = (enc ++ y).take j) :
    (enc.length ≤ j →
      de deExtModel cfg S fuel n depth false .any s =
        (.ok o, { s with rest := y.take (j - enc.length) })) ∧
    (j < enc.length → ∃ e s', de deExtModel cfg S fuel n depth false .any s = (.error e, s')) := by
  constructor
  · intro hj
    refine C01_de_accepts cfg S n v enc _ o depth henc hobs hfix hdepth hseq fuel hfuel s hs hl ha ?_
    rw [hr, List.take_append, List.take_of_length_le hj]
  · intro hj
    cases hx : de deExtModel cfg S fuel n depth false .any s with
    | mk res s' =>
      cases res with
      | error e => exact ⟨e, s', rfl⟩
      | ok o' =>
        exfalso
        obtain ⟨v', fS, hv', _⟩ := C03_de_rejects_invalid cfg S n depth fuel s s' o' hs hl ha hx
        rw [hr, Spec.decode_cut_none S n v enc henc y j hj fS] at hv'
        cases hv'

/-- the state invariant of a reader back-end between two datums: no `Take` in place, the buffer
    within what is left, what is left within the allocation cap `M` -/
structure BOk (M : Nat) (s : RState) : Prop where
  reader : s.isSlice = false
  limit : s.limit = none
  avail : s.avail ≤ s.rest.length
  alloc : s.maxAlloc = M
  len : s.rest.length ≤ M

/-- **Prefix-safety, reader back-end, any chunk schedule** (through C11): the same outcome up to
    the `borrowed` flags — the value, and exactly the cut rest left; or an error. -/
theorem de_cut_reader (cfg : DeConfig) (S : Schema) (n : Node) (v : Spec.Value) (enc : Bytes)
    (o : Out) (depth fuel : Nat)
    (henc : Spec.encode S n v = some enc) (hobs : Spec.observe S n v = some o)
    (hfix : Spec.fixedDecOk S n v = true)
    (hdepth : Spec.depthOf v ≤ depth) (hseq : Spec.maxLen v ≤ cfg.maxSeqSize)
    (hfuel : Spec.size v * 4 + 8 ≤ fuel)
    (M : Nat) (s : RState) (hb : BOk M s)
    (y : Bytes) (j : Nat) (hr : s.rest = (enc ++ y).take j) :
    (enc.length ≤ j →
      ∃ a s', de deExtModel cfg S fuel n depth false .any s = (.ok a, s') ∧
        unborrow a = unborrow o ∧ s'.rest = y.take (j - enc.length) ∧ BOk M s') ∧
    (j < enc.length → ∃ e s', de deExtModel cfg S fuel n depth false .any s = (.error e, s')) := by
  let sl : RState := { isSlice := true, rest := s.rest, limit := none, avail := 0 }
  have hsim : Sim s sl := ⟨hb.reader, rfl, rfl, hb.avail, hb.limit⟩
  have hc := C11_de_cases deExtModel cfg S fuel n depth false .any s sl hsim hb.limit
    (by rw [hb.alloc]; exact hb.len)
  obtain ⟨h1, h2⟩ := de_cut_slice cfg S n v enc o depth fuel henc hobs hfix hdepth hseq hfuel
    sl rfl rfl rfl y j hr
  have hma := (C04_scratch_bounded deExtModel cfg S fuel n depth false .any s).1
  constructor
  · intro hj
    rcases hc with ⟨a, b, r', sl', e1, e2, hab, hs', _⟩ | ⟨e, e', r', sl', e1, e2⟩
    · rw [h1 hj] at e2
      simp only [Prod.mk.injEq, Except.ok.injEq] at e2
      obtain ⟨rfl, rfl⟩ := e2
      have hrest : r'.rest = y.take (j - enc.length) := hs'.rest
      refine ⟨a, r', e1, hab, hrest, hs'.reader, ?_, hs'.avail, ?_, ?_⟩
      · rw [hs'.limit]
      · rw [e1] at hma; rw [hma]; exact hb.alloc
      · have := hb.len
        rw [hr, List.length_take, List.length_append] at this
        rw [hrest, List.length_take]
        omega
    · rw [h1 hj] at e2; cases e2
  · intro hj
    rcases hc with ⟨a, b, r', sl', e1, e2, _⟩ | ⟨e, e', r', sl', e1, e2⟩
    · obtain ⟨e, s', he⟩ := h2 hj
      rw [he] at e2; cases e2
    · exact ⟨e, r', e1⟩

end Avro.Theorems

/-! ### Part 3: iterating a prefix-safe datum deserializer over a cut run of encodings -/

namespace Avro.Theorems.Stream
open Avro Avro.Impl Avro.Impl.Ocf Avro.Impl.OcfS Avro.Theorems

section Many
variable {V α β : Type} (enc : V → Bytes)

/-- the objects of a block, concatenated (as in `Theorems/C17.lean`) -/
def blockData (vals : List V) : Bytes := (vals.map enc).flatten

theorem blockData_cons (v : V) (vs : List V) : blockData enc (v :: vs) = enc v ++ blockData enc vs := by
  simp [blockData]

/-- the leading values whose encodings lie entirely within the first `j` bytes -/
def fitting : List V → Nat → List V
  | [], _ => []
  | v :: vs, j => if (enc v).length ≤ j then v :: fitting vs (j - (enc v).length) else []

theorem fitting_prefix : ∀ (vals : List V) (j : Nat), fitting enc vals j <+: vals
  | [], _ => List.prefix_refl _
  | v :: vs, j => by
    unfold fitting
    split
    · exact (List.prefix_cons_inj v).2 (fitting_prefix vs _)
    · exact List.nil_prefix

theorem fitting_all : ∀ (vals : List V) (j : Nat), (blockData enc vals).length ≤ j →
    fitting enc vals j = vals
  | [], _, _ => rfl
  | v :: vs, j, h => by
    rw [blockData_cons, List.length_append] at h
    unfold fitting
    rw [if_pos (by omega), fitting_all vs _ (by omega)]

theorem fitting_lt : ∀ (vals : List V) (j : Nat), j < (blockData enc vals).length →
    (fitting enc vals j).length < vals.length
  | [], _, h => by simp [blockData] at h
  | v :: vs, j, h => by
    rw [blockData_cons, List.length_append] at h
    unfold fitting
    split
    · have := fitting_lt vs (j - (enc v).length) (by omega)
      simp only [List.length_cons]; omega
    · simp

/-- **Prefix-safety of a datum deserializer** w.r.t. the encoding `enc`, for the values satisfying
    `Q`, on the states satisfying `P`, with results compared through `proj`/`tgt`: on `enc v ++ y` cut after `j` bytes it returns
    `v` and leaves exactly the cut rest when the cut falls after `enc v`, and returns an error when
    the cut falls inside `enc v`. -/
def DatumCutOk (Q : V → Prop) (P : RState → Prop) (proj : α → β) (tgt : V → β)
    (datum : RState → Except DeErr α × RState) : Prop :=
  ∀ (s : RState) (v : V) (y : Bytes) (j : Nat), Q v → P s → s.rest = (enc v ++ y).take j →
    ((enc v).length ≤ j → ∃ a s', datum s = (.ok a, s') ∧ proj a = tgt v ∧
        s'.rest = y.take (j - (enc v).length) ∧ P s') ∧
    (j < (enc v).length → ∃ e s', datum s = (.error e, s'))

/-- run the datum deserializer up to `n` times, until its first error -/
def readMany (datum : RState → Except DeErr α × RState) : Nat → RState → List α × Option DeErr
  | 0, _ => ([], none)
  | n + 1, s =>
    match datum s with
    | (.ok a, s') => (a :: (readMany datum n s').1, (readMany datum n s').2)
    | (.error e, _) => ([], some e)

/-- On a run of encodings cut after `j` bytes, the deserializer yields exactly the values that fit
    entirely, then — if a value is missing or cut — an error; never anything else. -/
theorem readMany_cut {Q : V → Prop} {P : RState → Prop} {proj : α → β} {tgt : V → β}
    {datum : RState → Except DeErr α × RState} (hd : DatumCutOk enc Q P proj tgt datum) :
    ∀ (vals : List V) (s : RState) (j : Nat), (∀ v ∈ vals, Q v) → P s →
      s.rest = (blockData enc vals).take j →
      (readMany datum vals.length s).1.map proj = (fitting enc vals j).map tgt ∧
      ((fitting enc vals j).length < vals.length →
        ∃ e, (readMany datum vals.length s).2 = some e) ∧
      ((fitting enc vals j).length = vals.length → (readMany datum vals.length s).2 = none) := by
  intro vals
  induction vals with
  | nil => intro s j _ _ _; simp [readMany, fitting]
  | cons v vs ih =>
    intro s j hq hp hr
    rw [blockData_cons] at hr
    obtain ⟨h1, h2⟩ := hd s v _ j (hq v (by simp)) hp hr
    by_cases hj : (enc v).length ≤ j
    · obtain ⟨a, s', hs', hav, hr', hp'⟩ := h1 hj
      obtain ⟨i1, i2, i3⟩ := ih s' _ (fun w hw => hq w (by simp [hw])) hp' hr'
      simp only [List.length_cons, readMany, hs', fitting, if_pos hj, List.map_cons, hav, i1,
        Nat.add_lt_add_iff_right, Nat.add_right_cancel_iff]
      exact ⟨trivial, i2, i3⟩
    · obtain ⟨e, s', hs'⟩ := h2 (by omega)
      simp [readMany, hs', fitting, hj]

end Many

/-! ### Part 4a: definitions and generic facts copied from `Theorems/C17.lean`

(`Theorems/C17.lean` cannot be imported here, see `Lemmas/OcfReaderS.lean`; statements and proofs
are unchanged.) -/

section Generic
variable {α : Type}

theorem C17_inv_init (r : Reader) (h : r.st = .notInBlock) : RdInv r := by
  intro n hn; rw [h] at hn; cases hn

theorem C17_inv_next (d : Decomp) (datum : RState → Except DeErr α × RState) (r : Reader)
    (hi : RdInv r) : RdInv (next d datum r).2 := by
  have hk := (nextInner_keeps d datum (r.outer.rest.length + 4) r).2.2 hi
  unfold next
  split
  · exact hi
  · generalize nextInner d datum (r.outer.rest.length + 4) r = x at hk
    obtain ⟨res, r'⟩ := x
    cases res with
    | ok a => exact hk
    | error e =>
      simp only
      split
      · exact fun n hn => hk n hn
      · exact hk

theorem mu_le_of_inv (r : Reader) (hi : RdInv r) : mu r ≤ r.outer.rest.length := by
  unfold mu
  split
  · exact Nat.le_refl _
  · rename_i n hn; exact hi n hn
  · exact Nat.zero_le _

theorem C17_total (d : Decomp) (datum : RState → Except DeErr α × RState)
    (hd : ∀ s, (datum s).1 ≠ .error .panic) (r : Reader) (hi : RdInv r) :
    (next d datum r).1 ≠ .error .panic := by
  have hm := mu_le_of_inv r hi
  have := nextInner_no_panic d datum hd (r.outer.rest.length + 4) r (by omega)
  unfold next
  split
  · simp
  · generalize nextInner d datum (r.outer.rest.length + 4) r = x at this
    obtain ⟨res, r'⟩ := x
    cases res with
    | ok a => simp
    | error e =>
      simp only at this ⊢
      split <;> exact this

/-- how a run of `next` calls ended -/
inductive End
  | eos                 -- `Ok(None)`
  | err (e : RdErr)     -- an error
  | more                -- the budget of calls is exhausted, the reader could go on
  deriving DecidableEq, Repr

/-- Call `next` up to `k` times, collecting the values, until end of stream or an error. -/
def readAll (d : Decomp) (datum : RState → Except DeErr α × RState) : Nat → Reader → List α × End
  | 0, _ => ([], .more)
  | k + 1, r =>
    match next d datum r with
    | (.ok (some a), r') => (a :: (readAll d datum k r').1, (readAll d datum k r').2)
    | (.ok none, _) => ([], .eos)
    | (.error e, _) => ([], .err e)

theorem readAll_no_panic (d : Decomp) (datum : RState → Except DeErr α × RState)
    (hd : ∀ s, (datum s).1 ≠ .error .panic) (k : Nat) :
    ∀ (r : Reader), RdInv r → (readAll d datum k r).2 ≠ .err .panic := by
  induction k with
  | zero => intro r _; simp [readAll]
  | succ k ih =>
    intro r hi
    have htot := C17_total d datum hd r hi
    have hinv := C17_inv_next d datum r hi
    simp only [readAll]
    generalize next d datum r = x at htot hinv
    obtain ⟨res, r'⟩ := x
    cases res with
    | error e =>
      simp only [ne_eq, End.err.injEq]
      intro he; subst he; exact htot rfl
    | ok oa =>
      cases oa with
      | none => simp
      | some a => exact ih r' hinv

/-- what `next` does with the result of `nextInner` -/
def post (x : Except RdErr (Option α) × Reader) : Except RdErr (Option α) × Reader :=
  match x with
  | (.error e, r') =>
    if e = .io ∨ r'.st = .broken then (.error e, { r' with pretendEof := true }) else (.error e, r')
  | (.ok a, r') => (.ok a, r')

theorem next_eq_post (d : Decomp) (datum : RState → Except DeErr α × RState) (r : Reader)
    (h : r.pretendEof = false) :
    next d datum r = post (nextInner d datum (r.outer.rest.length + 4) r) := by
  unfold next post
  simp only [h, Bool.false_eq_true, if_false]
  generalize nextInner d datum (r.outer.rest.length + 4) r = x
  obtain ⟨res, r'⟩ := x
  cases res <;> rfl

/-- a value returned by `next` is a value returned by `nextInner` -/
theorem next_some (d : Decomp) (datum : RState → Except DeErr α × RState) (r r' : Reader) (a : α)
    (h : next d datum r = (.ok (some a), r')) :
    r.pretendEof = false ∧ nextInner d datum (r.outer.rest.length + 4) r = (.ok (some a), r') := by
  cases hp : r.pretendEof with
  | true => simp [next, hp] at h
  | false =>
    refine ⟨rfl, ?_⟩
    rw [next_eq_post d datum r hp] at h
    generalize nextInner d datum (r.outer.rest.length + 4) r = x at h
    obtain ⟨res, r1⟩ := x
    cases res with
    | error e => simp only [post] at h; split at h <;> cases h
    | ok oa => exact h

theorem encodeVarI64_ne_nil (i : Int) : encodeVarI64 i ≠ [] := by
  unfold encodeVarI64
  rw [encodeVarU64]
  split <;> simp

end Generic

section Valid
variable {V : Type} (enc : V → Bytes)

/-- a block as the writer lays it out (null codec): count, size, objects, sync marker -/
def blockBytes (sync : Bytes) (vals : List V) : Bytes :=
  encodeVarI64 vals.length ++ encodeVarI64 (blockData enc vals).length ++ blockData enc vals ++ sync

/-- the file after its header -/
def fileBody (sync : Bytes) (blocks : List (List V)) : Bytes :=
  (blocks.map (blockBytes enc sync)).flatten

/-- count and size fit an `i64` -/
def BlockOk (vals : List V) : Prop :=
  Spec.InI64 (vals.length : Int) ∧ Spec.InI64 ((blockData enc vals).length : Int)

theorem fileBody_cons (sync : Bytes) (b : List V) (bs : List (List V)) :
    fileBody enc sync (b :: bs) = encodeVarI64 b.length ++
      (encodeVarI64 (blockData enc b).length ++ (blockData enc b ++ (sync ++ fileBody enc sync bs))) := by
  simp [fileBody, blockBytes, List.append_assoc]

end Valid

end Avro.Theorems.Stream

/-! ### Part 4b: the container reader over a cut source — null codec, either back-end

Reader back-end (`io::Take` around a `BufRead`): the block is entered whatever is left, the view
`blk` holds the bytes of the block that are present (`o.rest.take size` is shorter than `size` when
the source ends inside the block), so the datum deserializer runs on a cut block.  Slice back-end:
`SliceRead::take` refuses a block that is not entirely present.  Both are handled by the same
development, parametrised by `sl : Bool`.
Safety is proved in the form "whatever is yielded is the next value written": no exact
characterisation of *where* a cut varint / marker / datum fails is needed. -/

namespace Avro.Theorems.Stream
open Avro Avro.Impl Avro.Impl.Ocf Avro.Impl.OcfS Avro.Theorems

/-- The state invariant of a back-end between two datums. `sl`: slice (`true`) or reader
    (`false`). No `Take` in place; reader: the buffer within what is left, what is left within the
    allocation cap `M` (`max_alloc` is only consulted by the reader); slice: `avail` unused. -/
structure KOk (sl : Bool) (M : Nat) (s : RState) : Prop where
  back : s.isSlice = sl
  limit : s.limit = none
  avail : s.avail ≤ s.rest.length
  avail0 : sl = true → s.avail = 0
  alloc : sl = false → s.maxAlloc = M
  len : sl = false → s.rest.length ≤ M

theorem KOk.wf {sl : Bool} {M : Nat} {s : RState} (h : KOk sl M s) : s.WF := fun _ => h.avail

theorem KOk.toBOk {M : Nat} {s : RState} (h : KOk false M s) : BOk M s :=
  ⟨h.back, h.limit, h.avail, h.alloc rfl, h.len rfl⟩

theorem KOk.ofBOk {M : Nat} {s : RState} (h : BOk M s) : KOk false M s :=
  ⟨h.reader, h.limit, h.avail, nofun, fun _ => h.alloc, fun _ => h.len⟩

theorem KOk.ofSlice {M : Nat} {s : RState} (hs : s.isSlice = true) (hl : s.limit = none)
    (ha : s.avail = 0) : KOk true M s :=
  ⟨hs, hl, by omega, fun _ => ha, nofun, nofun⟩

theorem KOk.adv {sl : Bool} {M k : Nat} {s s' : RState} (h : KOk sl M s) (ha : Adv k s s')
    (h0 : sl = true → s'.avail = 0) : KOk sl M s' where
  back := ha.isSlice.trans h.back
  limit := by rw [ha.limit, h.limit]; rfl
  avail := by
    cases sl with
    | true => rw [h0 rfl]; exact Nat.zero_le _
    | false => exact ha.wf (ha.isSlice.trans h.back)
  avail0 := h0
  alloc := fun hs => ha.maxAlloc.trans (h.alloc hs)
  len := fun hs => by rw [ha.length]; have := h.len hs; omega

theorem KOk.fill {sl : Bool} {M : Nat} {s s' : RState} {buf : Bytes} (h : KOk sl M s)
    (hf : fillBuf s = (.ok buf, s')) :
    KOk sl M s' ∧ s'.rest = s.rest ∧ (s.rest = [] → buf = []) ∧ (s.rest ≠ [] → buf ≠ []) := by
  cases sl with
  | true =>
    have : fillBuf s = (.ok s.rest, s) := by simp [fillBuf, h.back]
    rw [this] at hf
    simp only [Prod.mk.injEq, Except.ok.injEq] at hf
    obtain ⟨rfl, rfl⟩ := hf
    exact ⟨h, rfl, id, id⟩
  | false =>
    obtain ⟨a, s1, hf1, hal, hpos, h1, h2, h3, h4, h5⟩ := fillBuf_spec s h.wf
    rw [hf1] at hf
    simp only [Prod.mk.injEq, Except.ok.injEq] at hf
    obtain ⟨rfl, rfl⟩ := hf
    refine ⟨⟨h1.trans h.back, h3.trans h.limit, ?_, nofun,
      fun hs => h4.trans (h.alloc hs), fun hs => (by rw [h2]; exact h.len hs)⟩, h2, ?_, ?_⟩
    · rw [h5 h.back, h2]; exact hal
    · intro hn; rw [hn]; simp
    · intro hne hb
      have h0 := hpos hne
      have := congrArg List.length hb
      simp only [List.length_take, List.length_nil] at this
      omega

theorem fillBuf_never_err (s : RState) (e : DeErr) (s' : RState) : fillBuf s ≠ (.error e, s') := by
  obtain ⟨a, s1, hf, _⟩ := OcfS.fillBuf_ok s
  rw [hf]; simp

/-- `read_varint` on either back-end is `decode_var` on what is left, and keeps the invariant -/
theorem KOk.varint {sl : Bool} {M : Nat} {s : RState} (h : KOk sl M s) :
    (∀ v k, decodeVar .i64 s.rest = some (v, k) →
      ∃ s', readVarint .i64 s = (.ok v, s') ∧ KOk sl M s' ∧ s'.rest = s.rest.drop k) ∧
    (decodeVar .i64 s.rest = none → ∃ e s', readVarint .i64 s = (.error e, s')) := by
  obtain ⟨h1, h2⟩ := readVarint_spec .i64 s h.wf h.limit
  refine ⟨fun v k hd => ?_, h2⟩
  obtain ⟨s', hs', hadv⟩ := h1 v k hd
  refine ⟨s', hs', h.adv hadv ?_, hadv.rest⟩
  intro hsl
  subst hsl
  rw [OcfS.readVarint_slice h.back, hd] at hs'
  simp only [Prod.mk.injEq, true_and] at hs'
  rw [← hs']
  exact h.avail0 rfl

/-- `read_exact` on either back-end -/
theorem KOk.exact {sl : Bool} {M : Nat} {s : RState} (h : KOk sl M s) (k : Nat) :
    (k ≤ s.rest.length →
      ∃ s', readExact k s = (.ok (s.rest.take k), s') ∧ KOk sl M s' ∧ s'.rest = s.rest.drop k) ∧
    (s.rest.length < k → ∃ e s', readExact k s = (.error e, s')) := by
  obtain ⟨h1, h2⟩ := readExact_spec k s h.wf
  rw [eff_of_limit_none h.limit] at h1 h2
  refine ⟨fun hk => ?_, h2⟩
  obtain ⟨s', hs', hadv⟩ := h1 hk
  refine ⟨s', hs', h.adv hadv ?_, hadv.rest⟩
  intro hsl
  subst hsl
  rw [OcfS.readExact_slice h.back h.limit hk] at hs'
  simp only [Prod.mk.injEq, true_and] at hs'
  rw [← hs']
  simp [h.avail0 rfl]

/-- a varint read from a cut source, if it succeeds, is the varint that was written -/
theorem readVarint_cut {sl : Bool} {M : Nat} {o o' : RState} {i c : Int} {Y : Bytes} {j : Nat}
    (hb : KOk sl M o) (hi : Spec.InI64 i) (hr : o.rest = (encodeVarI64 i ++ Y).take j)
    (h : readVarint .i64 o = (.ok c, o')) :
    c = i ∧ KOk sl M o' ∧ o'.rest = Y.take (j - (encodeVarI64 i).length) := by
  obtain ⟨h1, h2⟩ := hb.varint
  cases hd : decodeVar .i64 o.rest with
  | none =>
    obtain ⟨e, s', he⟩ := h2 hd
    rw [he] at h; cases h
  | some p =>
    obtain ⟨v, k⟩ := p
    obtain ⟨s', hs', hk', hrest⟩ := h1 v k hd
    rw [hs'] at h
    simp only [Prod.mk.injEq, Except.ok.injEq] at h
    obtain ⟨rfl, rfl⟩ := h
    have hfull := decodeVar_append ((encodeVarI64 i ++ Y).drop j) hd
    rw [hr, List.take_append_drop] at hfull
    have henc : decodeVar .i64 (encodeVarI64 i ++ Y) = some (i, (encodeVarI64 i).length) :=
      decodeVarI64_encode i hi Y
    rw [henc] at hfull
    simp only [Option.some.injEq, Prod.mk.injEq] at hfull
    obtain ⟨rfl, rfl⟩ := hfull
    refine ⟨rfl, hk', ?_⟩
    rw [hrest, hr, List.drop_take, List.drop_left']
    rfl

theorem readVarint_encode_k {sl : Bool} {M : Nat} {s : RState} {i : Int} {y : Bytes}
    (hb : KOk sl M s) (hi : Spec.InI64 i) (hr : s.rest = encodeVarI64 i ++ y) :
    ∃ s', readVarint .i64 s = (.ok i, s') ∧ KOk sl M s' ∧ s'.rest = y := by
  have hd : decodeVar .i64 s.rest = some (i, (encodeVarI64 i).length) := by
    rw [hr]; exact decodeVarI64_encode i hi y
  obtain ⟨s', hs', hk', hrest⟩ := hb.varint.1 _ _ hd
  refine ⟨s', hs', hk', ?_⟩
  rw [hrest, hr, List.drop_left']
  rfl


section Cut
variable {V α β : Type} (enc : V → Bytes) (sl : Bool)

/-- between blocks; the source holds the blocks `bs`, cut somewhere -/
structure CutStart (M : Nat) (sync : Bytes) (r : Reader) (bs : List (List V)) : Prop where
  st : r.st = .notInBlock
  peof : r.pretendEof = false
  outer : KOk sl M r.outer
  orest : ∃ j, r.outer.rest = (fileBody enc sync bs).take j

/-- in a block, `vals` still to be read from the (cut) view `blk`, then the (cut) rest of the file -/
structure CutPos (M : Nat) (sync : Bytes) (r : Reader) (vals : List V) (bs : List (List V)) : Prop where
  st : r.st = .inBlock vals.length
  peof : r.pretendEof = false
  oback : r.outer.isSlice = sl
  olimit : r.outer.limit = none
  oalloc : sl = false → r.outer.maxAlloc = M
  blk : KOk sl M r.blk
  brest : ∃ j, r.blk.rest = (blockData enc vals).take j
  after : ∃ j, r.after = (sync ++ fileBody enc sync bs).take j
  alen : sl = false → r.after.length ≤ M

theorem enterBlock_cut {d : Decomp} {M : Nat} {sync : Bytes} {r r2 : Reader} {b : List V}
    {bs : List (List V)} {u : Unit} (hn : d.isNull = true) (hb : BlockOk enc b)
    (hp : CutStart enc sl M sync r (b :: bs)) (h : enterBlock d r = (.ok u, r2)) :
    CutPos enc sl M sync r2 b bs := by
  obtain ⟨hst, hpe, hbo, j, hor⟩ := hp
  rw [fileBody_cons] at hor
  rw [enterBlock_eq] at h
  split at h
  · cases h
  · rename_i cnt o1 heq1
    obtain ⟨rfl, hb1, hr1⟩ := readVarint_cut hbo hb.1 hor heq1
    rw [if_neg (by omega)] at h
    split at h
    · cases h
    · rename_i size o2 heq2
      obtain ⟨rfl, hb2, hr2⟩ := readVarint_cut hb1 hb.2 hr1 heq2
      rw [if_neg (by omega)] at h
      simp only [Int.toNat_natCast] at h
      unfold enterTail at h
      simp only [hn, if_true] at h
      split at h
      · cases h
      · simp only [Prod.mk.injEq, true_and] at h
        subst h
        generalize j - (encodeVarI64 (b.length : Int)).length
          - (encodeVarI64 ((blockData enc b).length : Int)).length = j2 at hr2
        have hav := hb2.avail
        refine ⟨rfl, hpe, hb2.back, hb2.limit, hb2.alloc,
          ⟨by exact hb2.back, by exact hb2.limit, ?_, ?_, by exact hb2.alloc, ?_⟩,
          ⟨min (blockData enc b).length j2, ?_⟩, ⟨j2 - (blockData enc b).length, ?_⟩, ?_⟩
        · simp only [List.length_take]; omega
        · intro hs; simp only [hb2.avail0 hs]; omega
        · intro hs; have := hb2.len hs; simp only [List.length_take]; omega
        · simp only [hr2, List.take_take]
          rw [List.take_append_of_le_length (Nat.min_le_left _ _)]
        · simp only [hr2, List.drop_take, List.drop_left']
        · intro hs; have := hb2.len hs; simp only [List.length_drop]; omega

/-- the back-end `leaveBlock` reads the marker from satisfies the invariant -/
theorem leaveOuter_ok {d : Decomp} {M : Nat} {r : Reader} (hn : d.isNull = true)
    (hob : r.outer.isSlice = sl) (hol : r.outer.limit = none)
    (hoa : sl = false → r.outer.maxAlloc = M) (hbk : KOk sl M r.blk)
    (hal : sl = false → r.after.length ≤ M) : KOk sl M (leaveOuter d r) := by
  cases sl with
  | true =>
    have : leaveOuter d r = { r.outer with rest := r.after, avail := 0 } := by
      simp [leaveOuter, hob]
    rw [this]
    exact ⟨hob, hol, Nat.zero_le _, fun _ => rfl, nofun, nofun⟩
  | false =>
    have hc : d.isNull = true ∧ ¬ r.outer.isSlice = true := ⟨hn, by simp [hob]⟩
    unfold leaveOuter
    rw [if_pos hc]
    exact ⟨hbk.back, rfl, srcAfterBlock_fst_le _ _ _, nofun, hbk.alloc, hal⟩

theorem leaveBlock_cut {d : Decomp} {M : Nat} {sync : Bytes} {r r2 : Reader}
    {bs : List (List V)} {u : Unit} (hn : d.isNull = true) (hsy : sync.length = 16)
    (hp : CutPos enc sl M sync r [] bs) (h : leaveBlock d r = (.ok u, r2)) :
    CutStart enc sl M sync r2 bs := by
  obtain ⟨hst, hpe, hob, hol, hoa, hbk, _, ⟨j, haf⟩, hal⟩ := hp
  have hbo := leaveOuter_ok sl hn hob hol hoa hbk hal
  rw [leaveBlock_eq] at h
  split at h
  · cases h
  · split at h
    · cases h
    · rename_i marker o' heq
      obtain ⟨h1, h2⟩ := hbo.exact 16
      by_cases h16 : 16 ≤ (leaveOuter d r).rest.length
      · obtain ⟨s', hs', hk', hrest⟩ := h1 h16
        rw [hs'] at heq
        simp only [Prod.mk.injEq, Except.ok.injEq] at heq
        obtain ⟨rfl, rfl⟩ := heq
        split at h
        · cases h
        · simp only [Prod.mk.injEq, true_and] at h
          subst h
          refine ⟨rfl, hpe, hk', ⟨j - 16, ?_⟩⟩
          show s'.rest = _
          rw [hrest, leaveOuter_rest, haf, List.drop_take, ← hsy, List.drop_left' rfl]
      · obtain ⟨e, s', he⟩ := h2 (by omega)
        rw [he] at heq; cases heq

/-- the reader is somewhere in a (cut) valid file, the values `rem` still to come -/
def CutInv (Q : V → Prop) (M : Nat) (sync : Bytes) (r : Reader) (rem : List V) : Prop :=
  ∃ (vals : List V) (bs : List (List V)), rem = vals ++ bs.flatten ∧ (∀ b ∈ bs, BlockOk enc b) ∧
    (∀ v ∈ rem, Q v) ∧
    (CutPos enc sl M sync r vals bs ∨ (vals = [] ∧ CutStart enc sl M sync r bs))

/-- **One value.** Whatever `nextInner` yields from a reader inside a cut valid file is the next
    value written, and the reader is again inside the cut file, one value further. -/
theorem nextInner_cut {d : Decomp} {Q : V → Prop} {M : Nat} {sync : Bytes} {proj : α → β} {tgt : V → β}
    {datum : RState → Except DeErr α × RState} (hn : d.isNull = true) (hsy : sync.length = 16)
    (hd : DatumCutOk enc Q (KOk sl M) proj tgt datum) (fuel : Nat) :
    ∀ (r : Reader) (rem : List V), CutInv enc sl Q M sync r rem → ∀ (a : α) (r' : Reader),
      nextInner d datum fuel r = (.ok (some a), r') →
      ∃ v rem', rem = v :: rem' ∧ proj a = tgt v ∧ CutInv enc sl Q M sync r' rem' := by
  induction fuel with
  | zero => intro r rem _ a r' h; simp [nextInner] at h
  | succ fuel ih =>
    intro r rem hinv a r' h
    obtain ⟨vals, bs, rfl, hbs, hq, hcase⟩ := hinv
    rw [nextInner_succ] at h
    rcases hcase with hp | ⟨rfl, hp⟩
    · cases vals with
      | nil =>
        simp only [hp.st, List.length_nil] at h
        generalize he : leaveBlock d r = x at h
        obtain ⟨res, r1⟩ := x
        cases res with
        | error e => simp at h
        | ok u =>
          simp only at h
          have hs1 := leaveBlock_cut enc sl hn hsy hp he
          exact ih r1 _ ⟨[], bs, rfl, hbs, hq, Or.inr ⟨rfl, hs1⟩⟩ a r' h
      | cons v vs =>
        simp only [hp.st, List.length_cons] at h
        obtain ⟨j, hj⟩ := hp.brest
        rw [blockData_cons] at hj
        obtain ⟨h1, h2⟩ := hd r.blk v _ j (hq v (by simp)) hp.blk hj
        by_cases hjl : (enc v).length ≤ j
        · obtain ⟨a', s', hs', hav, hr', hb'⟩ := h1 hjl
          simp only [hs', Prod.mk.injEq, Except.ok.injEq, Option.some.injEq] at h
          obtain ⟨rfl, rfl⟩ := h
          refine ⟨v, vs ++ bs.flatten, rfl, hav, vs, bs, rfl, hbs,
            fun w hw => hq w (by simp only [List.cons_append, List.mem_cons]; exact Or.inr hw), Or.inl ?_⟩
          exact ⟨rfl, hp.peof, hp.oback, hp.olimit, hp.oalloc, hb', ⟨_, hr'⟩, hp.after, hp.alen⟩
        · obtain ⟨e, s', hs'⟩ := h2 (by omega)
          simp [hs'] at h
    · simp only [hp.st] at h
      generalize hf : fillBuf r.outer = x at h
      obtain ⟨res, o⟩ := x
      cases res with
      | error e => exact absurd hf (fillBuf_never_err _ _ _)
      | ok buf =>
        simp only at h
        obtain ⟨hbo, hro, hnil, _⟩ := hp.outer.fill hf
        split at h
        · simp at h
        · rename_i hne
          cases bs with
          | nil =>
            exfalso
            obtain ⟨j, hj⟩ := hp.orest
            apply hne
            rw [hnil (by rw [hj]; simp [fileBody])]
            rfl
          | cons b bs' =>
            split at h
            · cases h
            · rename_i u r1 he
              have hp1 : CutStart enc sl M sync { r with outer := o } (b :: bs') := by
                obtain ⟨j, hj⟩ := hp.orest
                exact ⟨hp.st, hp.peof, hbo, ⟨j, by rw [← hj]; exact hro⟩⟩
              have hp2 := enterBlock_cut enc sl hn (hbs b (by simp)) hp1 he
              exact ih r1 _ ⟨b, bs', by simp, fun b' hb' => hbs b' (by simp [hb']), hq,
                Or.inl hp2⟩ a r' h

theorem next_cut {d : Decomp} {Q : V → Prop} {M : Nat} {sync : Bytes} {proj : α → β} {tgt : V → β}
    {datum : RState → Except DeErr α × RState} (hn : d.isNull = true) (hsy : sync.length = 16)
    (hd : DatumCutOk enc Q (KOk sl M) proj tgt datum) (r : Reader) (rem : List V)
    (hinv : CutInv enc sl Q M sync r rem) (a : α) (r' : Reader)
    (h : next d datum r = (.ok (some a), r')) :
    ∃ v rem', rem = v :: rem' ∧ proj a = tgt v ∧ CutInv enc sl Q M sync r' rem' :=
  nextInner_cut enc sl hn hsy hd _ r rem hinv a r' (next_some d datum r r' a h).2

/-- **The run.** From a reader inside a cut valid file, `readAll` yields (up to `proj`/`tgt`) a
    prefix of the values still to come, and stops by itself — end of stream or error — within
    `rem.length + 1` calls. -/
theorem readAll_cut {d : Decomp} {Q : V → Prop} {M : Nat} {sync : Bytes} {proj : α → β} {tgt : V → β}
    {datum : RState → Except DeErr α × RState} (hn : d.isNull = true) (hsy : sync.length = 16)
    (hd : DatumCutOk enc Q (KOk sl M) proj tgt datum) (k : Nat) :
    ∀ (r : Reader) (rem : List V), CutInv enc sl Q M sync r rem →
      (readAll d datum k r).1.map proj <+: rem.map tgt ∧
      (rem.length < k → (readAll d datum k r).2 ≠ .more) := by
  induction k with
  | zero => intro r rem _; exact ⟨List.nil_prefix, fun h => by omega⟩
  | succ k ih =>
    intro r rem hinv
    simp only [readAll]
    generalize hx : next d datum r = x
    obtain ⟨res, r1⟩ := x
    cases res with
    | error e => exact ⟨List.nil_prefix, fun _ => by simp⟩
    | ok oa =>
      cases oa with
      | none => exact ⟨List.nil_prefix, fun _ => by simp⟩
      | some a =>
        obtain ⟨v, rem', rfl, hav, hinv'⟩ := next_cut enc sl hn hsy hd r rem hinv a r1 hx
        obtain ⟨i1, i2⟩ := ih r1 rem' hinv'
        simp only [List.map_cons, hav, List.length_cons]
        exact ⟨(List.prefix_cons_inj _).2 i1, fun h => i2 (by omega)⟩

/-- a reader over the file after its header, on the slice back-end (`sl = true`) or on a `BufRead`
    (`sl = false`: refills follow `sched`, then `lastChunk` for ever; `maxAlloc` is the allocation
    cap) -/
def openSrc (sl : Bool) (sync bytes : Bytes) (sched : List Nat) (lastChunk maxAlloc : Nat) : Reader :=
  { sync := sync,
    outer := { isSlice := sl, rest := bytes, sched := sched, lastChunk := lastChunk,
               maxAlloc := maxAlloc } }

/-- the reader back-end -/
abbrev openReader (sync bytes : Bytes) (sched : List Nat) (lastChunk maxAlloc : Nat) : Reader :=
  openSrc false sync bytes sched lastChunk maxAlloc

/-- the slice back-end (as `openSlice` of `Theorems/C17.lean`) -/
def openSlice (sync bytes : Bytes) : Reader := { sync := sync, outer := { rest := bytes } }

theorem openSlice_eq (sync bytes : Bytes) :
    openSlice sync bytes = openSrc true sync bytes [] 1 536870912 := rfl

theorem kOk_open (sync bytes : Bytes) (sched : List Nat) (lastChunk M : Nat)
    (hM : sl = false → bytes.length ≤ M) :
    KOk sl M (openSrc sl sync bytes sched lastChunk M).outer :=
  ⟨rfl, rfl, Nat.zero_le _, fun _ => rfl, fun _ => rfl, hM⟩

theorem cutInv_open (Q : V → Prop) (sync : Bytes) (blocks : List (List V))
    (hbs : ∀ b ∈ blocks, BlockOk enc b) (hq : ∀ v ∈ blocks.flatten, Q v) (m : Nat)
    (sched : List Nat) (lastChunk M : Nat)
    (hM : sl = false → ((fileBody enc sync blocks).take m).length ≤ M) :
    CutInv enc sl Q M sync (openSrc sl sync ((fileBody enc sync blocks).take m) sched lastChunk M)
      blocks.flatten :=
  ⟨[], blocks, rfl, hbs, hq, Or.inr ⟨rfl, rfl, rfl, kOk_open sl _ _ _ _ _ hM, ⟨m, rfl⟩⟩⟩

/-! #### The whole file, either back-end -/

/-- between blocks, the blocks `bs` still to be read (uncut) -/
structure FStart (M : Nat) (sync : Bytes) (r : Reader) (bs : List (List V)) : Prop where
  st : r.st = .notInBlock
  peof : r.pretendEof = false
  hsync : r.sync = sync
  outer : KOk sl M r.outer
  orest : r.outer.rest = fileBody enc sync bs

/-- in a block, `vals` still to be read, then the blocks `bs` (uncut) -/
structure FPos (M : Nat) (sync : Bytes) (r : Reader) (vals : List V) (bs : List (List V)) : Prop where
  st : r.st = .inBlock vals.length
  peof : r.pretendEof = false
  hsync : r.sync = sync
  oback : r.outer.isSlice = sl
  olimit : r.outer.limit = none
  oalloc : sl = false → r.outer.maxAlloc = M
  blk : KOk sl M r.blk
  brest : r.blk.rest = blockData enc vals
  lim : r.blkLimit = (blockData enc vals).length
  after : r.after = sync ++ fileBody enc sync bs
  alen : sl = false → r.after.length ≤ M
  inv : r.after.length ≤ r.outer.rest.length

theorem leaveBlock_valid {d : Decomp} {M : Nat} {sync : Bytes} {r : Reader}
    {bs : List (List V)} (hn : d.isNull = true) (hsy : sync.length = 16)
    (hp : FPos enc sl M sync r [] bs) :
    ∃ rn, leaveBlock d r = (.ok (), rn) ∧ FStart enc sl M sync rn bs ∧
      rn.outer.rest.length ≤ r.after.length := by
  have hlo : leftover d r = false := by
    cases sl <;> simp [leftover, hn, hp.oback, hp.lim, hp.brest, blockData]
  have hbo := leaveOuter_ok sl hn hp.oback hp.olimit hp.oalloc hp.blk hp.alen
  have h16 : 16 ≤ (leaveOuter d r).rest.length := by
    rw [leaveOuter_rest, hp.after]; simp; omega
  obtain ⟨s', hs', hk', hrest⟩ := (hbo.exact 16).1 h16
  have ht : (leaveOuter d r).rest.take 16 = r.sync := by
    rw [leaveOuter_rest, hp.after, hp.hsync, ← hsy, List.take_left' rfl]
  have hdrop : s'.rest = fileBody enc sync bs := by
    rw [hrest, leaveOuter_rest, hp.after, ← hsy, List.drop_left' rfl]
  rw [leaveBlock_eq, hlo, hs']
  simp only [ht, ne_eq, not_true_eq_false, if_false, Bool.false_eq_true]
  refine ⟨_, rfl, ⟨rfl, hp.peof, hp.hsync, hk', hdrop⟩, ?_⟩
  show s'.rest.length ≤ _
  rw [hrest, leaveOuter_rest, List.length_drop]; omega

theorem enterBlock_valid {d : Decomp} {M : Nat} {sync : Bytes} {r : Reader} {b : List V}
    {bs : List (List V)} (hn : d.isNull = true) (hb : BlockOk enc b)
    (hp : FStart enc sl M sync r (b :: bs)) :
    ∃ r2, enterBlock d r = (.ok (), r2) ∧ FPos enc sl M sync r2 b bs ∧
      r2.after.length ≤ r.outer.rest.length := by
  obtain ⟨hst, hpe, hsy, hbo, hor⟩ := hp
  rw [fileBody_cons] at hor
  obtain ⟨o1, e1, hb1, hr1⟩ := readVarint_encode_k hbo hb.1 hor
  obtain ⟨o2, e2, hb2, hr2⟩ := readVarint_encode_k hb1 hb.2 hr1
  rw [enterBlock_eq, e1]
  simp only [show ¬ ((b.length : Int) < 0) by omega, if_false]
  rw [e2]
  simp only [show ¬ (((blockData enc b).length : Int) < 0) by omega, if_false, Int.toNat_natCast]
  unfold enterTail
  have hsz : ¬ (o2.isSlice = true ∧ (blockData enc b).length > o2.rest.length) := by
    rw [hr2]; simp only [List.length_append]; omega
  simp only [hn, if_true, hsz, if_false]
  have hav := hb2.avail
  rw [hr2] at hav
  simp only [List.length_append] at hav
  refine ⟨_, rfl, ⟨rfl, hpe, hsy, hb2.back, hb2.limit, hb2.alloc,
      ⟨by exact hb2.back, by exact hb2.limit, ?_, ?_, by exact hb2.alloc, ?_⟩, ?_, rfl, ?_, ?_, ?_⟩, ?_⟩
  · simp only [hr2, List.take_left' rfl]; omega
  · intro hs; simp only [hb2.avail0 hs]; omega
  · intro hs; have hlen := hb2.len hs; rw [hr2] at hlen; simp only [List.length_append] at hlen
    simp only [hr2, List.take_left' rfl]; omega
  · simp only [hr2, List.take_left' rfl]
  · simp only [hr2, List.drop_left' rfl]
  · intro hs; have hlen := hb2.len hs; rw [hr2] at hlen; simp only [List.length_append] at hlen
    simp only [hr2, List.drop_left' rfl, List.length_append]; omega
  · simp only [hr2, List.drop_left' rfl, List.length_append]; omega
  · simp only [hr2, List.drop_left' rfl, hor, List.length_append]; omega

theorem nextInner_fpos_cons {d : Decomp} {Q : V → Prop} {M : Nat} {sync : Bytes} {proj : α → β} {tgt : V → β}
    {datum : RState → Except DeErr α × RState} {r : Reader} {v : V} {vs : List V}
    {bs : List (List V)} (hd : DatumCutOk enc Q (KOk sl M) proj tgt datum)
    (hq : Q v) (hp : FPos enc sl M sync r (v :: vs) bs) (F : Nat) :
    ∃ a r1, nextInner d datum (F + 1) r = (.ok (some a), r1) ∧ proj a = tgt v ∧
      FPos enc sl M sync r1 vs bs := by
  obtain ⟨h1, h2, h3, h4, h4a, h4b, h5, h6, h7, h8, h9, h10⟩ := hp
  rw [blockData_cons] at h6 h7
  obtain ⟨a, s', hs', hav, hr', hb'⟩ :=
    (hd r.blk v (blockData enc vs) (enc v ++ blockData enc vs).length hq h5
      (by rw [h6, List.take_of_length_le (Nat.le_refl _)])).1 (by simp)
  have hr'' : s'.rest = blockData enc vs := by
    rw [hr', List.take_of_length_le (by simp)]
  rw [nextInner_succ]
  simp only [h1, List.length_cons, hs']
  refine ⟨a, _, rfl, hav, rfl, h2, h3, h4, h4a, h4b, hb', hr'', ?_, h8, h9, h10⟩
  show r.blkLimit - (r.blk.rest.length - s'.rest.length) = _
  rw [h7, h6, hr'']; simp

theorem nextInner_fpos_nil {d : Decomp} {M : Nat} (datum : RState → Except DeErr α × RState)
    {sync : Bytes} {r : Reader} {bs : List (List V)}
    (hn : d.isNull = true) (hsy : sync.length = 16) (hp : FPos enc sl M sync r [] bs) :
    ∃ rn, FStart enc sl M sync rn bs ∧ rn.outer.rest.length ≤ r.after.length ∧
      ∀ F, nextInner d datum (F + 1) r = nextInner d datum F rn := by
  obtain ⟨rn, hl, hs, hlen⟩ := leaveBlock_valid enc sl hn hsy hp
  refine ⟨rn, hs, hlen, fun F => ?_⟩
  rw [nextInner_succ]
  simp only [hp.st, List.length_nil, hl]

theorem nextInner_fstart_nil {d : Decomp} {M : Nat} (datum : RState → Except DeErr α × RState)
    {sync : Bytes} {r : Reader} (hp : FStart enc sl M sync r []) (F : Nat) :
    ∃ r1, nextInner d datum (F + 1) r = (.ok none, r1) := by
  rw [nextInner_succ]
  simp only [hp.st]
  generalize hf : fillBuf r.outer = x
  obtain ⟨res, o⟩ := x
  cases res with
  | error e => exact absurd hf (fillBuf_never_err _ _ _)
  | ok buf =>
    obtain ⟨_, _, hnil, _⟩ := hp.outer.fill hf
    rw [hnil (by rw [hp.orest]; simp [fileBody])]
    exact ⟨_, rfl⟩

theorem nextInner_fstart_cons {d : Decomp} {M : Nat} (datum : RState → Except DeErr α × RState)
    {sync : Bytes} {r : Reader} {b : List V} {bs : List (List V)}
    (hn : d.isNull = true) (hb : BlockOk enc b) (hp : FStart enc sl M sync r (b :: bs)) :
    ∃ r2, FPos enc sl M sync r2 b bs ∧ r2.after.length ≤ r.outer.rest.length ∧
      ∀ F, nextInner d datum (F + 1) r = nextInner d datum F r2 := by
  obtain ⟨st, pe, sy, outer, blk, after, lim⟩ := r
  have hst := hp.st
  simp only at hst
  subst hst
  generalize hf : fillBuf outer = x
  obtain ⟨res, o⟩ := x
  cases res with
  | error e => exact absurd hf (fillBuf_never_err _ _ _)
  | ok buf =>
    obtain ⟨hbo, hro, _, hne⟩ := hp.outer.fill hf
    have hbne : buf.isEmpty = false := by
      have : buf ≠ [] := hne (by
        rw [hp.orest, fileBody_cons]
        have := encodeVarI64_ne_nil (b.length : Int)
        cases hx : encodeVarI64 (b.length : Int) with
        | nil => exact absurd hx this
        | cons x xs => simp)
      cases buf with
      | nil => exact absurd rfl this
      | cons => rfl
    have hp1 : FStart enc sl M sync (Reader.mk .notInBlock pe sy o blk after lim) (b :: bs) :=
      ⟨rfl, hp.peof, hp.hsync, hbo, by rw [← hp.orest]; exact hro⟩
    obtain ⟨r2, he, hp2, hlen⟩ := enterBlock_valid enc sl hn hb hp1
    refine ⟨r2, hp2, by rw [← hro]; exact hlen, fun F => ?_⟩
    rw [nextInner_succ]
    simp only [hf, hbne, Bool.false_eq_true, if_false, he]

theorem mu_fpos {M : Nat} {sync : Bytes} {r : Reader} {vals : List V} {bs : List (List V)}
    (hp : FPos enc sl M sync r vals bs) : mu r = r.after.length := by
  simp [mu, hp.st]

theorem next_fpos_cons {d : Decomp} {Q : V → Prop} {M : Nat} {sync : Bytes} {proj : α → β} {tgt : V → β}
    {datum : RState → Except DeErr α × RState} {r : Reader} {v : V} {vs : List V}
    {bs : List (List V)} (hd : DatumCutOk enc Q (KOk sl M) proj tgt datum)
    (hq : Q v) (hp : FPos enc sl M sync r (v :: vs) bs) :
    ∃ a r1, next d datum r = (.ok (some a), r1) ∧ proj a = tgt v ∧ FPos enc sl M sync r1 vs bs := by
  obtain ⟨a, r1, h1, hav, hp1⟩ := nextInner_fpos_cons enc sl (d := d) hd hq hp (r.outer.rest.length + 3)
  exact ⟨a, r1, by rw [next_eq_post d datum r hp.peof, h1]; rfl, hav, hp1⟩

theorem next_fpos_nil_nil {d : Decomp} {M : Nat} (datum : RState → Except DeErr α × RState)
    {sync : Bytes} {r : Reader} (hn : d.isNull = true) (hsy : sync.length = 16)
    (hp : FPos enc sl M sync r [] []) : ∃ r1, next d datum r = (.ok none, r1) := by
  obtain ⟨rn, hs, _, hstep⟩ := nextInner_fpos_nil enc sl datum hn hsy hp
  obtain ⟨r1, h1⟩ := nextInner_fstart_nil enc sl (d := d) datum hs (r.outer.rest.length + 2)
  refine ⟨r1, ?_⟩
  rw [next_eq_post d datum r hp.peof, hstep (r.outer.rest.length + 3), h1]
  rfl

theorem next_fpos_nil_cons {d : Decomp} {M : Nat} (datum : RState → Except DeErr α × RState)
    {sync : Bytes} {r : Reader} {b : List V} {bs : List (List V)} (hn : d.isNull = true)
    (hsy : sync.length = 16) (hb : BlockOk enc b) (hp : FPos enc sl M sync r [] (b :: bs)) :
    ∃ r2, FPos enc sl M sync r2 b bs ∧ next d datum r = next d datum r2 := by
  obtain ⟨rn, hs, hl1, hstep1⟩ := nextInner_fpos_nil enc sl datum hn hsy hp
  obtain ⟨r2, hp2, hl2, hstep2⟩ := nextInner_fstart_cons enc sl datum hn hb hs
  refine ⟨r2, hp2, ?_⟩
  rw [next_eq_post d datum r hp.peof, next_eq_post d datum r2 hp2.peof,
    hstep1 (r.outer.rest.length + 3), hstep2 (r.outer.rest.length + 2)]
  have hm := mu_fpos enc sl hp2
  have h1 := hp.inv
  have h2 := hp2.inv
  rw [nextInner_fuel d datum (r.outer.rest.length + 2) (r2.outer.rest.length + 4) r2
    (by omega) (by omega)]

theorem next_fstart_nil {d : Decomp} {M : Nat} (datum : RState → Except DeErr α × RState)
    {sync : Bytes} {r : Reader} (hp : FStart enc sl M sync r []) :
    ∃ r1, next d datum r = (.ok none, r1) := by
  obtain ⟨r1, h1⟩ := nextInner_fstart_nil enc sl (d := d) datum hp (r.outer.rest.length + 3)
  exact ⟨r1, by rw [next_eq_post d datum r hp.peof, h1]; rfl⟩

theorem next_fstart_cons {d : Decomp} {M : Nat} (datum : RState → Except DeErr α × RState)
    {sync : Bytes} {r : Reader} {b : List V} {bs : List (List V)} (hn : d.isNull = true)
    (hb : BlockOk enc b) (hp : FStart enc sl M sync r (b :: bs)) :
    ∃ r2, FPos enc sl M sync r2 b bs ∧ next d datum r = next d datum r2 := by
  obtain ⟨r2, hp2, hl2, hstep2⟩ := nextInner_fstart_cons enc sl datum hn hb hp
  refine ⟨r2, hp2, ?_⟩
  rw [next_eq_post d datum r hp.peof, next_eq_post d datum r2 hp2.peof,
    hstep2 (r.outer.rest.length + 3)]
  have hm := mu_fpos enc sl hp2
  have h2 := hp2.inv
  rw [nextInner_fuel d datum (r.outer.rest.length + 3) (r2.outer.rest.length + 4) r2
    (by omega) (by omega)]

theorem readAll_congr {d : Decomp} {datum : RState → Except DeErr α × RState} {r r2 : Reader}
    (h : next d datum r = next d datum r2) (k : Nat) :
    readAll d datum (k + 1) r = readAll d datum (k + 1) r2 := by
  simp only [readAll, h]

theorem readAll_succ_some {d : Decomp} {datum : RState → Except DeErr α × RState} {r r' : Reader}
    {a : α} (h : next d datum r = (.ok (some a), r')) (k : Nat) :
    readAll d datum (k + 1) r = (a :: (readAll d datum k r').1, (readAll d datum k r').2) := by
  simp only [readAll, h]

/-- reading a valid sequence of blocks from inside a block yields exactly the values -/
theorem readAll_fpos {d : Decomp} {Q : V → Prop} {M : Nat} {sync : Bytes} {proj : α → β} {tgt : V → β}
    {datum : RState → Except DeErr α × RState}
    (hn : d.isNull = true) (hsy : sync.length = 16) (hd : DatumCutOk enc Q (KOk sl M) proj tgt datum) :
    ∀ (bs : List (List V)), (∀ b ∈ bs, BlockOk enc b) → ∀ (vals : List V) (r : Reader),
      (∀ v ∈ vals ++ bs.flatten, Q v) → FPos enc sl M sync r vals bs →
      (readAll d datum (vals.length + bs.flatten.length + 1) r).1.map proj
          = (vals ++ bs.flatten).map tgt ∧
      (readAll d datum (vals.length + bs.flatten.length + 1) r).2 = .eos := by
  intro bs
  induction bs with
  | nil =>
    intro _ vals
    induction vals with
    | nil =>
      intro r hq hp
      obtain ⟨r1, h1⟩ := next_fpos_nil_nil enc sl datum hn hsy hp
      simp [readAll, h1]
    | cons v vs ihv =>
      intro r hq hp
      obtain ⟨a, r1, h1, hav, hp1⟩ := next_fpos_cons enc sl (d := d) hd (hq v (by simp)) hp
      have := ihv r1 (fun w hw => hq w (by simp only [List.cons_append, List.mem_cons]; exact Or.inr hw)) hp1
      simp only [List.flatten_nil, List.length_nil, Nat.add_zero, List.append_nil] at this ⊢
      rw [List.length_cons, readAll_succ_some h1]
      simp only [List.map_cons, hav, this.1, this.2, and_self]
  | cons b bs ihb =>
    intro hbs vals
    have hb : BlockOk enc b := hbs b (by simp)
    have hbs' : ∀ b' ∈ bs, BlockOk enc b' := fun b' hb' => hbs b' (by simp [hb'])
    induction vals with
    | nil =>
      intro r hq hp
      obtain ⟨r2, hp2, heq⟩ := next_fpos_nil_cons enc sl datum hn hsy hb hp
      have := ihb hbs' b r2 (by simpa using hq) hp2
      rw [readAll_congr heq]
      simpa [Nat.add_assoc] using this
    | cons v vs ihv =>
      intro r hq hp
      obtain ⟨a, r1, h1, hav, hp1⟩ := next_fpos_cons enc sl (d := d) hd (hq v (by simp)) hp
      have := ihv r1 (fun w hw => hq w (by simp only [List.cons_append, List.mem_cons]; exact Or.inr hw)) hp1
      have e : (v :: vs).length + (b :: bs).flatten.length + 1
          = (vs.length + (b :: bs).flatten.length + 1) + 1 := by simp; omega
      rw [e, readAll_succ_some h1]
      simp only [List.cons_append, List.map_cons, hav, this.1, this.2, and_self]

/-- **Round trip on the whole file**, null codec, reader back-end, any chunk schedule. -/
theorem readAll_valid {d : Decomp} {Q : V → Prop} {M : Nat} {sync : Bytes} {proj : α → β} {tgt : V → β}
    {datum : RState → Except DeErr α × RState}
    (hn : d.isNull = true) (hsy : sync.length = 16) (hd : DatumCutOk enc Q (KOk sl M) proj tgt datum)
    (bs : List (List V)) (hbs : ∀ b ∈ bs, BlockOk enc b) (r : Reader)
    (hq : ∀ v ∈ bs.flatten, Q v) (hp : FStart enc sl M sync r bs) :
    (readAll d datum (bs.flatten.length + 1) r).1.map proj = bs.flatten.map tgt ∧
    (readAll d datum (bs.flatten.length + 1) r).2 = .eos := by
  cases bs with
  | nil =>
    obtain ⟨r1, h1⟩ := next_fstart_nil enc sl (d := d) datum hp
    simp [readAll, h1]
  | cons b bs =>
    have hb : BlockOk enc b := hbs b (by simp)
    have hbs' : ∀ b' ∈ bs, BlockOk enc b' := fun b' hb' => hbs b' (by simp [hb'])
    obtain ⟨r2, hp2, heq⟩ := next_fstart_cons enc sl datum hn hb hp
    rw [readAll_congr heq]
    have := readAll_fpos enc sl hn hsy hd bs hbs' b r2 (by simpa using hq) hp2
    simpa [Nat.add_assoc] using this

end Cut

end Avro.Theorems.Stream

