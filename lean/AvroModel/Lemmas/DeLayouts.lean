import AvroModel.Lemmas.DeAccepts
import AvroModel.Lemmas.Reader
/-
C03, all layouts: the deserializer model against the specification decoder `Spec.decode`.

`decodeL L` is `Spec.decode` with three knobs (`Limits`):
  * `maxVarint`       longest varint accepted, in bytes (`none`: unbounded, the specification);
  * `maxDecimal`      longest two's-complement decimal accepted (`none`: unbounded);
  * `checkBlockSize`  whether the byte size that follows a negative block count must be `≥ 0`.
`decodeL Limits.spec = Spec.decode` (`decodeL_spec`), `decodeL` is monotone in the limits and in the
fuel (`decodeL_mono`), and `Limits.impl` (10-byte varints, 16-byte decimals, block byte size
checked to be non-negative since the repair of `read_block_len`) is exactly what the deserializer
accepts (sections 4 and 5).
-/
namespace Avro.Spec
open Avro Avro.Impl

/-! ### 1. The specification decoder with explicit limits -/

structure Limits where
  maxVarint : Option Nat := none
  maxDecimal : Option Nat := none
  checkBlockSize : Bool := true
  deriving Repr, DecidableEq

/-- the specification: no limit, the block byte size must be a non-negative long -/
def Limits.spec : Limits := {}
/-- what `serde_avro_fast` implements (`checkBlockSize` was `false` before `read_block_len` was
    repaired to reject a negative byte size) -/
def Limits.impl : Limits := { maxVarint := some 10, maxDecimal := some 16, checkBlockSize := true }
/-- the implementation's numeric limits, with the specification's check of the block byte size -/
def Limits.implStrict : Limits := { maxVarint := some 10, maxDecimal := some 16, checkBlockSize := true }
/-- the specification without the sign check of the block byte size -/
def Limits.specLax : Limits := { checkBlockSize := false }

def fitsOpt (m : Option Nat) (k : Nat) : Bool :=
  match m with
  | none => true
  | some w => decide (k ≤ w)

structure Limits.le (L L' : Limits) : Prop where
  var : ∀ k, fitsOpt L.maxVarint k = true → fitsOpt L'.maxVarint k = true
  dec : ∀ k, fitsOpt L.maxDecimal k = true → fitsOpt L'.maxDecimal k = true
  size : L'.checkBlockSize = true → L.checkBlockSize = true

theorem Limits.le_refl (L : Limits) : L.le L := ⟨fun _ h => h, fun _ h => h, fun h => h⟩

theorem Limits.impl_le_specLax : Limits.impl.le Limits.specLax :=
  ⟨fun _ _ => rfl, fun _ _ => rfl, fun h => by cases h⟩
theorem Limits.spec_le_specLax : Limits.spec.le Limits.specLax :=
  ⟨fun _ _ => rfl, fun _ _ => rfl, fun h => by cases h⟩
theorem Limits.implStrict_le_spec : Limits.implStrict.le Limits.spec :=
  ⟨fun _ _ => rfl, fun _ _ => rfl, fun _ => rfl⟩
theorem Limits.implStrict_le_impl : Limits.implStrict.le Limits.impl :=
  ⟨fun _ h => h, fun _ h => h, fun _ => rfl⟩
/-- since the repair of `read_block_len` (a negative byte size is rejected) the implementation's
    limits are the strict ones -/
theorem Limits.impl_eq_implStrict : Limits.impl = Limits.implStrict := rfl
theorem Limits.impl_le_spec : Limits.impl.le Limits.spec :=
  ⟨fun _ _ => rfl, fun _ _ => rfl, fun _ => rfl⟩

def decodeLongL (L : Limits) (bs : Bytes) : Option (Int × Bytes) :=
  match decodeLong bs with
  | some (i, rest) => if fitsOpt L.maxVarint (bs.length - rest.length) then some (i, rest) else none
  | none => none

def decodeLenL (L : Limits) (bs : Bytes) : Option (Nat × Bytes) :=
  match decodeLongL L bs with
  | some (i, rest) => if 0 ≤ i then some (i.toNat, rest) else none
  | none => none

def decodeBytesL (L : Limits) (bs : Bytes) : Option (Bytes × Bytes) :=
  match decodeLenL L bs with
  | some (n, rest) => takeN n rest
  | none => none

def decodeStringL (L : Limits) (bs : Bytes) : Option (String × Bytes) :=
  match decodeBytesL L bs with
  | some (b, rest) =>
    match String.fromUTF8? (ByteArray.mk b.toArray) with
    | some s => some (s, rest)
    | none => none
  | none => none

def decodeBlockHeaderL (L : Limits) (bs : Bytes) : Option (Nat × Bytes) :=
  match decodeLongL L bs with
  | none => none
  | some (c, rest) =>
    if c ≥ 0 then some (c.toNat, rest)
    else match decodeLongL L rest with
      | none => none
      | some (size, rest') =>
        if size ≥ 0 ∨ L.checkBlockSize = false then some ((-c).toNat, rest') else none

mutual

def decodeL (L : Limits) (S : Schema) : Nat → Node → Bytes → Option (Value × Bytes)
  | 0, _, _ => none
  | fuel + 1, n, bs =>
    match n with
    | .null => some (.null, bs)
    | .boolean =>
      match bs with
      | b :: rest => if b = 0 then some (.bool false, rest) else if b = 1 then some (.bool true, rest) else none
      | [] => none
    | .int | .date | .timeMillis =>
      match decodeLongL L bs with
      | some (i, rest) => if InI32 i then some (.int i, rest) else none
      | none => none
    | .long | .timeMicros | .timestampMillis | .timestampMicros =>
      match decodeLongL L bs with
      | some (i, rest) => some (.long i, rest)
      | none => none
    | .float => (takeN 4 bs).map fun (b, rest) => (.float (BitVec.ofNat 32 (leToNat b)), rest)
    | .double => (takeN 8 bs).map fun (b, rest) => (.double (BitVec.ofNat 64 (leToNat b)), rest)
    | .bytes => (decodeBytesL L bs).map fun (b, rest) => (.bytes b, rest)
    | .string | .uuid => (decodeStringL L bs).map fun (s, rest) => (.string s, rest)
    | .array k =>
      match nodeOf S k with
      | none => none
      | some item => (decodeBlocksL L S fuel item bs).map fun (vs, rest) => (.array vs, rest)
    | .map k =>
      match nodeOf S k with
      | none => none
      | some item => (decodeMapBlocksL L S fuel item bs).map fun (vs, rest) => (.map vs, rest)
    | .union vs =>
      match decodeLenL L bs with
      | none => none
      | some (idx, rest) =>
        match vs[idx]? with
        | none => none
        | some k =>
          match nodeOf S k with
          | none => none
          | some branch => (decodeL L S fuel branch rest).map fun (v, rest') => (.union idx v, rest')
    | .record _ fields =>
      (decodeFieldsL L S fuel (fields.map (·.2)) bs).map fun (vs, rest) => (.record vs, rest)
    | .enum _ syms =>
      match decodeLenL L bs with
      | some (idx, rest) => if idx < syms.length then some (.enum idx, rest) else none
      | none => none
    | .fixed _ size => (takeN size bs).map fun (b, rest) => (.fixed b, rest)
    | .decimal _ _ .bytes =>
      match decodeBytesL L bs with
      | some (b, rest) =>
        if fitsOpt L.maxDecimal b.length then some (.decimal (fromTwosComplementBE b), rest) else none
      | none => none
    | .decimal _ _ (.fixed _ size) =>
      if fitsOpt L.maxDecimal size then
        (takeN size bs).map fun (b, rest) => (.decimal (fromTwosComplementBE b), rest)
      else none
    | .bigDecimal =>
      match decodeBytesL L bs with
      | none => none
      | some (inner, rest) =>
        match decodeBytesL L inner with
        | none => none
        | some (m, inner') =>
          if fitsOpt L.maxDecimal m.length then
            match decodeLenL L inner' with
            | some (scale, []) => some (.bigDecimal (fromTwosComplementBE m) scale, rest)
            | _ => none
          else none
    | .duration =>
      (takeN 12 bs).map fun (b, rest) =>
        (.duration (leToNat (b.take 4)) (leToNat ((b.drop 4).take 4)) (leToNat (b.drop 8)), rest)

def decodeBlocksL (L : Limits) (S : Schema) : Nat → Node → Bytes → Option (List Value × Bytes)
  | 0, _, _ => none
  | fuel + 1, item, bs =>
    match decodeBlockHeaderL L bs with
    | none => none
    | some (0, rest) => some ([], rest)
    | some (c, rest) =>
      match decodeItemsL L S fuel item c rest with
      | none => none
      | some (vs, rest') =>
        match decodeBlocksL L S fuel item rest' with
        | none => none
        | some (more, rest'') => some (vs ++ more, rest'')

def decodeItemsL (L : Limits) (S : Schema) : Nat → Node → Nat → Bytes → Option (List Value × Bytes)
  | _, _, 0, bs => some ([], bs)
  | 0, _, _ + 1, _ => none
  | fuel + 1, item, c + 1, bs =>
    match decodeL L S fuel item bs with
    | none => none
    | some (v, rest) =>
      match decodeItemsL L S fuel item c rest with
      | none => none
      | some (vs, rest') => some (v :: vs, rest')

def decodeMapBlocksL (L : Limits) (S : Schema) : Nat → Node → Bytes → Option (List (String × Value) × Bytes)
  | 0, _, _ => none
  | fuel + 1, item, bs =>
    match decodeBlockHeaderL L bs with
    | none => none
    | some (0, rest) => some ([], rest)
    | some (c, rest) =>
      match decodeMapItemsL L S fuel item c rest with
      | none => none
      | some (vs, rest') =>
        match decodeMapBlocksL L S fuel item rest' with
        | none => none
        | some (more, rest'') => some (vs ++ more, rest'')

def decodeMapItemsL (L : Limits) (S : Schema) : Nat → Node → Nat → Bytes → Option (List (String × Value) × Bytes)
  | _, _, 0, bs => some ([], bs)
  | 0, _, _ + 1, _ => none
  | fuel + 1, item, c + 1, bs =>
    match decodeStringL L bs with
    | none => none
    | some (k, rest) =>
      match decodeL L S fuel item rest with
      | none => none
      | some (v, rest') =>
        match decodeMapItemsL L S fuel item c rest' with
        | none => none
        | some (vs, rest'') => some ((k, v) :: vs, rest'')

def decodeFieldsL (L : Limits) (S : Schema) : Nat → List Nat → Bytes → Option (List Value × Bytes)
  | _, [], bs => some ([], bs)
  | 0, _ :: _, _ => none
  | fuel + 1, k :: ks, bs =>
    match nodeOf S k with
    | none => none
    | some n =>
      match decodeL L S fuel n bs with
      | none => none
      | some (v, rest) =>
        match decodeFieldsL L S fuel ks rest with
        | none => none
        | some (vs, rest') => some (v :: vs, rest')

end

/-! ### 2. `decodeL Limits.spec` is `Spec.decode` -/

@[simp] theorem fitsOpt_none (k : Nat) : fitsOpt none k = true := rfl

theorem decodeLongL_spec (bs : Bytes) (L : Limits) (h : L.maxVarint = none) :
    decodeLongL L bs = decodeLong bs := by
  unfold decodeLongL
  rw [h]
  cases decodeLong bs with
  | none => rfl
  | some p => rfl

theorem decodeLenL_spec (bs : Bytes) (L : Limits) (h : L.maxVarint = none) :
    decodeLenL L bs = decodeLen bs := by
  unfold decodeLenL decodeLen; rw [decodeLongL_spec bs L h]
  rcases decodeLong bs with _ | ⟨i, rest⟩ <;> rfl

theorem decodeBytesL_spec (bs : Bytes) (L : Limits) (h : L.maxVarint = none) :
    decodeBytesL L bs = decodeBytes bs := by
  unfold decodeBytesL decodeBytes; rw [decodeLenL_spec bs L h]
  rcases decodeLen bs with _ | ⟨i, rest⟩ <;> rfl

theorem decodeStringL_spec (bs : Bytes) (L : Limits) (h : L.maxVarint = none) :
    decodeStringL L bs = decodeString bs := by
  unfold decodeStringL decodeString; rw [decodeBytesL_spec bs L h]
  rcases decodeBytes bs with _ | ⟨b, rest⟩
  · rfl
  · simp only
    rcases String.fromUTF8? (ByteArray.mk b.toArray) with _ | s <;> rfl

theorem decodeBlockHeaderL_spec (bs : Bytes) (L : Limits) (h : L.maxVarint = none)
    (hc : L.checkBlockSize = true) : decodeBlockHeaderL L bs = decodeBlockHeader bs := by
  unfold decodeBlockHeaderL decodeBlockHeader
  rw [decodeLongL_spec bs L h]
  rcases decodeLong bs with _ | ⟨c, rest⟩
  · rfl
  · simp only [decodeLongL_spec rest L h]
    split
    · rfl
    · rcases decodeLong rest with _ | ⟨sz, rest'⟩
      · rfl
      · simp [hc]

/-- both sides are the same cascade of matches, compiled in two different definitions -/
macro "match_eq" : tactic => `(tactic| repeat (first | rfl | split))

structure SpecEq (S : Schema) (fuel : Nat) : Prop where
  dec : ∀ n bs, decodeL Limits.spec S fuel n bs = decode S fuel n bs
  blocks : ∀ item bs, decodeBlocksL Limits.spec S fuel item bs = decodeBlocks S fuel item bs
  items : ∀ item c bs, decodeItemsL Limits.spec S fuel item c bs = decodeItems S fuel item c bs
  mblocks : ∀ item bs, decodeMapBlocksL Limits.spec S fuel item bs = decodeMapBlocks S fuel item bs
  mitems : ∀ item c bs, decodeMapItemsL Limits.spec S fuel item c bs = decodeMapItems S fuel item c bs
  fields : ∀ ks bs, decodeFieldsL Limits.spec S fuel ks bs = decodeFields S fuel ks bs

theorem specEq (S : Schema) : ∀ fuel, SpecEq S fuel := by
  intro fuel
  induction fuel with
  | zero =>
    refine ⟨fun _ _ => rfl, fun _ _ => rfl, ?_, fun _ _ => rfl, ?_, ?_⟩
    · intro item c bs; cases c <;> rfl
    · intro item c bs; cases c <;> rfl
    · intro ks bs; cases ks <;> rfl
  | succ fuel ih =>
    have hv : Limits.spec.maxVarint = none := rfl
    have hd : Limits.spec.maxDecimal = none := rfl
    refine ⟨?_, ?_, ?_, ?_, ?_, ?_⟩
    · intro n bs
      cases n with
      | decimal sc pr repr =>
        cases repr with
        | bytes =>
          simp only [decodeL, decode, decodeBytesL_spec _ _ hv, hd, fitsOpt_none, if_true]
          rcases decodeBytes bs with _ | ⟨b, rest⟩ <;> rfl
        | fixed nm size =>
          simp only [decodeL, decode, hd, fitsOpt_none, if_true]
      | bigDecimal =>
        simp only [decodeL, decode, decodeBytesL_spec _ _ hv, decodeLenL_spec _ _ hv, hd,
          fitsOpt_none, if_true]
        match_eq
      | _ =>
        simp only [decodeL, decode, decodeLongL_spec _ _ hv, decodeLenL_spec _ _ hv,
          decodeBytesL_spec _ _ hv, decodeStringL_spec _ _ hv, ih.dec, ih.blocks, ih.mblocks,
          ih.fields]
        try match_eq
    · intro item bs
      simp only [decodeBlocksL, decodeBlocks, decodeBlockHeaderL_spec _ _ hv rfl, ih.items, ih.blocks]
      match_eq
    · intro item c bs
      cases c with
      | zero => rfl
      | succ c => simp only [decodeItemsL, decodeItems, ih.dec, ih.items]; match_eq
    · intro item bs
      simp only [decodeMapBlocksL, decodeMapBlocks, decodeBlockHeaderL_spec _ _ hv rfl, ih.mitems,
        ih.mblocks]
      match_eq
    · intro item c bs
      cases c with
      | zero => rfl
      | succ c =>
        simp only [decodeMapItemsL, decodeMapItems, decodeStringL_spec _ _ hv, ih.dec, ih.mitems]
        match_eq
    · intro ks bs
      cases ks with
      | nil => rfl
      | cons k ks => simp only [decodeFieldsL, decodeFields, ih.dec, ih.fields]; match_eq

/-- the mirror is faithful: with the specification's limits it is `Spec.decode` -/
theorem decodeL_spec (S : Schema) (fuel : Nat) (n : Node) (bs : Bytes) :
    decodeL Limits.spec S fuel n bs = decode S fuel n bs := (specEq S fuel).dec n bs

/-! ### 3. Monotonicity in the limits and in the fuel -/

theorem decodeLongL_mono {L L' : Limits} (hle : L.le L') {bs : Bytes} {r : Int × Bytes}
    (h : decodeLongL L bs = some r) : decodeLongL L' bs = some r := by
  unfold decodeLongL at h ⊢
  rcases hd : decodeLong bs with _ | ⟨i, rest⟩
  · rw [hd] at h; cases h
  · rw [hd] at h
    simp only at h ⊢
    split at h
    · rename_i hf
      rw [if_pos (hle.var _ hf)]; exact h
    · cases h

theorem decodeLenL_mono {L L' : Limits} (hle : L.le L') {bs : Bytes} {r : Nat × Bytes}
    (h : decodeLenL L bs = some r) : decodeLenL L' bs = some r := by
  unfold decodeLenL at h ⊢
  split at h
  · rename_i i rest hd
    rw [decodeLongL_mono hle hd]; exact h
  · cases h

theorem decodeBytesL_mono {L L' : Limits} (hle : L.le L') {bs : Bytes} {r : Bytes × Bytes}
    (h : decodeBytesL L bs = some r) : decodeBytesL L' bs = some r := by
  unfold decodeBytesL at h ⊢
  split at h
  · rename_i i rest hd
    rw [decodeLenL_mono hle hd]; exact h
  · cases h

theorem decodeStringL_mono {L L' : Limits} (hle : L.le L') {bs : Bytes} {r : String × Bytes}
    (h : decodeStringL L bs = some r) : decodeStringL L' bs = some r := by
  unfold decodeStringL at h ⊢
  split at h
  · rename_i i rest hd
    rw [decodeBytesL_mono hle hd]; exact h
  · cases h

theorem decodeBlockHeaderL_mono {L L' : Limits} (hle : L.le L') {bs : Bytes} {r : Nat × Bytes}
    (h : decodeBlockHeaderL L bs = some r) : decodeBlockHeaderL L' bs = some r := by
  unfold decodeBlockHeaderL at h ⊢
  split at h
  · cases h
  · rename_i c rest hd
    rw [decodeLongL_mono hle hd]
    simp only
    split at h
    · rename_i hc
      rw [if_pos hc]; exact h
    · rename_i hc
      rw [if_neg hc]
      split at h
      · cases h
      · rename_i sz rest' hd2
        rw [decodeLongL_mono hle hd2]
        simp only
        split at h
        · rename_i hs
          have : sz ≥ 0 ∨ L'.checkBlockSize = false := by
            rcases hs with hs | hs
            · exact Or.inl hs
            · right
              cases hc' : L'.checkBlockSize with
              | false => rfl
              | true => rw [hle.size hc'] at hs; cases hs
          rw [if_pos this]; exact h
        · cases h

structure MonoAll (L L' : Limits) (S : Schema) (fuel : Nat) : Prop where
  dec : ∀ n bs r fuel', fuel ≤ fuel' → decodeL L S fuel n bs = some r →
    decodeL L' S fuel' n bs = some r
  blocks : ∀ item bs r fuel', fuel ≤ fuel' → decodeBlocksL L S fuel item bs = some r →
    decodeBlocksL L' S fuel' item bs = some r
  items : ∀ item c bs r fuel', fuel ≤ fuel' → decodeItemsL L S fuel item c bs = some r →
    decodeItemsL L' S fuel' item c bs = some r
  mblocks : ∀ item bs r fuel', fuel ≤ fuel' → decodeMapBlocksL L S fuel item bs = some r →
    decodeMapBlocksL L' S fuel' item bs = some r
  mitems : ∀ item c bs r fuel', fuel ≤ fuel' → decodeMapItemsL L S fuel item c bs = some r →
    decodeMapItemsL L' S fuel' item c bs = some r
  fields : ∀ ks bs r fuel', fuel ≤ fuel' → decodeFieldsL L S fuel ks bs = some r →
    decodeFieldsL L' S fuel' ks bs = some r

theorem monoAll {L L' : Limits} (hle : L.le L') (S : Schema) : ∀ fuel, MonoAll L L' S fuel := by
  intro fuel
  induction fuel with
  | zero =>
    refine ⟨?_, ?_, ?_, ?_, ?_, ?_⟩
    · intro n bs r f' _ h; simp [decodeL] at h
    · intro item bs r f' _ h; simp [decodeBlocksL] at h
    · intro item c bs r f' _ h
      cases c with
      | zero => cases f' <;> exact h
      | succ c => simp [decodeItemsL] at h
    · intro item bs r f' _ h; simp [decodeMapBlocksL] at h
    · intro item c bs r f' _ h
      cases c with
      | zero => cases f' <;> exact h
      | succ c => simp [decodeMapItemsL] at h
    · intro ks bs r f' _ h
      cases ks with
      | nil => cases f' <;> exact h
      | cons k ks => simp [decodeFieldsL] at h
  | succ fuel ih =>
    refine ⟨?_, ?_, ?_, ?_, ?_, ?_⟩
    · intro n bs r f' hf h
      obtain ⟨g, rfl, hg⟩ := exists_succ_of_le hf
      cases n with
      | null => exact h
      | boolean => exact h
      | float => exact h
      | double => exact h
      | fixed nm size => exact h
      | duration => exact h
      | int | date | timeMillis | long | timeMicros | timestampMillis | timestampMicros =>
        simp only [decodeL] at h ⊢
        split at h
        · rename_i i rest hd
          rw [decodeLongL_mono hle hd]; exact h
        · cases h
      | bytes =>
        simp only [decodeL, Option.map_eq_some_iff] at h ⊢
        obtain ⟨a, ha, rfl⟩ := h
        exact ⟨a, decodeBytesL_mono hle ha, rfl⟩
      | string | uuid =>
        simp only [decodeL, Option.map_eq_some_iff] at h ⊢
        obtain ⟨a, ha, rfl⟩ := h
        exact ⟨a, decodeStringL_mono hle ha, rfl⟩
      | array k =>
        simp only [decodeL] at h ⊢
        rcases hk : nodeOf S k with _ | item <;> rw [hk] at h
        · cases h
        · simp only [Option.map_eq_some_iff] at h ⊢
          obtain ⟨a, ha, rfl⟩ := h
          exact ⟨a, ih.blocks _ _ _ g hg ha, rfl⟩
      | map k =>
        simp only [decodeL] at h ⊢
        rcases hk : nodeOf S k with _ | item <;> rw [hk] at h
        · cases h
        · simp only [Option.map_eq_some_iff] at h ⊢
          obtain ⟨a, ha, rfl⟩ := h
          exact ⟨a, ih.mblocks _ _ _ g hg ha, rfl⟩
      | union vs =>
        simp only [decodeL] at h ⊢
        split at h
        · cases h
        · rename_i idx rest hd
          rw [decodeLenL_mono hle hd]
          simp only
          rcases hk : vs[idx]? with _ | k <;> rw [hk] at h
          · cases h
          · simp only at h ⊢
            rcases hb : nodeOf S k with _ | branch <;> rw [hb] at h
            · cases h
            · simp only [Option.map_eq_some_iff] at h ⊢
              obtain ⟨a, ha, rfl⟩ := h
              exact ⟨a, ih.dec _ _ _ g hg ha, rfl⟩
      | record nm fields =>
        simp only [decodeL, Option.map_eq_some_iff] at h ⊢
        obtain ⟨a, ha, rfl⟩ := h
        exact ⟨a, ih.fields _ _ _ g hg ha, rfl⟩
      | «enum» nm syms =>
        simp only [decodeL] at h ⊢
        split at h
        · rename_i idx rest hd
          rw [decodeLenL_mono hle hd]; exact h
        · cases h
      | decimal sc pr repr =>
        cases repr with
        | bytes =>
          simp only [decodeL] at h ⊢
          split at h
          · rename_i b rest hd
            rw [decodeBytesL_mono hle hd]
            simp only
            split at h
            · rename_i hfit
              rw [if_pos (hle.dec _ hfit)]; exact h
            · cases h
          · cases h
        | fixed nm size =>
          simp only [decodeL] at h ⊢
          split at h
          · rename_i hfit
            rw [if_pos (hle.dec _ hfit)]; exact h
          · cases h
      | bigDecimal =>
        simp only [decodeL] at h ⊢
        split at h
        · cases h
        · rename_i inner rest hd
          rw [decodeBytesL_mono hle hd]
          simp only
          split at h
          · cases h
          · rename_i m inner' hd2
            rw [decodeBytesL_mono hle hd2]
            simp only
            split at h
            · rename_i hfit
              rw [if_pos (hle.dec _ hfit)]
              split at h
              · rename_i scale hd3
                rw [decodeLenL_mono hle hd3]; exact h
              · cases h
            · cases h
    · intro item bs r f' hf h
      obtain ⟨g, rfl, hg⟩ := exists_succ_of_le hf
      simp only [decodeBlocksL] at h ⊢
      split at h
      · cases h
      · rename_i rest hd
        rw [decodeBlockHeaderL_mono hle hd]; exact h
      · rename_i c rest hc hd
        rw [decodeBlockHeaderL_mono hle hd]
        split at h
        · cases h
        · rename_i vs rest' hi
          split at h
          · cases h
          · rename_i more rest'' hb
            cases c with
            | zero => exact absurd rfl hc
            | succ c =>
              simp only
              rw [ih.items _ _ _ _ g hg hi]
              simp only
              rw [ih.blocks _ _ _ g hg hb]
              exact h
    · intro item c bs r f' hf h
      obtain ⟨g, rfl, hg⟩ := exists_succ_of_le hf
      cases c with
      | zero => exact h
      | succ c =>
        simp only [decodeItemsL] at h ⊢
        split at h
        · cases h
        · rename_i v rest hd
          rw [ih.dec _ _ _ g hg hd]
          simp only
          split at h
          · cases h
          · rename_i vs rest' hi
            rw [ih.items _ _ _ _ g hg hi]; exact h
    · intro item bs r f' hf h
      obtain ⟨g, rfl, hg⟩ := exists_succ_of_le hf
      simp only [decodeMapBlocksL] at h ⊢
      split at h
      · cases h
      · rename_i rest hd
        rw [decodeBlockHeaderL_mono hle hd]; exact h
      · rename_i c rest hc hd
        rw [decodeBlockHeaderL_mono hle hd]
        split at h
        · cases h
        · rename_i vs rest' hi
          split at h
          · cases h
          · rename_i more rest'' hb
            cases c with
            | zero => exact absurd rfl hc
            | succ c =>
              simp only
              rw [ih.mitems _ _ _ _ g hg hi]
              simp only
              rw [ih.mblocks _ _ _ g hg hb]
              exact h
    · intro item c bs r f' hf h
      obtain ⟨g, rfl, hg⟩ := exists_succ_of_le hf
      cases c with
      | zero => exact h
      | succ c =>
        simp only [decodeMapItemsL] at h ⊢
        split at h
        · cases h
        · rename_i k rest hs
          rw [decodeStringL_mono hle hs]
          simp only
          split at h
          · cases h
          · rename_i v rest' hd
            rw [ih.dec _ _ _ g hg hd]
            simp only
            split at h
            · cases h
            · rename_i vs rest'' hi
              rw [ih.mitems _ _ _ _ g hg hi]; exact h
    · intro ks bs r f' hf h
      obtain ⟨g, rfl, hg⟩ := exists_succ_of_le hf
      cases ks with
      | nil => exact h
      | cons k ks =>
        simp only [decodeFieldsL] at h ⊢
        rcases hk : nodeOf S k with _ | n <;> rw [hk] at h
        · cases h
        · simp only at h ⊢
          split at h
          · cases h
          · rename_i v rest hd
            rw [ih.dec _ _ _ g hg hd]
            simp only
            split at h
            · cases h
            · rename_i vs rest' hi
              rw [ih.fields _ _ _ g hg hi]; exact h

/-- more permissive limits and more fuel never change an answer -/
theorem decodeL_mono {L L' : Limits} (hle : L.le L') (S : Schema) {fuel fuel' : Nat}
    (hf : fuel ≤ fuel') {n : Node} {bs : Bytes} {r : Value × Bytes}
    (h : decodeL L S fuel n bs = some r) : decodeL L' S fuel' n bs = some r :=
  (monoAll hle S fuel).dec n bs r fuel' hf h

end Avro.Spec

namespace Avro.Impl
open Avro Avro.Spec

/-! ### 4. Leaves: the read primitives on the slice against the limited specification parsers -/

/-- on the slice back-end (no `Take`), started on `bs`, `m` succeeds with `a` and leaves `rest` -/
def ReadsAt {α : Type} (m : DeM α) (bs rest : Bytes) (a : α) : Prop :=
  ∀ s, SlBase s → m (s.mk' bs none) = (.ok a, s.mk' rest none)

theorem ReadsAt.pure {α : Type} (a : α) (bs : Bytes) : ReadsAt (pure a : DeM α) bs bs a := by
  intro s _; rfl

theorem ReadsAt.bind {α β : Type} {m : DeM α} {f : α → DeM β} {b1 b2 b3 : Bytes} {a : α} {b : β}
    (h1 : ReadsAt m b1 b2 a) (h2 : ReadsAt (f a) b2 b3 b) : ReadsAt (m >>= f) b1 b3 b := by
  intro s hs
  rw [DeM.bind_apply, h1 s hs]
  exact h2 s hs

theorem ReadsAt.map_pure {α β : Type} {m : DeM α} {b1 b2 : Bytes} {a : α} (g : α → β)
    (h1 : ReadsAt m b1 b2 a) : ReadsAt (m >>= fun x => Pure.pure (g x)) b1 b2 (g a) :=
  ReadsAt.bind h1 (ReadsAt.pure _ _)

theorem ReadsAt.congr {α : Type} {m m' : DeM α} {b1 b2 : Bytes} {a a' : α}
    (h : ReadsAt m b1 b2 a) (hm : m = m') (ha : a = a') : ReadsAt m' b1 b2 a' := by
  subst hm ha; exact h

theorem Reads.at {α : Type} {m : DeM α} {enc : Bytes} {a : α} (h : Reads m enc a) (r : Bytes) :
    ReadsAt m (enc ++ r) r a := fun s hs => h s hs r

theorem takeN_eq {n : Nat} {bs b rest : Bytes} (h : takeN n bs = some (b, rest)) :
    bs = b ++ rest ∧ b.length = n := by
  unfold takeN at h
  split at h
  · rename_i hn
    simp only [Option.some.injEq, Prod.mk.injEq] at h
    obtain ⟨rfl, rfl⟩ := h
    exact ⟨(List.take_append_drop n bs).symm, by simp; omega⟩
  · cases h

/-! #### varints -/

theorem decodeLongL_impl_iff (bs : Bytes) (i : Int) (rest : Bytes) :
    decodeLongL Limits.impl bs = some (i, rest) ↔
      ∃ k, decodeVarI64 bs = some (i, k) ∧ rest = bs.drop k := by
  constructor
  · intro h
    unfold decodeLongL at h
    split at h
    · rename_i i' rest' hd
      split at h
      · rename_i hfit
        simp only [Option.some.injEq, Prod.mk.injEq] at h
        obtain ⟨rfl, rfl⟩ := h
        simp only [Limits.impl, fitsOpt, decide_eq_true_eq] at hfit
        unfold decodeLong at hd
        split at hd
        · cases hd
        · rename_i n rest'' hn
          split at hd
          · rename_i hlt
            simp only [Option.some.injEq, Prod.mk.injEq] at hd
            obtain ⟨rfl, rfl⟩ := hd
            have := decodeVarU64_of_spec bs n _ hn hlt hfit
            obtain ⟨c, hc, _⟩ := decodeNat_local _ _ _ hn
            refine ⟨bs.length - rest''.length, ?_, ?_⟩
            · rw [decodeVarI64, this]
              simp only [unzigzagBV_toInt n hlt]
            · conv => rhs; rw [hc]
              simp
          · cases hd
      · cases h
    · cases h
  · rintro ⟨k, hk, rfl⟩
    have hspec := decodeVarI64_eq_spec bs i k hk
    rw [decodeVarI64] at hk
    split at hk
    · cases hk
    · rename_i n s heq
      simp only [Option.some.injEq, Prod.mk.injEq] at hk
      obtain ⟨_, rfl⟩ := hk
      obtain ⟨_, _, _, h10, hlen⟩ := decodeVarU64_to_spec bs n s heq
      unfold decodeLongL
      rw [hspec]
      have : fitsOpt Limits.impl.maxVarint (bs.length - (List.drop s bs).length) = true := by
        simp only [Limits.impl, fitsOpt, decide_eq_true_eq, List.length_drop]; omega
      simp only [this, if_true]

theorem readVarint_slice_eq (t : VarTy) (s : RState) (hs : SlBase s) (bs : Bytes) (l : Option Nat) :
    readVarint t (s.mk' bs l) = match decodeVar t bs with
      | none => (.error .custom, s.mk' bs l)
      | some (v, k) => (.ok v, s.mk' (bs.drop k) l) := by
  obtain ⟨isS, rest, av, sched, lc, ma, scr, lim⟩ := s
  obtain ⟨h1, h2⟩ := hs
  simp only at h1 h2
  subst h1 h2
  simp only [readVarint, RState.mk', if_true]
  cases decodeVar t bs with
  | none => rfl
  | some p => rfl

theorem readsAt_varint_i64 {bs rest : Bytes} {i : Int}
    (h : decodeLongL Limits.impl bs = some (i, rest)) : ReadsAt (readVarint .i64) bs rest i := by
  obtain ⟨k, hk, rfl⟩ := (decodeLongL_impl_iff bs i rest).1 h
  intro s hs
  rw [readVarint_slice_eq _ s hs, decodeVar, hk]

theorem readsAt_varint_i32 {bs rest : Bytes} {i : Int}
    (h : decodeLongL Limits.impl bs = some (i, rest)) (h32 : InI32 i) :
    ReadsAt (readVarint .i32) bs rest i := by
  obtain ⟨k, hk, rfl⟩ := (decodeLongL_impl_iff bs i rest).1 h
  intro s hs
  unfold InI32 at h32
  rw [readVarint_slice_eq _ s hs, decodeVar, decodeVarI32, hk]
  simp only [h32.1, h32.2, and_self, if_true]

theorem readsAt_varint_u64 {bs rest : Bytes} {i : Int}
    (h : decodeLongL Limits.impl bs = some (i, rest)) :
    ∃ x, ReadsAt (readVarint .u64) bs rest x := by
  obtain ⟨k, hk, rfl⟩ := (decodeLongL_impl_iff bs i rest).1 h
  rw [decodeVarI64] at hk
  split at hk
  · cases hk
  · rename_i n k' heq
    simp only [Option.some.injEq, Prod.mk.injEq] at hk
    obtain ⟨_, rfl⟩ := hk
    refine ⟨(n : Int), ?_⟩
    intro s hs
    rw [readVarint_slice_eq _ s hs, decodeVar, heq]
    rfl

theorem readsAt_readLen {bs rest : Bytes} {n : Nat}
    (h : decodeLenL Limits.impl bs = some (n, rest)) : ReadsAt readLen bs rest n := by
  unfold decodeLenL at h
  split at h
  · rename_i i r hd
    split at h
    · rename_i hi
      simp only [Option.some.injEq, Prod.mk.injEq] at h
      obtain ⟨rfl, rfl⟩ := h
      unfold readLen
      refine ReadsAt.bind (readsAt_varint_i64 hd) ?_
      have : ¬ (i < 0) := by omega
      simp only [this, if_false]
      exact ReadsAt.pure _ _
    · cases h
  · cases h

theorem readsAt_readSlice {n : Nat} {bs b rest : Bytes} (h : takeN n bs = some (b, rest)) :
    ReadsAt (readSlice n) bs rest (b, true) := by
  obtain ⟨rfl, hl⟩ := takeN_eq h
  exact (reads_readSlice b n hl).at rest

theorem readsAt_readExact {n : Nat} {bs b rest : Bytes} (h : takeN n bs = some (b, rest)) :
    ReadsAt (readExact n) bs rest b := by
  obtain ⟨rfl, hl⟩ := takeN_eq h
  exact (reads_readExact b n hl).at rest

theorem readsAt_readBytes {bs b rest : Bytes} (h : decodeBytesL Limits.impl bs = some (b, rest)) :
    ReadsAt readBytes bs rest (.bytes b true) := by
  unfold decodeBytesL at h
  split at h
  · rename_i n r hd
    unfold readBytes
    refine ReadsAt.bind (readsAt_readLen hd) ?_
    exact ReadsAt.bind (readsAt_readSlice h) (ReadsAt.pure _ _)
  · cases h

theorem readsAt_readString {bs rest : Bytes} {str : String}
    (h : decodeStringL Limits.impl bs = some (str, rest)) :
    ReadsAt readString bs rest (.str str true) := by
  unfold decodeStringL at h
  split at h
  · rename_i b r hb
    split at h
    · rename_i s hs
      simp only [Option.some.injEq, Prod.mk.injEq] at h
      obtain ⟨rfl, rfl⟩ := h
      unfold decodeBytesL at hb
      split at hb
      · rename_i n r' hd
        unfold readString
        refine ReadsAt.bind (readsAt_readLen hd) ?_
        refine ReadsAt.bind (readsAt_readSlice hb) ?_
        simp only [bytesToStr?, hs]
        exact ReadsAt.pure _ _
      · cases hb
    · cases h
  · cases h

theorem readsAt_readBool_false (rest : Bytes) : ReadsAt readBool ((0 : UInt8) :: rest) rest (.bool false) :=
  (reads_readBool false).at rest

theorem readsAt_readBool_true (rest : Bytes) : ReadsAt readBool ((1 : UInt8) :: rest) rest (.bool true) :=
  (reads_readBool true).at rest

/-! #### locality of the limited varint parsers -/

theorem decodeLongL_local (L : Limits) : Local (decodeLongL L) := by
  intro bs a r h
  unfold decodeLongL at h
  split at h
  · rename_i i rest hd
    split at h
    · rename_i hfit
      simp only [Option.some.injEq, Prod.mk.injEq] at h
      obtain ⟨rfl, rfl⟩ := h
      obtain ⟨c, rfl, hc⟩ := decodeLong_local _ _ _ hd
      refine ⟨c, rfl, fun r' => ?_⟩
      unfold decodeLongL
      rw [hc r']
      simp only [List.length_append, Nat.add_sub_cancel] at hfit ⊢
      rw [if_pos hfit]
    · cases h
  · cases h

theorem decodeLenL_local (L : Limits) : Local (decodeLenL L) := by
  intro bs a r h
  unfold decodeLenL at h
  split at h
  · rename_i i rest hd
    split at h
    · rename_i hi
      simp only [Option.some.injEq, Prod.mk.injEq] at h
      obtain ⟨rfl, rfl⟩ := h
      obtain ⟨c, rfl, hc⟩ := decodeLongL_local L _ _ _ hd
      exact ⟨c, rfl, fun r' => by simp [decodeLenL, hc r', hi]⟩
    · cases h
  · cases h

theorem decodeLenL_inv {L : Limits} {bs rest : Bytes} {n : Nat}
    (h : decodeLenL L bs = some (n, rest)) :
    ∃ i : Int, decodeLongL L bs = some (i, rest) ∧ 0 ≤ i ∧ n = i.toNat := by
  unfold decodeLenL at h
  split at h
  · rename_i i r hd
    split at h
    · rename_i hi
      simp only [Option.some.injEq, Prod.mk.injEq] at h
      obtain ⟨rfl, rfl⟩ := h
      exact ⟨i, hd, hi, rfl⟩
    · cases h
  · cases h

theorem decodeBytesL_inv {L : Limits} {bs b rest : Bytes}
    (h : decodeBytesL L bs = some (b, rest)) :
    ∃ r0, decodeLenL L bs = some (b.length, r0) ∧ r0 = b ++ rest := by
  unfold decodeBytesL at h
  split at h
  · rename_i n r hd
    obtain ⟨rfl, rfl⟩ := takeN_eq h
    exact ⟨_, hd, rfl⟩
  · cases h

/-! #### decimals -/

theorem decodeNat_shape : ∀ (bs : Bytes) (n : Nat) (rest : Bytes), decodeNat bs = some (n, rest) →
    ∃ pre last, bs = pre ++ [last] ++ rest ∧ (∀ b ∈ pre, 128 ≤ b.toNat) ∧ last.toNat < 128 := by
  intro bs
  induction bs with
  | nil => intro n rest h; simp [decodeNat] at h
  | cons b tl ih =>
    intro n rest h
    rw [decodeNat] at h
    split at h
    · rename_i hb
      simp only [Option.some.injEq, Prod.mk.injEq] at h
      obtain ⟨rfl, rfl⟩ := h
      exact ⟨[], b, rfl, by simp, hb⟩
    · rename_i hb
      split at h
      · cases h
      · rename_i v rest' hd
        simp only [Option.some.injEq, Prod.mk.injEq] at h
        obtain ⟨rfl, rfl⟩ := h
        obtain ⟨pre, last, rfl, hp, hl⟩ := ih _ _ hd
        refine ⟨b :: pre, last, rfl, ?_, hl⟩
        intro x hx
        rcases List.mem_cons.1 hx with rfl | hx
        · omega
        · exact hp x hx

/-- `VarIntProcessor` under a `Take`, on any varint the limited specification parser accepts -/
theorem varintProcessor_layout (s : RState) (hs : SlBase s) (c r : Bytes) (i : Int)
    (h : decodeLongL Limits.impl (c ++ r) = some (i, r)) (l : Nat) (hl : c.length ≤ l) :
    varintProcessor .i64 12 [] (s.mk' (c ++ r) (some l)) = (.ok i, s.mk' r (some (l - c.length))) := by
  obtain ⟨k, hk, hr⟩ := (decodeLongL_impl_iff _ _ _).1 h
  have hlen : k = c.length := by
    have h1 := congrArg List.length hr
    have h2 : k ≤ (c ++ r).length := decodeVar_le (t := .i64) hk
    simp only [List.length_drop, List.length_append] at h1 h2
    omega
  subst hlen
  have h10 : c.length ≤ 10 := by
    rw [decodeVarI64] at hk
    split at hk
    · cases hk
    · rename_i n k' heq
      simp only [Option.some.injEq, Prod.mk.injEq] at hk
      have := (decodeVarU64_to_spec _ n k' heq).2.2.2.1
      omega
  -- the shape of the varint
  have hnat : ∃ n, decodeNat (c ++ r) = some (n, r) := by
    unfold decodeLongL at h
    split at h
    · rename_i i' rest' hd
      split at h
      · simp only [Option.some.injEq, Prod.mk.injEq] at h
        obtain ⟨rfl, rfl⟩ := h
        unfold decodeLong at hd
        split at hd
        · cases hd
        · rename_i n rest'' hn
          split at hd
          · simp only [Option.some.injEq, Prod.mk.injEq] at hd
            obtain ⟨_, rfl⟩ := hd
            exact ⟨n, hn⟩
          · cases hd
      · cases h
    · cases h
  obtain ⟨n, hn⟩ := hnat
  obtain ⟨pre, last, hshape, hp, hlast⟩ := decodeNat_shape _ _ _ hn
  have hc : c = pre ++ [last] := List.append_cancel_right hshape
  subst hc
  simp only [List.length_append, List.length_singleton] at hl h10
  have hcont : ∀ x ∈ pre, x.toNat &&& 0x80 ≠ 0 := by
    intro x hx hz
    have := (and_128_eq_zero_iff x.toNat x.toNat_lt).1 hz
    have := hp x hx
    omega
  have hterm : last.toNat &&& 0x80 = 0 := (and_128_eq_zero_iff last.toNat last.toNat_lt).2 hlast
  have hdec : decodeVar .i64 (pre ++ [last]) = some (i, (pre ++ [last]).length) := by
    have := (decodeVar_cont_term .i64 pre last r hcont (by omega) (Or.inl hterm)).1
    rw [← this]
    simpa [decodeVar] using hk
  rw [varintProcessor_slice .i64 s hs last hlast r pre [] 12 l hp (by simp)
    (by simp [VarTy.maxSize]; omega) (by omega) (by omega)]
  simp only [List.nil_append, hdec, List.length_append, List.length_singleton]

theorem readsAt_readDecimal_bytes (ext : DeExt) (scale : Nat) {bs m rest : Bytes} (u : Int)
    (str : String) (hb : decodeBytesL Limits.impl bs = some (m, rest))
    (hm : m.length ≤ 16) (hu : i128OfBE m = u) (hstr : ext.decToString u scale = some str) :
    ReadsAt (readDecimal ext (.regular scale .bytes) .str) bs rest (.str str false) := by
  unfold readDecimal
  simp only []
  refine ReadsAt.bind (a := (u, scale)) (b2 := rest) ?_ ?_
  · unfold decodeBytesL at hb
    split at hb
    · rename_i n r hd
      obtain ⟨_, hl⟩ := takeN_eq hb
      refine ReadsAt.bind (readsAt_readLen hd) ?_
      have : ¬ (n > 16) := by omega
      simp only [this, if_false]
      refine ReadsAt.bind (readsAt_readExact hb) ?_
      rw [hu]; exact ReadsAt.pure _ _
    · cases hb
  · simp only []
    split <;> exact (reads_decimal_tail ext u scale str hstr).at rest

theorem readsAt_readDecimal_fixed (ext : DeExt) (scale : Nat) (nm : Name) (size : Nat)
    {bs m rest : Bytes} (u : Int) (str : String) (hb : takeN size bs = some (m, rest))
    (h16 : size ≤ 16) (hu : i128OfBE m = u) (hstr : ext.decToString u scale = some str) :
    ReadsAt (readDecimal ext (.regular scale (.fixed nm size)) .str) bs rest (.str str false) := by
  unfold readDecimal
  simp only []
  refine ReadsAt.bind (a := (u, scale)) (b2 := rest) ?_ ?_
  · have : ¬ (size > 16) := by omega
    simp only [this, if_false]
    refine ReadsAt.bind (readsAt_readExact hb) ?_
    rw [hu]; exact ReadsAt.pure _ _
  · simp only []
    split <;> exact (reads_decimal_tail ext u scale str hstr).at rest

theorem bigDecimalBody_layout (s : RState) (hs : SlBase s) {inner m inner' : Bytes} (rest : Bytes)
    {scale : Nat} (h1 : decodeBytesL Limits.impl inner = some (m, inner'))
    (h2 : decodeLenL Limits.impl inner' = some (scale, []))
    (hm : m.length ≤ 16) (hsc : scale < 4294967296) :
    bigDecimalBody (s.mk' (inner ++ rest) (some inner.length)) =
      (.ok (i128OfBE m, scale), s.mk' rest (some 0)) := by
  obtain ⟨r0, hlen, rfl⟩ := decodeBytesL_inv h1
  obtain ⟨c0, rfl, hc0⟩ := decodeLenL_local _ _ _ _ hlen
  obtain ⟨c2, hc2eq, hc2⟩ := decodeLenL_local _ _ _ _ h2
  rw [List.append_nil] at hc2eq
  subst hc2eq
  obtain ⟨i0, hi0, hi0nn, hi0eq⟩ := decodeLenL_inv (hc0 (m ++ (inner' ++ rest)))
  obtain ⟨i2, hi2, hi2nn, hi2eq⟩ := decodeLenL_inv (hc2 rest)
  unfold bigDecimalBody
  simp only [List.append_assoc, List.length_append]
  rw [DeM.bind_apply, varintProcessor_layout s hs c0 _ i0 hi0 _ (by omega)]
  have hneg : ¬ (i0 < 0) := by omega
  have h16 : ¬ (i0.toNat > 16) := by omega
  simp only [hneg, if_false, h16]
  rw [← hi0eq]
  rw [DeM.bind_apply, readExact_slice s hs m _ _ (by intro x hx; cases hx; omega)]
  simp only [Option.map_some]
  rw [DeM.bind_apply, varintProcessor_layout s hs inner' _ i2 hi2 _ (by omega)]
  have hsc' : ¬ (i2 < 0 ∨ i2 ≥ 4294967296) := by omega
  simp only [hsc', if_false]
  rw [DeM.bind_apply]
  simp only [getLimit, RState.mk'_limit]
  have hz : c0.length + (m.length + inner'.length) - c0.length - m.length - inner'.length = 0 := by
    omega
  simp only [hz, ne_eq, not_true_eq_false, if_false, DeM.pure_apply, ← hi2eq]

theorem readsAt_readDecimal_big (ext : DeExt) {bs inner rest m inner' : Bytes} {scale : Nat}
    (u : Int) (str : String)
    (h0 : decodeBytesL Limits.impl bs = some (inner, rest))
    (h1 : decodeBytesL Limits.impl inner = some (m, inner'))
    (h2 : decodeLenL Limits.impl inner' = some (scale, []))
    (hm : m.length ≤ 16) (hsc : scale ≤ 28) (hu : i128OfBE m = u)
    (hstr : ext.decToString u scale = some str) :
    ReadsAt (readDecimal ext .big .str) bs rest (.str str false) := by
  unfold readDecimal
  simp only []
  refine ReadsAt.bind (a := (u, scale)) (b2 := rest) ?_ ?_
  · obtain ⟨r0, hlen, rfl⟩ := decodeBytesL_inv h0
    refine ReadsAt.bind (readsAt_readLen hlen) ?_
    intro s hs
    change (setLimit _ >>= fun _ => withLimitCleared bigDecimalBody) _ = _
    rw [DeM.bind_apply]
    simp only [setLimit]
    unfold withLimitCleared
    have := bigDecimalBody_layout s hs rest h1 h2 hm (by omega)
    simp only [RState.mk'] at this ⊢
    rw [this, hu]
  · simp only []
    split <;> exact (reads_decimal_tail ext u scale str hstr).at rest

/-! #### the block reader -/

theorem readsAt_readBlockLen {bs rest : Bytes} {c : Nat} (fuel : Nat)
    (h : decodeBlockHeaderL Limits.impl bs = some (c, rest)) :
    ReadsAt (readBlockLen false (fuel + 1)) bs rest (if c = 0 then none else some c) := by
  unfold decodeBlockHeaderL at h
  split at h
  · cases h
  · rename_i cnt r hd
    rw [readBlockLen]
    refine ReadsAt.bind (readsAt_varint_i64 hd) ?_
    split at h
    · rename_i hc
      simp only [Option.some.injEq, Prod.mk.injEq] at h
      obtain ⟨rfl, rfl⟩ := h
      have h1 : ¬ (cnt < 0) := by omega
      simp only [h1, if_false]
      have : (cnt = 0) ↔ (cnt.toNat = 0) := by omega
      simp only [this]
      exact ReadsAt.pure _ _
    · rename_i hc
      split at h
      · cases h
      · rename_i sz r' hd2
        split at h
        · rename_i hsz
          have hsz0 : ¬ (sz < 0) := by
            rcases hsz with hsz | hsz
            · omega
            · cases hsz
          simp only [Option.some.injEq, Prod.mk.injEq] at h
          obtain ⟨rfl, rfl⟩ := h
          have h1 : cnt < 0 := by omega
          simp only [h1, if_true, Bool.false_eq_true, if_false]
          refine ReadsAt.bind (readsAt_varint_i64 hd2) ?_
          simp only [hsz0, if_false]
          exact ReadsAt.pure _ _
        · cases h

theorem readsAt_hasMore_succ (cfg : DeConfig) (ign : Bool) (c nr : Nat) (bs : Bytes) :
    ReadsAt (hasMore cfg ign ⟨c + 1, nr⟩) bs bs (true, ⟨c, nr⟩) := by
  intro s hs; rfl

theorem readsAt_hasMore_end (cfg : DeConfig) (nr : Nat) {bs rest : Bytes}
    (h : decodeBlockHeaderL Limits.impl bs = some (0, rest)) :
    ReadsAt (hasMore cfg false ⟨0, nr⟩) bs rest (false, ⟨0, nr⟩) := by
  intro s hs
  have := readsAt_readBlockLen ((s.mk' bs none).rest.length + 1) h s hs
  simp only [hasMore, this, if_true]

theorem readsAt_hasMore_count (cfg : DeConfig) (nr : Nat) {bs rest : Bytes} {c : Nat}
    (h : decodeBlockHeaderL Limits.impl bs = some (c, rest)) (hc : 0 < c)
    (hmax : nr + c ≤ cfg.maxSeqSize) :
    ReadsAt (hasMore cfg false ⟨0, nr⟩) bs rest (true, ⟨c - 1, nr + c⟩) := by
  intro s hs
  have := readsAt_readBlockLen ((s.mk' bs none).rest.length + 1) h s hs
  have hn0 : ¬ (c = 0) := by omega
  have hm : ¬ (nr + c > cfg.maxSeqSize) := by omega
  simp only [hasMore, this, hn0, if_false, hm]

end Avro.Impl

namespace Avro.Spec
open Avro Avro.Impl

/-! ### 5. Lists of items split over several blocks -/

theorem observeList_append (S : Schema) (item : Node) : ∀ (a b : List Value) (os : List Out),
    observeList S item (a ++ b) = some os →
    ∃ o1 o2, observeList S item a = some o1 ∧ observeList S item b = some o2 ∧ os = o1 ++ o2 := by
  intro a
  induction a with
  | nil => intro b os h; exact ⟨[], os, rfl, h, rfl⟩
  | cons v a ih =>
    intro b os h
    simp only [List.cons_append, observeList] at h
    split at h
    · rename_i o os0 ho hos
      simp only [Option.some.injEq] at h
      subst h
      obtain ⟨o1, o2, h1, h2, rfl⟩ := ih b os0 hos
      exact ⟨o :: o1, o2, by simp only [observeList, ho, h1], h2, rfl⟩
    · cases h

theorem observeList_append_some (S : Schema) (item : Node) : ∀ (a b : List Value) (o1 o2 : List Out),
    observeList S item a = some o1 → observeList S item b = some o2 →
    observeList S item (a ++ b) = some (o1 ++ o2) := by
  intro a
  induction a with
  | nil =>
    intro b o1 o2 h1 h2
    simp only [observeList, Option.some.injEq] at h1
    subst h1; exact h2
  | cons v a ih =>
    intro b o1 o2 h1 h2
    simp only [observeList] at h1
    split at h1
    · rename_i o os0 ho hos
      simp only [Option.some.injEq] at h1
      subst h1
      simp only [List.cons_append, observeList, ho, ih b os0 o2 hos h2]
    · cases h1

theorem observeEntries_append (S : Schema) (item : Node) :
    ∀ (a b : List (String × Value)) (os : List (Out × Out)),
    observeEntries S item (a ++ b) = some os →
    ∃ o1 o2, observeEntries S item a = some o1 ∧ observeEntries S item b = some o2 ∧
      os = o1 ++ o2 := by
  intro a
  induction a with
  | nil => intro b os h; exact ⟨[], os, rfl, h, rfl⟩
  | cons kv a ih =>
    obtain ⟨k, v⟩ := kv
    intro b os h
    simp only [List.cons_append, observeEntries] at h
    split at h
    · rename_i o os0 ho hos
      simp only [Option.some.injEq] at h
      subst h
      obtain ⟨o1, o2, h1, h2, rfl⟩ := ih b os0 hos
      exact ⟨(.str k true, o) :: o1, o2, by simp only [observeEntries, ho, h1], h2, rfl⟩
    · cases h

theorem observeEntries_append_some (S : Schema) (item : Node) :
    ∀ (a b : List (String × Value)) (o1 o2 : List (Out × Out)),
    observeEntries S item a = some o1 → observeEntries S item b = some o2 →
    observeEntries S item (a ++ b) = some (o1 ++ o2) := by
  intro a
  induction a with
  | nil =>
    intro b o1 o2 h1 h2
    simp only [observeEntries, Option.some.injEq] at h1
    subst h1; exact h2
  | cons kv a ih =>
    obtain ⟨k, v⟩ := kv
    intro b o1 o2 h1 h2
    simp only [observeEntries] at h1
    split at h1
    · rename_i o os0 ho hos
      simp only [Option.some.injEq] at h1
      subst h1
      simp only [List.cons_append, observeEntries, ho, ih b os0 o2 hos h2]
    · cases h1

theorem depthItems_append (a b : List Value) :
    depthItems (a ++ b) = max (depthItems a) (depthItems b) := by
  induction a with
  | nil => simp [depthItems]
  | cons v a ih => simp only [List.cons_append, depthItems, ih]; omega

theorem maxLenItems_append (a b : List Value) :
    maxLenItems (a ++ b) = max (maxLenItems a) (maxLenItems b) := by
  induction a with
  | nil => simp [maxLenItems]
  | cons v a ih => simp only [List.cons_append, maxLenItems, ih]; omega

theorem sizeItems_append (a b : List Value) : sizeItems (a ++ b) = sizeItems a + sizeItems b := by
  induction a with
  | nil => simp [sizeItems]
  | cons v a ih => simp only [List.cons_append, sizeItems, ih]; omega

theorem depthEntries_append (a b : List (String × Value)) :
    depthEntries (a ++ b) = max (depthEntries a) (depthEntries b) := by
  induction a with
  | nil => simp [depthEntries]
  | cons kv a ih => obtain ⟨k, v⟩ := kv; simp only [List.cons_append, depthEntries, ih]; omega

theorem maxLenEntries_append (a b : List (String × Value)) :
    maxLenEntries (a ++ b) = max (maxLenEntries a) (maxLenEntries b) := by
  induction a with
  | nil => simp [maxLenEntries]
  | cons kv a ih => obtain ⟨k, v⟩ := kv; simp only [List.cons_append, maxLenEntries, ih]; omega

theorem sizeEntries_append (a b : List (String × Value)) :
    sizeEntries (a ++ b) = sizeEntries a + sizeEntries b := by
  induction a with
  | nil => simp [sizeEntries]
  | cons kv a ih => obtain ⟨k, v⟩ := kv; simp only [List.cons_append, sizeEntries, ih]; omega

theorem decodeItemsL_length (L : Limits) (S : Schema) (item : Node) : ∀ (fuel c : Nat) (bs : Bytes)
    (vs : List Value) (r : Bytes), decodeItemsL L S fuel item c bs = some (vs, r) → vs.length = c := by
  intro fuel
  induction fuel with
  | zero =>
    intro c bs vs r h
    cases c with
    | zero => simp only [decodeItemsL, Option.some.injEq, Prod.mk.injEq] at h; rw [← h.1]; rfl
    | succ c => simp [decodeItemsL] at h
  | succ fuel ih =>
    intro c bs vs r h
    cases c with
    | zero => simp only [decodeItemsL, Option.some.injEq, Prod.mk.injEq] at h; rw [← h.1]; rfl
    | succ c =>
      simp only [decodeItemsL] at h
      split at h
      · cases h
      · split at h
        · cases h
        · rename_i vs' r' hi
          simp only [Option.some.injEq, Prod.mk.injEq] at h
          rw [← h.1, List.length_cons, ih c _ _ _ hi]

theorem decodeMapItemsL_length (L : Limits) (S : Schema) (item : Node) : ∀ (fuel c : Nat) (bs : Bytes)
    (vs : List (String × Value)) (r : Bytes),
    decodeMapItemsL L S fuel item c bs = some (vs, r) → vs.length = c := by
  intro fuel
  induction fuel with
  | zero =>
    intro c bs vs r h
    cases c with
    | zero => simp only [decodeMapItemsL, Option.some.injEq, Prod.mk.injEq] at h; rw [← h.1]; rfl
    | succ c => simp [decodeMapItemsL] at h
  | succ fuel ih =>
    intro c bs vs r h
    cases c with
    | zero => simp only [decodeMapItemsL, Option.some.injEq, Prod.mk.injEq] at h; rw [← h.1]; rfl
    | succ c =>
      simp only [decodeMapItemsL] at h
      split at h
      · cases h
      · split at h
        · cases h
        · split at h
          · cases h
          · rename_i vs' r' hi
            simp only [Option.some.injEq, Prod.mk.injEq] at h
            rw [← h.1, List.length_cons, ih c _ _ _ hi]

theorem decodeStringL_inv {L : Limits} {bs rest : Bytes} {k : String}
    (h : decodeStringL L bs = some (k, rest)) :
    ∃ n r b, decodeLenL L bs = some (n, r) ∧ takeN n r = some (b, rest) ∧
      String.fromUTF8? (ByteArray.mk b.toArray) = some k := by
  unfold decodeStringL at h
  split at h
  · rename_i b r hb
    split at h
    · rename_i s hs
      simp only [Option.some.injEq, Prod.mk.injEq] at h
      obtain ⟨rfl, rfl⟩ := h
      unfold decodeBytesL at hb
      split at hb
      · rename_i n r' hd
        exact ⟨n, r', b, hd, hb, hs⟩
      · cases hb
    · cases h
  · cases h

end Avro.Spec

namespace Avro.Impl
open Avro Avro.Spec

/-! ### 6. Acceptance: the deserializer follows every run of the limited specification decoder -/

/-- the statements proved together by induction on the fuel of the specification decoder -/
structure AccAll (cfg : DeConfig) (S : Schema) (fS : Nat) : Prop where
  dec : ∀ n bs v rest o depth fuel, decodeL Limits.impl S fS n bs = some (v, rest) →
    observe S n v = some o → depthOf v ≤ depth → maxLen v ≤ cfg.maxSeqSize → 3 * size v ≤ fuel →
    ReadsAt (de deExtModel cfg S fuel n depth false .any) bs rest o
  blocks : ∀ item bs vs rest os depth nr, decodeBlocksL Limits.impl S fS item bs = some (vs, rest) →
    observeList S item vs = some os → depthItems vs ≤ depth → maxLenItems vs ≤ cfg.maxSeqSize →
    nr + vs.length ≤ cfg.maxSeqSize →
    ∀ fuel acc, 3 * sizeItems vs + 1 ≤ fuel →
      ReadsAt (deSeqLoop deExtModel cfg S fuel item depth false .any none ⟨0, nr⟩ acc) bs rest
        (acc.reverse ++ os)
  items : ∀ item c bs vs r1 os depth nr, decodeItemsL Limits.impl S fS item c bs = some (vs, r1) →
    observeList S item vs = some os → depthItems vs ≤ depth → maxLenItems vs ≤ cfg.maxSeqSize →
    ∀ K rest osMore,
      (∀ fuel acc, K ≤ fuel →
        ReadsAt (deSeqLoop deExtModel cfg S fuel item depth false .any none ⟨0, nr⟩ acc) r1 rest
          (acc.reverse ++ osMore)) →
      ∀ fuel acc, 3 * sizeItems vs + K ≤ fuel →
        ReadsAt (deSeqLoop deExtModel cfg S fuel item depth false .any none ⟨c, nr⟩ acc) bs rest
          (acc.reverse ++ (os ++ osMore))
  mblocks : ∀ item bs es rest os depth nr,
    decodeMapBlocksL Limits.impl S fS item bs = some (es, rest) →
    observeEntries S item es = some os → depthEntries es ≤ depth →
    maxLenEntries es ≤ cfg.maxSeqSize → nr + es.length ≤ cfg.maxSeqSize →
    ∀ fuel acc, 3 * sizeEntries es + 1 ≤ fuel →
      ReadsAt (deMapLoop deExtModel cfg S fuel item depth false .any ⟨0, nr⟩ acc) bs rest
        (acc.reverse ++ os)
  mitems : ∀ item c bs es r1 os depth nr,
    decodeMapItemsL Limits.impl S fS item c bs = some (es, r1) →
    observeEntries S item es = some os → depthEntries es ≤ depth →
    maxLenEntries es ≤ cfg.maxSeqSize →
    ∀ K rest osMore,
      (∀ fuel acc, K ≤ fuel →
        ReadsAt (deMapLoop deExtModel cfg S fuel item depth false .any ⟨0, nr⟩ acc) r1 rest
          (acc.reverse ++ osMore)) →
      ∀ fuel acc, 3 * sizeEntries es + K ≤ fuel →
        ReadsAt (deMapLoop deExtModel cfg S fuel item depth false .any ⟨c, nr⟩ acc) bs rest
          (acc.reverse ++ (os ++ osMore))
  fields : ∀ fields bs vals rest os depth,
    decodeFieldsL Limits.impl S fS (fields.map (·.2)) bs = some (vals, rest) →
    observeFields S fields vals = some os → depthItems vals ≤ depth →
    maxLenItems vals ≤ cfg.maxSeqSize →
    ∀ fuel acc, 3 * sizeItems vals ≤ fuel →
      ReadsAt (deRecordFields deExtModel cfg S fuel fields depth .any acc) bs rest
        (acc.reverse ++ os)

variable (cfg : DeConfig) (S : Schema)

theorem de_any_succ (ext : DeExt) (f : Nat) (n : Node) (d : Nat) :
    de ext cfg S (f + 1) n d false .any = deAny ext cfg S f n d .any := by
  rw [de]

theorem accAll_items_zero (fS : Nat) (item : Node) (bs vs r1 os depth nr)
    (h : decodeItemsL Limits.impl S fS item 0 bs = some (vs, r1))
    (hobs : observeList S item vs = some os) :
    ∀ K rest osMore,
      (∀ fuel acc, K ≤ fuel →
        ReadsAt (deSeqLoop deExtModel cfg S fuel item depth false .any none ⟨0, nr⟩ acc) r1 rest
          (acc.reverse ++ osMore)) →
      ∀ fuel acc, 3 * sizeItems vs + K ≤ fuel →
        ReadsAt (deSeqLoop deExtModel cfg S fuel item depth false .any none ⟨0, nr⟩ acc) bs rest
          (acc.reverse ++ (os ++ osMore)) := by
  intro K rest osMore hK fuel acc hf
  have : vs = [] ∧ r1 = bs := by
    cases fS <;> simp only [decodeItemsL, Option.some.injEq, Prod.mk.injEq] at h <;>
      exact ⟨h.1.symm, h.2.symm⟩
  obtain ⟨rfl, rfl⟩ := this
  simp only [observeList, Option.some.injEq] at hobs
  subst hobs
  exact hK fuel acc (by omega)

theorem accAll_succ_items (fS : Nat) (ih : AccAll cfg S fS) (item : Node) (c : Nat)
    (bs : Bytes) (vs : List Value) (r1 : Bytes) (os : List Out) (depth nr : Nat)
    (h : decodeItemsL Limits.impl S (fS + 1) item c bs = some (vs, r1))
    (hobs : observeList S item vs = some os) (hdepth : depthItems vs ≤ depth)
    (hmax : maxLenItems vs ≤ cfg.maxSeqSize) :
    ∀ K rest osMore,
      (∀ fuel acc, K ≤ fuel →
        ReadsAt (deSeqLoop deExtModel cfg S fuel item depth false .any none ⟨0, nr⟩ acc) r1 rest
          (acc.reverse ++ osMore)) →
      ∀ fuel acc, 3 * sizeItems vs + K ≤ fuel →
        ReadsAt (deSeqLoop deExtModel cfg S fuel item depth false .any none ⟨c, nr⟩ acc) bs rest
          (acc.reverse ++ (os ++ osMore)) := by
  cases c with
  | zero => exact accAll_items_zero cfg S _ item bs vs r1 os depth nr h hobs
  | succ c =>
    intro K rest osMore hK fuel acc hf
    simp only [decodeItemsL] at h
    split at h
    · cases h
    · rename_i v r0 hd
      split at h
      · cases h
      · rename_i vs' r1' hi
        simp only [Option.some.injEq, Prod.mk.injEq] at h
        obtain ⟨rfl, rfl⟩ := h
        simp only [observeList] at hobs
        split at hobs
        · rename_i o os0 ho hos
          simp only [Option.some.injEq] at hobs
          subst hobs
          simp only [depthItems] at hdepth
          simp only [maxLenItems] at hmax
          simp only [sizeItems] at hf
          obtain ⟨g, rfl⟩ : ∃ g, fuel = g + 1 := ⟨fuel - 1, by omega⟩
          rw [deSeqLoop]
          simp only [reduceCtorEq, if_false, Option.map_none]
          refine ReadsAt.bind (readsAt_hasMore_succ cfg false c nr bs) ?_
          simp only [Bool.not_true, Bool.false_eq_true, if_false]
          refine ReadsAt.bind (ih.dec item bs v r0 o depth g hd ho (by omega) (by omega) (by omega)) ?_
          have := ih.items item c r0 vs' r1' os0 depth nr hi hos (by omega) (by omega) K rest osMore hK
            g (o :: acc) (by omega)
          exact this.congr rfl (by simp)
        · cases hobs

theorem accAll_succ_blocks (fS : Nat) (ih : AccAll cfg S fS) (item : Node)
    (bs : Bytes) (vs : List Value) (rest : Bytes) (os : List Out) (depth nr : Nat)
    (h : decodeBlocksL Limits.impl S (fS + 1) item bs = some (vs, rest))
    (hobs : observeList S item vs = some os) (hdepth : depthItems vs ≤ depth)
    (hmax : maxLenItems vs ≤ cfg.maxSeqSize) (hnr : nr + vs.length ≤ cfg.maxSeqSize) :
    ∀ fuel acc, 3 * sizeItems vs + 1 ≤ fuel →
      ReadsAt (deSeqLoop deExtModel cfg S fuel item depth false .any none ⟨0, nr⟩ acc) bs rest
        (acc.reverse ++ os) := by
  intro fuel acc hf
  obtain ⟨g, rfl⟩ : ∃ g, fuel = g + 1 := ⟨fuel - 1, by omega⟩
  simp only [decodeBlocksL] at h
  split at h
  · cases h
  · rename_i r0 hh
    simp only [Option.some.injEq, Prod.mk.injEq] at h
    obtain ⟨rfl, rfl⟩ := h
    simp only [observeList, Option.some.injEq] at hobs
    subst hobs
    rw [deSeqLoop]
    simp only [reduceCtorEq, if_false]
    refine ReadsAt.bind (readsAt_hasMore_end cfg nr hh) ?_
    simp only [Bool.not_false, if_true, List.append_nil]
    exact ReadsAt.pure _ _
  · rename_i c r0 hc hh
    split at h
    · cases h
    · rename_i vs1 r1 hi
      split at h
      · cases h
      · rename_i more r2 hb
        simp only [Option.some.injEq, Prod.mk.injEq] at h
        obtain ⟨rfl, rfl⟩ := h
        obtain ⟨o1, o2, ho1, ho2, rfl⟩ := observeList_append S item vs1 more os hobs
        have hlen := decodeItemsL_length _ _ _ _ _ _ _ _ hi
        rw [depthItems_append] at hdepth
        rw [maxLenItems_append] at hmax
        rw [sizeItems_append] at hf
        rw [List.length_append] at hnr
        have hcpos : 0 < c := by
          rcases Nat.eq_zero_or_pos c with h0 | h0
          · exact absurd h0 hc
          · exact h0
        -- the loop after the header is the loop inside the block
        have key := ih.items item c r0 vs1 r1 o1 depth (nr + c) hi ho1 (by omega) (by omega)
          (3 * sizeItems more + 1) r2 o2
          (fun fuel acc hK => ih.blocks item r1 more r2 o2 depth (nr + c) hb ho2 (by omega) (by omega)
            (by omega) fuel acc hK)
          (g + 1) acc (by omega)
        obtain ⟨c', rfl⟩ : ∃ c', c = c' + 1 := ⟨c - 1, by omega⟩
        rw [deSeqLoop] at key ⊢
        simp only [reduceCtorEq, if_false, Option.map_none] at key ⊢
        intro s hs
        have key' := key s hs
        rw [DeM.bind_apply] at key' ⊢
        rw [readsAt_hasMore_count cfg nr hh (by omega) (by omega) s hs]
        rw [readsAt_hasMore_succ cfg false c' (nr + (c' + 1)) r0 s hs] at key'
        simp only [Nat.add_sub_cancel] at key' ⊢
        exact key'

theorem accAll_succ_mitems (fS : Nat) (ih : AccAll cfg S fS) (item : Node) (c : Nat)
    (bs : Bytes) (es : List (String × Value)) (r1 : Bytes) (os : List (Out × Out)) (depth nr : Nat)
    (h : decodeMapItemsL Limits.impl S (fS + 1) item c bs = some (es, r1))
    (hobs : observeEntries S item es = some os) (hdepth : depthEntries es ≤ depth)
    (hmax : maxLenEntries es ≤ cfg.maxSeqSize) :
    ∀ K rest osMore,
      (∀ fuel acc, K ≤ fuel →
        ReadsAt (deMapLoop deExtModel cfg S fuel item depth false .any ⟨0, nr⟩ acc) r1 rest
          (acc.reverse ++ osMore)) →
      ∀ fuel acc, 3 * sizeEntries es + K ≤ fuel →
        ReadsAt (deMapLoop deExtModel cfg S fuel item depth false .any ⟨c, nr⟩ acc) bs rest
          (acc.reverse ++ (os ++ osMore)) := by
  cases c with
  | zero =>
    intro K rest osMore hK fuel acc hf
    simp only [decodeMapItemsL, Option.some.injEq, Prod.mk.injEq] at h
    obtain ⟨rfl, rfl⟩ := h
    simp only [observeEntries, Option.some.injEq] at hobs
    subst hobs
    exact hK fuel acc (by omega)
  | succ c =>
    intro K rest osMore hK fuel acc hf
    simp only [decodeMapItemsL] at h
    split at h
    · cases h
    · rename_i k r0 hs
      split at h
      · cases h
      · rename_i v r0' hd
        split at h
        · cases h
        · rename_i es' r1' hi
          simp only [Option.some.injEq, Prod.mk.injEq] at h
          obtain ⟨rfl, rfl⟩ := h
          simp only [observeEntries] at hobs
          split at hobs
          · rename_i o os0 ho hos
            simp only [Option.some.injEq] at hobs
            subst hobs
            simp only [depthEntries] at hdepth
            simp only [maxLenEntries] at hmax
            simp only [sizeEntries] at hf
            obtain ⟨g, rfl⟩ : ∃ g, fuel = g + 1 := ⟨fuel - 1, by omega⟩
            obtain ⟨n, r, b, hlen, htake, hutf⟩ := decodeStringL_inv hs
            rw [deMapLoop]
            refine ReadsAt.bind (readsAt_hasMore_succ cfg false c nr bs) ?_
            simp only [Bool.not_true, Bool.false_eq_true, if_false]
            refine ReadsAt.bind (readsAt_readLen hlen) ?_
            refine ReadsAt.bind (readsAt_readSlice htake) ?_
            simp only [Hint.key, bytesToStr?, hutf]
            refine ReadsAt.bind (ReadsAt.pure _ _) ?_
            simp only [Hint.valFor]
            refine ReadsAt.bind
              (ih.dec item r0 v r0' o depth g hd ho (by omega) (by omega) (by omega)) ?_
            have := ih.mitems item c r0' es' r1' os0 depth nr hi hos (by omega) (by omega) K rest
              osMore hK g ((.str k true, o) :: acc) (by omega)
            exact this.congr rfl (by simp)
          · cases hobs

theorem accAll_succ_mblocks (fS : Nat) (ih : AccAll cfg S fS) (item : Node)
    (bs : Bytes) (es : List (String × Value)) (rest : Bytes) (os : List (Out × Out))
    (depth nr : Nat)
    (h : decodeMapBlocksL Limits.impl S (fS + 1) item bs = some (es, rest))
    (hobs : observeEntries S item es = some os) (hdepth : depthEntries es ≤ depth)
    (hmax : maxLenEntries es ≤ cfg.maxSeqSize) (hnr : nr + es.length ≤ cfg.maxSeqSize) :
    ∀ fuel acc, 3 * sizeEntries es + 1 ≤ fuel →
      ReadsAt (deMapLoop deExtModel cfg S fuel item depth false .any ⟨0, nr⟩ acc) bs rest
        (acc.reverse ++ os) := by
  intro fuel acc hf
  obtain ⟨g, rfl⟩ : ∃ g, fuel = g + 1 := ⟨fuel - 1, by omega⟩
  simp only [decodeMapBlocksL] at h
  split at h
  · cases h
  · rename_i r0 hh
    simp only [Option.some.injEq, Prod.mk.injEq] at h
    obtain ⟨rfl, rfl⟩ := h
    simp only [observeEntries, Option.some.injEq] at hobs
    subst hobs
    rw [deMapLoop]
    refine ReadsAt.bind (readsAt_hasMore_end cfg nr hh) ?_
    simp only [Bool.not_false, if_true, List.append_nil]
    exact ReadsAt.pure _ _
  · rename_i c r0 hc hh
    split at h
    · cases h
    · rename_i es1 r1 hi
      split at h
      · cases h
      · rename_i more r2 hb
        simp only [Option.some.injEq, Prod.mk.injEq] at h
        obtain ⟨rfl, rfl⟩ := h
        obtain ⟨o1, o2, ho1, ho2, rfl⟩ := observeEntries_append S item es1 more os hobs
        have hlen := decodeMapItemsL_length _ _ _ _ _ _ _ _ hi
        rw [depthEntries_append] at hdepth
        rw [maxLenEntries_append] at hmax
        rw [sizeEntries_append] at hf
        rw [List.length_append] at hnr
        have hcpos : 0 < c := by
          rcases Nat.eq_zero_or_pos c with h0 | h0
          · exact absurd h0 hc
          · exact h0
        have key := ih.mitems item c r0 es1 r1 o1 depth (nr + c) hi ho1 (by omega) (by omega)
          (3 * sizeEntries more + 1) r2 o2
          (fun fuel acc hK => ih.mblocks item r1 more r2 o2 depth (nr + c) hb ho2 (by omega)
            (by omega) (by omega) fuel acc hK)
          (g + 1) acc (by omega)
        obtain ⟨c', rfl⟩ : ∃ c', c = c' + 1 := ⟨c - 1, by omega⟩
        rw [deMapLoop] at key ⊢
        intro s hs
        have key' := key s hs
        rw [DeM.bind_apply] at key' ⊢
        rw [readsAt_hasMore_count cfg nr hh (by omega) (by omega) s hs]
        rw [readsAt_hasMore_succ cfg false c' (nr + (c' + 1)) r0 s hs] at key'
        simp only [Nat.add_sub_cancel] at key' ⊢
        exact key'

theorem accAll_succ_fields (fS : Nat) (ih : AccAll cfg S fS) :
    ∀ (fields : List (String × Nat)) (bs : Bytes) (vals : List Value) (rest : Bytes)
      (os : List (Out × Out)) (depth : Nat),
    decodeFieldsL Limits.impl S (fS + 1) (fields.map (·.2)) bs = some (vals, rest) →
    observeFields S fields vals = some os → depthItems vals ≤ depth →
    maxLenItems vals ≤ cfg.maxSeqSize →
    ∀ fuel acc, 3 * sizeItems vals ≤ fuel →
      ReadsAt (deRecordFields deExtModel cfg S fuel fields depth .any acc) bs rest
        (acc.reverse ++ os) := by
  intro fields bs vals rest os depth h hobs hdepth hmax fuel acc hf
  cases fields with
  | nil =>
    simp only [List.map_nil, decodeFieldsL, Option.some.injEq, Prod.mk.injEq] at h
    obtain ⟨rfl, rfl⟩ := h
    simp only [observeFields, Option.some.injEq] at hobs
    subst hobs
    rw [deRecordFields]
    simp only [List.append_nil]
    exact ReadsAt.pure _ _
  | cons fk fs =>
    obtain ⟨name, k⟩ := fk
    simp only [List.map_cons, decodeFieldsL, nodeOf] at h
    split at h
    · cases h
    · rename_i fnode hnode
      split at h
      · cases h
      · rename_i v r0 hd
        split at h
        · cases h
        · rename_i vs r1 hi
          simp only [Option.some.injEq, Prod.mk.injEq] at h
          obtain ⟨rfl, rfl⟩ := h
          simp only [observeFields, hnode] at hobs
          split at hobs
          · rename_i o os0 ho hos
            simp only [Option.some.injEq] at hobs
            subst hobs
            simp only [depthItems] at hdepth
            simp only [maxLenItems] at hmax
            simp only [sizeItems] at hf
            obtain ⟨g, rfl⟩ : ∃ g, fuel = g + 1 := ⟨fuel - 1, by omega⟩
            rw [deRecordFields]
            simp only [hnode, Hint.valFor, Hint.key, offerName]
            refine ReadsAt.bind
              (ih.dec fnode bs v r0 o depth g hd ho (by omega) (by omega) (by omega)) ?_
            have := ih.fields fs r0 vs r1 os0 depth hi hos (by omega) (by omega) g
              ((.str name false, o) :: acc) (by omega)
            exact this.congr rfl (by simp)
          · cases hobs

theorem durationOut_any' (b : Bytes) (h12 : b.length = 12) :
    durationOut b .any =
      .map [(.str "months" false, .u32 (leToNat (b.take 4))),
            (.str "days" false, .u32 (leToNat ((b.drop 4).take 4))),
            (.str "milliseconds" false, .u32 (leToNat (b.drop 8)))] := by
  have t3 : (b.drop (4 * 2)).take 4 = b.drop 8 := List.take_of_length_le (by simp; omega)
  simp only [durationOut, Hint.key, offerName, Hint.valFor, isIgnoredHint, Bool.false_eq_true,
    if_false, t3, Nat.mul_zero, List.drop_zero, Nat.mul_one]

theorem accAll_succ_dec (fS : Nat) (ih : AccAll cfg S fS) (n : Node) (bs : Bytes) (v : Value)
    (rest : Bytes) (o : Out) (depth fuel : Nat)
    (h : decodeL Limits.impl S (fS + 1) n bs = some (v, rest))
    (hobs : observe S n v = some o) (hdepth : depthOf v ≤ depth)
    (hmax : maxLen v ≤ cfg.maxSeqSize) (hfuel : 3 * size v ≤ fuel) :
    ReadsAt (de deExtModel cfg S fuel n depth false .any) bs rest o := by
  have hsz := size_pos v
  obtain ⟨f, rfl⟩ : ∃ f, fuel = f + 2 := ⟨fuel - 2, by omega⟩
  rw [de_any_succ]
  cases n with
  | null =>
    rw [deAny]
    simp only [decodeL, Option.some.injEq, Prod.mk.injEq] at h
    obtain ⟨rfl, rfl⟩ := h
    simp only [observe, Option.some.injEq] at hobs
    subst hobs
    exact ReadsAt.pure _ _
  | boolean =>
    rw [deAny]
    simp only [decodeL] at h
    split at h
    · rename_i b r
      split at h
      · rename_i hb
        simp only [Option.some.injEq, Prod.mk.injEq] at h
        obtain ⟨rfl, rfl⟩ := h
        simp only [observe, Option.some.injEq] at hobs
        subst hobs hb
        exact readsAt_readBool_false _
      · split at h
        · rename_i hb
          simp only [Option.some.injEq, Prod.mk.injEq] at h
          obtain ⟨rfl, rfl⟩ := h
          simp only [observe, Option.some.injEq] at hobs
          subst hobs hb
          exact readsAt_readBool_true _
        · cases h
    · cases h
  | int | date | timeMillis =>
    rw [deAny]
    simp only [decodeL] at h
    split at h
    · rename_i i r hd
      split at h
      · rename_i h32
        simp only [Option.some.injEq, Prod.mk.injEq] at h
        obtain ⟨rfl, rfl⟩ := h
        simp only [observe, Option.some.injEq] at hobs
        subst hobs
        exact ReadsAt.map_pure _ (readsAt_varint_i32 hd h32)
      · cases h
    · cases h
  | long | timeMicros | timestampMillis | timestampMicros =>
    rw [deAny]
    simp only [decodeL] at h
    split at h
    · rename_i i r hd
      simp only [Option.some.injEq, Prod.mk.injEq] at h
      obtain ⟨rfl, rfl⟩ := h
      simp only [observe, Option.some.injEq] at hobs
      subst hobs
      exact ReadsAt.map_pure _ (readsAt_varint_i64 hd)
    · cases h
  | float =>
    rw [deAny]
    simp only [decodeL, Option.map_eq_some_iff] at h
    obtain ⟨⟨b, r⟩, hb, h⟩ := h
    simp only [Prod.mk.injEq] at h
    obtain ⟨rfl, rfl⟩ := h
    simp only [observe, Option.some.injEq] at hobs
    subst hobs
    exact ReadsAt.map_pure _ (readsAt_readExact hb)
  | double =>
    rw [deAny]
    simp only [decodeL, Option.map_eq_some_iff] at h
    obtain ⟨⟨b, r⟩, hb, h⟩ := h
    simp only [Prod.mk.injEq] at h
    obtain ⟨rfl, rfl⟩ := h
    simp only [observe, Option.some.injEq] at hobs
    subst hobs
    exact ReadsAt.map_pure _ (readsAt_readExact hb)
  | bytes =>
    rw [deAny]
    simp only [decodeL, Option.map_eq_some_iff] at h
    obtain ⟨⟨b, r⟩, hb, h⟩ := h
    simp only [Prod.mk.injEq] at h
    obtain ⟨rfl, rfl⟩ := h
    simp only [observe, Option.some.injEq] at hobs
    subst hobs
    exact readsAt_readBytes hb
  | string | uuid =>
    rw [deAny]
    simp only [decodeL, Option.map_eq_some_iff] at h
    obtain ⟨⟨b, r⟩, hb, h⟩ := h
    simp only [Prod.mk.injEq] at h
    obtain ⟨rfl, rfl⟩ := h
    simp only [observe, Option.some.injEq] at hobs
    subst hobs
    exact readsAt_readString hb
  | fixed nm size =>
    rw [deAny]
    simp only [decodeL, Option.map_eq_some_iff] at h
    obtain ⟨⟨b, r⟩, hb, h⟩ := h
    simp only [Prod.mk.injEq] at h
    obtain ⟨rfl, rfl⟩ := h
    simp only [observe, Option.some.injEq] at hobs
    subst hobs
    exact ReadsAt.bind (readsAt_readSlice hb) (ReadsAt.pure _ _)
  | duration =>
    rw [deAny]
    simp only [decodeL, Option.map_eq_some_iff] at h
    obtain ⟨⟨b, r⟩, hb, h⟩ := h
    simp only [Prod.mk.injEq] at h
    obtain ⟨rfl, rfl⟩ := h
    simp only [observe, Option.some.injEq] at hobs
    subst hobs
    have := ReadsAt.map_pure (fun b => durationOut b .any) (readsAt_readExact hb)
    rw [durationOut_any' b (takeN_eq hb).2] at this
    exact this
  | «enum» nm syms =>
    rw [deAny]
    simp only [decodeL] at h
    split at h
    · rename_i idx r hd
      split at h
      · rename_i hi
        simp only [Option.some.injEq, Prod.mk.injEq] at h
        obtain ⟨rfl, rfl⟩ := h
        simp only [observe, List.getElem?_eq_getElem hi, Option.map_some, Option.some.injEq] at hobs
        subst hobs
        refine ReadsAt.bind (readsAt_readLen hd) ?_
        simp only [List.getElem?_eq_getElem hi]
        exact ReadsAt.pure _ _
      · cases h
    · cases h
  | decimal sc pr repr =>
    rw [deAny]
    cases repr with
    | bytes =>
      simp only [decodeL] at h
      split at h
      · rename_i m r hb
        split at h
        · rename_i hfit
          simp only [Option.some.injEq, Prod.mk.injEq] at h
          obtain ⟨rfl, rfl⟩ := h
          simp only [observe, Option.map_eq_some_iff] at hobs
          obtain ⟨str, hstr, rfl⟩ := hobs
          simp only [Limits.impl, fitsOpt, decide_eq_true_eq] at hfit
          exact readsAt_readDecimal_bytes deExtModel sc _ str hb hfit (i128OfBE_eq m) hstr
        · cases h
      · cases h
    | fixed nm size =>
      simp only [decodeL] at h
      split at h
      · rename_i hfit
        simp only [Option.map_eq_some_iff] at h
        obtain ⟨⟨m, r⟩, hb, h⟩ := h
        simp only [Prod.mk.injEq] at h
        obtain ⟨rfl, rfl⟩ := h
        simp only [observe, Option.map_eq_some_iff] at hobs
        obtain ⟨str, hstr, rfl⟩ := hobs
        simp only [Limits.impl, fitsOpt, decide_eq_true_eq] at hfit
        exact readsAt_readDecimal_fixed deExtModel sc nm size _ str hb hfit (i128OfBE_eq m) hstr
      · cases h
  | bigDecimal =>
    rw [deAny]
    simp only [decodeL] at h
    split at h
    · cases h
    · rename_i inner r h0
      split at h
      · cases h
      · rename_i m inner' h1
        split at h
        · rename_i hfit
          split at h
          · rename_i scale h2
            simp only [Option.some.injEq, Prod.mk.injEq] at h
            obtain ⟨rfl, rfl⟩ := h
            simp only [observe, Option.map_eq_some_iff] at hobs
            obtain ⟨str, hstr, rfl⟩ := hobs
            simp only [Limits.impl, fitsOpt, decide_eq_true_eq] at hfit
            exact readsAt_readDecimal_big deExtModel _ str h0 h1 h2 hfit
              (decToStringModel_some hstr).2 (i128OfBE_eq m) hstr
          · cases h
        · cases h
  | array k =>
    rw [deAny]
    simp only [decodeL, nodeOf] at h
    split at h
    · cases h
    · rename_i item hitem
      simp only [Option.map_eq_some_iff] at h
      obtain ⟨⟨vs, r⟩, hb, h⟩ := h
      simp only [Prod.mk.injEq] at h
      obtain ⟨rfl, rfl⟩ := h
      simp only [observe, hitem, Option.map_eq_some_iff] at hobs
      obtain ⟨os, hos, rfl⟩ := hobs
      simp only [depthOf] at hdepth
      simp only [maxLen] at hmax
      simp only [size] at hfuel
      obtain ⟨d, rfl⟩ : ∃ d, depth = d + 1 := ⟨depth - 1, by omega⟩
      simp only [hitem]
      refine ReadsAt.bind (ReadsAt.pure d _) ?_
      have := ih.blocks item bs vs r os d 0 hb hos (by omega) (by omega) (by omega) f [] (by omega)
      exact ReadsAt.bind this (ReadsAt.pure _ _)
  | map k =>
    rw [deAny]
    simp only [decodeL, nodeOf] at h
    split at h
    · cases h
    · rename_i item hitem
      simp only [Option.map_eq_some_iff] at h
      obtain ⟨⟨es, r⟩, hb, h⟩ := h
      simp only [Prod.mk.injEq] at h
      obtain ⟨rfl, rfl⟩ := h
      simp only [observe, hitem, Option.map_eq_some_iff] at hobs
      obtain ⟨os, hos, rfl⟩ := hobs
      simp only [depthOf] at hdepth
      simp only [maxLen] at hmax
      simp only [size] at hfuel
      obtain ⟨d, rfl⟩ : ∃ d, depth = d + 1 := ⟨depth - 1, by omega⟩
      simp only [hitem]
      refine ReadsAt.bind (ReadsAt.pure d _) ?_
      have := ih.mblocks item bs es r os d 0 hb hos (by omega) (by omega) (by omega) f [] (by omega)
      exact ReadsAt.bind this (ReadsAt.pure _ _)
  | union vs =>
    rw [deAny]
    simp only [decodeL, nodeOf] at h
    split at h
    · cases h
    · rename_i idx r0 hd
      split at h
      · cases h
      · rename_i k hk
        split at h
        · cases h
        · rename_i branch hbranch
          simp only [Option.map_eq_some_iff] at h
          obtain ⟨⟨v', r⟩, hb, h⟩ := h
          simp only [Prod.mk.injEq] at h
          obtain ⟨rfl, rfl⟩ := h
          simp only [observe, hk, hbranch] at hobs
          simp only [depthOf] at hdepth
          simp only [maxLen] at hmax
          simp only [size] at hfuel
          obtain ⟨d, rfl⟩ : ∃ d, depth = d + 1 := ⟨depth - 1, by omega⟩
          refine ReadsAt.bind (readsAt_readLen hd) ?_
          simp only [hk, hbranch]
          refine ReadsAt.bind (ReadsAt.pure d _) ?_
          have := ih.dec branch r0 v' r o d (f + 1) hb hobs (by omega) hmax (by omega)
          rw [de_any_succ] at this
          exact this
  | record nm fields =>
    rw [deAny]
    simp only [decodeL, Option.map_eq_some_iff] at h
    obtain ⟨⟨vals, r⟩, hb, h⟩ := h
    simp only [Prod.mk.injEq] at h
    obtain ⟨rfl, rfl⟩ := h
    simp only [observe, Option.map_eq_some_iff] at hobs
    obtain ⟨os, hos, rfl⟩ := hobs
    simp only [depthOf] at hdepth
    simp only [maxLen] at hmax
    simp only [size] at hfuel
    obtain ⟨d, rfl⟩ : ∃ d, depth = d + 1 := ⟨depth - 1, by omega⟩
    refine ReadsAt.bind (ReadsAt.pure d _) ?_
    have := ih.fields fields bs vals r os d hb hos (by omega) (by omega) f [] (by omega)
    exact ReadsAt.bind this (ReadsAt.pure _ _)

theorem accAll_zero : AccAll cfg S 0 := by
  refine ⟨?_, ?_, ?_, ?_, ?_, ?_⟩
  · intro n bs v rest o depth fuel h; simp [decodeL] at h
  · intro item bs vs rest os depth nr h; simp [decodeBlocksL] at h
  · intro item c bs vs r1 os depth nr h hobs _ _
    cases c with
    | zero => exact accAll_items_zero cfg S 0 item bs vs r1 os depth nr h hobs
    | succ c => simp [decodeItemsL] at h
  · intro item bs es rest os depth nr h; simp [decodeMapBlocksL] at h
  · intro item c bs es r1 os depth nr h hobs _ _
    cases c with
    | zero =>
      intro K rest osMore hK fuel acc hf
      simp only [decodeMapItemsL, Option.some.injEq, Prod.mk.injEq] at h
      obtain ⟨rfl, rfl⟩ := h
      simp only [observeEntries, Option.some.injEq] at hobs
      subst hobs
      exact hK fuel acc (by omega)
    | succ c => simp [decodeMapItemsL] at h
  · intro fields bs vals rest os depth h hobs _ _ fuel acc _
    cases fields with
    | nil =>
      simp only [List.map_nil, decodeFieldsL, Option.some.injEq, Prod.mk.injEq] at h
      obtain ⟨rfl, rfl⟩ := h
      simp only [observeFields, Option.some.injEq] at hobs
      subst hobs
      rw [deRecordFields]
      simp only [List.append_nil]
      exact ReadsAt.pure _ _
    | cons fk fs => simp [decodeFieldsL] at h

theorem accAll : ∀ fS, AccAll cfg S fS := by
  intro fS
  induction fS with
  | zero => exact accAll_zero cfg S
  | succ fS ih =>
    exact ⟨accAll_succ_dec cfg S fS ih, accAll_succ_blocks cfg S fS ih,
      accAll_succ_items cfg S fS ih, accAll_succ_mblocks cfg S fS ih,
      accAll_succ_mitems cfg S fS ih, accAll_succ_fields cfg S fS ih⟩

/-- from `ReadsAt` to the statement on a concrete slice state -/
theorem ReadsAt.run {α : Type} {m : DeM α} {bs rest : Bytes} {a : α} (h : ReadsAt m bs rest a)
    (s : RState) (hs : s.isSlice = true) (hl : s.limit = none) (ha : s.avail = 0)
    (hr : s.rest = bs) : m s = (.ok a, { s with rest := rest }) := by
  have := h s ⟨hs, ha⟩
  have e1 : s.mk' bs none = s := by
    obtain ⟨isS, r, av, sched, lc, ma, scr, lim⟩ := s
    simp only at hl hr
    subst hl hr
    rfl
  have e2 : s.mk' rest none = { s with rest := rest } := by
    obtain ⟨isS, r, av, sched, lc, ma, scr, lim⟩ := s
    simp only at hl
    subst hl
    rfl
  rw [e1, e2] at this
  exact this

/-- **Acceptance, all layouts**: whatever the specification decoder accepts within the
    implementation's limits (`Limits.impl`), the deserializer reads, with the same value and the
    same remainder. -/
theorem de_accepts_layouts (v : Value) (n : Node) (bs rest : Bytes) (o : Out) (depth fuelS fuel : Nat)
    (h : decodeL Limits.impl S fuelS n bs = some (v, rest)) (hobs : observe S n v = some o)
    (hdepth : depthOf v ≤ depth) (hmax : maxLen v ≤ cfg.maxSeqSize) (hfuel : 3 * size v ≤ fuel) :
    ReadsAt (de deExtModel cfg S fuel n depth false .any) bs rest o :=
  (accAll cfg S fuelS).dec n bs v rest o depth fuel h hobs hdepth hmax hfuel

end Avro.Impl

namespace Avro.Impl
open Avro Avro.Spec

/-! ### 7. Soundness: every successful run of the deserializer is a run of the limited
    specification decoder -/

/-- every successful run of `m` on the slice (no `Take`), started on `bs`, ends on a suffix
    `rest` with a result related to it by `Q` -/
def Inv {α : Type} (m : DeM α) (bs : Bytes) (Q : α → Bytes → Prop) : Prop :=
  ∀ s, SlBase s → ∀ a s', m (s.mk' bs none) = (.ok a, s') → ∃ rest, s' = s.mk' rest none ∧ Q a rest

theorem Inv.pure {α : Type} {a : α} {bs : Bytes} {Q : α → Bytes → Prop} (h : Q a bs) :
    Inv (pure a : DeM α) bs Q := by
  intro s _ a' s' hrun
  simp only [DeM.pure_apply, Prod.mk.injEq, Except.ok.injEq] at hrun
  obtain ⟨rfl, rfl⟩ := hrun
  exact ⟨bs, rfl, h⟩

theorem Inv.fail {α : Type} (e : DeErr) (bs : Bytes) (Q : α → Bytes → Prop) :
    Inv (DeM.fail e : DeM α) bs Q := by
  intro s _ a' s' hrun
  simp [DeM.fail_apply] at hrun

theorem Inv.bind {α β : Type} {m : DeM α} {f : α → DeM β} {bs : Bytes} {Q1 : α → Bytes → Prop}
    {Q2 : β → Bytes → Prop} (h1 : Inv m bs Q1) (h2 : ∀ a r, Q1 a r → Inv (f a) r Q2) :
    Inv (m >>= f) bs Q2 := by
  intro s hs b s' hrun
  rw [DeM.bind_apply] at hrun
  cases hm : m (s.mk' bs none) with
  | mk res s1 =>
    rw [hm] at hrun
    cases res with
    | error e => simp at hrun
    | ok a =>
      simp only at hrun
      obtain ⟨r, rfl, hq⟩ := h1 s hs a s1 hm
      exact h2 a r hq s hs b s' hrun

theorem Inv.mono {α : Type} {m : DeM α} {bs : Bytes} {Q Q' : α → Bytes → Prop} (h : Inv m bs Q)
    (hq : ∀ a r, Q a r → Q' a r) : Inv m bs Q' := by
  intro s hs a s' hrun
  obtain ⟨r, hr, hq'⟩ := h s hs a s' hrun
  exact ⟨r, hr, hq _ _ hq'⟩

theorem Inv.of_readsAt_or_fail {α : Type} {m : DeM α} {bs : Bytes} {Q : α → Bytes → Prop}
    (h : (∃ a rest, ReadsAt m bs rest a ∧ Q a rest) ∨ (∀ s, SlBase s → ∀ a s', m (s.mk' bs none) ≠ (.ok a, s'))) :
    Inv m bs Q := by
  intro s hs a s' hrun
  rcases h with ⟨a0, rest, hr, hq⟩ | hf
  · rw [hr s hs] at hrun
    simp only [Prod.mk.injEq, Except.ok.injEq] at hrun
    obtain ⟨rfl, rfl⟩ := hrun
    exact ⟨rest, rfl, hq⟩
  · exact absurd hrun (hf s hs a s')

/-! #### leaves -/

theorem inv_readVarint (t : VarTy) (bs : Bytes) :
    Inv (readVarint t) bs (fun v rest => ∃ k, decodeVar t bs = some (v, k) ∧ rest = bs.drop k) := by
  intro s hs a s' hrun
  rw [readVarint_slice_eq t s hs] at hrun
  cases hd : decodeVar t bs with
  | none => rw [hd] at hrun; simp at hrun
  | some p =>
    obtain ⟨v, k⟩ := p
    rw [hd] at hrun
    simp only [Prod.mk.injEq, Except.ok.injEq] at hrun
    obtain ⟨rfl, rfl⟩ := hrun
    exact ⟨_, rfl, k, rfl, rfl⟩

theorem inv_varint_i64 (bs : Bytes) :
    Inv (readVarint .i64) bs (fun i rest => decodeLongL Limits.impl bs = some (i, rest)) :=
  (inv_readVarint .i64 bs).mono (fun i rest ⟨k, hk, hr⟩ =>
    (decodeLongL_impl_iff bs i rest).2 ⟨k, hk, hr⟩)

theorem inv_varint_i32 (bs : Bytes) :
    Inv (readVarint .i32) bs (fun i rest => decodeLongL Limits.impl bs = some (i, rest) ∧ InI32 i) := by
  refine (inv_readVarint .i32 bs).mono ?_
  rintro i rest ⟨k, hk, hr⟩
  simp only [decodeVar, decodeVarI32] at hk
  split at hk
  · cases hk
  · rename_i n s' heq
    split at hk
    · rename_i h32
      simp only [Option.some.injEq, Prod.mk.injEq] at hk
      obtain ⟨rfl, rfl⟩ := hk
      exact ⟨(decodeLongL_impl_iff bs _ rest).2 ⟨_, heq, hr⟩, h32⟩
    · cases hk

theorem inv_varint_u64 (bs : Bytes) :
    Inv (readVarint .u64) bs (fun _ rest => ∃ i, decodeLongL Limits.impl bs = some (i, rest)) := by
  refine (inv_readVarint .u64 bs).mono ?_
  rintro x rest ⟨k, hk, hr⟩
  simp only [decodeVar, Option.map_eq_some_iff] at hk
  obtain ⟨⟨n, k'⟩, hu, hk⟩ := hk
  simp only [Prod.mk.injEq] at hk
  obtain ⟨_, rfl⟩ := hk
  refine ⟨(unzigzagBV (BitVec.ofNat 64 n)).toInt, (decodeLongL_impl_iff bs _ rest).2 ⟨k', ?_, hr⟩⟩
  rw [decodeVarI64, hu]

theorem inv_readLen (bs : Bytes) :
    Inv readLen bs (fun n rest => decodeLenL Limits.impl bs = some (n, rest)) := by
  unfold readLen
  refine Inv.bind (inv_varint_i64 bs) ?_
  intro i r hd
  split
  · exact Inv.fail _ _ _
  · rename_i hneg
    refine Inv.pure ?_
    unfold decodeLenL
    rw [hd]
    have : 0 ≤ i := by omega
    simp only [this, if_true]

theorem inv_readSlice (n : Nat) (bs : Bytes) :
    Inv (readSlice n) bs (fun p rest => takeN n bs = some (p.1, rest) ∧ p.2 = true) := by
  intro s hs a s' hrun
  by_cases hn : n ≤ bs.length
  · have ht : takeN n bs = some (bs.take n, bs.drop n) := by unfold takeN; rw [if_pos hn]
    rw [readsAt_readSlice ht s hs] at hrun
    simp only [Prod.mk.injEq, Except.ok.injEq] at hrun
    obtain ⟨rfl, rfl⟩ := hrun
    exact ⟨_, rfl, ht, rfl⟩
  · obtain ⟨isS, rest, av, sched, lc, ma, scr, lim⟩ := s
    obtain ⟨h1, h2⟩ := hs
    simp only at h1 h2
    subst h1 h2
    have : n > bs.length := by omega
    simp [readSlice, RState.mk', this] at hrun

theorem SlBase.wf {s : RState} (hs : SlBase s) (bs : Bytes) (l : Option Nat) : (s.mk' bs l).WF := by
  intro h
  have := hs.isSlice
  simp only [RState.mk'_isSlice] at h
  rw [this] at h; cases h

/-- `read_exact` on the slice, possibly under a `Take` -/
theorem readExact_slice_inv (s : RState) (hs : SlBase s) (n : Nat) (bs : Bytes) (l : Option Nat)
    (b : Bytes) (s' : RState) (hrun : readExact n (s.mk' bs l) = (.ok b, s')) :
    takeN n bs = some (b, bs.drop n) ∧ (∀ x, l = some x → n ≤ x) ∧
      s' = s.mk' (bs.drop n) (l.map (· - n)) := by
  have hspec := readExact_spec n (s.mk' bs l) (hs.wf bs l)
  by_cases hn : n ≤ (s.mk' bs l).eff
  · have hlen : n ≤ bs.length ∧ ∀ x, l = some x → n ≤ x := by
      unfold RState.eff at hn
      simp only [RState.mk'_limit, RState.mk'_rest] at hn
      cases l with
      | none => exact ⟨hn, fun x hx => by cases hx⟩
      | some x =>
        simp only at hn
        exact ⟨by omega, fun y hy => by cases hy; omega⟩
    have hb : bs = bs.take n ++ bs.drop n := (List.take_append_drop n bs).symm
    have hl : (bs.take n).length = n := by simp; omega
    have := readExact_slice s hs (bs.take n) (bs.drop n) l (by rw [hl]; exact hlen.2)
    rw [← hb, hl] at this
    rw [this] at hrun
    simp only [Prod.mk.injEq, Except.ok.injEq] at hrun
    obtain ⟨rfl, rfl⟩ := hrun
    refine ⟨?_, hlen.2, rfl⟩
    unfold takeN; rw [if_pos hlen.1]
  · obtain ⟨e, s'', he⟩ := hspec.2 (by omega)
    rw [he] at hrun
    simp at hrun

theorem inv_readExact (n : Nat) (bs : Bytes) :
    Inv (readExact n) bs (fun b rest => takeN n bs = some (b, rest)) := by
  intro s hs a s' hrun
  obtain ⟨h1, _, h3⟩ := readExact_slice_inv s hs n bs none a s' hrun
  exact ⟨_, h3, h1⟩

theorem inv_readBytes (bs : Bytes) :
    Inv readBytes bs (fun o rest => ∃ b, decodeBytesL Limits.impl bs = some (b, rest) ∧
      o = .bytes b true) := by
  unfold readBytes
  refine Inv.bind (inv_readLen bs) ?_
  intro n r hd
  refine Inv.bind (inv_readSlice n r) ?_
  rintro ⟨b, borrowed⟩ r' ⟨ht, hb⟩
  simp only at ht hb
  subst hb
  refine Inv.pure ⟨b, ?_, rfl⟩
  unfold decodeBytesL
  rw [hd]; exact ht

theorem inv_readString (bs : Bytes) :
    Inv readString bs (fun o rest => ∃ str, decodeStringL Limits.impl bs = some (str, rest) ∧
      o = .str str true) := by
  unfold readString
  refine Inv.bind (inv_readLen bs) ?_
  intro n r hd
  refine Inv.bind (inv_readSlice n r) ?_
  rintro ⟨b, borrowed⟩ r' ⟨ht, hb⟩
  simp only at ht hb
  subst hb
  simp only [bytesToStr?]
  split
  · rename_i str hs
    refine Inv.pure ⟨str, ?_, rfl⟩
    unfold decodeStringL decodeBytesL
    rw [hd]
    simp only [ht, hs]
  · exact Inv.fail _ _ _

theorem inv_readBool (bs : Bytes) :
    Inv readBool bs (fun o rest => (bs = 0 :: rest ∧ o = .bool false) ∨
      (bs = 1 :: rest ∧ o = .bool true)) := by
  unfold readBool
  refine Inv.bind (inv_readSlice 1 bs) ?_
  rintro ⟨b, borrowed⟩ r ⟨ht, _⟩
  simp only at ht
  obtain ⟨rfl, hl⟩ := takeN_eq ht
  simp only
  split
  · exact Inv.pure (Or.inl ⟨rfl, rfl⟩)
  · exact Inv.pure (Or.inr ⟨rfl, rfl⟩)
  · exact Inv.fail _ _ _

/-! #### runs under a `Take` (inside a big-decimal) -/

def InvL {α : Type} (m : DeM α) (bs : Bytes) (l : Option Nat)
    (Q : α → Bytes → Option Nat → Prop) : Prop :=
  ∀ s, SlBase s → ∀ a s', m (s.mk' bs l) = (.ok a, s') → ∃ rest l', s' = s.mk' rest l' ∧ Q a rest l'

theorem InvL.pure {α : Type} {a : α} {bs : Bytes} {l : Option Nat}
    {Q : α → Bytes → Option Nat → Prop} (h : Q a bs l) : InvL (pure a : DeM α) bs l Q := by
  intro s _ a' s' hrun
  simp only [DeM.pure_apply, Prod.mk.injEq, Except.ok.injEq] at hrun
  obtain ⟨rfl, rfl⟩ := hrun
  exact ⟨bs, l, rfl, h⟩

theorem InvL.fail {α : Type} (e : DeErr) (bs : Bytes) (l : Option Nat)
    (Q : α → Bytes → Option Nat → Prop) : InvL (DeM.fail e : DeM α) bs l Q := by
  intro s _ a' s' hrun
  simp [DeM.fail_apply] at hrun

theorem InvL.bind {α β : Type} {m : DeM α} {f : α → DeM β} {bs : Bytes} {l : Option Nat}
    {Q1 : α → Bytes → Option Nat → Prop} {Q2 : β → Bytes → Option Nat → Prop}
    (h1 : InvL m bs l Q1) (h2 : ∀ a r l', Q1 a r l' → InvL (f a) r l' Q2) :
    InvL (m >>= f) bs l Q2 := by
  intro s hs b s' hrun
  rw [DeM.bind_apply] at hrun
  cases hm : m (s.mk' bs l) with
  | mk res s1 =>
    rw [hm] at hrun
    cases res with
    | error e => simp at hrun
    | ok a =>
      simp only at hrun
      obtain ⟨r, l', rfl, hq⟩ := h1 s hs a s1 hm
      exact h2 a r l' hq s hs b s' hrun

theorem aux_allcont_none (l : Bytes) : ∀ (r sh : Nat),
    (∀ x ∈ l, x.toNat &&& 0x80 ≠ 0) → decodeVarU64Aux l r sh = none := by
  induction l with
  | nil => intro r sh _; simp [decodeVarU64Aux]
  | cons b tl ih =>
    intro r sh hc
    have hb : b.toNat &&& 0x80 ≠ 0 := hc b (by simp)
    have hb2 : ¬ (b.toNat < 2) := by
      intro h2
      exact hb ((and_128_eq_zero_iff b.toNat b.toNat_lt).2 (by omega))
    rw [aux_cons]
    by_cases h1 : sh + 7 > 63
    · simp only [h1, hb2, if_true, if_false]
    · simp only [h1, hb, if_false]
      exact ih _ _ (fun x hx => hc x (by simp [hx]))

theorem decodeVar_allcont_none (t : VarTy) (buf : Bytes) (hc : ∀ x ∈ buf, x.toNat &&& 0x80 ≠ 0) :
    decodeVar t buf = none := by
  have : decodeVarU64 buf = none := aux_allcont_none buf 0 0 hc
  cases t <;> simp [decodeVar, decodeVarI32, decodeVarI64, decodeVarU32, this]

theorem getLast_cont {buf : Bytes} (hc : ∀ x ∈ buf, x.toNat &&& 0x80 ≠ 0) :
    ¬ (buf ≠ [] ∧ (buf.getLast?.getD 0).toNat &&& 0x80 = 0) := by
  rintro ⟨hne, hz⟩
  cases h : buf.getLast? with
  | none => exact absurd (List.getLast?_eq_none_iff.1 h) hne
  | some x =>
    rw [h] at hz
    simp only [Option.getD_some] at hz
    exact hc x (List.mem_of_getLast? h) hz

/-- once the buffer ends with a terminator the processor stops and decodes it -/
theorem varintProcessor_term (t : VarTy) (fuel : Nat) (buf : Bytes) (b : UInt8)
    (hb : b.toNat &&& 0x80 = 0) (st : RState) :
    varintProcessor t fuel (buf ++ [b]) st =
      match decodeVar t (buf ++ [b]) with
      | some (v, _) => (.ok v, st)
      | none => (.error .io, st) := by
  cases fuel with
  | zero =>
    rw [varintProcessor]
    cases decodeVar t (buf ++ [b]) with
    | none => rfl
    | some p => rfl
  | succ f =>
    rw [varintProcessor]
    have hc : (buf ++ [b]) ≠ [] ∧ ((buf ++ [b]).getLast?.getD 0).toNat &&& 0x80 = 0 := by
      refine ⟨by simp, ?_⟩
      simp only [List.getLast?_append, List.getLast?_singleton, Option.some_or, Option.getD_some]
      exact hb
    rw [if_pos hc]
    cases decodeVar t (buf ++ [b]) with
    | none => rfl
    | some p => rfl

theorem exists_of_fst {α : Type} {st : RState} {m : DeM α} {a : α} (h : (m st).1 = .ok a) :
    ∃ s1, m st = (.ok a, s1) := ⟨(m st).2, Prod.ext h rfl⟩

theorem readSome_one_slice (s : RState) (hs : SlBase s) (bs : Bytes) (l : Nat) :
    (∃ s1, readSome 1 (s.mk' bs (some l)) = (.ok [], s1) ∧ (l = 0 ∨ bs = [])) ∨
    (∃ b tl, bs = b :: tl ∧ 1 ≤ l ∧
      readSome 1 (s.mk' bs (some l)) = (.ok [b], s.mk' tl (some (l - 1)))) := by
  cases bs with
  | nil =>
    left
    by_cases hl : l = 0
    · subst hl
      obtain ⟨s1, h1⟩ := exists_of_fst (m := readSome 1) (st := s.mk' [] (some 0)) (a := [])
        (by simp [readSome, RState.mk'])
      exact ⟨s1, h1, Or.inl rfl⟩
    · obtain ⟨isS, rest, av, sched, lc, ma, scr, lim⟩ := s
      obtain ⟨h1, h2⟩ := hs
      simp only at h1 h2
      subst h1 h2
      have : ¬ (min 1 l = 0) := by omega
      obtain ⟨s1, h1⟩ := exists_of_fst (m := readSome 1)
        (st := RState.mk' ⟨true, rest, 0, sched, lc, ma, scr, lim⟩ [] (some l)) (a := [])
        (by simp [readSome, RState.mk', fillBuf, consume, this])
      exact ⟨s1, h1, Or.inr rfl⟩
  | cons b tl =>
    by_cases hl : l = 0
    · subst hl
      left
      obtain ⟨s1, h1⟩ := exists_of_fst (m := readSome 1) (st := s.mk' (b :: tl) (some 0)) (a := [])
        (by simp [readSome, RState.mk'])
      exact ⟨s1, h1, Or.inl rfl⟩
    · right
      refine ⟨b, tl, rfl, by omega, ?_⟩
      have := readSome_slice s hs [b] tl (some l) 0 rfl (by intro x hx; cases hx; omega)
      simpa using this

theorem varintProcessor_inv (t : VarTy) (s : RState) (hs : SlBase s) : ∀ (fuel : Nat)
    (buf bs : Bytes) (l : Nat) (i : Int) (s' : RState), (∀ x ∈ buf, x.toNat &&& 0x80 ≠ 0) →
    varintProcessor t fuel buf (s.mk' bs (some l)) = (.ok i, s') →
    ∃ pre last r, bs = pre ++ last :: r ∧ (∀ x ∈ pre, x.toNat &&& 0x80 ≠ 0) ∧
      last.toNat &&& 0x80 = 0 ∧ pre.length + 1 ≤ l ∧ buf.length + pre.length + 1 ≤ t.maxSize ∧
      (∃ k, decodeVar t (buf ++ pre ++ [last]) = some (i, k)) ∧
      s' = s.mk' r (some (l - (pre.length + 1))) := by
  intro fuel
  induction fuel with
  | zero =>
    intro buf bs l i s' hc hrun
    rw [varintProcessor, decodeVar_allcont_none t buf hc] at hrun
    simp [DeM.fail_apply] at hrun
  | succ f ih =>
    intro buf bs l i s' hc hrun
    rw [varintProcessor, if_neg (getLast_cont hc), DeM.bind_apply] at hrun
    rcases readSome_one_slice s hs bs l with ⟨s1, h1, _⟩ | ⟨b, tl, rfl, hl, h1⟩
    · rw [h1] at hrun
      simp only at hrun
      split at hrun
      · simp [DeM.fail_apply] at hrun
      · rw [decodeVar_allcont_none t buf hc] at hrun
        simp [DeM.fail_apply] at hrun
    · rw [h1] at hrun
      simp only at hrun
      split at hrun
      · simp [DeM.fail_apply] at hrun
      · rename_i hsz
        by_cases hb : b.toNat &&& 0x80 = 0
        · rw [varintProcessor_term t f buf b hb] at hrun
          cases hd : decodeVar t (buf ++ [b]) with
          | none => rw [hd] at hrun; simp at hrun
          | some p =>
            obtain ⟨v, k⟩ := p
            rw [hd] at hrun
            simp only [Prod.mk.injEq, Except.ok.injEq] at hrun
            obtain ⟨rfl, rfl⟩ := hrun
            refine ⟨[], b, tl, rfl, by simp, hb, by simpa using hl, by simp at hsz ⊢; omega,
              ⟨k, by simpa using hd⟩, rfl⟩
        · have hc' : ∀ x ∈ buf ++ [b], x.toNat &&& 0x80 ≠ 0 := by
            intro x hx
            rcases List.mem_append.1 hx with hx | hx
            · exact hc x hx
            · simp only [List.mem_singleton] at hx; subst hx; exact hb
          obtain ⟨pre, last, r, rfl, hp, hlast, hl', hsz', ⟨k, hk⟩, hs'⟩ :=
            ih (buf ++ [b]) tl (l - 1) i s' hc' hrun
          refine ⟨b :: pre, last, r, rfl, ?_, hlast, by simp; omega, by simp at hsz' ⊢; omega,
            ⟨k, by simpa using hk⟩, ?_⟩
          · intro x hx
            rcases List.mem_cons.1 hx with rfl | hx
            · exact hb
            · exact hp x hx
          · rw [hs']
            simp only [List.length_cons]
            congr 2
            omega

theorem invL_varintProcessor (bs : Bytes) (L : Nat) :
    InvL (varintProcessor .i64 12 []) bs (some L) (fun i rest l' =>
      ∃ c, bs = c ++ rest ∧ c.length ≤ L ∧ l' = some (L - c.length) ∧
        ∀ r', decodeLongL Limits.impl (c ++ r') = some (i, r')) := by
  intro s hs i s' hrun
  obtain ⟨pre, last, r, rfl, hp, hlast, hl, hsz, ⟨k, hk⟩, rfl⟩ :=
    varintProcessor_inv .i64 s hs 12 [] bs L i s' (by simp) hrun
  refine ⟨r, _, rfl, pre ++ [last], by simp, by simpa using hl, by simp, ?_⟩
  intro r'
  simp only [List.nil_append] at hk
  simp only [List.length_nil, Nat.zero_add, VarTy.maxSize] at hsz
  have hk' := (decodeVar_cont_term .i64 pre last [] hp (by omega) (Or.inl hlast)).2 i k hk
  subst hk'
  have := decodeVar_append (t := .i64) r' hk
  refine (decodeLongL_impl_iff _ _ _).2 ⟨pre.length + 1, by simpa [decodeVar] using this, ?_⟩
  rw [show pre.length + 1 = (pre ++ [last]).length by simp, List.drop_left]

theorem invL_readExact (n : Nat) (bs : Bytes) (l : Option Nat) :
    InvL (readExact n) bs l (fun b rest l' =>
      takeN n bs = some (b, rest) ∧ (∀ x, l = some x → n ≤ x) ∧ l' = l.map (· - n)) := by
  intro s hs b s' hrun
  obtain ⟨h1, h2, h3⟩ := readExact_slice_inv s hs n bs l b s' hrun
  exact ⟨_, _, h3, h1, h2, rfl⟩

theorem invL_getLimit (bs : Bytes) (l : Option Nat) :
    InvL getLimit bs l (fun a rest l' => a = l ∧ rest = bs ∧ l' = l) := by
  intro s hs a s' hrun
  simp only [getLimit, RState.mk'_limit, Prod.mk.injEq, Except.ok.injEq] at hrun
  obtain ⟨rfl, rfl⟩ := hrun
  exact ⟨bs, l, rfl, rfl, rfl, rfl⟩

theorem invL_bigDecimalBody (bs : Bytes) (L : Nat) :
    InvL bigDecimalBody bs (some L) (fun p rest l' =>
      ∃ inner m inner', bs = inner ++ rest ∧ inner.length = L ∧ l' = some 0 ∧
        decodeBytesL Limits.impl inner = some (m, inner') ∧ m.length ≤ 16 ∧
        decodeLenL Limits.impl inner' = some (p.2, []) ∧ p.1 = i128OfBE m) := by
  unfold bigDecimalBody
  refine InvL.bind (invL_varintProcessor bs L) ?_
  rintro i0 r0 l0 ⟨c0, rfl, hc0, rfl, hloc0⟩
  split
  · exact InvL.fail _ _ _ _
  · rename_i hneg
    simp only
    split
    · exact InvL.fail _ _ _ _
    · rename_i h16
      refine InvL.bind (invL_readExact _ r0 _) ?_
      rintro m r1 l1 ⟨htake, hle, rfl⟩
      obtain ⟨rfl, hmlen⟩ := takeN_eq htake
      have hle' := hle _ rfl
      simp only [Option.map_some]
      refine InvL.bind (invL_varintProcessor r1 _) ?_
      rintro i2 r2 l2 ⟨c2, rfl, hc2, rfl, hloc2⟩
      split
      · exact InvL.fail _ _ _ _
      · rename_i hsc
        refine InvL.bind (invL_getLimit _ _) ?_
        rintro left r3 l3 ⟨rfl, rfl, rfl⟩
        split
        · exact InvL.fail _ _ _ _
        · rename_i hz
          simp only [ne_eq, Decidable.not_not, Option.some.injEq] at hz
          refine InvL.pure ⟨c0 ++ (m ++ c2), m, c2, by simp, ?_, by rw [hz], ?_, by omega, ?_, rfl⟩
          · simp only [List.length_append]; omega
          · unfold decodeBytesL decodeLenL
            rw [hloc0 (m ++ c2)]
            have : 0 ≤ i0 := by omega
            simp only [this, if_true]
            exact takeN_append_of_length m c2 hmlen
          · unfold decodeLenL
            have := hloc2 []
            rw [List.append_nil] at this
            rw [this]
            have : 0 ≤ i2 := by omega
            simp only [this, if_true]

/-- the three `read_decimal` modes for a `deserialize_any` target -/
theorem inv_decimal_tail (ext : DeExt) (u : Int) (sc : Nat) (bs : Bytes) (Q : Out → Bytes → Prop)
    (hQ : ∀ str, ext.decToString u sc = some str → Q (.str str false) bs) :
    Inv (match ext.decToString u sc with
      | none => DeM.fail DeErr.custom
      | some s =>
        if DecHint.str = DecHint.f64 then
          match ext.decToF64 u sc with
          | some bits => pure (Out.f64 bits)
          | none => pure (Out.str s false)
        else pure (Out.str s false)) bs Q := by
  split
  · exact Inv.fail _ _ _
  · rename_i str hs
    simp only [reduceCtorEq, if_false]
    exact Inv.pure (hQ str hs)

theorem inv_readDecimal_bytes (ext : DeExt) (scale : Nat) (bs : Bytes) :
    Inv (readDecimal ext (.regular scale .bytes) .str) bs (fun o rest =>
      ∃ m str, decodeBytesL Limits.impl bs = some (m, rest) ∧ m.length ≤ 16 ∧
        ext.decToString (i128OfBE m) scale = some str ∧ o = .str str false) := by
  unfold readDecimal
  simp only []
  refine Inv.bind (Q1 := fun p rest => ∃ m, decodeBytesL Limits.impl bs = some (m, rest) ∧
    m.length ≤ 16 ∧ p = (i128OfBE m, scale)) ?_ ?_
  · refine Inv.bind (inv_readLen bs) ?_
    intro n r hd
    split
    · exact Inv.fail _ _ _
    · rename_i h16
      refine Inv.bind (inv_readExact n r) ?_
      intro b r' ht
      obtain ⟨_, hl⟩ := takeN_eq ht
      refine Inv.pure ⟨b, ?_, by omega, rfl⟩
      unfold decodeBytesL
      rw [hd]; exact ht
  · rintro ⟨u, sc⟩ r ⟨m, hb, hm, hp⟩
    simp only [Prod.mk.injEq] at hp
    obtain ⟨rfl, rfl⟩ := hp
    simp only []
    split <;> exact inv_decimal_tail ext _ _ r _ (fun str hs => ⟨m, str, hb, hm, hs, rfl⟩)

theorem inv_readDecimal_fixed (ext : DeExt) (scale : Nat) (nm : Name) (size : Nat) (bs : Bytes) :
    Inv (readDecimal ext (.regular scale (.fixed nm size)) .str) bs (fun o rest =>
      ∃ m str, takeN size bs = some (m, rest) ∧ size ≤ 16 ∧
        ext.decToString (i128OfBE m) scale = some str ∧ o = .str str false) := by
  unfold readDecimal
  simp only []
  refine Inv.bind (Q1 := fun p rest => ∃ m, takeN size bs = some (m, rest) ∧
    size ≤ 16 ∧ p = (i128OfBE m, scale)) ?_ ?_
  · split
    · exact Inv.fail _ _ _
    · rename_i h16
      refine Inv.bind (inv_readExact size bs) ?_
      intro b r' ht
      exact Inv.pure ⟨b, ht, by omega, rfl⟩
  · rintro ⟨u, sc⟩ r ⟨m, hb, hm, hp⟩
    simp only [Prod.mk.injEq] at hp
    obtain ⟨rfl, rfl⟩ := hp
    simp only []
    split <;> exact inv_decimal_tail ext _ _ r _ (fun str hs => ⟨m, str, hb, hm, hs, rfl⟩)

theorem inv_readDecimal_big (ext : DeExt) (bs : Bytes) :
    Inv (readDecimal ext .big .str) bs (fun o rest =>
      ∃ inner m inner' scale str, decodeBytesL Limits.impl bs = some (inner, rest) ∧
        decodeBytesL Limits.impl inner = some (m, inner') ∧ m.length ≤ 16 ∧
        decodeLenL Limits.impl inner' = some (scale, []) ∧
        ext.decToString (i128OfBE m) scale = some str ∧ o = .str str false) := by
  unfold readDecimal
  simp only []
  refine Inv.bind (Q1 := fun p rest => ∃ inner m inner', decodeBytesL Limits.impl bs = some (inner, rest) ∧
    decodeBytesL Limits.impl inner = some (m, inner') ∧ m.length ≤ 16 ∧
    decodeLenL Limits.impl inner' = some (p.2, []) ∧ p.1 = i128OfBE m) ?_ ?_
  · refine Inv.bind (inv_readLen bs) ?_
    intro n r hd
    intro s hs p s' hrun
    change (setLimit _ >>= fun _ => withLimitCleared bigDecimalBody) _ = _ at hrun
    rw [DeM.bind_apply] at hrun
    simp only [setLimit] at hrun
    unfold withLimitCleared at hrun
    have e : ({ s.mk' r none with limit := some n } : RState) = s.mk' r (some n) := rfl
    rw [e] at hrun
    cases hb : bigDecimalBody (s.mk' r (some n)) with
    | mk res s1 =>
      rw [hb] at hrun
      cases res with
      | error e => simp at hrun
      | ok q =>
        simp only [Prod.mk.injEq, Except.ok.injEq] at hrun
        obtain ⟨rfl, rfl⟩ := hrun
        obtain ⟨rest, l', rfl, inner, m, inner', rfl, hlen, rfl, h1, hm, h2, hu⟩ :=
          invL_bigDecimalBody r n s hs q s1 hb
        refine ⟨rest, rfl, inner, m, inner', ?_, h1, hm, h2, hu⟩
        unfold decodeBytesL
        rw [hd]
        exact takeN_append_of_length inner rest hlen
  · rintro ⟨u, sc⟩ r ⟨inner, m, inner', h0, h1, hm, h2, hu⟩
    simp only at h2 hu
    subst hu
    simp only []
    split <;> exact inv_decimal_tail ext _ _ r _
      (fun str hs => ⟨inner, m, inner', sc, str, h0, h1, hm, h2, hs, rfl⟩)

/-! #### the block reader -/

theorem inv_readBlockLen (k : Nat) (bs : Bytes) :
    Inv (readBlockLen false (k + 1)) bs (fun r rest => ∃ c,
      decodeBlockHeaderL Limits.impl bs = some (c, rest) ∧ r = if c = 0 then none else some c) := by
  rw [readBlockLen]
  refine Inv.bind (inv_varint_i64 bs) ?_
  intro len r hd
  split
  · rename_i hneg
    simp only [Bool.false_eq_true, if_false]
    refine Inv.bind (inv_varint_i64 r) ?_
    intro sz r' hsz
    split
    · exact Inv.fail _ _ _
    · rename_i hsz0
      refine Inv.pure ⟨(-len).toNat, ?_, rfl⟩
      unfold decodeBlockHeaderL
      rw [hd]
      have h1 : ¬ (len ≥ 0) := by omega
      simp only [h1, if_false, hsz]
      exact if_pos (Or.inl (by omega))
  · rename_i hneg
    refine Inv.pure ⟨len.toNat, ?_, ?_⟩
    · unfold decodeBlockHeaderL
      rw [hd]
      have h1 : len ≥ 0 := by omega
      simp only [h1, if_true]
    · have : (len = 0) ↔ (len.toNat = 0) := by omega
      simp only [this]

theorem inv_hasMore_succ (cfg : DeConfig) (ign : Bool) (c nr : Nat) (bs : Bytes) :
    Inv (hasMore cfg ign ⟨c + 1, nr⟩) bs (fun p rest => rest = bs ∧ p = (true, ⟨c, nr⟩)) := by
  intro s hs p s' hrun
  simp only [hasMore, Prod.mk.injEq, Except.ok.injEq] at hrun
  obtain ⟨rfl, rfl⟩ := hrun
  exact ⟨bs, rfl, rfl, rfl⟩

theorem inv_hasMore_zero (cfg : DeConfig) (nr : Nat) (bs : Bytes) :
    Inv (hasMore cfg false ⟨0, nr⟩) bs (fun p rest => ∃ c,
      decodeBlockHeaderL Limits.impl bs = some (c, rest) ∧
      ((c = 0 ∧ p = (false, ⟨0, nr⟩)) ∨
       (0 < c ∧ nr + c ≤ cfg.maxSeqSize ∧ p = (true, ⟨c - 1, nr + c⟩)))) := by
  intro s hs p s' hrun
  simp only [hasMore] at hrun
  cases hb : readBlockLen false ((s.mk' bs none).rest.length + 2) (s.mk' bs none) with
  | mk res s1 =>
    rw [hb] at hrun
    cases res with
    | error e => simp at hrun
    | ok r =>
      obtain ⟨rest, rfl, c, hh, rfl⟩ := inv_readBlockLen _ bs s hs r s1 hb
      by_cases hc : c = 0
      · subst hc
        simp only [if_true, Prod.mk.injEq, Except.ok.injEq] at hrun
        obtain ⟨rfl, rfl⟩ := hrun
        exact ⟨rest, rfl, 0, hh, Or.inl ⟨rfl, rfl⟩⟩
      · simp only [hc, if_false] at hrun
        split at hrun
        · simp at hrun
        · rename_i hmax
          simp only [Prod.mk.injEq, Except.ok.injEq] at hrun
          obtain ⟨rfl, rfl⟩ := hrun
          exact ⟨rest, rfl, c, hh, Or.inr ⟨by omega, by omega, rfl⟩⟩

/-! #### the mutual induction -/

/-- what a successful run says about the limited specification decoder -/
def SoundQ (S : Schema) (n : Node) (bs : Bytes) : Out → Bytes → Prop :=
  fun o rest => ∃ v fS, decodeL Limits.impl S fS n bs = some (v, rest) ∧ observe S n v = some o

structure SndAll (cfg : DeConfig) (S : Schema) (fuel : Nat) : Prop where
  any : ∀ n depth bs, Inv (deAny deExtModel cfg S fuel n depth .any) bs (SoundQ S n bs)
  de : ∀ n depth bs, Inv (de deExtModel cfg S fuel n depth false .any) bs (SoundQ S n bs)
  seq : ∀ item depth c nr acc bs,
    Inv (deSeqLoop deExtModel cfg S fuel item depth false .any none ⟨c, nr⟩ acc) bs
      (fun out rest => ∃ vs1 r1 more os fS,
        decodeItemsL Limits.impl S fS item c bs = some (vs1, r1) ∧
        decodeBlocksL Limits.impl S fS item r1 = some (more, rest) ∧
        observeList S item (vs1 ++ more) = some os ∧ out = acc.reverse ++ os)
  map : ∀ item depth c nr acc bs,
    Inv (deMapLoop deExtModel cfg S fuel item depth false .any ⟨c, nr⟩ acc) bs
      (fun out rest => ∃ es1 r1 more os fS,
        decodeMapItemsL Limits.impl S fS item c bs = some (es1, r1) ∧
        decodeMapBlocksL Limits.impl S fS item r1 = some (more, rest) ∧
        observeEntries S item (es1 ++ more) = some os ∧ out = acc.reverse ++ os)
  fields : ∀ fields depth acc bs,
    Inv (deRecordFields deExtModel cfg S fuel fields depth .any acc) bs
      (fun out rest => ∃ vals os fS,
        decodeFieldsL Limits.impl S fS (fields.map (·.2)) bs = some (vals, rest) ∧
        observeFields S fields vals = some os ∧ out = acc.reverse ++ os)

variable (cfg : DeConfig) (S : Schema)

theorem liftD {f f' : Nat} (hf : f ≤ f') {n : Node} {bs : Bytes} {r : Value × Bytes}
    (h : decodeL Limits.impl S f n bs = some r) : decodeL Limits.impl S f' n bs = some r :=
  (monoAll (Limits.le_refl _) S f).dec n bs r f' hf h
theorem liftB {f f' : Nat} (hf : f ≤ f') {n : Node} {bs : Bytes} {r : List Value × Bytes}
    (h : decodeBlocksL Limits.impl S f n bs = some r) : decodeBlocksL Limits.impl S f' n bs = some r :=
  (monoAll (Limits.le_refl _) S f).blocks n bs r f' hf h
theorem liftI {f f' : Nat} (hf : f ≤ f') {n : Node} {c : Nat} {bs : Bytes} {r : List Value × Bytes}
    (h : decodeItemsL Limits.impl S f n c bs = some r) :
    decodeItemsL Limits.impl S f' n c bs = some r :=
  (monoAll (Limits.le_refl _) S f).items n c bs r f' hf h
theorem liftMB {f f' : Nat} (hf : f ≤ f') {n : Node} {bs : Bytes}
    {r : List (String × Value) × Bytes}
    (h : decodeMapBlocksL Limits.impl S f n bs = some r) :
    decodeMapBlocksL Limits.impl S f' n bs = some r :=
  (monoAll (Limits.le_refl _) S f).mblocks n bs r f' hf h
theorem liftMI {f f' : Nat} (hf : f ≤ f') {n : Node} {c : Nat} {bs : Bytes}
    {r : List (String × Value) × Bytes}
    (h : decodeMapItemsL Limits.impl S f n c bs = some r) :
    decodeMapItemsL Limits.impl S f' n c bs = some r :=
  (monoAll (Limits.le_refl _) S f).mitems n c bs r f' hf h
theorem liftF {f f' : Nat} (hf : f ≤ f') {ks : List Nat} {bs : Bytes} {r : List Value × Bytes}
    (h : decodeFieldsL Limits.impl S f ks bs = some r) :
    decodeFieldsL Limits.impl S f' ks bs = some r :=
  (monoAll (Limits.le_refl _) S f).fields ks bs r f' hf h

theorem sndAll_succ_seq (g : Nat) (ih : SndAll cfg S g) (item : Node) (depth c nr : Nat)
    (acc : List Out) (bs : Bytes) :
    Inv (deSeqLoop deExtModel cfg S (g + 1) item depth false .any none ⟨c, nr⟩ acc) bs
      (fun out rest => ∃ vs1 r1 more os fS,
        decodeItemsL Limits.impl S fS item c bs = some (vs1, r1) ∧
        decodeBlocksL Limits.impl S fS item r1 = some (more, rest) ∧
        observeList S item (vs1 ++ more) = some os ∧ out = acc.reverse ++ os) := by
  rw [deSeqLoop]
  simp only [reduceCtorEq, if_false, Option.map_none]
  cases c with
  | zero =>
    refine Inv.bind (inv_hasMore_zero cfg nr bs) ?_
    rintro ⟨more, bst⟩ r0 ⟨l, hh, hcase⟩
    rcases hcase with ⟨rfl, hp⟩ | ⟨hl, hmax, hp⟩
    · simp only [Prod.mk.injEq] at hp
      obtain ⟨rfl, rfl⟩ := hp
      simp only [Bool.not_false, if_true]
      refine Inv.pure ⟨[], bs, [], [], 1, rfl, ?_, rfl, by simp⟩
      simp only [decodeBlocksL, hh]
    · simp only [Prod.mk.injEq] at hp
      obtain ⟨rfl, rfl⟩ := hp
      simp only [Bool.not_true, Bool.false_eq_true, if_false]
      refine Inv.bind (ih.de item depth r0) ?_
      rintro o r1 ⟨v, f1, hd, ho⟩
      refine (ih.seq item depth (l - 1) (nr + l) (o :: acc) r1).mono ?_
      rintro out rest ⟨vs1, r2, more, os, f2, hi, hb, hos, rfl⟩
      obtain ⟨l', rfl⟩ : ∃ l', l = l' + 1 := ⟨l - 1, by omega⟩
      simp only [Nat.add_sub_cancel] at hi
      refine ⟨[], bs, (v :: vs1) ++ more, o :: os, max f1 f2 + 3, rfl, ?_, ?_, by simp⟩
      · have e1 := liftD S (f' := max f1 f2 + 1) (by omega) hd
        have e2 := liftI S (f' := max f1 f2 + 1) (by omega) hi
        have e3 := liftB S (f' := max f1 f2 + 2) (by omega) hb
        rw [decodeBlocksL, hh]
        simp only [decodeItemsL, e1, e2, e3]
      · simp only [List.nil_append, List.cons_append, observeList, ho, hos]
  | succ c' =>
    refine Inv.bind (inv_hasMore_succ cfg false c' nr bs) ?_
    rintro ⟨more, bst⟩ r0 ⟨rfl, hp⟩
    simp only [Prod.mk.injEq] at hp
    obtain ⟨rfl, rfl⟩ := hp
    simp only [Bool.not_true, Bool.false_eq_true, if_false]
    refine Inv.bind (ih.de item depth r0) ?_
    rintro o r1 ⟨v, f1, hd, ho⟩
    refine (ih.seq item depth c' nr (o :: acc) r1).mono ?_
    rintro out rest ⟨vs1, r2, more, os, f2, hi, hb, hos, rfl⟩
    refine ⟨v :: vs1, r2, more, o :: os, max f1 f2 + 1, ?_, liftB S (by omega) hb, ?_, by simp⟩
    · have e1 := liftD S (f' := max f1 f2) (by omega) hd
      have e2 := liftI S (f' := max f1 f2) (by omega) hi
      simp only [decodeItemsL, e1, e2]
    · simp only [List.cons_append, observeList, ho, hos]

theorem sndAll_succ_map (g : Nat) (ih : SndAll cfg S g) (item : Node) (depth c nr : Nat)
    (acc : List (Out × Out)) (bs : Bytes) :
    Inv (deMapLoop deExtModel cfg S (g + 1) item depth false .any ⟨c, nr⟩ acc) bs
      (fun out rest => ∃ es1 r1 more os fS,
        decodeMapItemsL Limits.impl S fS item c bs = some (es1, r1) ∧
        decodeMapBlocksL Limits.impl S fS item r1 = some (more, rest) ∧
        observeEntries S item (es1 ++ more) = some os ∧ out = acc.reverse ++ os) := by
  rw [deMapLoop]
  -- the part of the iteration after `has_more` said yes
  have body : ∀ (c' nr' : Nat) (r0 : Bytes),
      Inv (do
        let n ← readLen
        let (kb, borrowed) ← readSlice n
        let (kOut, kName) ← (match Hint.any.key with
          | .ignored => pure (Out.unit, none)
          | _ =>
            match bytesToStr? kb with
            | some s => pure (Out.str s borrowed, some s)
            | none => DeM.fail .custom : DeM (Out × Option String))
        let v ← de deExtModel cfg S g item depth false (Hint.any.valFor kName)
        deMapLoop deExtModel cfg S g item depth false .any ⟨c', nr'⟩ ((kOut, v) :: acc)) r0
      (fun out rest => ∃ es1 r1 more os fS,
        decodeMapItemsL Limits.impl S fS item (c' + 1) r0 = some (es1, r1) ∧
        decodeMapBlocksL Limits.impl S fS item r1 = some (more, rest) ∧
        observeEntries S item (es1 ++ more) = some os ∧ out = acc.reverse ++ os) := by
    intro c' nr' r0
    refine Inv.bind (inv_readLen r0) ?_
    intro n ra hlen
    refine Inv.bind (inv_readSlice n ra) ?_
    rintro ⟨kb, borrowed⟩ rb ⟨ht, hbor⟩
    simp only at ht hbor
    subst hbor
    simp only [Hint.key, bytesToStr?]
    split
    · rename_i k hk
      refine Inv.bind (Inv.pure (Q := fun p r => p = (Out.str k true, some k) ∧ r = rb) ⟨rfl, rfl⟩) ?_
      rintro ⟨kOut, kName⟩ r ⟨hp, rfl⟩
      simp only [Prod.mk.injEq] at hp
      obtain ⟨rfl, rfl⟩ := hp
      simp only [Hint.valFor]
      have hstr : decodeStringL Limits.impl r0 = some (k, r) := by
        unfold decodeStringL decodeBytesL
        rw [hlen]
        simp only [ht, hk]
      refine Inv.bind (ih.de item depth r) ?_
      rintro o r1 ⟨v, f1, hd, ho⟩
      refine (ih.map item depth c' nr' ((.str k true, o) :: acc) r1).mono ?_
      rintro out rest ⟨es1, r2, more, os, f2, hi, hb, hos, rfl⟩
      refine ⟨(k, v) :: es1, r2, more, (.str k true, o) :: os, max f1 f2 + 1, ?_,
        liftMB S (by omega) hb, ?_, by simp⟩
      · have e1 := liftD S (f' := max f1 f2) (by omega) hd
        have e2 := liftMI S (f' := max f1 f2) (by omega) hi
        simp only [decodeMapItemsL, hstr, e1, e2]
      · simp only [List.cons_append, observeEntries, ho, hos]
    · refine Inv.bind (Inv.fail _ _ (fun _ _ => False)) ?_
      intro _ _ hf
      exact absurd hf id
  cases c with
  | zero =>
    refine Inv.bind (inv_hasMore_zero cfg nr bs) ?_
    rintro ⟨more, bst⟩ r0 ⟨l, hh, hcase⟩
    rcases hcase with ⟨rfl, hp⟩ | ⟨hl, hmax, hp⟩
    · simp only [Prod.mk.injEq] at hp
      obtain ⟨rfl, rfl⟩ := hp
      simp only [Bool.not_false, if_true]
      refine Inv.pure ⟨[], bs, [], [], 1, rfl, ?_, rfl, by simp⟩
      simp only [decodeMapBlocksL, hh]
    · simp only [Prod.mk.injEq] at hp
      obtain ⟨rfl, rfl⟩ := hp
      simp only [Bool.not_true, Bool.false_eq_true, if_false]
      obtain ⟨l', rfl⟩ : ∃ l', l = l' + 1 := ⟨l - 1, by omega⟩
      refine (body l' (nr + (l' + 1)) r0).mono ?_
      rintro out rest ⟨es1, r1, more, os, fS, hi, hb, hos, rfl⟩
      refine ⟨[], bs, es1 ++ more, os, fS + 1, rfl, ?_, hos, rfl⟩
      rw [decodeMapBlocksL, hh]
      simp only [hi, hb]
  | succ c' =>
    refine Inv.bind (inv_hasMore_succ cfg false c' nr bs) ?_
    rintro ⟨more, bst⟩ r0 ⟨rfl, hp⟩
    simp only [Prod.mk.injEq] at hp
    obtain ⟨rfl, rfl⟩ := hp
    simp only [Bool.not_true, Bool.false_eq_true, if_false]
    exact body c' nr r0

theorem sndAll_succ_fields (g : Nat) (ih : SndAll cfg S g) (fields : List (String × Nat))
    (depth : Nat) (acc : List (Out × Out)) (bs : Bytes) :
    Inv (deRecordFields deExtModel cfg S (g + 1) fields depth .any acc) bs
      (fun out rest => ∃ vals os fS,
        decodeFieldsL Limits.impl S fS (fields.map (·.2)) bs = some (vals, rest) ∧
        observeFields S fields vals = some os ∧ out = acc.reverse ++ os) := by
  cases fields with
  | nil =>
    rw [deRecordFields]
    exact Inv.pure ⟨[], [], 0, rfl, rfl, by simp⟩
  | cons fk fs =>
    obtain ⟨name, k⟩ := fk
    rw [deRecordFields]
    split
    · exact Inv.fail _ _ _
    · rename_i fnode hnode
      simp only [Hint.valFor, Hint.key, offerName]
      refine Inv.bind (ih.de fnode depth bs) ?_
      rintro o r1 ⟨v, f1, hd, ho⟩
      refine (ih.fields fs depth ((.str name false, o) :: acc) r1).mono ?_
      rintro out rest ⟨vals, os, f2, hf, hos, rfl⟩
      refine ⟨v :: vals, (.str name false, o) :: os, max f1 f2 + 1, ?_, ?_, by simp⟩
      · have e1 := liftD S (f' := max f1 f2) (by omega) hd
        have e2 := liftF S (f' := max f1 f2) (by omega) hf
        simp only [List.map_cons, decodeFieldsL, nodeOf, hnode, e1, e2]
      · simp only [observeFields, hnode, ho, hos]

theorem sndAll_fields_zero (fields : List (String × Nat)) (depth : Nat) (acc : List (Out × Out))
    (bs : Bytes) :
    Inv (deRecordFields deExtModel cfg S 0 fields depth .any acc) bs
      (fun out rest => ∃ vals os fS,
        decodeFieldsL Limits.impl S fS (fields.map (·.2)) bs = some (vals, rest) ∧
        observeFields S fields vals = some os ∧ out = acc.reverse ++ os) := by
  cases fields with
  | nil =>
    rw [deRecordFields]
    exact Inv.pure ⟨[], [], 0, rfl, rfl, by simp⟩
  | cons fk fs =>
    rw [deRecordFields]
    exact Inv.fail _ _ _

theorem inv_decDepth (depth : Nat) (bs : Bytes) :
    Inv (decDepth depth) bs (fun _ r => r = bs) := by
  cases depth with
  | zero => exact Inv.fail _ _ _
  | succ d => exact Inv.pure rfl

theorem sndAll_succ_any (g : Nat) (ih : SndAll cfg S g) (n : Node) (depth : Nat) (bs : Bytes) :
    Inv (deAny deExtModel cfg S (g + 1) n depth .any) bs (SoundQ S n bs) := by
  cases n with
  | null =>
    rw [deAny]
    exact Inv.pure ⟨.null, 1, rfl, rfl⟩
  | boolean =>
    rw [deAny]
    refine (inv_readBool bs).mono ?_
    rintro o rest (⟨rfl, rfl⟩ | ⟨rfl, rfl⟩)
    · exact ⟨.bool false, 1, by simp [decodeL], rfl⟩
    · exact ⟨.bool true, 1, by simp [decodeL], rfl⟩
  | int | date | timeMillis =>
    rw [deAny]
    refine Inv.bind (inv_varint_i32 bs) ?_
    rintro i r ⟨hd, h32⟩
    exact Inv.pure ⟨.int i, 1, by simp [decodeL, hd, h32], rfl⟩
  | long | timeMicros | timestampMillis | timestampMicros =>
    rw [deAny]
    refine Inv.bind (inv_varint_i64 bs) ?_
    intro i r hd
    exact Inv.pure ⟨.long i, 1, by simp [decodeL, hd], rfl⟩
  | float =>
    rw [deAny]
    refine Inv.bind (inv_readExact 4 bs) ?_
    intro b r ht
    exact Inv.pure ⟨.float (BitVec.ofNat 32 (leToNat b)), 1, by simp [decodeL, ht], rfl⟩
  | double =>
    rw [deAny]
    refine Inv.bind (inv_readExact 8 bs) ?_
    intro b r ht
    exact Inv.pure ⟨.double (BitVec.ofNat 64 (leToNat b)), 1, by simp [decodeL, ht], rfl⟩
  | bytes =>
    rw [deAny]
    refine (inv_readBytes bs).mono ?_
    rintro o rest ⟨b, hb, rfl⟩
    exact ⟨.bytes b, 1, by simp [decodeL, hb], rfl⟩
  | string | uuid =>
    rw [deAny]
    refine (inv_readString bs).mono ?_
    rintro o rest ⟨str, hb, rfl⟩
    exact ⟨.string str, 1, by simp [decodeL, hb], rfl⟩
  | fixed nm size =>
    rw [deAny]
    refine Inv.bind (inv_readSlice size bs) ?_
    rintro ⟨b, borrowed⟩ r ⟨ht, hbor⟩
    simp only at ht hbor
    subst hbor
    exact Inv.pure ⟨.fixed b, 1, by simp [decodeL, ht], rfl⟩
  | duration =>
    rw [deAny]
    refine Inv.bind (inv_readExact 12 bs) ?_
    intro b r ht
    refine Inv.pure ⟨.duration (leToNat (b.take 4)) (leToNat ((b.drop 4).take 4)) (leToNat (b.drop 8)),
      1, by simp [decodeL, ht], ?_⟩
    rw [durationOut_any' b (takeN_eq ht).2]
    rfl
  | «enum» nm syms =>
    rw [deAny]
    refine Inv.bind (inv_readLen bs) ?_
    intro d r hd
    split
    · exact Inv.fail _ _ _
    · rename_i sym hsym
      have hlt : d < syms.length := (List.getElem?_eq_some_iff.1 hsym).1
      refine Inv.pure ⟨.enum d, 1, by simp [decodeL, hd, hlt], ?_⟩
      simp only [observe, hsym, Option.map_some]
  | decimal sc pr repr =>
    rw [deAny]
    cases repr with
    | bytes =>
      refine (inv_readDecimal_bytes deExtModel sc bs).mono ?_
      rintro o rest ⟨m, str, hb, hm, hstr, rfl⟩
      refine ⟨.decimal (fromTwosComplementBE m), 1, ?_, ?_⟩
      · have : fitsOpt Limits.impl.maxDecimal m.length = true := by
          simp only [Limits.impl, fitsOpt, decide_eq_true_eq]; exact hm
        simp only [decodeL, hb, this, if_true]
      · rw [i128OfBE_eq] at hstr
        simp only [observe]
        exact (congrArg (Option.map fun s => Out.str s false) hstr)
    | fixed nm size =>
      refine (inv_readDecimal_fixed deExtModel sc nm size bs).mono ?_
      rintro o rest ⟨m, str, hb, hm, hstr, rfl⟩
      refine ⟨.decimal (fromTwosComplementBE m), 1, ?_, ?_⟩
      · have : fitsOpt Limits.impl.maxDecimal size = true := by
          simp only [Limits.impl, fitsOpt, decide_eq_true_eq]; exact hm
        simp only [decodeL, hb, this, if_true, Option.map_some]
      · rw [i128OfBE_eq] at hstr
        simp only [observe]
        exact (congrArg (Option.map fun s => Out.str s false) hstr)
  | bigDecimal =>
    rw [deAny]
    refine (inv_readDecimal_big deExtModel bs).mono ?_
    rintro o rest ⟨inner, m, inner', scale, str, h0, h1, hm, h2, hstr, rfl⟩
    refine ⟨.bigDecimal (fromTwosComplementBE m) scale, 1, ?_, ?_⟩
    · have : fitsOpt Limits.impl.maxDecimal m.length = true := by
        simp only [Limits.impl, fitsOpt, decide_eq_true_eq]; exact hm
      simp only [decodeL, h0, h1, this, if_true, h2]
    · rw [i128OfBE_eq] at hstr
      simp only [observe]
      exact (congrArg (Option.map fun s => Out.str s false) hstr)
  | array k =>
    rw [deAny]
    split
    · exact Inv.fail _ _ _
    · rename_i item hitem
      refine Inv.bind (inv_decDepth depth bs) ?_
      rintro d r rfl
      refine Inv.bind (ih.seq item d 0 0 [] r) ?_
      rintro items rest ⟨vs1, r1, more, os, fS, hi, hb, hos, rfl⟩
      have h0 : vs1 = [] ∧ r1 = r := by
        cases fS <;> simp only [decodeItemsL, Option.some.injEq, Prod.mk.injEq] at hi <;>
          exact ⟨hi.1.symm, hi.2.symm⟩
      obtain ⟨rfl, rfl⟩ := h0
      simp only [List.nil_append] at hos
      refine Inv.pure ⟨.array more, fS + 1, ?_, ?_⟩
      · simp only [decodeL, nodeOf, hitem, hb, Option.map_some]
      · simp only [observe, hitem, hos, Option.map_some]
  | map k =>
    rw [deAny]
    split
    · exact Inv.fail _ _ _
    · rename_i item hitem
      refine Inv.bind (inv_decDepth depth bs) ?_
      rintro d r rfl
      refine Inv.bind (ih.map item d 0 0 [] r) ?_
      rintro items rest ⟨es1, r1, more, os, fS, hi, hb, hos, rfl⟩
      have h0 : es1 = [] ∧ r1 = r := by
        cases fS <;> simp only [decodeMapItemsL, Option.some.injEq, Prod.mk.injEq] at hi <;>
          exact ⟨hi.1.symm, hi.2.symm⟩
      obtain ⟨rfl, rfl⟩ := h0
      simp only [List.nil_append] at hos
      refine Inv.pure ⟨.map more, fS + 1, ?_, ?_⟩
      · simp only [decodeL, nodeOf, hitem, hb, Option.map_some]
      · simp only [observe, hitem, hos, Option.map_some]
  | union vs =>
    rw [deAny]
    refine Inv.bind (inv_readLen bs) ?_
    intro d r0 hd
    split
    · exact Inv.fail _ _ _
    · rename_i k hk
      split
      · exact Inv.fail _ _ _
      · rename_i variant hvar
        refine Inv.bind (inv_decDepth depth r0) ?_
        rintro dd r rfl
        refine (ih.any variant dd r).mono ?_
        rintro o rest ⟨v, fS, hv, ho⟩
        refine ⟨.union d v, fS + 1, ?_, ?_⟩
        · simp only [decodeL, hd, hk, nodeOf, hvar, hv, Option.map_some]
        · simp only [observe, hk, hvar, ho]
  | record nm fields =>
    rw [deAny]
    refine Inv.bind (inv_decDepth depth bs) ?_
    rintro d r rfl
    refine Inv.bind (ih.fields fields d [] r) ?_
    rintro entries rest ⟨vals, os, fS, hf, hos, rfl⟩
    refine Inv.pure ⟨.record vals, fS + 1, ?_, ?_⟩
    · simp only [decodeL, hf, Option.map_some]
    · simp only [observe, hos, Option.map_some]

theorem sndAll_zero : SndAll cfg S 0 := by
  refine ⟨?_, ?_, ?_, ?_, sndAll_fields_zero cfg S⟩
  · intro n depth bs; rw [deAny]; exact Inv.fail _ _ _
  · intro n depth bs; rw [de]; exact Inv.fail _ _ _
  · intro item depth c nr acc bs; rw [deSeqLoop]; exact Inv.fail _ _ _
  · intro item depth c nr acc bs; rw [deMapLoop]; exact Inv.fail _ _ _

theorem sndAll : ∀ fuel, SndAll cfg S fuel := by
  intro fuel
  induction fuel with
  | zero => exact sndAll_zero cfg S
  | succ g ih =>
    refine ⟨sndAll_succ_any cfg S g ih, ?_, sndAll_succ_seq cfg S g ih, sndAll_succ_map cfg S g ih,
      sndAll_succ_fields cfg S g ih⟩
    intro n depth bs
    rw [de_any_succ]
    exact ih.any n depth bs

/-- **Soundness**: whatever the deserializer accepts (slice back-end, dynamically typed target),
    the specification decoder restricted to the implementation's limits accepts, with the same
    value and the same remainder. -/
theorem de_sound_layouts (n : Node) (depth fuel : Nat) (s s' : RState) (o : Out)
    (hs : s.isSlice = true) (hl : s.limit = none) (ha : s.avail = 0)
    (h : de deExtModel cfg S fuel n depth false .any s = (.ok o, s')) :
    ∃ v fuelS, decodeL Limits.impl S fuelS n s.rest = some (v, s'.rest) ∧
      observe S n v = some o ∧ s' = { s with rest := s'.rest } := by
  have e1 : s.mk' s.rest none = s := by
    obtain ⟨isS, r, av, sched, lc, ma, scr, lim⟩ := s
    simp only at hl
    subst hl
    rfl
  rw [← e1] at h
  obtain ⟨rest, rfl, v, fS, hv, ho⟩ := (sndAll cfg S fuel).de n depth s.rest s ⟨hs, ha⟩ o s' h
  refine ⟨v, fS, hv, ho, ?_⟩
  obtain ⟨isS, r, av, sched, lc, ma, scr, lim⟩ := s
  simp only at hl
  subst hl
  rfl

end Avro.Impl
