import AvroModel.Impl.Ocf
import AvroModel.Lemmas.Reader
/-
Helper lemmas for C17 (container reader: truncation / framing errors / termination).

Part 1: unconditional facts about the read primitives (no well-formedness or `Take`-limit
hypothesis): they never report `.panic`, never lengthen `rest`, and a successful read of at least
one byte shortens it.
Part 2: facts about `enterBlock` / `leaveBlock` / `nextInner`.
-/
namespace Avro.Impl
open Avro

/-! ### Part 1: primitives, unconditionally -/

theorem fillBuf_ok_ocf (s : RState) :
    ∃ a s', fillBuf s = (.ok (s.rest.take a), s') ∧ s'.rest = s.rest ∧
      s'.isSlice = s.isSlice ∧ s'.limit = s.limit := by
  unfold fillBuf
  by_cases hs : s.isSlice = true
  · exact ⟨s.rest.length, s, by simp [hs], rfl, rfl, rfl⟩
  · by_cases ha : s.avail > 0
    · exact ⟨s.avail, s, by simp [hs, ha], rfl, rfl, rfl⟩
    · cases hsc : s.sched with
      | nil =>
        exact ⟨min (max s.lastChunk 1) s.rest.length,
          { s with avail := min (max s.lastChunk 1) s.rest.length, sched := [] },
          by simp [hs, ha], rfl, rfl, rfl⟩
      | cons c r =>
        exact ⟨min (max c 1) s.rest.length,
          { s with avail := min (max c 1) s.rest.length, sched := r },
          by simp [hs, ha], rfl, rfl, rfl⟩

/-- `read`: never fails; never lengthens `rest`; a non-empty result shortens it. -/
theorem readSome_ok (k : Nat) (s : RState) :
    ∃ got s', readSome k s = (.ok got, s') ∧ s'.rest.length ≤ s.rest.length ∧
      (got ≠ [] → s'.rest.length < s.rest.length) := by
  rw [readSome_eq]
  by_cases hk : s.lim k = 0
  · exact ⟨[], s, by simp [hk], Nat.le_refl _, fun h => absurd rfl h⟩
  · obtain ⟨a, s1, hf, h2, _, _⟩ := fillBuf_ok_ocf s
    refine ⟨(s.rest.take a).take (min (s.lim k) (s.rest.take a).length),
      { s1 with rest := s1.rest.drop (min (s.lim k) (s.rest.take a).length),
                avail := s1.avail - min (s.lim k) (s.rest.take a).length,
                limit := s1.limit.map (· - min (s.lim k) (s.rest.take a).length) },
      by simp only [hk, if_false, hf], ?_, ?_⟩
    · simp only [List.length_drop, h2]; omega
    · intro hne
      simp only [List.length_drop, h2, List.length_take]
      have : 0 < ((s.rest.take a).take (min (s.lim k) (s.rest.take a).length)).length :=
        List.length_pos_iff.2 hne
      simp only [List.length_take] at this
      omega

theorem readExactR_ok (fuel : Nat) : ∀ (k : Nat) (acc : Bytes) (s : RState) (b : Bytes) (s' : RState),
    readExactR fuel k acc s = (.ok b, s') →
      s'.rest.length ≤ s.rest.length ∧ (0 < k → s'.rest.length < s.rest.length) := by
  induction fuel with
  | zero =>
    intro k acc s b s' h
    cases k with
    | zero =>
      simp only [readExactR, pure, Prod.mk.injEq] at h
      rw [← h.2]; exact ⟨Nat.le_refl _, fun h => by omega⟩
    | succ k => simp [readExactR, DeM.fail] at h
  | succ fuel ih =>
    intro k acc s b s' h
    cases k with
    | zero =>
      simp only [readExactR, pure, Prod.mk.injEq] at h
      rw [← h.2]; exact ⟨Nat.le_refl _, fun h => by omega⟩
    | succ k =>
      obtain ⟨got, s1, hrs, hle, hlt⟩ := readSome_ok (k + 1) s
      simp only [readExactR, bind, hrs] at h
      by_cases hg : got.isEmpty = true
      · simp [hg, DeM.fail] at h
      · simp only [hg] at h
        have hne : got ≠ [] := by
          intro hnil; rw [hnil] at hg; simp at hg
        have := ih _ _ _ _ _ h
        have := hlt hne
        omega

theorem readExactR_no_panic (fuel : Nat) : ∀ (k : Nat) (acc : Bytes) (s : RState) (s' : RState),
    readExactR fuel k acc s ≠ (.error .panic, s') := by
  induction fuel with
  | zero =>
    intro k acc s s'
    cases k <;> simp [readExactR, pure, DeM.fail]
  | succ fuel ih =>
    intro k acc s s'
    cases k with
    | zero => simp [readExactR, pure]
    | succ k =>
      obtain ⟨got, s1, hrs, _, _⟩ := readSome_ok (k + 1) s
      simp only [readExactR, bind, hrs]
      by_cases hg : got.isEmpty = true
      · simp [hg, DeM.fail]
      · simp only [hg]; exact ih _ _ _ _

theorem readExact_ok {k : Nat} {s s' : RState} {b : Bytes} (h : readExact k s = (.ok b, s')) :
    s'.rest.length ≤ s.rest.length ∧ (0 < k → s'.rest.length < s.rest.length) :=
  readExactR_ok k k [] s b s' h

theorem readExact_no_panic (k : Nat) (s s' : RState) : readExact k s ≠ (.error .panic, s') :=
  readExactR_no_panic k k [] s s'

theorem decodeVar_pos {t : VarTy} {src : Bytes} {v : Int} {k : Nat}
    (h : decodeVar t src = some (v, k)) : 0 < k ∧ k ≤ src.length := by
  refine ⟨?_, decodeVar_le h⟩
  obtain ⟨n, hn⟩ := decodeVar_some h
  have := (decodeVarU64_to_spec src n k hn).2.2.1
  omega

theorem varintBytewise_ok (t : VarTy) (fuel : Nat) : ∀ (buf : Bytes) (s : RState) (v : Int) (s' : RState),
    varintBytewise t fuel buf s = (.ok v, s') →
      s'.rest.length ≤ s.rest.length ∧ (0 < fuel → s'.rest.length < s.rest.length) := by
  induction fuel with
  | zero =>
    intro buf s v s' h
    simp only [varintBytewise] at h
    cases hd : decodeVar t buf with
    | none => simp [hd, DeM.fail] at h
    | some p =>
      obtain ⟨v', k'⟩ := p
      simp only [hd, pure, Prod.mk.injEq] at h
      rw [← h.2]; exact ⟨Nat.le_refl _, fun h => by omega⟩
  | succ fuel ih =>
    intro buf s v s' h
    obtain ⟨got, s1, hrs, hle, hlt⟩ := readSome_ok 1 s
    simp only [varintBytewise, bind, hrs] at h
    cases got with
    | nil => simp [DeM.fail] at h
    | cons b tl =>
      have hlt' := hlt (by simp)
      simp only at h
      split at h
      · cases hd : decodeVar t (buf ++ [b]) with
        | none => simp [hd, DeM.fail] at h
        | some p =>
          obtain ⟨v', k'⟩ := p
          simp only [hd, pure, Prod.mk.injEq] at h
          rw [← h.2]; exact ⟨by omega, fun _ => hlt'⟩
      · have := (ih _ _ _ _ h).1
        exact ⟨by omega, fun _ => by omega⟩

theorem varintBytewise_no_panic (t : VarTy) (fuel : Nat) : ∀ (buf : Bytes) (s s' : RState),
    varintBytewise t fuel buf s ≠ (.error .panic, s') := by
  induction fuel with
  | zero =>
    intro buf s s'
    simp only [varintBytewise]
    cases hd : decodeVar t buf with
    | none => simp [DeM.fail]
    | some p => obtain ⟨v', k'⟩ := p; simp [pure]
  | succ fuel ih =>
    intro buf s s'
    obtain ⟨got, s1, hrs, _, _⟩ := readSome_ok 1 s
    simp only [varintBytewise, bind, hrs]
    cases got with
    | nil => simp [DeM.fail]
    | cons b tl =>
      simp only
      split
      · cases hd : decodeVar t (buf ++ [b]) with
        | none => simp [DeM.fail]
        | some p => obtain ⟨v', k'⟩ := p; simp [pure]
      · exact ih _ _ _

/-- a successful `read_varint` consumes at least one byte, on any back-end -/
theorem readVarint_ok {t : VarTy} {s s' : RState} {v : Int} (h : readVarint t s = (.ok v, s')) :
    s'.rest.length < s.rest.length := by
  unfold readVarint at h
  split at h
  · split at h
    · simp at h
    · rename_i v' k hd
      obtain ⟨hk0, hk1⟩ := decodeVar_pos hd
      simp only [Prod.mk.injEq] at h
      rw [← h.2]
      simp only [List.length_drop]
      omega
  · obtain ⟨a, s1, hf, h2, _, _⟩ := fillBuf_ok_ocf s
    simp only [hf] at h
    split at h
    · rename_i v' k hd
      obtain ⟨hk0, hk1⟩ := decodeVar_pos hd
      simp only [consume, Prod.map, id, Prod.mk.injEq] at h
      rw [← h.2]
      simp only [List.length_drop, h2]
      simp only [List.length_take] at hk1
      omega
    · have := (varintBytewise_ok t 10 [] s1 v s' h).2 (by omega)
      rw [h2] at this
      exact this

theorem readVarint_slice {t : VarTy} {s : RState} (hs : s.isSlice = true) :
    readVarint t s =
      match decodeVar t s.rest with
      | none => (.error .custom, s)
      | some (v, k) => (.ok v, { s with rest := s.rest.drop k }) := by
  unfold readVarint
  rw [if_pos hs]
  cases decodeVar t s.rest with
  | none => rfl
  | some p => obtain ⟨v, k⟩ := p; rfl

theorem readVarint_no_panic (t : VarTy) (s s' : RState) : readVarint t s ≠ (.error .panic, s') := by
  unfold readVarint
  split
  · split <;> simp
  · obtain ⟨a, s1, hf, _, _, _⟩ := fillBuf_ok_ocf s
    simp only [hf]
    split
    · simp [consume, Prod.map]
    · exact varintBytewise_no_panic t 10 [] s1 s'

end Avro.Impl

/-! ### Part 2: `leaveBlock`, `enterBlock`, `nextInner` -/
namespace Avro.Impl.Ocf
open Avro Avro.Impl

theorem ofDe_panic {e : DeErr} : ofDe e = .panic ↔ e = .panic := by
  cases e <;> simp [ofDe]

/-- the "block not consumed entirely" test of `leaveBlock` -/
def leftover (d : Decomp) (r : Reader) : Bool :=
  if d.isNull then (if r.outer.isSlice then r.blk.rest ≠ [] else r.blkLimit > 0)
  else r.blk.rest ≠ []

theorem srcAfterBlockGo_fst_le (lastChunk afterLen : Nat) :
    ∀ (fuel rem : Nat) (sched : List Nat), (srcAfterBlockGo lastChunk afterLen fuel rem sched).1 ≤ afterLen := by
  intro fuel
  induction fuel with
  | zero => intro rem sched; simp [srcAfterBlockGo]
  | succ n ih =>
    intro rem sched
    unfold srcAfterBlockGo
    split
    · simp
    · cases sched with
      | nil =>
        simp only
        split
        · simp only; omega
        · exact ih _ _
      | cons c rest =>
        simp only
        split
        · simp only; omega
        · exact ih _ _

/-- what the source still has buffered after a block is part of what follows the block -/
theorem srcAfterBlock_fst_le (o : RState) (size afterLen : Nat) :
    (srcAfterBlock o size afterLen).1 ≤ afterLen := by
  unfold srcAfterBlock
  split
  · exact Nat.min_le_right _ _
  · exact srcAfterBlockGo_fst_le _ _ _ _ _

/-- the source back-end `leaveBlock` reads the sync marker from -/
def leaveOuter (d : Decomp) (r : Reader) : RState :=
  if d.isNull ∧ ¬ r.outer.isSlice then
    { r.blk with rest := r.after,
                 avail := (srcAfterBlock r.outer (r.outer.rest.length - r.after.length) r.after.length).1,
                 sched := (srcAfterBlock r.outer (r.outer.rest.length - r.after.length) r.after.length).2,
                 limit := none }
  else { r.outer with rest := r.after, avail := 0 }

theorem leaveBlock_eq (d : Decomp) (r : Reader) :
    leaveBlock d r =
      if leftover d r then (.error .custom, { r with st := .broken }) else
      match readExact 16 (leaveOuter d r) with
      | (.error e, outer') => (.error (ofDe e), { r with st := .broken, outer := outer' })
      | (.ok marker, outer') =>
        if marker ≠ r.sync then (.error .custom, { r with st := .broken, outer := outer' })
        else (.ok (), { r with st := .notInBlock, outer := outer' }) := rfl

theorem leaveOuter_rest (d : Decomp) (r : Reader) : (leaveOuter d r).rest = r.after := by
  unfold leaveOuter; split <;> rfl

theorem leaveOuter_wf (d : Decomp) (r : Reader) : (leaveOuter d r).WF := by
  intro _
  unfold leaveOuter
  split
  · exact srcAfterBlock_fst_le _ _ _
  · simp

theorem leaveBlock_spec {d : Decomp} {r r' : Reader} {res : Except RdErr Unit}
    (h : leaveBlock d r = (res, r')) :
    r'.pretendEof = r.pretendEof ∧ r'.sync = r.sync ∧
    (∀ u, res = .ok u → r'.st = .notInBlock ∧ r'.outer.rest.length < r.after.length) ∧
    (∀ e, res = .error e → e ≠ .panic ∧ r'.st = .broken) := by
  rw [leaveBlock_eq] at h
  split at h
  · simp only [Prod.mk.injEq] at h
    obtain ⟨rfl, rfl⟩ := h
    simp
  · split at h
    · rename_i e o' heq
      simp only [Prod.mk.injEq] at h
      obtain ⟨rfl, rfl⟩ := h
      refine ⟨rfl, rfl, by simp, ?_⟩
      intro e' he'
      simp only [Except.error.injEq] at he'
      subst he'
      refine ⟨?_, rfl⟩
      intro hp
      rw [ofDe_panic] at hp
      subst hp
      exact readExact_no_panic _ _ _ heq
    · rename_i marker o' heq
      have := (readExact_ok heq).2 (by omega)
      rw [leaveOuter_rest] at this
      split at h
      · simp only [Prod.mk.injEq] at h
        obtain ⟨rfl, rfl⟩ := h
        simp
      · simp only [Prod.mk.injEq] at h
        obtain ⟨rfl, rfl⟩ := h
        exact ⟨rfl, rfl, fun _ _ => ⟨rfl, this⟩, by simp⟩

/-- the part of `enterBlock` after the two varints: `r` already carries `outer := o`,
    `after`, `blkLimit` -/
def enterTail (d : Decomp) (r : Reader) (cnt : Int) (size : Nat) (o : RState) :
    Except RdErr Unit × Reader :=
  if d.isNull then
    if o.isSlice ∧ size > o.rest.length then (.error .custom, r)
    else
      (.ok (), { r with st := RdState.inBlock cnt.toNat,
                        blk := { o with rest := o.rest.take size, avail := min o.avail size } })
  else
    if size > o.rest.length then
      (if o.isSlice then (.error .custom, r) else (.error .io, r))
    else
      let raw := o.rest.take size
      if d.isSnappy then
        (if size < 4 then (.error .custom, r) else
          (match d.decompress (raw.take (size - 4)) with
          | none => (.error .custom, r)
          | some plain =>
            if d.crc32 plain ≠ raw.drop (size - 4) then (.error .custom, r)
            else (.ok (), { r with st := RdState.inBlock cnt.toNat, blk := plainReader plain (plain.length + 1) })))
      else
        (match d.decompress raw with
        | none => (.error .io, r)
        | some plain =>
          (.ok (), { r with st := RdState.inBlock cnt.toNat,
                            blk := plainReader plain 8192 }))

theorem enterBlock_eq (d : Decomp) (r : Reader) :
    enterBlock d r =
      match readVarint .i64 r.outer with
      | (.error e, o) => (.error (ofDe e), { r with st := .broken, outer := o })
      | (.ok cnt, o) =>
        if cnt < 0 then (.error .custom, { r with st := .broken, outer := o }) else
        match readVarint .i64 o with
        | (.error e, o) => (.error (ofDe e), { r with st := .broken, outer := o })
        | (.ok size, o) =>
          if size < 0 then (.error .custom, { r with st := .broken, outer := o }) else
          enterTail d { r with st := .broken, outer := o, after := o.rest.drop size.toNat,
                               blkLimit := size.toNat } cnt size.toNat o := rfl

theorem enterTail_spec {d : Decomp} {r r' : Reader} {cnt : Int} {size : Nat} {o : RState}
    {res : Except RdErr Unit} (h : enterTail d r cnt size o = (res, r')) :
    (∀ e, res = .error e → e ≠ .panic ∧ r' = r) ∧
    (∀ u, res = .ok u → ∃ blk, r' = { r with st := .inBlock cnt.toNat, blk := blk }) := by
  unfold enterTail at h
  simp only at h
  repeat' split at h
  all_goals
    simp only [Prod.mk.injEq] at h
    obtain ⟨rfl, rfl⟩ := h
    simp


theorem enterBlock_spec {d : Decomp} {r r' : Reader} {res : Except RdErr Unit}
    (h : enterBlock d r = (res, r')) :
    r'.pretendEof = r.pretendEof ∧ r'.sync = r.sync ∧
    (∀ u, res = .ok u → ∃ n, r'.st = .inBlock n ∧ r'.after.length + 2 ≤ r.outer.rest.length ∧
        r'.after.length ≤ r'.outer.rest.length) ∧
    (∀ e, res = .error e → e ≠ .panic ∧ r'.st = .broken) := by
  rw [enterBlock_eq] at h
  split at h
  · rename_i e o heq
    simp only [Prod.mk.injEq] at h
    obtain ⟨rfl, rfl⟩ := h
    refine ⟨rfl, rfl, by simp, ?_⟩
    intro e' he'
    simp only [Except.error.injEq] at he'
    subst he'
    refine ⟨?_, rfl⟩
    intro hp
    rw [ofDe_panic] at hp
    subst hp
    exact readVarint_no_panic _ _ _ heq
  · rename_i cnt o heq
    have h1 := readVarint_ok heq
    split at h
    · simp only [Prod.mk.injEq] at h
      obtain ⟨rfl, rfl⟩ := h
      simp
    · split at h
      · rename_i e o2 heq2
        simp only [Prod.mk.injEq] at h
        obtain ⟨rfl, rfl⟩ := h
        refine ⟨rfl, rfl, by simp, ?_⟩
        intro e' he'
        simp only [Except.error.injEq] at he'
        subst he'
        refine ⟨?_, rfl⟩
        intro hp
        rw [ofDe_panic] at hp
        subst hp
        exact readVarint_no_panic _ _ _ heq2
      · rename_i size o2 heq2
        have h2 := readVarint_ok heq2
        split at h
        · simp only [Prod.mk.injEq] at h
          obtain ⟨rfl, rfl⟩ := h
          simp
        · obtain ⟨herr, hok⟩ := enterTail_spec h
          refine ⟨?_, ?_, ?_, ?_⟩
          · cases res with
            | error e => rw [(herr e rfl).2]
            | ok u => obtain ⟨blk, hb⟩ := hok u rfl; rw [hb]
          · cases res with
            | error e => rw [(herr e rfl).2]
            | ok u => obtain ⟨blk, hb⟩ := hok u rfl; rw [hb]
          · intro u hu
            obtain ⟨blk, hb⟩ := hok u hu
            refine ⟨cnt.toNat, by rw [hb], ?_, ?_⟩
            · rw [hb]; simp only [List.length_drop]; omega
            · rw [hb]; simp only [List.length_drop]; omega
          · intro e he
            obtain ⟨h3, h4⟩ := herr e he
            exact ⟨h3, by rw [h4]⟩

variable {α : Type}

theorem nextInner_succ (d : Decomp) (datum : RState → Except DeErr α × RState) (fuel : Nat) (r : Reader) :
    nextInner d datum (fuel + 1) r =
      match r.st with
      | .broken => (.error .custom, r)
      | .notInBlock =>
        match fillBuf r.outer with
        | (.error e, o) => (.error (ofDe e), { r with outer := o })
        | (.ok buf, o) =>
          if buf.isEmpty then (.ok none, { r with outer := o })
          else
            match enterBlock d { r with outer := o } with
            | (.error e, r') => (.error e, r')
            | (.ok _, r') => nextInner d datum fuel r'
      | .inBlock 0 =>
        match leaveBlock d r with
        | (.error e, r') => (.error e, r')
        | (.ok _, r') => nextInner d datum fuel r'
      | .inBlock (n + 1) =>
        match datum r.blk with
        | (.error e, blk') =>
          (.error (ofDe e), { r with st := .inBlock n, blk := blk', blkLimit := r.blkLimit - (r.blk.rest.length - blk'.rest.length) })
        | (.ok a, blk') =>
          (.ok (some a), { r with st := .inBlock n, blk := blk', blkLimit := r.blkLimit - (r.blk.rest.length - blk'.rest.length) }) := rfl

/-- the termination measure: bytes of the source not yet passed -/
def mu (r : Reader) : Nat :=
  match r.st with
  | .notInBlock => r.outer.rest.length
  | .inBlock _ => r.after.length
  | .broken => 0

/-- the invariant of reachable readers: in a block, `after` is a suffix of what `outer` holds -/
def RdInv (r : Reader) : Prop := ∀ n, r.st = .inBlock n → r.after.length ≤ r.outer.rest.length

theorem nextInner_fuel (d : Decomp) (datum : RState → Except DeErr α × RState) (fuel : Nat) :
    ∀ (fuel' : Nat) (r : Reader), mu r < fuel → mu r < fuel' →
      nextInner d datum fuel r = nextInner d datum fuel' r := by
  induction fuel with
  | zero => intro fuel' r h; omega
  | succ fuel ih =>
    intro fuel' r h h'
    cases fuel' with
    | zero => omega
    | succ fuel' =>
      rw [nextInner_succ, nextInner_succ]
      obtain ⟨st, pe, sync, outer, blk, after, lim⟩ := r
      cases st with
      | broken => rfl
      | notInBlock =>
        simp only
        obtain ⟨a, o, hf, ho, _, _⟩ := fillBuf_ok_ocf outer
        simp only [hf]
        split
        · rfl
        · generalize he : enterBlock d _ = x
          obtain ⟨res, r1⟩ := x
          cases res with
          | error e => rfl
          | ok u =>
            simp only
            obtain ⟨_, _, hok, _⟩ := enterBlock_spec he
            obtain ⟨n, hn, hlen, _⟩ := hok u rfl
            simp only [ho] at hlen
            have hm : mu r1 = r1.after.length := by simp [mu, hn]
            simp only [mu] at h h'
            exact ih fuel' r1 (by omega) (by omega)
      | inBlock n =>
        cases n with
        | zero =>
          simp only
          generalize he : leaveBlock d _ = x
          obtain ⟨res, r1⟩ := x
          cases res with
          | error e => rfl
          | ok u =>
            simp only
            obtain ⟨_, _, hok, _⟩ := leaveBlock_spec he
            obtain ⟨hn, hlen⟩ := hok u rfl
            have hm : mu r1 = r1.outer.rest.length := by simp [mu, hn]
            simp only [mu] at h h' hlen
            exact ih fuel' r1 (by omega) (by omega)
        | succ n => rfl


theorem nextInner_no_panic (d : Decomp) (datum : RState → Except DeErr α × RState)
    (hd : ∀ s, (datum s).1 ≠ .error .panic) (fuel : Nat) :
    ∀ (r : Reader), mu r < fuel → (nextInner d datum fuel r).1 ≠ .error .panic := by
  induction fuel with
  | zero => intro r h; omega
  | succ fuel ih =>
    intro r h
    rw [nextInner_succ]
    obtain ⟨st, pe, sync, outer, blk, after, lim⟩ := r
    cases st with
    | broken => simp
    | notInBlock =>
      simp only
      obtain ⟨a, o, hf, ho, _, _⟩ := fillBuf_ok_ocf outer
      simp only [hf]
      split
      · simp
      · generalize he : enterBlock d _ = x
        obtain ⟨res, r1⟩ := x
        obtain ⟨_, _, hok, herr⟩ := enterBlock_spec he
        cases res with
        | error e =>
          simp only [ne_eq, Except.error.injEq]
          exact (herr e rfl).1
        | ok u =>
          simp only
          obtain ⟨n, hn, hlen, _⟩ := hok u rfl
          simp only [ho] at hlen
          have hm : mu r1 = r1.after.length := by simp [mu, hn]
          simp only [mu] at h
          exact ih r1 (by omega)
    | inBlock n =>
      cases n with
      | zero =>
        simp only
        generalize he : leaveBlock d _ = x
        obtain ⟨res, r1⟩ := x
        obtain ⟨_, _, hok, herr⟩ := leaveBlock_spec he
        cases res with
        | error e =>
          simp only [ne_eq, Except.error.injEq]
          exact (herr e rfl).1
        | ok u =>
          simp only
          obtain ⟨hn, hlen⟩ := hok u rfl
          have hm : mu r1 = r1.outer.rest.length := by simp [mu, hn]
          simp only [mu] at h hlen
          exact ih r1 (by omega)
      | succ n =>
        simp only
        have := hd blk
        generalize datum blk = x at this
        obtain ⟨res, b'⟩ := x
        cases res with
        | error e =>
          simp only [ne_eq, Except.error.injEq, ofDe_panic]
          simpa using this
        | ok a => simp

/-- `nextInner` never touches `pretendEof` / `sync`, and preserves `RdInv` -/
theorem nextInner_keeps (d : Decomp) (datum : RState → Except DeErr α × RState) (fuel : Nat) :
    ∀ (r : Reader), (nextInner d datum fuel r).2.pretendEof = r.pretendEof ∧
      (nextInner d datum fuel r).2.sync = r.sync ∧
      (RdInv r → RdInv (nextInner d datum fuel r).2) := by
  induction fuel with
  | zero => intro r; exact ⟨rfl, rfl, id⟩
  | succ fuel ih =>
    intro r
    rw [nextInner_succ]
    obtain ⟨st, pe, sync, outer, blk, after, lim⟩ := r
    cases st with
    | broken => exact ⟨rfl, rfl, id⟩
    | notInBlock =>
      simp only
      obtain ⟨a, o, hf, ho, _, _⟩ := fillBuf_ok_ocf outer
      simp only [hf]
      split
      · exact ⟨rfl, rfl, fun _ n hn => by simp at hn⟩
      · generalize he : enterBlock d _ = x
        obtain ⟨res, r1⟩ := x
        obtain ⟨hpe, hsy, hok, herr⟩ := enterBlock_spec he
        cases res with
        | error e =>
          refine ⟨hpe, hsy, fun _ n hn => ?_⟩
          rw [(herr e rfl).2] at hn; cases hn
        | ok u =>
          simp only
          obtain ⟨n, hn, _, hlen⟩ := hok u rfl
          obtain ⟨h1, h2, h3⟩ := ih r1
          refine ⟨h1.trans hpe, h2.trans hsy, fun _ => h3 (fun _ _ => hlen)⟩
    | inBlock n =>
      cases n with
      | zero =>
        simp only
        generalize he : leaveBlock d _ = x
        obtain ⟨res, r1⟩ := x
        obtain ⟨hpe, hsy, hok, herr⟩ := leaveBlock_spec he
        cases res with
        | error e =>
          refine ⟨hpe, hsy, fun _ n hn => ?_⟩
          rw [(herr e rfl).2] at hn; cases hn
        | ok u =>
          simp only
          obtain ⟨hn, _⟩ := hok u rfl
          obtain ⟨h1, h2, h3⟩ := ih r1
          refine ⟨h1.trans hpe, h2.trans hsy, fun _ => h3 (fun n hn' => ?_)⟩
          rw [hn] at hn'; cases hn'
      | succ n =>
        simp only
        generalize datum blk = x
        obtain ⟨res, b'⟩ := x
        cases res with
        | error e => exact ⟨rfl, rfl, fun hi m _ => hi (n + 1) rfl⟩
        | ok a => exact ⟨rfl, rfl, fun hi m _ => hi (n + 1) rfl⟩

/-- `read_exact` on the slice back-end, explicitly -/
theorem readExact_slice {k : Nat} {s : RState} (hs : s.isSlice = true) (hl : s.limit = none)
    (hk : k ≤ s.rest.length) :
    readExact k s = (.ok (s.rest.take k), { s with rest := s.rest.drop k, avail := s.avail - k }) := by
  cases k with
  | zero =>
    simp [readExact, readExactR, pure]
  | succ k =>
    have hlim : s.lim (k + 1) = k + 1 := by simp [RState.lim, hl]
    have hmin : min (k + 1) s.rest.length = k + 1 := by omega
    simp only [readExact, readExactR, bind, readSome_eq, hlim, fillBuf, hs, if_true, hmin]
    have hne : s.rest ≠ [] := by
      intro h; rw [h] at hk; simp at hk
    simp [hl, hmin, readExactR, pure, hne]

theorem readExact_slice_ok {k : Nat} {s s' : RState} {b : Bytes} (hs : s.isSlice = true)
    (hl : s.limit = none) (h : readExact k s = (.ok b, s')) : k ≤ s.rest.length := by
  have hwf : s.WF := by intro h'; rw [hs] at h'; cases h'
  by_cases hk : k ≤ s.rest.length
  · exact hk
  · obtain ⟨e, s'', he⟩ := (readExact_spec k s hwf).2 (by rw [eff_of_limit_none hl]; omega)
    rw [he] at h; cases h

/-! ### Truncation simulation (slice back-end) -/

/-- `ot` is `of` with its remaining input cut after some number of bytes -/
def Cut (ot of : RState) : Prop := ∃ m, ot = { of with rest := of.rest.take m }

/-- the reader `rt` over a truncated source simulates the reader `rf` over the full source -/
structure TSim (rt rf : Reader) : Prop where
  st : rt.st = rf.st
  peof : rt.pretendEof = rf.pretendEof
  sync : rt.sync = rf.sync
  blk : rt.blk = rf.blk
  blkLimit : rt.blkLimit = rf.blkLimit
  slice : rf.outer.isSlice = true
  lim : rf.outer.limit = none
  outer : Cut rt.outer rf.outer
  after : ∃ m, rt.after = rf.after.take m

theorem readVarint_cut {t : VarTy} {ot of ot' : RState} {v : Int} (hc : Cut ot of)
    (hs : of.isSlice = true) (h : readVarint t ot = (.ok v, ot')) :
    ∃ of', readVarint t of = (.ok v, of') ∧ Cut ot' of' ∧ of'.isSlice = true ∧
      of'.limit = of.limit := by
  obtain ⟨m, rfl⟩ := hc
  rw [readVarint_slice (by exact hs)] at h
  rw [readVarint_slice hs]
  simp only at h
  cases hd : decodeVar t (of.rest.take m) with
  | none => rw [hd] at h; cases h
  | some p =>
    obtain ⟨v', k⟩ := p
    rw [hd] at h
    simp only [Prod.mk.injEq, Except.ok.injEq] at h
    obtain ⟨rfl, rfl⟩ := h
    have hfull := decodeVar_append (of.rest.drop m) hd
    rw [List.take_append_drop] at hfull
    rw [hfull]
    refine ⟨_, rfl, ⟨m - k, ?_⟩, hs, rfl⟩
    simp only [List.drop_take]

theorem enterTail_cut {d : Decomp} {rt rf rt' : Reader} {cnt : Int} {size : Nat} {ot of : RState}
    {u : Unit} (hc : Cut ot of) (hs : of.isSlice = true)
    (h : enterTail d rt cnt size ot = (.ok u, rt')) :
    ∃ blk, rt' = { rt with st := .inBlock cnt.toNat, blk := blk } ∧
      enterTail d rf cnt size of = (.ok u, { rf with st := .inBlock cnt.toNat, blk := blk }) := by
  obtain ⟨m, rfl⟩ := hc
  unfold enterTail at h ⊢
  simp only [hs, true_and, if_true, List.length_take, List.take_take] at h ⊢
  by_cases hsz : size ≤ min m of.rest.length
  · have e1 : min size m = size := by omega
    have e2 : ¬ (size > min m of.rest.length) := by omega
    have e3 : ¬ (size > of.rest.length) := by omega
    simp only [e1, e2, e3, if_false] at h ⊢
    repeat' split at h
    all_goals first
      | (simp at h; done)
      | (simp only [Prod.mk.injEq] at h
         obtain ⟨_, rfl⟩ := h
         refine ⟨_, rfl, ?_⟩
         simp [*])
  · have e2 : size > min m of.rest.length := by omega
    simp only [e2, if_true] at h
    split at h <;> simp at h


theorem enterBlock_cut {d : Decomp} {rt rf rt' : Reader} {u : Unit} (hsim : TSim rt rf)
    (h : enterBlock d rt = (.ok u, rt')) :
    ∃ rf', enterBlock d rf = (.ok u, rf') ∧ TSim rt' rf' := by
  rw [enterBlock_eq] at h ⊢
  split at h
  · cases h
  · rename_i cnt ot1 heq1
    obtain ⟨of1, hf1, hc1, hs1, hl1⟩ := readVarint_cut hsim.outer hsim.slice heq1
    simp only [hf1]
    split at h
    · cases h
    · rename_i hcnt
      simp only [hcnt, if_false]
      split at h
      · cases h
      · rename_i size ot2 heq2
        obtain ⟨of2, hf2, hc2, hs2, hl2⟩ := readVarint_cut hc1 hs1 heq2
        simp only [hf2]
        split at h
        · cases h
        · rename_i hsize
          simp only [hsize, if_false]
          have key := @enterTail_cut d _ (Reader.mk .broken rf.pretendEof rf.sync of2 rf.blk
            (of2.rest.drop size.toNat) size.toNat) _ _ _ _ _ u hc2 hs2 h
          obtain ⟨blk, hrt', hrf'⟩ := key
          refine ⟨_, hrf', ?_⟩
          subst hrt'
          refine ⟨rfl, hsim.peof, hsim.sync, rfl, rfl, hs2, by rw [hl2, hl1]; exact hsim.lim, hc2, ?_⟩
          obtain ⟨m, hm⟩ := hc2
          refine ⟨m - size.toNat, ?_⟩
          simp only [hm, List.drop_take]

theorem leaveBlock_cut {d : Decomp} {rt rf rt' : Reader} {u : Unit} (hsim : TSim rt rf)
    (h : leaveBlock d rt = (.ok u, rt')) :
    ∃ rf', leaveBlock d rf = (.ok u, rf') ∧ TSim rt' rf' := by
  obtain ⟨m, hm⟩ := hsim.outer
  obtain ⟨ma, hma⟩ := hsim.after
  have hst : rt.outer.isSlice = true := by rw [hm]; exact hsim.slice
  have hlt : rt.outer.limit = none := by rw [hm]; exact hsim.lim
  have hlo : leftover d rt = leftover d rf := by
    simp only [leftover, hst, hsim.slice, hsim.blk, hsim.blkLimit]
  have hot : leaveOuter d rt = { rt.outer with rest := rt.after, avail := 0 } := by
    simp [leaveOuter, hst]
  have hof : leaveOuter d rf = { rf.outer with rest := rf.after, avail := 0 } := by
    simp [leaveOuter, hsim.slice]
  rw [leaveBlock_eq] at h ⊢
  rw [← hlo]
  split at h
  · cases h
  · rename_i hl
    simp only [hl]
    rw [hot] at h
    rw [hof]
    split at h
    · cases h
    · rename_i marker o' heq
      have h16 := readExact_slice_ok (by exact hst) (by exact hlt) heq
      simp only at h16
      have h16f : 16 ≤ rf.after.length := by
        rw [hma, List.length_take] at h16; omega
      rw [readExact_slice (by exact hst) (by exact hlt) h16] at heq
      rw [readExact_slice (by exact hsim.slice) (by exact hsim.lim) h16f]
      simp only [Prod.mk.injEq, Except.ok.injEq] at heq
      obtain ⟨rfl, rfl⟩ := heq
      have hmk : rt.after.take 16 = rf.after.take 16 := by
        rw [hma, List.length_take] at h16
        rw [hma, List.take_take]
        congr 1; omega
      simp only [hmk, hsim.sync] at h ⊢
      split at h
      · cases h
      · rename_i hmark
        simp only [hmark, if_false]
        simp only [Prod.mk.injEq] at h
        obtain ⟨_, rfl⟩ := h
        refine ⟨_, rfl, rfl, hsim.peof, rfl, hsim.blk, hsim.blkLimit, hsim.slice, hsim.lim,
          ⟨ma - 16, ?_⟩, ⟨ma, hma⟩⟩
        simp only [hm, hma, List.drop_take]


theorem fillBuf_slice {s : RState} (hs : s.isSlice = true) : fillBuf s = (.ok s.rest, s) := by
  simp [fillBuf, hs]

theorem nextInner_cut {α : Type} (d : Decomp) (datum : RState → Except DeErr α × RState)
    (fuel : Nat) : ∀ (rt rf : Reader), TSim rt rf → ∀ (a : α) (rt' : Reader),
      nextInner d datum fuel rt = (.ok (some a), rt') →
      ∃ rf', nextInner d datum fuel rf = (.ok (some a), rf') ∧ TSim rt' rf' := by
  induction fuel with
  | zero => intro rt rf _ a rt' h; simp [nextInner] at h
  | succ fuel ih =>
    intro rt rf hsim a rt' h
    rw [nextInner_succ] at h ⊢
    have hst := hsim.st
    obtain ⟨m, hm⟩ := hsim.outer
    have hslt : rt.outer.isSlice = true := by rw [hm]; exact hsim.slice
    obtain ⟨st, pe, sync, outer, blk, after, lim⟩ := rt
    obtain ⟨st', pe', sync', outer', blk', after', lim'⟩ := rf
    simp only at hst hm hslt
    subst hst
    cases st with
    | broken => simp at h
    | notInBlock =>
      simp only [fillBuf_slice hslt] at h
      simp only [fillBuf_slice hsim.slice]
      split at h
      · simp at h
      · rename_i hne
        have hne' : ¬ (outer'.rest.isEmpty = true) := by
          intro he
          apply hne
          rw [hm]
          simp only [List.isEmpty_iff] at he ⊢
          simp [he]
        simp only [hne']
        generalize he : enterBlock d _ = x at h
        obtain ⟨res, r1⟩ := x
        cases res with
        | error e => simp at h
        | ok u =>
          simp only at h
          obtain ⟨rf1, hrf1, hsim1⟩ := enterBlock_cut hsim he
          simp only [hrf1]
          exact ih r1 rf1 hsim1 a rt' h
    | inBlock n =>
      cases n with
      | zero =>
        simp only at h ⊢
        generalize he : leaveBlock d _ = x at h
        obtain ⟨res, r1⟩ := x
        cases res with
        | error e => simp at h
        | ok u =>
          simp only at h
          obtain ⟨rf1, hrf1, hsim1⟩ := leaveBlock_cut hsim he
          simp only [hrf1]
          exact ih r1 rf1 hsim1 a rt' h
      | succ n =>
        have hb := hsim.blk
        have hbl := hsim.blkLimit
        simp only at hb hbl
        subst hb hbl
        simp only at h ⊢
        generalize datum blk = x at h
        obtain ⟨res, b'⟩ := x
        cases res with
        | error e => simp at h
        | ok a' =>
          simp only [Prod.mk.injEq, Except.ok.injEq, Option.some.injEq] at h
          obtain ⟨rfl, rfl⟩ := h
          exact ⟨_, rfl, rfl, hsim.peof, hsim.sync, rfl, rfl, hsim.slice, hsim.lim, hsim.outer,
            hsim.after⟩

end Avro.Impl.Ocf
