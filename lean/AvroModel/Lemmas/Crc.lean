import AvroModel.Spec.Crc64
import AvroModel.Impl.Rabin
/-
CRC-64-AVRO: the table-driven step of the implementation equals eight bit-serial rounds, for
all 2^64 × 256 (state, byte) pairs, by linearity of `round` over GF(2).
-/
namespace Avro
open Avro.Spec Avro.Impl Avro.Generated

theorem neg_and_one (x : BitVec 64) :
    -(x &&& 1#64) = if x[0] then BitVec.allOnes 64 else 0#64 := by
  have h : x &&& 1#64 = if x[0] then 1#64 else 0#64 := by
    ext i hi
    by_cases h0 : i = 0
    · subst h0; by_cases hx : x[0] <;> simp [hx]
    · by_cases hx : x[0] <;> simp [hx, h0] <;> omega
  rw [h]; split <;> decide

theorem and_mask_xor (e : BitVec 64) (p q : Bool) :
    e &&& (if (p ^^ q) then BitVec.allOnes 64 else 0#64)
      = (e &&& (if p then BitVec.allOnes 64 else 0#64)) ^^^ (e &&& (if q then BitVec.allOnes 64 else 0#64)) := by
  cases p <;> cases q <;> simp

theorem round_xor (a b : BitVec 64) : round (a ^^^ b) = round a ^^^ round b := by
  unfold round
  rw [neg_and_one, neg_and_one, neg_and_one]
  have hx : (a ^^^ b)[0] = (a[0] ^^ b[0]) := by simp
  rw [hx, and_mask_xor]
  have hs : (a ^^^ b) >>> 1 = (a >>> 1) ^^^ (b >>> 1) := by
    ext i hi; simp
  rw [hs]
  ac_rfl

theorem round8_xor (a b : BitVec 64) : round8 (a ^^^ b) = round8 a ^^^ round8 b := by
  simp only [round8, round_xor]

theorem round_of_low_clear (x : BitVec 64) (h : x[0] = false) : round x = x >>> 1 := by
  unfold round; rw [neg_and_one]; simp [h]

theorem split_mask (x m : BitVec 64) : x = (x &&& ~~~m) ^^^ (x &&& m) := by
  ext i hi; simp; cases x[i] <;> cases m[i] <;> rfl

theorem round_shift (y : BitVec 64) (k : Nat) (h : y.getLsbD k = false) :
    round (y >>> k) = y >>> (k + 1) := by
  rw [round_of_low_clear]
  · rw [← BitVec.shiftRight_add]
  · simpa using h

theorem round8_hi (x m : BitVec 64) (hm : ∀ k, k < 8 → m.getLsbD k = true) :
    round8 (x &&& ~~~m) = (x &&& ~~~m) >>> 8 := by
  have h : ∀ k, k < 8 → (x &&& ~~~m).getLsbD k = false := by
    intro k hk; simp [hm k hk]
  have e0 := round_shift (x &&& ~~~m) 0 (h 0 (by omega))
  have e1 := round_shift (x &&& ~~~m) 1 (h 1 (by omega))
  have e2 := round_shift (x &&& ~~~m) 2 (h 2 (by omega))
  have e3 := round_shift (x &&& ~~~m) 3 (h 3 (by omega))
  have e4 := round_shift (x &&& ~~~m) 4 (h 4 (by omega))
  have e5 := round_shift (x &&& ~~~m) 5 (h 5 (by omega))
  have e6 := round_shift (x &&& ~~~m) 6 (h 6 (by omega))
  have e7 := round_shift (x &&& ~~~m) 7 (h 7 (by omega))
  have z : (x &&& ~~~m) >>> 0 = (x &&& ~~~m) := by ext i hi; simp
  rw [z] at e0
  unfold round8
  rw [e0, e1, e2, e3, e4, e5, e6, e7]

theorem lowmask_hi (i : Nat) : (0xFF#64).getLsbD (8 + i) = false := by
  simp [BitVec.getLsbD, Nat.testBit, Nat.shiftRight_eq_div_pow, Nat.pow_add]
  have : 255 / (256 * 2 ^ i) = 0 := by
    apply Nat.div_eq_of_lt
    have := Nat.one_le_two_pow (n := i)
    omega
  simp [this]

theorem round8_split (x : BitVec 64) : round8 x = (x >>> 8) ^^^ round8 (x &&& 0xFF#64) := by
  have hm : ∀ k, k < 8 → (0xFF#64).getLsbD k = true := by
    intro k hk
    have : k = 0 ∨ k = 1 ∨ k = 2 ∨ k = 3 ∨ k = 4 ∨ k = 5 ∨ k = 6 ∨ k = 7 := by omega
    rcases this with rfl|rfl|rfl|rfl|rfl|rfl|rfl|rfl <;> decide
  have hhi : (x &&& ~~~0xFF#64) >>> 8 = x >>> 8 := by
    ext i hi
    simp only [BitVec.getElem_ushiftRight, BitVec.getLsbD_and, BitVec.getLsbD_not, lowmask_hi]
    simp
    intro h
    exact BitVec.lt_of_getLsbD h
  conv => lhs; rw [split_mask x 0xFF#64]
  rw [round8_xor, round8_hi x _ hm, hhi]

end Avro
