import AvroModel.Lemmas.DeriveFits
/-
C20, builder side: the invariants of `SchemaBuilder` (`findOrBuild` / `appendSchema`) on the
fragment `FitWf`, and the proof that the schema built for the root type realizes it (`Realizes`).
-/
namespace Avro.Theorems.DeriveFits
open Avro Avro.Impl Avro.Impl.Derive

/-! ### Substitution with no arguments -/

mutual
theorem subst_nil : ∀ t : Ty, subst [] t = t
  | .vec t => by rw [subst, subst_nil t]
  | .option t => by rw [subst, subst_nil t]
  | .hashMap t => by rw [subst, subst_nil t]
  | .btreeMap t => by rw [subst, subst_nil t]
  | .ptr t => by rw [subst, subst_nil t]
  | .named id as => by rw [subst, substList_nil as]
  | .param i => by simp [subst]
  | .unit | .bool | .i8 | .i16 | .i32 | .i64 | .u16 | .u32 | .u64 | .usize | .f32 | .f64
  | .string | .str | .byteVec | .byteSlice | .byteArray _ => by simp [subst]
theorem substList_nil : ∀ ts : List Ty, substList [] ts = ts
  | [] => by rw [substList]
  | t :: ts => by rw [substList, subst_nil t, substList_nil ts]
end

/-! ### Fuel monotonicity of `lookupKey` -/

theorem lookupKey_zero (P : Prog) (t : Ty) : lookupKey P 0 t = none := by
  unfold lookupKey; rfl

theorem lookupKey_mono_aux (P : Prog) : ∀ F,
    (∀ t k, lookupKey P F t = some k → lookupKey P (F + 1) t = some k) ∧
    (∀ ts k, lookupKeys P F ts = some k → lookupKeys P (F + 1) ts = some k) := by
  intro F
  induction F with
  | zero =>
    refine ⟨fun t k h => (by rw [lookupKey_zero] at h; cases h), fun ts k h => ?_⟩
    cases ts with
    | nil => simpa [lookupKeys] using h
    | cons t ts => simp [lookupKeys] at h
  | succ F ih =>
    obtain ⟨ih1, ih2⟩ := ih
    have hmap : ∀ (t : Ty) (tok : KTok) (k : Key), (lookupKey P F t).map (tok :: ·) = some k →
        (lookupKey P (F + 1) t).map (tok :: ·) = some k := by
      intro t tok k h
      cases h1 : lookupKey P F t with
      | none => rw [h1] at h; cases h
      | some k' => rw [h1] at h; rw [ih1 t k' h1]; exact h
    have hmaps : ∀ (ts : List Ty) (tok : KTok) (k : Key), (lookupKeys P F ts).map (tok :: ·) = some k →
        (lookupKeys P (F + 1) ts).map (tok :: ·) = some k := by
      intro ts tok k h
      cases h1 : lookupKeys P F ts with
      | none => rw [h1] at h; cases h
      | some k' => rw [h1] at h; rw [ih2 ts k' h1]; exact h
    constructor
    · intro t k h
      unfold lookupKey at h ⊢
      cases t with
      | vec t => exact hmap _ _ _ h
      | option t => exact hmap _ _ _ h
      | hashMap t => exact hmap _ _ _ h
      | btreeMap t => exact hmap _ _ _ h
      | ptr t => exact ih1 _ _ h
      | named id args =>
        dsimp only at h ⊢
        cases hd : P[id]? with
        | none => rw [hd] at h; cases h
        | some d =>
          rw [hd] at h
          dsimp only at h ⊢
          cases hb : d.body with
          | unitEnum vs => rw [hb] at h; exact h
          | newtype fd =>
            rw [hb] at h
            dsimp only at h ⊢
            split
            · rename_i hdir; rw [if_pos hdir] at h; exact ih1 _ _ h
            · rename_i hdir
              rw [if_neg hdir] at h
              split
              · rename_i hn; rw [if_pos hn] at h; exact h
              · rename_i hn; rw [if_neg hn] at h; exact hmaps _ _ _ h
          | record fs =>
            rw [hb] at h
            dsimp only at h ⊢
            split
            · rename_i hn; rw [if_pos hn] at h; exact h
            · rename_i hn; rw [if_neg hn] at h; exact hmaps _ _ _ h
          | union vs =>
            rw [hb] at h
            dsimp only at h ⊢
            split
            · rename_i hn; rw [if_pos hn] at h; exact h
            · rename_i hn; rw [if_neg hn] at h; exact hmaps _ _ _ h
      | _ => exact h
    · intro ts k h
      cases ts with
      | nil => simpa [lookupKeys] using h
      | cons t ts =>
        rw [lookupKeys] at h ⊢
        cases h1 : lookupKey P F t with
        | none => rw [h1] at h; simp at h
        | some a =>
          cases h2 : lookupKeys P F ts with
          | none => rw [h1, h2] at h; simp at h
          | some b =>
            rw [h1, h2] at h
            rw [ih1 t a h1, ih2 ts b h2]
            exact h

theorem lookupKey_mono (P : Prog) {F F' : Nat} (hle : F ≤ F') {t : Ty} {k : Key}
    (h : lookupKey P F t = some k) : lookupKey P F' t = some k := by
  induction hle with
  | refl => exact h
  | step _ ih => exact (lookupKey_mono_aux P _).1 t k ih

/-- The lookup type of `t` has token list `k` (at some, hence every larger, fuel). -/
def KeyOf (P : Prog) (t : Ty) (k : Key) : Prop := ∃ F, lookupKey P F t = some k

theorem KeyOf.unique {P : Prog} {t : Ty} {k k' : Key} (h : KeyOf P t k) (h' : KeyOf P t k') : k = k' := by
  obtain ⟨F, h⟩ := h
  obtain ⟨F', h'⟩ := h'
  have h1 := lookupKey_mono P (Nat.le_max_left F F') h
  have h2 := lookupKey_mono P (Nat.le_max_right F F') h'
  rw [h1] at h2
  exact Option.some.inj h2

section keyof
variable {P : Prog}

theorem KeyOf.succ {t : Ty} {k : Key} (h : KeyOf P t k) : ∃ F, lookupKey P (F + 1) t = some k := by
  obtain ⟨F, h⟩ := h
  cases F with
  | zero => rw [lookupKey_zero] at h; cases h
  | succ F => exact ⟨F, h⟩

theorem KeyOf.of_map {t : Ty} {tok : KTok} {k : Key} {F : Nat}
    (h : (lookupKey P F t).map (tok :: ·) = some k) : ∃ k', k = tok :: k' ∧ KeyOf P t k' := by
  cases h1 : lookupKey P F t with
  | none => rw [h1] at h; cases h
  | some k' =>
    rw [h1] at h
    exact ⟨k', (Option.some.inj h).symm, F, h1⟩

theorem KeyOf.of_maps {ts : List Ty} {tok : KTok} {k : Key} {F : Nat}
    (h : (lookupKeys P F ts).map (tok :: ·) = some k) : ∃ k', k = tok :: k' ∧ True := by
  cases h1 : lookupKeys P F ts with
  | none => rw [h1] at h; cases h
  | some k' =>
    rw [h1] at h
    exact ⟨k', (Option.some.inj h).symm, trivial⟩

theorem KeyOf.vec {t : Ty} {k : Key} (h : KeyOf P (.vec t) k) : ∃ k', k = .vec :: k' ∧ KeyOf P t k' := by
  obtain ⟨F, h⟩ := h.succ
  unfold lookupKey at h
  exact KeyOf.of_map h

theorem KeyOf.option {t : Ty} {k : Key} (h : KeyOf P (.option t) k) :
    ∃ k', k = .option :: k' ∧ KeyOf P t k' := by
  obtain ⟨F, h⟩ := h.succ
  unfold lookupKey at h
  exact KeyOf.of_map h

theorem KeyOf.hashMap {t : Ty} {k : Key} (h : KeyOf P (.hashMap t) k) :
    ∃ k', k = .map :: k' ∧ KeyOf P t k' := by
  obtain ⟨F, h⟩ := h.succ
  unfold lookupKey at h
  exact KeyOf.of_map h

theorem KeyOf.btreeMap {t : Ty} {k : Key} (h : KeyOf P (.btreeMap t) k) :
    ∃ k', k = .map :: k' ∧ KeyOf P t k' := by
  obtain ⟨F, h⟩ := h.succ
  unfold lookupKey at h
  exact KeyOf.of_map h

theorem KeyOf.ptr {t : Ty} {k : Key} (h : KeyOf P (.ptr t) k) : KeyOf P t k := by
  obtain ⟨F, h⟩ := h.succ
  unfold lookupKey at h
  exact ⟨F, h⟩

theorem KeyOf.of_ptr {t : Ty} {k : Key} (h : KeyOf P t k) : KeyOf P (.ptr t) k := by
  obtain ⟨F, h⟩ := h
  refine ⟨F + 1, ?_⟩
  unfold lookupKey
  exact h

theorem KeyOf.to_peel : ∀ {t : Ty} {k : Key}, KeyOf P t k → KeyOf P (Derive.peel t) k
  | .ptr t, k, h => (KeyOf.to_peel h.ptr : KeyOf P (Derive.peel t) k)
  | .unit, _, h | .bool, _, h | .i8, _, h | .i16, _, h | .i32, _, h | .i64, _, h | .u16, _, h
  | .u32, _, h | .u64, _, h | .usize, _, h | .f32, _, h | .f64, _, h | .string, _, h | .str, _, h
  | .byteVec, _, h | .byteSlice, _, h | .byteArray _, _, h | .vec _, _, h | .option _, _, h
  | .hashMap _, _, h | .btreeMap _, _, h | .named _ _, _, h | .param _, _, h => by
    simpa [Derive.peel] using h

theorem KeyOf.of_peel : ∀ {t : Ty} {k : Key}, KeyOf P (Derive.peel t) k → KeyOf P t k
  | .ptr t, k, h => (KeyOf.of_peel (t := t) h).of_ptr
  | .unit, _, h | .bool, _, h | .i8, _, h | .i16, _, h | .i32, _, h | .i64, _, h | .u16, _, h
  | .u32, _, h | .u64, _, h | .usize, _, h | .f32, _, h | .f64, _, h | .string, _, h | .str, _, h
  | .byteVec, _, h | .byteSlice, _, h | .byteArray _, _, h | .vec _, _, h | .option _, _, h
  | .hashMap _, _, h | .btreeMap _, _, h | .named _ _, _, h | .param _, _, h => by
    simpa [Derive.peel] using h

theorem KeyOf.leaf {t : Ty} {k k0 : Key} (h : KeyOf P t k)
    (h0 : ∀ F, lookupKey P (F + 1) t = some k0) : k = k0 := by
  obtain ⟨F, h⟩ := h.succ
  rw [h0 F] at h
  exact (Option.some.inj h).symm

theorem KeyOf.named_enum {id : Nat} {args : List Ty} {k : Key} {d : Decl} {vs : List String}
    (h : KeyOf P (.named id args) k) (hd : P[id]? = some d) (hb : d.body = .unitEnum vs) :
    k = [.self id] := by
  obtain ⟨F, h⟩ := h.succ
  unfold lookupKey at h
  simp only [hd, hb] at h
  exact (Option.some.inj h).symm

theorem KeyOf.named_record {id : Nat} {args : List Ty} {k : Key} {d : Decl} {fs : List Field}
    (h : KeyOf P (.named id args) k) (hd : P[id]? = some d) (hb : d.body = .record fs)
    (hn : d.nparams = 0) : k = [.self id] := by
  obtain ⟨F, h⟩ := h.succ
  unfold lookupKey at h
  simp only [hd, hb, hn, if_true] at h
  exact (Option.some.inj h).symm

theorem KeyOf.named_newtype {id : Nat} {args : List Ty} {k : Key} {d : Decl} {fd : Field}
    (h : KeyOf P (.named id args) k) (hd : P[id]? = some d) (hb : d.body = .newtype fd)
    (hdir : isDirect fd .newtypeStruct = true) : KeyOf P (subst args (chosenTy fd)) k := by
  obtain ⟨F, h⟩ := h.succ
  unfold lookupKey at h
  simp only [hd, hb, hdir, if_true] at h
  exact ⟨F, h⟩

theorem KeyOf.named_union {id : Nat} {args : List Ty} {k : Key} {d : Decl} {vs : List Variant}
    (h : KeyOf P (.named id args) k) (hd : P[id]? = some d) (hb : d.body = .union vs)
    (hn : d.nparams = 0) : k = [.self id] := by
  obtain ⟨F, h⟩ := h.succ
  unfold lookupKey at h
  simp only [hd, hb, hn, if_true] at h
  exact (Option.some.inj h).symm

theorem KeyOf.named_newtype_nd {id : Nat} {args : List Ty} {k : Key} {d : Decl} {fd : Field}
    (h : KeyOf P (.named id args) k) (hd : P[id]? = some d) (hb : d.body = .newtype fd)
    (hdir : isDirect fd .newtypeStruct = false) (hn : d.nparams = 0) : k = [.self id] := by
  obtain ⟨F, h⟩ := h.succ
  unfold lookupKey at h
  simp only [hd, hb, hdir, hn, if_true, Bool.false_eq_true, if_false] at h
  exact (Option.some.inj h).symm

end keyof

/-! ### The fragment -/

/-- The type's node is neither `null` nor a union: not `()`/`Option` behind pointers and
    forwarding newtypes (`n` bounds the length of a chain of newtypes). -/
def nonOpt (P : Prog) : Nat → Ty → Bool
  | 0, _ => false
  | n + 1, t =>
    match Derive.peel t with
    | .unit | .option _ | .param _ | .ptr _ => false
    | .named id args =>
      args.isEmpty &&
      match P[id]? with
      | none => false
      | some d =>
        match d.body with
        | .newtype fd =>
          fd.attr.logical.isNone &&
            (if isDirect fd .newtypeStruct then nonOpt P n fd.ty else decide (d.nparams = 0))
        | .record _ | .unitEnum _ => true
        | .union _ => false
    | _ => true

/-- Type expressions of the fragment. -/
def tyOk (P : Prog) : Ty → Bool
  | .vec t | .hashMap t | .btreeMap t | .ptr t => tyOk P t
  | .option t => tyOk P t && nonOpt P (P.size + 1) t
  | .named id args => args.isEmpty && decide (id < P.size)
  | .param _ => false
  | _ => true

/-- The raw node pushed for a leaf type. -/
def leafNode : Ty → Option RawNode
  | .unit => some (plain .null)
  | .bool => some (plain .boolean)
  | .i8 | .i16 | .i32 | .u16 => some (plain .int)
  | .i64 | .u32 | .u64 | .usize => some (plain .long)
  | .f32 => some (plain .float)
  | .f64 => some (plain .double)
  | .string | .str => some (plain .string)
  | .byteVec | .byteSlice => some (plain .bytes)
  | .byteArray n => some (plain (.fixed (Name.ofFq ("u8_array_" ++ toString n)) n))
  | _ => none

theorem leafNode_plain {t : Ty} {x : RawNode} (h : leafNode t = some x) : ∃ X, x = plain X := by
  cases t <;> simp only [leafNode, Option.some.injEq, reduceCtorEq] at h <;> exact ⟨_, h.symm⟩

/-- A field without logical-type attribute, of a type of the fragment. -/
def plainFieldOk (P : Prog) (fd : Field) : Bool := fd.attr.logical.isNone && tyOk P fd.ty

/-- The node a struct field with a logical-type attribute owns when its chosen type is a leaf:
    a duplicate of the leaf's node, renamed, with the logical type set (`build_logical_type`). -/
def logicalRawAt (d : Decl) (fd : Field) (name tn : String) : Option RawNode :=
  (leafNode (chosenTy fd)).map fun x =>
    { type := renameNode x.type (Name.ofFq (ownedName d (.structField name) tn)), logical := logicalOf fd }

def logicalRaw (d : Decl) (fd : Field) : Option RawNode := logicalRawAt d fd fd.name (typeName d)

/-- What the builder needs of a struct field: plain, or a logical-type attribute on a leaf. -/
def buildFieldOk (P : Prog) (fd : Field) : Bool :=
  plainFieldOk P fd || (!fd.attr.logical.isNone && (leafNode (chosenTy fd)).isSome)

/-- Struct fields of the fragment: plain, or with a logical-type attribute on a leaf type such
    that the frozen node accepts the values of the field's own type (e.g. `timestamp-millis` on
    an integer, `date` on an `i32`, `uuid` on a `String`, `duration` on `[u8; 12]`, or an attribute
    the freeze ignores for that type). -/
def fieldOk (P : Prog) (d : Decl) (fd : Field) : Bool :=
  plainFieldOk P fd ||
    (!fd.attr.logical.isNone &&
      match logicalRaw d fd with
      | some raw => nodeAccepts (freezeNode raw) (Derive.peel fd.ty)
      | none => false)

theorem fieldOk_build {P : Prog} {d : Decl} {fd : Field} (h : fieldOk P d fd = true) :
    buildFieldOk P fd = true := by
  simp only [fieldOk, Bool.or_eq_true, Bool.and_eq_true] at h
  simp only [buildFieldOk, Bool.or_eq_true, Bool.and_eq_true]
  rcases h with h | ⟨h1, h2⟩
  · exact .inl h
  · refine .inr ⟨h1, ?_⟩
    unfold logicalRaw logicalRawAt at h2
    cases hx : leafNode (chosenTy fd) with
    | none => simp [hx] at h2
    | some x => rfl

theorem logicalOf_ne_none {fd : Field} (h : fd.attr.logical.isNone = false) : logicalOf fd ≠ none := by
  unfold logicalOf
  cases hl : fd.attr.logical with
  | none => simp [hl] at h
  | some l =>
    dsimp only
    cases known (pascal l) with
    | none => simp
    | some k => cases k <;> simp

theorem logicalRawAt_logical {d : Decl} {fd : Field} {name tn : String} {raw : RawNode}
    (h : logicalRawAt d fd name tn = some raw) (hl : fd.attr.logical.isNone = false) :
    raw.logical ≠ none := by
  unfold logicalRawAt at h
  cases hx : leafNode (chosenTy fd) with
  | none => simp [hx] at h
  | some x =>
    simp only [hx, Option.map_some, Option.some.injEq] at h
    subst h
    exact logicalOf_ne_none hl

/-- Variants of an enum that maps to a union: unit, or one plain field that is not `[u8; N]`. -/
def variantOk (P : Prog) (v : Variant) : Bool :=
  match v.field with
  | none => true
  | some fd => plainFieldOk P fd && isDirect fd (.newtypeVariant v.ident)

/-- Declarations of the fragment: non-generic records (fields: see `fieldOk`), forwarding
    newtypes of a non-`Option` type, non-generic newtypes of `[u8; N]` (a named `fixed`),
    unit-only enums; no struct called `Null`; with `u`, also enums that map to unions. -/
def declOk (u : Bool) (P : Prog) (d : Decl) : Bool :=
  match d.body with
  | .record fs => decide (d.nparams = 0) && decide (d.ident ≠ "Null") && fs.all (fieldOk P d)
  | .newtype fd =>
    decide (d.ident ≠ "Null") && plainFieldOk P fd &&
      (if isDirect fd .newtypeStruct then nonOpt P (P.size + 1) fd.ty else decide (d.nparams = 0))
  | .unitEnum _ => true
  | .union vs => u && decide (d.nparams = 0) && vs.all (variantOk P)

/-- The fragment of programs covered by `C20_fits`. -/
def FitWf (P : Prog) (root : Ty) : Bool := P.all (declOk false P) && tyOk P root

/-- The fragment with enums that map to unions (non-generic; every variant a unit variant or a
    newtype variant whose field is not `[u8; N]` and has no logical-type attribute), covered by
    `C20_fits_unions` under a hypothesis on the variant names. -/
def FitWfU (P : Prog) (root : Ty) : Bool := P.all (declOk true P) && tyOk P root

theorem declOk_mono {P : Prog} {d : Decl} (h : declOk false P d = true) : declOk true P d = true := by
  unfold declOk at h ⊢
  cases hb : d.body <;> simp only [hb] at h ⊢ <;> first | exact h | simp at h

theorem chosenTy_plain {fd : Field} (h : fd.attr.logical.isNone = true) : chosenTy fd = Derive.peel fd.ty := by
  have : fd.attr.logical = none := by simpa using h
  simp [chosenTy, this]

theorem logicalOf_plain {fd : Field} (h : fd.attr.logical.isNone = true) : logicalOf fd = none := by
  have : fd.attr.logical = none := by simpa using h
  simp [logicalOf, this]

theorem tyOk_peel (P : Prog) : ∀ {t : Ty}, tyOk P t = true → tyOk P (Derive.peel t) = true
  | .ptr t, h => by
    have h' : tyOk P t = true := by simpa [tyOk] using h
    exact (tyOk_peel P h' : tyOk P (Derive.peel t) = true)
  | .unit, h | .bool, h | .i8, h | .i16, h | .i32, h | .i64, h | .u16, h
  | .u32, h | .u64, h | .usize, h | .f32, h | .f64, h | .string, h | .str, h
  | .byteVec, h | .byteSlice, h | .byteArray _, h | .vec _, h | .option _, h
  | .hashMap _, h | .btreeMap _, h | .named _ _, h | .param _, h => by
    simpa [Derive.peel] using h

/-! ### Builder invariants -/

/-- `already_built_types` maps the lookup type with token list `k` to node `i`. -/
def Reg (s : BState) (k : Key) (i : Nat) : Prop := s.built.lookup k = some i

/-- The node a finished lookup type owns, by the head token of its key; child keys are resolved
    through `reg`. -/
def KeyNode (P : Prog) (reg : Key → Nat → Prop) (nodes : Array RawNode) : Key → Nat → Prop
  | [], _ => False
  | tok :: rest, i =>
    match tok with
    | .unit => nodes[i]? = some (plain .null)
    | .bool => nodes[i]? = some (plain .boolean)
    | .int => nodes[i]? = some (plain .int)
    | .long => nodes[i]? = some (plain .long)
    | .float => nodes[i]? = some (plain .float)
    | .double => nodes[i]? = some (plain .double)
    | .string => nodes[i]? = some (plain .string)
    | .bytes => nodes[i]? = some (plain .bytes)
    | .byteArray n => ∃ nm, nodes[i]? = some (plain (.fixed nm n))
    | .vec => ∃ c, nodes[i]? = some (plain (.array c)) ∧ reg rest c
    | .map => ∃ c, nodes[i]? = some (plain (.map c)) ∧ reg rest c
    | .option => ∃ a b, nodes[i]? = some (plain (.union [a, b])) ∧ reg [.unit] a ∧ reg rest b
    | .self id =>
      match P[id]? with
      | none => False
      | some d =>
        match d.body with
        | .record fields =>
          ∃ nm fs, nodes[i]? = some (plain (.record nm fs)) ∧ fs.length = fields.length ∧
            ∀ (j : Nat) (fd : Field) (p : String × Nat), fields[j]? = some fd → fs[j]? = some p →
              p.1 = fd.name ∧
                ((fd.attr.logical.isNone = true ∧ ∃ k, KeyOf P fd.ty k ∧ reg k p.2) ∨
                 (fd.attr.logical.isNone = false ∧
                    ∃ raw, logicalRaw d fd = some raw ∧ nodes[p.2]? = some raw))
        | .unitEnum vs => ∃ nm, nodes[i]? = some (plain (.enum nm vs))
        | .newtype fd =>
          isDirect fd .newtypeStruct = false ∧
            ∃ nm n, nodes[i]? = some (plain (.fixed nm n)) ∧ Derive.peel fd.ty = .byteArray n
        | .union vs =>
          ∃ ks, nodes[i]? = some (plain (.union ks)) ∧ ks.length = vs.length ∧
            ∀ (j : Nat) (v : Variant) (c : Nat), vs[j]? = some v → ks[j]? = some c →
              match v.field with
              | none => reg [.unit] c
              | some fd => ∃ k, KeyOf P fd.ty k ∧ reg k c
    | .generic _ _ => False

theorem KeyNode.mono {P : Prog} {reg reg' : Key → Nat → Prop} {nodes nodes' : Array RawNode}
    {k : Key} {i : Nat} (hreg : ∀ k c, reg k c → reg' k c) (hn : nodes'[i]? = nodes[i]?)
    (hown : ∀ (j : Nat) (x : RawNode), nodes[j]? = some x → x.logical ≠ none → nodes'[j]? = some x)
    (h : KeyNode P reg nodes k i) : KeyNode P reg' nodes' k i := by
  cases k with
  | nil => exact h
  | cons tok rest =>
    cases tok with
    | vec => obtain ⟨c, h1, h2⟩ := h; exact ⟨c, by rw [hn]; exact h1, hreg _ _ h2⟩
    | map => obtain ⟨c, h1, h2⟩ := h; exact ⟨c, by rw [hn]; exact h1, hreg _ _ h2⟩
    | option =>
      obtain ⟨a, b, h1, h2, h3⟩ := h
      exact ⟨a, b, by rw [hn]; exact h1, hreg _ _ h2, hreg _ _ h3⟩
    | byteArray n => obtain ⟨nm, h1⟩ := h; exact ⟨nm, by rw [hn]; exact h1⟩
    | generic _ _ => exact h
    | self id =>
      simp only [KeyNode] at h ⊢
      cases hd : P[id]? with
      | none => rw [hd] at h; exact h
      | some d =>
        rw [hd] at h
        dsimp only at h ⊢
        cases hb : d.body with
        | record fields =>
          rw [hb] at h
          obtain ⟨nm, fs, h1, h2, h3⟩ := h
          refine ⟨nm, fs, by rw [hn]; exact h1, h2, fun j fd p hj hp => ?_⟩
          obtain ⟨h4, h5⟩ := h3 j fd p hj hp
          refine ⟨h4, ?_⟩
          rcases h5 with ⟨hl, k, h5, h6⟩ | ⟨hl, raw, h5, h6⟩
          · exact .inl ⟨hl, k, h5, hreg _ _ h6⟩
          · exact .inr ⟨hl, raw, h5, hown _ _ h6 (logicalRawAt_logical h5 hl)⟩
        | unitEnum vs =>
          rw [hb] at h
          obtain ⟨nm, h1⟩ := h
          exact ⟨nm, by rw [hn]; exact h1⟩
        | newtype fd =>
          rw [hb] at h
          obtain ⟨h0, nm, n, h1, h2⟩ := h
          exact ⟨h0, nm, n, by rw [hn]; exact h1, h2⟩
        | union vs =>
          rw [hb] at h
          obtain ⟨ks, h1, h2, h3⟩ := h
          refine ⟨ks, by rw [hn]; exact h1, h2, fun j v c hj hc => ?_⟩
          have := h3 j v c hj hc
          cases hf : v.field with
          | none => rw [hf] at this; exact hreg _ _ this
          | some fd =>
            rw [hf] at this
            obtain ⟨k, h5, h6⟩ := this
            exact ⟨k, h5, hreg _ _ h6⟩
    | _ => simp only [KeyNode] at h ⊢; rw [hn]; exact h

def Done (P : Prog) (s : BState) (k : Key) (i : Nat) : Prop := KeyNode P (Reg s) s.nodes k i

/-- Builder invariant: registered nodes exist, distinct lookup types own distinct nodes, and every
    registered lookup type is finished unless it is one of those being built (`pend`). -/
structure Inv (P : Prog) (pend : List Key) (s : BState) : Prop where
  bnd : ∀ k i, Reg s k i → i < s.nodes.size
  inj : ∀ k k' i, Reg s k i → Reg s k' i → k = k'
  done : ∀ k i, Reg s k i → k ∈ pend ∨ Done P s k i
  /-- registered nodes carry no logical type (unlike the nodes owned by logical-type fields) -/
  isPlain : ∀ k i, Reg s k i → ∃ X, s.nodes[i]? = some (plain X)

/-- The builder only appends nodes and registrations. -/
structure BExt (s s' : BState) : Prop where
  size : s.nodes.size ≤ s'.nodes.size
  nodes : ∀ j, j < s.nodes.size → s'.nodes[j]? = s.nodes[j]?
  built : ∀ k i, Reg s k i → Reg s' k i

theorem BExt.refl (s : BState) : BExt s s := ⟨Nat.le_refl _, fun _ _ => rfl, fun _ _ h => h⟩

theorem BExt.trans {s1 s2 s3 : BState} (h12 : BExt s1 s2) (h23 : BExt s2 s3) : BExt s1 s3 :=
  ⟨Nat.le_trans h12.size h23.size,
   fun j hj => by rw [h23.nodes j (Nat.lt_of_lt_of_le hj h12.size), h12.nodes j hj],
   fun k i h => h23.built k i (h12.built k i h)⟩

theorem Done.ext {P : Prog} {s s' : BState} {k : Key} {i : Nat} (he : BExt s s') (hi : i < s.nodes.size)
    (h : Done P s k i) : Done P s' k i :=
  KeyNode.mono he.built (he.nodes i hi) (fun j x hj _ => by
    have hlt : j < s.nodes.size := by
      rcases Nat.lt_or_ge j s.nodes.size with h | h
      · exact h
      · rw [Array.getElem?_eq_none h] at hj; cases hj
    rw [he.nodes j hlt, hj]) h

theorem Inv.empty (P : Prog) : Inv P [] {} :=
  ⟨fun k i h => by simp [Reg, List.lookup] at h, fun k k' i h => by simp [Reg, List.lookup] at h,
   fun k i h => by simp [Reg, List.lookup] at h, fun k i h => by simp [Reg, List.lookup] at h⟩

theorem Reg.cons_self (s : BState) (key : Key) (n : Nat) (nodes : Array RawNode) :
    Reg { nodes := nodes, built := (key, n) :: s.built } key n := by
  simp [Reg, List.lookup]

theorem Reg.cons_iff {s : BState} {key : Key} {n : Nat} {nodes : Array RawNode} {k : Key} {i : Nat} :
    Reg { nodes := nodes, built := (key, n) :: s.built } k i ↔
      (k = key ∧ i = n) ∨ (k ≠ key ∧ Reg s k i) := by
  unfold Reg
  by_cases hk : k = key
  · subst hk
    simp [List.lookup, eq_comm]
  · have : (k == key) = false := by simpa using hk
    simp [List.lookup, this, hk]

/-- Registering a new lookup type at the next index and pushing its (placeholder) node. -/
theorem Inv.register_push {P : Prog} {pend : List Key} {s : BState} (hinv : Inv P pend s)
    {key : Key} (hnew : s.built.lookup key = none) (x : RawNode) (hx : ∃ X, x = plain X) :
    Inv P (key :: pend) { nodes := s.nodes.push x, built := (key, s.nodes.size) :: s.built } ∧
      BExt s { nodes := s.nodes.push x, built := (key, s.nodes.size) :: s.built } := by
  have hext : BExt s { nodes := s.nodes.push x, built := (key, s.nodes.size) :: s.built } := by
    refine ⟨by simp, fun j hj => by simp [Array.getElem?_push, Nat.ne_of_lt hj], fun k i h => ?_⟩
    refine Reg.cons_iff.mpr (.inr ⟨?_, h⟩)
    intro hk
    subst hk
    rw [Reg, hnew] at h
    cases h
  refine ⟨⟨fun k i h => ?_, fun k k' i h h' => ?_, fun k i h => ?_, fun k i h => ?_⟩, hext⟩
  · rcases Reg.cons_iff.mp h with ⟨_, rfl⟩ | ⟨_, h⟩
    · simp
    · have := hinv.bnd k i h; simp; omega
  · rcases Reg.cons_iff.mp h with ⟨h1, h2⟩ | ⟨hk, h3⟩
    · rcases Reg.cons_iff.mp h' with ⟨h4, _⟩ | ⟨hk', h6⟩
      · rw [h1, h4]
      · rw [h2] at h6; exact absurd (hinv.bnd _ _ h6) (Nat.lt_irrefl _)
    · rcases Reg.cons_iff.mp h' with ⟨_, h5⟩ | ⟨hk', h6⟩
      · rw [h5] at h3; exact absurd (hinv.bnd _ _ h3) (Nat.lt_irrefl _)
      · exact hinv.inj _ _ _ h3 h6
  · rcases Reg.cons_iff.mp h with ⟨rfl, _⟩ | ⟨hk, h⟩
    · exact .inl (by simp)
    · rcases hinv.done k i h with hp | hd
      · exact .inl (by simp [hp])
      · exact .inr (hd.ext hext (hinv.bnd k i h))
  · rcases Reg.cons_iff.mp h with ⟨_, rfl⟩ | ⟨_, h⟩
    · obtain ⟨X, rfl⟩ := hx
      exact ⟨X, by simp⟩
    · obtain ⟨X, hX⟩ := hinv.isPlain k i h
      exact ⟨X, by rw [hext.nodes i (hinv.bnd k i h)]; exact hX⟩

/-- Pushing a node that no lookup type owns (the node of a logical-type field). -/
theorem Inv.push_owned {P : Prog} {pend : List Key} {s s' : BState} (hinv : Inv P pend s)
    (hb : s'.built = s.built) (hsz : s.nodes.size ≤ s'.nodes.size)
    (hn : ∀ j, j < s.nodes.size → s'.nodes[j]? = s.nodes[j]?) : Inv P pend s' ∧ BExt s s' := by
  have hreg : ∀ k i, Reg s' k i ↔ Reg s k i := fun k i => by unfold Reg; rw [hb]
  have hext : BExt s s' := ⟨hsz, hn, fun k i h => (hreg k i).mpr h⟩
  refine ⟨⟨fun k i h => ?_, fun k k' i h h' => ?_, fun k i h => ?_, fun k i h => ?_⟩, hext⟩
  · exact Nat.lt_of_lt_of_le (hinv.bnd k i ((hreg k i).mp h)) hsz
  · exact hinv.inj k k' i ((hreg k i).mp h) ((hreg k' i).mp h')
  · rcases hinv.done k i ((hreg k i).mp h) with hp | hd
    · exact .inl hp
    · exact .inr (hd.ext hext (hinv.bnd k i ((hreg k i).mp h)))
  · obtain ⟨X, hX⟩ := hinv.isPlain k i ((hreg k i).mp h)
    exact ⟨X, by rw [hn i (hinv.bnd k i ((hreg k i).mp h))]; exact hX⟩

/-- Filling a node owned by a pending lookup type. -/
theorem Inv.set {P : Prog} {pend : List Key} {s : BState} {key : Key} {n : Nat}
    (hinv : Inv P (key :: pend) s) (hreg : Reg s key n) (x : RawNode) (hx : ∃ X, x = plain X) :
    Inv P (key :: pend) { s with nodes := s.nodes.set! n x } := by
  refine ⟨fun k i h => by simpa using hinv.bnd k i h, fun k k' i h h' => hinv.inj k k' i h h',
    fun k i h => ?_, fun k i h => ?_⟩
  · by_cases hk : k = key
    · exact .inl (by simp [hk])
    · rcases hinv.done k i h with hp | hd
      · exact .inl hp
      · refine .inr (KeyNode.mono (fun _ _ h => h) ?_ ?_ hd)
        · have hne : n ≠ i := fun hni => hk (hinv.inj k key i h (hni ▸ hreg))
          simp [Array.set!_eq_setIfInBounds, hne]
        · intro j y hj hy
          have hne : n ≠ j := by
            intro hnj
            subst hnj
            obtain ⟨X, hX⟩ := hinv.isPlain key n hreg
            rw [hX] at hj
            cases hj
            exact hy rfl
          simp only [Array.set!_eq_setIfInBounds]
          rw [Array.getElem?_setIfInBounds_ne hne]
          exact hj
  · by_cases hni : n = i
    · subst hni
      obtain ⟨X, rfl⟩ := hx
      exact ⟨X, by simp [Array.set!_eq_setIfInBounds, hinv.bnd k n h]⟩
    · obtain ⟨X, hX⟩ := hinv.isPlain k i h
      exact ⟨X, by simp only [Array.set!_eq_setIfInBounds]; rw [Array.getElem?_setIfInBounds_ne hni]; exact hX⟩

theorem Inv.finish {P : Prog} {pend : List Key} {s : BState} {key : Key}
    (hinv : Inv P (key :: pend) s) (hdone : ∀ i, Reg s key i → Done P s key i) : Inv P pend s := by
  refine ⟨hinv.bnd, hinv.inj, fun k i h => ?_, hinv.isPlain⟩
  rcases hinv.done k i h with hp | hd
  · rcases List.mem_cons.mp hp with rfl | hp
    · exact .inr (hdone i h)
    · exact .inl hp
  · exact .inr hd

theorem BExt.set_after {s s3 : BState} (he : BExt s s3) {n : Nat} (hn : s.nodes.size ≤ n) (x : RawNode) :
    BExt s { s3 with nodes := s3.nodes.set! n x } := by
  refine ⟨by simpa using he.size, fun j hj => ?_, he.built⟩
  have hne : n ≠ j := by omega
  simp only [Array.set!_eq_setIfInBounds]
  rw [Array.getElem?_setIfInBounds_ne hne]
  exact he.nodes j hj

theorem Reg.functional {s : BState} {k : Key} {i j : Nat} (h : Reg s k i) (h' : Reg s k j) : i = j := by
  unfold Reg at h h'
  rw [h] at h'
  exact Option.some.inj h'

/-- A type whose node is pushed complete. -/
theorem app_leaf {P : Prog} {pend : List Key} {s : BState} {key : Key} (hinv : Inv P pend s)
    (hnew : s.built.lookup key = none) (x : RawNode) (hx : ∃ X, x = plain X)
    (hdone : ∀ (reg : Key → Nat → Prop) (nodes : Array RawNode), nodes[s.nodes.size]? = some x →
      KeyNode P reg nodes key s.nodes.size) :
    Inv P pend { nodes := s.nodes.push x, built := (key, s.nodes.size) :: s.built } ∧
      BExt s { nodes := s.nodes.push x, built := (key, s.nodes.size) :: s.built } ∧
      s.nodes.size < (s.nodes.push x).size ∧
      Reg { nodes := s.nodes.push x, built := (key, s.nodes.size) :: s.built } key s.nodes.size := by
  obtain ⟨h1, h2⟩ := hinv.register_push hnew x hx
  refine ⟨h1.finish (fun i hi => ?_), h2, by simp, Reg.cons_self _ _ _ _⟩
  have : i = s.nodes.size := Reg.functional hi (Reg.cons_self _ _ _ _)
  subst this
  exact hdone _ _ (by simp)

/-- A type whose node is reserved, then filled once its children are registered. -/
theorem app_fill {P : Prog} {pend : List Key} {s s3 : BState} {key : Key}
    (hinv3 : Inv P (key :: pend) s3) (hext : BExt s s3) (hreg : Reg s3 key s.nodes.size) (x : RawNode)
    (hx : ∃ X, x = plain X)
    (hdone : ∀ nodes : Array RawNode, nodes[s.nodes.size]? = some x →
      (∀ j, j ≠ s.nodes.size → nodes[j]? = s3.nodes[j]?) →
      KeyNode P (Reg s3) nodes key s.nodes.size) :
    Inv P pend { s3 with nodes := s3.nodes.set! s.nodes.size x } ∧
      BExt s { s3 with nodes := s3.nodes.set! s.nodes.size x } ∧
      s.nodes.size < (s3.nodes.set! s.nodes.size x).size ∧
      Reg { s3 with nodes := s3.nodes.set! s.nodes.size x } key s.nodes.size := by
  have hlt : s.nodes.size < s3.nodes.size := hinv3.bnd _ _ hreg
  refine ⟨(hinv3.set hreg x hx).finish (fun i hi => ?_), hext.set_after (Nat.le_refl _) x, by simpa using hlt, hreg⟩
  have : i = s.nodes.size := Reg.functional hi hreg
  subst this
  refine hdone _ (by simp [Array.set!_eq_setIfInBounds, hlt]) (fun j hj => ?_)
  simp only [Array.set!_eq_setIfInBounds]
  exact Array.getElem?_setIfInBounds_ne (fun h => hj h.symm)

theorem setNode_some {i : Nat} {x : RawNode} {s s' : BState} {u : Unit}
    (h : setNode i x s = some (u, s')) : s' = { s with nodes := s.nodes.set! i x } := by
  unfold setNode at h
  split at h
  · simp only [Option.some.injEq, Prod.mk.injEq] at h; exact h.2.symm
  · cases h

/-! ### Equations of the builder -/

section eqns
variable (P : Prog) (hash : Key → String) (F : Nat)

theorem findOrBuild_eq (t : Ty) (s : BState) : findOrBuild P hash (F + 1) t s =
    match lookupKey P (F + 1) t with
    | none => none
    | some key =>
      match s.built.lookup key with
      | some idx => some (idx, s)
      | none =>
        match appendSchema P hash F t { nodes := s.nodes, built := (key, s.nodes.size) :: s.built } with
        | none => none
        | some (_, s') => if s'.nodes.size > s.nodes.size then some (s.nodes.size, s') else none := by
  unfold findOrBuild; rfl

theorem appendSchema_zero (t : Ty) (s : BState) : appendSchema P hash 0 t s = none := by
  unfold appendSchema; rfl

theorem findOrBuild_zero (t : Ty) (s : BState) : findOrBuild P hash 0 t s = none := by
  unfold findOrBuild; rfl

theorem appendSchema_ptr (t : Ty) : appendSchema P hash (F + 1) (.ptr t) = appendSchema P hash F t := by
  conv => lhs; unfold appendSchema

theorem appendSchema_vec (t : Ty) (s : BState) : appendSchema P hash (F + 1) (.vec t) s =
    match findOrBuild P hash F t { s with nodes := s.nodes.push (plain .null) } with
    | none => none
    | some (k, s') => setNode s.nodes.size (plain (.array k)) s' := by
  unfold appendSchema; rfl

theorem appendSchema_hashMap (t : Ty) (s : BState) : appendSchema P hash (F + 1) (.hashMap t) s =
    match findOrBuild P hash F t { s with nodes := s.nodes.push (plain .null) } with
    | none => none
    | some (k, s') => setNode s.nodes.size (plain (.map k)) s' := by
  unfold appendSchema; rfl

theorem appendSchema_btreeMap (t : Ty) (s : BState) : appendSchema P hash (F + 1) (.btreeMap t) s =
    match findOrBuild P hash F t { s with nodes := s.nodes.push (plain .null) } with
    | none => none
    | some (k, s') => setNode s.nodes.size (plain (.map k)) s' := by
  unfold appendSchema; rfl

theorem appendSchema_option (t : Ty) (s : BState) : appendSchema P hash (F + 1) (.option t) s =
    match findOrBuild P hash F .unit { s with nodes := s.nodes.push (plain .null) } with
    | none => none
    | some (a, s1) =>
      match findOrBuild P hash F t s1 with
      | none => none
      | some (b, s2) => setNode s.nodes.size (plain (.union [a, b])) s2 := by
  unfold appendSchema; rfl

theorem appendSchema_leaf {t : Ty} {x : RawNode} (h : leafNode t = some x) (s : BState) :
    appendSchema P hash (F + 1) t s = some ((), { s with nodes := s.nodes.push x }) := by
  cases t <;> simp only [leafNode, Option.some.injEq, reduceCtorEq] at h <;>
    (subst h; unfold appendSchema; rfl)

theorem appendSchema_enum {id : Nat} {args : List Ty} {d : Decl} {vs : List String}
    (hd : P[id]? = some d) (hb : d.body = .unitEnum vs) (s : BState) :
    appendSchema P hash (F + 1) (.named id args) s =
      some ((), { s with nodes := s.nodes.push (plain (.enum (Name.ofFq (typeName d)) vs)) }) := by
  unfold appendSchema
  simp only [hd, hb]
  rfl

theorem appendSchema_newtype {id : Nat} {args : List Ty} {d : Decl} {fd : Field}
    (hd : P[id]? = some d) (hb : d.body = .newtype fd) (hdir : isDirect fd .newtypeStruct = true) :
    appendSchema P hash (F + 1) (.named id args) = appendSchema P hash F (subst args (chosenTy fd)) := by
  conv => lhs; unfold appendSchema
  simp only [hd, hb, hdir, if_true]

theorem fieldInst_zero (d : Decl) (args : List Ty) (fd : Field) (kind : FieldKind) (tn : String)
    (s : BState) : fieldInst P hash 0 d args fd kind tn s = none := by
  unfold fieldInst; rfl

theorem not_direct {fd : Field} (hl : fd.attr.logical.isNone = true)
    (hdir : isDirect fd .newtypeStruct = false) : ∃ n, Derive.peel fd.ty = .byteArray n := by
  simp only [isDirect, hl, FieldKind.overridesFixedName, Bool.true_and] at hdir
  cases hp : Derive.peel fd.ty <;> simp [hp] at hdir
  exact ⟨_, rfl⟩

theorem appendSchema_newtype_nd {id : Nat} {d : Decl} {fd : Field} {n : Nat}
    (hd : P[id]? = some d) (hb : d.body = .newtype fd) (hdir : isDirect fd .newtypeStruct = false)
    (hl : fd.attr.logical.isNone = true) (hp : Derive.peel fd.ty = .byteArray n)
    {s s' : BState} {u : Unit}
    (h : appendSchema P hash (F + 1) (.named id []) s = some (u, s')) :
    ∃ nm, s' = { s with nodes := s.nodes.push (plain (.fixed nm n)) } := by
  unfold appendSchema at h
  simp only [hd, hb, hdir, Bool.false_eq_true, if_false] at h
  cases F with
  | zero => rw [fieldInst_zero] at h; simp at h
  | succ F =>
    unfold fieldInst at h
    simp only [logicalOf_plain hl, chosenTy_plain hl, hp, FieldKind.overridesFixedName, push] at h
    split at h
    · simp only [Option.some.injEq, Prod.mk.injEq] at h
      exact ⟨_, h.2.symm⟩
    · cases h

theorem appendSchema_record {id : Nat} {args : List Ty} {d : Decl} {fields : List Field}
    (hd : P[id]? = some d) (hb : d.body = .record fields) (hn : d.nparams = 0) (s : BState) :
    appendSchema P hash (F + 1) (.named id args) s =
      match recordFields P hash F d args (typeName d) fields { s with nodes := s.nodes.push (plain .null) } with
      | none => none
      | some (fs, s') => setNode s.nodes.size (plain (.record (Name.ofFq (typeName d)) fs)) s' := by
  unfold appendSchema
  simp only [hd, hb, hn, if_true]
  rfl

theorem appendSchema_param (i : Nat) (s : BState) : appendSchema P hash (F + 1) (.param i) s = none := by
  unfold appendSchema; rfl

theorem appendSchema_named_none {id : Nat} {args : List Ty} (hd : P[id]? = none) (s : BState) :
    appendSchema P hash (F + 1) (.named id args) s = none := by
  unfold appendSchema
  simp only [hd]

theorem fieldInst_plain {d : Decl} {args : List Ty} {fd : Field} {name tn : String}
    (hl : fd.attr.logical.isNone = true) :
    fieldInst P hash (F + 1) d args fd (.structField name) tn =
      findOrBuild P hash F (subst args (Derive.peel fd.ty)) := by
  unfold fieldInst
  simp only [logicalOf_plain hl, chosenTy_plain hl, FieldKind.overridesFixedName]

theorem fieldInst_variant {d : Decl} {fd : Field} {name tn : String}
    (hl : fd.attr.logical.isNone = true) (hdir : isDirect fd (.newtypeVariant name) = true) :
    fieldInst P hash (F + 1) d [] fd (.newtypeVariant name) tn =
      findOrBuild P hash F (Derive.peel fd.ty) := by
  unfold fieldInst
  simp only [isDirect, hl, FieldKind.overridesFixedName, Bool.true_and] at hdir
  simp only [logicalOf_plain hl, chosenTy_plain hl, FieldKind.overridesFixedName, subst_nil]
  cases hp : Derive.peel fd.ty <;> simp [hp] at hdir <;> rfl

theorem fieldInst_logical {d : Decl} {fd : Field} {kind : FieldKind} {tn : String} {x : RawNode}
    (hl : fd.attr.logical.isNone = false) (hx : leafNode (chosenTy fd) = some x)
    {s : BState} {c : Nat} {s' : BState}
    (h : fieldInst P hash F d [] fd kind tn s = some (c, s')) :
    c = s.nodes.size ∧ s'.built = s.built ∧
      s'.nodes = (s.nodes.push x).set! s.nodes.size
        { type := renameNode x.type (Name.ofFq (ownedName d kind tn)), logical := logicalOf fd } := by
  cases F with
  | zero => rw [fieldInst_zero] at h; cases h
  | succ F =>
    unfold fieldInst at h
    cases hlt : logicalOf fd with
    | none => exact absurd hlt (logicalOf_ne_none hl)
    | some lt =>
      simp only [hlt, subst_nil] at h
      cases F with
      | zero => rw [appendSchema_zero] at h; simp at h
      | succ F =>
        rw [appendSchema_leaf P hash F hx] at h
        simp only [Array.size_push, Nat.lt_add_one, if_true, Array.getElem?_push_size] at h
        simp only [Option.some.injEq, Prod.mk.injEq] at h
        obtain ⟨rfl, rfl⟩ := h
        exact ⟨rfl, rfl, rfl⟩

theorem appendSchema_union {id : Nat} {args : List Ty} {d : Decl} {vs : List Variant}
    (hd : P[id]? = some d) (hb : d.body = .union vs) (s : BState) :
    appendSchema P hash (F + 1) (.named id args) s =
      match unionVariants P hash F d args vs { s with nodes := s.nodes.push (plain .null) } with
      | none => none
      | some (ks, s') => setNode s.nodes.size (plain (.union ks)) s' := by
  unfold appendSchema
  simp only [hd, hb]
  rfl

theorem unionVariants_nil (d : Decl) (args : List Ty) (s : BState) :
    unionVariants P hash F d args [] s = some ([], s) := by
  unfold unionVariants; rfl

theorem unionVariants_zero (d : Decl) (args : List Ty) (v : Variant) (rest : List Variant)
    (s : BState) : unionVariants P hash 0 d args (v :: rest) s = none := by
  unfold unionVariants; rfl

theorem unionVariants_cons (d : Decl) (args : List Ty) (v : Variant) (rest : List Variant)
    (s : BState) : unionVariants P hash (F + 1) d args (v :: rest) s =
      match (match v.field with
        | none => findOrBuild P hash F .unit s
        | some f => fieldInst P hash F d args f (.newtypeVariant v.ident) "" s) with
      | none => none
      | some (k, s1) =>
        match unionVariants P hash F d args rest s1 with
        | none => none
        | some (ks, s2) => some (k :: ks, s2) := by
  conv => lhs; unfold unionVariants
  rfl

theorem recordFields_nil (d : Decl) (args : List Ty) (tn : String) (s : BState) :
    recordFields P hash F d args tn [] s = some ([], s) := by
  unfold recordFields; rfl

theorem recordFields_zero (d : Decl) (args : List Ty) (tn : String) (fd : Field) (rest : List Field)
    (s : BState) : recordFields P hash 0 d args tn (fd :: rest) s = none := by
  unfold recordFields; rfl

theorem recordFields_cons (d : Decl) (args : List Ty) (tn : String) (fd : Field) (rest : List Field)
    (s : BState) : recordFields P hash (F + 1) d args tn (fd :: rest) s =
      match fieldInst P hash F d args fd (.structField fd.name) tn s with
      | none => none
      | some (k, s1) =>
        match recordFields P hash F d args tn rest s1 with
        | none => none
        | some (fs, s2) => some ((fd.name, k) :: fs, s2) := by
  conv => lhs; unfold recordFields
  rfl

end eqns

/-! ### Specifications of the builder functions -/

section specs
variable (P : Prog) (hash : Key → String)

def FobSpec (F : Nat) : Prop :=
  ∀ (t : Ty) (s : BState) (c : Nat) (s' : BState) (pend : List Key), tyOk P t = true → Inv P pend s →
    findOrBuild P hash F t s = some (c, s') →
    Inv P pend s' ∧ BExt s s' ∧ ∃ key, KeyOf P t key ∧ Reg s' key c

def AppSpec (F : Nat) : Prop :=
  ∀ (t : Ty) (s : BState) (key : Key) (u : Unit) (s' : BState) (pend : List Key), tyOk P t = true →
    Inv P pend s → KeyOf P t key → s.built.lookup key = none →
    appendSchema P hash F t { nodes := s.nodes, built := (key, s.nodes.size) :: s.built } = some (u, s') →
    Inv P pend s' ∧ BExt s s' ∧ s.nodes.size < s'.nodes.size ∧ Reg s' key s.nodes.size

def FiSpec (F : Nat) : Prop :=
  ∀ (d : Decl) (tn : String) (fd : Field) (name : String) (s : BState) (c : Nat) (s' : BState)
    (pend : List Key), buildFieldOk P fd = true → Inv P pend s →
    fieldInst P hash F d [] fd (.structField name) tn s = some (c, s') →
    Inv P pend s' ∧ BExt s s' ∧ c < s'.nodes.size ∧
      ((fd.attr.logical.isNone = true ∧ ∃ k, KeyOf P fd.ty k ∧ Reg s' k c) ∨
       (fd.attr.logical.isNone = false ∧
          ∃ raw, logicalRawAt d fd name tn = some raw ∧ s'.nodes[c]? = some raw))

def RecSpec (F : Nat) : Prop :=
  ∀ (d : Decl) (tn : String) (fields : List Field) (s : BState) (fs : List (String × Nat)) (s' : BState)
    (pend : List Key), (∀ fd ∈ fields, buildFieldOk P fd = true) → Inv P pend s →
    recordFields P hash F d [] tn fields s = some (fs, s') →
    Inv P pend s' ∧ BExt s s' ∧ fs.length = fields.length ∧
      ∀ (j : Nat) (fd : Field) (p : String × Nat), fields[j]? = some fd → fs[j]? = some p →
        p.1 = fd.name ∧
          ((fd.attr.logical.isNone = true ∧ ∃ k, KeyOf P fd.ty k ∧ Reg s' k p.2) ∨
           (fd.attr.logical.isNone = false ∧
              ∃ raw, logicalRawAt d fd fd.name tn = some raw ∧ s'.nodes[p.2]? = some raw))

/-- One variant of an enum that maps to a union. -/
def VarSpec (F : Nat) : Prop :=
  ∀ (d : Decl) (v : Variant) (s : BState) (c : Nat) (s' : BState) (pend : List Key),
    variantOk P v = true → Inv P pend s →
    (match v.field with
      | none => findOrBuild P hash F .unit s
      | some f => fieldInst P hash F d [] f (.newtypeVariant v.ident) "" s) = some (c, s') →
    Inv P pend s' ∧ BExt s s' ∧
      match v.field with
      | none => Reg s' [.unit] c
      | some fd => ∃ k, KeyOf P fd.ty k ∧ Reg s' k c

def UnionSpec (F : Nat) : Prop :=
  ∀ (d : Decl) (vs : List Variant) (s : BState) (ks : List Nat) (s' : BState) (pend : List Key),
    (∀ v ∈ vs, variantOk P v = true) → Inv P pend s →
    unionVariants P hash F d [] vs s = some (ks, s') →
    Inv P pend s' ∧ BExt s s' ∧ ks.length = vs.length ∧
      ∀ (j : Nat) (v : Variant) (c : Nat), vs[j]? = some v → ks[j]? = some c →
        match v.field with
        | none => Reg s' [.unit] c
        | some fd => ∃ k, KeyOf P fd.ty k ∧ Reg s' k c

variable {P hash}

theorem fob_step {F : Nat} (happ : AppSpec P hash F) : FobSpec P hash (F + 1) := by
  intro t s c s' pend ht hinv h
  rw [findOrBuild_eq] at h
  cases hk : lookupKey P (F + 1) t with
  | none => simp [hk] at h
  | some key =>
    simp only [hk] at h
    cases hb : s.built.lookup key with
    | some idx =>
      simp only [hb, Option.some.injEq, Prod.mk.injEq] at h
      obtain ⟨rfl, rfl⟩ := h
      exact ⟨hinv, BExt.refl _, key, ⟨_, hk⟩, hb⟩
    | none =>
      simp only [hb] at h
      cases ha : appendSchema P hash F t { nodes := s.nodes, built := (key, s.nodes.size) :: s.built } with
      | none => simp [ha] at h
      | some r =>
        obtain ⟨u, s2⟩ := r
        simp only [ha] at h
        split at h
        · simp only [Option.some.injEq, Prod.mk.injEq] at h
          obtain ⟨rfl, rfl⟩ := h
          obtain ⟨h1, h2, _, h4⟩ := happ t s key u s2 pend ht hinv ⟨_, hk⟩ hb ha
          exact ⟨h1, h2, key, ⟨_, hk⟩, h4⟩
        · cases h

theorem fi_step {F : Nat} (hfob : FobSpec P hash F) : FiSpec P hash (F + 1) := by
  intro d tn fd name s c s' pend hfd hinv h
  cases hl : fd.attr.logical.isNone with
  | true =>
    simp only [buildFieldOk, plainFieldOk, hl, Bool.true_and, Bool.not_true, Bool.false_and,
      Bool.or_false] at hfd
    rw [fieldInst_plain P hash F hl, subst_nil] at h
    obtain ⟨h1, h2, key, h3, h4⟩ := hfob _ s c s' pend (tyOk_peel P hfd) hinv h
    exact ⟨h1, h2, h1.bnd _ _ h4, .inl ⟨rfl, key, h3.of_peel, h4⟩⟩
  | false =>
    simp only [buildFieldOk, plainFieldOk, hl, Bool.false_and, Bool.not_false, Bool.true_and,
      Bool.false_or, Option.isSome_iff_exists] at hfd
    obtain ⟨x, hx⟩ := hfd
    obtain ⟨rfl, hb, hn⟩ := fieldInst_logical P hash (F + 1) hl hx h
    have hsz : s'.nodes.size = s.nodes.size + 1 := by rw [hn]; simp [Array.set!_eq_setIfInBounds]
    have hold : ∀ j, j < s.nodes.size → s'.nodes[j]? = s.nodes[j]? := by
      intro j hj
      rw [hn]
      simp only [Array.set!_eq_setIfInBounds]
      rw [Array.getElem?_setIfInBounds_ne (by omega), Array.getElem?_push_lt hj]
      exact (Array.getElem?_eq_getElem hj).symm
    obtain ⟨h1, h2⟩ := hinv.push_owned hb (by omega) hold
    refine ⟨h1, h2, by omega, .inr ⟨rfl,
      { type := renameNode x.type (Name.ofFq (ownedName d (.structField name) tn)),
        logical := logicalOf fd }, ?_, ?_⟩⟩
    · unfold logicalRawAt
      rw [hx]
      rfl
    · rw [hn]
      simp [Array.set!_eq_setIfInBounds]

theorem rec_zero : RecSpec P hash 0 := by
  intro d tn fields s fs s' pend _ hinv h
  cases fields with
  | nil =>
    rw [recordFields_nil] at h
    simp only [Option.some.injEq, Prod.mk.injEq] at h
    obtain ⟨rfl, rfl⟩ := h
    exact ⟨hinv, BExt.refl _, rfl, fun j fd p hj => by simp at hj⟩
  | cons fd rest => rw [recordFields_zero] at h; cases h

theorem rec_step {F : Nat} (hfi : FiSpec P hash F) (hrec : RecSpec P hash F) : RecSpec P hash (F + 1) := by
  intro d tn fields s fs s' pend hok hinv h
  cases fields with
  | nil =>
    rw [recordFields_nil] at h
    simp only [Option.some.injEq, Prod.mk.injEq] at h
    obtain ⟨rfl, rfl⟩ := h
    exact ⟨hinv, BExt.refl _, rfl, fun j fd p hj => by simp at hj⟩
  | cons fd rest =>
    rw [recordFields_cons] at h
    cases h1 : fieldInst P hash F d [] fd (.structField fd.name) tn s with
    | none => simp [h1] at h
    | some r1 =>
      obtain ⟨c, s1⟩ := r1
      simp only [h1] at h
      cases h2 : recordFields P hash F d [] tn rest s1 with
      | none => simp [h2] at h
      | some r2 =>
        obtain ⟨fs', s2⟩ := r2
        simp only [h2, Option.some.injEq, Prod.mk.injEq] at h
        obtain ⟨rfl, rfl⟩ := h
        obtain ⟨i1, e1, hc, hfield⟩ := hfi d tn fd fd.name s c s1 pend (hok fd (by simp)) hinv h1
        obtain ⟨i2, e2, hlen, hall⟩ := hrec d tn rest s1 fs' s2 pend
          (fun fd' h' => hok fd' (by simp [h'])) i1 h2
        refine ⟨i2, e1.trans e2, by simp [hlen], fun j fd' p hj hp => ?_⟩
        cases j with
        | zero =>
          simp only [List.getElem?_cons_zero, Option.some.injEq] at hj hp
          subst hj hp
          refine ⟨rfl, ?_⟩
          rcases hfield with ⟨hl, k, hk, hreg⟩ | ⟨hl, raw, hraw, hnode⟩
          · exact .inl ⟨hl, k, hk, e2.built _ _ hreg⟩
          · exact .inr ⟨hl, raw, hraw, by rw [e2.nodes c hc]; exact hnode⟩
        | succ j =>
          simp only [List.getElem?_cons_succ] at hj hp
          exact hall j fd' p hj hp

theorem var_zero : VarSpec P hash 0 := by
  intro d v s c s' pend _ _ h
  cases hf : v.field with
  | none => rw [hf] at h; dsimp only at h; rw [findOrBuild_zero] at h; cases h
  | some fd => rw [hf] at h; dsimp only at h; rw [fieldInst_zero] at h; cases h

theorem var_step {F : Nat} (hfob : FobSpec P hash F) (hfob1 : FobSpec P hash (F + 1)) :
    VarSpec P hash (F + 1) := by
  intro d v s c s' pend hv hinv h
  unfold variantOk at hv
  cases hf : v.field with
  | none =>
    rw [hf] at h
    dsimp only at h ⊢
    obtain ⟨h1, h2, key, h3, h4⟩ := hfob1 .unit s c s' pend (by simp [tyOk]) hinv h
    have : key = [.unit] := h3.leaf (fun F => by unfold lookupKey; rfl)
    subst this
    exact ⟨h1, h2, h4⟩
  | some fd =>
    rw [hf] at h hv
    dsimp only at h hv ⊢
    simp only [plainFieldOk, Bool.and_eq_true] at hv
    obtain ⟨⟨hl, hty⟩, hdir⟩ := hv
    rw [fieldInst_variant P hash F hl hdir] at h
    obtain ⟨h1, h2, key, h3, h4⟩ := hfob _ s c s' pend (tyOk_peel P hty) hinv h
    exact ⟨h1, h2, key, h3.of_peel, h4⟩

theorem union_zero : UnionSpec P hash 0 := by
  intro d vs s ks s' pend _ hinv h
  cases vs with
  | nil =>
    rw [unionVariants_nil] at h
    simp only [Option.some.injEq, Prod.mk.injEq] at h
    obtain ⟨rfl, rfl⟩ := h
    exact ⟨hinv, BExt.refl _, rfl, fun j v c hj => by simp at hj⟩
  | cons v rest => rw [unionVariants_zero] at h; cases h

theorem Reg.mono_variant {s1 s2 : BState} (he : BExt s1 s2) {v : Variant} {c : Nat}
    (h : match v.field with
      | none => Reg s1 [.unit] c
      | some fd => ∃ k, KeyOf P fd.ty k ∧ Reg s1 k c) :
    match v.field with
      | none => Reg s2 [.unit] c
      | some fd => ∃ k, KeyOf P fd.ty k ∧ Reg s2 k c := by
  cases hf : v.field with
  | none => rw [hf] at h; exact he.built _ _ h
  | some fd =>
    rw [hf] at h
    obtain ⟨k, h1, h2⟩ := h
    exact ⟨k, h1, he.built _ _ h2⟩

theorem union_step {F : Nat} (hvar : VarSpec P hash F) (hun : UnionSpec P hash F) :
    UnionSpec P hash (F + 1) := by
  intro d vs s ks s' pend hok hinv h
  cases vs with
  | nil =>
    rw [unionVariants_nil] at h
    simp only [Option.some.injEq, Prod.mk.injEq] at h
    obtain ⟨rfl, rfl⟩ := h
    exact ⟨hinv, BExt.refl _, rfl, fun j v c hj => by simp at hj⟩
  | cons v rest =>
    rw [unionVariants_cons] at h
    cases h1 : (match v.field with
        | none => findOrBuild P hash F .unit s
        | some f => fieldInst P hash F d [] f (.newtypeVariant v.ident) "" s) with
    | none => simp [h1] at h
    | some r1 =>
      obtain ⟨c, s1⟩ := r1
      simp only [h1] at h
      cases h2 : unionVariants P hash F d [] rest s1 with
      | none => simp [h2] at h
      | some r2 =>
        obtain ⟨ks', s2⟩ := r2
        simp only [h2, Option.some.injEq, Prod.mk.injEq] at h
        obtain ⟨rfl, rfl⟩ := h
        obtain ⟨i1, e1, hc⟩ := hvar d v s c s1 pend (hok v (by simp)) hinv h1
        obtain ⟨i2, e2, hlen, hall⟩ := hun d rest s1 ks' s2 pend
          (fun v' h' => hok v' (by simp [h'])) i1 h2
        refine ⟨i2, e1.trans e2, by simp [hlen], fun j v' c' hj hp => ?_⟩
        cases j with
        | zero =>
          simp only [List.getElem?_cons_zero, Option.some.injEq] at hj hp
          subst hj hp
          exact Reg.mono_variant e2 hc
        | succ j =>
          simp only [List.getElem?_cons_succ] at hj hp
          exact hall j v' c' hj hp

/-- Head token of the key of a leaf type. -/
def leafTok : Ty → Option KTok
  | .unit => some .unit
  | .bool => some .bool
  | .i8 | .i16 | .i32 | .u16 => some .int
  | .i64 | .u32 | .u64 | .usize => some .long
  | .f32 => some .float
  | .f64 => some .double
  | .string | .str => some .string
  | .byteVec | .byteSlice => some .bytes
  | .byteArray n => some (.byteArray n)
  | _ => none

theorem lookupKey_leaf {t : Ty} {tok : KTok} (h : leafTok t = some tok) (F : Nat) :
    lookupKey P (F + 1) t = some [tok] := by
  cases t <;> simp only [leafTok, Option.some.injEq, reduceCtorEq] at h <;>
    (subst h; unfold lookupKey; rfl)

theorem leaf_keyNode {t : Ty} {tok : KTok} {x : RawNode} (h : leafTok t = some tok)
    (hx : leafNode t = some x) (reg : Key → Nat → Prop) (nodes : Array RawNode) (i : Nat)
    (hn : nodes[i]? = some x) : KeyNode P reg nodes [tok] i := by
  cases t <;> simp only [leafTok, Option.some.injEq, reduceCtorEq] at h <;>
    simp only [leafNode, Option.some.injEq] at hx <;> subst h <;> subst hx <;>
    first | exact hn | exact ⟨_, hn⟩

theorem app_step_leaf {F : Nat} {t : Ty} {tok : KTok} (h : leafTok t = some tok)
    (s : BState) (key : Key) (u : Unit) (s' : BState) (pend : List Key)
    (hinv : Inv P pend s) (hkey : KeyOf P t key) (hnew : s.built.lookup key = none)
    (ha : appendSchema P hash (F + 1) t { nodes := s.nodes, built := (key, s.nodes.size) :: s.built } =
      some (u, s')) :
    Inv P pend s' ∧ BExt s s' ∧ s.nodes.size < s'.nodes.size ∧ Reg s' key s.nodes.size := by
  obtain ⟨x, hx⟩ : ∃ x, leafNode t = some x := by
    cases t <;> simp only [leafTok, reduceCtorEq] at h <;> exact ⟨_, rfl⟩
  rw [appendSchema_leaf P hash F hx] at ha
  simp only [Option.some.injEq, Prod.mk.injEq] at ha
  obtain ⟨_, rfl⟩ := ha
  have hk : key = [tok] := hkey.leaf (lookupKey_leaf h)
  subst hk
  exact app_leaf hinv hnew x (leafNode_plain hx) (fun reg nodes hn => leaf_keyNode h hx reg nodes _ hn)

/-- `Vec<T>` and the two maps: reserve, register the element type, fill. -/
theorem app_step_container {F : Nat} (hfob : FobSpec P hash F) {t t0 : Ty} {tok : KTok}
    {mk : Nat → RegularType}
    (heq : ∀ s, appendSchema P hash (F + 1) t0 s =
      match findOrBuild P hash F t { s with nodes := s.nodes.push (plain .null) } with
      | none => none
      | some (k, s') => setNode s.nodes.size (plain (mk k)) s')
    (hkinv : ∀ key, KeyOf P t0 key → ∃ k', key = tok :: k' ∧ KeyOf P t k')
    (hnode : ∀ (reg : Key → Nat → Prop) (nodes : Array RawNode) (i c : Nat) (rest : Key),
      nodes[i]? = some (plain (mk c)) → reg rest c → KeyNode P reg nodes (tok :: rest) i)
    (ht : tyOk P t = true)
    (s : BState) (key : Key) (u : Unit) (s' : BState) (pend : List Key)
    (hinv : Inv P pend s) (hkey : KeyOf P t0 key) (hnew : s.built.lookup key = none)
    (ha : appendSchema P hash (F + 1) t0 { nodes := s.nodes, built := (key, s.nodes.size) :: s.built } =
      some (u, s')) :
    Inv P pend s' ∧ BExt s s' ∧ s.nodes.size < s'.nodes.size ∧ Reg s' key s.nodes.size := by
  rw [heq] at ha
  obtain ⟨hinv2, hext2⟩ := hinv.register_push hnew (plain .null) ⟨_, rfl⟩
  dsimp only at ha
  cases hf : findOrBuild P hash F t
      { nodes := s.nodes.push (plain .null), built := (key, s.nodes.size) :: s.built } with
  | none => simp [hf] at ha
  | some r =>
    obtain ⟨c, s3⟩ := r
    simp only [hf] at ha
    obtain ⟨hinv3, hext3, key', hk', hreg'⟩ := hfob t _ c s3 (key :: pend) ht hinv2 hf
    have hs' := setNode_some ha
    subst hs'
    obtain ⟨k', rfl, hk''⟩ := hkinv key hkey
    have := hk''.unique hk'
    subst this
    exact app_fill hinv3 (hext2.trans hext3) (hext3.built _ _ (Reg.cons_self _ _ _ _)) _ ⟨_, rfl⟩
      (fun nodes hn _ => hnode _ nodes _ c _ hn hreg')

theorem app_step_option {F : Nat} (hfob : FobSpec P hash F) {t : Ty} (ht : tyOk P t = true)
    (s : BState) (key : Key) (u : Unit) (s' : BState) (pend : List Key)
    (hinv : Inv P pend s) (hkey : KeyOf P (.option t) key) (hnew : s.built.lookup key = none)
    (ha : appendSchema P hash (F + 1) (.option t)
      { nodes := s.nodes, built := (key, s.nodes.size) :: s.built } = some (u, s')) :
    Inv P pend s' ∧ BExt s s' ∧ s.nodes.size < s'.nodes.size ∧ Reg s' key s.nodes.size := by
  rw [appendSchema_option] at ha
  obtain ⟨hinv2, hext2⟩ := hinv.register_push hnew (plain .null) ⟨_, rfl⟩
  dsimp only at ha
  cases hf : findOrBuild P hash F .unit
      { nodes := s.nodes.push (plain .null), built := (key, s.nodes.size) :: s.built } with
  | none => simp [hf] at ha
  | some r =>
    obtain ⟨a, s3⟩ := r
    simp only [hf] at ha
    obtain ⟨hinv3, hext3, keyu, hku, hrega⟩ := hfob .unit _ a s3 (key :: pend) (by simp [tyOk]) hinv2 hf
    have : keyu = [.unit] := hku.leaf (lookupKey_leaf (t := .unit) rfl)
    subst this
    cases hf2 : findOrBuild P hash F t s3 with
    | none => simp [hf2] at ha
    | some r2 =>
      obtain ⟨b, s4⟩ := r2
      simp only [hf2] at ha
      obtain ⟨hinv4, hext4, key', hk', hregb⟩ := hfob t _ b s4 (key :: pend) ht hinv3 hf2
      have hs' := setNode_some ha
      subst hs'
      obtain ⟨k', rfl, hk''⟩ := hkey.option
      have := hk''.unique hk'
      subst this
      exact app_fill hinv4 ((hext2.trans hext3).trans hext4)
        (hext4.built _ _ (hext3.built _ _ (Reg.cons_self _ _ _ _))) _ ⟨_, rfl⟩
        (fun nodes hn _ => ⟨a, b, hn, hext4.built _ _ hrega, hregb⟩)

theorem app_step_named {F : Nat} (hP : ∀ (id : Nat) (d : Decl), P[id]? = some d → declOk true P d = true)
    (happ : AppSpec P hash F) (hrec : RecSpec P hash F) (hun : UnionSpec P hash F)
    {id : Nat} {args : List Ty}
    (ht : tyOk P (.named id args) = true)
    (s : BState) (key : Key) (u : Unit) (s' : BState) (pend : List Key)
    (hinv : Inv P pend s) (hkey : KeyOf P (.named id args) key) (hnew : s.built.lookup key = none)
    (ha : appendSchema P hash (F + 1) (.named id args)
      { nodes := s.nodes, built := (key, s.nodes.size) :: s.built } = some (u, s')) :
    Inv P pend s' ∧ BExt s s' ∧ s.nodes.size < s'.nodes.size ∧ Reg s' key s.nodes.size := by
  simp only [tyOk, Bool.and_eq_true, List.isEmpty_iff, decide_eq_true_eq] at ht
  obtain ⟨rfl, hid⟩ := ht
  cases hd : P[id]? with
  | none => rw [appendSchema_named_none P hash F hd] at ha; cases ha
  | some d =>
    have hdok := hP id d hd
    cases hb : d.body with
    | unitEnum vs =>
      rw [appendSchema_enum P hash F hd hb] at ha
      simp only [Option.some.injEq, Prod.mk.injEq] at ha
      obtain ⟨_, rfl⟩ := ha
      have hk := hkey.named_enum hd hb
      subst hk
      refine app_leaf hinv hnew _ ⟨_, rfl⟩ (fun reg nodes hn => ?_)
      simp only [KeyNode, hd, hb]
      exact ⟨_, hn⟩
    | newtype fd =>
      simp only [declOk, hb, Bool.and_eq_true, decide_eq_true_eq, plainFieldOk] at hdok
      obtain ⟨⟨_, hl, hty⟩, hrest⟩ := hdok
      cases hdir : isDirect fd .newtypeStruct with
      | true =>
        rw [appendSchema_newtype P hash F hd hb hdir, chosenTy_plain hl, subst_nil] at ha
        have hk := hkey.named_newtype hd hb hdir
        rw [chosenTy_plain hl, subst_nil] at hk
        exact happ _ s key u s' pend (tyOk_peel P hty) hinv hk hnew ha
      | false =>
        simp only [hdir, Bool.false_eq_true, if_false, decide_eq_true_eq] at hrest
        obtain ⟨n, hp⟩ := not_direct hl hdir
        obtain ⟨nm, rfl⟩ := appendSchema_newtype_nd P hash F hd hb hdir hl hp ha
        have hk := hkey.named_newtype_nd hd hb hdir hrest
        subst hk
        refine app_leaf hinv hnew _ ⟨_, rfl⟩ (fun reg nodes hn => ?_)
        simp only [KeyNode, hd, hb]
        exact ⟨hdir, nm, n, hn, hp⟩
    | record fields =>
      simp only [declOk, hb, Bool.and_eq_true, decide_eq_true_eq, List.all_eq_true] at hdok
      obtain ⟨⟨hn, _⟩, hfields⟩ := hdok
      rw [appendSchema_record P hash F hd hb hn] at ha
      obtain ⟨hinv2, hext2⟩ := hinv.register_push hnew (plain .null) ⟨_, rfl⟩
      dsimp only at ha
      cases hf : recordFields P hash F d [] (typeName d) fields
          { nodes := s.nodes.push (plain .null), built := (key, s.nodes.size) :: s.built } with
      | none => simp [hf] at ha
      | some r =>
        obtain ⟨fs, s3⟩ := r
        simp only [hf] at ha
        obtain ⟨hinv3, hext3, hlen, hall⟩ := hrec d _ fields _ fs s3 (key :: pend)
          (fun fd hfd => fieldOk_build (hfields fd hfd)) hinv2 hf
        have hs' := setNode_some ha
        subst hs'
        have hk := hkey.named_record hd hb hn
        subst hk
        have hregn : Reg s3 [.self id] s.nodes.size := hext3.built _ _ (Reg.cons_self _ _ _ _)
        refine app_fill hinv3 (hext2.trans hext3) hregn _ ⟨_, rfl⟩ (fun nodes hnd hother => ?_)
        simp only [KeyNode, hd, hb]
        refine ⟨_, fs, hnd, hlen, fun j fd p hj hp => ?_⟩
        obtain ⟨h1, h2⟩ := hall j fd p hj hp
        refine ⟨h1, ?_⟩
        rcases h2 with h2 | ⟨hl, raw, hraw, hnode⟩
        · exact .inl h2
        · refine .inr ⟨hl, raw, hraw, ?_⟩
          rw [hother p.2 ?_]
          · exact hnode
          · intro hpn
            obtain ⟨X, hX⟩ := hinv3.isPlain _ _ hregn
            rw [hpn, hX] at hnode
            cases hnode
            exact logicalRawAt_logical hraw hl rfl
    | union vs =>
      simp only [declOk, hb, Bool.true_and, Bool.and_eq_true, decide_eq_true_eq, List.all_eq_true] at hdok
      obtain ⟨hn, hvs⟩ := hdok
      rw [appendSchema_union P hash F hd hb] at ha
      obtain ⟨hinv2, hext2⟩ := hinv.register_push hnew (plain .null) ⟨_, rfl⟩
      dsimp only at ha
      cases hf : unionVariants P hash F d [] vs
          { nodes := s.nodes.push (plain .null), built := (key, s.nodes.size) :: s.built } with
      | none => simp [hf] at ha
      | some r =>
        obtain ⟨ks, s3⟩ := r
        simp only [hf] at ha
        obtain ⟨hinv3, hext3, hlen, hall⟩ := hun d vs _ ks s3 (key :: pend) hvs hinv2 hf
        have hs' := setNode_some ha
        subst hs'
        have hk := hkey.named_union hd hb hn
        subst hk
        refine app_fill hinv3 (hext2.trans hext3) (hext3.built _ _ (Reg.cons_self _ _ _ _)) _ ⟨_, rfl⟩
          (fun nodes hnd _ => ?_)
        simp only [KeyNode, hd, hb]
        exact ⟨ks, hnd, hlen, hall⟩

theorem app_step {F : Nat} (hP : ∀ (id : Nat) (d : Decl), P[id]? = some d → declOk true P d = true)
    (hfob : FobSpec P hash F) (happ : AppSpec P hash F) (hrec : RecSpec P hash F)
    (hun : UnionSpec P hash F) : AppSpec P hash (F + 1) := by
  intro t s key u s' pend ht hinv hkey hnew ha
  cases t with
  | vec t =>
    exact app_step_container hfob (t := t) (tok := .vec) (mk := .array) (appendSchema_vec P hash F t)
      (fun _ h => h.vec) (fun reg nodes i c rest h1 h2 => ⟨c, h1, h2⟩)
      (by simpa [tyOk] using ht) s key u s' pend hinv hkey hnew ha
  | hashMap t =>
    exact app_step_container hfob (t := t) (tok := .map) (mk := .map) (appendSchema_hashMap P hash F t)
      (fun _ h => h.hashMap) (fun reg nodes i c rest h1 h2 => ⟨c, h1, h2⟩)
      (by simpa [tyOk] using ht) s key u s' pend hinv hkey hnew ha
  | btreeMap t =>
    exact app_step_container hfob (t := t) (tok := .map) (mk := .map) (appendSchema_btreeMap P hash F t)
      (fun _ h => h.btreeMap) (fun reg nodes i c rest h1 h2 => ⟨c, h1, h2⟩)
      (by simpa [tyOk] using ht) s key u s' pend hinv hkey hnew ha
  | option t =>
    have ht' : tyOk P t = true := by
      simp only [tyOk, Bool.and_eq_true] at ht; exact ht.1
    exact app_step_option hfob ht' s key u s' pend hinv hkey hnew ha
  | ptr t =>
    rw [appendSchema_ptr] at ha
    exact happ t s key u s' pend (by simpa [tyOk] using ht) hinv hkey.ptr hnew ha
  | named id args => exact app_step_named hP happ hrec hun ht s key u s' pend hinv hkey hnew ha
  | param i => simp [tyOk] at ht
  | unit => exact app_step_leaf (tok := .unit) rfl s key u s' pend hinv hkey hnew ha
  | bool => exact app_step_leaf (tok := .bool) rfl s key u s' pend hinv hkey hnew ha
  | i8 => exact app_step_leaf (tok := .int) rfl s key u s' pend hinv hkey hnew ha
  | i16 => exact app_step_leaf (tok := .int) rfl s key u s' pend hinv hkey hnew ha
  | i32 => exact app_step_leaf (tok := .int) rfl s key u s' pend hinv hkey hnew ha
  | u16 => exact app_step_leaf (tok := .int) rfl s key u s' pend hinv hkey hnew ha
  | i64 => exact app_step_leaf (tok := .long) rfl s key u s' pend hinv hkey hnew ha
  | u32 => exact app_step_leaf (tok := .long) rfl s key u s' pend hinv hkey hnew ha
  | u64 => exact app_step_leaf (tok := .long) rfl s key u s' pend hinv hkey hnew ha
  | usize => exact app_step_leaf (tok := .long) rfl s key u s' pend hinv hkey hnew ha
  | f32 => exact app_step_leaf (tok := .float) rfl s key u s' pend hinv hkey hnew ha
  | f64 => exact app_step_leaf (tok := .double) rfl s key u s' pend hinv hkey hnew ha
  | string => exact app_step_leaf (tok := .string) rfl s key u s' pend hinv hkey hnew ha
  | str => exact app_step_leaf (tok := .string) rfl s key u s' pend hinv hkey hnew ha
  | byteVec => exact app_step_leaf (tok := .bytes) rfl s key u s' pend hinv hkey hnew ha
  | byteSlice => exact app_step_leaf (tok := .bytes) rfl s key u s' pend hinv hkey hnew ha
  | byteArray n => exact app_step_leaf (tok := .byteArray n) rfl s key u s' pend hinv hkey hnew ha

/-- All four specifications, by induction on the fuel. -/
theorem builder_specs (hP : ∀ (id : Nat) (d : Decl), P[id]? = some d → declOk true P d = true) : ∀ F,
    FobSpec P hash F ∧ AppSpec P hash F ∧ FiSpec P hash F ∧ RecSpec P hash F ∧
      VarSpec P hash F ∧ UnionSpec P hash F
  | 0 => by
    refine ⟨?_, ?_, ?_, rec_zero, var_zero, union_zero⟩
    · intro t s c s' pend _ _ h; rw [findOrBuild_zero] at h; cases h
    · intro t s key u s' pend _ _ _ _ h; rw [appendSchema_zero] at h; cases h
    · intro d tn fd name s c s' pend _ _ h; rw [fieldInst_zero] at h; cases h
  | F + 1 => by
    obtain ⟨h1, h2, h3, h4, h5, h6⟩ := builder_specs hP F
    exact ⟨fob_step h2, app_step hP h1 h2 h4 h6, fi_step h1, rec_step h3 h4,
      var_step h1 (fob_step h2), union_step h5 h6⟩

end specs

end Avro.Theorems.DeriveFits
