import AvroModel.Spec.Observe
import AvroModel.Lemmas.SpecRoundTrip
import AvroModel.Lemmas.Varint
import AvroModel.Lemmas.DeBounds
/-
The deserializer model accepts canonical specification encodings (helpers of C01 / C12).

`Reads m enc a`: on the slice back-end (no `Take` in place), started on `enc ++ r`, the action
`m` succeeds with `a` and leaves exactly `r`, changing nothing else in the state.
-/
namespace Avro.Impl
open Avro Avro.Spec

/-! ### 0. States -/

/-- replace the unread input and the `Take` limit -/
def RState.mk' (s : RState) (r : Bytes) (l : Option Nat) : RState := { s with rest := r, limit := l }

/-- slice back-end, `avail` at its (unused) default -/
structure SlBase (s : RState) : Prop where
  isSlice : s.isSlice = true
  avail : s.avail = 0

@[simp] theorem RState.mk'_rest (s : RState) (r l) : (s.mk' r l).rest = r := rfl
@[simp] theorem RState.mk'_limit (s : RState) (r l) : (s.mk' r l).limit = l := rfl
@[simp] theorem RState.mk'_isSlice (s : RState) (r l) : (s.mk' r l).isSlice = s.isSlice := rfl
@[simp] theorem RState.mk'_avail (s : RState) (r l) : (s.mk' r l).avail = s.avail := rfl
@[simp] theorem RState.mk'_mk' (s : RState) (r l r' l') : (s.mk' r l).mk' r' l' = s.mk' r' l' := rfl

theorem SlBase.mk' {s : RState} (h : SlBase s) (r l) : SlBase (s.mk' r l) := ⟨h.isSlice, h.avail⟩

/-- `m` reads exactly `enc` and returns `a`. -/
def Reads {α : Type} (m : DeM α) (enc : Bytes) (a : α) : Prop :=
  ∀ s, SlBase s → ∀ r, m (s.mk' (enc ++ r) none) = (.ok a, s.mk' r none)

theorem Reads.pure {α : Type} (a : α) : Reads (pure a : DeM α) [] a := by
  intro s _ r; rfl

theorem Reads.bind {α β : Type} {m : DeM α} {f : α → DeM β} {e1 e2 e : Bytes} {a : α} {b : β}
    (h1 : Reads m e1 a) (h2 : Reads (f a) e2 b) (he : e = e1 ++ e2) : Reads (m >>= f) e b := by
  intro s hs r
  subst he
  rw [DeM.bind_apply, List.append_assoc, h1 s hs (e2 ++ r)]
  exact h2 s hs r

theorem Reads.bind_nil {α β : Type} {m : DeM α} {f : α → DeM β} {e : Bytes} {a : α} {b : β}
    (h1 : Reads m [] a) (h2 : Reads (f a) e b) : Reads (m >>= f) e b :=
  Reads.bind h1 h2 rfl

theorem Reads.bind_right_nil {α β : Type} {m : DeM α} {f : α → DeM β} {e : Bytes} {a : α} {b : β}
    (h1 : Reads m e a) (h2 : Reads (f a) [] b) : Reads (m >>= f) e b :=
  Reads.bind h1 h2 (by simp)

theorem Reads.map_pure {α β : Type} {m : DeM α} {e : Bytes} {a : α} (g : α → β)
    (h1 : Reads m e a) : Reads (m >>= fun x => Pure.pure (g x)) e (g a) :=
  Reads.bind_right_nil h1 (Reads.pure _)

theorem Reads.congr {α : Type} {m m' : DeM α} {e e' : Bytes} {a a' : α}
    (h : Reads m e a) (hm : m = m') (he : e = e') (ha : a = a') : Reads m' e' a' := by
  subst hm he ha; exact h

/-! ### 1. Varints -/

theorem encodeLong_length_le (i : Int) (h : InI64 i) : (encodeLong i).length ≤ 10 := by
  rw [← encodeVarI64_eq_spec i h]; exact encodeVarI64_length_le i h

theorem decodeVar_i64_encodeLong (i : Int) (h : InI64 i) (r : Bytes) :
    decodeVar .i64 (encodeLong i ++ r) = some (i, (encodeLong i).length) := by
  have := decodeVarI64_encode i h r
  rw [encodeVarI64_eq_spec i h] at this
  exact this

theorem decodeVar_i32_encodeLong (i : Int) (h : InI32 i) (r : Bytes) :
    decodeVar .i32 (encodeLong i ++ r) = some (i, (encodeLong i).length) := by
  have h64 : InI64 i := by unfold InI32 at h; unfold InI64; omega
  have := decodeVar_i64_encodeLong i h64 r
  simp only [decodeVar] at this
  simp only [decodeVar, decodeVarI32, this]
  unfold InI32 at h
  simp [h.1, h.2]

theorem decodeVarU64_encodeNat (n : Nat) (h : n < 2 ^ 64) (r : Bytes) :
    decodeVarU64 (encodeNat n ++ r) = some (n, (encodeNat n).length) := by
  have hlen : (encodeNat n).length ≤ 10 := encodeNat_length_le n 10 (by omega) (by omega)
  have := decodeVarU64_of_spec (encodeNat n ++ r) n r (decodeNat_encodeNat n r) h (by simp; omega)
  simpa using this

theorem decodeVar_u64_encodeLong (i : Int) (h : InI64 i) (r : Bytes) :
    decodeVar .u64 (encodeLong i ++ r) = some ((zigzag i : Int), (encodeLong i).length) := by
  simp only [decodeVar, encodeLong, decodeVarU64_encodeNat _ (zigzag_lt_of_inI64 h), Option.map]

theorem decodeVar_u32_encodeLong (i : Int) (h : InI32 i) (r : Bytes) :
    decodeVar .u32 (encodeLong i ++ r) = some ((zigzag i : Int), (encodeLong i).length) := by
  have h64 : InI64 i := by unfold InI32 at h; unfold InI64; omega
  have hz : zigzag i < 2 ^ 32 := by unfold InI32 at h; unfold zigzag; split <;> omega
  simp only [decodeVar, decodeVarU32, encodeLong, decodeVarU64_encodeNat _ (zigzag_lt_of_inI64 h64),
    hz, if_true, Option.map]

theorem reads_readVarint_of_decode (t : VarTy) (e : Bytes) (v : Int)
    (h : ∀ r, decodeVar t (e ++ r) = some (v, e.length)) : Reads (readVarint t) e v := by
  intro s hs r
  obtain ⟨isS, rest, av, sched, lc, ma, scr, lim⟩ := s
  obtain ⟨h1, h2⟩ := hs
  simp only at h1 h2
  subst h1 h2
  simp only [readVarint, RState.mk', if_true, h r, List.drop_left]

theorem reads_varint_i64 (i : Int) (h : InI64 i) : Reads (readVarint .i64) (encodeLong i) i :=
  reads_readVarint_of_decode _ _ _ (decodeVar_i64_encodeLong i h)

theorem reads_varint_i32 (i : Int) (h : InI32 i) : Reads (readVarint .i32) (encodeLong i) i :=
  reads_readVarint_of_decode _ _ _ (decodeVar_i32_encodeLong i h)

theorem reads_varint_u64 (i : Int) (h : InI64 i) :
    Reads (readVarint .u64) (encodeLong i) (zigzag i : Int) :=
  reads_readVarint_of_decode _ _ _ (decodeVar_u64_encodeLong i h)

theorem reads_varint_u32 (i : Int) (h : InI32 i) :
    Reads (readVarint .u32) (encodeLong i) (zigzag i : Int) :=
  reads_readVarint_of_decode _ _ _ (decodeVar_u32_encodeLong i h)

theorem reads_readLen (n : Nat) (h : n < 2 ^ 63) : Reads readLen (encodeLong n) n := by
  unfold readLen
  refine Reads.bind_right_nil (reads_varint_i64 _ (inI64_of_lt h)) ?_
  have : ¬ ((n : Int) < 0) := by omega
  simp only [this, if_false, Int.toNat_natCast]
  exact Reads.pure _

/-! ### 2. Slices and exact reads -/

theorem reads_readSlice (b : Bytes) (n : Nat) (h : b.length = n) :
    Reads (readSlice n) b (b, true) := by
  intro s hs r
  subst h
  obtain ⟨isS, rest, av, sched, lc, ma, scr, lim⟩ := s
  obtain ⟨h1, h2⟩ := hs
  simp only at h1 h2
  subst h1 h2
  have : ¬ (b.length > b.length + r.length) := by omega
  simp only [readSlice, RState.mk', if_true, List.length_append, List.take_left, List.drop_left,
    this, if_false]

theorem readExactR_zero (f : Nat) (acc : Bytes) : readExactR f 0 acc = pure acc := by
  cases f <;> rfl

theorem readSome_slice (s : RState) (hs : SlBase s) (b r : Bytes) (l : Option Nat) (k : Nat)
    (hb : b.length = k + 1) (hl : ∀ x, l = some x → k + 1 ≤ x) :
    readSome (k + 1) (s.mk' (b ++ r) l) = (.ok b, s.mk' r (l.map (· - (k + 1)))) := by
  obtain ⟨isS, rest, av, sched, lc, ma, scr, lim⟩ := s
  obtain ⟨h1, h2⟩ := hs
  simp only at h1 h2
  subst h1 h2
  have h0 : ¬ (k + 1 = 0) := by omega
  have hm : min (k + 1) (k + 1 + r.length) = k + 1 := by omega
  have ht : List.take (k + 1) (b ++ r) = b := by rw [← hb, List.take_left]
  have hd : List.drop (k + 1) (b ++ r) = r := by rw [← hb, List.drop_left]
  cases l with
  | none =>
    simp only [RState.mk', readSome, fillBuf, if_true, consume, List.length_append, hb, h0,
      if_false, hm, ht, hd, Option.map_none, Nat.zero_sub]
  | some x =>
    have hx := hl x rfl
    have hk' : min (k + 1) x = k + 1 := by omega
    simp only [RState.mk', readSome, fillBuf, if_true, consume, List.length_append, hb, h0,
      if_false, hm, ht, hd, hk', Option.map_some, Nat.zero_sub]

/-- `read_exact` on the slice, possibly under a `Take` that is large enough. -/
theorem readExact_slice (s : RState) (hs : SlBase s) (b r : Bytes) (l : Option Nat)
    (hl : ∀ x, l = some x → b.length ≤ x) :
    readExact b.length (s.mk' (b ++ r) l) = (.ok b, s.mk' r (l.map (· - b.length))) := by
  unfold readExact
  cases b with
  | nil =>
    rw [List.length_nil, readExactR_zero]
    cases l <;> rfl
  | cons x xs =>
    rw [List.length_cons, readExactR, DeM.bind_apply,
      readSome_slice s hs (x :: xs) r l xs.length rfl (by simpa using hl)]
    simp only [List.isEmpty_cons, Bool.false_eq_true, if_false, List.length_cons, Nat.sub_self,
      readExactR_zero, List.nil_append]
    rfl

theorem reads_readExact (b : Bytes) (n : Nat) (h : b.length = n) : Reads (readExact n) b b := by
  intro s hs r
  subst h
  exact readExact_slice s hs b r none (by intro x hx; cases hx)

theorem reads_readString (s : String) (h : (utf8 s).length < 2 ^ 63) :
    Reads readString (lenPrefixed (utf8 s)) (.str s true) := by
  unfold readString lenPrefixed
  refine Reads.bind (reads_readLen _ h) ?_ rfl
  refine Reads.bind_right_nil (reads_readSlice _ _ rfl) ?_
  simp only [bytesToStr?, fromUTF8?_utf8]
  exact Reads.pure _

theorem reads_readBytes (b : Bytes) (h : b.length < 2 ^ 63) :
    Reads readBytes (lenPrefixed b) (.bytes b true) := by
  unfold readBytes lenPrefixed
  refine Reads.bind (reads_readLen _ h) ?_ rfl
  exact Reads.bind_right_nil (reads_readSlice _ _ rfl) (Reads.pure _)

theorem reads_readBool (b : Bool) : Reads readBool [if b then 1 else 0] (.bool b) := by
  unfold readBool
  refine Reads.bind_right_nil (reads_readSlice _ _ rfl) ?_
  cases b <;> exact Reads.pure _

theorem reads_decDepth (d : Nat) : Reads (decDepth (d + 1)) [] d := Reads.pure _

/-! ### 3. Decimals -/

theorem encodeNat_shape (n : Nat) : ∃ pre last, encodeNat n = pre ++ [last] ∧
    (∀ b ∈ pre, 128 ≤ b.toNat) ∧ last.toNat < 128 := by
  induction n using Nat.strongRecOn with
  | _ n ih =>
    unfold encodeNat
    split
    · rename_i h
      refine ⟨[], UInt8.ofNat n, rfl, by simp, ?_⟩
      simp [UInt8.toNat_ofNat']; omega
    · rename_i h
      obtain ⟨pre, last, he, hp, hl⟩ := ih (n / 128) (by omega)
      refine ⟨UInt8.ofNat (n % 128 + 128) :: pre, last, by rw [he]; rfl, ?_, hl⟩
      intro b hb
      rcases List.mem_cons.1 hb with rfl | hb
      · simp [UInt8.toNat_ofNat']; omega
      · exact hp b hb

theorem varintProcessor_slice (t : VarTy) (s : RState) (hs : SlBase s) (last : UInt8)
    (hlast : last.toNat < 128) (r : Bytes) :
    ∀ (pre buf : Bytes) (fuel l : Nat), (∀ b ∈ pre, 128 ≤ b.toNat) →
      (∀ x, buf.getLast? = some x → 128 ≤ x.toNat) →
      buf.length + pre.length + 1 ≤ t.maxSize → pre.length + 2 ≤ fuel → pre.length + 1 ≤ l →
      varintProcessor t fuel buf (s.mk' (pre ++ [last] ++ r) (some l)) =
        ((match decodeVar t (buf ++ pre ++ [last]) with
          | some (v, _) => .ok v
          | none => .error .io), s.mk' r (some (l - (pre.length + 1)))) := by
  intro pre
  induction pre with
  | nil =>
    intro buf fuel l _ hbuf hsz hfuel hl
    obtain ⟨f, rfl⟩ : ∃ f, fuel = f + 2 := ⟨fuel - 2, by simp at hfuel; omega⟩
    have hc : ¬ (buf ≠ [] ∧ (buf.getLast?.getD 0).toNat &&& 0x80 = 0) := by
      rintro ⟨hne, hz⟩
      obtain ⟨x, hx⟩ : ∃ x, buf.getLast? = some x := by
        cases h : buf.getLast? with
        | none => exact absurd (List.getLast?_eq_none_iff.1 h) hne
        | some x => exact ⟨x, rfl⟩
      have := hbuf x hx
      rw [hx] at hz
      simp only [Option.getD_some] at hz
      have := (and_128_eq_zero_iff x.toNat x.toNat_lt).1 hz
      omega
    rw [varintProcessor]
    simp only [hc, if_false, List.nil_append, List.singleton_append]
    rw [DeM.bind_apply, show (last :: r) = [last] ++ r from rfl,
      readSome_slice s hs [last] r (some l) 0 rfl (by intro x hx; cases hx; simpa using hl)]
    have hlen : ¬ (buf.length ≥ t.maxSize) := by simp at hsz; omega
    simp only [hlen, if_false, Option.map_some]
    rw [varintProcessor]
    have hc2 : (buf ++ [last]) ≠ [] ∧ ((buf ++ [last]).getLast?.getD 0).toNat &&& 0x80 = 0 := by
      refine ⟨by simp, ?_⟩
      simp only [List.getLast?_append, List.getLast?_singleton, Option.some_or, Option.getD_some]
      exact (and_128_eq_zero_iff last.toNat last.toNat_lt).2 hlast
    rw [if_pos hc2]
    simp only [List.append_nil, List.length_nil, Nat.zero_add]
    cases decodeVar t (buf ++ [last]) with
    | none => rfl
    | some p => rfl
  | cons p ps ih =>
    intro buf fuel l hpre hbuf hsz hfuel hl
    obtain ⟨f, rfl⟩ : ∃ f, fuel = f + 1 := ⟨fuel - 1, by simp at hfuel; omega⟩
    have hc : ¬ (buf ≠ [] ∧ (buf.getLast?.getD 0).toNat &&& 0x80 = 0) := by
      rintro ⟨hne, hz⟩
      obtain ⟨x, hx⟩ : ∃ x, buf.getLast? = some x := by
        cases h : buf.getLast? with
        | none => exact absurd (List.getLast?_eq_none_iff.1 h) hne
        | some x => exact ⟨x, rfl⟩
      have := hbuf x hx
      rw [hx] at hz
      simp only [Option.getD_some] at hz
      have := (and_128_eq_zero_iff x.toNat x.toNat_lt).1 hz
      omega
    rw [varintProcessor]
    simp only [hc, if_false, List.cons_append]
    rw [DeM.bind_apply, show (p :: (ps ++ [last] ++ r)) = [p] ++ (ps ++ [last] ++ r) from rfl,
      readSome_slice s hs [p] _ (some l) 0 rfl
        (by intro x hx; cases hx; simp at hl; omega)]
    have hlen : ¬ (buf.length ≥ t.maxSize) := by simp at hsz; omega
    simp only [hlen, if_false, Option.map_some]
    rw [ih (buf ++ [p]) f (l - (0 + 1)) (fun b hb => hpre b (List.mem_cons_of_mem _ hb))
      (by
        intro x hx
        simp only [List.getLast?_append, List.getLast?_singleton, Option.some_or,
          Option.some.injEq] at hx
        subst hx
        exact hpre _ (List.mem_cons_self))
      (by simp at hsz ⊢; omega) (by simp at hfuel; omega) (by simp at hl; omega)]
    simp only [List.append_assoc, List.singleton_append, List.length_cons]
    congr 2
    congr 1
    omega

theorem varintProcessor_encodeLong (s : RState) (hs : SlBase s) (i : Int) (h : InI64 i)
    (r : Bytes) (l : Nat) (hl : (encodeLong i).length ≤ l) :
    varintProcessor .i64 12 [] (s.mk' (encodeLong i ++ r) (some l)) =
      (.ok i, s.mk' r (some (l - (encodeLong i).length))) := by
  have hlen := encodeLong_length_le i h
  have hdec := decodeVar_i64_encodeLong i h []
  obtain ⟨pre, last, he, hp, hlast⟩ := encodeNat_shape (zigzag i)
  unfold encodeLong at hlen hdec hl ⊢
  rw [he] at hlen hdec hl ⊢
  simp only [List.length_append, List.length_singleton] at hlen hl
  rw [varintProcessor_slice .i64 s hs last hlast r pre [] 12 l hp (by simp)
    (by simp [VarTy.maxSize]; omega) (by omega) (by omega)]
  simp only [List.append_nil] at hdec
  simp only [List.nil_append, hdec, List.length_append, List.length_singleton]

theorem i128OfBE_eq (b : Bytes) : i128OfBE b = fromTwosComplementBE b := by
  unfold i128OfBE fromTwosComplementBE
  cases b with
  | nil => rfl
  | cons b0 tl =>
    simp only
    have := and_128_eq_zero_iff b0.toNat b0.toNat_lt
    by_cases h : b0.toNat < 128
    · have h1 : b0.toNat &&& 0x80 = 0 := this.2 h
      have h2 : ¬ (b0.toNat ≥ 128) := by omega
      simp only [h1, h2, ne_eq, not_true_eq_false, if_false]
    · have h1 : ¬ (b0.toNat &&& 0x80 = 0) := fun hh => h (this.1 hh)
      have h2 : b0.toNat ≥ 128 := by omega
      simp only [h1, h2, ne_eq, not_false_eq_true, if_true]

theorem minimalLen_go_le_of (v : Int) (m : Nat)
    (hm : -(2 : Int) ^ (8 * m - 1) ≤ v ∧ v < (2 : Int) ^ (8 * m - 1)) :
    ∀ (fuel n : Nat), n ≤ m → m - n ≤ fuel → minimalLen.go v fuel n ≤ m := by
  intro fuel
  induction fuel with
  | zero => intro n h1 h2; unfold minimalLen.go; omega
  | succ f ih =>
    intro n h1 h2
    unfold minimalLen.go
    split
    · exact h1
    · rename_i hc
      have : n ≠ m := by rintro rfl; exact hc hm
      exact ih (n + 1) (by omega) (by omega)

theorem minimalLen_le_16 (u : Int) (h : u.natAbs < 2 ^ 96) : minimalLen u ≤ 16 := by
  unfold minimalLen
  refine minimalLen_go_le_of u 16 ?_ 64 1 (by omega) (by omega)
  have : (2 : Int) ^ (8 * 16 - 1) = 170141183460469231731687303715884105728 := by decide
  rw [this]
  omega

theorem decToStringModel_some {u : Int} {sc : Nat} {str : String}
    (h : decToStringModel u sc = some str) : u.natAbs < 2 ^ 96 ∧ sc ≤ 28 := by
  unfold decToStringModel at h
  split at h
  · cases h
  · omega

/-- the common tail of `read_decimal` for a `deserialize_any`/string target -/
theorem reads_decimal_tail (ext : DeExt) (u : Int) (sc : Nat) (str : String)
    (h : ext.decToString u sc = some str) :
    Reads (match ext.decToString u sc with
      | none => DeM.fail DeErr.custom
      | some s =>
        if DecHint.str = DecHint.f64 then
          match ext.decToF64 u sc with
          | some bits => pure (Out.f64 bits)
          | none => pure (Out.str s false)
        else pure (Out.str s false)) [] (.str str false) := by
  rw [h]
  exact Reads.pure _

theorem reads_readDecimal_bytes (ext : DeExt) (scale : Nat) (m : Bytes) (u : Int) (str : String)
    (hm : m.length ≤ 16) (hu : i128OfBE m = u) (hstr : ext.decToString u scale = some str) :
    Reads (readDecimal ext (.regular scale .bytes) .str) (lenPrefixed m) (.str str false) := by
  unfold readDecimal
  simp only []
  refine Reads.bind_right_nil (a := (u, scale)) ?_ ?_
  · unfold lenPrefixed
    refine Reads.bind (reads_readLen _ (by omega)) ?_ rfl
    have : ¬ (m.length > 16) := by omega
    simp only [this, if_false]
    refine Reads.bind_right_nil (reads_readExact m _ rfl) ?_
    rw [hu]; exact Reads.pure _
  · simp only []
    split <;> exact reads_decimal_tail ext u scale str hstr

theorem reads_readDecimal_fixed (ext : DeExt) (scale : Nat) (nm : Name) (size : Nat) (m : Bytes)
    (u : Int) (str : String)
    (hm : m.length = size) (h16 : size ≤ 16) (hu : i128OfBE m = u)
    (hstr : ext.decToString u scale = some str) :
    Reads (readDecimal ext (.regular scale (.fixed nm size)) .str) m (.str str false) := by
  unfold readDecimal
  simp only []
  refine Reads.bind_right_nil (a := (u, scale)) ?_ ?_
  · have : ¬ (size > 16) := by omega
    simp only [this, if_false]
    refine Reads.bind_right_nil (reads_readExact m _ hm) ?_
    rw [hu]; exact Reads.pure _
  · simp only []
    split <;> exact reads_decimal_tail ext u scale str hstr

/-- the part of the big-decimal reader that runs under the `Take` -/
def bigDecimalBody : DeM (Int × Nat) := do
  let l ← varintProcessor .i64 12 []
  if l < 0 then DeM.fail .custom else
  let size := l.toNat
  if size > 16 then DeM.fail .custom else
  let b ← readExact size
  let sc ← varintProcessor .i64 12 []
  if sc < 0 ∨ sc ≥ 4294967296 then DeM.fail .custom else
  let left ← getLimit
  if left ≠ some 0 then DeM.fail .custom else
  pure (i128OfBE b, sc.toNat)

theorem bigDecimalBody_slice (s : RState) (hs : SlBase s) (scale : Nat) (m r : Bytes)
    (hm : m.length ≤ 16) (hsc : scale ≤ 28) :
    bigDecimalBody (s.mk' ((lenPrefixed m ++ encodeLong scale) ++ r)
        (some (lenPrefixed m ++ encodeLong scale).length)) =
      (.ok (i128OfBE m, scale), s.mk' r (some 0)) := by
  have hi1 : InI64 (m.length : Int) := inI64_of_lt (by omega)
  have hi2 : InI64 (scale : Int) := inI64_of_lt (by omega)
  have hl1 := encodeLong_length_le _ hi1
  have hl2 := encodeLong_length_le _ hi2
  unfold lenPrefixed bigDecimalBody
  generalize hL : (encodeLong ↑m.length ++ m ++ encodeLong ↑scale).length = L
  simp only [List.length_append] at hL
  simp only [List.append_assoc]
  rw [DeM.bind_apply, varintProcessor_encodeLong s hs _ hi1 _ L (by omega)]
  have hneg : ¬ ((m.length : Int) < 0) := by omega
  have h16 : ¬ (m.length > 16) := by omega
  simp only [hneg, if_false, Int.toNat_natCast, h16]
  rw [DeM.bind_apply, readExact_slice s hs m _ _ (by intro x hx; cases hx; omega)]
  simp only [Option.map_some]
  rw [DeM.bind_apply, varintProcessor_encodeLong s hs _ hi2 _ _ (by omega)]
  have hsc' : ¬ ((scale : Int) < 0 ∨ (scale : Int) ≥ 4294967296) := by omega
  simp only [hsc', if_false]
  rw [DeM.bind_apply]
  simp only [getLimit, RState.mk'_limit]
  have hz : L - (encodeLong ↑m.length).length - m.length - (encodeLong ↑scale).length = 0 := by
    omega
  simp only [hz, ne_eq, not_true_eq_false, if_false, DeM.pure_apply, Int.toNat_natCast]

theorem reads_readDecimal_big (ext : DeExt) (scale : Nat) (m : Bytes) (u : Int) (str : String)
    (hm : m.length ≤ 16) (hsc : scale ≤ 28) (hu : i128OfBE m = u)
    (hstr : ext.decToString u scale = some str) :
    Reads (readDecimal ext .big .str) (lenPrefixed (lenPrefixed m ++ encodeLong scale))
      (.str str false) := by
  unfold readDecimal
  simp only []
  refine Reads.bind_right_nil (a := (u, scale)) ?_ ?_
  · have hi1 : InI64 (m.length : Int) := inI64_of_lt (by omega)
    have hi2 : InI64 (scale : Int) := inI64_of_lt (by omega)
    have hl1 := encodeLong_length_le _ hi1
    have hl2 := encodeLong_length_le _ hi2
    refine Reads.bind (e1 := encodeLong ((lenPrefixed m ++ encodeLong scale).length : Nat))
      (reads_readLen _ (by unfold lenPrefixed; simp only [List.length_append]; omega)) ?_ rfl
    intro s hs r
    change (setLimit _ >>= fun _ => withLimitCleared bigDecimalBody) _ = _
    rw [DeM.bind_apply]
    simp only [setLimit]
    unfold withLimitCleared
    have := bigDecimalBody_slice s hs scale m r hm hsc
    simp only [RState.mk'] at this ⊢
    rw [this, hu]
  · simp only []
    split <;> exact reads_decimal_tail ext u scale str hstr

end Avro.Impl

namespace Avro.Spec
open Avro Avro.Impl

/-! ### 4. Measures of a value: nesting depth, longest array/map, fixed decimals -/

mutual
/-- number of nested array / map / union / record levels (each costs one unit of the
    deserializer's depth budget) -/
def depthOf : Value → Nat
  | .array items => 1 + depthItems items
  | .map entries => 1 + depthEntries entries
  | .union _ v => 1 + depthOf v
  | .record fields => 1 + depthItems fields
  | _ => 0
def depthItems : List Value → Nat
  | [] => 0
  | v :: vs => max (depthOf v) (depthItems vs)
def depthEntries : List (String × Value) → Nat
  | [] => 0
  | (_, v) :: es => max (depthOf v) (depthEntries es)
end

mutual
/-- the number of items of the longest array or map anywhere in the value -/
def maxLen : Value → Nat
  | .array items => max items.length (maxLenItems items)
  | .map entries => max entries.length (maxLenEntries entries)
  | .union _ v => maxLen v
  | .record fields => maxLenItems fields
  | _ => 0
def maxLenItems : List Value → Nat
  | [] => 0
  | v :: vs => max (maxLen v) (maxLenItems vs)
def maxLenEntries : List (String × Value) → Nat
  | [] => 0
  | (_, v) :: es => max (maxLen v) (maxLenEntries es)
end

mutual
/-- every decimal of the value that sits on a `fixed` has at most 16 bytes (an `i128`): the
    deserializer refuses larger ones whatever their content -/
def fixedDecOk (S : Schema) (n : Node) : Value → Bool
  | .decimal _ =>
    match n with
    | .decimal _ _ (.fixed _ size) => decide (size ≤ 16)
    | _ => true
  | .union idx v =>
    match n with
    | .union vs =>
      match vs[idx]? with
      | none => true
      | some k => match S[k]? with
        | none => true
        | some branch => fixedDecOk S branch v
    | _ => true
  | .array items =>
    match n with
    | .array k => match S[k]? with
      | none => true
      | some item => fixedDecOkItems S item items
    | _ => true
  | .map entries =>
    match n with
    | .map k => match S[k]? with
      | none => true
      | some item => fixedDecOkEntries S item entries
    | _ => true
  | .record vals =>
    match n with
    | .record _ fields => fixedDecOkFields S fields vals
    | _ => true
  | _ => true
def fixedDecOkItems (S : Schema) (item : Node) : List Value → Bool
  | [] => true
  | v :: vs => fixedDecOk S item v && fixedDecOkItems S item vs
def fixedDecOkEntries (S : Schema) (item : Node) : List (String × Value) → Bool
  | [] => true
  | (_, v) :: es => fixedDecOk S item v && fixedDecOkEntries S item es
def fixedDecOkFields (S : Schema) : List (String × Nat) → List Value → Bool
  | (_, k) :: fs, v :: vs =>
    (match S[k]? with
      | none => true
      | some fnode => fixedDecOk S fnode v) && fixedDecOkFields S fs vs
  | _, _ => true
end

end Avro.Spec

namespace Avro.Impl
open Avro Avro.Spec

/-! ### 5. The block reader -/

theorem encodeLong_zero : encodeLong 0 = [0] := by
  unfold encodeLong zigzag; simp; unfold encodeNat; simp

theorem reads_readBlockLen (ign : Bool) (fuel n : Nat) (h : n < 2 ^ 63) :
    Reads (readBlockLen ign (fuel + 1)) (encodeLong n) (if n = 0 then none else some n) := by
  rw [readBlockLen]
  refine Reads.bind_right_nil (reads_varint_i64 _ (inI64_of_lt h)) ?_
  have h1 : ¬ ((n : Int) < 0) := by omega
  simp only [h1, if_false, Int.toNat_natCast, Int.natCast_eq_zero]
  exact Reads.pure _

theorem reads_hasMore_succ (cfg : DeConfig) (ign : Bool) (c nr : Nat) :
    Reads (hasMore cfg ign ⟨c + 1, nr⟩) [] (true, ⟨c, nr⟩) := by
  intro s hs r; rfl

theorem reads_hasMore_end (cfg : DeConfig) (ign : Bool) (nr : Nat) :
    Reads (hasMore cfg ign ⟨0, nr⟩) [0] (false, ⟨0, nr⟩) := by
  intro s hs r
  have := reads_readBlockLen ign ((s.mk' ([0] ++ r) none).rest.length + 1) 0 (by omega) s hs r
  rw [Int.natCast_zero, encodeLong_zero] at this
  simp only [hasMore, this, if_true]

theorem reads_hasMore_count (cfg : DeConfig) (ign : Bool) (nr n : Nat) (hn : 0 < n)
    (h63 : n < 2 ^ 63) (hmax : nr + n ≤ cfg.maxSeqSize) :
    Reads (hasMore cfg ign ⟨0, nr⟩) (encodeLong n) (true, ⟨n - 1, nr + n⟩) := by
  intro s hs r
  have := reads_readBlockLen ign ((s.mk' (encodeLong n ++ r) none).rest.length + 1) n h63 s hs r
  have hn0 : ¬ (n = 0) := by omega
  have hm : ¬ (nr + n > cfg.maxSeqSize) := by omega
  simp only [hasMore, this, hn0, if_false, hm]

end Avro.Impl

namespace Avro.Impl
open Avro Avro.Spec

/-! ### 6. The loops, given the items -/

/-- what the induction provides for one value -/
def DeOK (cfg : DeConfig) (S : Schema) (v : Value) : Prop :=
  ∀ (n : Node) (enc : Bytes) (o : Out) (depth fuel : Nat) (h : Hint),
    encode S n v = some enc → observe S n v = some o → fixedDecOk S n v = true →
    depthOf v ≤ depth → maxLen v ≤ cfg.maxSeqSize → 3 * size v ≤ fuel →
    (h = .any ∨ h = .ignored) →
    ∃ o', Reads (de deExtModel cfg S fuel n depth false h) enc o' ∧ (h = .any → o' = o) ∧
      (h = .ignored → o' = .unit)

variable (cfg : DeConfig) (S : Schema)

theorem seqLoop_ok (item : Node) (ign : Bool) (h : Hint) (hh : h = .any ∨ h = .ignored) :
    ∀ (vs : List Value), (∀ v ∈ vs, DeOK cfg S v) →
    ∀ (body : Bytes) (os : List Out) (depth fuel nr : Nat) (acc : List Out),
      encodeItems S item vs = some body → observeList S item vs = some os →
      fixedDecOkItems S item vs = true → depthItems vs ≤ depth →
      maxLenItems vs ≤ cfg.maxSeqSize → 3 * sizeItems vs + 1 ≤ fuel →
      ∃ os', Reads (deSeqLoop deExtModel cfg S fuel item depth ign h none ⟨vs.length, nr⟩ acc)
          (body ++ [0]) (acc.reverse ++ os') ∧ (h = .any → os' = os) := by
  intro vs
  induction vs with
  | nil =>
    intro _ body os depth fuel nr acc henc hobs _ _ _ hfuel
    obtain ⟨f, rfl⟩ : ∃ f, fuel = f + 1 := ⟨fuel - 1, by omega⟩
    simp only [encodeItems, Option.some.injEq] at henc
    simp only [observeList, Option.some.injEq] at hobs
    subst henc hobs
    refine ⟨[], ?_, fun _ => rfl⟩
    rw [deSeqLoop]
    simp only [reduceCtorEq, if_false, List.length_nil, List.nil_append, List.append_nil]
    refine Reads.bind_right_nil (reads_hasMore_end cfg ign nr) ?_
    exact Reads.pure _
  | cons v vs ih =>
    intro hall body os depth fuel nr acc henc hobs hfix hdepth hmax hfuel
    obtain ⟨f, rfl⟩ : ∃ f, fuel = f + 1 := ⟨fuel - 1, by omega⟩
    simp only [encodeItems] at henc
    split at henc
    · cases henc
    · rename_i a ha
      split at henc
      · cases henc
      · rename_i b hb
        simp only [Option.some.injEq] at henc
        subst henc
        simp only [observeList] at hobs
        split at hobs
        · rename_i o os0 ho hos
          simp only [Option.some.injEq] at hobs
          subst hobs
          simp only [fixedDecOkItems, Bool.and_eq_true] at hfix
          simp only [depthItems] at hdepth
          simp only [maxLenItems] at hmax
          simp only [sizeItems] at hfuel
          obtain ⟨o', hr, ho1, _⟩ := hall v (List.mem_cons_self) item a o depth f h ha ho hfix.1
            (by omega) (by omega) (by omega) hh
          obtain ⟨os', hr', hos'⟩ := ih (fun w hw => hall w (List.mem_cons_of_mem _ hw)) b os0 depth f
            nr (o' :: acc) hb hos hfix.2 (by omega) (by omega) (by omega)
          refine ⟨o' :: os', ?_, fun hany => by rw [ho1 hany, hos' hany]⟩
          rw [deSeqLoop]
          simp only [reduceCtorEq, if_false, List.length_cons, Option.map_none]
          refine Reads.bind_nil (reads_hasMore_succ cfg ign vs.length nr) ?_
          simp only [Bool.not_true, Bool.false_eq_true, if_false]
          refine Reads.bind (e2 := b ++ [0]) hr ?_ (by simp)
          refine hr'.congr rfl rfl (by simp)
        · cases hobs


/-- a whole array body: the count, the items, the end marker (or just the end marker) -/
theorem seq_ok (item : Node) (ign : Bool) (h : Hint) (hh : h = .any ∨ h = .ignored)
    (vs : List Value) (hall : ∀ v ∈ vs, DeOK cfg S v)
    (body : Bytes) (os : List Out) (depth fuel : Nat)
    (henc : encodeItems S item vs = some body) (hobs : observeList S item vs = some os)
    (hfix : fixedDecOkItems S item vs = true) (hdepth : depthItems vs ≤ depth)
    (hmax : maxLenItems vs ≤ cfg.maxSeqSize) (hlen : vs.length ≤ cfg.maxSeqSize)
    (h63 : vs.length < 2 ^ 63) (hfuel : 3 * sizeItems vs + 2 ≤ fuel) :
    ∃ os', Reads (deSeqLoop deExtModel cfg S fuel item depth ign h none {} [])
        ((if vs.isEmpty then [] else encodeLong vs.length ++ body) ++ [0]) os' ∧
      (h = .any → os' = os) := by
  cases vs with
  | nil =>
    obtain ⟨os', hr, ho⟩ := seqLoop_ok cfg S item ign h hh [] hall body os depth fuel 0 [] henc hobs
      hfix hdepth hmax (by omega)
    simp only [encodeItems, Option.some.injEq] at henc
    subst henc
    exact ⟨os', hr.congr rfl (by simp) (by simp), ho⟩
  | cons v vs =>
    obtain ⟨f, rfl⟩ : ∃ f, fuel = f + 1 := ⟨fuel - 1, by omega⟩
    simp only [encodeItems] at henc
    split at henc
    · cases henc
    · rename_i a ha
      split at henc
      · cases henc
      · rename_i b hb
        simp only [Option.some.injEq] at henc
        subst henc
        simp only [observeList] at hobs
        split at hobs
        · rename_i o os0 ho hos
          simp only [Option.some.injEq] at hobs
          subst hobs
          simp only [fixedDecOkItems, Bool.and_eq_true] at hfix
          simp only [depthItems] at hdepth
          simp only [maxLenItems] at hmax
          simp only [sizeItems] at hfuel
          simp only [List.length_cons] at hlen h63
          obtain ⟨o', hr, ho1, _⟩ := hall v (List.mem_cons_self) item a o depth f h ha ho hfix.1
            (by omega) (by omega) (by omega) hh
          obtain ⟨os', hr', hos'⟩ := seqLoop_ok cfg S item ign h hh vs
            (fun w hw => hall w (List.mem_cons_of_mem _ hw)) b os0 depth f
            (vs.length + 1) [o'] hb hos hfix.2 (by omega) (by omega) (by omega)
          refine ⟨o' :: os', ?_, fun hany => by rw [ho1 hany, hos' hany]⟩
          rw [deSeqLoop]
          simp only [reduceCtorEq, if_false, List.length_cons, Option.map_none, List.isEmpty_cons,
            Bool.false_eq_true]
          refine Reads.bind (e2 := a ++ (b ++ [0]))
            (reads_hasMore_count cfg ign 0 (vs.length + 1) (by omega) h63 (by omega)) ?_
            (by simp)
          simp only [Bool.not_true, Bool.false_eq_true, if_false, Nat.add_sub_cancel, Nat.zero_add]
          refine Reads.bind hr ?_ rfl
          exact hr'.congr rfl rfl (by simp)
        · cases hobs

theorem mapLoop_ok (item : Node) (ign : Bool) (h : Hint) (hh : h = .any ∨ h = .ignored) :
    ∀ (es : List (String × Value)), (∀ kv ∈ es, DeOK cfg S kv.2) →
    ∀ (body : Bytes) (os : List (Out × Out)) (depth fuel nr : Nat) (acc : List (Out × Out)),
      encodeEntries S item es = some body → observeEntries S item es = some os →
      fixedDecOkEntries S item es = true → depthEntries es ≤ depth →
      maxLenEntries es ≤ cfg.maxSeqSize → 3 * sizeEntries es + 1 ≤ fuel →
      ∃ os', Reads (deMapLoop deExtModel cfg S fuel item depth ign h ⟨es.length, nr⟩ acc)
          (body ++ [0]) (acc.reverse ++ os') ∧ (h = .any → os' = os) := by
  intro es
  induction es with
  | nil =>
    intro _ body os depth fuel nr acc henc hobs _ _ _ hfuel
    obtain ⟨f, rfl⟩ : ∃ f, fuel = f + 1 := ⟨fuel - 1, by omega⟩
    simp only [encodeEntries, Option.some.injEq] at henc
    simp only [observeEntries, Option.some.injEq] at hobs
    subst henc hobs
    refine ⟨[], ?_, fun _ => rfl⟩
    rw [deMapLoop]
    simp only [List.length_nil, List.nil_append, List.append_nil]
    refine Reads.bind_right_nil (reads_hasMore_end cfg ign nr) ?_
    exact Reads.pure _
  | cons kv es ih =>
    obtain ⟨k, v⟩ := kv
    intro hall body os depth fuel nr acc henc hobs hfix hdepth hmax hfuel
    obtain ⟨f, rfl⟩ : ∃ f, fuel = f + 1 := ⟨fuel - 1, by omega⟩
    simp only [encodeEntries] at henc
    split at henc
    · cases henc
    · rename_i a ha
      split at henc
      · cases henc
      · rename_i b hb
        split at henc
        · rename_i hk
          simp only [Option.some.injEq] at henc
          subst henc
          simp only [observeEntries] at hobs
          split at hobs
          · rename_i o os0 ho hos
            simp only [Option.some.injEq] at hobs
            subst hobs
            simp only [fixedDecOkEntries, Bool.and_eq_true] at hfix
            simp only [depthEntries] at hdepth
            simp only [maxLenEntries] at hmax
            simp only [sizeEntries] at hfuel
            have hv : DeOK cfg S v := hall (k, v) (List.mem_cons_self)
            rcases hh with rfl | rfl
            · obtain ⟨o', hr, ho1, ho2⟩ := hv item a o depth f .any ha ho hfix.1
                (by omega) (by omega) (by omega) (Or.inl rfl)
              obtain ⟨os', hr', hos'⟩ := ih (fun w hw => hall w (List.mem_cons_of_mem _ hw)) b os0
                depth f nr ((.str k true, o') :: acc) hb hos hfix.2 (by omega) (by omega) (by omega)
              refine ⟨(.str k true, o') :: os', ?_, fun hany => by rw [ho1 rfl, hos' hany]⟩
              rw [deMapLoop]
              simp only [List.length_cons]
              refine Reads.bind_nil (reads_hasMore_succ cfg ign es.length nr) ?_
              simp only [Bool.not_true, Bool.false_eq_true, if_false]
              unfold lenPrefixed
              refine Reads.bind (e2 := utf8 k ++ (a ++ (b ++ [0]))) (reads_readLen _ hk) ?_ (by simp)
              refine Reads.bind (reads_readSlice (utf8 k) _ rfl) ?_ rfl
              simp only [Hint.key, bytesToStr?, fromUTF8?_utf8]
              refine Reads.bind_nil (Reads.pure _) ?_
              simp only [Hint.valFor]
              refine Reads.bind hr ?_ rfl
              exact hr'.congr rfl rfl (by simp)
            · obtain ⟨o', hr, ho1, ho2⟩ := hv item a o depth f .ignored ha ho hfix.1
                (by omega) (by omega) (by omega) (Or.inr rfl)
              obtain ⟨os', hr', hos'⟩ := ih (fun w hw => hall w (List.mem_cons_of_mem _ hw)) b os0
                depth f nr ((.unit, o') :: acc) hb hos hfix.2 (by omega) (by omega) (by omega)
              refine ⟨(.unit, o') :: os', ?_, fun hany => by cases hany⟩
              rw [deMapLoop]
              simp only [List.length_cons]
              refine Reads.bind_nil (reads_hasMore_succ cfg ign es.length nr) ?_
              simp only [Bool.not_true, Bool.false_eq_true, if_false]
              unfold lenPrefixed
              refine Reads.bind (e2 := utf8 k ++ (a ++ (b ++ [0]))) (reads_readLen _ hk) ?_ (by simp)
              refine Reads.bind (reads_readSlice (utf8 k) _ rfl) ?_ rfl
              simp only [Hint.key]
              refine Reads.bind_nil (Reads.pure _) ?_
              simp only [Hint.valFor]
              refine Reads.bind hr ?_ rfl
              exact hr'.congr rfl rfl (by simp)
          · cases hobs
        · cases henc


/-- a whole map body -/
theorem map_ok (item : Node) (ign : Bool) (h : Hint) (hh : h = .any ∨ h = .ignored)
    (es : List (String × Value)) (hall : ∀ kv ∈ es, DeOK cfg S kv.2)
    (body : Bytes) (os : List (Out × Out)) (depth fuel : Nat)
    (henc : encodeEntries S item es = some body) (hobs : observeEntries S item es = some os)
    (hfix : fixedDecOkEntries S item es = true) (hdepth : depthEntries es ≤ depth)
    (hmax : maxLenEntries es ≤ cfg.maxSeqSize) (hlen : es.length ≤ cfg.maxSeqSize)
    (h63 : es.length < 2 ^ 63) (hfuel : 3 * sizeEntries es + 2 ≤ fuel) :
    ∃ os', Reads (deMapLoop deExtModel cfg S fuel item depth ign h {} [])
        ((if es.isEmpty then [] else encodeLong es.length ++ body) ++ [0]) os' ∧
      (h = .any → os' = os) := by
  cases es with
  | nil =>
    obtain ⟨os', hr, ho⟩ := mapLoop_ok cfg S item ign h hh [] hall body os depth fuel 0 [] henc hobs
      hfix hdepth hmax (by omega)
    simp only [encodeEntries, Option.some.injEq] at henc
    subst henc
    exact ⟨os', hr.congr rfl (by simp) (by simp), ho⟩
  | cons kv es =>
    obtain ⟨k, v⟩ := kv
    obtain ⟨f, rfl⟩ : ∃ f, fuel = f + 1 := ⟨fuel - 1, by omega⟩
    simp only [encodeEntries] at henc
    split at henc
    · cases henc
    · rename_i a ha
      split at henc
      · cases henc
      · rename_i b hb
        split at henc
        · rename_i hk
          simp only [Option.some.injEq] at henc
          subst henc
          simp only [observeEntries] at hobs
          split at hobs
          · rename_i o os0 ho hos
            simp only [Option.some.injEq] at hobs
            subst hobs
            simp only [fixedDecOkEntries, Bool.and_eq_true] at hfix
            simp only [depthEntries] at hdepth
            simp only [maxLenEntries] at hmax
            simp only [sizeEntries] at hfuel
            simp only [List.length_cons] at hlen h63
            have hv : DeOK cfg S v := hall (k, v) (List.mem_cons_self)
            rcases hh with rfl | rfl
            · obtain ⟨o', hr, ho1, ho2⟩ := hv item a o depth f .any ha ho hfix.1
                (by omega) (by omega) (by omega) (Or.inl rfl)
              obtain ⟨os', hr', hos'⟩ := mapLoop_ok cfg S item ign .any (Or.inl rfl) es
                (fun w hw => hall w (List.mem_cons_of_mem _ hw)) b os0
                depth f (es.length + 1) [(.str k true, o')] hb hos hfix.2 (by omega) (by omega)
                (by omega)
              refine ⟨(.str k true, o') :: os', ?_, fun hany => by rw [ho1 rfl, hos' hany]⟩
              rw [deMapLoop]
              simp only [List.length_cons, List.isEmpty_cons, Bool.false_eq_true, if_false]
              refine Reads.bind (e2 := lenPrefixed (utf8 k) ++ a ++ b ++ [0])
                (reads_hasMore_count cfg ign 0 (es.length + 1) (by omega) h63 (by omega)) ?_
                (by simp)
              simp only [Bool.not_true, Bool.false_eq_true, if_false, Nat.add_sub_cancel,
                Nat.zero_add]
              unfold lenPrefixed
              refine Reads.bind (e2 := utf8 k ++ (a ++ (b ++ [0]))) (reads_readLen _ hk) ?_ (by simp)
              refine Reads.bind (reads_readSlice (utf8 k) _ rfl) ?_ rfl
              simp only [Hint.key, bytesToStr?, fromUTF8?_utf8]
              refine Reads.bind_nil (Reads.pure _) ?_
              simp only [Hint.valFor]
              refine Reads.bind hr ?_ rfl
              exact hr'.congr rfl rfl (by simp)
            · obtain ⟨o', hr, ho1, ho2⟩ := hv item a o depth f .ignored ha ho hfix.1
                (by omega) (by omega) (by omega) (Or.inr rfl)
              obtain ⟨os', hr', hos'⟩ := mapLoop_ok cfg S item ign .ignored (Or.inr rfl) es
                (fun w hw => hall w (List.mem_cons_of_mem _ hw)) b os0
                depth f (es.length + 1) [(.unit, o')] hb hos hfix.2 (by omega) (by omega)
                (by omega)
              refine ⟨(.unit, o') :: os', ?_, fun hany => by cases hany⟩
              rw [deMapLoop]
              simp only [List.length_cons, List.isEmpty_cons, Bool.false_eq_true, if_false]
              refine Reads.bind (e2 := lenPrefixed (utf8 k) ++ a ++ b ++ [0])
                (reads_hasMore_count cfg ign 0 (es.length + 1) (by omega) h63 (by omega)) ?_
                (by simp)
              simp only [Bool.not_true, Bool.false_eq_true, if_false, Nat.add_sub_cancel,
                Nat.zero_add]
              unfold lenPrefixed
              refine Reads.bind (e2 := utf8 k ++ (a ++ (b ++ [0]))) (reads_readLen _ hk) ?_ (by simp)
              refine Reads.bind (reads_readSlice (utf8 k) _ rfl) ?_ rfl
              simp only [Hint.key]
              refine Reads.bind_nil (Reads.pure _) ?_
              simp only [Hint.valFor]
              refine Reads.bind hr ?_ rfl
              exact hr'.congr rfl rfl (by simp)
          · cases hobs
        · cases henc

theorem fields_ok (h : Hint) (hh : h = .any ∨ h = .ignored) :
    ∀ (fields : List (String × Nat)) (vals : List Value), (∀ v ∈ vals, DeOK cfg S v) →
    ∀ (body : Bytes) (os : List (Out × Out)) (depth fuel : Nat) (acc : List (Out × Out)),
      encodeFields S (fields.map (·.2)) vals = some body → observeFields S fields vals = some os →
      fixedDecOkFields S fields vals = true → depthItems vals ≤ depth →
      maxLenItems vals ≤ cfg.maxSeqSize → 3 * sizeItems vals ≤ fuel →
      ∃ os', Reads (deRecordFields deExtModel cfg S fuel fields depth h acc) body
          (acc.reverse ++ os') ∧ (h = .any → os' = os) := by
  intro fields
  induction fields with
  | nil =>
    intro vals _ body os depth fuel acc henc hobs _ _ _ _
    cases vals with
    | nil =>
      simp only [List.map_nil, encodeFields, Option.some.injEq] at henc
      simp only [observeFields, Option.some.injEq] at hobs
      subst henc hobs
      refine ⟨[], ?_, fun _ => rfl⟩
      rw [deRecordFields]
      exact (Reads.pure _).congr rfl rfl (by simp)
    | cons v vs => simp [encodeFields] at henc
  | cons fk fields ih =>
    obtain ⟨name, k⟩ := fk
    intro vals hall body os depth fuel acc henc hobs hfix hdepth hmax hfuel
    cases vals with
    | nil => simp [encodeFields] at henc
    | cons v vs =>
      simp only [sizeItems] at hfuel
      obtain ⟨f, rfl⟩ : ∃ f, fuel = f + 1 := ⟨fuel - 1, by omega⟩
      simp only [List.map_cons, encodeFields, nodeOf] at henc
      split at henc
      · cases henc
      · rename_i fnode hnode
        split at henc
        · cases henc
        · rename_i a ha
          split at henc
          · cases henc
          · rename_i b hb
            simp only [Option.some.injEq] at henc
            subst henc
            simp only [observeFields, hnode] at hobs
            split at hobs
            · rename_i o os0 ho hos
              simp only [Option.some.injEq] at hobs
              subst hobs
              simp only [fixedDecOkFields, hnode, Bool.and_eq_true] at hfix
              simp only [depthItems] at hdepth
              simp only [maxLenItems] at hmax
              have hv : DeOK cfg S v := hall v (List.mem_cons_self)
              rcases hh with rfl | rfl
              · obtain ⟨o', hr, ho1, ho2⟩ := hv fnode a o depth f .any ha ho hfix.1
                  (by omega) (by omega) (by omega) (Or.inl rfl)
                obtain ⟨os', hr', hos'⟩ := ih vs (fun w hw => hall w (List.mem_cons_of_mem _ hw)) b
                  os0 depth f ((.str name false, o') :: acc) hb hos hfix.2 (by omega) (by omega)
                  (by omega)
                refine ⟨(.str name false, o') :: os', ?_, fun hany => by rw [ho1 rfl, hos' hany]⟩
                rw [deRecordFields]
                simp only [hnode, Hint.valFor, Hint.key, offerName]
                refine Reads.bind hr ?_ rfl
                exact hr'.congr rfl rfl (by simp)
              · obtain ⟨o', hr, ho1, ho2⟩ := hv fnode a o depth f .ignored ha ho hfix.1
                  (by omega) (by omega) (by omega) (Or.inr rfl)
                obtain ⟨os', hr', hos'⟩ := ih vs (fun w hw => hall w (List.mem_cons_of_mem _ hw)) b
                  os0 depth f ((.unit, o') :: acc) hb hos hfix.2 (by omega) (by omega)
                  (by omega)
                refine ⟨(.unit, o') :: os', ?_, fun hany => by cases hany⟩
                rw [deRecordFields]
                simp only [hnode, Hint.valFor, Hint.key, offerName]
                refine Reads.bind hr ?_ rfl
                exact hr'.congr rfl rfl (by simp)
            · cases hobs

end Avro.Impl

namespace Avro.Impl
open Avro Avro.Spec

/-! ### 7. The induction over the value -/

/-- the statement proved by induction on `size v` -/
def AllOK (cfg : DeConfig) (S : Schema) (v : Value) : Prop :=
  ∀ (n : Node) (enc : Bytes) (o : Out) (depth : Nat),
    encode S n v = some enc → observe S n v = some o → fixedDecOk S n v = true →
    depthOf v ≤ depth → maxLen v ≤ cfg.maxSeqSize →
    (∀ fuel h, 3 * size v ≤ fuel + 2 → (h = .any ∨ h = .ignored) →
       ∃ o', Reads (deAny deExtModel cfg S fuel n depth h) enc o' ∧ (h = .any → o' = o)) ∧
    (∀ fuel, 3 * size v ≤ fuel →
      Reads (de deExtModel cfg S fuel n depth false .ignored) enc .unit)

variable (cfg : DeConfig) (S : Schema)

theorem deOK_of_allOK {v : Value} (hv : AllOK cfg S v) : DeOK cfg S v := by
  intro n enc o depth fuel h henc hobs hfix hdepth hmax hfuel hh
  obtain ⟨h1, h2⟩ := hv n enc o depth henc hobs hfix hdepth hmax
  rcases hh with rfl | rfl
  · have := size_pos v
    obtain ⟨f, rfl⟩ : ∃ f, fuel = f + 1 := ⟨fuel - 1, by omega⟩
    obtain ⟨o', hr, ho⟩ := h1 f .any (by omega) (Or.inl rfl)
    refine ⟨o', ?_, ho, fun hc => by cases hc⟩
    rw [de]
    exact hr
  · refine ⟨.unit, h2 fuel hfuel, ?_, fun _ => rfl⟩
    intro hc; cases hc

/-- nodes that `deserialize_ignored_any` hands to `deserialize_any` -/
theorem ignored_of_any {n : Node} {enc : Bytes} {depth : Nat} {P : Out → Prop} (f : Nat)
    (hgen : deIgnored deExtModel cfg S (f + 1) n depth =
      (deAny deExtModel cfg S f n depth .ignored >>= fun _ => pure .unit))
    (hany : ∃ o', Reads (deAny deExtModel cfg S f n depth .ignored) enc o' ∧
      P o') :
    Reads (de deExtModel cfg S (f + 2) n depth false .ignored) enc .unit := by
  obtain ⟨o', hr, _⟩ := hany
  rw [de, hgen]
  exact Reads.bind_right_nil hr (Reads.pure _)

theorem and_of_left {a b : Prop} (ha : a) (hb : a → b) : a ∧ b := ⟨ha, hb ha⟩

/-- second half of `AllOK` for a node that `deserialize_ignored_any` hands to `deserialize_any` -/
macro "ign_generic" : tactic => `(tactic|
  (intro hany fuel hf
   obtain ⟨f, hfeq⟩ : ∃ f, fuel = f + 2 := ⟨fuel - 2, by omega⟩
   subst hfeq
   exact ignored_of_any _ _ f (by simp only [deIgnored]) (hany f .ignored (by omega) (Or.inr rfl))))

/-- open the first half of `AllOK` for a leaf: one unit of fuel, the same output for both hints -/
macro "any_leaf" : tactic => `(tactic|
  (intro fuel h hf hh
   obtain ⟨f, hfeq⟩ : ∃ f, fuel = f + 1 := ⟨fuel - 1, by omega⟩
   subst hfeq
   refine ⟨_, ?_, fun _ => rfl⟩
   rw [deAny]))

theorem durationOut_any (mo d ms : Nat) (h1 : mo < 2 ^ 32) (h2 : d < 2 ^ 32) (h3 : ms < 2 ^ 32) :
    durationOut (leBytes 4 mo ++ leBytes 4 d ++ leBytes 4 ms) .any =
      .map [(.str "months" false, .u32 mo), (.str "days" false, .u32 d),
            (.str "milliseconds" false, .u32 ms)] := by
  have e1 : leToNat (leBytes 4 mo) = mo := by rw [leToNat_leBytes]; exact Nat.mod_eq_of_lt (by omega)
  have e2 : leToNat (leBytes 4 d) = d := by rw [leToNat_leBytes]; exact Nat.mod_eq_of_lt (by omega)
  have e3 : leToNat (leBytes 4 ms) = ms := by rw [leToNat_leBytes]; exact Nat.mod_eq_of_lt (by omega)
  have t1 : ((leBytes 4 mo ++ leBytes 4 d ++ leBytes 4 ms).drop (4 * 0)).take 4 = leBytes 4 mo := by
    rw [List.append_assoc]; exact List.take_left' (by simp)
  have t2 : ((leBytes 4 mo ++ leBytes 4 d ++ leBytes 4 ms).drop (4 * 1)).take 4 = leBytes 4 d := by
    rw [List.append_assoc, List.drop_left' (by simp)]; exact List.take_left' (by simp)
  have t3 : ((leBytes 4 mo ++ leBytes 4 d ++ leBytes 4 ms).drop (4 * 2)).take 4 = leBytes 4 ms := by
    rw [List.drop_left' (by simp)]; exact List.take_of_length_le (by simp)
  simp only [durationOut, Hint.key, offerName, Hint.valFor, isIgnoredHint, Bool.false_eq_true,
    if_false, t1, t2, t3, e1, e2, e3]

theorem allOK_of_size_le : ∀ (N : Nat) (v : Value), size v ≤ N → AllOK cfg S v := by
  intro N
  induction N with
  | zero => intro v hv; have := size_pos v; omega
  | succ N ih =>
    intro v hv n enc o depth henc hobs hfix hdepth hmax
    cases v with
    | null =>
      simp only [encode] at henc
      split at henc <;> simp at henc
      subst henc
      simp only [observe, Option.some.injEq] at hobs
      subst hobs
      simp only [size]
      refine and_of_left ?_ ?_
      · any_leaf
        exact Reads.pure _
      · ign_generic
    | bool b =>
      simp only [encode] at henc
      split at henc <;> simp at henc
      subst henc
      simp only [observe, Option.some.injEq] at hobs
      subst hobs
      simp only [size]
      refine and_of_left ?_ ?_
      · any_leaf
        exact reads_readBool b
      · ign_generic
    | int i =>
      simp only [observe, Option.some.injEq] at hobs
      subst hobs
      simp only [size]
      simp only [encode] at henc
      split at henc <;> simp at henc
      all_goals
        obtain ⟨h32, rfl⟩ := henc
        refine and_of_left ?_ ?_
        · any_leaf
          exact Reads.bind_right_nil (reads_varint_i32 i h32) (Reads.pure _)
      · intro _ fuel hf
        obtain ⟨f, rfl⟩ : ∃ f, fuel = f + 2 := ⟨fuel - 2, by omega⟩
        rw [de, deIgnored]
        exact Reads.bind_right_nil (reads_varint_u32 i h32) (Reads.pure _)
      · ign_generic
      · ign_generic
    | long i =>
      simp only [observe, Option.some.injEq] at hobs
      subst hobs
      simp only [size]
      simp only [encode] at henc
      split at henc <;> simp at henc
      all_goals
        obtain ⟨h64, rfl⟩ := henc
        refine and_of_left ?_ ?_
        · any_leaf
          exact Reads.bind_right_nil (reads_varint_i64 i h64) (Reads.pure _)
      · intro _ fuel hf
        obtain ⟨f, rfl⟩ : ∃ f, fuel = f + 2 := ⟨fuel - 2, by omega⟩
        rw [de, deIgnored]
        exact Reads.bind_right_nil (reads_varint_u64 i h64) (Reads.pure _)
      · ign_generic
      · ign_generic
      · ign_generic
    | float bits =>
      simp only [observe, Option.some.injEq] at hobs
      subst hobs
      simp only [size]
      simp only [encode] at henc
      split at henc <;> simp at henc
      subst henc
      refine and_of_left ?_ ?_
      · any_leaf
        refine Reads.bind_right_nil (reads_readExact _ 4 (by simp)) ?_
        rw [float_bits_roundtrip]
        exact Reads.pure _
      · ign_generic
    | double bits =>
      simp only [observe, Option.some.injEq] at hobs
      subst hobs
      simp only [size]
      simp only [encode] at henc
      split at henc <;> simp at henc
      subst henc
      refine and_of_left ?_ ?_
      · any_leaf
        refine Reads.bind_right_nil (reads_readExact _ 8 (by simp)) ?_
        rw [double_bits_roundtrip]
        exact Reads.pure _
      · ign_generic
    | bytes b =>
      simp only [observe, Option.some.injEq] at hobs
      subst hobs
      simp only [size]
      simp only [encode] at henc
      split at henc <;> simp at henc
      obtain ⟨hl, rfl⟩ := henc
      refine and_of_left ?_ ?_
      · any_leaf
        exact reads_readBytes b hl
      · ign_generic
    | string s =>
      simp only [observe, Option.some.injEq] at hobs
      subst hobs
      simp only [size]
      simp only [encode] at henc
      split at henc <;> simp at henc
      all_goals
        obtain ⟨hl, rfl⟩ := henc
        refine and_of_left ?_ ?_
        · any_leaf
          exact reads_readString s hl
      · intro _ fuel hf
        obtain ⟨f, rfl⟩ : ∃ f, fuel = f + 2 := ⟨fuel - 2, by omega⟩
        rw [de, deIgnored]
        unfold lenPrefixed
        refine Reads.bind (reads_readLen _ hl) ?_ rfl
        exact Reads.bind_right_nil (reads_readSlice _ _ rfl) (Reads.pure _)
      · ign_generic
    | enum idx =>
      simp only [size]
      simp only [encode] at henc
      split at henc <;> simp at henc
      rename_i nm syms
      obtain ⟨⟨hi, hl⟩, rfl⟩ := henc
      simp only [observe, List.getElem?_eq_getElem hi, Option.map_some, Option.some.injEq] at hobs
      subst hobs
      refine and_of_left ?_ ?_
      · any_leaf
        refine Reads.bind_right_nil (reads_readLen idx hl) ?_
        simp only [List.getElem?_eq_getElem hi]
        exact Reads.pure _
      · intro _ fuel hf
        obtain ⟨f, rfl⟩ : ∃ f, fuel = f + 2 := ⟨fuel - 2, by omega⟩
        rw [de, deIgnored]
        exact Reads.bind_right_nil (reads_varint_u64 _ (inI64_of_lt hl)) (Reads.pure _)
    | fixed b =>
      simp only [observe, Option.some.injEq] at hobs
      subst hobs
      simp only [size]
      simp only [encode] at henc
      split at henc <;> simp at henc
      obtain ⟨hl, rfl⟩ := henc
      refine and_of_left ?_ ?_
      · any_leaf
        exact Reads.bind_right_nil (reads_readSlice _ _ hl) (Reads.pure _)
      · ign_generic
    | decimal u =>
      simp only [size]
      simp only [encode] at henc
      split at henc
      · rename_i sc pr
        simp only [Option.map_eq_some_iff] at henc
        obtain ⟨m, hm, rfl⟩ := henc
        simp only [observe, Option.map_eq_some_iff] at hobs
        obtain ⟨str, hstr, rfl⟩ := hobs
        have hlen := twosComplementBE_length hm
        have h16 := minimalLen_le_16 u (decToStringModel_some hstr).1
        have hu : i128OfBE m = u := by rw [i128OfBE_eq]; exact fromTwosComplementBE_of_twos hm
        refine and_of_left ?_ ?_
        · any_leaf
          exact reads_readDecimal_bytes deExtModel sc m u str (by omega) hu hstr
        · ign_generic
      · rename_i sc pr nm sz
        simp only [observe, Option.map_eq_some_iff] at hobs
        obtain ⟨str, hstr, rfl⟩ := hobs
        simp only [fixedDecOk, decide_eq_true_eq] at hfix
        have hlen := twosComplementBE_length henc
        have hu : i128OfBE enc = u := by rw [i128OfBE_eq]; exact fromTwosComplementBE_of_twos henc
        refine and_of_left ?_ ?_
        · any_leaf
          exact reads_readDecimal_fixed deExtModel sc nm sz enc u str hlen hfix hu hstr
        · ign_generic
      · simp at henc
    | bigDecimal u scale =>
      simp only [size]
      simp only [encode] at henc
      split at henc
      · split at henc
        · simp only [Option.map_eq_some_iff] at henc
          obtain ⟨m, hm, rfl⟩ := henc
          simp only [observe, Option.map_eq_some_iff] at hobs
          obtain ⟨str, hstr, rfl⟩ := hobs
          have hlen := twosComplementBE_length hm
          have h16 := minimalLen_le_16 u (decToStringModel_some hstr).1
          have hu : i128OfBE m = u := by rw [i128OfBE_eq]; exact fromTwosComplementBE_of_twos hm
          refine and_of_left ?_ ?_
          · any_leaf
            exact reads_readDecimal_big deExtModel scale m u str (by omega)
              (decToStringModel_some hstr).2 hu hstr
          · ign_generic
        · simp at henc
      · simp at henc
    | duration mo d ms =>
      simp only [observe, Option.some.injEq] at hobs
      subst hobs
      simp only [size]
      simp only [encode] at henc
      split at henc <;> simp at henc
      obtain ⟨⟨h1, h2, h3⟩, rfl⟩ := henc
      refine and_of_left ?_ ?_
      · intro fuel h hf hh
        obtain ⟨f, rfl⟩ : ∃ f, fuel = f + 1 := ⟨fuel - 1, by omega⟩
        refine ⟨durationOut (leBytes 4 mo ++ (leBytes 4 d ++ leBytes 4 ms)) h, ?_, fun hany => ?_⟩
        · rw [deAny]
          exact Reads.bind_right_nil (reads_readExact _ 12 (by simp)) (Reads.pure _)
        · subst hany
          rw [← List.append_assoc]
          exact durationOut_any mo d ms h1 h2 h3
      · intro _ fuel hf
        obtain ⟨f, rfl⟩ : ∃ f, fuel = f + 2 := ⟨fuel - 2, by omega⟩
        rw [de, deIgnored]
        exact Reads.bind_right_nil (reads_readExact _ 12 (by simp)) (Reads.pure _)
    | array items =>
      simp only [encode, nodeOf] at henc
      split at henc
      · rename_i k
        split at henc
        · cases henc
        · rename_i item hitem
          split at henc
          · cases henc
          · rename_i body hbody
            split at henc
            · rename_i h63
              simp only [Option.some.injEq] at henc
              subst henc
              simp only [observe, hitem, Option.map_eq_some_iff] at hobs
              obtain ⟨os, hos, rfl⟩ := hobs
              simp only [fixedDecOk, hitem] at hfix
              simp only [depthOf] at hdepth
              simp only [maxLen] at hmax
              simp only [size] at hv ⊢
              have hall : ∀ v ∈ items, DeOK cfg S v := fun v hv' =>
                deOK_of_allOK cfg S (ih v (by have := size_lt_sizeItems hv'; omega))
              obtain ⟨d, rfl⟩ : ∃ d, depth = d + 1 := ⟨depth - 1, by omega⟩
              refine and_of_left ?_ ?_
              · intro fuel h hf hh
                obtain ⟨f, rfl⟩ : ∃ f, fuel = f + 1 := ⟨fuel - 1, by omega⟩
                obtain ⟨os', hr, ho⟩ := seq_ok cfg S item false h.elem
                  (by rcases hh with rfl | rfl <;> simp [Hint.elem]) items hall body os d f hbody hos
                  hfix (by omega) (by omega) (by omega) h63 (by omega)
                refine ⟨.seq os', ?_, fun hany => by rw [ho (by subst hany; rfl)]⟩
                rw [deAny]
                simp only [hitem]
                refine Reads.bind_nil (reads_decDepth d) ?_
                have hmi : h.maxItems = none := by rcases hh with rfl | rfl <;> rfl
                rw [hmi]
                exact Reads.bind_right_nil hr (Reads.pure _)
              · intro _ fuel hf
                obtain ⟨f, rfl⟩ : ∃ f, fuel = f + 2 := ⟨fuel - 2, by omega⟩
                obtain ⟨os', hr, _⟩ := seq_ok cfg S item true .ignored (Or.inr rfl) items hall body
                  os d f hbody hos hfix (by omega) (by omega) (by omega) h63 (by omega)
                rw [de, deIgnored]
                simp only [hitem]
                refine Reads.bind_nil (reads_decDepth d) ?_
                exact Reads.bind_right_nil hr (Reads.pure _)
            · cases henc
      · cases henc
    | map entries =>
      simp only [encode, nodeOf] at henc
      split at henc
      · rename_i k
        split at henc
        · cases henc
        · rename_i item hitem
          split at henc
          · cases henc
          · rename_i body hbody
            split at henc
            · rename_i h63
              simp only [Option.some.injEq] at henc
              subst henc
              simp only [observe, hitem, Option.map_eq_some_iff] at hobs
              obtain ⟨os, hos, rfl⟩ := hobs
              simp only [fixedDecOk, hitem] at hfix
              simp only [depthOf] at hdepth
              simp only [maxLen] at hmax
              simp only [size] at hv ⊢
              have hall : ∀ kv ∈ entries, DeOK cfg S kv.2 := fun kv hkv =>
                deOK_of_allOK cfg S (ih kv.2 (by
                  have := size_lt_sizeEntries (k := kv.1) (v := kv.2) hkv; omega))
              obtain ⟨d, rfl⟩ : ∃ d, depth = d + 1 := ⟨depth - 1, by omega⟩
              refine and_of_left ?_ ?_
              · intro fuel h hf hh
                obtain ⟨f, rfl⟩ : ∃ f, fuel = f + 1 := ⟨fuel - 1, by omega⟩
                obtain ⟨os', hr, ho⟩ := map_ok cfg S item false h hh entries hall body os d f hbody
                  hos hfix (by omega) (by omega) (by omega) h63 (by omega)
                refine ⟨.map os', ?_, fun hany => by rw [ho hany]⟩
                rw [deAny]
                simp only [hitem]
                refine Reads.bind_nil (reads_decDepth d) ?_
                exact Reads.bind_right_nil hr (Reads.pure _)
              · intro _ fuel hf
                obtain ⟨f, rfl⟩ : ∃ f, fuel = f + 2 := ⟨fuel - 2, by omega⟩
                obtain ⟨os', hr, _⟩ := map_ok cfg S item true .ignored (Or.inr rfl) entries hall body
                  os d f hbody hos hfix (by omega) (by omega) (by omega) h63 (by omega)
                rw [de, deIgnored]
                simp only [hitem]
                refine Reads.bind_nil (reads_decDepth d) ?_
                exact Reads.bind_right_nil hr (Reads.pure _)
            · cases henc
      · cases henc
    | union idx v =>
      simp only [encode, nodeOf] at henc
      split at henc
      · rename_i vs
        split at henc
        · cases henc
        · rename_i k hk
          split at henc
          · cases henc
          · rename_i branch hbranch
            split at henc
            · cases henc
            · rename_i body hbody
              split at henc
              · rename_i h63
                simp only [Option.some.injEq] at henc
                subst henc
                simp only [observe, hk, hbranch] at hobs
                simp only [fixedDecOk, hk, hbranch] at hfix
                simp only [depthOf] at hdepth
                simp only [maxLen] at hmax
                simp only [size] at hv ⊢
                obtain ⟨d, rfl⟩ : ∃ d, depth = d + 1 := ⟨depth - 1, by omega⟩
                obtain ⟨hv1, _⟩ := ih v (by omega) branch body o d hbody hobs hfix (by omega) hmax
                refine and_of_left ?_ ?_
                · intro fuel h hf hh
                  obtain ⟨f, rfl⟩ : ∃ f, fuel = f + 1 := ⟨fuel - 1, by omega⟩
                  obtain ⟨o', hr, ho⟩ := hv1 f h (by omega) hh
                  refine ⟨o', ?_, ho⟩
                  rw [deAny]
                  refine Reads.bind (reads_readLen idx h63) ?_ rfl
                  simp only [hk, hbranch]
                  exact Reads.bind_nil (reads_decDepth d) hr
                · ign_generic
              · cases henc
      · cases henc
    | record vals =>
      simp only [encode] at henc
      split at henc
      · rename_i nm fields
        simp only [observe, Option.map_eq_some_iff] at hobs
        obtain ⟨os, hos, rfl⟩ := hobs
        simp only [fixedDecOk] at hfix
        simp only [depthOf] at hdepth
        simp only [maxLen] at hmax
        simp only [size] at hv ⊢
        have hall : ∀ v ∈ vals, DeOK cfg S v := fun v hv' =>
          deOK_of_allOK cfg S (ih v (by have := size_lt_sizeItems hv'; omega))
        obtain ⟨d, rfl⟩ : ∃ d, depth = d + 1 := ⟨depth - 1, by omega⟩
        refine and_of_left ?_ ?_
        · intro fuel h hf hh
          obtain ⟨f, rfl⟩ : ∃ f, fuel = f + 1 := ⟨fuel - 1, by omega⟩
          obtain ⟨os', hr, ho⟩ := fields_ok cfg S h hh fields vals hall enc os d f [] henc hos hfix
            (by omega) (by omega) (by omega)
          refine ⟨.map os', ?_, fun hany => by rw [ho hany]⟩
          rw [deAny]
          refine Reads.bind_nil (reads_decDepth d) ?_
          exact Reads.bind_right_nil (hr.congr rfl rfl (by simp)) (Reads.pure _)
        · ign_generic
      · cases henc

end Avro.Impl

namespace Avro.Impl
open Avro Avro.Spec

variable (cfg : DeConfig) (S : Schema)

theorem allOK (v : Value) : AllOK cfg S v := allOK_of_size_le cfg S (size v) v (Nat.le_refl _)
theorem deOK (v : Value) : DeOK cfg S v := deOK_of_allOK cfg S (allOK cfg S v)

/-! ### 8. A struct target that lists only some of the fields -/

/-- what a struct target listing the fields `fs` keeps of an entry of the full read -/
def maskEntry (fs : List (String × Hint)) : Out × Out → Out × Out
  | (.str name b, o) => (.str name b, if (lookupHint name fs).isSome then o else .unit)
  | e => e

theorem lookupHint_any (name : String) : ∀ (fs : List (String × Hint)), (∀ p ∈ fs, p.2 = .any) →
    lookupHint name fs = none ∨ lookupHint name fs = some .any := by
  intro fs
  induction fs with
  | nil => intro _; exact Or.inl rfl
  | cons p fs ih =>
    obtain ⟨k, fh⟩ := p
    intro hall
    simp only [lookupHint]
    split
    · right
      have := hall (k, fh) List.mem_cons_self
      simp only at this
      rw [this]
    · exact ih (fun q hq => hall q (List.mem_cons_of_mem _ hq))

theorem fields_struct_ok (fs : List (String × Hint)) (hfs : ∀ p ∈ fs, p.2 = .any) :
    ∀ (fields : List (String × Nat)) (vals : List Value)
      (body : Bytes) (os : List (Out × Out)) (depth fuel : Nat) (acc : List (Out × Out)),
      encodeFields S (fields.map (·.2)) vals = some body → observeFields S fields vals = some os →
      fixedDecOkFields S fields vals = true → depthItems vals ≤ depth →
      maxLenItems vals ≤ cfg.maxSeqSize → 3 * sizeItems vals ≤ fuel →
      Reads (deRecordFields deExtModel cfg S fuel fields depth (.struct fs) acc) body
          (acc.reverse ++ os.map (maskEntry fs)) := by
  intro fields
  induction fields with
  | nil =>
    intro vals body os depth fuel acc henc hobs _ _ _ _
    cases vals with
    | nil =>
      simp only [List.map_nil, encodeFields, Option.some.injEq] at henc
      simp only [observeFields, Option.some.injEq] at hobs
      subst henc hobs
      rw [deRecordFields]
      exact (Reads.pure _).congr rfl rfl (by simp)
    | cons v vs => simp [encodeFields] at henc
  | cons fk fields ih =>
    obtain ⟨name, k⟩ := fk
    intro vals body os depth fuel acc henc hobs hfix hdepth hmax hfuel
    cases vals with
    | nil => simp [encodeFields] at henc
    | cons v vs =>
      simp only [sizeItems] at hfuel
      obtain ⟨f, rfl⟩ : ∃ f, fuel = f + 1 := ⟨fuel - 1, by omega⟩
      simp only [List.map_cons, encodeFields, nodeOf] at henc
      split at henc
      · cases henc
      · rename_i fnode hnode
        split at henc
        · cases henc
        · rename_i a ha
          split at henc
          · cases henc
          · rename_i b hb
            simp only [Option.some.injEq] at henc
            subst henc
            simp only [observeFields, hnode] at hobs
            split at hobs
            · rename_i o os0 ho hos
              simp only [Option.some.injEq] at hobs
              subst hobs
              simp only [fixedDecOkFields, hnode, Bool.and_eq_true] at hfix
              simp only [depthItems] at hdepth
              simp only [maxLenItems] at hmax
              have hv : DeOK cfg S v := deOK cfg S v
              rcases lookupHint_any name fs hfs with hlk | hlk
              · obtain ⟨o', hr, ho1, ho2⟩ := hv fnode a o depth f .ignored ha ho hfix.1
                  (by omega) (by omega) (by omega) (Or.inr rfl)
                have hr' := ih vs b os0 depth f ((.str name false, o') :: acc) hb hos hfix.2
                  (by omega) (by omega) (by omega)
                rw [deRecordFields]
                simp only [hnode, Hint.valFor, Hint.key, offerName, hlk, Option.getD_none]
                refine Reads.bind hr ?_ rfl
                refine hr'.congr rfl rfl ?_
                simp [maskEntry, hlk, ho2 rfl]
              · obtain ⟨o', hr, ho1, ho2⟩ := hv fnode a o depth f .any ha ho hfix.1
                  (by omega) (by omega) (by omega) (Or.inl rfl)
                have hr' := ih vs b os0 depth f ((.str name false, o') :: acc) hb hos hfix.2
                  (by omega) (by omega) (by omega)
                rw [deRecordFields]
                simp only [hnode, Hint.valFor, Hint.key, offerName, hlk, Option.getD_some]
                refine Reads.bind hr ?_ rfl
                refine hr'.congr rfl rfl ?_
                simp [maskEntry, hlk, ho1 rfl]
            · cases hobs

/-- from `Reads` to the statement on a concrete slice state -/
theorem Reads.run {α : Type} {m : DeM α} {enc : Bytes} {a : α} (h : Reads m enc a)
    (rest : Bytes) (s : RState) (hs : s.isSlice = true) (hl : s.limit = none) (ha : s.avail = 0)
    (hr : s.rest = enc ++ rest) : m s = (.ok a, { s with rest := rest }) := by
  have := h s ⟨hs, ha⟩ rest
  have e1 : s.mk' (enc ++ rest) none = s := by
    obtain ⟨isS, r, av, sched, lc, ma, scr, lim⟩ := s
    simp only at hl hr
    subst hl hr
    rfl
  have e2 : s.mk' rest none = { s with rest := rest } := by
    obtain ⟨isS, r, av, sched, lc, ma, scr, lim⟩ := s
    simp only at hl
    subst hl
    rfl
  rw [e1, e2] at this
  exact this

end Avro.Impl

namespace Avro.Impl
open Avro Avro.Spec

/-! ### 9. The side condition on fixed decimals, from the schema -/

/-- a decimal on a `fixed` fits an `i128` -/
def Node.fixedDecFits : Node → Bool
  | .decimal _ _ (.fixed _ size) => decide (size ≤ 16)
  | _ => true

/-- every decimal-on-`fixed` node of the schema has at most 16 bytes -/
abbrev Schema.fixedDecFits (S : Schema) : Prop :=
  ∀ (k : Nat) (n : Node), S[k]? = some n → n.fixedDecFits = true

theorem fixedDecOk_of_schema (S : Schema) (hS : Schema.fixedDecFits S) :
    ∀ (N : Nat) (v : Value), size v ≤ N → ∀ n : Node, n.fixedDecFits = true →
      fixedDecOk S n v = true := by
  intro N
  induction N with
  | zero => intro v hv; have := size_pos v; omega
  | succ N ih =>
    intro v hv n hn
    cases v with
    | decimal u =>
      simp only [fixedDecOk]
      split
      · simpa [Node.fixedDecFits] using hn
      · rfl
    | union idx v =>
      simp only [size] at hv
      simp only [fixedDecOk]
      split
      · split
        · rfl
        · split
          · rfl
          · rename_i b hb
            exact ih v (by omega) b (hS _ _ hb)
      · rfl
    | array items =>
      simp only [size] at hv
      simp only [fixedDecOk]
      split
      · split
        · rfl
        · rename_i item hitem
          have hi := hS _ _ hitem
          have : ∀ l : List Value, (∀ v ∈ l, size v ≤ N) → fixedDecOkItems S item l = true := by
            intro l
            induction l with
            | nil => intro _; rfl
            | cons a l ihl =>
              intro hl
              simp only [fixedDecOkItems, Bool.and_eq_true]
              exact ⟨ih a (hl a List.mem_cons_self) item hi,
                ihl (fun w hw => hl w (List.mem_cons_of_mem _ hw))⟩
          exact this items (fun w hw => by have := size_lt_sizeItems hw; omega)
      · rfl
    | map entries =>
      simp only [size] at hv
      simp only [fixedDecOk]
      split
      · split
        · rfl
        · rename_i item hitem
          have hi := hS _ _ hitem
          have : ∀ l : List (String × Value), (∀ kv ∈ l, size kv.2 ≤ N) →
              fixedDecOkEntries S item l = true := by
            intro l
            induction l with
            | nil => intro _; rfl
            | cons a l ihl =>
              obtain ⟨k, w⟩ := a
              intro hl
              simp only [fixedDecOkEntries, Bool.and_eq_true]
              exact ⟨ih w (hl (k, w) List.mem_cons_self) item hi,
                ihl (fun w hw => hl w (List.mem_cons_of_mem _ hw))⟩
          exact this entries (fun kv hkv => by
            have := size_lt_sizeEntries (k := kv.1) (v := kv.2) hkv; omega)
      · rfl
    | record vals =>
      simp only [size] at hv
      simp only [fixedDecOk]
      split
      · rename_i nm fields
        have : ∀ (fs : List (String × Nat)) (l : List Value), (∀ v ∈ l, size v ≤ N) →
            fixedDecOkFields S fs l = true := by
          intro fs
          induction fs with
          | nil => intro l _; simp [fixedDecOkFields]
          | cons fk fs ihf =>
            obtain ⟨name, k⟩ := fk
            intro l hl
            cases l with
            | nil => simp [fixedDecOkFields]
            | cons a l =>
              simp only [fixedDecOkFields, Bool.and_eq_true]
              refine ⟨?_, ihf l (fun w hw => hl w (List.mem_cons_of_mem _ hw))⟩
              split
              · rfl
              · rename_i fnode hf
                exact ih a (hl a List.mem_cons_self) fnode (hS _ _ hf)
        exact this fields vals (fun w hw => by have := size_lt_sizeItems hw; omega)
      · rfl
    | null => rfl
    | bool _ => rfl
    | int _ => rfl
    | long _ => rfl
    | float _ => rfl
    | double _ => rfl
    | bytes _ => rfl
    | string _ => rfl
    | enum _ => rfl
    | fixed _ => rfl
    | bigDecimal _ _ => rfl
    | duration _ _ _ => rfl

end Avro.Impl
